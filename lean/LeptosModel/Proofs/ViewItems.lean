import LeptosModel.Proofs.ViewStyle
/-! # Proofs/ViewItems — which cells an attribute item owns, what it writes there, and what one
`build` / `rebuild` step of the item does to the cells -/
namespace Leptos.View
open Leptos.Dom

/-- the cells an item writes (for `class` / `style` strings: every token / property cell) -/
def owns : AttrVal → Cell → Bool
  | .str n _, .named k => k == n
  | .ostr n _, .named k => k == n
  | .bool n _, .named k => k == n
  | .cls _, .cls _ => true
  | .ocls _, .cls _ => true
  | .tcls n _, .cls t => t == n
  | .sty _, .sty _ => true
  | .psty n _, .sty m => m == normProp n
  | .opsty n _, .sty m => m == normProp n
  | _, _ => false

/-- what the item writes into a cell it owns -/
def wval : AttrVal → Cell → Option String
  | .str _ v, _ => some v
  | .ostr _ v, _ => v
  | .bool _ b, _ => if b then some "" else none
  | .cls v, .cls t => if t ∈ classTokens v then some "" else none
  | .ocls (some v), .cls t => if t ∈ classTokens v then some "" else none
  | .tcls _ on, _ => if on then some "" else none
  | .sty v, .sty m => getA (styleDecls v) m
  | .psty _ v, _ => propVal v
  | .opsty _ (some v), _ => propVal v
  | _, _ => none

def validTokB (t : String) : Bool := !t.toList.isEmpty && t.toList.all (fun c => !isAsciiWs c)

theorem validTok_of_B (t : String) (h : validTokB t = true) : validTok t := by
  simp only [validTokB, Bool.and_eq_true, Bool.not_eq_true', List.all_eq_true] at h
  refine ⟨by intro e; simp [e] at h, fun c hc => by simpa using h.2 c hc⟩

/-- the (normalised) property name is usable: not empty, no `;`, no `:` -/
def validPropB (n : String) : Bool :=
  let k := normName (trimL n.toList)
  !k.isEmpty && !k.contains ';' && !k.contains ':'

/-- the (trimmed) value cannot break out of its declaration -/
def validPropValB (v : String) : Bool := !(trimL v.toList).contains ';'

theorem PK_of_valid (n : String) (h : validPropB n = true) : PK (normProp n) := by
  simp only [validPropB, Bool.and_eq_true, Bool.not_eq_true', List.contains_eq_mem,
    decide_eq_false_iff_not] at h
  refine ⟨?_, ?_, ?_, ?_⟩ <;> simp only [normProp, String.toList_ofList]
  · intro e; simp [e] at h
  · exact h.1.2
  · exact h.2
  · exact normTrim_idem _

theorem PV_of_valid (v : String) (h : validPropValB v = true) (hne : (trimL v.toList).isEmpty = false) :
    PV (trimS v) := by
  simp only [validPropValB, Bool.not_eq_true', List.contains_eq_mem, decide_eq_false_iff_not] at h
  refine ⟨?_, ?_, ?_⟩ <;> simp only [trimS, String.toList_ofList]
  · intro e; simp [e] at hne
  · exact h
  · exact trimL_idem _

/-- `style.removeProperty` on cells -/
theorem step_removeProp (d : Dom) (el : Id) (n : String) (r : NodeRec)
    (hg : d.get? el = some r) (hk : r.kind.isElem = true) :
    StepRes d (d.removeCssProperty el n) el r (fun c =>
      match c with
      | .sty m => if m = normProp n then none else cellVal r.attrs (.sty m)
      | c => cellVal r.attrs c) := by
  obtain ⟨⟨r', h1, h2, h3, h4⟩, h5, h6⟩ := removeCssProperty_attrs d el n r hg hk
  refine ⟨⟨r', h1, h2, fun c => ?_⟩, h5, h6⟩
  have hcs : ("class" : String) ≠ "style" := by decide
  cases c with
  | named k =>
    simp only [cellVal]
    by_cases hkk : k = "class" ∨ k = "style"
    · simp [hkk]
    · simp only [hkk, if_false]; exact h3 k (fun e => hkk (Or.inr e))
  | cls t =>
      have e : clsOf r'.attrs = clsOf r.attrs := by simp only [clsOf, h3 "class" hcs]
      simp only [cellVal, e]
  | sty m => simp only [cellVal, h4 m]

/-- `style.setProperty` on cells (a blank value removes) -/
theorem step_prop (d : Dom) (el : Id) (n v : String) (r : NodeRec)
    (hg : d.get? el = some r) (hk : r.kind.isElem = true)
    (hn : validPropB n = true) (hv : validPropValB v = true) :
    StepRes d (d.setCssProperty el n v) el r (fun c =>
      match c with
      | .sty m => if m = normProp n then propVal v else cellVal r.attrs (.sty m)
      | c => cellVal r.attrs c) := by
  by_cases hb : (trimL v.toList).isEmpty = true
  · rw [setCssProperty_blank d el n v hb]
    refine (step_removeProp d el n r hg hk).congr (fun c => ?_)
    cases c <;> simp [propVal, hb]
  · have hb' : (trimL v.toList).isEmpty = false := by simpa using hb
    obtain ⟨⟨r', h1, h2, h3, h4⟩, h5, h6⟩ :=
      setCssProperty_attrs d el n v r hg hk (PK_of_valid n hn) (PV_of_valid v hv hb')
    refine ⟨⟨r', h1, h2, fun c => ?_⟩, h5, h6⟩
    have hcs : ("class" : String) ≠ "style" := by decide
    cases c with
    | named k =>
      simp only [cellVal]
      by_cases hkk : k = "class" ∨ k = "style"
      · simp [hkk]
      · simp only [hkk, if_false]; exact h3 k (fun e => hkk (Or.inr e))
    | cls t =>
      have e : clsOf r'.attrs = clsOf r.attrs := by simp only [clsOf, h3 "class" hcs]
      simp only [cellVal, e]
    | sty m => simp only [cellVal, h4 m, propVal, hb', Bool.false_eq_true, if_false]

/-- the item is one the cell semantics covers: named keys are not `class` / `style`, toggled class
names are valid tokens, style property names / values cannot break out of their declaration -/
def itemOk : AttrVal → Bool
  | .str n _ => n != "class" && n != "style"
  | .ostr n _ => n != "class" && n != "style"
  | .bool n _ => n != "class" && n != "style"
  | .tcls n _ => validTokB n
  | .psty n v => validPropB n && validPropValB v
  | .opsty n (some v) => validPropB n && validPropValB v
  | .opsty n none => validPropB n
  | _ => true

/-- building one item on an element whose cells owned by the item are still empty -/
theorem buildAttr_cells (a : AttrVal) (d : Dom) (el : Id) (r : NodeRec)
    (hg : d.get? el = some r) (hk : r.kind.isElem = true) (ok : itemOk a = true)
    (hempty : ∀ c, owns a c = true → cellVal r.attrs c = none) :
    StepRes d (buildAttr el d a).1 el r
      (fun c => if owns a c then wval a c else cellVal r.attrs c) ∧
    (buildAttr el d a).2 = a.initState := by
  refine ⟨?_, by cases a <;> (try rfl) <;> rename_i x <;> cases x <;> rfl⟩
  have hidle : StepRes d d el r (fun c => if owns a c then none else cellVal r.attrs c) :=
    (StepRes.id hg).congr (fun c => by
      by_cases h : owns a c = true
      · simp [h, hempty c h]
      · simp [h])
  cases a with
  | str n v =>
    simp [itemOk] at ok
    refine (step_set d el n v r hg hk).congr (fun c => ?_)
    simp only [ok.1, ok.2, if_false]
    cases c <;> simp [owns, wval]
  | ostr n v =>
    simp [itemOk] at ok
    cases v with
    | none => exact hidle.congr (fun c => by cases c <;> simp [owns, wval])
    | some v =>
      refine (step_set d el n v r hg hk).congr (fun c => ?_)
      simp only [ok.1, ok.2, if_false]
      cases c <;> simp [owns, wval]
  | bool n b =>
    simp [itemOk] at ok
    cases b with
    | false => exact hidle.congr (fun c => by cases c <;> simp [owns, wval])
    | true =>
      refine (step_set d el n "" r hg hk).congr (fun c => ?_)
      simp only [ok.1, ok.2, if_false]
      cases c <;> simp [owns, wval]
  | cls v =>
    refine (step_set d el "class" v r hg hk).congr (fun c => ?_)
    cases c <;> simp [owns, wval]
  | ocls v =>
    cases v with
    | none => exact hidle.congr (fun c => by cases c <;> simp [owns, wval])
    | some v =>
      refine (step_set d el "class" v r hg hk).congr (fun c => ?_)
      cases c <;> simp [owns, wval]
  | tcls n on =>
    simp only [itemOk] at ok
    cases on with
    | false => exact hidle.congr (fun c => by cases c <;> simp [owns, wval])
    | true =>
      refine (step_addClass d el n r hg hk (validTok_of_B n ok)).congr (fun c => ?_)
      cases c <;> simp [owns, wval]
  | sty v =>
    have : ("style" : String) ≠ "class" := by decide
    refine (step_set d el "style" v r hg hk).congr (fun c => ?_)
    cases c <;> simp [owns, wval, this]
  | psty n v =>
    simp only [itemOk, Bool.and_eq_true] at ok
    refine (step_prop d el n v r hg hk ok.1 ok.2).congr (fun c => ?_)
    cases c <;> simp [owns, wval]
  | opsty n v =>
    cases v with
    | none => exact hidle.congr (fun c => by cases c <;> simp [owns, wval])
    | some v =>
      simp only [itemOk, Bool.and_eq_true] at ok
      refine (step_prop d el n v r hg hk ok.1 ok.2).congr (fun c => ?_)
      cases c <;> simp [owns, wval]


theorem rebuildAttr_state (a b : AttrVal) (er : Bool) (d : Dom) (el : Id) (hty : a.ty = b.ty) :
    (rebuildAttr er el d b a.initState).2 = b.initState := by
  cases a <;> cases b <;> simp [AttrVal.ty] at hty
  case str.str => rfl
  case ostr.ostr _ va _ vb => cases va <;> cases vb <;> rfl
  case bool.bool => rfl
  case cls.cls => rfl
  case ocls.ocls va vb => cases va <;> cases vb <;> rfl
  case tcls.tcls => simp only [rebuildAttr, AttrVal.initState]; split <;> rfl
  case sty.sty => rfl
  case psty.psty na va nb vb =>
    simp only [rebuildAttr, AttrVal.initState]
    split
    · rfl
    · rename_i h
      have : nb = na := by simpa using h
      subst this; rfl
  case opsty.opsty na va nb vb =>
    simp only [rebuildAttr, AttrVal.initState]
    split
    · rfl
    · rename_i h
      have : nb = na := by simpa using h
      subst this; rfl

theorem rebuildAttr_tcls_fst (er : Bool) (el : Id) (d : Dom) (na nb : String) (ona onb : Bool) :
    (rebuildAttr er el d (.tcls nb onb) (.tcls ona na)).1 =
      if nb != na then
        (if onb then (if ona then d.removeClass el na else d).addClass el nb
          else (if ona then d.removeClass el na else d))
      else (if onb != ona then (if onb then d.addClass el nb else d.removeClass el nb) else d) := by
  simp only [rebuildAttr]; split <;> rfl

/-- nothing is written: every owned cell already holds the new value -/
theorem step_idle (a b : AttrVal) (d : Dom) (el : Id) (r : NodeRec) (hg : d.get? el = some r)
    (h1 : ∀ c, owns b c = true → wval b c = cellVal r.attrs c)
    (h2 : ∀ c, owns a c = true → owns b c = false → cellVal r.attrs c = none) :
    StepRes d d el r
      (fun c => if owns b c then wval b c else if owns a c then none else cellVal r.attrs c) := by
  refine (StepRes.id hg).congr (fun c => ?_)
  by_cases hb : owns b c = true
  · simp [hb, h1 c hb]
  · by_cases ha : owns a c = true
    · simp [hb, ha, h2 c ha (by simpa using hb)]
    · simp [hb, ha]

theorem rebuildAttr_cells_psty (na nb : String) (va vb : String)
    (er : Bool) (d : Dom) (el : Id) (r : NodeRec)
    (hg : d.get? el = some r) (hk : r.kind.isElem = true)
    (oka : itemOk (.psty na va) = true) (okb : itemOk (.psty nb vb) = true)
    (hcur : ∀ c, owns (.psty na va) c = true → cellVal r.attrs c = wval (.psty na va) c)
    (hnew : ∀ c, owns (.psty nb vb) c = true → owns (.psty na va) c = false →
      cellVal r.attrs c = none) :
    StepRes d (rebuildAttr er el d (.psty nb vb) (.psty na va)).1 el r
      (fun c => if owns (.psty nb vb) c then wval (.psty nb vb) c
        else if owns (.psty na va) c then none else cellVal r.attrs c) := by
  have hidle := step_idle (.psty na va) (.psty nb vb) d el r hg
  simp only [itemOk, Bool.and_eq_true] at oka okb
  have htarget : ∀ (f : Cell → Option String),
      (∀ k, f (.named k) = cellVal r.attrs (.named k)) →
      (∀ t, f (.cls t) = cellVal r.attrs (.cls t)) →
      (∀ m, f (.sty m) = if m = normProp nb then propVal vb
        else if m = normProp na then none else cellVal r.attrs (.sty m)) →
      ∀ c, f c = (if owns (.psty nb vb) c then wval (.psty nb vb) c
        else if owns (.psty na va) c then none else cellVal r.attrs c) := by
    intro f h1 h2 h3 c
    cases c with
    | named k => simp [owns, h1]
    | cls t => simp [owns, h2]
    | sty m => simp only [owns, wval, beq_iff_eq, h3 m]
  show StepRes d (rebuildAttr er el d (.psty nb vb) (.psty na va)).1 el r _
  by_cases hn : nb = na
  · subst hn
    have e : (rebuildAttr er el d (.psty nb vb) (.psty nb va)).1 =
        if vb != va then d.setCssProperty el nb vb else d := by
      simp only [rebuildAttr, bne_self_eq_false, Bool.false_eq_true, if_false]
    rw [e]
    by_cases hv : vb = va
    · subst hv
      simp only [bne_self_eq_false, Bool.false_eq_true, if_false]
      exact hidle (fun c hc => by rw [hcur c hc]) (fun c h1 h2 => by simp_all [owns])
    · have : (vb != va) = true := by simpa using hv
      simp only [this, if_true]
      refine (step_prop d el nb vb r hg hk okb.1 okb.2).congr
        (htarget _ (fun _ => rfl) (fun _ => rfl) (fun m => ?_))
      by_cases h1 : m = normProp nb <;> simp [h1]
  · have hne : (nb != na) = true := by simpa using hn
    have e : (rebuildAttr er el d (.psty nb vb) (.psty na va)).1 =
        (d.removeCssProperty el na).setCssProperty el nb vb := by
      simp only [rebuildAttr, hne, if_true]
    rw [e]
    have s1 := step_removeProp d el na r hg hk
    obtain ⟨r1, hg1, hk1, hc1⟩ := s1.rec hk
    have s2 := step_prop (d.removeCssProperty el na) el nb vb r1 hg1 hk1 okb.1 okb.2
    refine (s1.comp hg1 s2).congr
      (htarget _ (fun k => by simp [hc1]) (fun t => by simp [hc1]) (fun m => ?_))
    by_cases h1 : m = normProp nb
    · simp [h1]
    · by_cases h2 : m = normProp na <;> simp [h1, h2, hc1]

theorem rebuildAttr_cells_opsty (na nb : String) (va vb : Option String)
    (er : Bool) (d : Dom) (el : Id) (r : NodeRec)
    (hg : d.get? el = some r) (hk : r.kind.isElem = true)
    (oka : itemOk (.opsty na va) = true) (okb : itemOk (.opsty nb vb) = true)
    (hcur : ∀ c, owns (.opsty na va) c = true → cellVal r.attrs c = wval (.opsty na va) c)
    (hnew : ∀ c, owns (.opsty nb vb) c = true → owns (.opsty na va) c = false →
      cellVal r.attrs c = none) :
    StepRes d (rebuildAttr er el d (.opsty nb vb) (.opsty na va)).1 el r
      (fun c => if owns (.opsty nb vb) c then wval (.opsty nb vb) c
        else if owns (.opsty na va) c then none else cellVal r.attrs c) := by
  have hidle := step_idle (.opsty na va) (.opsty nb vb) d el r hg
  have hwb : ∀ m, wval (.opsty nb vb) (.sty m) = vb.bind propVal := by
    intro m; cases vb <;> rfl
  have hwa : ∀ m, wval (.opsty na va) (.sty m) = va.bind propVal := by
    intro m; cases va <;> rfl
  have hcurA : cellVal r.attrs (.sty (normProp na)) = va.bind propVal := by
    rw [hcur (.sty (normProp na)) (by simp [owns]), hwa]
  have htarget : ∀ (f : Cell → Option String),
      (∀ k, f (.named k) = cellVal r.attrs (.named k)) →
      (∀ t, f (.cls t) = cellVal r.attrs (.cls t)) →
      (∀ m, f (.sty m) = if m = normProp nb then vb.bind propVal
        else if m = normProp na then none else cellVal r.attrs (.sty m)) →
      ∀ c, f c = (if owns (.opsty nb vb) c then wval (.opsty nb vb) c
        else if owns (.opsty na va) c then none else cellVal r.attrs c) := by
    intro f h1 h2 h3 c
    cases c with
    | named k => simp [owns, h1]
    | cls t => simp [owns, h2]
    | sty m => simp only [owns, hwb, beq_iff_eq, h3 m]
  show StepRes d (rebuildAttr er el d (.opsty nb vb) (.opsty na va)).1 el r _
  by_cases hn : nb = na
  · subst hn
    have e : (rebuildAttr er el d (.opsty nb vb) (.opsty nb va)).1 =
        (match va, vb with
          | none, none => d
          | some _, none => d.removeCssProperty el nb
          | none, some x => d.setCssProperty el nb x
          | some o, some x => if x != o then d.setCssProperty el nb x else d) := by
      simp only [rebuildAttr, bne_self_eq_false, Bool.false_eq_true, if_false]
      cases va <;> cases vb <;> rfl
    rw [e]
    cases va <;> cases vb
    · exact hidle (fun c hc => by rw [hcur c hc]) (fun c h1 h2 => by simp_all [owns])
    · rename_i x
      simp only [itemOk, Bool.and_eq_true] at okb
      refine (step_prop d el nb x r hg hk okb.1 okb.2).congr
        (htarget _ (fun _ => rfl) (fun _ => rfl) (fun m => ?_))
      by_cases h1 : m = normProp nb <;> simp [h1]
    · rename_i o
      refine (step_removeProp d el nb r hg hk).congr
        (htarget _ (fun _ => rfl) (fun _ => rfl) (fun m => ?_))
      by_cases h1 : m = normProp nb <;> simp [h1]
    · rename_i o x
      simp only [itemOk, Bool.and_eq_true] at okb
      by_cases hv : x = o
      · subst hv
        simp only [bne_self_eq_false, Bool.false_eq_true, if_false]
        exact hidle (fun c hc => by rw [hcur c hc]) (fun c h1 h2 => by simp_all [owns])
      · have : (x != o) = true := by simpa using hv
        simp only [this, if_true]
        refine (step_prop d el nb x r hg hk okb.1 okb.2).congr
          (htarget _ (fun _ => rfl) (fun _ => rfl) (fun m => ?_))
        by_cases h1 : m = normProp nb <;> simp [h1]
  · have hne : (nb != na) = true := by simpa using hn
    have e : (rebuildAttr er el d (.opsty nb vb) (.opsty na va)).1 =
        (match vb with
          | some x => (d.removeCssProperty el na).setCssProperty el nb x
          | none => d.removeCssProperty el na) := by
      simp only [rebuildAttr, hne, if_true]
      cases vb <;> rfl
    rw [e]
    have s1 := step_removeProp d el na r hg hk
    obtain ⟨r1, hg1, hk1, hc1⟩ := s1.rec hk
    cases vb with
    | none =>
      refine s1.congr (htarget _ (fun _ => rfl) (fun _ => rfl) (fun m => ?_))
      by_cases h1 : m = normProp nb
      · subst h1
        by_cases h2 : normProp nb = normProp na
        · simp [h2]
        · have := hnew (.sty (normProp nb)) (by simp [owns]) (by simp [owns, h2])
          simp [h2, this]
      · by_cases h2 : m = normProp na <;> simp [h1, h2]
    | some x =>
      simp only [itemOk, Bool.and_eq_true] at okb
      have s2 := step_prop (d.removeCssProperty el na) el nb x r1 hg1 hk1 okb.1 okb.2
      refine (s1.comp hg1 s2).congr
        (htarget _ (fun k => by simp [hc1]) (fun t => by simp [hc1]) (fun m => ?_))
      by_cases h1 : m = normProp nb
      · simp [h1]
      · by_cases h2 : m = normProp na <;> simp [h1, h2, hc1]

/-- rebuilding one item: the cells the new value owns get its values, the cells only the old value
owned are cleared, every other cell is left alone — provided the old value's cells hold what it
wrote (`hcur`) and the cells that only the new value owns are still empty (`hnew`) -/
theorem rebuildAttr_cells (a b : AttrVal) (er : Bool) (d : Dom) (el : Id) (r : NodeRec)
    (hg : d.get? el = some r) (hk : r.kind.isElem = true) (hty : a.ty = b.ty)
    (oka : itemOk a = true) (okb : itemOk b = true)
    (hcur : ∀ c, owns a c = true → cellVal r.attrs c = wval a c)
    (hnew : ∀ c, owns b c = true → owns a c = false → cellVal r.attrs c = none) :
    StepRes d (rebuildAttr er el d b a.initState).1 el r
      (fun c => if owns b c then wval b c else if owns a c then none else cellVal r.attrs c) ∧
    (rebuildAttr er el d b a.initState).2 = b.initState := by
  have hidle := step_idle a b d el r hg
  refine ⟨?_, rebuildAttr_state a b er d el hty⟩
  cases a <;> cases b <;> simp [AttrVal.ty] at hty
  case str.str na va nb vb =>
    subst hty
    simp [itemOk] at oka
    show StepRes d (if vb != va then d.setAttribute el na vb else d) el r _
    by_cases hv : vb = va
    · subst hv
      simp only [bne_self_eq_false, Bool.false_eq_true, if_false]
      exact hidle (fun c hc => by rw [hcur c hc])
        (fun c h1 h2 => by simp_all [owns])
    · have : (vb != va) = true := by simpa using hv
      simp only [this, if_true]
      refine (step_set d el na vb r hg hk).congr (fun c => ?_)
      simp only [oka.1, oka.2, if_false]
      cases c <;> simp [owns, wval] <;> (try (split <;> simp_all)) <;> (try (intro h1 h2; exact absurd h1 h2))
  case cls.cls va vb =>
    show StepRes d (if vb != va then d.setAttribute el "class" vb else d) el r _
    by_cases hv : vb = va
    · subst hv
      simp only [bne_self_eq_false, Bool.false_eq_true, if_false]
      exact hidle (fun c hc => by rw [hcur c hc]) (fun c h1 h2 => by simp_all [owns])
    · have : (vb != va) = true := by simpa using hv
      simp only [this, if_true]
      refine (step_set d el "class" vb r hg hk).congr (fun c => ?_)
      cases c <;> simp [owns, wval] <;> (try (split <;> simp_all)) <;> (try (intro h1 h2; exact absurd h1 h2))
  case sty.sty va vb =>
    show StepRes d (if vb != va then d.setAttribute el "style" vb else d) el r _
    have hsc : ("style" : String) ≠ "class" := by decide
    by_cases hv : vb = va
    · subst hv
      simp only [bne_self_eq_false, Bool.false_eq_true, if_false]
      exact hidle (fun c hc => by rw [hcur c hc]) (fun c h1 h2 => by simp_all [owns])
    · have : (vb != va) = true := by simpa using hv
      simp only [this, if_true]
      refine (step_set d el "style" vb r hg hk).congr (fun c => ?_)
      cases c <;> simp [owns, wval, hsc] <;> (try (split <;> simp_all))
  case ostr.ostr na va nb vb =>
    subst hty
    simp [itemOk] at oka
    cases va <;> cases vb
    · exact hidle (fun c hc => by rw [hcur c hc]) (fun c h1 h2 => by simp_all [owns])
    · rename_i vb
      show StepRes d (d.setAttribute el na vb) el r _
      refine (step_set d el na vb r hg hk).congr (fun c => ?_)
      simp only [oka.1, oka.2, if_false]
      cases c <;> simp [owns, wval] <;> (try (split <;> simp_all)) <;> (try (intro h1 h2; exact absurd h1 h2))
    · rename_i va
      show StepRes d (d.removeAttribute el na) el r _
      refine (step_remove d el na r hg hk).congr (fun c => ?_)
      simp only [oka.1, oka.2, if_false]
      cases c <;> simp [owns, wval] <;> (try (split <;> simp_all)) <;> (try (intro h1 h2; exact absurd h1 h2))
    · rename_i va vb
      show StepRes d (if vb != va then d.setAttribute el na vb else d) el r _
      by_cases hv : vb = va
      · subst hv
        simp only [bne_self_eq_false, Bool.false_eq_true, if_false]
        exact hidle (fun c hc => by rw [hcur c hc]) (fun c h1 h2 => by simp_all [owns])
      · have : (vb != va) = true := by simpa using hv
        simp only [this, if_true]
        refine (step_set d el na vb r hg hk).congr (fun c => ?_)
        simp only [oka.1, oka.2, if_false]
        cases c <;> simp [owns, wval] <;> (try (split <;> simp_all)) <;> (try (intro h1 h2; exact absurd h1 h2))
  case bool.bool na ba nb bb =>
    subst hty
    simp [itemOk] at oka
    cases ba <;> cases bb
    · exact hidle (fun c hc => by rw [hcur c hc]) (fun c h1 h2 => by simp_all [owns])
    · show StepRes d (d.setAttribute el na "") el r _
      refine (step_set d el na "" r hg hk).congr (fun c => ?_)
      simp only [oka.1, oka.2, if_false]
      cases c <;> simp [owns, wval] <;> (try (split <;> simp_all)) <;> (try (intro h1 h2; exact absurd h1 h2))
    · show StepRes d (d.removeAttribute el na) el r _
      refine (step_remove d el na r hg hk).congr (fun c => ?_)
      simp only [oka.1, oka.2, if_false]
      cases c <;> simp [owns, wval] <;> (try (split <;> simp_all)) <;> (try (intro h1 h2; exact absurd h1 h2))
    · exact hidle (fun c hc => by rw [hcur c hc]) (fun c h1 h2 => by simp_all [owns])
  case ocls.ocls va vb =>
    cases va <;> cases vb
    · exact hidle (fun c hc => by rw [hcur c hc]) (fun c h1 h2 => by simp_all [owns])
    · rename_i vb
      show StepRes d (d.setAttribute el "class" vb) el r _
      refine (step_set d el "class" vb r hg hk).congr (fun c => ?_)
      cases c <;> simp [owns, wval] <;> (try (split <;> simp_all)) <;> (try (intro h1 h2; exact absurd h1 h2))
    · rename_i va
      show StepRes d (d.removeAttribute el "class") el r _
      refine (step_remove d el "class" r hg hk).congr (fun c => ?_)
      cases c <;> simp [owns, wval] <;> (try (split <;> simp_all)) <;> (try (intro h1 h2; exact absurd h1 h2))
    · rename_i va vb
      show StepRes d (if vb != va then d.setAttribute el "class" vb else d) el r _
      by_cases hv : vb = va
      · subst hv
        simp only [bne_self_eq_false, Bool.false_eq_true, if_false]
        exact hidle (fun c hc => by rw [hcur c hc]) (fun c h1 h2 => by simp_all [owns])
      · have : (vb != va) = true := by simpa using hv
        simp only [this, if_true]
        refine (step_set d el "class" vb r hg hk).congr (fun c => ?_)
        cases c <;> simp [owns, wval] <;> (try (split <;> simp_all)) <;> (try (intro h1 h2; exact absurd h1 h2))
  case tcls.tcls na ona nb onb =>
    simp only [itemOk] at oka okb
    have hva := validTok_of_B na oka
    have hvb := validTok_of_B nb okb
    have hcurA : cellVal r.attrs (.cls na) = if ona then some "" else none := by
      simpa [owns, wval] using hcur (.cls na) (by simp [owns])
    by_cases hn : nb = na
    · subst hn
      show StepRes d (rebuildAttr er el d (.tcls nb onb) (.tcls ona nb)).1 el r _
      rw [rebuildAttr_tcls_fst]
      simp only [bne_self_eq_false, Bool.false_eq_true, if_false]
      by_cases ho : onb = ona
      · subst ho
        simp only [bne_self_eq_false, Bool.false_eq_true, if_false]
        exact hidle (fun c hc => by rw [hcur c hc]) (fun c h1 h2 => by simp_all [owns])
      · have : (onb != ona) = true := by simpa using ho
        simp only [this, if_true]
        cases onb
        · refine (step_removeClass d el nb r hg hk hvb).congr (fun c => ?_)
          cases c <;> simp [owns, wval] <;> (try (intro h1 h2; exact absurd h1 h2))
        · refine (step_addClass d el nb r hg hk hvb).congr (fun c => ?_)
          cases c <;> simp [owns, wval] <;> (try (split <;> simp_all))
    · have hne : (nb != na) = true := by simpa using hn
      have hnewB : cellVal r.attrs (.cls nb) = none :=
        hnew (.cls nb) (by simp [owns]) (by simp [owns, hn])
      show StepRes d (rebuildAttr er el d (.tcls nb onb) (.tcls ona na)).1 el r _
      rw [rebuildAttr_tcls_fst]
      simp only [hne, if_true]
      -- the target on cells
      have htarget : ∀ (f : Cell → Option String),
          (∀ k, f (.named k) = cellVal r.attrs (.named k)) →
          (∀ m, f (.sty m) = cellVal r.attrs (.sty m)) →
          (∀ t, f (.cls t) = if t = nb then (if onb then some "" else none)
            else if t = na then none else cellVal r.attrs (.cls t)) →
          ∀ c, f c = (if owns (.tcls nb onb) c then wval (.tcls nb onb) c
            else if owns (.tcls na ona) c then none else cellVal r.attrs c) := by
        intro f h1 h2 h3 c
        cases c with
        | named k => simp [owns, h1]
        | sty m => simp [owns, h2]
        | cls t => simp only [owns, wval, beq_iff_eq, h3 t]
      cases ona <;> cases onb
      · simp only [Bool.false_eq_true, if_false]
        refine (StepRes.id hg).congr (htarget _ (fun _ => rfl) (fun _ => rfl) (fun t => ?_))
        by_cases h1 : t = nb
        · subst h1; simp [hnewB]
        · by_cases h2 : t = na
          · subst h2; simp [h1, hcurA]
          · simp [h1, h2]
      · simp only [Bool.false_eq_true, if_false, if_true]
        refine (step_addClass d el nb r hg hk hvb).congr (htarget _ (fun _ => rfl) (fun _ => rfl) (fun t => ?_))
        by_cases h1 : t = nb
        · simp [h1]
        · by_cases h2 : t = na
          · subst h2; simp [h1, hcurA]
          · simp [h1, h2]
      · simp only [Bool.false_eq_true, if_false, if_true]
        refine (step_removeClass d el na r hg hk hva).congr (htarget _ (fun _ => rfl) (fun _ => rfl) (fun t => ?_))
        by_cases h1 : t = nb
        · subst h1; simp [hn, hnewB]
        · by_cases h2 : t = na
          · simp [h1, h2]
          · simp [h1, h2]
      · simp only [if_true]
        have s1 := step_removeClass d el na r hg hk hva
        obtain ⟨r1, hg1, hk1, hc1⟩ := s1.rec hk
        have s2 := step_addClass (d.removeClass el na) el nb r1 hg1 hk1 hvb
        refine (s1.comp hg1 s2).congr (htarget _ (fun k => by simp [hc1]) (fun m => by simp [hc1]) (fun t => ?_))
        by_cases h1 : t = nb
        · simp [h1]
        · by_cases h2 : t = na
          · simp [h1, h2, hc1]
          · simp [h1, h2, hc1]
  case psty.psty na va nb vb =>
    exact rebuildAttr_cells_psty na nb va vb er d el r hg hk oka okb hcur hnew
  case opsty.opsty na va nb vb =>
    exact rebuildAttr_cells_opsty na nb va vb er d el r hg hk oka okb hcur hnew

end Leptos.View
