import LeptosModel.Proofs.ViewStyle
/-! # Proofs/ViewItems — which cells an attribute item owns, what it writes there, and what one
`build` / `rebuild` step of the item does to the cells -/
namespace Leptos.View
open Leptos.Dom

/-- the cells an item writes (for `class` / `style` strings: every token / property cell) -/
def owns : AttrVal → Cell → Bool
  | .str n _, .named k => k == n
  | .ostr n _, .named k => k == n
  | .bool n _, .named k => k == n
  | .cls _, .cls _ => true
  | .ocls _, .cls _ => true
  | .tcls n _, .cls t => t == n
  | .sty _, .sty _ => true
  | .psty n _, .sty m => m == normProp n
  | .opsty n _, .sty m => m == normProp n
  | _, _ => false

/-- what the item writes into a cell it owns -/
def wval : AttrVal → Cell → Option String
  | .str _ v, _ => some v
  | .ostr _ v, _ => v
  | .bool _ b, _ => if b then some "" else none
  | .cls v, .cls t => if t ∈ classTokens v then some "" else none
  | .ocls (some v), .cls t => if t ∈ classTokens v then some "" else none
  | .tcls _ on, _ => if on then some "" else none
  | .sty v, .sty m => getA (styleDecls v) m
  | .psty _ v, _ => propVal v
  | .opsty _ (some v), _ => propVal v
  | _, _ => none

def validTokB (t : String) : Bool := !t.toList.isEmpty && t.toList.all (fun c => !isAsciiWs c)

theorem validTok_of_B (t : String) (h : validTokB t = true) : validTok t := by
  simp only [validTokB, Bool.and_eq_true, Bool.not_eq_true', List.all_eq_true] at h
  refine ⟨by intro e; simp [e] at h, fun c hc => by simpa using h.2 c hc⟩

/-- the item is one the cell semantics covers: named keys are not `class` / `style`, toggled class
names are valid tokens -/
def itemOk : AttrVal → Bool
  | .str n _ => n != "class" && n != "style"
  | .ostr n _ => n != "class" && n != "style"
  | .bool n _ => n != "class" && n != "style"
  | .tcls n _ => validTokB n
  | .psty _ _ => false
  | .opsty _ _ => false
  | _ => true

/-- building one item on an element whose cells owned by the item are still empty -/
theorem buildAttr_cells (a : AttrVal) (d : Dom) (el : Id) (r : NodeRec)
    (hg : d.get? el = some r) (hk : r.kind.isElem = true) (ok : itemOk a = true)
    (hempty : ∀ c, owns a c = true → cellVal r.attrs c = none) :
    StepRes d (buildAttr el d a).1 el r
      (fun c => if owns a c then wval a c else cellVal r.attrs c) ∧
    (buildAttr el d a).2 = a.initState := by
  refine ⟨?_, by cases a <;> (try rfl) <;> rename_i x <;> cases x <;> rfl⟩
  have hidle : StepRes d d el r (fun c => if owns a c then none else cellVal r.attrs c) :=
    (StepRes.id hg).congr (fun c => by
      by_cases h : owns a c = true
      · simp [h, hempty c h]
      · simp [h])
  cases a with
  | str n v =>
    simp [itemOk] at ok
    refine (step_set d el n v r hg hk).congr (fun c => ?_)
    simp only [ok.1, ok.2, if_false]
    cases c <;> simp [owns, wval]
  | ostr n v =>
    simp [itemOk] at ok
    cases v with
    | none => exact hidle.congr (fun c => by cases c <;> simp [owns, wval])
    | some v =>
      refine (step_set d el n v r hg hk).congr (fun c => ?_)
      simp only [ok.1, ok.2, if_false]
      cases c <;> simp [owns, wval]
  | bool n b =>
    simp [itemOk] at ok
    cases b with
    | false => exact hidle.congr (fun c => by cases c <;> simp [owns, wval])
    | true =>
      refine (step_set d el n "" r hg hk).congr (fun c => ?_)
      simp only [ok.1, ok.2, if_false]
      cases c <;> simp [owns, wval]
  | cls v =>
    refine (step_set d el "class" v r hg hk).congr (fun c => ?_)
    cases c <;> simp [owns, wval]
  | ocls v =>
    cases v with
    | none => exact hidle.congr (fun c => by cases c <;> simp [owns, wval])
    | some v =>
      refine (step_set d el "class" v r hg hk).congr (fun c => ?_)
      cases c <;> simp [owns, wval]
  | tcls n on =>
    simp only [itemOk] at ok
    cases on with
    | false => exact hidle.congr (fun c => by cases c <;> simp [owns, wval])
    | true =>
      refine (step_addClass d el n r hg hk (validTok_of_B n ok)).congr (fun c => ?_)
      cases c <;> simp [owns, wval]
  | sty v =>
    have : ("style" : String) ≠ "class" := by decide
    refine (step_set d el "style" v r hg hk).congr (fun c => ?_)
    cases c <;> simp [owns, wval, this]
  | psty _ _ => simp [itemOk] at ok
  | opsty _ _ => simp [itemOk] at ok


theorem rebuildAttr_state (a b : AttrVal) (er : Bool) (d : Dom) (el : Id) (hty : a.ty = b.ty) :
    (rebuildAttr er el d b a.initState).2 = b.initState := by
  cases a <;> cases b <;> simp [AttrVal.ty] at hty
  case str.str => rfl
  case ostr.ostr _ va _ vb => cases va <;> cases vb <;> rfl
  case bool.bool => rfl
  case cls.cls => rfl
  case ocls.ocls va vb => cases va <;> cases vb <;> rfl
  case tcls.tcls => simp only [rebuildAttr, AttrVal.initState]; split <;> rfl
  case sty.sty => rfl
  case psty.psty na va nb vb =>
    simp only [rebuildAttr, AttrVal.initState]
    split
    · rfl
    · rename_i h
      have : nb = na := by simpa using h
      subst this; rfl
  case opsty.opsty na va nb vb =>
    simp only [rebuildAttr, AttrVal.initState]
    split
    · rfl
    · rename_i h
      have : nb = na := by simpa using h
      subst this; rfl

theorem rebuildAttr_tcls_fst (er : Bool) (el : Id) (d : Dom) (na nb : String) (ona onb : Bool) :
    (rebuildAttr er el d (.tcls nb onb) (.tcls ona na)).1 =
      if nb != na then
        (if onb then (if ona then d.removeClass el na else d).addClass el nb
          else (if ona then d.removeClass el na else d))
      else (if onb != ona then (if onb then d.addClass el nb else d.removeClass el nb) else d) := by
  simp only [rebuildAttr]; split <;> rfl

/-- rebuilding one item: the cells the new value owns get its values, the cells only the old value
owned are cleared, every other cell is left alone — provided the old value's cells hold what it
wrote (`hcur`) and the cells that only the new value owns are still empty (`hnew`) -/
theorem rebuildAttr_cells (a b : AttrVal) (er : Bool) (d : Dom) (el : Id) (r : NodeRec)
    (hg : d.get? el = some r) (hk : r.kind.isElem = true) (hty : a.ty = b.ty)
    (oka : itemOk a = true) (okb : itemOk b = true)
    (hcur : ∀ c, owns a c = true → cellVal r.attrs c = wval a c)
    (hnew : ∀ c, owns b c = true → owns a c = false → cellVal r.attrs c = none) :
    StepRes d (rebuildAttr er el d b a.initState).1 el r
      (fun c => if owns b c then wval b c else if owns a c then none else cellVal r.attrs c) ∧
    (rebuildAttr er el d b a.initState).2 = b.initState := by
  -- nothing is written: every owned cell already holds the new value
  have hidle : (∀ c, owns b c = true → wval b c = cellVal r.attrs c) →
      (∀ c, owns a c = true → owns b c = false → cellVal r.attrs c = none) →
      StepRes d d el r
        (fun c => if owns b c then wval b c else if owns a c then none else cellVal r.attrs c) := by
    intro h1 h2
    refine (StepRes.id hg).congr (fun c => ?_)
    by_cases hb : owns b c = true
    · simp [hb, h1 c hb]
    · by_cases ha : owns a c = true
      · simp [hb, ha, h2 c ha (by simpa using hb)]
      · simp [hb, ha]
  refine ⟨?_, rebuildAttr_state a b er d el hty⟩
  cases a <;> cases b <;> simp [AttrVal.ty] at hty
  case str.str na va nb vb =>
    subst hty
    simp [itemOk] at oka
    show StepRes d (if vb != va then d.setAttribute el na vb else d) el r _
    by_cases hv : vb = va
    · subst hv
      simp only [bne_self_eq_false, Bool.false_eq_true, if_false]
      exact hidle (fun c hc => by rw [hcur c hc])
        (fun c h1 h2 => by simp_all [owns])
    · have : (vb != va) = true := by simpa using hv
      simp only [this, if_true]
      refine (step_set d el na vb r hg hk).congr (fun c => ?_)
      simp only [oka.1, oka.2, if_false]
      cases c <;> simp [owns, wval] <;> (try (split <;> simp_all)) <;> (try (intro h1 h2; exact absurd h1 h2))
  case cls.cls va vb =>
    show StepRes d (if vb != va then d.setAttribute el "class" vb else d) el r _
    by_cases hv : vb = va
    · subst hv
      simp only [bne_self_eq_false, Bool.false_eq_true, if_false]
      exact hidle (fun c hc => by rw [hcur c hc]) (fun c h1 h2 => by simp_all [owns])
    · have : (vb != va) = true := by simpa using hv
      simp only [this, if_true]
      refine (step_set d el "class" vb r hg hk).congr (fun c => ?_)
      cases c <;> simp [owns, wval] <;> (try (split <;> simp_all)) <;> (try (intro h1 h2; exact absurd h1 h2))
  case sty.sty va vb =>
    show StepRes d (if vb != va then d.setAttribute el "style" vb else d) el r _
    have hsc : ("style" : String) ≠ "class" := by decide
    by_cases hv : vb = va
    · subst hv
      simp only [bne_self_eq_false, Bool.false_eq_true, if_false]
      exact hidle (fun c hc => by rw [hcur c hc]) (fun c h1 h2 => by simp_all [owns])
    · have : (vb != va) = true := by simpa using hv
      simp only [this, if_true]
      refine (step_set d el "style" vb r hg hk).congr (fun c => ?_)
      cases c <;> simp [owns, wval, hsc] <;> (try (split <;> simp_all))
  case ostr.ostr na va nb vb =>
    subst hty
    simp [itemOk] at oka
    cases va <;> cases vb
    · exact hidle (fun c hc => by rw [hcur c hc]) (fun c h1 h2 => by simp_all [owns])
    · rename_i vb
      show StepRes d (d.setAttribute el na vb) el r _
      refine (step_set d el na vb r hg hk).congr (fun c => ?_)
      simp only [oka.1, oka.2, if_false]
      cases c <;> simp [owns, wval] <;> (try (split <;> simp_all)) <;> (try (intro h1 h2; exact absurd h1 h2))
    · rename_i va
      show StepRes d (d.removeAttribute el na) el r _
      refine (step_remove d el na r hg hk).congr (fun c => ?_)
      simp only [oka.1, oka.2, if_false]
      cases c <;> simp [owns, wval] <;> (try (split <;> simp_all)) <;> (try (intro h1 h2; exact absurd h1 h2))
    · rename_i va vb
      show StepRes d (if vb != va then d.setAttribute el na vb else d) el r _
      by_cases hv : vb = va
      · subst hv
        simp only [bne_self_eq_false, Bool.false_eq_true, if_false]
        exact hidle (fun c hc => by rw [hcur c hc]) (fun c h1 h2 => by simp_all [owns])
      · have : (vb != va) = true := by simpa using hv
        simp only [this, if_true]
        refine (step_set d el na vb r hg hk).congr (fun c => ?_)
        simp only [oka.1, oka.2, if_false]
        cases c <;> simp [owns, wval] <;> (try (split <;> simp_all)) <;> (try (intro h1 h2; exact absurd h1 h2))
  case bool.bool na ba nb bb =>
    subst hty
    simp [itemOk] at oka
    cases ba <;> cases bb
    · exact hidle (fun c hc => by rw [hcur c hc]) (fun c h1 h2 => by simp_all [owns])
    · show StepRes d (d.setAttribute el na "") el r _
      refine (step_set d el na "" r hg hk).congr (fun c => ?_)
      simp only [oka.1, oka.2, if_false]
      cases c <;> simp [owns, wval] <;> (try (split <;> simp_all)) <;> (try (intro h1 h2; exact absurd h1 h2))
    · show StepRes d (d.removeAttribute el na) el r _
      refine (step_remove d el na r hg hk).congr (fun c => ?_)
      simp only [oka.1, oka.2, if_false]
      cases c <;> simp [owns, wval] <;> (try (split <;> simp_all)) <;> (try (intro h1 h2; exact absurd h1 h2))
    · exact hidle (fun c hc => by rw [hcur c hc]) (fun c h1 h2 => by simp_all [owns])
  case ocls.ocls va vb =>
    cases va <;> cases vb
    · exact hidle (fun c hc => by rw [hcur c hc]) (fun c h1 h2 => by simp_all [owns])
    · rename_i vb
      show StepRes d (d.setAttribute el "class" vb) el r _
      refine (step_set d el "class" vb r hg hk).congr (fun c => ?_)
      cases c <;> simp [owns, wval] <;> (try (split <;> simp_all)) <;> (try (intro h1 h2; exact absurd h1 h2))
    · rename_i va
      show StepRes d (d.removeAttribute el "class") el r _
      refine (step_remove d el "class" r hg hk).congr (fun c => ?_)
      cases c <;> simp [owns, wval] <;> (try (split <;> simp_all)) <;> (try (intro h1 h2; exact absurd h1 h2))
    · rename_i va vb
      show StepRes d (if vb != va then d.setAttribute el "class" vb else d) el r _
      by_cases hv : vb = va
      · subst hv
        simp only [bne_self_eq_false, Bool.false_eq_true, if_false]
        exact hidle (fun c hc => by rw [hcur c hc]) (fun c h1 h2 => by simp_all [owns])
      · have : (vb != va) = true := by simpa using hv
        simp only [this, if_true]
        refine (step_set d el "class" vb r hg hk).congr (fun c => ?_)
        cases c <;> simp [owns, wval] <;> (try (split <;> simp_all)) <;> (try (intro h1 h2; exact absurd h1 h2))
  case tcls.tcls na ona nb onb =>
    simp only [itemOk] at oka okb
    have hva := validTok_of_B na oka
    have hvb := validTok_of_B nb okb
    have hcurA : cellVal r.attrs (.cls na) = if ona then some "" else none := by
      simpa [owns, wval] using hcur (.cls na) (by simp [owns])
    by_cases hn : nb = na
    · subst hn
      show StepRes d (rebuildAttr er el d (.tcls nb onb) (.tcls ona nb)).1 el r _
      rw [rebuildAttr_tcls_fst]
      simp only [bne_self_eq_false, Bool.false_eq_true, if_false]
      by_cases ho : onb = ona
      · subst ho
        simp only [bne_self_eq_false, Bool.false_eq_true, if_false]
        exact hidle (fun c hc => by rw [hcur c hc]) (fun c h1 h2 => by simp_all [owns])
      · have : (onb != ona) = true := by simpa using ho
        simp only [this, if_true]
        cases onb
        · refine (step_removeClass d el nb r hg hk hvb).congr (fun c => ?_)
          cases c <;> simp [owns, wval] <;> (try (intro h1 h2; exact absurd h1 h2))
        · refine (step_addClass d el nb r hg hk hvb).congr (fun c => ?_)
          cases c <;> simp [owns, wval] <;> (try (split <;> simp_all))
    · have hne : (nb != na) = true := by simpa using hn
      have hnewB : cellVal r.attrs (.cls nb) = none :=
        hnew (.cls nb) (by simp [owns]) (by simp [owns, hn])
      show StepRes d (rebuildAttr er el d (.tcls nb onb) (.tcls ona na)).1 el r _
      rw [rebuildAttr_tcls_fst]
      simp only [hne, if_true]
      -- the target on cells
      have htarget : ∀ (f : Cell → Option String),
          (∀ k, f (.named k) = cellVal r.attrs (.named k)) →
          (∀ m, f (.sty m) = cellVal r.attrs (.sty m)) →
          (∀ t, f (.cls t) = if t = nb then (if onb then some "" else none)
            else if t = na then none else cellVal r.attrs (.cls t)) →
          ∀ c, f c = (if owns (.tcls nb onb) c then wval (.tcls nb onb) c
            else if owns (.tcls na ona) c then none else cellVal r.attrs c) := by
        intro f h1 h2 h3 c
        cases c with
        | named k => simp [owns, h1]
        | sty m => simp [owns, h2]
        | cls t => simp only [owns, wval, beq_iff_eq, h3 t]
      cases ona <;> cases onb
      · simp only [Bool.false_eq_true, if_false]
        refine (StepRes.id hg).congr (htarget _ (fun _ => rfl) (fun _ => rfl) (fun t => ?_))
        by_cases h1 : t = nb
        · subst h1; simp [hnewB]
        · by_cases h2 : t = na
          · subst h2; simp [h1, hcurA]
          · simp [h1, h2]
      · simp only [Bool.false_eq_true, if_false, if_true]
        refine (step_addClass d el nb r hg hk hvb).congr (htarget _ (fun _ => rfl) (fun _ => rfl) (fun t => ?_))
        by_cases h1 : t = nb
        · simp [h1]
        · by_cases h2 : t = na
          · subst h2; simp [h1, hcurA]
          · simp [h1, h2]
      · simp only [Bool.false_eq_true, if_false, if_true]
        refine (step_removeClass d el na r hg hk hva).congr (htarget _ (fun _ => rfl) (fun _ => rfl) (fun t => ?_))
        by_cases h1 : t = nb
        · subst h1; simp [hn, hnewB]
        · by_cases h2 : t = na
          · simp [h1, h2]
          · simp [h1, h2]
      · simp only [if_true]
        have s1 := step_removeClass d el na r hg hk hva
        obtain ⟨r1, hg1, hk1, hc1⟩ := s1.rec hk
        have s2 := step_addClass (d.removeClass el na) el nb r1 hg1 hk1 hvb
        refine (s1.comp hg1 s2).congr (htarget _ (fun k => by simp [hc1]) (fun m => by simp [hc1]) (fun t => ?_))
        by_cases h1 : t = nb
        · simp [h1]
        · by_cases h2 : t = na
          · simp [h1, h2, hc1]
          · simp [h1, h2, hc1]
  all_goals (simp [itemOk] at oka)

end Leptos.View
