import LeptosModel.Model.RView
import LeptosModel.Theorems.C11
import LeptosModel.Proofs.KeyedExtras
/-!
# Proofs/RViewFor — the `<For>` region of a reactive view, through the keyed-list theorems (C11)

`KOK ks`: the keyed state of a `<For>` is well-formed, mounted alone in its region, and every row is a
single `<li>`.  It holds after `buildFor`, is kept by `rerunFor`, and makes the rows in DOM order
(`forRows`) equal to the keys last handed to the list (`ks.hashed`).
-/
namespace Leptos.RView
open Leptos.Keyed
open Leptos.Reactive (Expr)

/-- expressions without untracked reads (the class of the theorems) have nothing to resolve -/
theorem resolve_eq (ls : List Nat) (key : Int) : ∀ (x : Expr), x.noUntracked = true → x.resolve ls key = x
  | .lit _, _ => rfl
  | .rd true _, _ => rfl
  | .rd false _, h => by simp [Reactive.Expr.noUntracked] at h
  | .add a b, h => by
    simp only [Reactive.Expr.noUntracked, Bool.and_eq_true] at h
    simp only [Reactive.Expr.resolve, resolve_eq ls key a h.1, resolve_eq ls key b h.2]
  | .mulc _ a, h => by
    simp only [Reactive.Expr.noUntracked] at h
    simp only [Reactive.Expr.resolve, resolve_eq ls key a h]
  | .ite c t e, h => by
    simp only [Reactive.Expr.noUntracked, Bool.and_eq_true] at h
    simp only [Reactive.Expr.resolve, resolve_eq ls key c h.1.1, resolve_eq ls key t h.1.2, resolve_eq ls key e h.2]
  | .seq a b, h => by
    simp only [Reactive.Expr.noUntracked, Bool.and_eq_true] at h
    simp only [Reactive.Expr.resolve, resolve_eq ls key a h.1, resolve_eq ls key b h.2]
  | .wr _ a, h => by
    simp only [Reactive.Expr.noUntracked] at h
    simp only [Reactive.Expr.resolve, resolve_eq ls key a h]

theorem St.res_eq (st : St) {x : Expr} (h : x.noUntracked = true) : st.res x = x := resolve_eq _ _ x h

structure KOK (ks : KState) : Prop where
  wf : Wf ks
  mounted : Mounted [] [] ks
  bs : ks.bs = 1
  one : ∀ it ∈ somes ks.w.storage, it.nodes.length = 1

theorem rows_map (f : Nat → Nat) : ∀ L : List Item, (∀ it ∈ L, ∃ n, it.nodes = [n] ∧ f n = it.key) →
    (blocks L).map f = L.map (·.key)
  | [], _ => rfl
  | a :: L, h => by
    obtain ⟨n, hn, hf⟩ := h a (by simp)
    rw [blocks_cons, hn]
    simp only [List.singleton_append, List.map_cons, hf]
    rw [rows_map f L (fun it hit => h it (by simp [hit]))]

theorem find_row (n : Nat) : ∀ L : List Item, (∀ it ∈ L, it.nodes.length = 1) → (blocks L).Nodup →
    ∀ it ∈ L, it.nodes = [n] →
      L.findSome? (fun z => if z.nodes.contains n then some z.key else none) = some it.key
  | [], _, _, it, h, _ => by simp at h
  | a :: L, hl, hnd, it, hit, hn => by
    rw [blocks_cons] at hnd
    simp only [List.mem_cons] at hit
    rcases hit with rfl | hit
    · simp [List.findSome?, hn]
    · have hnb : n ∈ blocks L := by
        simp only [blocks, List.mem_flatMap]
        exact ⟨it, hit, by rw [hn]; simp⟩
      have hna : n ∉ a.nodes := fun hm => (List.nodup_append.1 hnd).2.2 n hm n hnb rfl
      have : a.nodes.contains n = false := by simpa using hna
      simp only [List.findSome?, this]
      exact find_row n L (fun z hz => hl z (by simp [hz])) (List.nodup_append.1 hnd).2.1 it hit hn

/-- **the rows in DOM order are the keys of the list** -/
theorem forRows_eq {ks : KState} (h : KOK ks) : forRows ks = ks.hashed := by
  have hk : ks.w.kids = blocks (somes ks.w.storage) ++ [ks.marker] := by
    have := h.mounted.ordered
    simpa [blocksOf_eq] using this
  have hnd : (blocks (somes ks.w.storage) ++ [ks.marker]).Nodup := hk ▸ h.mounted.nodup
  have hm : ∀ n ∈ blocks (somes ks.w.storage), n ≠ ks.marker := by
    intro n hn he
    exact (List.nodup_append.1 hnd).2.2 n hn ks.marker (by simp) he
  have hfil : ks.w.kids.filter (· != ks.marker) = blocks (somes ks.w.storage) := by
    rw [hk, List.filter_append]
    have h1 : (blocks (somes ks.w.storage)).filter (· != ks.marker) = blocks (somes ks.w.storage) := by
      rw [List.filter_eq_self]
      intro n hn; simpa using hm n hn
    rw [h1]; simp
  unfold forRows
  rw [hfil, ← h.wf.keys]
  apply rows_map
  intro it hit
  have hlen := h.one it hit
  obtain ⟨n, hn⟩ : ∃ n, it.nodes = [n] := by
    cases hh : it.nodes with
    | nil => rw [hh] at hlen; simp at hlen
    | cons a l =>
      cases l with
      | nil => exact ⟨a, rfl⟩
      | cons b l => rw [hh] at hlen; simp at hlen
  refine ⟨n, hn, ?_⟩
  have := find_row n (somes ks.w.storage) h.one (List.nodup_append.1 hnd).1 it hit hn
  simp only [keyOfLi]
  show ((somes ks.w.storage).findSome? _).getD 0 = it.key
  rw [this]; rfl

theorem buildFor_kok (st : St) {keys : List Nat} (hk : keys.Nodup) : KOK (buildFor st keys).1 := by
  obtain ⟨hw, hm⟩ := C11_build_wf 1 keys [] st.next (by decide) hk List.nodup_nil (by simp)
  exact ⟨hw, hm, rfl, build_mount_nodes_length 1 keys [] st.next⟩

theorem buildFor_hashed (st : St) (keys : List Nat) : (buildFor st keys).1.hashed = keys := rfl

theorem rerunFor_hashed (st : St) (ks : KState) (texts : List (Nat × Nat)) (keys : List Nat) :
    (rerunFor st ks texts keys).1.hashed = keys := rfl

theorem rerunFor_kok (st : St) {ks : KState} (texts : List (Nat × Nat)) {keys : List Nat} (h : KOK ks)
    (hk : keys.Nodup) : KOK (rerunFor st ks texts keys).1 := by
  have hw0 := h.wf.raise_next (max ks.w.next st.next)
  have hm0 := h.mounted.raise_next (n := max ks.w.next st.next) (Nat.le_max_left _ _)
  have hs := C11_storage_is_to _ keys hw0 hk
  have hd := C11_dom_order _ keys [] [] hw0 hm0 hk
  refine ⟨hs.2.2.2.2, hd.2, h.bs, ?_⟩
  have := rebuild_nodes_length _ keys hw0 (fun it hit => by rw [h.bs]; exact h.one it hit) hk
  intro it hit
  have h1 := this it hit
  rw [h.bs] at h1
  exact h1

/-- the state is untouched by `rerunFor` except for the id counter -/
theorem rerunFor_st (st : St) (ks : KState) (texts : List (Nat × Nat)) (keys : List Nat) :
    ∃ n, (rerunFor st ks texts keys).2.2.1 = { st with next := n } := ⟨_, rfl⟩

theorem buildFor_st (st : St) (keys : List Nat) :
    ∃ n, (buildFor st keys).2.2 = { st with next := n } := ⟨_, rfl⟩

theorem nodupNat_nodup : ∀ {l : List Nat}, nodupNat l = true → l.Nodup
  | [], _ => List.nodup_nil
  | k :: ks, h => by
    simp only [nodupNat, Bool.and_eq_true, Bool.not_eq_true', List.contains_eq_mem,
      decide_eq_false_iff_not] at h
    exact List.nodup_cons.2 ⟨h.1, nodupNat_nodup h.2⟩

theorem listAt_nodup {lists : List (List Nat)} (h : lists.all nodupNat = true) (v : Int) :
    (listAt lists v).Nodup := by
  unfold listAt
  rw [List.getD_eq_getElem?_getD]
  cases hg : lists[forIndex v lists.length]? with
  | none => exact List.nodup_nil
  | some l =>
    have hm : l ∈ lists := List.mem_of_getElem? hg
    exact nodupNat_nodup (List.all_eq_true.1 h l hm)

/-- what `View.wf` says of a `<For>` -/
theorem wf_forKeyed {k : Nat} {sel : Expr} {lists : List (List Nat)} (h : (View.forKeyed sel lists).wf k = true) :
    (sel.readsBelow k = true ∧ sel.noWrite = true ∧ sel.noUntracked = true) ∧ lists.all nodupNat = true := by
  simp only [View.wf, Bool.and_eq_true] at h
  exact ⟨⟨h.1.1.1.1, h.1.1.1.2, h.1.1.2⟩, h.2⟩

theorem build_forKeyed (sel : Expr) (lists : List (List Nat)) (st : St) :
    build (.forKeyed sel lists) st =
      (.forK (newEff st (st.res sel)).1 sel lists (buildFor (newEff st (st.res sel)).2.2 (listAt lists (newEff st (st.res sel)).2.1)).1
          (buildFor (newEff st (st.res sel)).2.2 (listAt lists (newEff st (st.res sel)).2.1)).2.1,
       (buildFor (newEff st (st.res sel)).2.2 (listAt lists (newEff st (st.res sel)).2.1)).2.2.spawn (newEff st (st.res sel)).1) := rfl

theorem rerunIn_forK_self (e : Nat) (v : Int) (sel : Expr) (lists : List (List Nat)) (ks : KState)
    (texts : List (Nat × Nat)) (st : St) :
    rerunIn e v (.forK e sel lists ks texts) st =
      (.forK e sel lists (rerunFor st ks texts (listAt lists v)).1 (rerunFor st ks texts (listAt lists v)).2.1,
       (rerunFor st ks texts (listAt lists v)).2.2.1, (rerunFor st ks texts (listAt lists v)).2.2.2) := by
  simp only [rerunIn, if_true]

theorem rerunIn_forK_other {e e' : Nat} (h : ¬ e' = e) (v : Int) (sel : Expr) (lists : List (List Nat))
    (ks : KState) (texts : List (Nat × Nat)) (st : St) :
    rerunIn e v (.forK e' sel lists ks texts) st = (.forK e' sel lists ks texts, st, 0) := by
  simp only [rerunIn, if_neg h]

/-- a row whose key is still in the list keeps its item (the same `<li>` node) -/
theorem rerunFor_keeps (st : St) {ks : KState} (texts : List (Nat × Nat)) {keys : List Nat} (h : KOK ks)
    (hk : keys.Nodup) :
    ∀ it ∈ somes ks.w.storage, it.key ∈ keys → it ∈ somes (rerunFor st ks texts keys).1.w.storage :=
  (C11_identity _ keys (h.wf.raise_next (max ks.w.next st.next)) hk).1

end Leptos.RView
