import LeptosModel.Model.Hydrate
import LeptosModel.Proofs.StreamView
/-! Proofs/HydrateStream — the builder programs of `Hydrate.compile` (views with `Suspend`s, `Position` threaded)
    are in the classes C07's stream theorems quantify over, and when every position guess of a pending `Suspend`
    is right (`Agree`) their resolved document is the synchronous HTML of the view. -/
namespace Leptos.Hydrate
open Leptos.Dom Leptos.View
open Leptos.Stream (Op inOrdOps inOrdOp docOps docOp oooDocOps oooDocOp OooWf inOrdOps_append docOps_append oooDocOps_append)

/-! ## the client's view prints, and leaves positions, like the server's -/

theorem viewExists_clientOf (v : View) : viewExists (clientOf v) = viewExists v := by
  cases v <;> simp [clientOf, viewExists]

mutual
theorem after_clientOf (esc : Bool) : (v : View) → ∀ (pos : Position), after esc (clientOf v) pos = after esc v pos
  | .text _, _ => rfl
  | .unit, _ => rfl
  | .onone, _ => rfl
  | .elem _ _ _, _ => rfl
  | .tuple vs, pos => by simp only [clientOf, after, afterL_clientOf esc vs pos]
  | .osome v, pos => by simp only [clientOf, after, after_clientOf esc v pos]
  | .either _ _ v, pos => by simp only [clientOf, after, after_clientOf esc v pos]
  | .vec vs, pos => by simp only [clientOf, after, afterL_clientOf esc vs pos]
  | .any _ v, pos => by simp only [clientOf, after, after_clientOf esc v pos]
theorem afterL_clientOf (esc : Bool) : (vs : List View) → ∀ (pos : Position),
    afterL esc (clientOfL vs) pos = afterL esc vs pos
  | [], _ => rfl
  | v :: vs, pos => by simp only [clientOfL, afterL, after_clientOf esc v pos, afterL_clientOf esc vs]
end

mutual
/-- `Suspend` with its data present prints what its value prints: the client's view and the server's view have
    the same synchronous HTML -/
theorem html_clientOf (esc : Bool) : (v : View) → ∀ (pos : Position), html esc (clientOf v) pos = html esc v pos
  | .text _, _ => rfl
  | .unit, _ => rfl
  | .onone, _ => rfl
  | .elem tag as c, pos => by
    simp only [clientOf, html, viewExists_clientOf, html_clientOf (escKids tag) c .firstChild]
  | .tuple vs, pos => by simp only [clientOf, html, htmlL_clientOf esc vs pos]
  | .osome v, pos => by simp only [clientOf, html, html_clientOf esc v pos]
  | .either _ _ v, pos => by simp only [clientOf, html, html_clientOf esc v pos]
  | .vec vs, pos => by simp only [clientOf, html, htmlL_clientOf esc vs pos]
  | .any _ v, pos => by simp only [clientOf, html, html_clientOf esc v pos]
theorem htmlL_clientOf (esc : Bool) : (vs : List View) → ∀ (pos : Position),
    htmlL esc (clientOfL vs) pos = htmlL esc vs pos
  | [], _ => rfl
  | v :: vs, pos => by
    simp only [clientOfL, htmlL, html_clientOf esc v pos, after_clientOf esc v pos, htmlL_clientOf esc vs]
end

theorem toHtml_clientOf (v : View) : toHtml (clientOf v) = toHtml v := html_clientOf true v .firstChild

/-! ## in-order programs -/

theorem inOrdOps_sync (s : Str) : inOrdOps [Op.sync s] = true := by simp [inOrdOps, inOrdOp]

mutual
theorem compile_inOrd (d0 : List Nat) : (v : View) → ∀ (esc : Bool) (pos : Position),
    inOrdOps (compile false d0 esc v pos).1 = true
  | .text _, _, _ => by simp [compile, inOrdOps, inOrdOp]
  | .unit, _, _ => by simp [compile, inOrdOps, inOrdOp]
  | .onone, _, _ => by simp [compile, inOrdOps, inOrdOp]
  | .elem tag as c, esc, pos => by
    simp only [compile]
    split
    · simp [inOrdOps, inOrdOp]
    · split
      · have hk : inOrdOps (kidsOps tag (compile false d0 (escKids tag) c .firstChild).1) = true := by
          unfold kidsOps
          split
          · simp [inOrdOps, inOrdOp]
          · exact compile_inOrd d0 c (escKids tag) .firstChild
        simp [inOrdOps, inOrdOp, inOrdOps_append, hk]
      · simp [inOrdOps, inOrdOp]
  | .tuple vs, esc, pos => by simpa [compile] using compileL_inOrd d0 vs esc pos
  | .osome v, esc, pos => by simpa [compile] using compile_inOrd d0 v esc pos
  | .either _ _ v, esc, pos => by simpa [compile] using compile_inOrd d0 v esc pos
  | .vec vs, esc, pos => by
    simp only [compile, inOrdOps_append, compileL_inOrd d0 vs esc pos, Bool.true_and]
    split <;> simp [inOrdOps, inOrdOp]
  | .any ty v, esc, pos => by
    simp only [compile]
    split
    · exact compile_inOrd d0 v esc pos
    · split
      · exact compile_inOrd d0 v esc pos
      · simp [inOrdOps, inOrdOp, compile_inOrd d0 v esc pos]
theorem compileL_inOrd (d0 : List Nat) : (vs : List View) → ∀ (esc : Bool) (pos : Position),
    inOrdOps (compileL false d0 esc vs pos).1 = true
  | [], _, _ => by simp [compileL, inOrdOps]
  | v :: vs, esc, pos => by
    simp only [compileL, inOrdOps_append, compile_inOrd d0 v esc pos, compileL_inOrd d0 vs esc, Bool.and_self]
end

/-! ## out-of-order programs -/

mutual
theorem compile_oooWf (d0 : List Nat) : (v : View) → ∀ (esc : Bool) (pos : Position),
    OooWf (compile true d0 esc v pos).1
  | .text _, _, _ => by simpa [compile] using OooWf.sync _ OooWf.nil
  | .unit, _, _ => by simpa [compile] using OooWf.sync _ OooWf.nil
  | .onone, _, _ => by simpa [compile] using OooWf.sync _ OooWf.nil
  | .elem tag as c, esc, pos => by
    simp only [compile]
    refine OooWf.sync _ ?_
    split
    · exact OooWf.nil
    · split
      · have hk : OooWf (kidsOps tag (compile true d0 (escKids tag) c .firstChild).1) := by
          unfold kidsOps
          split
          · exact OooWf.sync _ OooWf.nil
          · exact compile_oooWf d0 c (escKids tag) .firstChild
        exact hk.append (OooWf.sync _ OooWf.nil)
      · exact OooWf.sync _ OooWf.nil
  | .tuple vs, esc, pos => by simpa [compile] using compileL_oooWf d0 vs esc pos
  | .osome v, esc, pos => by simpa [compile] using compile_oooWf d0 v esc pos
  | .either _ _ v, esc, pos => by simpa [compile] using compile_oooWf d0 v esc pos
  | .vec vs, esc, pos => by
    simp only [compile]
    refine (compileL_oooWf d0 vs esc pos).append ?_
    split
    · exact OooWf.sync _ OooWf.nil
    · exact OooWf.nil
  | .any ty v, esc, pos => by
    simp only [compile]
    split
    · exact compile_oooWf d0 v esc pos
    · split
      · exact compile_oooWf d0 v esc pos
      · exact OooWf.triple _ _ _ (compile_oooWf d0 v true pos) OooWf.nil
theorem compileL_oooWf (d0 : List Nat) : (vs : List View) → ∀ (esc : Bool) (pos : Position),
    OooWf (compileL true d0 esc vs pos).1
  | [], _, _ => by simpa [compileL] using OooWf.nil
  | v :: vs, esc, pos => by
    simp only [compileL]
    exact (compile_oooWf d0 v esc pos).append (compileL_oooWf d0 vs esc _)
end

/-! ## the resolved document, when every guess is right -/

/-- the resolved document of a program in the reading of its mode -/
def docOf (ooo : Bool) (ops : List Op) : Str := if ooo then oooDocOps ops else docOps ops

theorem docOf_append (ooo : Bool) {a : List Op} (ha : ooo = true → OooWf a) (b : List Op) :
    docOf ooo (a ++ b) = docOf ooo a ++ docOf ooo b := by
  cases ooo with
  | false => simp [docOf, docOps_append]
  | true => simp [docOf, oooDocOps_append (ha rfl)]

theorem docOf_sync (ooo : Bool) (s : Str) : docOf ooo [Op.sync s] = s := by
  cases ooo <;> simp [docOf, docOps, docOp, oooDocOps, oooDocOp]

theorem docOf_nil (ooo : Bool) : docOf ooo [] = [] := by
  cases ooo <;> simp [docOf, docOps, oooDocOps]

theorem docOf_sync_cons (ooo : Bool) (s : Str) (os : List Op) : docOf ooo (Op.sync s :: os) = s ++ docOf ooo os := by
  cases ooo <;> simp [docOf, docOps, docOp, oooDocOps, oooDocOp]

theorem compile_wf (ooo : Bool) (d0 : List Nat) (v : View) (esc : Bool) (pos : Position) :
    ooo = true → OooWf (compile ooo d0 esc v pos).1 := by
  intro h; subst h; exact compile_oooWf d0 v esc pos

theorem compileL_wf (ooo : Bool) (d0 : List Nat) (vs : List View) (esc : Bool) (pos : Position) :
    ooo = true → OooWf (compileL ooo d0 esc vs pos).1 := by
  intro h; subst h; exact compileL_oooWf d0 vs esc pos

theorem kidsOps_wf (ooo : Bool) (tag : String) {ops : List Op} (h : ooo = true → OooWf ops) :
    ooo = true → OooWf (kidsOps tag ops) := by
  intro ho
  unfold kidsOps
  split
  · exact OooWf.sync _ OooWf.nil
  · exact h ho

/-- a program of `push_sync`s only: its document is what it leaves in the buffer -/
theorem docOf_allSync (ooo : Bool) : ∀ (ops : List Op), ops.all isSyncOp = true → docOf ooo ops = syncCat ops
  | [], _ => docOf_nil ooo
  | o :: os, h => by
    simp only [List.all_cons, Bool.and_eq_true] at h
    cases o <;> simp only [isSyncOp] at h <;> try (exact absurd h.1 (by decide))
    rw [docOf_sync_cons, docOf_allSync ooo os h.2, syncCat]

/-- the children's part of an element, when the guesses are right and a `<textarea>` has no suspended child -/
theorem docOf_kidsOps (ooo : Bool) (tag : String) (ops : List Op) (body : Str) (hd : docOf ooo ops = body)
    (hs : (tag.toList != Html.tTextarea || ops.all isSyncOp) = true) :
    docOf ooo (kidsOps tag ops) = kidsBody tag body := by
  unfold kidsOps kidsBody
  by_cases ht : tag.toList = Html.tTextarea
  · have ha : ops.all isSyncOp = true := by simpa [ht] using hs
    simp only [ht, ha, decide_true, Bool.and_self, if_true]
    rw [docOf_sync, ← docOf_allSync ooo ops ha, hd]
  · simp [ht, hd]

mutual
/-- **compile_doc.** Every guess right ⇒ the program's resolved document is the synchronous HTML and the position
    it leaves is the synchronous one -/
theorem compile_doc (ooo : Bool) (d0 : List Nat) : (v : View) → ∀ (esc : Bool) (pos : Position),
    Agree ooo d0 esc v pos = true →
    docOf ooo (compile ooo d0 esc v pos).1 = html esc v pos ∧ (compile ooo d0 esc v pos).2 = after esc v pos
  | .text s, esc, pos, _ => by simp [compile, docOf_sync, after]
  | .unit, esc, pos, _ => by simp [compile, docOf_sync]
  | .onone, esc, pos, _ => by simp [compile, docOf_sync]
  | .elem tag as c, esc, pos, h => by
    simp only [compile, html, after, and_true, docOf_sync_cons]
    by_cases hv : isVoidT tag = true
    · simp [hv, docOf_nil]
    · simp only [hv, Bool.false_eq_true, if_false]
      by_cases he : viewExists c = true
      · have hc : Agree ooo d0 (escKids tag) c .firstChild = true ∧
            (tag.toList != Html.tTextarea || (compile ooo d0 (escKids tag) c .firstChild).1.all isSyncOp) = true := by
          simp only [Agree, Bool.or_eq_true, Bool.not_eq_true', Bool.and_eq_true] at h
          rcases h with (h | h) | h
          · exact absurd h hv
          · rw [he] at h; exact absurd h (by decide)
          · exact ⟨h.1, by simpa using h.2⟩
        have ih := (compile_doc ooo d0 c (escKids tag) .firstChild hc.1).1
        simp only [he, if_true]
        rw [docOf_append ooo (kidsOps_wf ooo tag (compile_wf ooo d0 c _ _)),
          docOf_kidsOps ooo tag _ _ ih hc.2, docOf_sync]
        simp
      · simp only [he, Bool.false_eq_true, if_false, List.nil_append, docOf_sync]
        simp
  | .tuple vs, esc, pos, h => by
    simp only [Agree] at h
    simpa [compile, html, after] using compileL_doc ooo d0 vs esc pos h
  | .osome v, esc, pos, h => by
    simp only [Agree] at h
    simpa [compile, html, after] using compile_doc ooo d0 v esc pos h
  | .either _ _ v, esc, pos, h => by
    simp only [Agree] at h
    simpa [compile, html, after] using compile_doc ooo d0 v esc pos h
  | .vec vs, esc, pos, h => by
    simp only [Agree] at h
    have ih := compileL_doc ooo d0 vs esc pos h
    simp only [compile, html, after]
    rw [docOf_append ooo (compileL_wf ooo d0 vs esc pos), ih.1]
    cases esc with
    | true => simp [docOf_sync]
    | false => simp [docOf_nil, ih.2]
  | .any ty v, esc, pos, h => by
    simp only [compile, html, after]
    simp only [Agree] at h
    split
    · rename_i hn
      simp only [hn] at h
      exact compile_doc ooo d0 v esc pos h
    · rename_i f hf
      simp only [hf] at h
      by_cases hd : d0.contains f = true
      · simp only [hd, if_true] at h ⊢
        exact compile_doc ooo d0 v esc pos h
      · simp only [hd, Bool.false_eq_true, if_false] at h ⊢
        cases ooo with
        | true =>
          simp only [if_true, Bool.and_eq_true, decide_eq_true_eq] at h ⊢
          obtain ⟨⟨he, ha⟩, hp⟩ := h
          subst he
          have ih := compile_doc true d0 v true pos ha
          refine ⟨?_, hp.symm⟩
          have : docOf true (compile true d0 true v pos).1 = oooDocOps (compile true d0 true v pos).1 := by
            simp [docOf]
          rw [← ih.1, this]
          simp [docOf, oooDocOps, oooDocOp]
        | false =>
          simp only [Bool.false_eq_true, if_false, Bool.and_eq_true, decide_eq_true_eq] at h ⊢
          obtain ⟨ha, hp⟩ := h
          have ih := compile_doc false d0 v esc pos ha
          refine ⟨?_, hp.symm⟩
          rw [← ih.1]
          simp [docOf, docOps, docOp]
theorem compileL_doc (ooo : Bool) (d0 : List Nat) : (vs : List View) → ∀ (esc : Bool) (pos : Position),
    AgreeL ooo d0 esc vs pos = true →
    docOf ooo (compileL ooo d0 esc vs pos).1 = htmlL esc vs pos ∧ (compileL ooo d0 esc vs pos).2 = afterL esc vs pos
  | [], esc, pos, _ => by simp [compileL, htmlL, afterL, docOf_nil]
  | v :: vs, esc, pos, h => by
    simp only [AgreeL, Bool.and_eq_true] at h
    have i1 := compile_doc ooo d0 v esc pos h.1
    have i2 := compileL_doc ooo d0 vs esc (after esc v pos) h.2
    simp only [compileL, htmlL, afterL]
    rw [docOf_append ooo (compile_wf ooo d0 v esc pos), i1.1, i1.2, i2.1, i2.2]
    exact ⟨rfl, rfl⟩
end

theorem all_append_sync (a b : List Op) : (a ++ b).all isSyncOp = (a.all isSyncOp && b.all isSyncOp) := by
  simp [List.all_append]

mutual
/-- every future ready at render time: the view only calls `push_sync` -/
theorem compile_allSync (ooo : Bool) (d0 : List Nat) : (v : View) → ∀ (esc : Bool) (pos : Position),
    (∀ f ∈ fidsOf v, d0.contains f = true) → (compile ooo d0 esc v pos).1.all isSyncOp = true
  | .text _, _, _, _ => by simp [compile, isSyncOp]
  | .unit, _, _, _ => by simp [compile, isSyncOp]
  | .onone, _, _, _ => by simp [compile, isSyncOp]
  | .elem tag as c, esc, pos, h => by
    have hc := compile_allSync ooo d0 c (escKids tag) .firstChild (by simpa [fidsOf] using h)
    have hk : (kidsOps tag (compile ooo d0 (escKids tag) c .firstChild).1).all isSyncOp = true := by
      unfold kidsOps
      split
      · simp [isSyncOp]
      · exact hc
    simp only [compile]
    split
    · simp [isSyncOp]
    · split
      · simp [isSyncOp, List.all_append, hk]
      · simp [isSyncOp]
  | .tuple vs, esc, pos, h => by simpa [compile] using compileL_allSync ooo d0 vs esc pos (by simpa [fidsOf] using h)
  | .osome v, esc, pos, h => by simpa [compile] using compile_allSync ooo d0 v esc pos (by simpa [fidsOf] using h)
  | .either _ _ v, esc, pos, h => by simpa [compile] using compile_allSync ooo d0 v esc pos (by simpa [fidsOf] using h)
  | .vec vs, esc, pos, h => by
    have := compileL_allSync ooo d0 vs esc pos (by simpa [fidsOf] using h)
    simp only [compile, List.all_append, this, Bool.true_and]
    split <;> simp [isSyncOp]
  | .any ty v, esc, pos, h => by
    have hv : ∀ f ∈ fidsOf v, d0.contains f = true := fun f hf => h f (by simp [fidsOf, hf])
    simp only [compile]
    split
    · exact compile_allSync ooo d0 v esc pos hv
    · rename_i f hf
      have : d0.contains f = true := h f (by simp [fidsOf, hf])
      simp only [this, if_true]
      exact compile_allSync ooo d0 v esc pos hv
theorem compileL_allSync (ooo : Bool) (d0 : List Nat) : (vs : List View) → ∀ (esc : Bool) (pos : Position),
    (∀ f ∈ fidsOfL vs, d0.contains f = true) → (compileL ooo d0 esc vs pos).1.all isSyncOp = true
  | [], _, _, _ => by simp [compileL]
  | v :: vs, esc, pos, h => by
    simp only [compileL, List.all_append, Bool.and_eq_true]
    exact ⟨compile_allSync ooo d0 v esc pos (fun f hf => h f (by simp [fidsOfL, hf])),
           compileL_allSync ooo d0 vs esc _ (fun f hf => h f (by simp [fidsOfL, hf]))⟩
end

mutual
/-- every future ready at render time: no guess is made -/
theorem agree_of_ready (ooo : Bool) (d0 : List Nat) : (v : View) → ∀ (esc : Bool) (pos : Position),
    (∀ f ∈ fidsOf v, d0.contains f = true) → Agree ooo d0 esc v pos = true
  | .text _, _, _, _ => rfl
  | .unit, _, _, _ => rfl
  | .onone, _, _, _ => rfl
  | .elem tag as c, esc, pos, h => by
    simp only [Agree, Bool.or_eq_true, Bool.and_eq_true]
    exact Or.inr ⟨agree_of_ready ooo d0 c _ _ (by simpa [fidsOf] using h),
      Or.inr (compile_allSync ooo d0 c _ _ (by simpa [fidsOf] using h))⟩
  | .tuple vs, esc, pos, h => by simpa [Agree] using agreeL_of_ready ooo d0 vs esc pos (by simpa [fidsOf] using h)
  | .osome v, esc, pos, h => by simpa [Agree] using agree_of_ready ooo d0 v esc pos (by simpa [fidsOf] using h)
  | .either _ _ v, esc, pos, h => by simpa [Agree] using agree_of_ready ooo d0 v esc pos (by simpa [fidsOf] using h)
  | .vec vs, esc, pos, h => by simpa [Agree] using agreeL_of_ready ooo d0 vs esc pos (by simpa [fidsOf] using h)
  | .any ty v, esc, pos, h => by
    simp only [Agree]
    have hv : ∀ f ∈ fidsOf v, d0.contains f = true := fun f hf => h f (by simp [fidsOf, hf])
    split
    · exact agree_of_ready ooo d0 v esc pos hv
    · rename_i f hf
      have : d0.contains f = true := h f (by simp [fidsOf, hf])
      simp only [this, if_true]
      exact agree_of_ready ooo d0 v esc pos hv
theorem agreeL_of_ready (ooo : Bool) (d0 : List Nat) : (vs : List View) → ∀ (esc : Bool) (pos : Position),
    (∀ f ∈ fidsOfL vs, d0.contains f = true) → AgreeL ooo d0 esc vs pos = true
  | [], _, _, _ => rfl
  | v :: vs, esc, pos, h => by
    simp only [AgreeL, Bool.and_eq_true]
    exact ⟨agree_of_ready ooo d0 v esc pos (fun f hf => h f (by simp [fidsOfL, hf])),
           agreeL_of_ready ooo d0 vs esc _ (fun f hf => h f (by simp [fidsOfL, hf]))⟩
end

/-! ## the harness' plan is a schedule -/

open Leptos.Stream (Run Poll) in
theorem polls_append (a b : List (List Nat)) : ∀ (r : Run), (r.polls a).polls b = r.polls (a ++ b) := by
  induction a with
  | nil => intro r; rfl
  | cons n ns ih => intro r; simp only [Run.polls, List.cons_append, ih]

open Leptos.Stream (Run Poll) in
theorem runPlan_polls : ∀ (plan : List (List Nat)) (r : Run), ∃ s, runPlan r plan = r.polls s
  | [], r => ⟨[], rfl⟩
  | n :: ns, r => by
    simp only [runPlan]
    split
    · exact ⟨[], rfl⟩
    · obtain ⟨s, hs⟩ := runPlan_polls ns (r.poll n)
      exact ⟨n :: s, by simp only [Run.polls, hs]⟩

open Leptos.Stream (Run Poll) in
theorem drain_polls : ∀ (k : Nat) (r : Run), ∃ s, r.drain k = r.polls s
  | 0, r => ⟨[], rfl⟩
  | k + 1, r => by
    unfold Run.drain
    split
    · exact ⟨[], rfl⟩
    · exact ⟨[], rfl⟩
    · exact ⟨[], rfl⟩
    · obtain ⟨s, hs⟩ := drain_polls k (r.poll [])
      exact ⟨[] :: s, by simp only [Run.polls, hs]⟩

/-- what `stream` runs is `startStream … |>.polls s` for some schedule `s` -/
theorem stream_polls (ooo : Bool) (d0 : List Nat) (steps : List (List Nat)) (v : View) :
    ∃ s, (runPlan (Stream.startStream ooo d0 (compile ooo d0 true v .firstChild).1) (planOf d0 steps (fidsOf v))).drain 64
      = (Stream.startStream ooo d0 (compile ooo d0 true v .firstChild).1).polls s := by
  obtain ⟨s1, h1⟩ := runPlan_polls (planOf d0 steps (fidsOf v)) (Stream.startStream ooo d0 (compile ooo d0 true v .firstChild).1)
  obtain ⟨s2, h2⟩ := drain_polls 64 ((Stream.startStream ooo d0 (compile ooo d0 true v .firstChild).1).polls s1)
  exact ⟨s1 ++ s2, by rw [h1, h2, polls_append]⟩

end Leptos.Hydrate
