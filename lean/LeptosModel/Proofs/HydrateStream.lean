import LeptosModel.Model.Hydrate
import LeptosModel.Proofs.StreamView
/-! Proofs/HydrateStream — the builder programs of `Hydrate.compile` (views with `Suspend`s, `Position` threaded)
    are in the classes C07's stream theorems quantify over, and when every position guess of a pending `Suspend`
    is right (`Agree`) their resolved document is the synchronous HTML of the view. -/
namespace Leptos.Hydrate
open Leptos.Dom Leptos.View
open Leptos.Stream (Op inOrdOps inOrdOp docOps docOp oooDocOps oooDocOp OooWf inOrdOps_append docOps_append oooDocOps_append)

/-! ## the client's view prints, and leaves positions, like the server's -/

theorem viewExists_clientOf (v : View) : viewExists (clientOf v) = viewExists v := by
  cases v <;> simp [clientOf, viewExists]

mutual
theorem after_clientOf (esc : Bool) : (v : View) → ∀ (pos : Position), after esc (clientOf v) pos = after esc v pos
  | .text _, _ => rfl
  | .unit, _ => rfl
  | .onone, _ => rfl
  | .elem _ _ _, _ => rfl
  | .tuple vs, pos => by simp only [clientOf, after, afterL_clientOf esc vs pos]
  | .osome v, pos => by simp only [clientOf, after, after_clientOf esc v pos]
  | .either _ _ v, pos => by simp only [clientOf, after, after_clientOf esc v pos]
  | .vec vs, pos => by simp only [clientOf, after, afterL_clientOf esc vs pos]
  | .any _ v, pos => by simp only [clientOf, after, after_clientOf esc v pos]
theorem afterL_clientOf (esc : Bool) : (vs : List View) → ∀ (pos : Position),
    afterL esc (clientOfL vs) pos = afterL esc vs pos
  | [], _ => rfl
  | v :: vs, pos => by simp only [clientOfL, afterL, after_clientOf esc v pos, afterL_clientOf esc vs]
end

mutual
/-- `Suspend` with its data present prints what its value prints: the client's view and the server's view have
    the same synchronous HTML -/
theorem html_clientOf (esc : Bool) : (v : View) → ∀ (pos : Position), html esc (clientOf v) pos = html esc v pos
  | .text _, _ => rfl
  | .unit, _ => rfl
  | .onone, _ => rfl
  | .elem tag as c, pos => by
    simp only [clientOf, html, viewExists_clientOf, html_clientOf (escKids tag) c .firstChild]
  | .tuple vs, pos => by simp only [clientOf, html, htmlL_clientOf esc vs pos]
  | .osome v, pos => by simp only [clientOf, html, html_clientOf esc v pos]
  | .either _ _ v, pos => by simp only [clientOf, html, html_clientOf esc v pos]
  | .vec vs, pos => by simp only [clientOf, html, htmlL_clientOf esc vs pos]
  | .any _ v, pos => by simp only [clientOf, html, html_clientOf esc v pos]
theorem htmlL_clientOf (esc : Bool) : (vs : List View) → ∀ (pos : Position),
    htmlL esc (clientOfL vs) pos = htmlL esc vs pos
  | [], _ => rfl
  | v :: vs, pos => by
    simp only [clientOfL, htmlL, html_clientOf esc v pos, after_clientOf esc v pos, htmlL_clientOf esc vs]
end

theorem toHtml_clientOf (v : View) : toHtml (clientOf v) = toHtml v := html_clientOf true v .firstChild

/-! ## programs in the classes of C07's stream theorems, and their resolved documents -/

/-- the resolved document of a program in the reading of its mode -/
def docOf (ooo : Bool) (ops : List Op) : Str := if ooo then oooDocOps ops else docOps ops

theorem docOf_append (ooo : Bool) {a : List Op} (ha : ooo = true → OooWf a) (b : List Op) :
    docOf ooo (a ++ b) = docOf ooo a ++ docOf ooo b := by
  cases ooo with
  | false => simp [docOf, docOps_append]
  | true => simp [docOf, oooDocOps_append (ha rfl)]

theorem docOf_sync (ooo : Bool) (s : Str) : docOf ooo [Op.sync s] = s := by
  cases ooo <;> simp [docOf, docOps, docOp, oooDocOps, oooDocOp]

theorem docOf_nil (ooo : Bool) : docOf ooo [] = [] := by
  cases ooo <;> simp [docOf, docOps, oooDocOps]

theorem docOf_sync_cons (ooo : Bool) (s : Str) (os : List Op) : docOf ooo (Op.sync s :: os) = s ++ docOf ooo os := by
  cases ooo <;> simp [docOf, docOps, docOp, oooDocOps, oooDocOp]

/-- the program is in the class of its mode's stream theorem (`C07_in_order`: `inOrdOps`; `C07_out_of_order`: `OooWf`) -/
structure Good (ooo : Bool) (ops : List Op) : Prop where
  io : ooo = false → inOrdOps ops = true
  oo : ooo = true → OooWf ops

theorem Good.nil (ooo : Bool) : Good ooo [] := ⟨fun _ => by simp [inOrdOps], fun _ => OooWf.nil⟩

theorem Good.sync {ooo : Bool} {os : List Op} (s : Str) (h : Good ooo os) : Good ooo (Op.sync s :: os) :=
  ⟨fun e => by simp [inOrdOps, inOrdOp, h.io e], fun e => OooWf.sync s (h.oo e)⟩

theorem Good.append {ooo : Bool} {a b : List Op} (ha : Good ooo a) (hb : Good ooo b) : Good ooo (a ++ b) :=
  ⟨fun e => by rw [inOrdOps_append, ha.io e, hb.io e]; rfl, fun e => (ha.oo e).append (hb.oo e)⟩

theorem Good.doc_append {ooo : Bool} {a : List Op} (ha : Good ooo a) (b : List Op) :
    docOf ooo (a ++ b) = docOf ooo a ++ docOf ooo b := docOf_append ooo ha.oo b

theorem Good.kids {ooo : Bool} {ops : List Op} (tag : String) (h : Good ooo ops) : Good ooo (kidsOps tag ops) := by
  unfold kidsOps
  split
  · exact Good.sync _ (Good.nil ooo)
  · exact h

/-- a program of `push_sync`s only: its document is what it leaves in the buffer -/
theorem docOf_allSync (ooo : Bool) : ∀ (ops : List Op), ops.all isSyncOp = true → docOf ooo ops = syncCat ops
  | [], _ => docOf_nil ooo
  | o :: os, h => by
    simp only [List.all_cons, Bool.and_eq_true] at h
    cases o <;> simp only [isSyncOp] at h <;> try (exact absurd h.1 (by decide))
    rw [docOf_sync_cons, docOf_allSync ooo os h.2, syncCat]

/-- the children's part of an element, when a `<textarea>` has no suspended child -/
theorem docOf_kidsOps (ooo : Bool) (tag : String) (ops : List Op) (body : Str) (hd : docOf ooo ops = body)
    (hs : (tag.toList != Html.tTextarea || ops.all isSyncOp) = true) :
    docOf ooo (kidsOps tag ops) = kidsBody tag body := by
  unfold kidsOps kidsBody
  by_cases ht : tag.toList = Html.tTextarea
  · have ha : ops.all isSyncOp = true := by simpa [ht] using hs
    simp only [ht, ha, decide_true, Bool.and_self, if_true]
    rw [docOf_sync, ← docOf_allSync ooo ops ha, hd]
  · simp [ht, hd]

/-- `now_or_never`: both branches in the class, both render the same document -/
theorem Good.ite {ooo : Bool} {t e : List Op} (f : Stream.Fut) (ht : Good ooo t) (he : Good ooo e)
    (hd : docOf ooo t = docOf ooo e) : Good ooo [Op.ite f t e] := by
  refine ⟨fun h => ?_, fun h => ?_⟩
  · subst h
    have : docOps t = docOps e := by simpa [docOf] using hd
    simp [inOrdOps, inOrdOp, ht.io rfl, he.io rfl, this]
  · subst h
    exact OooWf.ite f (ht.oo rfl) (he.oo rfl) (by simpa [docOf] using hd) OooWf.nil

theorem docOf_ite (ooo : Bool) (f : Stream.Fut) (t e : List Op) : docOf ooo [Op.ite f t e] = docOf ooo t := by
  cases ooo <;> simp [docOf, docOps, docOp, oooDocOps, oooDocOp]

theorem Good.asyncCons {body os : List Op} (f : Stream.Fut) (hb : Good false body) (hk : Good false os) :
    Good false (Op.nextId :: Op.async f body :: os) :=
  ⟨fun _ => by simp [inOrdOps, inOrdOp, hb.io rfl, hk.io rfl], fun h => absurd h (by decide)⟩

theorem docOf_asyncCons (f : Stream.Fut) (body os : List Op) :
    docOf false (Op.nextId :: Op.async f body :: os) = docOf false body ++ docOf false os := by
  simp [docOf, docOps, docOp]

theorem Good.oooCons {body os : List Op} (s : Str) (f : Stream.Fut) (hb : Good true body) (hk : Good true os) :
    Good true (Op.nextId :: Op.fallback s :: Op.ooo f true body none :: os) :=
  ⟨fun h => absurd h (by decide), fun _ => OooWf.triple s f none (hb.oo rfl) (hk.oo rfl)⟩

theorem docOf_oooCons (s : Str) (f : Stream.Fut) (body os : List Op) :
    docOf true (Op.nextId :: Op.fallback s :: Op.ooo f true body none :: os) = docOf true body ++ docOf true os := by
  simp [docOf, oooDocOps, oooDocOp]

/-! ### the value of a `Suspend`, rendered when its future resolves (`compileB`) -/

mutual
/-- every `Suspend` in it guesses right ⇒ the program is in its mode's class and its resolved document is the
    synchronous HTML followed by the document of what comes after -/
theorem compileB_spec (ooo : Bool) : (v : View) → ∀ (esc : Bool) (pos : Position) (k : Position → List Op),
    AgreeB ooo esc v pos = true → Good ooo (k (after esc v pos)) →
    Good ooo (compileB ooo esc v pos k) ∧
      docOf ooo (compileB ooo esc v pos k) = html esc v pos ++ docOf ooo (k (after esc v pos))
  | .text s, esc, pos, k, _, hk => by
    simp only [compileB, after] at hk ⊢
    exact ⟨Good.sync _ hk, docOf_sync_cons ooo _ _⟩
  | .unit, esc, pos, k, _, hk => by
    simp only [compileB]
    exact ⟨Good.sync _ hk, docOf_sync_cons ooo _ _⟩
  | .onone, esc, pos, k, _, hk => by
    simp only [compileB]
    exact ⟨Good.sync _ hk, docOf_sync_cons ooo _ _⟩
  | .elem tag as c, esc, pos, k, h, hk => by
    simp only [after] at hk
    simp only [compileB, html, after]
    by_cases hv : isVoidT tag = true
    · simp only [hv, if_true, List.nil_append]
      exact ⟨Good.sync _ hk, by rw [docOf_sync_cons]; try simp⟩
    · simp only [hv, Bool.false_eq_true, if_false]
      by_cases he : viewExists c = true
      · have hc : AgreeB ooo (escKids tag) c .firstChild = true ∧
            (tag.toList != Html.tTextarea || (compileB ooo (escKids tag) c .firstChild (fun _ => [])).all isSyncOp) = true := by
          simp only [AgreeB, Bool.or_eq_true, Bool.not_eq_true', Bool.and_eq_true] at h
          rcases h with (h | h) | h
          · exact absurd h hv
          · rw [he] at h; exact absurd h (by decide)
          · exact ⟨h.1, by simpa using h.2⟩
        obtain ⟨g, ih⟩ := compileB_spec ooo c (escKids tag) .firstChild (fun _ => []) hc.1 (Good.nil ooo)
        have ih' : docOf ooo (compileB ooo (escKids tag) c .firstChild (fun _ => [])) = html (escKids tag) c .firstChild := by
          rw [ih, docOf_nil]; simp
        have gk := Good.kids tag g
        have gx : Good ooo (kidsOps tag (compileB ooo (escKids tag) c .firstChild (fun _ => [])) ++
            [Op.sync ('<' :: '/' :: tag.toList ++ ['>'])]) := gk.append (Good.sync _ (Good.nil ooo))
        simp only [he, if_true]
        refine ⟨Good.sync _ (gx.append hk), ?_⟩
        rw [docOf_sync_cons, gx.doc_append, gk.doc_append, docOf_kidsOps ooo tag _ _ ih' hc.2, docOf_sync]
        simp
      · simp only [he, Bool.false_eq_true, if_false, List.nil_append]
        have gx : Good ooo [Op.sync ('<' :: '/' :: tag.toList ++ ['>'])] := Good.sync _ (Good.nil ooo)
        refine ⟨Good.sync _ (gx.append hk), ?_⟩
        rw [docOf_sync_cons, gx.doc_append, docOf_sync]
        simp
  | .tuple vs, esc, pos, k, h, hk => by
    simp only [AgreeB] at h
    simpa [compileB, html, after] using compileBL_spec ooo vs esc pos k h (by simpa [after] using hk)
  | .osome v, esc, pos, k, h, hk => by
    simp only [AgreeB] at h
    simpa [compileB, html, after] using compileB_spec ooo v esc pos k h (by simpa [after] using hk)
  | .either _ _ v, esc, pos, k, h, hk => by
    simp only [AgreeB] at h
    simpa [compileB, html, after] using compileB_spec ooo v esc pos k h (by simpa [after] using hk)
  | .vec vs, esc, pos, k, h, hk => by
    simp only [AgreeB] at h
    simp only [after] at hk
    have gm : Good ooo (if esc = true then [Op.sync marker] else []) := by
      split
      · exact Good.sync _ (Good.nil ooo)
      · exact Good.nil ooo
    obtain ⟨g, ih⟩ := compileBL_spec ooo vs esc pos
      (fun p => (if esc then [Op.sync marker] else []) ++ k (if esc then .nextChild else p)) h (gm.append hk)
    simp only [compileB, html, after]
    refine ⟨g, ?_⟩
    rw [ih, gm.doc_append]
    cases esc <;> simp [docOf_sync, docOf_nil]
  | .any ty v, esc, pos, k, h, hk => by
    simp only [after] at hk
    simp only [compileB, html, after]
    simp only [AgreeB] at h
    split
    · rename_i hn
      simp only [hn] at h
      exact compileB_spec ooo v esc pos k h hk
    · rename_i f hf
      simp only [hf] at h
      cases ooo with
      | true =>
        simp only [if_true, Bool.and_eq_true, decide_eq_true_eq] at h ⊢
        obtain ⟨⟨he, ha⟩, hp⟩ := h
        subst he
        obtain ⟨gt, dt⟩ := compileB_spec true v true pos k ha hk
        obtain ⟨gb, db⟩ := compileB_spec true v true pos (fun _ => []) ha (Good.nil true)
        have hk' : Good true (k pos) := by rw [← hp]; exact hk
        have ge : Good true ([Op.nextId, Op.fallback marker,
            Op.ooo (suspFut f) true (compileB true true v pos (fun _ => [])) none] ++ k pos) := Good.oooCons _ _ gb hk'
        have de : docOf true ([Op.nextId, Op.fallback marker,
            Op.ooo (suspFut f) true (compileB true true v pos (fun _ => [])) none] ++ k pos) =
            html true v pos ++ docOf true (k (after true v pos)) := by
          rw [show ([Op.nextId, Op.fallback marker, Op.ooo (suspFut f) true (compileB true true v pos (fun _ => [])) none] ++ k pos)
              = Op.nextId :: Op.fallback marker :: Op.ooo (suspFut f) true (compileB true true v pos (fun _ => [])) none :: k pos from rfl,
            docOf_oooCons, db, docOf_nil, hp]
          simp
        exact ⟨Good.ite _ gt ge (by rw [dt, de]), by rw [docOf_ite, dt]⟩
      | false =>
        simp only [Bool.false_eq_true, if_false, Bool.and_eq_true, decide_eq_true_eq] at h ⊢
        obtain ⟨ha, hp⟩ := h
        obtain ⟨gt, dt⟩ := compileB_spec false v esc pos k ha hk
        obtain ⟨gb, db⟩ := compileB_spec false v esc pos (fun _ => []) ha (Good.nil false)
        have hk' : Good false (k .nextChild) := by rw [← hp]; exact hk
        have ge : Good false ([Op.nextId, Op.async (suspFut f) (compileB false esc v pos (fun _ => []))] ++ k .nextChild) :=
          Good.asyncCons _ gb hk'
        have de : docOf false ([Op.nextId, Op.async (suspFut f) (compileB false esc v pos (fun _ => []))] ++ k .nextChild) =
            html esc v pos ++ docOf false (k (after esc v pos)) := by
          rw [show ([Op.nextId, Op.async (suspFut f) (compileB false esc v pos (fun _ => []))] ++ k .nextChild)
              = Op.nextId :: Op.async (suspFut f) (compileB false esc v pos (fun _ => [])) :: k .nextChild from rfl,
            docOf_asyncCons, db, docOf_nil, hp]
          simp
        exact ⟨Good.ite _ gt ge (by rw [dt, de]), by rw [docOf_ite, dt]⟩
theorem compileBL_spec (ooo : Bool) : (vs : List View) → ∀ (esc : Bool) (pos : Position) (k : Position → List Op),
    AgreeBL ooo esc vs pos = true → Good ooo (k (afterL esc vs pos)) →
    Good ooo (compileBL ooo esc vs pos k) ∧
      docOf ooo (compileBL ooo esc vs pos k) = htmlL esc vs pos ++ docOf ooo (k (afterL esc vs pos))
  | [], esc, pos, k, _, hk => by
    simp only [compileBL, htmlL, afterL] at hk ⊢
    exact ⟨hk, by simp⟩
  | v :: vs, esc, pos, k, h, hk => by
    simp only [AgreeBL, Bool.and_eq_true] at h
    simp only [afterL] at hk
    obtain ⟨g2, d2⟩ := compileBL_spec ooo vs esc (after esc v pos) k h.2 hk
    obtain ⟨g1, d1⟩ := compileB_spec ooo v esc pos (fun p => compileBL ooo esc vs p k) h.1 g2
    simp only [compileBL, htmlL, afterL]
    exact ⟨g1, by rw [d1, d2]; simp⟩
end

/-- a view whose value is rendered later (a pending `Suspend`, a `<Suspense>` boundary): the two branches of
    `to_html_async_with_buf`, when the guess is right -/
theorem pending_spec (ooo : Bool) (fut : Stream.Fut) (v : View) (esc : Bool) (pos : Position)
    (h : (if ooo = true then esc && AgreeB ooo true v pos && decide (after true v pos = pos)
          else AgreeB ooo esc v pos && decide (after esc v pos = .nextChild)) = true) :
    Good ooo (if ooo = true then
        (([Op.nextId, Op.fallback marker, Op.ooo fut true (compileB ooo true v pos (fun _ => [])) none], pos) : List Op × Position)
      else ([Op.nextId, Op.async fut (compileB ooo esc v pos (fun _ => []))], Position.nextChild)).1 ∧
    docOf ooo (if ooo = true then
        (([Op.nextId, Op.fallback marker, Op.ooo fut true (compileB ooo true v pos (fun _ => [])) none], pos) : List Op × Position)
      else ([Op.nextId, Op.async fut (compileB ooo esc v pos (fun _ => []))], Position.nextChild)).1 = html esc v pos ∧
    (if ooo = true then
        (([Op.nextId, Op.fallback marker, Op.ooo fut true (compileB ooo true v pos (fun _ => [])) none], pos) : List Op × Position)
      else ([Op.nextId, Op.async fut (compileB ooo esc v pos (fun _ => []))], Position.nextChild)).2 = after esc v pos := by
  cases ooo with
  | true =>
    simp only [if_true, Bool.and_eq_true, decide_eq_true_eq] at h ⊢
    obtain ⟨⟨he, ha⟩, hp⟩ := h
    subst he
    obtain ⟨gb, db⟩ := compileB_spec true v true pos (fun _ => []) ha (Good.nil true)
    refine ⟨Good.oooCons _ _ gb (Good.nil true), ?_, hp.symm⟩
    rw [docOf_oooCons, db, docOf_nil]
    simp
  | false =>
    simp only [Bool.false_eq_true, if_false, Bool.and_eq_true, decide_eq_true_eq] at h ⊢
    obtain ⟨ha, hp⟩ := h
    obtain ⟨gb, db⟩ := compileB_spec false v esc pos (fun _ => []) ha (Good.nil false)
    refine ⟨Good.asyncCons _ gb (Good.nil false), ?_, hp.symm⟩
    rw [docOf_asyncCons, db, docOf_nil]
    simp

/-! ### the view at render time (`compile`) -/

mutual
/-- **compile_spec.** Every guess right ⇒ the program is in its mode's class, its resolved document is the
    synchronous HTML, and the position it leaves is the synchronous one -/
theorem compile_spec (ooo : Bool) (d0 : List Nat) : (v : View) → ∀ (esc : Bool) (pos : Position),
    Agree ooo d0 esc v pos = true →
    Good ooo (compile ooo d0 esc v pos).1 ∧ docOf ooo (compile ooo d0 esc v pos).1 = html esc v pos ∧
      (compile ooo d0 esc v pos).2 = after esc v pos
  | .text s, esc, pos, _ => by
    simp only [compile, after]
    exact ⟨Good.sync _ (Good.nil ooo), docOf_sync ooo _, by first | rfl | trivial⟩
  | .unit, esc, pos, _ => by
    simp only [compile]
    exact ⟨Good.sync _ (Good.nil ooo), docOf_sync ooo _, by first | rfl | trivial⟩
  | .onone, esc, pos, _ => by
    simp only [compile]
    exact ⟨Good.sync _ (Good.nil ooo), docOf_sync ooo _, by first | rfl | trivial⟩
  | .elem tag as c, esc, pos, h => by
    simp only [compile, html, after, and_true]
    by_cases hv : isVoidT tag = true
    · simp only [hv, if_true]
      exact ⟨Good.sync _ (Good.nil ooo), by rw [docOf_sync]; try simp⟩
    · simp only [hv, Bool.false_eq_true, if_false]
      by_cases he : viewExists c = true
      · have hc : Agree ooo d0 (escKids tag) c .firstChild = true ∧
            (tag.toList != Html.tTextarea || (compile ooo d0 (escKids tag) c .firstChild).1.all isSyncOp) = true := by
          simp only [Agree, Bool.or_eq_true, Bool.not_eq_true', Bool.and_eq_true] at h
          rcases h with (h | h) | h
          · exact absurd h hv
          · rw [he] at h; exact absurd h (by decide)
          · exact ⟨h.1, by simpa using h.2⟩
        obtain ⟨g, ih, _⟩ := compile_spec ooo d0 c (escKids tag) .firstChild hc.1
        have gk := Good.kids tag g
        have gx : Good ooo (kidsOps tag (compile ooo d0 (escKids tag) c .firstChild).1 ++
            [Op.sync ('<' :: '/' :: tag.toList ++ ['>'])]) := gk.append (Good.sync _ (Good.nil ooo))
        simp only [he, if_true]
        refine ⟨Good.sync _ gx, ?_⟩
        rw [docOf_sync_cons, gk.doc_append, docOf_kidsOps ooo tag _ _ ih hc.2, docOf_sync]
        simp
      · simp only [he, Bool.false_eq_true, if_false, List.nil_append]
        refine ⟨Good.sync _ (Good.sync _ (Good.nil ooo)), ?_⟩
        rw [docOf_sync_cons, docOf_sync]
        simp
  | .tuple vs, esc, pos, h => by
    simp only [Agree] at h
    simpa [compile, html, after] using compileL_spec ooo d0 vs esc pos h
  | .osome v, esc, pos, h => by
    simp only [Agree] at h
    simpa [compile, html, after] using compile_spec ooo d0 v esc pos h
  | .either _ _ v, esc, pos, h => by
    simp only [Agree] at h
    simpa [compile, html, after] using compile_spec ooo d0 v esc pos h
  | .vec vs, esc, pos, h => by
    simp only [Agree] at h
    obtain ⟨g, ih1, ih2⟩ := compileL_spec ooo d0 vs esc pos h
    simp only [compile, html, after]
    have gm : Good ooo (if esc = true then [Op.sync marker] else []) := by
      split
      · exact Good.sync _ (Good.nil ooo)
      · exact Good.nil ooo
    refine ⟨g.append gm, ?_, ?_⟩
    · rw [g.doc_append, ih1]
      cases esc <;> simp [docOf_sync, docOf_nil]
    · cases esc <;> simp [ih2]
  | .any ty v, esc, pos, h => by
    simp only [compile, html, after]
    simp only [Agree] at h
    split
    · rename_i hn
      simp only [hn] at h
      by_cases hb : isBoundary ty = true
      · simp only [hb, if_true] at h ⊢
        exact pending_spec ooo boundaryFut v esc pos h
      · simp only [hb, Bool.false_eq_true, if_false] at h ⊢
        exact compile_spec ooo d0 v esc pos h
    · rename_i f hf
      simp only [hf] at h
      by_cases hd : d0.contains f = true
      · simp only [hd, if_true] at h ⊢
        exact compile_spec ooo d0 v esc pos h
      · simp only [hd, Bool.false_eq_true, if_false] at h ⊢
        exact pending_spec ooo (suspFut f) v esc pos h
theorem compileL_spec (ooo : Bool) (d0 : List Nat) : (vs : List View) → ∀ (esc : Bool) (pos : Position),
    AgreeL ooo d0 esc vs pos = true →
    Good ooo (compileL ooo d0 esc vs pos).1 ∧ docOf ooo (compileL ooo d0 esc vs pos).1 = htmlL esc vs pos ∧
      (compileL ooo d0 esc vs pos).2 = afterL esc vs pos
  | [], esc, pos, _ => by
    simp only [compileL, htmlL, afterL]
    exact ⟨Good.nil ooo, docOf_nil ooo, by first | rfl | trivial⟩
  | v :: vs, esc, pos, h => by
    simp only [AgreeL, Bool.and_eq_true] at h
    obtain ⟨g1, d1, p1⟩ := compile_spec ooo d0 v esc pos h.1
    obtain ⟨g2, d2, p2⟩ := compileL_spec ooo d0 vs esc (after esc v pos) h.2
    simp only [compileL, htmlL, afterL]
    rw [p1]
    exact ⟨g1.append g2, by rw [g1.doc_append, d1, d2], p2⟩
end

/-- the program of a view whose guesses are right is an in-order program in the sense of `C07_in_order` -/
theorem compile_inOrd (d0 : List Nat) (v : View) (esc : Bool) (pos : Position)
    (h : Agree false d0 esc v pos = true) : inOrdOps (compile false d0 esc v pos).1 = true :=
  (compile_spec false d0 v esc pos h).1.io rfl

/-- … and a well-formed out-of-order program in the sense of `C07_out_of_order` -/
theorem compile_oooWf (d0 : List Nat) (v : View) (esc : Bool) (pos : Position)
    (h : Agree true d0 esc v pos = true) : OooWf (compile true d0 esc v pos).1 :=
  (compile_spec true d0 v esc pos h).1.oo rfl

/-- **compile_doc.** Every guess right ⇒ the program's resolved document is the synchronous HTML and the position
    it leaves is the synchronous one -/
theorem compile_doc (ooo : Bool) (d0 : List Nat) (v : View) (esc : Bool) (pos : Position)
    (h : Agree ooo d0 esc v pos = true) :
    docOf ooo (compile ooo d0 esc v pos).1 = html esc v pos ∧ (compile ooo d0 esc v pos).2 = after esc v pos :=
  (compile_spec ooo d0 v esc pos h).2

theorem all_append_sync (a b : List Op) : (a ++ b).all isSyncOp = (a.all isSyncOp && b.all isSyncOp) := by
  simp [List.all_append]

theorem boundaries_any {ty : Ty} {v : View} (h : boundaries (.any ty v) = 0) : isBoundary ty = false ∧ boundaries v = 0 := by
  simp only [boundaries] at h
  by_cases hb : isBoundary ty = true
  · simp [hb] at h
  · exact ⟨by simpa using hb, by simpa [hb] using h⟩

theorem boundariesL_cons {v : View} {vs : List View} (h : boundariesL (v :: vs) = 0) : boundaries v = 0 ∧ boundariesL vs = 0 := by
  simp only [boundariesL] at h
  omega

mutual
/-- every future ready at render time, no `<Suspense>` boundary: the view only calls `push_sync` -/
theorem compile_allSync (ooo : Bool) (d0 : List Nat) : (v : View) → ∀ (esc : Bool) (pos : Position),
    (∀ f ∈ fidsOf v, d0.contains f = true) → boundaries v = 0 → (compile ooo d0 esc v pos).1.all isSyncOp = true
  | .text _, _, _, _, _ => by simp [compile, isSyncOp]
  | .unit, _, _, _, _ => by simp [compile, isSyncOp]
  | .onone, _, _, _, _ => by simp [compile, isSyncOp]
  | .elem tag as c, esc, pos, h, hb => by
    have hc := compile_allSync ooo d0 c (escKids tag) .firstChild (by simpa [fidsOf] using h) (by simpa [boundaries] using hb)
    have hk : (kidsOps tag (compile ooo d0 (escKids tag) c .firstChild).1).all isSyncOp = true := by
      unfold kidsOps
      split
      · simp [isSyncOp]
      · exact hc
    simp only [compile]
    split
    · simp [isSyncOp]
    · split
      · simp [isSyncOp, List.all_append, hk]
      · simp [isSyncOp]
  | .tuple vs, esc, pos, h, hb => by
    simpa [compile] using compileL_allSync ooo d0 vs esc pos (by simpa [fidsOf] using h) (by simpa [boundaries] using hb)
  | .osome v, esc, pos, h, hb => by
    simpa [compile] using compile_allSync ooo d0 v esc pos (by simpa [fidsOf] using h) (by simpa [boundaries] using hb)
  | .either _ _ v, esc, pos, h, hb => by
    simpa [compile] using compile_allSync ooo d0 v esc pos (by simpa [fidsOf] using h) (by simpa [boundaries] using hb)
  | .vec vs, esc, pos, h, hb => by
    have := compileL_allSync ooo d0 vs esc pos (by simpa [fidsOf] using h) (by simpa [boundaries] using hb)
    simp only [compile, List.all_append, this, Bool.true_and]
    split <;> simp [isSyncOp]
  | .any ty v, esc, pos, h, hb => by
    have hv : ∀ f ∈ fidsOf v, d0.contains f = true := fun f hf => h f (by simp [fidsOf, hf])
    obtain ⟨hnb, hbv⟩ := boundaries_any hb
    simp only [compile]
    split
    · simp only [hnb, Bool.false_eq_true, if_false]
      exact compile_allSync ooo d0 v esc pos hv hbv
    · rename_i f hf
      have : d0.contains f = true := h f (by simp [fidsOf, hf])
      simp only [this, if_true]
      exact compile_allSync ooo d0 v esc pos hv hbv
theorem compileL_allSync (ooo : Bool) (d0 : List Nat) : (vs : List View) → ∀ (esc : Bool) (pos : Position),
    (∀ f ∈ fidsOfL vs, d0.contains f = true) → boundariesL vs = 0 → (compileL ooo d0 esc vs pos).1.all isSyncOp = true
  | [], _, _, _, _ => by simp [compileL]
  | v :: vs, esc, pos, h, hb => by
    obtain ⟨h1, h2⟩ := boundariesL_cons hb
    simp only [compileL, List.all_append, Bool.and_eq_true]
    exact ⟨compile_allSync ooo d0 v esc pos (fun f hf => h f (by simp [fidsOfL, hf])) h1,
           compileL_allSync ooo d0 vs esc _ (fun f hf => h f (by simp [fidsOfL, hf])) h2⟩
end

mutual
/-- every future ready at render time, no `<Suspense>` boundary: no guess is made -/
theorem agree_of_ready (ooo : Bool) (d0 : List Nat) : (v : View) → ∀ (esc : Bool) (pos : Position),
    (∀ f ∈ fidsOf v, d0.contains f = true) → boundaries v = 0 → Agree ooo d0 esc v pos = true
  | .text _, _, _, _, _ => rfl
  | .unit, _, _, _, _ => rfl
  | .onone, _, _, _, _ => rfl
  | .elem tag as c, esc, pos, h, hb => by
    simp only [Agree, Bool.or_eq_true, Bool.and_eq_true]
    exact Or.inr ⟨agree_of_ready ooo d0 c _ _ (by simpa [fidsOf] using h) (by simpa [boundaries] using hb),
      Or.inr (compile_allSync ooo d0 c _ _ (by simpa [fidsOf] using h) (by simpa [boundaries] using hb))⟩
  | .tuple vs, esc, pos, h, hb => by
    simpa [Agree] using agreeL_of_ready ooo d0 vs esc pos (by simpa [fidsOf] using h) (by simpa [boundaries] using hb)
  | .osome v, esc, pos, h, hb => by
    simpa [Agree] using agree_of_ready ooo d0 v esc pos (by simpa [fidsOf] using h) (by simpa [boundaries] using hb)
  | .either _ _ v, esc, pos, h, hb => by
    simpa [Agree] using agree_of_ready ooo d0 v esc pos (by simpa [fidsOf] using h) (by simpa [boundaries] using hb)
  | .vec vs, esc, pos, h, hb => by
    simpa [Agree] using agreeL_of_ready ooo d0 vs esc pos (by simpa [fidsOf] using h) (by simpa [boundaries] using hb)
  | .any ty v, esc, pos, h, hb => by
    simp only [Agree]
    have hv : ∀ f ∈ fidsOf v, d0.contains f = true := fun f hf => h f (by simp [fidsOf, hf])
    obtain ⟨hnb, hbv⟩ := boundaries_any hb
    split
    · simp only [hnb, Bool.false_eq_true, if_false]
      exact agree_of_ready ooo d0 v esc pos hv hbv
    · rename_i f hf
      have : d0.contains f = true := h f (by simp [fidsOf, hf])
      simp only [this, if_true]
      exact agree_of_ready ooo d0 v esc pos hv hbv
theorem agreeL_of_ready (ooo : Bool) (d0 : List Nat) : (vs : List View) → ∀ (esc : Bool) (pos : Position),
    (∀ f ∈ fidsOfL vs, d0.contains f = true) → boundariesL vs = 0 → AgreeL ooo d0 esc vs pos = true
  | [], _, _, _, _ => rfl
  | v :: vs, esc, pos, h, hb => by
    obtain ⟨h1, h2⟩ := boundariesL_cons hb
    simp only [AgreeL, Bool.and_eq_true]
    exact ⟨agree_of_ready ooo d0 v esc pos (fun f hf => h f (by simp [fidsOfL, hf])) h1,
           agreeL_of_ready ooo d0 vs esc _ (fun f hf => h f (by simp [fidsOfL, hf])) h2⟩
end

/-! ## the harness' plan is a schedule -/

open Leptos.Stream (Run Poll) in
theorem polls_append (a b : List (List Nat)) : ∀ (r : Run), (r.polls a).polls b = r.polls (a ++ b) := by
  induction a with
  | nil => intro r; rfl
  | cons n ns ih => intro r; simp only [Run.polls, List.cons_append, ih]

open Leptos.Stream (Run Poll) in
theorem runPlan_polls : ∀ (plan : List (List Nat)) (r : Run), ∃ s, runPlan r plan = r.polls s
  | [], r => ⟨[], rfl⟩
  | n :: ns, r => by
    simp only [runPlan]
    split
    · exact ⟨[], rfl⟩
    · obtain ⟨s, hs⟩ := runPlan_polls ns (r.poll n)
      exact ⟨n :: s, by simp only [Run.polls, hs]⟩

open Leptos.Stream (Run Poll) in
theorem drain_polls : ∀ (k : Nat) (r : Run), ∃ s, r.drain k = r.polls s
  | 0, r => ⟨[], rfl⟩
  | k + 1, r => by
    unfold Run.drain
    split
    · exact ⟨[], rfl⟩
    · exact ⟨[], rfl⟩
    · exact ⟨[], rfl⟩
    · obtain ⟨s, hs⟩ := drain_polls k (r.poll [])
      exact ⟨[] :: s, by simp only [Run.polls, hs]⟩

/-- what `stream` runs is `startStream … |>.polls s` for some schedule `s` -/
theorem stream_polls (ooo : Bool) (d0 : List Nat) (steps : List (List Nat)) (v : View) :
    ∃ s, (runPlan (Stream.startStream ooo d0 (compile ooo d0 true v .firstChild).1) (planOf d0 steps (fidsOf v))).drain 64
      = (Stream.startStream ooo d0 (compile ooo d0 true v .firstChild).1).polls s := by
  obtain ⟨s1, h1⟩ := runPlan_polls (planOf d0 steps (fidsOf v)) (Stream.startStream ooo d0 (compile ooo d0 true v .firstChild).1)
  obtain ⟨s2, h2⟩ := drain_polls 64 ((Stream.startStream ooo d0 (compile ooo d0 true v .firstChild).1).polls s1)
  exact ⟨s1 ++ s2, by rw [h1, h2, polls_append]⟩

end Leptos.Hydrate
