import LeptosModel.Proofs.KeyedLogs
/-!
# Everything one `rebuild` does to `rendered_items` and the logs, for all duplicate-free key sequences (C11)
-/
namespace Leptos.Keyed

/-- a keyed list state as `build` / `rebuild` leave it: no holes, one item per key of `hashed_items`,
in that order, no key twice -/
structure Wf (s : KState) : Prop where
  all_some : s.w.storage = (somes s.w.storage).map some
  keys : (somes s.w.storage).map (·.key) = s.hashed
  nodup : s.hashed.Nodup

/-- what `apply_diff (diff f t)` leaves behind, `old` being the items keyed `f` -/
structure Summary (f t : List Key) (old : List Item) (w' : World) : Prop where
  all_some : w'.storage = (somes w'.storage).map some
  len : (somes w'.storage).length = t.length
  at_ : ∀ (j : Nat) (k : Key), t[j]? = some k → ∃ it, (somes w'.storage)[j]? = some it ∧ it.key = k ∧
    ∀ i : Nat, f[i]? = some k → old[i]? = some it
  builds_nodup : (w'.log.builds.map (·.1)).Nodup
  builds_mem : ∀ (k : Key) (i : Nat), (k, i) ∈ w'.log.builds ↔ t[i]? = some k ∧ k ∉ f
  unmounts_nodup : w'.log.unmounts.Nodup
  unmounts_mem : ∀ k, k ∈ w'.log.unmounts ↔ k ∈ f ∧ k ∉ t
  setIndex_nodup : (w'.log.setIndex.map (·.1)).Nodup
  setIndex_mem : ∀ (k : Key) (i : Nat), (k, i) ∈ w'.log.setIndex ↔ k ∈ f ∧ t[i]? = some k ∧ f[i]? ≠ some k
  no_panic : w'.log.panic = false

theorem somes_map_some (l : List Item) : somes (l.map some) = l := by
  induction l with
  | nil => rfl
  | cons a l ih => simp [somes] at ih ⊢

theorem clearPhase_eq (w : World) (old : List Item) (hw : w.storage = old.map some) :
    clearPhase w =
      { w with storage := [], kids := old.foldl unmountItem w.kids,
               log := { w.log with unmounts := w.log.unmounts ++ old.map (·.key) } } := by
  unfold clearPhase
  have h : w.storage.filterMap id = old := by rw [hw]; exact somes_map_some old
  rw [h]
  have : ∀ (l : List Item) (w : World), l.foldl World.unmount w =
      { w with kids := l.foldl unmountItem w.kids,
               log := { w.log with unmounts := w.log.unmounts ++ l.map (·.key) } } := by
    intro l
    induction l with
    | nil => intro w; simp
    | cons a l ih => intro w; simp [ih, World.unmount]
  rw [this]

/-- **master lemma**: for all duplicate-free `f`, `t` and any world whose storage holds the items keyed
`f`, with an empty log -/
theorem applyDiff_summary (D : List Key → List Key → Diff) (hD : DiffLike D)
    (f t : List Key) (old : List Item) (hf : f.Nodup) (ht : t.Nodup)
    (hold : old.map (·.key) = f) (bs : Nat) (marker : NodeId) (w : World)
    (hw : w.storage = old.map some) (hlog : w.log = {}) :
    Summary f t old (applyDiff bs marker (D f t) t w) := by
  by_cases hte : t = []
  · subst hte
    by_cases hfe : f = []
    · subst hfe
      have ho : old = [] := by cases old <;> simp_all
      subst ho
      have hd : D [] [] = {} := hD.nil_nil
      have : applyDiff bs marker (D [] []) [] w = w := by
        rw [hd]
        simp [applyDiff, unpackMoves, unpackLoop, hw]
        cases w; simp_all
      rw [this]
      constructor <;> simp [hw, hlog, somes]
    · have hd : D f [] = { clear := true } := hD.to_nil f hfe
      have : applyDiff bs marker (D f []) [] w = clearPhase w := by
        rw [hd]; simp [applyDiff]
      rw [this, clearPhase_eq w old hw]
      constructor <;> simp [hlog, somes, hold, hf]
  · obtain ⟨rem, U, ads, c, hn, _, heq⟩ := applyDiff_spec D hD f t old hf ht hold hte bs marker w hw
    rw [heq, c.pipeline_closed hn bs marker w hw]
    obtain ⟨h1, h2, h3⟩ := c.final_storage bs w.next
    refine ⟨h1, h2, ?_, ?_, ?_, ?_, ?_, ?_, ?_, ?_⟩
    · intro j k hk
      obtain ⟨it, hit, hkey, hold', _⟩ := h3 j k hk
      exact ⟨it, hit, hkey, hold'⟩
    · simpa [hlog] using c.builds_keys_nodup
    · intro k i; simpa [hlog] using c.mem_builds
    · simp only [hlog, hw, List.nil_append]; rw [c.unmounts_eq]; exact c.unmounts_nodup
    · intro k; simp only [hlog, hw, List.nil_append]; rw [c.unmounts_eq]; exact c.mem_unmounts
    · simp only [hlog, hw, List.nil_append]; rw [c.setIndex_eq]; exact c.setIndex_keys_nodup
    · intro k i; simp only [hlog, hw, List.nil_append]; rw [c.setIndex_eq]; exact c.mem_setIndex
    · simp [hlog]

end Leptos.Keyed
