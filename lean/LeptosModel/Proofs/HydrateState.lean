import LeptosModel.Proofs.HydratePrint
import LeptosModel.Proofs.HydrateWalk
/-! Helper lemmas for C05, part 3: the executable `realB` is sound for `real`; the grammar of
`C05_parse_print` is inside the grammar of the walk; the hydrated state has the shape of a
client-built one. -/
namespace Leptos.Hydrate
open Leptos.Dom Leptos.View

/-! ### `realB` is sound -/

mutual
theorem real_of_realB (d : Dom) : (t : HTree) → (i : IdTree) → (p : Id) → realB d t i p = true → real d t i p
  | .text s, .node i ks, p, h => by
    simp only [realB, Bool.and_eq_true, List.isEmpty_iff] at h
    obtain ⟨hks, h2⟩ := h
    cases hr : d.get? i with
    | none => simp [hr] at h2
    | some r =>
      simp only [hr, Bool.and_eq_true, beq_iff_eq] at h2
      simp only [real]
      exact ⟨hks, r, hr, h2.1.1, h2.1.2, h2.2⟩
  | .comment s, .node i ks, p, h => by
    simp only [realB, Bool.and_eq_true, List.isEmpty_iff] at h
    obtain ⟨hks, h2⟩ := h
    cases hr : d.get? i with
    | none => simp [hr] at h2
    | some r =>
      simp only [hr, Bool.and_eq_true, beq_iff_eq] at h2
      simp only [real]
      exact ⟨hks, r, hr, h2.1.1, h2.1.2, h2.2⟩
  | .elem tag attrs kids, .node i ks, p, h => by
    simp only [realB] at h
    cases hr : d.get? i with
    | none => simp [hr] at h
    | some r =>
      simp only [hr, Bool.and_eq_true, beq_iff_eq, decide_eq_true_eq] at h
      obtain ⟨⟨⟨⟨⟨h1, h2⟩, h3⟩, h4⟩, h5⟩, h6⟩ := h
      simp only [real]
      exact ⟨r, hr, h1, h2, h3, h4, h5, realL_of_realLB d kids ks i h6⟩
theorem realL_of_realLB (d : Dom) : (ts : List HTree) → (is : List IdTree) → (p : Id) →
    realLB d ts is p = true → realL d ts is p
  | [], [], _, _ => trivial
  | [], _ :: _, _, h => by simp [realLB] at h
  | _ :: _, [], _, h => by simp [realLB] at h
  | t :: ts, i :: is, p, h => by
    simp only [realLB, Bool.and_eq_true] at h
    exact ⟨real_of_realB d t i p h.1, realL_of_realLB d ts is p h.2⟩
end

theorem realises_of_realisesB {d : Dom} {root : Id} {f : List IdTree} {ts : List HTree}
    (h : realisesB d root f ts = true) : Realises d root f ts := by
  simp only [realisesB, Bool.and_eq_true, decide_eq_true_eq] at h
  obtain ⟨⟨h1, h2⟩, h3⟩ := h
  refine ⟨?_, h2, realL_of_realLB d ts f root h3⟩
  cases hr : d.get? root with
  | none => simp [hr] at h1
  | some r =>
    simp only [hr, Bool.and_eq_true, beq_iff_eq] at h1
    exact ⟨r, rfl, h1.1, h1.2⟩

/-! ### the two element tables agree -/

theorem toList_beq (t a : String) : (t.toList == a.toList) = (t == a) := by
  by_cases h : t = a
  · subst h
    rw [beq_self_eq_true, beq_self_eq_true]
  · have : ¬ t.toList = a.toList := fun e => h (String.toList_inj.mp e)
    rw [beq_eq_false_iff_ne.mpr this, beq_eq_false_iff_ne.mpr h]

theorem contains_toList (l : List String) (t : String) :
    (l.map String.toList).contains t.toList = l.contains t := by
  induction l with
  | nil => rfl
  | cons a as ih => simp only [List.map_cons, List.contains_cons, ih, toList_beq]

/-- `View.isVoid` (C03) and `Html.isVoid` (C06) are the same table -/
theorem isVoid_agree (tag : String) : View.isVoid tag = isVoidT tag := by
  have e : Html.voidTags = (["area", "base", "br", "col", "embed", "hr", "img", "input", "link", "meta", "source",
      "track", "wbr"] : List String).map String.toList := by decide
  simp only [View.isVoid, isVoidT, Html.isVoid, e, contains_toList]

/-! ### `wfV` implies `wfH` -/

mutual
theorem wfH_of_wfV : (v : View) → ∀ (anc : List Str), wfV anc v = true → wfH v = true
  | .text _, _, _ => rfl
  | .unit, _, _ => rfl
  | .onone, _, _ => rfl
  | .osome v, anc, h => by simpa [wfH] using wfH_of_wfV v anc (by simpa [wfV] using h)
  | .either _ _ v, anc, h => by simpa [wfH] using wfH_of_wfV v anc (by simpa [wfV] using h)
  | .any _ v, anc, h => by simpa [wfH] using wfH_of_wfV v anc (by simpa [wfV] using h)
  | .tuple vs, anc, h => by simpa [wfH] using wfHL_of_wfL vs anc (by simpa [wfV] using h)
  | .vec vs, anc, h => by simpa [wfH] using wfHL_of_wfL vs anc (by simpa [wfV] using h)
  | .elem tag as c, anc, h => by
    simp only [wfV, Bool.and_eq_true, Bool.or_eq_true] at h
    obtain ⟨_, hcase⟩ := h
    rcases hcase with ⟨hg, hc⟩ | ⟨hv, hne⟩
    · simp only [Html.genericOK, Bool.and_eq_true, Bool.not_eq_true'] at hg
      have hnv : isVoidT tag = false := hg.1.1.1.2
      have hesc : escKids tag = true := hg.1.1.2
      simp [wfH, hnv, hesc, wfH_of_wfV c _ hc]
    · simp only [Html.voidOK, Bool.and_eq_true] at hv
      have hisv : isVoidT tag = true := hv.1.2
      have hc : c = .unit := by
        cases c <;> simp [viewExists] at hne ⊢
      subst hc
      simp [wfH, hisv, viewExists]
theorem wfHL_of_wfL : (vs : List View) → ∀ (anc : List Str), wfL anc vs = true → wfHL vs = true
  | [], _, _ => rfl
  | v :: vs, anc, h => by
    simp only [wfL, Bool.and_eq_true] at h
    simp [wfHL, wfH_of_wfV v anc h.1, wfHL_of_wfL vs anc h.2]
end

/-! ### the hydrated state has the shape of a client-built state -/

theorem buildAttr_state (el : Id) (d : Dom) (a : AttrVal) : (buildAttr el d a).2 = hydrateAttr a := by
  cases a with
  | ostr n v => cases v <;> rfl
  | ocls v => cases v <;> rfl
  | opsty n v => cases v <;> rfl
  | _ => rfl

theorem buildAttrs_state (el : Id) : ∀ (as : List AttrVal) (d : Dom), (buildAttrs el as d).2 = as.map hydrateAttr
  | [], _ => rfl
  | a :: as, d => by
    simp only [buildAttrs, List.map_cons]
    rw [buildAttr_state, buildAttrs_state el as]

theorem viewExists_false {c : View} (h : viewExists c = false) : c = .unit := by
  cases c <;> simp [viewExists] at h ⊢

mutual
theorem shape_hyd (d : Dom) : (v : View) → ∀ (c : Cur) (o : Out) (d' : Dom), wfH v = true →
    hydrate d v c = .ok o → nshape o.state = nshape (build v d').2
  | .text s, c, o, d', _, h => by
    simp only [hydrate] at h
    split at h
    · cases h; simp [build, Dom.createTextNode, Dom.create, nshape]
    · cases h
  | .unit, c, o, d', _, h => by
    simp only [hydrate] at h
    split at h
    · cases h; simp [build, Dom.createPlaceholder, Dom.createComment, Dom.create, nshape]
    · cases h
  | .onone, c, o, d', _, h => by
    simp only [hydrate] at h
    split at h
    · cases h; simp [build, Dom.createPlaceholder, Dom.createComment, Dom.create, nshape]
    · cases h
  | .osome v, c, o, d', hw, h => by
    simp only [hydrate] at h
    split at h
    · rename_i o' ho
      cases h
      have := shape_hyd d v c o' d' (by simpa [wfH] using hw) ho
      simp [build, nshape, this]
    · cases h
  | .either _ i v, c, o, d', hw, h => by
    simp only [hydrate] at h
    split at h
    · rename_i o' ho
      cases h
      have := shape_hyd d v c o' d' (by simpa [wfH] using hw) ho
      simp [build, nshape, this]
    · cases h
  | .any ty v, c, o, d', hw, h => by
    simp only [hydrate] at h
    split at h
    · rename_i o' ho
      cases h
      have := shape_hyd d v c o' d' (by simpa [wfH] using hw) ho
      simp [build, nshape, this]
    · cases h
  | .tuple vs, c, o, d', hw, h => by
    simp only [hydrate] at h
    split at h
    · rename_i o' ho
      cases h
      have := shape_hydL d vs c o' d' (by simpa [wfH] using hw) ho
      simp [build, nshape, this]
    · cases h
  | .vec vs, c, o, d', hw, h => by
    simp only [hydrate] at h
    split at h
    · rename_i o' ho
      split at h
      · cases h
        have := shape_hydL d vs c o' (d'.createPlaceholder).1 (by simpa [wfH] using hw) ho
        simp [build, nshape, this]
      · cases h
    · cases h
  | .elem tag as child, c, o, d', hw, h => by
    simp only [wfH, Bool.and_eq_true] at hw
    obtain ⟨hshape, hwc⟩ := hw
    simp only [hydrate] at h
    split at h
    · split at h
      · -- no child state
        rename_i hskip
        cases h
        simp only [Bool.or_eq_true, Bool.not_eq_true'] at hskip
        by_cases hv : isVoidT tag = true
        · simp [build, isVoid_agree, hv, nshape, buildAttrs_state]
        · have hesc : escKids tag = true := by simpa [hv] using hshape
          have hne : viewExists child = false := by
            rcases hskip with h1 | h1
            · exact h1
            · rw [hesc] at h1; cases h1
          have hc := viewExists_false hne
          subst hc
          simp [build, isVoid_agree, hv, nshape, buildAttrs_state, Shape.elemOf, Dom.createPlaceholder,
            Dom.createComment, Dom.create]
      · rename_i hskip
        simp only [Bool.or_eq_true, Bool.not_eq_true', not_or, Bool.not_eq_false] at hskip
        split at h
        · rename_i o' ho
          cases h
          have hv : isVoidT tag = false := by
            cases hv : isVoidT tag with
            | false => rfl
            | true => simp [hv, hskip.1] at hshape
          have := shape_hyd d child _ o' ((buildAttrs (d'.createElement tag).2 as (d'.createElement tag).1).1) hwc ho
          simp [build, isVoid_agree, hv, nshape, buildAttrs_state, this]
        · cases h
    · cases h
theorem shape_hydL (d : Dom) : (vs : List View) → ∀ (c : Cur) (o : OutL) (d' : Dom), wfHL vs = true →
    hydrateList d vs c = .ok o → nshapeL o.states = nshapeL (buildList vs d').2
  | [], c, o, d', _, h => by
    simp only [hydrateList] at h
    cases h
    simp [buildList, nshapeL]
  | v :: vs, c, o, d', hw, h => by
    simp only [wfHL, Bool.and_eq_true] at hw
    simp only [hydrateList] at h
    split at h
    · rename_i o1 ho1
      split at h
      · rename_i o2 ho2
        cases h
        have h1 := shape_hyd d v c o1 d' hw.1 ho1
        have h2 := shape_hydL d vs o1.cur o2 (build v d').1 hw.2 ho2
        simp [buildList, nshapeL, h1, h2]
      · cases h
    · cases h
end

end Leptos.Hydrate
