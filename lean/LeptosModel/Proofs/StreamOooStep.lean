import LeptosModel.Proofs.StreamOoo
/-! Proofs/StreamOooStep — every activation of `poll_next` preserves the out-of-order invariant. -/
namespace Leptos.Stream

theorem nodup_replace {α : Type} {A C N : List α} {x : α} (h : (A ++ x :: C).Nodup) (hN : N.Nodup)
    (hf : ∀ k ∈ N, k ∉ A ++ x :: C) : (A ++ (N ++ C)).Nodup := by
  have hAC : (A ++ C).Nodup := List.Nodup.sublist (List.Sublist.append (List.Sublist.refl _) (List.sublist_cons_self _ _)) h
  have : (N ++ (A ++ C)).Nodup := by
    rw [List.nodup_append]
    refine ⟨hN, hAC, ?_⟩
    intro a ha b hb he
    subst he
    apply hf a ha
    rcases List.mem_append.1 hb with hb | hb
    · exact List.mem_append_left _ hb
    · exact List.mem_append_right _ (List.mem_cons_of_mem _ hb)
  refine (List.Perm.nodup_iff ?_).1 this
  rw [← List.append_assoc, ← List.append_assoc]
  exact List.Perm.append_right _ List.perm_append_comm

/-- the in-place branch -/
theorem OInv.resolveInline {S prog done Y b ys B1 B2 tail p rest I fb segsT psC}
    (h : OInv S prog done Y b ys (B1 ++ Item.seg (Seg.hole I fb) :: B2) tail []) (hpo : b.pendingOoo = p :: rest)
    (hpI : p.id = some I) (htail : segsStr tail = [])
    (hokT : ∀ g ∈ segsT, g.ok) (hlink : (holeIds segsT).map some = psC.map (·.id)) (hokC : ∀ q ∈ psC, NodeOk q)
    (hfill : ∀ done', (∀ x ∈ done, x ∈ done') → ∀ σ', Adm S done' σ' segsT psC → S.P done' p.body (fill σ' segsT))
    (hready : ∀ x ∈ p.fut.deps, x ∈ done)
    (hshape : ∀ i ∈ holeIds segsT, ∃ j, 1 ≤ j ∧ i = I ++ [j]) (hndC : (holeIds segsT).Nodup) :
    OInv S prog done Y { b with syncBuf := itemsStr B1 ++ segsStr segsT ++ itemsStr B2,
                                 chunks := psC.reverse.map Chunk.ooo, pendingOoo := rest }
      ys (B1 ++ segItems segsT ++ B2) tail psC.reverse := by
  have hholeT : holeIds tail = [] := holeIds_of_empty htail
  have hpmem : p ∈ [] ++ b.pendingOoo := by simp [hpo]
  have hnd := h.ndText
  simp only [allIds_append, allIds, hholeT, List.append_nil, List.append_assoc] at hnd
  -- hnd : (allIds ys ++ (allIds B1 ++ I :: allIds B2)).Nodup
  have hnd2 : ((allIds ys ++ allIds B1) ++ I :: allIds B2).Nodup := by simpa using hnd
  have hInot : I ∉ allIds ys ++ allIds B1 ∧ I ∉ allIds B2 := by
    have := List.nodup_append.1 hnd2
    refine ⟨fun hm => this.2.2 I hm I (by simp) rfl, (List.nodup_cons.1 this.2.1).1⟩
  have hchild : ∀ K ∈ holeIds segsT, K ∉ (allIds ys ++ allIds B1) ++ I :: allIds B2 := by
    intro K hK hm
    obtain ⟨j, _, rfl⟩ := hshape K hK
    refine h.fresh p hpmem I hpI _ ?_ (pp_snoc I j)
    simp only [allIds_append, allIds, List.mem_append, List.mem_cons] at hm ⊢
    rcases hm with (hm | hm) | hm | hm
    · exact Or.inl (Or.inl (Or.inl hm))
    · exact Or.inl (Or.inl (Or.inr (Or.inl hm)))
    · exact Or.inl (Or.inl (Or.inr (Or.inr (Or.inl hm))))
    · exact Or.inl (Or.inl (Or.inr (Or.inr (Or.inr hm))))
  refine OInv.resolved (b' := { b with syncBuf := itemsStr B1 ++ segsStr segsT ++ itemsStr B2, chunks := psC.reverse.map Chunk.ooo, pendingOoo := rest }) h hpo hpI htail hokT hlink hokC hfill hready hshape hndC
    ?_ h.hP ?_ rfl (List.reverse_perm _) ?_ ?_ ?_ ?_ ?_ ?_ ?_
  · simp [itemsStr_append, itemsStr_segItems]
  · simp [tailChunk, htail]
  · -- the document: the hole is substituted
    have e1 : ys ++ (B1 ++ segItems segsT ++ B2) = (ys ++ B1) ++ (segItems segsT ++ B2) := by simp
    have e2 : ys ++ (B1 ++ Item.seg (Seg.hole I fb) :: B2) = (ys ++ B1) ++ ([Item.seg (Seg.hole I fb)] ++ B2) := by simp
    have hL : clientS [] ((ys ++ B1) ++ (segItems segsT ++ B2)) = clientS (clientS [] (ys ++ B1) ++ segsT) B2 := by
      rw [clientS_append, clientS_append, clientS_segItems]
    have hR : clientS [] ((ys ++ B1) ++ ([Item.seg (Seg.hole I fb)] ++ B2))
        = clientS (clientS [] (ys ++ B1) ++ [Seg.hole I fb]) B2 := by
      rw [clientS_append, clientS_append]; rfl
    rw [e1, e2, hL, hR]
    have hX : I ∉ holeIds (clientS [] (ys ++ B1)) := by
      intro hm
      rcases holeIds_clientS _ _ hm with h0 | h0
      · simp [holeIds] at h0
      · exact hInot.1 (by simpa [allIds_append] using h0)
    have hs : substHole I segsT (clientS [] (ys ++ B1) ++ [Seg.hole I fb]) = clientS [] (ys ++ B1) ++ segsT := by
      rw [substHole_append_notin hX]; simp [substHole]
    rw [← hs]
    refine clientS_subst B2 _ (by simp [holeIds_append, holeIds]) ?_ hInot.2 ?_
    · intro hm
      exact h.outTpl p hpmem I hpI (by simp [tplIds_append, tplIds, hm])
    · intro K hK hKs
      obtain ⟨j, _, rfl⟩ := hshape K hKs
      refine h.fresh p hpmem I hpI _ ?_ (pp_snoc I j)
      simp [tplIds_append, tplIds, hK]
  · intro i hi
    simp only [List.mem_append, List.mem_cons] at hi
    rcases hi with hi | (hi | hi) | hi
    · exact h.okI i (by simp [hi])
    · exact h.okI i (by simp [hi])
    · simp only [segItems, List.mem_map] at hi
      obtain ⟨g, hg, rfl⟩ := hi
      exact hokT g hg
    · exact h.okI i (by simp [hi])
  · intro K hK
    simp only [allIds_append, allIds_segItems, allIds, List.mem_append, List.mem_cons] at hK ⊢
    rcases hK with hK | (hK | hK) | hK
    · exact Or.inl (Or.inl hK)
    · exact Or.inl (Or.inr (Or.inl hK))
    · exact Or.inr hK
    · exact Or.inl (Or.inr (Or.inr (Or.inr hK)))
  · simp only [allIds_append, allIds_segItems, hholeT, List.append_nil, List.append_assoc]
    have := nodup_replace hnd2 hndC hchild
    simpa using this
  · intro K hK
    left
    simpa [tplIds_append, tplIds, tplIds_segItems] using hK
  · have := h.ndTpl
    simpa [tplIds_append, tplIds, tplIds_segItems] using this
  · intro J hJ
    have hc : contentIds (B1 ++ Item.seg (Seg.hole I fb) :: B2) = contentIds B1 ++ contentIds B2 := by
      simp [contentIds_append, contentIds]
    have : J ∈ contentIds (B1 ++ Item.seg (Seg.hole I fb) :: B2) := by
      rw [hc]
      simpa [contentIds_append, contentIds_segItems] using hJ
    obtain ⟨q, hq, _⟩ := h.inTpl J this
    cases hq

/-- the `<template>` branch -/
theorem OInv.resolveTemplate {S prog done Y b ys bs tail p rest I segsT psC}
    (h : OInv S prog done Y b ys bs tail []) (hpo : b.pendingOoo = p :: rest)
    (hpI : p.id = some I) (htail : segsStr tail = []) (hInot : I ∉ allIds bs)
    (hokT : ∀ g ∈ segsT, g.ok) (hlink : (holeIds segsT).map some = psC.map (·.id)) (hokC : ∀ q ∈ psC, NodeOk q)
    (hfill : ∀ done', (∀ x ∈ done, x ∈ done') → ∀ σ', Adm S done' σ' segsT psC → S.P done' p.body (fill σ' segsT))
    (hready : ∀ x ∈ p.fut.deps, x ∈ done)
    (hshape : ∀ i ∈ holeIds segsT, ∃ j, 1 ≤ j ∧ i = I ++ [j]) (hndC : (holeIds segsT).Nodup) :
    OInv S prog done Y { b with syncBuf := itemsStr bs ++ (Tpl.mk I segsT).str,
                                 chunks := psC.map Chunk.ooo, pendingOoo := rest }
      ys (bs ++ [Item.tpl ⟨I, segsT⟩]) tail psC := by
  have hholeT : holeIds tail = [] := holeIds_of_empty htail
  have hpmem : p ∈ [] ++ b.pendingOoo := by simp [hpo]
  have hcont : contentIds bs = [] := by
    cases hc : contentIds bs with
    | nil => rfl
    | cons J l =>
      obtain ⟨q, hq, _⟩ := h.inTpl J (by simp [hc])
      cases hq
  have hchild : ∀ K ∈ holeIds segsT, K ∉ allIds (ys ++ bs) ++ holeIds tail ++ tplIds (ys ++ bs) := by
    intro K hK hm
    obtain ⟨j, _, rfl⟩ := hshape K hK
    exact h.fresh p hpmem I hpI _ hm (pp_snoc I j)
  refine OInv.resolved (b' := { b with syncBuf := itemsStr bs ++ (Tpl.mk I segsT).str, chunks := psC.map Chunk.ooo, pendingOoo := rest }) h hpo hpI htail hokT hlink hokC hfill hready hshape hndC
    ?_ h.hP ?_ rfl (List.Perm.refl _) ?_ ?_ ?_ ?_ ?_ ?_ ?_
  · simp [itemsStr_append, itemsStr, Item.str]
  · simp [tailChunk, htail]
  · rw [← List.append_assoc, clientS_append]; rfl
  · intro i hi
    rw [← List.append_assoc] at hi
    rcases List.mem_append.1 hi with hi | hi
    · exact h.okI i hi
    · simp at hi; subst hi; exact hokT
  · intro K hK
    rw [← List.append_assoc, allIds_append] at hK
    rcases List.mem_append.1 hK with hK | hK
    · exact Or.inl hK
    · exact Or.inr (by simpa [allIds] using hK)
  · rw [← List.append_assoc, allIds_append]
    simp only [allIds, List.append_nil, hholeT]
    have hold : (allIds (ys ++ bs)).Nodup := by simpa [hholeT] using h.ndText
    rw [List.nodup_append]
    refine ⟨hold, hndC, ?_⟩
    intro a ha a' ha' he
    subst he
    exact hchild a ha' (by simp [ha])
  · intro K hK
    rw [← List.append_assoc, tplIds_append] at hK
    rcases List.mem_append.1 hK with hK | hK
    · exact Or.inl hK
    · exact Or.inr (by simpa [tplIds] using hK)
  · rw [← List.append_assoc, tplIds_append]
    simp only [tplIds]
    rw [List.nodup_append]
    refine ⟨h.ndTpl, by simp, ?_⟩
    intro a ha a' ha' he
    simp at ha'
    subst ha'; subst he
    exact h.outTpl p hpmem _ hpI ha
  · intro J hJ
    rw [contentIds_append, hcont] at hJ
    simp only [contentIds, List.append_nil, List.nil_append] at hJ
    have : some J ∈ psC.map (·.id) := by rw [← hlink]; exact List.mem_map.2 ⟨J, hJ, rfl⟩
    obtain ⟨q, hq, hqJ⟩ := List.mem_map.1 this
    exact ⟨q, hq, hqJ⟩


/-! ### one activation of `poll_next` -/

def OStepSpec (S : Sem) (prog : List Op) (done : List FId) (Y : Str) : Step → Prop
  | .cont b' => ORel S prog done Y b'
  | .ret o b' => ORel S prog done (Y ++ outStr o) b' ∧ o ≠ Poll.panic ∧ o ≠ Poll.stuck ∧
      (o = Poll.done → b'.chunks = [] ∧ b'.pendingOoo = [] ∧ b'.syncBuf = [])

theorem yieldStep_ooo {S prog done Y b ys bs tail cs} (h : OInv S prog done Y b ys bs tail cs) (o : Poll)
    (ho : o = Poll.pending ∨ (o = Poll.done ∧ b.chunks = [] ∧ b.pendingOoo = [])) :
    OStepSpec S prog done Y (yieldStep b o) := by
  unfold yieldStep
  split
  · rename_i hb
    have hb' : b.syncBuf = [] := by simpa using hb
    rcases ho with rfl | ⟨rfl, hc, hp⟩
    · exact ⟨⟨ys, bs, tail, cs, by simpa [outStr] using h⟩, by simp, by simp, by simp⟩
    · exact ⟨⟨ys, bs, tail, cs, by simpa [outStr] using h⟩, by simp, by simp, fun _ => ⟨hc, hp, hb'⟩⟩
  · exact ⟨⟨ys ++ bs, [], tail, cs, by simpa [outStr] using h.flush⟩, by simp, by simp, by simp⟩

theorem chunks_nil_iff {cs : List PendOoo} {t : Str} (h : cs.map Chunk.ooo ++ tailChunk t = []) : cs = [] ∧ t = [] := by
  simp only [List.append_eq_nil_iff, List.map_eq_nil_iff] at h
  refine ⟨h.1, ?_⟩
  have := h.2
  unfold tailChunk at this
  split at this
  · rename_i ht; simpa using ht
  · cases this

theorem oooReady_ooo (env : Env) {S prog done Y b ys bs tail p rest} (h : OInv S prog done Y b ys bs tail [])
    (hpo : b.pendingOoo = p :: rest) (htail : segsStr tail = []) (hd : ∀ x ∈ env.done, x ∈ done)
    (hrdy : p.fut.ready env p.born = true) :
    OStepSpec S prog done Y (oooReadyStep env { b with pendingOoo := rest } p) := by
  have hpmem : p ∈ [] ++ b.pendingOoo := by simp [hpo]
  obtain ⟨hpok, I, hpI⟩ := h.okN p hpmem
  obtain ⟨segsT, psC, e_id, e_rep, e_non, e_ch, hokT, hlink, hokC, hfill, hshape, hndC⟩ :=
    resolveOoo_segs env p hpok I hpI
  have hholeT : holeIds tail = [] := holeIds_of_empty htail
  have hready : ∀ x ∈ p.fut.deps, x ∈ done := fun x hx => hd x (ready_deps hrdy x hx)
  have hfill' : ∀ done', (∀ x ∈ done, x ∈ done') → ∀ σ', Adm S done' σ' segsT psC → S.P done' p.body (fill σ' segsT) :=
    fun done' hd' => hfill S done' (fun x hx => hd' x (hd x hx))
  have hbch : b.chunks = [] := by rw [h.hC]; simp [tailChunk, htail]
  have hcont : contentIds bs = [] := by
    cases hc : contentIds bs with
    | nil => rfl
    | cons J l =>
      obtain ⟨q, hq, _⟩ := h.inTpl J (by simp [hc])
      cases hq
  by_cases hIb : I ∈ allIds bs
  · -- the fallback is still in the buffer: replaced in place
    have htop : I ∈ topIds bs := by
      rcases mem_allIds_split hIb with h0 | h0
      · exact h0
      · rw [hcont] at h0; cases h0
    obtain ⟨B1, fb, B2, rfl⟩ := split_topIds htop
    have hnd := h.ndText
    simp only [allIds_append, allIds, hholeT, List.append_nil] at hnd
    have hnB1 : I ∉ allIds B1 := by
      have h1 := (List.nodup_append.1 hnd).2.1
      have h2 := List.nodup_append.1 h1
      exact fun hm => h2.2.2 I hm I (by simp) rfl
    have hokB1 : ∀ i ∈ B1, i.ok := fun i hi => h.okI i (by simp [hi])
    have hfb : Clean fb := h.okI (Item.seg (Seg.hole I fb)) (by simp)
    have hfind := find_hole_items (B2 := B2) hokB1 hfb hnB1
    have hinv := OInv.resolveInline h hpo hpI htail hokT hlink hokC hfill' hready hshape hndC
    unfold oooReadyStep
    simp only [e_id, h.hB, hfind.1, hfind.2, e_rep]
    have hlen : ¬ (itemsStr B1 ++ opening (piecesStr I) ++ fb).length < (itemsStr B1).length := by
      simp only [List.length_append]; omega
    simp only [hlen, if_false, Bool.not_true, Bool.false_and, Bool.false_eq_true, if_true]
    have hsp : spliceInPlace (resolveOoo env p).chunks = (segsStr segsT, psC.map Chunk.ooo) := by
      unfold spliceInPlace
      rw [e_ch, splice_resolved]; simp
    show ORel S prog done Y _
    refine ⟨ys, B1 ++ segItems segsT ++ B2, tail, psC.reverse, ?_⟩
    simp only [hsp, foldl_pushFront_eq, hbch]
    simpa [List.map_reverse] using hinv
  · -- the fallback has been sent: a `<template>` block is appended
    have hfree := free_marker_items (I := I) (fun i hi => h.okI i (by simp [hi])) hIb
    have hinv := OInv.resolveTemplate h hpo hpI htail hIb hokT hlink hokC hfill' hready hshape hndC
    unfold oooReadyStep
    simp only [e_id, h.hB, splitFirst_none.2 hfree.1]
    have hsp : spliceTemplate (resolveOoo env p).chunks (itemsStr bs ++ pushStart (piecesStr I)) []
        = (itemsStr bs ++ pushStart (piecesStr I) ++ segsStr segsT, psC.map Chunk.ooo ++ []) := by
      unfold spliceTemplate
      rw [e_ch, splice_resolved]
    show ORel S prog done Y _
    refine ⟨ys, bs ++ [Item.tpl ⟨I, segsT⟩], tail, psC, ?_⟩
    simp only [hbch, hsp, e_rep, e_non]
    simpa [Tpl.str] using hinv


theorem perm_move (p : PendOoo) (cs0 po : List PendOoo) : (cs0 ++ (po ++ [p])).Perm ((p :: cs0) ++ po) := by
  have : (cs0 ++ po ++ [p]).Perm ([p] ++ (cs0 ++ po)) := List.perm_append_comm
  simpa using this

theorem perm_rotate (p : PendOoo) (rest : List PendOoo) : ([] ++ (rest ++ [p])).Perm ([] ++ p :: rest) := by
  have : (rest ++ [p]).Perm ([p] ++ rest) := List.perm_append_comm
  simpa using this

/-- **every activation of `poll_next` preserves the out-of-order invariant** -/
theorem pollStep_ooo (env : Env) {S : Sem} {prog : List Op} {done : List FId} {Y : Str} {b : Builder}
    (hd : ∀ x ∈ env.done, x ∈ done) (h : ORel S prog done Y b) : OStepSpec S prog done Y (pollStep env b) := by
  obtain ⟨ys, bs, tail, cs, h⟩ := h
  unfold pollStep
  simp only [h.hP]
  cases cs with
  | cons p cs0 =>
    have hch : b.chunks = Chunk.ooo p :: (cs0.map Chunk.ooo ++ tailChunk (segsStr tail)) := by rw [h.hC]; simp
    simp only [hch]
    split
    · -- the buffer is empty: go on
      rename_i hb
      have hb' : itemsStr bs = [] := by rw [← h.hB]; simpa using hb
      have := h.perm cs0 (b.pendingOoo ++ [p]) (cs0.map Chunk.ooo ++ tailChunk (segsStr tail)) rfl
        (perm_move p cs0 b.pendingOoo) (by rw [(items_of_empty hb').2.2]; simp)
      exact ⟨ys, bs, tail, cs0, by simpa [h.hP] using this⟩
    · -- yield the buffer
      have hf := h.flush
      have := hf.perm cs0 (b.pendingOoo ++ [p]) (cs0.map Chunk.ooo ++ tailChunk (segsStr tail)) rfl
        (perm_move p cs0 b.pendingOoo) (by simp [contentIds])
      exact ⟨⟨ys ++ bs, [], tail, cs0, by simpa [outStr, h.hP] using this⟩, by simp, by simp, by simp⟩
  | nil =>
    by_cases ht : segsStr tail = []
    · have hch : b.chunks = [] := by rw [h.hC]; simp [tailChunk, ht]
      simp only [hch]
      cases hpo : b.pendingOoo with
      | nil =>
        simp only []
        exact yieldStep_ooo h Poll.done (Or.inr ⟨rfl, hch, hpo⟩)
      | cons p rest =>
        simp only []
        split
        · rename_i hrdy
          have := oooReady_ooo env h hpo ht hd hrdy
          simpa [h.hP, hch] using this
        · have hcont : ∀ I ∈ contentIds bs, ∃ q ∈ ([] : List PendOoo), q.id = some I := h.inTpl
          have := h.perm [] (rest ++ [p]) b.chunks (by rw [hch]; simp [tailChunk, ht])
            (by rw [hpo]; exact perm_rotate p rest) hcont
          have e : ({ b with chunks := b.chunks, pendingOoo := rest ++ [p] } : Builder)
              = { b with pendingOoo := rest ++ [p] } := rfl
          rw [e] at this
          have := yieldStep_ooo this Poll.pending (Or.inl rfl)
          simpa [h.hP, hch] using this
    · have hch : b.chunks = [Chunk.sync (segsStr tail)] := by
        rw [h.hC]; simp [tailChunk, ht]
      simp only [hch, coalesce]
      exact ⟨ys, bs ++ segItems tail, [], [], by simpa [h.hP] using h.takeTail⟩

/-- iterating the step -/
theorem pollNext_ooo (env : Env) {S : Sem} {prog : List Op} {done : List FId} (hd : ∀ x ∈ env.done, x ∈ done) :
    ∀ (fuel : Nat) {Y : Str} {b : Builder}, ORel S prog done Y b →
    ORel S prog done (Y ++ outStr (pollNext fuel env b).1) (pollNext fuel env b).2 ∧ (pollNext fuel env b).1 ≠ Poll.panic ∧
    ((pollNext fuel env b).1 = Poll.done → (pollNext fuel env b).2.chunks = [] ∧
      (pollNext fuel env b).2.pendingOoo = [] ∧ (pollNext fuel env b).2.syncBuf = []) := by
  intro fuel
  induction fuel with
  | zero => intro Y b h; exact ⟨by simpa [pollNext, outStr] using h, by simp [pollNext], by simp [pollNext]⟩
  | succ n ih =>
    intro Y b h
    have hs := pollStep_ooo env hd h
    unfold pollNext
    split
    · rename_i o b' heq
      rw [heq] at hs
      exact ⟨hs.1, hs.2.1, hs.2.2.2⟩
    · rename_i b' heq
      rw [heq] at hs
      exact ih hs

end Leptos.Stream
