import LeptosModel.Proofs.OwnerOps
/-!
# Proofs/OwnerTree — the owner table is a forest along every history (C08)

`TreeWF` : every child has a larger id than its parent, exists, points back to the parent through
its `parent` field, and is listed once.  It is preserved by every primitive and every machine step.
-/
namespace Leptos.Owner

def childrenOf (st : Core) (o : Nat) : List Nat :=
  match st.owners[o]? with
  | some r => r.children
  | none => []

def cleanupsOf (st : Core) (o : Nat) : List Cleanup :=
  match st.owners[o]? with
  | some r => r.cleanups
  | none => []

def nodesOf (st : Core) (o : Nat) : List Key :=
  match st.owners[o]? with
  | some r => r.nodes
  | none => []

def parentOf (st : Core) (o : Nat) : Option Nat :=
  match st.owners[o]? with
  | some r => r.parent
  | none => none

structure TreeWF (st : Core) : Prop where
  child_gt : ∀ o c, c ∈ childrenOf st o → o < c ∧ c < st.owners.length
  child_parent : ∀ o c, c ∈ childrenOf st o → parentOf st c = some o
  nodup : ∀ o, (childrenOf st o).Nodup
  parent_lt : ∀ o p, parentOf st o = some p → p < o

/-- `st'` has the same owners as `st`, each with the same parent and the same or no children -/
structure TreeShrink (st st' : Core) : Prop where
  len : st'.owners.length = st.owners.length
  parent : ∀ o, parentOf st' o = parentOf st o
  children : ∀ o, childrenOf st' o = childrenOf st o ∨ childrenOf st' o = []

theorem TreeShrink.refl (st : Core) : TreeShrink st st := ⟨rfl, fun _ => rfl, fun _ => Or.inl rfl⟩

theorem TreeShrink.trans {a b c : Core} (h1 : TreeShrink a b) (h2 : TreeShrink b c) : TreeShrink a c := by
  refine ⟨h2.len.trans h1.len, fun o => (h2.parent o).trans (h1.parent o), fun o => ?_⟩
  rcases h2.children o with h | h
  · rw [h]; exact h1.children o
  · exact Or.inr h

theorem TreeWF.shrink {st st' : Core} (h : TreeWF st) (hs : TreeShrink st st') : TreeWF st' := by
  refine ⟨fun o c hc => ?_, fun o c hc => ?_, fun o => ?_, fun o p hp => ?_⟩
  · rcases hs.children o with h' | h'
    · rw [h'] at hc; rw [hs.len]; exact h.child_gt o c hc
    · rw [h'] at hc; cases hc
  · rcases hs.children o with h' | h'
    · rw [h'] at hc; rw [hs.parent]; exact h.child_parent o c hc
    · rw [h'] at hc; cases hc
  · rcases hs.children o with h' | h'
    · rw [h']; exact h.nodup o
    · rw [h']; exact List.nodup_nil
  · rw [hs.parent] at hp; exact h.parent_lt o p hp

/-- a transformer that rewrites one record, keeping `parent` and keeping or clearing `children` -/
theorem TreeShrink.setOwner {st : Core} {o : Nat} {r r' : OwnerRec} (hr : st.owners[o]? = some r)
    (hp : r'.parent = r.parent) (hc : r'.children = r.children ∨ r'.children = []) :
    TreeShrink st (st.setOwner o r') := by
  have hlt := lt_of_getElem?_some hr
  refine ⟨by simp, fun x => ?_, fun x => ?_⟩
  · unfold parentOf
    simp only [setOwner_owners]
    by_cases hx : o = x
    · subst hx; rw [List.getElem?_set_self hlt, hr]; exact hp
    · rw [List.getElem?_set_ne hx]
  · unfold childrenOf
    simp only [setOwner_owners]
    by_cases hx : o = x
    · subst hx; rw [List.getElem?_set_self hlt, hr]; exact hc
    · rw [List.getElem?_set_ne hx]; exact Or.inl rfl

theorem TreeShrink.modOwner (st : Core) (o : Nat) (f : OwnerRec → OwnerRec)
    (hp : ∀ r, (f r).parent = r.parent) (hc : ∀ r, (f r).children = r.children) :
    TreeShrink st (st.modOwner o f) := by
  unfold Core.modOwner
  split
  · next r hr => exact TreeShrink.setOwner hr (hp r) (Or.inl (hc r))
  · exact TreeShrink.refl _

theorem TreeShrink.of_owners_eq {st st' : Core} (h : st'.owners = st.owners) : TreeShrink st st' := by
  refine ⟨by rw [h], fun o => ?_, fun o => ?_⟩
  · unfold parentOf; rw [h]
  · unfold childrenOf; rw [h]; exact Or.inl rfl

/-- tail forms -/
theorem ts_eq {a st st' : Core} (h : TreeShrink a st) (e : st'.owners = st.owners) : TreeShrink a st' :=
  h.trans (TreeShrink.of_owners_eq e)

theorem ts_modOwner {a st : Core} (h : TreeShrink a st) (o : Nat) (f : OwnerRec → OwnerRec)
    (hp : ∀ r, (f r).parent = r.parent) (hc : ∀ r, (f r).children = r.children) :
    TreeShrink a (st.modOwner o f) := h.trans (TreeShrink.modOwner st o f hp hc)

theorem ts_regCleanup {a st : Core} (h : TreeShrink a st) (tag : Nat) (nested : Bool) (drops : Option Nat) :
    TreeShrink a (regCleanup st tag nested drops) := by
  unfold regCleanup
  simp only
  split
  · refine ts_modOwner ?_ _ _ (fun _ => rfl) (fun _ => rfl)
    exact ts_eq h rfl
  · exact ts_eq h rfl

theorem ts_newItem {a st : Core} (h : TreeShrink a st) (v : Val) : TreeShrink a (newItem st v).1 := by
  unfold newItem
  simp only
  split
  · refine ts_modOwner ?_ _ _ (fun _ => rfl) (fun _ => rfl)
    exact ts_eq h rfl
  · exact ts_eq h rfl

theorem ts_newStored {a st : Core} (h : TreeShrink a st) (v : Int) : TreeShrink a (newStored st v) := by
  unfold newStored
  exact ts_eq (ts_newItem h _) rfl

theorem TreeShrink.step (st : Core) (f : Frame) : TreeShrink st (stepFrame st f).1 := by
  cases f with
  | visit o late =>
    cases hr : st.owners[o]? with
    | none => simp only [stepFrame, hr]; exact TreeShrink.refl _
    | some r =>
      by_cases ha : r.alive = true
      · simp only [stepFrame, hr, ha, if_true]
        exact TreeShrink.setOwner hr rfl (Or.inr rfl)
      · simp only [stepFrame, hr, ha, if_false, Bool.false_eq_true]; exact TreeShrink.refl _
  | drop o late =>
    cases hr : st.owners[o]? with
    | none => simp only [stepFrame, hr]; exact TreeShrink.refl _
    | some r =>
      simp only [stepFrame, hr]
      exact TreeShrink.setOwner hr rfl (Or.inr rfl)
  | run c ow late =>
    by_cases hn : c.nested = true
    · simp only [stepFrame, hn, if_true]
      refine ts_newStored (ts_regCleanup ?_ _ _ _) _
      exact ts_eq (TreeShrink.refl _) rfl
    · simp only [stepFrame, hn, if_false, Bool.false_eq_true]; exact TreeShrink.of_owners_eq rfl
  | remove k late => simp only [stepFrame]; exact TreeShrink.of_owners_eq rfl

theorem TreeShrink.frames (n : Nat) (st : Core) (fs : List Frame) : TreeShrink st (runFrames n st fs).1 :=
  runFrames_rel (R := TreeShrink) TreeShrink.refl (fun _ _ _ => TreeShrink.trans) TreeShrink.step n st fs

theorem ts_pauseWalk (n : Nat) {a st : Core} (h : TreeShrink a st) (l : List Nat) (p : Bool) :
    TreeShrink a (pauseWalk n st l p) := by
  induction n generalizing st l with
  | zero => exact h
  | succ n ih =>
    cases l with
    | nil => exact h
    | cons o rest =>
      simp only [pauseWalk]
      split
      · next r hr =>
        split
        · refine ih (h.trans ?_) _
          exact TreeShrink.setOwner hr rfl (Or.inl rfl)
        · exact ih h _
      · exact ih h _

theorem getElem?_append_singleton {α} (l : List α) (a : α) (x : Nat) :
    (l ++ [a])[x]? = if x < l.length then l[x]? else if x = l.length then some a else none := by
  by_cases h : x < l.length
  · simp [h, List.getElem?_append_left h]
  · by_cases h2 : x = l.length
    · subst h2; simp
    · have : l.length ≤ x := by omega
      rw [List.getElem?_append_right this]
      have : 1 ≤ x - l.length := by omega
      simp [h, h2, List.getElem?_eq_none, this]

/-- the owner table after `Owner::new` / `Owner::child`, pointwise -/
theorem newOwnerUnder_get (st : Core) (p : Option Nat) (paused : Bool)
    (hp : ∀ x, p = some x → x < st.owners.length) (x : Nat) :
    (newOwnerUnder st p paused).1.owners[x]? =
      if x = st.owners.length then some (freshOwner p paused)
      else if p = some x then (st.owners[x]?).map fun r => { r with children := r.children ++ [st.owners.length] }
      else st.owners[x]? := by
  unfold newOwnerUnder
  simp only
  cases p with
  | none =>
    simp only [getElem?_append_singleton]
    by_cases h1 : x = st.owners.length
    · simp [h1]
    · by_cases h2 : x < st.owners.length
      · simp [h1, h2]
      · have : st.owners.length ≤ x := by omega
        simp [h1, h2, List.getElem?_eq_none this]
  | some q =>
    have hq := hp q rfl
    simp only [modOwner_get, getElem?_append_singleton]
    by_cases h1 : x = st.owners.length
    · have : ¬ x = q := by omega
      simp [h1, this]
      intro hq'; omega
    · by_cases h2 : x < st.owners.length
      · by_cases h3 : x = q
        · subst h3; simp [h1, h2]
        · have : ¬ q = x := fun h => h3 h.symm
          simp [h1, h2, h3, this]
      · have h4 : st.owners.length ≤ x := by omega
        have : ¬ x = q := by omega
        have : ¬ q = x := by omega
        simp [h1, h2, List.getElem?_eq_none h4, *]

theorem treeWF_newOwnerUnder {st : Core} (h : TreeWF st) (p : Option Nat) (paused : Bool)
    (hp : ∀ x, p = some x → x < st.owners.length) : TreeWF (newOwnerUnder st p paused).1 := by
  have hget := newOwnerUnder_get st p paused hp
  have hlen : (newOwnerUnder st p paused).1.owners.length = st.owners.length + 1 := by
    unfold newOwnerUnder
    simp only
    split
    · rw [modOwner_owners_length]; simp
    · simp
  have hch : ∀ x, childrenOf (newOwnerUnder st p paused).1 x =
      if p = some x then childrenOf st x ++ [st.owners.length] else childrenOf st x := by
    intro x
    unfold childrenOf
    rw [hget]
    by_cases h1 : x = st.owners.length
    · subst h1
      have hn : st.owners[st.owners.length]? = none := List.getElem?_eq_none (Nat.le_refl _)
      have : ¬ p = some st.owners.length := fun hh => by have := hp _ hh; omega
      simp only [if_true, this, if_false, freshOwner, hn]
    · by_cases h2 : p = some x
      · have := hp x h2
        simp only [h1, h2, if_true, if_false]
        cases hr : st.owners[x]? with
        | none => rw [List.getElem?_eq_none_iff] at hr; omega
        | some r => simp
      · simp [h1, h2]
  have hpar : ∀ x, parentOf (newOwnerUnder st p paused).1 x =
      if x = st.owners.length then p else parentOf st x := by
    intro x
    unfold parentOf
    rw [hget]
    by_cases h1 : x = st.owners.length
    · simp [h1, freshOwner]
    · by_cases h2 : p = some x
      · simp only [h1, h2, if_true, if_false]
        cases hr : st.owners[x]? <;> simp
      · simp [h1, h2]
  refine ⟨fun o c hc => ?_, fun o c hc => ?_, fun o => ?_, fun o q hq => ?_⟩
  rotate_left 3
  · rw [hpar] at hq
    by_cases h1 : o = st.owners.length
    · simp only [h1, if_true] at hq
      have := hp q hq; omega
    · simp only [h1, if_false] at hq; exact h.parent_lt o q hq
  · rw [hch] at hc; rw [hlen]
    by_cases h2 : p = some o
    · simp only [h2, if_true, List.mem_append, List.mem_singleton] at hc
      rcases hc with hc | hc
      · have := h.child_gt o c hc; omega
      · have := hp o h2; omega
    · simp only [h2, if_false] at hc
      have := h.child_gt o c hc; omega
  · rw [hch] at hc; rw [hpar]
    by_cases h2 : p = some o
    · simp only [h2, if_true, List.mem_append, List.mem_singleton] at hc
      rcases hc with hc | hc
      · have := h.child_gt o c hc
        have : ¬ c = st.owners.length := by omega
        simp only [this, if_false]; exact h.child_parent o c hc
      · simp [hc, h2]
    · simp only [h2, if_false] at hc
      have := h.child_gt o c hc
      have : ¬ c = st.owners.length := by omega
      simp only [this, if_false]; exact h.child_parent o c hc
  · rw [hch]
    by_cases h2 : p = some o
    · simp only [h2, if_true]
      refine List.nodup_append.mpr ⟨h.nodup o, by simp, ?_⟩
      intro a ha b hb
      simp at hb; subst hb
      have := h.child_gt o a ha; omega
    · simp only [h2, if_false]; exact h.nodup o

theorem TreeWF.prim {a b : Core} (hp : CorePrim a b) (h : TreeWF a) : TreeWF b := by
  cases hp with
  | regCleanup tag nested drops => exact h.shrink (ts_regCleanup (TreeShrink.refl _) _ _ _)
  | newItem v => exact h.shrink (ts_newItem (TreeShrink.refl _) _)
  | addItemHandle k => exact h.shrink (TreeShrink.of_owners_eq rfl)
  | newOwnerUnder p paused hp => exact treeWF_newOwnerUnder h p paused hp
  | pass f hf => exact h.shrink (TreeShrink.frames _ _ _)
  | provide ty v =>
    refine h.shrink ?_
    unfold provide; split
    · exact ts_modOwner (TreeShrink.refl _) _ _ (fun _ => rfl) (fun _ => rfl)
    · exact TreeShrink.refl _
  | useCtx ty =>
    refine h.shrink ?_
    unfold useCtx; split <;> exact TreeShrink.of_owners_eq rfl
  | takeCtx ty =>
    refine h.shrink ?_
    unfold takeCtx; split
    · simp only
      refine ts_eq (st := Core.modOwner a _ _) ?_ rfl
      exact ts_modOwner (TreeShrink.refl _) _ _ (fun _ => rfl) (fun _ => rfl)
    · exact TreeShrink.of_owners_eq rfl
  | updateCtx ty d =>
    refine h.shrink ?_
    unfold updateCtx; split
    · simp only
      refine ts_eq (st := Core.modOwner a _ _) ?_ rfl
      exact ts_modOwner (TreeShrink.refl _) _ _ (fun _ => rfl) (fun _ => rfl)
    · exact TreeShrink.of_owners_eq rfl
  | setPaused o p => exact h.shrink (ts_pauseWalk _ (TreeShrink.refl _) _ _)
  | setCur cur => exact h.shrink (TreeShrink.of_owners_eq rfl)
  | logEv e he => exact h.shrink (TreeShrink.of_owners_eq rfl)

theorem TreeWF.init : TreeWF {} := by
  refine ⟨fun o c hc => ?_, fun o c hc => ?_, fun o => ?_, fun o p hp => ?_⟩ <;> simp [childrenOf, parentOf] at *

theorem TreeWF.reach {a b : Core} (h : CoreReach a b) (ha : TreeWF a) : TreeWF b :=
  CoreReach.inv (fun _ _ hp => TreeWF.prim hp) h ha

end Leptos.Owner
