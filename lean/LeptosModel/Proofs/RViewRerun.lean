import LeptosModel.Proofs.RViewRenew
/-!
# Proofs/RViewRerun — what the re-run of one render effect does to a tree of the core fragment
-/
namespace Leptos.RView
open Leptos.Reactive

theorem wrapFrom_length (h : Option Nat) (zs : List (Nat × Option RState)) : wrapFrom zs.length h zs = zs := by
  simp [wrapFrom]

/-- a region that is left alone under a hook is left alone -/
theorem underHook_absent (h : Option Nat) (f : St → RState × St × Nat) (t : RState) (st : St)
    (hf : ∀ st, f st = (t, st, 0)) : underHook h f st = (t, st, 0) := by
  simp only [underHook, hf, wrapFrom_length]

/-- a tree that does not contain `e` is left alone -/
theorem rerunIn_absent (e : Nat) (w : Int) : ∀ (t : RState) (st : St), e ∉ effsOf t →
    rerunIn e w t st = (t, st, 0) := by
  intro t
  induction t with
  | text n s => intro st _; rfl
  | unit n => intro st _; rfl
  | elem n tag as kid ih =>
    intro st h
    simp only [effsOf, List.mem_append, not_or] at h
    simp only [rerunIn, rerunAttrs_other e w as h.1, ih st h.2]
    cases n; rfl
  | seq a b iha ihb =>
    intro st h
    simp only [effsOf, List.mem_append, not_or] at h
    simp only [rerunIn, iha st h.1, ihb st h.2]
  | dynText e' x n last =>
    intro st h
    have : ¬ e' = e := fun hh => h (by simp [effsOf, hh])
    simp [rerunIn, this]
  | either e' c a b left inner ih =>
    intro st h
    simp only [effsOf, List.mem_cons, not_or] at h
    have : ¬ e' = e := fun hh => h.1 hh.symm
    simp only [rerunIn, this, if_false, ih st h.2]
  | «show» e' m c a b left inner ih =>
    intro st h
    simp only [effsOf, List.mem_cons, not_or] at h
    have : ¬ e' = e := fun hh => h.1 hh.symm
    simp only [rerunIn, this, if_false, ih st h.2]
  | forK e' sel lists ks texts =>
    intro st h
    have : ¬ e' = e := fun hh => h (by simp [effsOf, hh])
    simp [rerunIn, this]
  | scope m sid isSig inner ih =>
    intro st h
    simp only [effsOf] at h
    simp only [rerunIn, ih st h]
  | rows e' en sel lists row ks items ih =>
    intro st h
    simp only [effsOf, List.mem_cons, not_or] at h
    have : ¬ e' = e := fun hh => h.1 hh.symm
    simp only [rerunIn, this, if_false, ih st h.2]
  | rowCons k ix r rest ihr ihrest =>
    intro st h
    simp only [effsOf, List.mem_append, not_or] at h
    simp only [rerunIn, ihr st h.1, ihrest st h.2]
  | rowNil => intro st _; rfl
  | errb e' m s fb kid ih =>
    intro st h
    simp only [effsOf, List.mem_cons, not_or] at h
    have : ¬ e' = e := fun hh => h.1 hh.symm
    simp only [rerunIn, this, if_false, underHook_absent (some s) _ kid st (fun st => ih st h.2)]
    cases fb <;> rfl
  | res e' c x n last hook =>
    intro st h
    have : ¬ e' = e := fun hh => h (by simp [effsOf, hh])
    simp [rerunIn, this]
  | hooked hk inner ih =>
    intro st h
    simp only [effsOf] at h
    simp only [rerunIn, underHook_absent hk _ inner st (fun st => ih st h)]
  | errTok s => intro st _; rfl

/-- the result of re-running effect `e` inside the tree `t` (a state of `v`) -/
structure Rerun (K : Nat) (P : St → EP) (s : St) (t : RState) (v : View) (t' : RState) (s' : St) : Prop where
  inv : RInv K s'
  zomb : s'.zombies = s.zombies ++ newZ s s'
  ext : Ext K (fun x => x ∈ zEffs (newZ s s')) s s'
  good : GoodP (P s') v t'
  cnt : ∀ x, x < s.prog.length → (effsOf t').count x + (zEffs (newZ s s')).count x = (effsOf t).count x
  fresh : ∀ x, s.prog.length ≤ x →
    (effsOf t').count x ≤ 1 ∧ (zEffs (newZ s s')).count x = 0 ∧ (x ∈ effsOf t' → x < s'.prog.length)
  zdead : ∀ z ∈ newZ s s', (s'.rs.get z.1).alive = false
  zok : ∀ z ∈ newZ s s', ∀ h, z.2 = some h → ZTree K s' h
  tasks : ∀ x ∈ s'.tasks, x ∈ s.tasks ∨ x ∈ effsOf t'
  root : s'.root = s.root
  rootN : s'.rootN = s.rootN
  disposed : s'.disposed = s.disposed

theorem newZ_self (s : St) : newZ s s = [] := by simp [newZ]

/-- nothing happened to the state; the tree kept its effects -/
theorem Rerun.same {K : Nat} {P : St → EP} {s : St} {t t' : RState} {v : View} (hi : RInv K s)
    (hg : GoodP (P s) v t') (he : effsOf t' = effsOf t) (hnd : (effsOf t).Nodup)
    (hb : ∀ x ∈ effsOf t, x < s.prog.length) : Rerun K P s t v t' s := by
  refine ⟨hi, by rw [newZ_self]; simp, ?_, hg, ?_, ?_, ?_, ?_, fun x hx => Or.inl hx, rfl, rfl, rfl⟩
  · rw [newZ_self]; exact Ext.refl K _ (fun _ h => by simp [zEffs] at h) s
  · intro x _; rw [newZ_self, he]; simp [zEffs]
  · intro x hx
    rw [newZ_self, he]
    refine ⟨List.nodup_iff_count.1 hnd x, by simp [zEffs], fun hm => ?_⟩
    have := hb x hm; omega
  · intro z hz; rw [newZ_self] at hz; simp at hz
  · intro z hz; rw [newZ_self] at hz; simp at hz


/-- only the node-id counter moved; the tree kept its effects -/
theorem Rerun.same_next {K : Nat} {P : St → EP} (hP : PredOK K P) {s : St} {t t' : RState} {v : View}
    (hi : RInv K s) (n : Nat) (hg : GoodP (P s) v t') (he : effsOf t' = effsOf t) (hnd : (effsOf t).Nodup)
    (hb : ∀ x ∈ effsOf t, x < s.prog.length) : Rerun K P s t v t' { s with next := n } := by
  have hz : newZ s { s with next := n } = [] := by simp [newZ]
  have hx : Ext K (fun _ => False) s { s with next := n } :=
    Ext.of_rs_prog _ (fun _ hf => hf.elim) rfl rfl (fun _ h => h)
  refine ⟨hi.of_rs_prog rfl rfl, by rw [hz]; simp, ?_, ?_, ?_, ?_, ?_, ?_, fun x hx => Or.inl hx, rfl, rfl, rfl⟩
  · rw [hz]; exact hx.mono (fun _ hf => hf.elim) (fun _ h => by simp [zEffs] at h)
  · exact GoodP.map v t' hg (fun _ _ _ _ hp => hP.ext hi hx (fun hf => hf) hp)
  · intro x _; rw [hz, he]; simp [zEffs]
  · intro x hx'
    rw [hz, he]
    refine ⟨List.nodup_iff_count.1 hnd x, by simp [zEffs], fun hm => ?_⟩
    have := hb x hm
    show x < s.prog.length
    omega
  · intro z hz'; rw [hz] at hz'; simp at hz'
  · intro z hz'; rw [hz] at hz'; simp at hz'


theorem goodP_either {P : EP} {e : Nat} {c : Expr} {a b : View} {l : Bool} {inner : RState}
    (hp : P e c (fun v => l = (v != 0))) (h1 : l = true → GoodP P a inner) (h2 : l = false → GoodP P b inner) :
    GoodP P (.either c a b) (.either e c a b l inner) := by
  simp only [GoodP]; exact ⟨trivial, trivial, trivial, hp, h1, h2⟩

/-- effects of the surrounding tree are not among those handed over to the zombies -/
theorem Rerun.not_acted {K : Nat} {P : St → EP} {s s' : St} {t0 t0' : RState} {v0 : View}
    (h : Rerun K P s t0 v0 t0' s') {pre post : List Nat} (hnd : (pre ++ effsOf t0 ++ post).Nodup)
    {y : Nat} (hy : y ∈ pre ++ post) (hlt : y < s.prog.length) : y ∉ zEffs (newZ s s') := by
  have hc := h.cnt y hlt
  have h0 : (effsOf t0).count y = 0 := by
    rw [List.count_eq_zero]
    intro hm
    have h1 := List.nodup_iff_count.1 hnd y
    simp only [List.count_append] at h1
    have h2 : 1 ≤ (effsOf t0).count y := List.one_le_count_iff.2 hm
    rcases List.mem_append.1 hy with hp | hp
    · have : 1 ≤ pre.count y := List.one_le_count_iff.2 hp; omega
    · have : 1 ≤ post.count y := List.one_le_count_iff.2 hp; omega
  rw [← List.count_eq_zero]; omega

/-- a re-run inside a subtree, seen from a surrounding tree whose other effects (`pre`, `post`) stay -/
theorem Rerun.wrap {K : Nat} {P : St → EP} {s s' : St} {t0 t0' : RState} {v0 : View}
    (h : Rerun K P s t0 v0 t0' s') (pre post : List Nat) {T T' : RState} {V : View}
    (hT : effsOf T = pre ++ effsOf t0 ++ post) (hT' : effsOf T' = pre ++ effsOf t0' ++ post)
    (hnd : (effsOf T).Nodup) (hb : ∀ x ∈ effsOf T, x < s.prog.length)
    (hg : GoodP (P s') V T') : Rerun K P s T V T' s' := by
  have hpp : ∀ x, s.prog.length ≤ x → pre.count x = 0 ∧ post.count x = 0 := by
    intro x hx
    constructor
    · rw [List.count_eq_zero]; intro hm
      have := hb x (by rw [hT]; simp [hm]); omega
    · rw [List.count_eq_zero]; intro hm
      have := hb x (by rw [hT]; simp [hm]); omega
  refine ⟨h.inv, h.zomb, h.ext, hg, ?_, ?_, h.zdead, h.zok, ?_, h.root, h.rootN, h.disposed⟩
  · intro x hx
    have := h.cnt x hx
    rw [hT, hT']; simp only [List.count_append]; omega
  · intro x hx
    have hf := h.fresh x hx
    have hz := hpp x hx
    rw [hT']
    refine ⟨by simp only [List.count_append]; omega, hf.2.1, ?_⟩
    intro hm
    simp only [List.mem_append] at hm
    rcases hm with (hm | hm) | hm
    · have := List.count_eq_zero.1 hz.1; exact absurd hm this
    · exact hf.2.2 hm
    · have := List.count_eq_zero.1 hz.2; exact absurd hm this
  · intro x hx
    rcases h.tasks x hx with ht | ht
    · exact Or.inl ht
    · exact Or.inr (by rw [hT']; simp [ht])

section rerun
variable {K : Nat} {P : St → EP} (hP : PredOK K P) {s : St} (hi : RInv K s) {e : Nat} {w : Int} {P0 : EP}
variable (hothers : ∀ e' x cur, e' ≠ e → P0 e' x cur → P s e' x cur)
variable (hself : ∀ x (cur : Int → Prop), P0 e x cur → ∀ cur' : Int → Prop, cur' w → P s e x cur')
include hP hi hothers hself

theorem p0_wf : ∀ e' x cur, P0 e' x cur → EffWf K s e' x cur := by
  intro e' x cur h
  by_cases he : e' = e
  · subst he
    have := hP.wf (hself x cur h (fun _ => True) trivial)
    exact ⟨this.1, this.2.1, this.2.2⟩
  · have := hP.wf (hothers e' x cur he h)
    exact ⟨this.1, this.2.1, this.2.2⟩

theorem rerunAttr_goodP : ∀ {a : Attr} {o : AState}, GoodAttrP P0 a o → GoodAttrP (P s) a (rerunAttr e w o).1
  | .stat _ _, .stat _ _, h => h
  | .dyn _ _, .dyn e' _ _ _, h => by
    simp only [rerunAttr]
    by_cases he : e' = e
    · subst he; rw [if_pos rfl]; exact ⟨h.1, h.2.1, hself _ _ h.2.2 _ rfl⟩
    · rw [if_neg he]; exact ⟨h.1, h.2.1, hothers _ _ _ he h.2.2⟩
  | .cls _ _, .cls e' _ _ _, h => by
    simp only [rerunAttr]
    by_cases he : e' = e
    · subst he; rw [if_pos rfl]; exact ⟨h.1, h.2.1, hself _ _ h.2.2 _ rfl⟩
    · rw [if_neg he]; exact ⟨h.1, h.2.1, hothers _ _ _ he h.2.2⟩
  | .sty _ _, .sty e' _ _ _, h => by
    simp only [rerunAttr]
    by_cases he : e' = e
    · subst he; rw [if_pos rfl]; exact ⟨h.1, h.2.1, hself _ _ h.2.2 _ rfl⟩
    · rw [if_neg he]; exact ⟨h.1, h.2.1, hothers _ _ _ he h.2.2⟩
  | .stat _ _, .dyn _ _ _ _, h => h.elim
  | .stat _ _, .cls _ _ _ _, h => h.elim
  | .stat _ _, .sty _ _ _ _, h => h.elim
  | .dyn _ _, .stat _ _, h => h.elim
  | .dyn _ _, .cls _ _ _ _, h => h.elim
  | .dyn _ _, .sty _ _ _ _, h => h.elim
  | .cls _ _, .stat _ _, h => h.elim
  | .cls _ _, .dyn _ _ _ _, h => h.elim
  | .cls _ _, .sty _ _ _ _, h => h.elim
  | .sty _ _, .stat _ _, h => h.elim
  | .sty _ _, .dyn _ _ _ _, h => h.elim
  | .sty _ _, .cls _ _ _ _, h => h.elim

theorem rerunAttrs_goodP : ∀ {as : List Attr} {os : List AState}, GoodAttrsP P0 as os →
    GoodAttrsP (P s) as (rerunAttrs e w os).1
  | [], [], _ => trivial
  | _ :: _, _ :: _, h => by
    simp only [rerunAttrs]
    exact ⟨rerunAttr_goodP hP hi hothers hself h.1, rerunAttrs_goodP h.2⟩
  | [], _ :: _, h => h.elim
  | _ :: _, [], h => h.elim

/-- a tree none of whose effects is `e` is as good afterwards as before -/
theorem goodP_others (v : View) (t : RState) (hg : GoodP P0 v t) (hne : e ∉ effsOf t) : GoodP (P s) v t :=
  GoodP.map v t hg (fun e' x cur he' hp => hothers e' x cur (fun hh => hne (hh ▸ he')) hp)

omit hothers hself in
/-- the `either` node of the re-run effect itself: its branch was renewed (`rebuild` or `replace`) -/
theorem rerun_either_node {c : Expr} {a b bv : View} {left l' : Bool} {inner inner' : RState} {s' : St}
    (hren : Renewed K s (effsOf inner) bv inner' s') (hnd : (e :: effsOf inner).Nodup)
    (hbI : ∀ x ∈ e :: effsOf inner, K ≤ x ∧ x < s.prog.length)
    (hPe : P s e c (fun v => l' = (v != 0))) (hbv : bv = if l' then a else b) :
    Rerun K P s (.either e c a b left inner) (.either c a b) (.either e c a b l' inner') s' := by
  have hne : e ∉ effsOf inner := (List.nodup_cons.1 hnd).1
  have hzmem : ∀ i, i ∈ zEffs (newZ s s') ↔ i ∈ effsOf inner := by
    intro i
    rw [← List.count_pos_iff, ← List.count_pos_iff, hren.core.zcnt]
  have hx : Ext K (fun x => x ∈ zEffs (newZ s s')) s s' :=
    hren.core.ext.mono (fun i hi' => (hzmem i).2 hi')
      (fun i hi' => (hbI i (List.mem_cons_of_mem _ ((hzmem i).1 hi'))).1)
  have hfreshI : ∀ x, x < s.prog.length → (effsOf inner').count x = 0 := by
    intro x hx'
    rw [List.count_eq_zero]; intro hm
    have := hren.core.fresh x hm; omega
  refine ⟨hren.core.inv, hren.core.zomb, hx, ?_, ?_, ?_, hren.core.zdead, hren.core.zok, ?_, hren.core.root,
    hren.core.rootN, hren.core.disposed⟩
  · simp only [GoodP]
    refine ⟨trivial, trivial, trivial, hP.ext hi hren.core.ext hne hPe, ?_, ?_⟩
    · intro hl
      have : bv = a := by rw [hbv, hl]; rfl
      rw [← this]
      exact GoodP.map bv inner' ((good_iff bv inner').1 hren.good) (fun _ _ _ _ hk => hP.ofOK hk)
    · intro hl
      have : bv = b := by rw [hbv, hl]; rfl
      rw [← this]
      exact GoodP.map bv inner' ((good_iff bv inner').1 hren.good) (fun _ _ _ _ hk => hP.ofOK hk)
  · intro x hx'
    simp only [effsOf, List.count_cons]
    rw [hren.core.zcnt, hfreshI x hx']
    omega
  · intro x hx'
    have he : e < s.prog.length := (hbI e (by simp)).2
    have hcz : (effsOf inner).count x = 0 := by
      rw [List.count_eq_zero]; intro hm
      have := (hbI x (List.mem_cons_of_mem _ hm)).2; omega
    have hne' : ¬ (e == x) = true := by simp; omega
    refine ⟨?_, by rw [hren.core.zcnt]; exact hcz, ?_⟩
    · simp only [effsOf, List.count_cons, hne', if_false]
      exact List.nodup_iff_count.1 hren.core.nodup x
    · intro hm
      simp only [effsOf, List.mem_cons] at hm
      rcases hm with hm | hm
      · omega
      · exact (hren.core.fresh x hm).2
  · intro x hx'
    rcases hren.core.tasks x hx' with ht | ht
    · exact Or.inl ht
    · exact Or.inr (by simp [effsOf, ht])

/-- **the re-run of effect `e` inside a tree of the core fragment** -/
theorem rerunIn_spec : ∀ (v : View) (t : RState), GoodP P0 v t → v.wf K = true → v.core = true →
    (effsOf t).Nodup → Rerun K P s t v (rerunIn e w t s).1 (rerunIn e w t s).2.1 := by
  intro v
  induction v with
  | text str =>
    intro t hg _ _ hnd
    cases t <;> simp only [GoodP] at hg
    next n s' => exact Rerun.same hi (by simp only [rerunIn, GoodP]; exact hg) rfl hnd (by simp [effsOf])
  | unit =>
    intro t hg _ _ hnd
    cases t <;> simp only [GoodP] at hg
    next n => exact Rerun.same hi (by simp only [rerunIn, GoodP]) rfl hnd (by simp [effsOf])
  | elem tag attrs kid ih =>
    intro t hg hw hc hnd
    cases t <;> simp only [GoodP] at hg
    next n tag' as k =>
      simp only [View.wf, Bool.and_eq_true] at hw
      simp only [View.core] at hc
      have hbT : ∀ x ∈ effsOf (RState.elem n tag' as k), x < s.prog.length := by
        have hg' : GoodP (EffWf K s) (.elem tag attrs kid) (.elem n tag' as k) :=
          GoodP.map _ _ (show GoodP P0 (.elem tag attrs kid) (.elem n tag' as k) by simp only [GoodP]; exact hg)
            (fun e' x cur _ hp => p0_wf hP hi hothers hself e' x cur hp)
        exact fun x hx => (GoodP.bound _ _ hg' x hx).2
      simp only [effsOf] at hnd
      have hk := ih k hg.2.2 hw.2 hc (List.nodup_append.1 hnd).2.1
      have hnd' : (as.flatMap AState.effs ++ effsOf k ++ []).Nodup := by simpa using hnd
      have hattrs : GoodAttrsP (P (rerunIn e w k s).2.1) attrs (rerunAttrs e w as).1 := by
        refine (rerunAttrs_goodP hP hi hothers hself hg.2.1).map ?_
        intro y x cur hy hp
        rw [rerunAttrs_effs] at hy
        have hylt := hbT y (by simp [effsOf, hy])
        exact hP.ext hi hk.ext (hk.not_acted hnd' (by simp [hy]) hylt) hp
      simp only [rerunIn]
      refine hk.wrap (as.flatMap AState.effs) [] (by simp [effsOf]) (by simp [effsOf, rerunAttrs_effs])
        (by simpa [effsOf] using hnd) hbT ?_
      simp only [GoodP]
      exact ⟨hg.1, hattrs, hk.good⟩
  | seq a b iha ihb =>
    intro t hg hw hc hnd
    cases t <;> simp only [GoodP] at hg
    next sa sb =>
      simp only [View.wf, Bool.and_eq_true] at hw
      simp only [View.core, Bool.and_eq_true] at hc
      have hbT : ∀ x ∈ effsOf (RState.seq sa sb), x < s.prog.length := by
        have hg' : GoodP (EffWf K s) (.seq a b) (.seq sa sb) :=
          GoodP.map _ _ (show GoodP P0 (.seq a b) (.seq sa sb) by simp only [GoodP]; exact hg)
            (fun e' x cur _ hp => p0_wf hP hi hothers hself e' x cur hp)
        exact fun x hx => (GoodP.bound _ _ hg' x hx).2
      simp only [effsOf] at hnd
      by_cases hea : e ∈ effsOf sa
      · have heb : e ∉ effsOf sb := fun hm => (List.nodup_append.1 hnd).2.2 e hea e hm rfl
        have ha := iha sa hg.1 hw.1 hc.1 (List.nodup_append.1 hnd).1
        have hnd' : ([] ++ effsOf sa ++ effsOf sb).Nodup := by simpa using hnd
        have hbgood : GoodP (P (rerunIn e w sa s).2.1) b sb := by
          refine GoodP.map b sb (goodP_others hP hi hothers hself b sb hg.2 heb) ?_
          intro y x cur hy hp
          exact hP.ext hi ha.ext (ha.not_acted hnd' (by simp [hy]) (hbT y (by simp [effsOf, hy]))) hp
        simp only [rerunIn, rerunIn_absent e w sb _ heb]
        refine ha.wrap [] (effsOf sb) (by simp [effsOf]) (by simp [effsOf]) (by simpa [effsOf] using hnd) hbT ?_
        simp only [GoodP]
        exact ⟨ha.good, hbgood⟩
      · have hb := ihb sb hg.2 hw.2 hc.2 (List.nodup_append.1 hnd).2.1
        have hnd' : (effsOf sa ++ effsOf sb ++ []).Nodup := by simpa using hnd
        have hagood : GoodP (P (rerunIn e w sb s).2.1) a sa := by
          refine GoodP.map a sa (goodP_others hP hi hothers hself a sa hg.1 hea) ?_
          intro y x cur hy hp
          exact hP.ext hi hb.ext (hb.not_acted hnd' (by simp [hy]) (hbT y (by simp [effsOf, hy]))) hp
        simp only [rerunIn, rerunIn_absent e w sa _ hea]
        refine hb.wrap (effsOf sa) [] (by simp [effsOf]) (by simp [effsOf]) (by simpa [effsOf] using hnd) hbT ?_
        simp only [GoodP]
        exact ⟨hagood, hb.good⟩
  | dynText x =>
    intro t hg _ _ hnd
    cases t with
    | dynText e' x' n last =>
      simp only [GoodP] at hg
      have hwf := p0_wf hP hi hothers hself e' x _ hg.2
      have hb : ∀ y ∈ effsOf (RState.dynText e' x' n last), y < s.prog.length := by
        intro y hy; simp only [effsOf, List.mem_singleton] at hy; rw [hy]; exact hwf.2.1
      simp only [rerunIn]
      by_cases he : e' = e
      · subst he; rw [if_pos rfl]
        exact Rerun.same hi (by simp only [GoodP]; exact ⟨hg.1, hself _ _ hg.2 _ rfl⟩) rfl hnd hb
      · rw [if_neg he]
        exact Rerun.same hi (by simp only [GoodP]; exact ⟨hg.1, hothers _ _ _ he hg.2⟩) rfl hnd hb
    | _ => simp only [GoodP] at hg
  | either c a b iha ihb =>
    intro t hg hw hc hnd
    cases t with
    | either e' c' a' b' left inner =>
      simp only [GoodP] at hg
      obtain ⟨hcc, haa, hbb, hpe, hgl, hgr⟩ := hg
      subst hcc; subst haa; subst hbb
      simp only [View.wf, Bool.and_eq_true] at hw
      simp only [View.core, Bool.and_eq_true] at hc
      simp only [effsOf] at hnd
      have hne' : e' ∉ effsOf inner := (List.nodup_cons.1 hnd).1
      have hndI : (effsOf inner).Nodup := (List.nodup_cons.1 hnd).2
      have hgw : GoodP (EffWf K s) (.either c a b) (.either e' c a b left inner) :=
        GoodP.map _ _ (show GoodP P0 (.either c a b) (.either e' c a b left inner) by
          simp only [GoodP]; exact ⟨trivial, trivial, trivial, hpe, hgl, hgr⟩)
          (fun e'' x cur _ hp => p0_wf hP hi hothers hself e'' x cur hp)
      have hbT : ∀ x ∈ e' :: effsOf inner, K ≤ x ∧ x < s.prog.length := fun x hx =>
        GoodP.bound _ _ hgw x (by simpa [effsOf] using hx)
      simp only [GoodP] at hgw
      by_cases he : e' = e
      · subst he
        simp only [rerunIn, if_true]
        by_cases hsame : (w != 0) = left
        · rw [if_pos hsame]
          -- same side: `rebuild`
          cases hl : left with
          | true =>
            have hren := rebuild_spec a inner s hi (hgw.2.2.2.2.1 hl) hw.1.2 hc.1 hndI
            simp only [if_true]
            exact rerun_either_node hP hi hren hnd hbT
              (hself _ _ hpe _ (by rw [hsame, hl])) (by simp)
          | false =>
            have hren := rebuild_spec b inner s hi (hgw.2.2.2.2.2 hl) hw.2 hc.2 hndI
            simp only [Bool.false_eq_true, if_false]
            exact rerun_either_node hP hi hren hnd hbT
              (hself _ _ hpe _ (by rw [hsame, hl])) (by simp)
        · rw [if_neg hsame]
          -- other side: `replace`
          cases hl : left with
          | true =>
            have hw0 : (w != 0) = false := by
              cases hh : (w != 0) with
              | true => rw [hh, hl] at hsame; exact absurd rfl hsame
              | false => rfl
            have hren := replace_spec (v := b) hi hw.2 hc.2 (hgw.2.2.2.2.1 hl) hw.1.2 hc.1
            simp only [hw0, Bool.false_eq_true, if_false]
            exact rerun_either_node hP hi hren hnd hbT (hself _ _ hpe _ (by simp [hw0])) (by simp)
          | false =>
            have hw0 : (w != 0) = true := by
              cases hh : (w != 0) with
              | true => rfl
              | false => rw [hh, hl] at hsame; exact absurd rfl hsame
            have hren := replace_spec (v := a) hi hw.1.2 hc.1 (hgw.2.2.2.2.2 hl) hw.2 hc.2
            simp only [hw0, if_true]
            exact rerun_either_node hP hi hren hnd hbT (hself _ _ hpe _ (by simp [hw0])) (by simp)
      · simp only [rerunIn, if_neg he]
        have hnd' : ([e'] ++ effsOf inner ++ []).Nodup := by simpa using hnd
        have hbT' : ∀ x ∈ effsOf (RState.either e' c a b left inner), x < s.prog.length :=
          fun x hx => (hbT x (by simpa [effsOf] using hx)).2
        cases hl : left with
        | true =>
          have hin := iha inner (hgl hl) hw.1.2 hc.1 hndI
          refine hin.wrap [e'] [] (by simp [effsOf]) (by simp [effsOf]) (by simpa [effsOf] using hnd)
            (by rw [hl] at hbT'; exact hbT') ?_
          refine goodP_either ?_ (fun _ => hin.good) (fun hf => by cases hf)
          rw [hl] at hpe
          exact hP.ext hi hin.ext (hin.not_acted hnd' (by simp) (hbT e' (by simp)).2) (hothers _ _ _ he hpe)
        | false =>
          have hin := ihb inner (hgr hl) hw.2 hc.2 hndI
          refine hin.wrap [e'] [] (by simp [effsOf]) (by simp [effsOf]) (by simpa [effsOf] using hnd)
            (by rw [hl] at hbT'; exact hbT') ?_
          refine goodP_either ?_ (fun hf => by cases hf) (fun _ => hin.good)
          rw [hl] at hpe
          exact hP.ext hi hin.ext (hin.not_acted hnd' (by simp) (hbT e' (by simp)).2) (hothers _ _ _ he hpe)
    | _ => simp only [GoodP] at hg
  | «show» c a b _ _ => intro t _ _ hc; simp [View.core] at hc
  | scope sid d kid _ => intro t _ _ hc; simp [View.core] at hc
  | forRows en sel lists row _ => intro t _ _ hc; simp [View.core] at hc
  | eb kid _ => intro t _ _ hc; simp [View.core] at hc
  | res c x => intro t _ _ hc; simp [View.core] at hc
  | forKeyed sel lists =>
    intro t hg hw _ hnd
    cases t with
    | forK e' sel' lists' ks texts =>
      simp only [GoodP] at hg
      obtain ⟨hs, hl, hpe, hk⟩ := hg
      subst hs; subst hl
      have hwf := p0_wf hP hi hothers hself e' sel _ hpe
      have hb : ∀ y ∈ effsOf (RState.forK e' sel lists ks texts), y < s.prog.length := by
        intro y hy; simp only [effsOf, List.mem_singleton] at hy; rw [hy]; exact hwf.2.1
      by_cases he : e' = e
      · subst he
        rw [rerunIn_forK_self]
        dsimp only
        obtain ⟨n, hn⟩ := rerunFor_st s ks texts (listAt lists w)
        rw [hn]
        refine Rerun.same_next hP hi n ?_ rfl hnd hb
        simp only [GoodP]
        exact ⟨trivial, trivial, hself _ _ hpe _ (rerunFor_hashed _ _ _ _),
          rerunFor_kok _ _ hk (listAt_nodup (wf_forKeyed hw).2 _)⟩
      · rw [rerunIn_forK_other he]
        exact Rerun.same hi (by simp only [GoodP]; exact ⟨trivial, trivial, hothers _ _ _ he hpe, hk⟩) rfl hnd hb
    | _ => simp only [GoodP] at hg

end rerun

end Leptos.RView
