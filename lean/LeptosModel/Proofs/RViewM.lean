import LeptosModel.Proofs.RViewMBase
import LeptosModel.Proofs.ReactivePush
import LeptosModel.Proofs.RViewCore
/-!
# Proofs/RViewM — mounted reactive views over signals AND memos: the reactive layer

The invariant of the reactive graph is the one of the reactive core (`TopC`, `Proofs/ReactiveConv.lean`,
state-level lemmas `Proofs/ReactiveState2.lean`, `Proofs/ReactivePush.lean`) with the set of disposed
effects as its dead set.  Render effects are created, run, and dropped between two reactive runs (the DOM
phase of `rerun` starts after `runEffBody` has returned), i.e. at quiescent states.
-/
namespace Leptos.RView
open Leptos.Reactive

/-! ## programs that grow -/

theorem readsData_append (p : Prog) (d : NodeDef) : ∀ (x : Expr), x.readsData p = true → x.readsData (p ++ [d]) = true
  | .lit _, _ => rfl
  | .rd _ id, h => by
    simp only [Expr.readsData] at h ⊢
    cases hp : p[id]? with
    | none => rw [hp] at h; simp at h
    | some d' =>
      have hid : id < p.length := by
        rcases Nat.lt_or_ge id p.length with h' | h'
        · exact h'
        · rw [List.getElem?_eq_none h'] at hp; cases hp
      rw [List.getElem?_append_left hid, hp]
      rw [hp] at h; exact h
  | .add a b, h => by
    simp only [Expr.readsData, Bool.and_eq_true] at h ⊢
    exact ⟨readsData_append p d a h.1, readsData_append p d b h.2⟩
  | .mulc _ a, h => by
    simp only [Expr.readsData] at h ⊢
    exact readsData_append p d a h
  | .ite c t e, h => by
    simp only [Expr.readsData, Bool.and_eq_true] at h ⊢
    exact ⟨⟨readsData_append p d c h.1.1, readsData_append p d t h.1.2⟩, readsData_append p d e h.2⟩
  | .seq a b, h => by
    simp only [Expr.readsData, Bool.and_eq_true] at h ⊢
    exact ⟨readsData_append p d a h.1, readsData_append p d b h.2⟩
  | .wr id a, h => by
    simp only [Expr.readsData, Bool.and_eq_true] at h ⊢
    refine ⟨?_, readsData_append p d a h.2⟩
    cases hp : p[id]? with
    | none => rw [hp] at h; simp at h
    | some d' =>
      have hid : id < p.length := by
        rcases Nat.lt_or_ge id p.length with h' | h'
        · exact h'
        · rw [List.getElem?_eq_none h'] at hp; cases hp
      rw [List.getElem?_append_left hid, hp]
      have := h.1; rw [hp] at this; exact this

theorem wfNode_append (p : Prog) (d : NodeDef) (i : Nat) : ∀ (n : NodeDef), wfNode p i n = true →
    wfNode (p ++ [d]) i n = true
  | .sig _, _ => rfl
  | .memo b, h => by
    simp only [wfNode, Bool.and_eq_true] at h ⊢
    exact ⟨⟨h.1.1, h.1.2⟩, readsData_append p d b h.2⟩
  | .eff b, h => by
    simp only [wfNode, Bool.and_eq_true] at h ⊢
    exact ⟨h.1, readsData_append p d b h.2⟩

theorem WF_push {p : Prog} (h : WF p = true) (d : NodeDef) (hd : wfNode (p ++ [d]) p.length d = true) :
    WF (p ++ [d]) = true := by
  simp only [WF, List.all_eq_true, List.mem_range, List.length_append, List.length_singleton]
  intro i hi
  rcases Nat.lt_or_ge i p.length with hlt | hge
  · rw [List.getElem?_append_left hlt]
    have hg : p[i]? = some p[i] := List.getElem?_eq_getElem hlt
    rw [hg]
    exact wfNode_append p d i _ (WF_get h hg)
  · have : i = p.length := by omega
    subst this
    simp only [List.getElem?_append_right (Nat.le_refl _), Nat.sub_self, List.getElem?_cons_zero]
    exact hd

theorem bodiesTracked_push {p : Prog} (h : bodiesTracked p = true) (d : NodeDef)
    (hd : match d with | .sig _ => True | .memo b => b.noUntracked = true | .eff b => b.noUntracked = true) :
    bodiesTracked (p ++ [d]) = true := by
  simp only [bodiesTracked, List.all_append, Bool.and_eq_true, List.all_cons, List.all_nil, Bool.and_true]
  refine ⟨h, ?_⟩
  cases d <;> simpa using hd

/-- an expression over the first `K` nodes, all of them signals or memos, reads data nodes -/
theorem readsData_of_below {p : Prog} {K : Nat}
    (hdefs : ∀ i, i < K → ∃ d, p[i]? = some d ∧ ∀ x, d ≠ .eff x) :
    ∀ (x : Expr), x.readsBelow K = true → x.noWrite = true → x.readsData p = true
  | .lit _, _, _ => rfl
  | .rd _ id, h, _ => by
    simp only [Expr.readsBelow, decide_eq_true_eq] at h
    obtain ⟨d, hd, hne⟩ := hdefs id h
    simp only [Expr.readsData, hd]
    cases d with
    | sig _ => rfl
    | memo _ => rfl
    | eff x => exact absurd rfl (hne x)
  | .add a b, h, hw => by
    simp only [Expr.readsBelow, Expr.noWrite, Bool.and_eq_true] at h hw
    simp only [Expr.readsData, Bool.and_eq_true]
    exact ⟨readsData_of_below hdefs a h.1 hw.1, readsData_of_below hdefs b h.2 hw.2⟩
  | .mulc _ a, h, hw => by
    simp only [Expr.readsBelow, Expr.noWrite] at h hw
    simp only [Expr.readsData]
    exact readsData_of_below hdefs a h hw
  | .ite c t e, h, hw => by
    simp only [Expr.readsBelow, Expr.noWrite, Bool.and_eq_true] at h hw
    simp only [Expr.readsData, Bool.and_eq_true]
    exact ⟨⟨readsData_of_below hdefs c h.1.1 hw.1.1, readsData_of_below hdefs t h.1.2 hw.1.2⟩,
      readsData_of_below hdefs e h.2 hw.2⟩
  | .seq a b, h, hw => by
    simp only [Expr.readsBelow, Expr.noWrite, Bool.and_eq_true] at h hw
    simp only [Expr.readsData, Bool.and_eq_true]
    exact ⟨readsData_of_below hdefs a h.1 hw.1, readsData_of_below hdefs b h.2 hw.2⟩
  | .wr _ _, _, hw => by simp [Expr.noWrite] at hw

theorem readsBelow_mono {k k' : Nat} (hk : k ≤ k') : ∀ (x : Expr), x.readsBelow k = true → x.readsBelow k' = true
  | .lit _, _ => rfl
  | .rd _ id, h => by
    simp only [Expr.readsBelow, decide_eq_true_eq] at h ⊢; omega
  | .add a b, h => by
    simp only [Expr.readsBelow, Bool.and_eq_true] at h ⊢
    exact ⟨readsBelow_mono hk a h.1, readsBelow_mono hk b h.2⟩
  | .mulc _ a, h => by
    simp only [Expr.readsBelow] at h ⊢; exact readsBelow_mono hk a h
  | .ite c t e, h => by
    simp only [Expr.readsBelow, Bool.and_eq_true] at h ⊢
    exact ⟨⟨readsBelow_mono hk c h.1.1, readsBelow_mono hk t h.1.2⟩, readsBelow_mono hk e h.2⟩
  | .seq a b, h => by
    simp only [Expr.readsBelow, Bool.and_eq_true] at h ⊢
    exact ⟨readsBelow_mono hk a h.1, readsBelow_mono hk b h.2⟩
  | .wr _ a, h => by
    simp only [Expr.readsBelow] at h ⊢; exact readsBelow_mono hk a h

/-! ## the reactive invariant -/

/-- the disposed effects -/
def DeadE (rs : State) : Nat → Prop := fun i => (rs.get i).kind = .eff ∧ (rs.get i).alive = false

/-- the reactive graph of a mounted view over `K` definitions (signals and memos) -/
structure RM (K : Nat) (st : St) : Prop where
  top : TopC st.prog st.rs (DeadE st.rs)
  wf : WF st.prog = true
  tr : bodiesTracked st.prog = true
  kle : K ≤ st.prog.length
  defs : ∀ i, i < K → ∃ d, st.prog[i]? = some d ∧ ∀ x, d ≠ .eff x
  /-- every effect is a render effect: it ran when it was created -/
  firstF : ∀ i, (st.rs.get i).kind = .eff → (st.rs.get i).first = false
  /-- … and its body writes no signal -/
  nwAll : ∀ (i : Nat) (x : Expr), st.prog[i]? = some (NodeDef.eff x) → x.noWrite = true

theorem RM.len {K : Nat} {st : St} (h : RM K st) : st.rs.nodes.length = st.prog.length := h.top.quiet.inv.len

theorem RM.of_rs_prog {K : Nat} {st st' : St} (h : RM K st) (hp : st'.prog = st.prog) (hr : st'.rs = st.rs) :
    RM K st' := by
  refine ⟨by rw [hp, hr]; exact h.top, by rw [hp]; exact h.wf, by rw [hp]; exact h.tr, by rw [hp]; exact h.kle, ?_,
    by rw [hr]; exact h.firstF, by rw [hp]; exact h.nwAll⟩
  rw [hp]; exact h.defs

theorem _root_.Leptos.Reactive.TopC.congrD {p : Prog} {s : State} {D D' : Nat → Prop} (h : TopC p s D) (hd : ∀ i, D i ↔ D' i) :
    TopC p s D' := by
  have : D = D' := funext fun i => propext (hd i)
  rw [← this]; exact h

/-- a dynamic part's body over the definitions is a legal body of a new effect -/
theorem RM.wf_eff {K : Nat} {st : St} (h : RM K st) {x : Expr} (hs : sigOnly K x = true) :
    WF (st.prog ++ [.eff x]) = true ∧ bodiesTracked (st.prog ++ [.eff x]) = true := by
  simp only [sigOnly, Bool.and_eq_true] at hs
  refine ⟨WF_push h.wf _ ?_, bodiesTracked_push h.tr _ hs.2⟩
  simp only [wfNode, Bool.and_eq_true]
  exact ⟨readsBelow_mono h.kle x hs.1.1,
    readsData_append _ _ x (readsData_of_below h.defs x hs.1.1 hs.1.2)⟩

/-! ## frames between states of the view -/

/-- `st'` extends `st`: the program grew at the end, effects outside `A` kept their stable part -/
structure ExtM (K : Nat) (A : Nat → Prop) (st st' : St) : Prop where
  pre : ∃ ext, st'.prog = st.prog ++ ext
  aeff : ∀ i, A i → K ≤ i
  keep : ∀ i, i < st.prog.length → (st.rs.get i).kind = .eff → ¬ A i → stab (st'.rs.get i) = stab (st.rs.get i)
  tasks : ∀ e, e ∈ st.tasks → e ∈ st'.tasks

theorem ExtM.refl (K : Nat) (A : Nat → Prop) (hA : ∀ i, A i → K ≤ i) (st : St) : ExtM K A st st :=
  ⟨⟨[], by simp⟩, hA, fun _ _ _ _ => rfl, fun _ h => h⟩

theorem ExtM.len_le {K : Nat} {A : Nat → Prop} {st st' : St} (h : ExtM K A st st') :
    st.prog.length ≤ st'.prog.length := by
  obtain ⟨ext, he⟩ := h.pre; rw [he]; simp

theorem ExtM.prog_get {K : Nat} {A : Nat → Prop} {st st' : St} (h : ExtM K A st st') {i : Nat}
    (hi : i < st.prog.length) : st'.prog[i]? = st.prog[i]? := by
  obtain ⟨ext, he⟩ := h.pre
  rw [he, List.getElem?_append_left hi]

theorem ExtM.trans {K : Nat} {A : Nat → Prop} {a b c : St} (h1 : ExtM K A a b) (h2 : ExtM K A b c) :
    ExtM K A a c where
  pre := by
    obtain ⟨e1, h1'⟩ := h1.pre; obtain ⟨e2, h2'⟩ := h2.pre
    exact ⟨e1 ++ e2, by rw [h2', h1']; simp⟩
  aeff := h1.aeff
  keep i hi hk ha := by
    have hk' : (b.rs.get i).kind = .eff := by
      have := h1.keep i hi hk ha
      simp only [stab, Prod.mk.injEq] at this
      rw [this.1]; exact hk
    exact (h2.keep i (by have := h1.len_le; omega) hk' ha).trans (h1.keep i hi hk ha)
  tasks e he := h2.tasks e (h1.tasks e he)

theorem ExtM.mono {K : Nat} {A B : Nat → Prop} {st st' : St} (h : ExtM K A st st')
    (hab : ∀ i, A i → B i) (hB : ∀ i, B i → K ≤ i) : ExtM K B st st' :=
  ⟨h.pre, hB, fun i hi hk hb => h.keep i hi hk (fun ha => hb (hab i ha)), h.tasks⟩

theorem ExtM.of_rs_prog {K : Nat} (A : Nat → Prop) (hA : ∀ i, A i → K ≤ i) {st st' : St}
    (hp : st'.prog = st.prog) (hr : st'.rs = st.rs) (ht : ∀ e, e ∈ st.tasks → e ∈ st'.tasks) : ExtM K A st st' :=
  ⟨⟨[], by rw [hp]; simp⟩, hA, fun _ _ _ _ => by rw [hr], ht⟩

/-- the frame of a reactive operation that keeps the program -/
theorem ExtM.of_sk {K : Nat} {A : Nat → Prop} (hA : ∀ i, A i → K ≤ i) {st st' : St} (hp : st'.prog = st.prog)
    (hs : SK A st.rs st'.rs) (ht : ∀ e, e ∈ st.tasks → e ∈ st'.tasks) : ExtM K A st st' :=
  ⟨⟨[], by rw [hp]; simp⟩, hA, fun i _ hk ha => hs.eff i hk ha, ht⟩

/-! ## a live render effect of the mounted view -/

/-- effect `e` with body `x` is alive, its task runs, and `cur` holds of the value it last rendered
(the value stored by its last run) -/
structure EM (K : Nat) (st : St) (e : Nat) (x : Expr) (cur : Int → Prop) : Prop where
  ke : K ≤ e
  lt : e < st.prog.length
  prog : st.prog[e]? = some (.eff x)
  nw : x.noWrite = true
  kind : (st.rs.get e).kind = .eff
  alive : (st.rs.get e).alive = true
  done : (st.rs.get e).done = false
  first : (st.rs.get e).first = false
  task : e ∈ st.tasks
  cur : cur ((st.rs.get e).val.getD 0)

theorem EM.wf {K : Nat} {st : St} {e : Nat} {x : Expr} {cur : Int → Prop} (h : EM K st e x cur) :
    EffWf K st e x cur := ⟨h.ke, h.lt, h.prog⟩

theorem EM.ext {K : Nat} {A : Nat → Prop} {st st' : St} {e : Nat} {x : Expr} {cur : Int → Prop}
    (h : EM K st e x cur) (hx : ExtM K A st st') (ha : ¬ A e) : EM K st' e x cur := by
  have hk := hx.keep e h.lt h.kind ha
  simp only [stab, Prod.mk.injEq] at hk
  exact ⟨h.ke, by have := hx.len_le; have := h.lt; omega, by rw [hx.prog_get h.lt]; exact h.prog, h.nw,
    by rw [hk.1]; exact h.kind, by rw [hk.2.2.1]; exact h.alive, by rw [hk.2.2.2.1]; exact h.done,
    by rw [hk.2.2.2.2.1]; exact h.first, hx.tasks e h.task, by rw [hk.2.1]; exact h.cur⟩

/-! ## `RenderEffect::new` -/

/-- what `newEff` does -/
structure NewEffM (K : Nat) (st : St) (x : Expr) (e : Nat) (v : Int) (st1 : St) : Prop where
  he : e = st.prog.length
  prog : st1.prog = st.prog ++ [.eff x]
  rm : RM K st1
  ext : ExtM K (fun _ => False) st st1
  kind : (st1.rs.get e).kind = .eff
  alive : (st1.rs.get e).alive = true
  done : (st1.rs.get e).done = false
  first : (st1.rs.get e).first = false
  val : (st1.rs.get e).val.getD 0 = v
  tasks : st1.tasks = st.tasks
  zombies : st1.zombies = st.zombies
  root : st1.root = st.root
  rootN : st1.rootN = st.rootN
  disposed : st1.disposed = st.disposed

theorem bodyOf_push_new (p : Prog) (x : Expr) : bodyOf (p ++ [.eff x]) p.length = x := by
  simp [bodyOf]

theorem newEffM_spec' {K : Nat} {st : St} (h : RM K st) {x : Expr} (hwf : WF (st.prog ++ [.eff x]) = true)
    (htr : bodiesTracked (st.prog ++ [.eff x]) = true) (hnw : x.noWrite = true) :
    NewEffM K st x (newEff st x).1 (newEff st x).2.1 (newEff st x).2.2 := by
  have hlen := h.len
  -- the state after the push and the flag update
  have hrs : (newEff st x).2.2.rs =
      initRenderEffect (st.prog ++ [.eff x]) (st.rs.push (initNode (.eff x))) st.prog.length := rfl
  have htop := h.top.createRenderEffect x hwf htr
  rw [hlen] at htop
  -- frames
  have hpush : ∀ i, i ≠ st.rs.nodes.length → (st.rs.push (initNode (.eff x))).get i = st.rs.get i :=
    fun i hi => push_old i hi
  have hnewn : (st.rs.push (initNode (.eff x))).get st.prog.length = initNode (.eff x) := by
    rw [← hlen]; exact push_new
  have hsk : SK (· = st.prog.length)
      ((st.rs.push (initNode (.eff x))).upd st.prog.length
        fun n => { n with dirty := false, chan := false, woken := true, first := false })
      (initRenderEffect (st.prog ++ [.eff x]) (st.rs.push (initNode (.eff x))) st.prog.length) :=
    runEffBody_sk _ _ _ _ (by rw [bodyOf_push_new]; exact hnw)
  have hlt1 : st.prog.length < (st.rs.push (initNode (.eff x))).nodes.length := by
    simp [State.push, hlen]
  have hg1e : ((st.rs.push (initNode (.eff x))).upd st.prog.length
        fun n => { n with dirty := false, chan := false, woken := true, first := false }).get st.prog.length =
      { initNode (.eff x) with dirty := false, chan := false, woken := true, first := false } := by
    rw [State.get_upd_same _ _ hlt1, hnewn]
  have hg1o : ∀ i, i ≠ st.prog.length → ((st.rs.push (initNode (.eff x))).upd st.prog.length
        fun n => { n with dirty := false, chan := false, woken := true, first := false }).get i = st.rs.get i := by
    intro i hi
    rw [State.get_upd_ne _ _ (Ne.symm hi), hpush i (by rw [hlen]; exact hi)]
  have hkindE : ((newEff st x).2.2.rs.get st.prog.length).kind = .eff := by
    rw [hrs, hsk.kind, hg1e]; rfl
  have hlifeE := hsk.lf st.prog.length (by rw [hg1e]; rfl)
  rw [hg1e] at hlifeE
  simp only [life, Prod.mk.injEq] at hlifeE
  have hold : ∀ i, i < st.prog.length → (st.rs.get i).kind = .eff →
      stab ((newEff st x).2.2.rs.get i) = stab (st.rs.get i) := by
    intro i hi hk
    have hne : i ≠ st.prog.length := Nat.ne_of_lt hi
    rw [hrs]
    have := hsk.eff i (by rw [hg1o i hne]; exact hk) hne
    rw [hg1o i hne] at this
    exact this
  have hkinds : ∀ i, i ≠ st.prog.length → ((newEff st x).2.2.rs.get i).kind = (st.rs.get i).kind := by
    intro i hi
    rw [hrs, hsk.kind, hg1o i hi]
  have hdead : ∀ i, DeadE st.rs i ↔ DeadE (newEff st x).2.2.rs i := by
    intro i
    by_cases hi : i = st.prog.length
    · subst hi
      constructor
      · intro hd
        have : (st.rs.get st.prog.length).kind = .sig := by
          rw [State.get_default st.rs (by rw [hlen]; exact Nat.le_refl _)]
        have h1 := hd.1
        rw [this] at h1; cases h1
      · intro hd
        have ha : ((newEff st x).2.2.rs.get st.prog.length).alive = true := by
          rw [hrs, hlifeE.1]; rfl
        have h2 := hd.2
        rw [ha] at h2; cases h2
    · by_cases hk : (st.rs.get i).kind = .eff
      · have hi' : i < st.prog.length := by
          rw [← hlen]; exact st.rs.lt_of_kind_ne (by rw [hk]; simp)
        have hst := hold i hi' hk
        simp only [stab, Prod.mk.injEq] at hst
        simp only [DeadE, hst.1, hst.2.2.1]
      · have hk' : ((newEff st x).2.2.rs.get i).kind ≠ .eff := by rw [hkinds i hi]; exact hk
        exact ⟨fun hd => absurd hd.1 hk, fun hd => absurd hd.1 hk'⟩
  have hfirstF : ∀ i, ((newEff st x).2.2.rs.get i).kind = .eff → ((newEff st x).2.2.rs.get i).first = false := by
    intro i hk
    by_cases hi : i = st.prog.length
    · subst hi; rw [hrs, hlifeE.2.2.1]
    · have hk0 : (st.rs.get i).kind = .eff := by rw [← hkinds i hi]; exact hk
      have hi' : i < st.prog.length := by
        rw [← hlen]; exact st.rs.lt_of_kind_ne (by rw [hk0]; simp)
      have hst := hold i hi' hk0
      simp only [stab, Prod.mk.injEq] at hst
      rw [hst.2.2.2.2.1]; exact h.firstF i hk0
  have hnwAll : ∀ (i : Nat) (y : Expr), (st.prog ++ [NodeDef.eff x])[i]? = some (NodeDef.eff y) → y.noWrite = true := by
    intro i y hy
    rcases Nat.lt_or_ge i st.prog.length with hl | hl
    · rw [List.getElem?_append_left hl] at hy; exact h.nwAll i y hy
    · rcases Nat.lt_or_ge st.prog.length i with hl2 | hl2
      · rw [List.getElem?_eq_none (by simp; omega)] at hy; cases hy
      · have : i = st.prog.length := by omega
        subst this
        simp at hy
        rw [← hy]; exact hnw
  refine ⟨rfl, rfl, ⟨htop.congrD hdead, hwf, htr, ?_, ?_, hfirstF, hnwAll⟩, ⟨⟨[.eff x], rfl⟩, fun _ hf => hf.elim, ?_, fun _ h => h⟩,
    hkindE, ?_, ?_, ?_, rfl, rfl, rfl, rfl, rfl, rfl⟩
  · show K ≤ (st.prog ++ [NodeDef.eff x]).length
    have := h.kle; simp; omega
  · intro i hi
    obtain ⟨d, hd, hne⟩ := h.defs i hi
    refine ⟨d, ?_, hne⟩
    show (st.prog ++ [NodeDef.eff x])[i]? = some d
    rw [List.getElem?_append_left (by have := h.kle; omega)]; exact hd
  · intro i hi hk _
    exact hold i hi hk
  · show ((newEff st x).2.2.rs.get st.prog.length).alive = true
    rw [hrs, hlifeE.1]; rfl
  · show ((newEff st x).2.2.rs.get st.prog.length).done = false
    rw [hrs, hlifeE.2.1]; rfl
  · show ((newEff st x).2.2.rs.get st.prog.length).first = false
    rw [hrs, hlifeE.2.2.1]

theorem newEffM_spec {K : Nat} {st : St} (h : RM K st) {x : Expr} (hs : sigOnly K x = true) :
    NewEffM K st x (newEff st x).1 (newEff st x).2.1 (newEff st x).2.2 :=
  newEffM_spec' h (h.wf_eff hs).1 (h.wf_eff hs).2 (by simp only [sigOnly, Bool.and_eq_true] at hs; exact hs.1.2)

theorem NewEffM.em' {K : Nat} {A : Nat → Prop} {st st1 st2 : St} {x : Expr} {e : Nat} {v : Int} {cur : Int → Prop}
    (hn : NewEffM K st x e v st1) (hk : K ≤ st.prog.length) (hnw : x.noWrite = true)
    (hx : ExtM K A st1 st2) (ha : ¬ A e) (ht : e ∈ st2.tasks) (hc : cur v) : EM K st2 e x cur := by
  have hlt1 : e < st1.prog.length := by rw [hn.prog, hn.he]; simp
  have hk1 := hx.keep e hlt1 hn.kind ha
  simp only [stab, Prod.mk.injEq] at hk1
  refine ⟨by rw [hn.he]; exact hk, by have := hx.len_le; omega, ?_, hnw, by rw [hk1.1]; exact hn.kind,
    by rw [hk1.2.2.1]; exact hn.alive, by rw [hk1.2.2.2.1]; exact hn.done, by rw [hk1.2.2.2.2.1]; exact hn.first,
    ht, by rw [hk1.2.1, hn.val]; exact hc⟩
  rw [hx.prog_get hlt1, hn.prog, hn.he]; simp

/-! ## dropping effects -/

theorem dropEffM {K : Nat} {st : St} (h : RM K st) (e : Nat) (held : Option RState)
    (hk : (st.rs.get e).kind = .eff) : RM K (dropEff st e held) := by
  have hd := h.top.dispose e hk
  obtain ⟨_, _, hget⟩ := dispose_get st.prog st.rs e
  refine ⟨hd.congrD (fun i => ?_), h.wf, h.tr, h.kle, h.defs, ?_, h.nwAll⟩
  rotate_left
  · intro i hki
    show ((Reactive.step st.prog st.rs (.dispose e)).1.get i).first = false
    have hki' : ((Reactive.step st.prog st.rs (.dispose e)).1.get i).kind = .eff := hki
    rw [hget i] at hki' ⊢
    split at hki'
    · split
      · exact h.firstF i hki'
      · exact h.firstF i hki'
    · rw [if_neg (by assumption)]; exact h.firstF i hki'
  show (DeadE st.rs i ∨ i = e) ↔ DeadE (Reactive.step st.prog st.rs (.dispose e)).1 i
  rw [DeadE, DeadE, hget i]
  by_cases hie : i = e
  · subst hie
    by_cases ha : (st.rs.get i).alive = true
    · simp [hk, ha]
    · have ha' : (st.rs.get i).alive = false := by simpa using ha
      simp [hk, ha']
  · simp [hie]

theorem dropAllM {K : Nat} : ∀ (l : List (Nat × Option RState)) {st : St}, RM K st →
    (∀ z ∈ l, (st.rs.get z.1).kind = .eff) → RM K (dropAll st l)
  | [], st, h, _ => by simpa [dropAll] using h
  | z :: rest, st, h, hk => by
    have e1 : dropAll st (z :: rest) = dropAll (dropEff st z.1 z.2) rest := by
      simp [dropAll, List.foldl_cons]
    rw [e1]
    refine dropAllM rest (dropEffM h z.1 z.2 (hk z (by simp))) ?_
    intro y hy
    rw [dropEff_get]
    split
    · rw [killed_kind]; exact hk y (by simp [hy])
    · exact hk y (by simp [hy])

/-- what dropping does to the effects: those dropped are dead, the others keep their stable part -/
theorem Dropped.extM {K : Nat} {l : List (Nat × Option RState)} {s s' : St} (d : Dropped l s s')
    (hK : ∀ x ∈ l.map (·.1), K ≤ x) : ExtM K (fun x => x ∈ l.map (·.1)) s s' :=
  ⟨⟨[], by rw [d.prog]; simp⟩, hK, fun i _ _ ha => by rw [d.get i, if_neg ha], fun e he => by rw [d.tasks]; exact he⟩

theorem Dropped.dead {l : List (Nat × Option RState)} {s s' : St} (d : Dropped l s s') {x : Nat}
    (hx : x ∈ l.map (·.1)) (hk : (s.rs.get x).kind = .eff) : (s'.rs.get x).alive = false := by
  rw [d.get x, if_pos hx]
  unfold killed
  split
  · rfl
  · next hn =>
    cases ha : (s.rs.get x).alive with
    | false => rfl
    | true => exact absurd ⟨hk, ha⟩ hn

/-! ## writing a signal, creating a memo -/

theorem setSigM {K : Nat} {st : St} (h : RM K st) (id : Nat) (v : Int) :
    RM K (setSig st id v) ∧ ExtM K (fun _ => False) st (setSig st id v) := by
  unfold setSig
  simp only [Reactive.step]
  cases hp : st.prog[id]? with
  | none =>
    exact ⟨h.of_rs_prog rfl rfl, ExtM.refl K _ (fun _ hf => hf.elim) st⟩
  | some d =>
    cases d with
    | memo b => exact ⟨h.of_rs_prog rfl rfl, ExtM.refl K _ (fun _ hf => hf.elim) st⟩
    | eff b => exact ⟨h.of_rs_prog rfl rfl, ExtM.refl K _ (fun _ hf => hf.elim) st⟩
    | sig v0 =>
      simp only
      have hkid : (st.rs.get id).kind ≠ .eff := by
        rw [h.top.quiet.inv.kind id _ hp]; simp [kindOf]
      have hsk := setSignal_sk (X := fun _ => False) (fuelFor st.prog) st.rs id v hkid
      have hdead : ∀ i, DeadE st.rs i ↔ DeadE (setSignal (fuelFor st.prog) st.rs id v) i := by
        intro i
        by_cases hk : (st.rs.get i).kind = .eff
        · have := hsk.eff i hk (fun hf => hf)
          simp only [stab, Prod.mk.injEq] at this
          simp only [DeadE, this.1, this.2.2.1]
        · have hk' : ((setSignal (fuelFor st.prog) st.rs id v).get i).kind ≠ .eff := by rw [hsk.kind]; exact hk
          exact ⟨fun hd => absurd hd.1 hk, fun hd => absurd hd.1 hk'⟩
      have hff : ∀ i, ((setSignal (fuelFor st.prog) st.rs id v).get i).kind = .eff →
          ((setSignal (fuelFor st.prog) st.rs id v).get i).first = false := by
        intro i hk
        have hk0 : (st.rs.get i).kind = .eff := by rw [← hsk.kind]; exact hk
        have := hsk.eff i hk0 (fun hf => hf)
        simp only [stab, Prod.mk.injEq] at this
        rw [this.2.2.2.2.1]; exact h.firstF i hk0
      exact ⟨⟨(h.top.set hp v).congrD hdead, h.wf, h.tr, h.kle, h.defs, hff, h.nwAll⟩,
        ExtM.of_sk (fun _ hf => hf.elim) rfl hsk (fun _ he => he)⟩

theorem NewEffM.em {K : Nat} {st st1 st2 : St} {x : Expr} {e : Nat} {v : Int} {cur : Int → Prop}
    (hn : NewEffM K st x e v st1) (hk : K ≤ st.prog.length) (hnw : x.noWrite = true)
    (hx : ExtM K (fun _ => False) st1 st2) (ht : e ∈ st2.tasks) (hc : cur v) : EM K st2 e x cur :=
  hn.em' hk hnw hx (fun hf => hf) ht hc

end Leptos.RView
