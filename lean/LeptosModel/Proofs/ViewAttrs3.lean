import LeptosModel.Proofs.ViewItems
/-! # Proofs/ViewAttrs3 — stage 2b: attribute lists whose items have pairwise disjoint footprints
(named keys, `class` as a whole or per token, `style` as a whole or per property) build and rebuild
to the cells of a fresh render (`AttrsSim`) -/
namespace Leptos.View
open Leptos.Dom

/-- the part of the element an item writes -/
inductive Foot where
  | named (k : String)
  | clsAll
  | clsTok (t : String)
  | styAll
  | styProp (n : String)
  deriving DecidableEq, Repr

def foot : AttrVal → Foot
  | .str n _ => .named n
  | .ostr n _ => .named n
  | .bool n _ => .named n
  | .cls _ => .clsAll
  | .ocls _ => .clsAll
  | .tcls n _ => .clsTok n
  | .sty _ => .styAll
  | .psty n _ => .styProp (normProp n)
  | .opsty n _ => .styProp (normProp n)

def Foot.overlap : Foot → Foot → Bool
  | .named a, .named b => a == b
  | .clsAll, .clsAll => true
  | .clsAll, .clsTok _ => true
  | .clsTok _, .clsAll => true
  | .clsTok a, .clsTok b => a == b
  | .styAll, .styAll => true
  | .styAll, .styProp _ => true
  | .styProp _, .styAll => true
  | .styProp a, .styProp b => a == b
  | _, _ => false

theorem owns_overlap (a b : AttrVal) (c : Cell) (ha : owns a c = true) (hb : owns b c = true) :
    (foot a).overlap (foot b) = true := by
  cases a <;> cases b <;> cases c <;> simp_all [owns, foot, Foot.overlap]

def ownsAny (l : List AttrVal) (c : Cell) : Bool := l.any (fun a => owns a c)

/-- the value of the first owner -/
def firstVal : List AttrVal → Cell → Option String
  | [], _ => none
  | a :: as, c => if owns a c then wval a c else firstVal as c

/-- no item of `l` overlaps `a` -/
def clearOf (a : AttrVal) (l : List AttrVal) : Bool := l.all (fun x => !(foot a).overlap (foot x))

/-- pairwise disjoint footprints across positions, old and new values together (decidable) -/
def disjB : List AttrVal → List AttrVal → Bool
  | a :: as, b :: bs => clearOf a as && clearOf a bs && clearOf b as && clearOf b bs && disjB as bs
  | _, _ => true

theorem clearOf_not_owns (a : AttrVal) (l : List AttrVal) (c : Cell) (h : clearOf a l = true)
    (ha : owns a c = true) : ownsAny l c = false := by
  simp only [ownsAny, List.any_eq_false]
  intro x hx hox
  simp only [clearOf, List.all_eq_true] at h
  have := h x hx
  simp [owns_overlap a x c ha (by simpa using hox)] at this

theorem ownsAny_cons (a : AttrVal) (l : List AttrVal) (c : Cell) :
    ownsAny (a :: l) c = (owns a c || ownsAny l c) := by simp [ownsAny]

theorem firstVal_none (l : List AttrVal) (c : Cell) (h : ownsAny l c = false) : firstVal l c = none := by
  induction l with
  | nil => rfl
  | cons a l ih =>
    simp only [ownsAny_cons, Bool.or_eq_false_iff] at h
    simp [firstVal, h.1, ih h.2]

def allOk (l : List AttrVal) : Bool := l.all itemOk

theorem cellVal_nil (c : Cell) : cellVal [] c = none := by
  cases c <;> simp [cellVal, getA, clsOf, styOf, classTokens_empty, styleDecls_empty]

/-- the cells a fresh build of `as` writes -/
def cellsOf (as : List AttrVal) (c : Cell) : Option String :=
  if ownsAny as c then firstVal as c else none

theorem buildAttrs_cells (as : List AttrVal) : ∀ (d : Dom) (el : Id) (r : NodeRec),
    d.get? el = some r → r.kind.isElem = true → allOk as = true → disjB as as = true →
    (∀ c, ownsAny as c = true → cellVal r.attrs c = none) →
    StepRes d (buildAttrs el as d).1 el r
      (fun c => if ownsAny as c then firstVal as c else cellVal r.attrs c) ∧
    (buildAttrs el as d).2 = as.map AttrVal.initState := by
  induction as with
  | nil =>
    intro d el r hg _ _ _ _
    exact ⟨(StepRes.id hg).congr (fun c => by simp [ownsAny]), rfl⟩
  | cons a as ih =>
    intro d el r hg hk hok hdj hempty
    simp only [allOk, List.all_cons, Bool.and_eq_true] at hok
    simp only [disjB, Bool.and_eq_true] at hdj
    obtain ⟨s1, hs1⟩ := buildAttr_cells a d el r hg hk hok.1
      (fun c hc => hempty c (by simp [ownsAny_cons, hc]))
    obtain ⟨r1, hg1, hk1, hc1⟩ := s1.rec hk
    have hclear := hdj.1.1.1.1
    have hempty1 : ∀ c, ownsAny as c = true → cellVal r1.attrs c = none := by
      intro c hc
      have hna : owns a c = false := by
        cases h : owns a c with
        | false => rfl
        | true => rw [clearOf_not_owns a as c hclear h] at hc; cases hc
      rw [hc1 c]; simp only [hna, Bool.false_eq_true, if_false]
      exact hempty c (by simp [ownsAny_cons, hc])
    obtain ⟨s2, hs2⟩ := ih (buildAttr el d a).1 el r1 hg1 hk1 (by simpa [allOk] using hok.2) hdj.2 hempty1
    have hb : buildAttrs el (a :: as) d =
        ((buildAttrs el as (buildAttr el d a).1).1,
          (buildAttr el d a).2 :: (buildAttrs el as (buildAttr el d a).1).2) := rfl
    rw [hb]
    refine ⟨(s1.comp hg1 s2).congr (fun c => ?_), by simp [hs1, hs2]⟩
    simp only [ownsAny_cons, firstVal]
    by_cases ha : owns a c = true
    · have := clearOf_not_owns a as c hclear ha
      simp [ha, this, hc1 c]
    · simp [ha, hc1 c]

theorem cellVal_renderAttrs (as : List AttrVal) (hok : allOk as = true) (hdj : disjB as as = true)
    (c : Cell) : cellVal (renderAttrs as) c = cellsOf as c := by
  have hg : (({} : Dom).createElement "x").1.get? 0 = some { kind := .elem "x", data := "" } := by
    simp [Dom.createElement, Dom.get?_create]
  obtain ⟨⟨⟨r', h1, _, h3⟩, _, _⟩, _⟩ := buildAttrs_cells as (({} : Dom).createElement "x").1 0 _ hg rfl hok hdj
    (fun c _ => cellVal_nil c)
  simp only [renderAttrs, Dom.attrsOf, h1]
  rw [h3 c]
  simp [cellsOf, cellVal_nil]

/-- stage 2b fragment for one attribute list (decidable): every item is covered, footprints are
pairwise disjoint -/
def ItemAttrs (as : List AttrVal) : Prop := allOk as = true ∧ disjB as as = true

instance (as : List AttrVal) : Decidable (ItemAttrs as) := by unfold ItemAttrs; infer_instance

theorem AttrsFresh_items (as : List AttrVal) (h : ItemAttrs as) : AttrsFresh AttrsSim as := by
  intro d el r hg hk hat
  obtain ⟨⟨⟨r', h1, h2, h3⟩, h4, h5⟩, h6⟩ := buildAttrs_cells as d el r hg hk h.1 h.2
    (fun c _ => by rw [hat]; exact cellVal_nil c)
  refine ⟨⟨r', h1, ?_, h2⟩, h4, h5, h6⟩
  intro c
  rw [h3 c, cellVal_renderAttrs as h.1 h.2 c, hat]
  simp [cellsOf, cellVal_nil]


theorem not_ownsAny_of_clear (a : AttrVal) (l : List AttrVal) (c : Cell) (h : clearOf a l = true)
    (hl : ownsAny l c = true) : owns a c = false := by
  cases ha : owns a c with
  | false => rfl
  | true => rw [clearOf_not_owns a l c h ha] at hl; cases hl

theorem rebuildAttrs_cells (as : List AttrVal) : ∀ (bs : List AttrVal) (er : Bool) (d : Dom) (el : Id)
    (r : NodeRec) (g : Cell → Option String),
    d.get? el = some r → r.kind.isElem = true → allOk as = true → allOk bs = true →
    as.map AttrVal.ty = bs.map AttrVal.ty → disjB as bs = true →
    (∀ c, cellVal r.attrs c = if ownsAny as c then firstVal as c else g c) →
    (∀ c, ownsAny bs c = true → ownsAny as c = false → g c = none) →
    StepRes d (rebuildAttrs er el bs (as.map AttrVal.initState) d).1 el r
      (fun c => if ownsAny bs c then firstVal bs c else if ownsAny as c then none else g c) ∧
    (rebuildAttrs er el bs (as.map AttrVal.initState) d).2 = bs.map AttrVal.initState := by
  induction as with
  | nil =>
    intro bs er d el r g hg _ _ _ hty _ hinv _
    cases bs with
    | cons _ _ => simp at hty
    | nil => exact ⟨(StepRes.id hg).congr (fun c => by simp [hinv c, ownsAny]), rfl⟩
  | cons a as ih =>
    intro bs er d el r g hg hk hoka hokb hty hdj hinv hg0
    cases bs with
    | nil => simp at hty
    | cons b bs =>
    simp only [List.map_cons, List.cons.injEq] at hty
    simp only [allOk, List.all_cons, Bool.and_eq_true] at hoka hokb
    simp only [disjB, Bool.and_eq_true] at hdj
    obtain ⟨⟨⟨⟨ca_as, ca_bs⟩, cb_as⟩, cb_bs⟩, hdj'⟩ := hdj
    -- the head item's step
    have hcur : ∀ c, owns a c = true → cellVal r.attrs c = wval a c := by
      intro c hc; rw [hinv c]; simp [ownsAny_cons, firstVal, hc]
    have hnew : ∀ c, owns b c = true → owns a c = false → cellVal r.attrs c = none := by
      intro c hb ha
      have h1 : ownsAny as c = false := clearOf_not_owns b as c cb_as hb
      rw [hinv c]
      simp only [ownsAny_cons, ha, h1, Bool.or_false, Bool.false_eq_true, if_false]
      exact hg0 c (by simp [ownsAny_cons, hb]) (by simp [ownsAny_cons, ha, h1])
    obtain ⟨s1, hs1⟩ := rebuildAttr_cells a b er d el r hg hk hty.1 hoka.1 hokb.1 hcur hnew
    obtain ⟨r1, hg1, hk1, hc1⟩ := s1.rec hk
    let g' : Cell → Option String := fun c =>
      if owns b c then wval b c else if owns a c then none else g c
    have hinv1 : ∀ c, cellVal r1.attrs c = if ownsAny as c then firstVal as c else g' c := by
      intro c
      rw [hc1 c]
      by_cases hoa : ownsAny as c = true
      · have h1 := not_ownsAny_of_clear a as c ca_as hoa
        have h2 := not_ownsAny_of_clear b as c cb_as hoa
        simp only [h1, h2, Bool.false_eq_true, if_false, hoa, if_true]
        rw [hinv c]; simp [ownsAny_cons, firstVal, h1, hoa]
      · simp only [hoa, if_false, g']
        by_cases hb : owns b c = true
        · simp [hb]
        · by_cases ha : owns a c = true
          · simp [hb, ha]
          · simp only [hb, ha, if_false]
            rw [hinv c]; simp [ownsAny_cons, ha, hoa]
    have hg1' : ∀ c, ownsAny bs c = true → ownsAny as c = false → g' c = none := by
      intro c hob hoa
      have h1 := not_ownsAny_of_clear a bs c ca_bs hob
      have h2 := not_ownsAny_of_clear b bs c cb_bs hob
      simp only [g', h1, h2, Bool.false_eq_true, if_false]
      exact hg0 c (by simp [ownsAny_cons, hob]) (by simp [ownsAny_cons, h1, hoa])
    obtain ⟨s2, hs2⟩ := ih bs er (rebuildAttr er el d b a.initState).1 el r1 g' hg1 hk1
      (by simpa [allOk] using hoka.2) (by simpa [allOk] using hokb.2) hty.2 hdj' hinv1 hg1'
    have hrb : rebuildAttrs er el (b :: bs) (List.map AttrVal.initState (a :: as)) d =
        ((rebuildAttrs er el bs (as.map AttrVal.initState) (rebuildAttr er el d b a.initState).1).1,
          (rebuildAttr er el d b a.initState).2 ::
            (rebuildAttrs er el bs (as.map AttrVal.initState) (rebuildAttr er el d b a.initState).1).2) := rfl
    rw [hrb]
    refine ⟨(s1.comp hg1 s2).congr (fun c => ?_), by simp [hs1, hs2]⟩
    simp only [ownsAny_cons, firstVal, g']
    by_cases hob : ownsAny bs c = true
    · have h2 := not_ownsAny_of_clear b bs c cb_bs hob
      simp [hob, h2]
    · by_cases hb : owns b c = true
      · have h3 := clearOf_not_owns b as c cb_as hb
        simp [hob, hb, h3]
      · by_cases hoa : ownsAny as c = true
        · simp [hob, hb, hoa]
        · by_cases ha : owns a c = true
          · simp [hob, hb, hoa, ha]
          · simp [hob, hb, hoa, ha]

/-- stage 2b condition on a rebuild `as ↦ bs` of one element (decidable): both lists are covered,
and the footprints of different positions are disjoint, old and new values together (this is where
`class-overwrite`, `style-overwrite` and `dup-item` — also across a rename — are excluded) -/
def ItemPair (as bs : List AttrVal) : Prop :=
  allOk as = true ∧ allOk bs = true ∧ as.map AttrVal.ty = bs.map AttrVal.ty ∧ disjB as bs = true ∧
  disjB as as = true ∧ disjB bs bs = true

instance (as bs : List AttrVal) : Decidable (ItemPair as bs) := by unfold ItemPair; infer_instance

theorem AttrsRebuild_items (as bs : List AttrVal) (h : ItemPair as bs) : AttrsRebuild AttrsSim as bs := by
  obtain ⟨hoa, hob, hty, hdj, hda, hdb⟩ := h
  intro er d el r hg hk hat
  have hinv : ∀ c, cellVal r.attrs c = if ownsAny as c then firstVal as c else none := by
    intro c; rw [hat c, cellVal_renderAttrs as hoa hda c]; rfl
  obtain ⟨⟨⟨r', h1, h2, h3⟩, h4, h5⟩, h6⟩ :=
    rebuildAttrs_cells as bs er d el r (fun _ => none) hg hk hoa hob hty hdj hinv (fun _ _ _ => rfl)
  refine ⟨⟨r', h1, ?_, h2⟩, h4, h5, h6⟩
  intro c
  rw [h3 c, cellVal_renderAttrs bs hob hdb c]
  simp only [cellsOf]
  by_cases hb : ownsAny bs c = true
  · simp [hb]
  · simp [hb]

end Leptos.View
