import LeptosModel.Proofs.ReactiveEff
import LeptosModel.Proofs.ReactiveTop
/-!
# Proofs/ReactiveTopEff — reads return from-scratch values, programs with effects
-/
namespace Leptos.Reactive

theorem Quiet.emit {p : Prog} {s : State} (h : Quiet p s) (ev : Ev) : Quiet p (s.emit ev) :=
  ⟨h.inv.reobs rfl (fun o ho => h.inv.obsRun o ho), h.idle⟩

theorem init_quiet (p : Prog) : Quiet p (initState p) :=
  ⟨(init_topInv p).inv, (init_topInv p).idle⟩

/-- a read of node `m` from a quiescent state -/
theorem read_specE {p : Prog} (hwf : WF p = true) (hp : MemoOK p) {s : State}
    (h : Quiet p s) (m : Nat) :
    Quiet p (readNode (upd p (fuelFor p)) s m).1 ∧
    (MemoTracked p → m < p.length → (s.get m).kind ≠ .eff →
      (readNode (upd p (fuelFor p)) s m).2 = specVal p s m) := by
  have htrack : track s m = s := by unfold track; rw [h.obs]
  unfold readNode
  rw [htrack]
  simp only
  cases hk : (s.get m).kind with
  | eff => exact ⟨h, fun _ _ hne => absurd rfl hne⟩
  | sig =>
    simp only
    refine ⟨h, fun htr hm _ => ?_⟩
    have hc := (h.inv.sigOk m hm hk).1
    rw [h.inv.clean_correct hwf htr m hm (by rw [hk]; simp) hc]; rfl
  | memo =>
    simp only
    have hm : m < p.length := h.inv.memo_lt hk
    have post := upd_ok hp (fuelFor p) s m h.inv (by simp only [fuelFor]; omega) (h.idle m)
      (fun r hr => by rw [h.idle r] at hr; cases hr)
    generalize upd p (fuelFor p) s m = r at post
    obtain ⟨s', ch⟩ := r
    simp only at post ⊢
    refine ⟨⟨post.inv, fun i => (post.running i).trans (h.idle i)⟩, fun htr _ _ => ?_⟩
    have hc := post.clean hk
    rw [post.inv.clean_correct hwf htr m hm (by rw [post.frame.kind, hk]; simp) hc]
    show specVal p s' m = specVal p s m
    apply specVal_congr
    intro i v hi
    have hki : (s.get i).kind = .sig := h.inv.kind i _ hi
    have hil : i < p.length := by
      rcases Nat.lt_or_ge i p.length with h' | h'
      · exact h'
      · rw [List.getElem?_eq_none h'] at hi; cases hi
    exact (post.frame.clean i (h.inv.sigOk i hil hki).1).2

theorem step_quiet {p : Prog} (hwf : WF p = true) (hp : MemoOK p) (hpe : EffOK p) {s : State}
    (h : Quiet p s) (o : Op) : Quiet p (step p s o).1 := by
  cases o with
  | set id v =>
    simp only [step]
    split
    · next v0 hx =>
      have hf : s.nodes.length ≤ fuelFor p := by rw [h.inv.len]; simp [fuelFor]
      obtain ⟨hi, sp⟩ := setSignal_inv h.inv hx v hf
      exact ⟨hi, fun i => (sp.running i).trans (h.idle i)⟩
    · exact h
  | read id => exact (read_specE hwf hp h id).1
  | poll i => exact pollNth_spec hp hpe h i
  | idle => exact runIdle_spec hp hpe 256 s h
  | pause e =>
    simp only [step]
    split
    · next hk =>
      exact (h.flagEff (by simpa using hk) (fun n => { n with paused := true })
        (fun _ => ⟨rfl, rfl, rfl, rfl, rfl, rfl⟩)).1
    · exact h
  | resume e =>
    simp only [step]
    split
    · next hk =>
      exact (h.flagEff (by simpa using hk) (fun n => { n with paused := false })
        (fun _ => ⟨rfl, rfl, rfl, rfl, rfl, rfl⟩)).1
    · exact h
  | dispose e =>
    simp only [step]
    split
    · next hk =>
      simp only [Bool.and_eq_true, beq_iff_eq] at hk
      have q := (h.flagEff hk.1 (fun n => { n with alive := false, woken := true })
        (fun _ => ⟨rfl, rfl, rfl, rfl, rfl, rfl⟩)).1
      split
      · exact q.emit _
      · exact q
    · exact h

theorem run_quiet {p : Prog} (hwf : WF p = true) (hp : MemoOK p) (hpe : EffOK p)
    (ops : List Op) : Quiet p (run p ops) := by
  unfold run
  suffices ∀ s, Quiet p s → Quiet p (ops.foldl (fun s o => (step p s o).1) s) from
    this _ (init_quiet p)
  induction ops with
  | nil => intro s h; exact h
  | cons o ops ih => intro s h; exact ih _ (step_quiet hwf hp hpe h o)

theorem effOK_of_wf {p : Prog} (hwf : WF p = true) (ht : bodiesTracked p = true) : EffOK p := by
  intro e b hb
  have hw := WF_get hwf hb
  simp only [wfNode, Bool.and_eq_true] at hw
  have hmem : NodeDef.eff b ∈ p := List.mem_of_getElem? hb
  simp only [bodiesTracked, List.all_eq_true] at ht
  exact ⟨hw.1, ht _ hmem, hw.2⟩

/-- **C01**: every read of a signal or memo returns the from-scratch value -/
theorem read_eq_scratch {p : Prog} (hwf : WF p = true) (ht : bodiesTracked p = true)
    (ops : List Op) (m : Nat) (hm : m < p.length) (hd : (match p[m]? with | some (.eff _) => false | _ => true) = true) :
    (step p (run p ops) (.read m)).2 = some (specVal p (run p ops) m) := by
  have h := run_quiet hwf (memoOK_of_wf hwf) (effOK_of_wf hwf ht) ops
  simp only [step]
  have hk : ((run p ops).get m).kind ≠ .eff := by
    have hpm : p[m]? = some p[m] := List.getElem?_eq_getElem hm
    rw [h.inv.kind m _ hpm]
    rw [hpm] at hd
    cases hp : p[m] <;> simp_all [kindOf]
  rw [(read_specE hwf (memoOK_of_wf hwf) h m).2 (memoTracked_of ht) hm hk]

end Leptos.Reactive
