import LeptosModel.Model.Stream
namespace Leptos.Stream

def Chunk.doc : Chunk → Str
  | .sync s => s
  | .async p => docOps p.body
  | .ooo _ => []

def chunksDoc : List Chunk → Str
  | [] => []
  | c :: cs => c.doc ++ chunksDoc cs

mutual
def inOrdOp : Op → Bool
  | .sync _ => true
  | .async _ body => inOrdOps body
  | .fallback _ => false
  | .ooo _ _ _ _ => false
  | .nextId => true
  | .sub body => inOrdOps body
  | .ite _ t e => inOrdOps t && inOrdOps e && decide (docOps t = docOps e)
  | .finish => false
def inOrdOps : List Op → Bool
  | [] => true
  | o :: os => inOrdOp o && inOrdOps os
end

def Chunk.inOrd : Chunk → Bool
  | .sync _ => true
  | .async p => inOrdOps p.body
  | .ooo _ => false

def Builder.bdoc (b : Builder) : Str := chunksDoc b.chunks ++ b.syncBuf

theorem chunksDoc_append (a b : List Chunk) : chunksDoc (a ++ b) = chunksDoc a ++ chunksDoc b := by
  induction a with
  | nil => rfl
  | cons c cs ih => simp [chunksDoc, ih]

theorem chunksDoc_flushed (b : Builder) : chunksDoc b.flushed = b.bdoc := by
  unfold Builder.flushed Builder.bdoc
  split
  · rename_i h; simp at h; simp [h]
  · simp [chunksDoc_append, chunksDoc, Chunk.doc]

theorem chunksDoc_allOoo (cs : List Chunk) (h : cs.any (fun c => !c.isOoo) = false) : chunksDoc cs = [] := by
  induction cs with
  | nil => rfl
  | cons c cs ih =>
    simp only [List.any_cons, Bool.or_eq_false_iff] at h
    cases c <;> simp_all [Chunk.isOoo, chunksDoc, Chunk.doc]

/-- the repaired `append` keeps the document order (fix-c07-2) -/
theorem append_bdoc (b o : Builder) : (b.append o).bdoc = b.bdoc ++ o.bdoc := by
  unfold Builder.append
  by_cases h : o.chunks.any (fun c => !c.isOoo) = true
  · simp only [h, if_true, Builder.bdoc, chunksDoc_append, List.nil_append]
    have := chunksDoc_flushed b
    simp only [Builder.bdoc] at this
    rw [this]; simp
  · have h' : o.chunks.any (fun c => !c.isOoo) = false := by simpa using h
    simp only [h', Bool.false_eq_true, if_false, Builder.bdoc, chunksDoc_append, chunksDoc_allOoo _ h']
    simp

theorem append_chunks_mem (b o : Builder) (c : Chunk) (h : c ∈ (b.append o).chunks) :
    c ∈ b.chunks ∨ c = Chunk.sync b.syncBuf ∨ c ∈ o.chunks := by
  unfold Builder.append at h
  by_cases ha : o.chunks.any (fun c => !c.isOoo) = true
  · simp only [ha, if_true, List.mem_append] at h
    rcases h with h | h
    · unfold Builder.flushed at h
      split at h
      · exact Or.inl h
      · rcases List.mem_append.1 h with h | h
        · exact Or.inl h
        · exact Or.inr (Or.inl (by simpa using h))
    · exact Or.inr (Or.inr h)
  · have h' : o.chunks.any (fun c => !c.isOoo) = false := by simpa using ha
    simp only [h', Bool.false_eq_true, if_false, List.mem_append] at h
    rcases h with h | h
    · exact Or.inl h
    · exact Or.inr (Or.inr h)

theorem append_fields (b o : Builder) :
    (b.append o).pending = b.pending ∧ (b.append o).pendingOoo = b.pendingOoo := by
  unfold Builder.append; split <;> simp

theorem exec_bdoc (env : Env) : ∀ (n : Nat) (ops : List Op) (b : Builder), opsSize ops ≤ n → inOrdOps ops = true →
    (execOps env ops b).bdoc = b.bdoc ++ docOps ops ∧
    ((∀ c ∈ b.chunks, c.inOrd = true) → ∀ c ∈ (execOps env ops b).chunks, c.inOrd = true) := by
  intro n
  induction n with
  | zero =>
    intro ops b h _
    cases ops with
    | nil => simp [execOps, docOps]
    | cons o os => cases o <;> simp [opsSize, opSize] at h
  | succ n ih =>
    intro ops b h hok
    cases ops with
    | nil => simp [execOps, docOps]
    | cons o os =>
      simp only [inOrdOps, Bool.and_eq_true] at hok
      obtain ⟨ho, hos⟩ := hok
      simp only [opsSize] at h
      cases o with
      | sync s =>
        simp only [opSize] at h
        have := ih os (b.pushSync s) (by omega) hos
        simp only [execOps, execOp, docOps, docOp]
        refine ⟨?_, ?_⟩
        · rw [this.1]; simp [Builder.bdoc, Builder.pushSync]
        · intro hc; exact this.2 (by simpa [Builder.pushSync] using hc)
      | async fut body =>
        simp only [opSize] at h
        simp only [inOrdOp] at ho
        simp only [execOps, execOp, docOps, docOp]
        have := ih os (b.pushAsync { fut := fut, born := env.now, id := b.id, body := body }) (by omega) hos
        refine ⟨?_, ?_⟩
        · rw [this.1]
          simp [Builder.bdoc, Builder.pushAsync, chunksDoc_append, chunksDoc, Chunk.doc]
          have := chunksDoc_flushed b
          simp [Builder.bdoc] at this
          rw [this]; simp
        · intro hc
          apply this.2
          intro c hcm
          simp only [Builder.pushAsync, List.mem_append, List.mem_singleton] at hcm
          rcases hcm with hcm | hcm
          · unfold Builder.flushed at hcm
            split at hcm
            · exact hc c hcm
            · simp only [List.mem_append, List.mem_singleton] at hcm
              rcases hcm with hcm | hcm
              · exact hc c hcm
              · subst hcm; rfl
          · subst hcm; simpa [Chunk.inOrd] using ho
      | fallback s => simp [inOrdOp] at ho
      | ooo fut r body nonce => simp [inOrdOp] at ho
      | nextId =>
        simp only [opSize] at h
        have := ih os b.nextId (by omega) hos
        simp only [execOps, execOp, docOps, docOp]
        refine ⟨?_, ?_⟩
        · rw [this.1]; simp [Builder.bdoc, Builder.nextId]
        · intro hc; exact this.2 (by simpa [Builder.nextId] using hc)
      | sub body =>
        simp only [opSize] at h
        simp only [inOrdOp] at ho
        simp only [execOps, execOp, docOps, docOp]
        have h1 := ih body (Builder.new b.id) (by omega) ho
        have h2 := ih os (b.append (execOps env body (Builder.new b.id))) (by omega) hos
        refine ⟨?_, ?_⟩
        · rw [h2.1, append_bdoc, h1.1]; simp [Builder.bdoc, Builder.new, chunksDoc]
        · intro hc
          apply h2.2
          intro c hcm
          rcases append_chunks_mem _ _ c hcm with hcm | hcm | hcm
          · exact hc c hcm
          · subst hcm; rfl
          · exact h1.2 (by simp [Builder.new]) c hcm
      | ite fut t e =>
        simp only [opSize] at h
        simp only [inOrdOp, Bool.and_eq_true, decide_eq_true_eq] at ho
        obtain ⟨⟨ht, he⟩, hte⟩ := ho
        simp only [execOps, execOp, docOps, docOp]
        split
        · have h1 := ih t b (by omega) ht
          have h2 := ih os (execOps env t b) (by omega) hos
          refine ⟨?_, ?_⟩
          · rw [h2.1, h1.1]; simp
          · intro hc; exact h2.2 (h1.2 hc)
        · have h1 := ih e b (by omega) he
          have h2 := ih os (execOps env e b) (by omega) hos
          refine ⟨?_, ?_⟩
          · rw [h2.1, h1.1, hte]; simp
          · intro hc; exact h2.2 (h1.2 hc)
      | finish => simp [inOrdOp] at ho


/-! ### `finish`, `take_chunks`, the resolved in-order future -/

theorem chunksDoc_finishChunks (cs : List Chunk) (rest : Str) :
    chunksDoc (Builder.finishChunks cs rest) = chunksDoc cs ++ rest := by
  fun_induction Builder.finishChunks cs rest <;> simp_all [chunksDoc, Chunk.doc]

theorem inOrd_finishChunks (cs : List Chunk) (rest : Str) (h : ∀ c ∈ cs, c.inOrd = true) :
    ∀ c ∈ Builder.finishChunks cs rest, c.inOrd = true := by
  fun_induction Builder.finishChunks cs rest <;> simp_all [Chunk.inOrd]

theorem finish_takeChunks_doc (b : Builder) : chunksDoc b.finish.takeChunks = b.bdoc := by
  unfold Builder.finish Builder.takeChunks
  split
  · rename_i h; simp at h; simp [Builder.flushed, Builder.bdoc, h]
  · simp [Builder.flushed, Builder.bdoc, chunksDoc_finishChunks]

theorem finish_takeChunks_inOrd (b : Builder) (h : ∀ c ∈ b.chunks, c.inOrd = true) :
    ∀ c ∈ b.finish.takeChunks, c.inOrd = true := by
  unfold Builder.finish Builder.takeChunks
  split
  · rename_i h'; simp at h'; simpa [Builder.flushed, h'] using h
  · simpa [Builder.flushed] using inOrd_finishChunks b.chunks b.syncBuf h

theorem resolveAsync_doc (env : Env) (p : PendAsync) (h : inOrdOps p.body = true) :
    chunksDoc (resolveAsync env p) = docOps p.body ∧ ∀ c ∈ resolveAsync env p, c.inOrd = true := by
  unfold resolveAsync
  have := exec_bdoc env _ p.body (Builder.new p.id) (Nat.le_refl _) h
  refine ⟨?_, ?_⟩
  · rw [finish_takeChunks_doc, this.1]; simp [Builder.bdoc, Builder.new, chunksDoc]
  · exact finish_takeChunks_inOrd _ (this.2 (by simp [Builder.new]))

theorem pushFrontAll_eq (xs d : List Chunk) : pushFrontAll xs d = xs ++ d := by
  unfold pushFrontAll
  induction xs generalizing d with
  | nil => rfl
  | cons x xs ih => simp [List.reverse_cons, List.foldl_append, ih]

/-! ### one step of `poll_next` on an in-order builder -/

def Builder.pdoc (b : Builder) : Str :=
  b.syncBuf ++ (match b.pending with | some p => docOps p.body | none => []) ++ chunksDoc b.chunks

structure IOk (b : Builder) : Prop where
  chunks : ∀ c ∈ b.chunks, c.inOrd = true
  pending : ∀ p, b.pending = some p → inOrdOps p.body = true
  noOoo : b.pendingOoo = []

def outStr : Poll → Str
  | .item s => s
  | _ => []

theorem coalesce_inOrd (buf : Str) (cs : List Chunk) (po : List PendOoo) (h : ∀ c ∈ cs, c.inOrd = true) :
    (coalesce buf cs po).1 ++ chunksDoc (coalesce buf cs po).2.1 = buf ++ chunksDoc cs ∧
    (coalesce buf cs po).2.2 = po ∧ (∀ c ∈ (coalesce buf cs po).2.1, c.inOrd = true) := by
  fun_induction coalesce buf cs po
  · simp [chunksDoc]
  · exact ⟨rfl, rfl, h⟩
  · rename_i p cs po
    have := h (Chunk.ooo p) (by simp)
    simp [Chunk.inOrd] at this
  · rename_i buf s cs po ih
    have := ih (fun c hc => h c (by simp [hc]))
    refine ⟨?_, this.2.1, this.2.2⟩
    simp [chunksDoc, Chunk.doc, this.1]

/-- what a step may do: return `o` with state `b'`, or continue with `b'` -/
def StepSpec (b : Builder) : Step → Prop
  | .ret o b' => IOk b' ∧ outStr o ++ b'.pdoc = b.pdoc ∧ o ≠ Poll.panic ∧ o ≠ Poll.stuck ∧ (o = Poll.done → b'.pdoc = [])
  | .cont b' => IOk b' ∧ b'.pdoc = b.pdoc

theorem pollStep_inOrd (env : Env) (b : Builder) (h : IOk b) : StepSpec b (pollStep env b) := by
  obtain ⟨hc, hp, ho⟩ := h
  unfold pollStep
  split
  · -- pending
    rename_i p hpend
    have hpb := hp p hpend
    split
    · have := resolveAsync_doc env p hpb
      refine ⟨⟨?_, ?_, ho⟩, ?_⟩
      · intro c hcm
        rw [pushFrontAll_eq] at hcm
        rcases List.mem_append.1 hcm with hcm | hcm
        · exact this.2 c hcm
        · exact hc c hcm
      · intro p' hp'; simp at hp'
      · simp [Builder.pdoc, pushFrontAll_eq, chunksDoc_append, this.1, hpend]
    · exact ⟨⟨hc, hp, ho⟩, by simp [outStr], by simp, by simp, by simp⟩
  · rename_i hpend
    split
    · rename_i hch
      rw [ho]
      simp only [yieldStep]
      split
      · rename_i hb
        simp at hb
        refine ⟨⟨hc, hp, ho⟩, by simp [outStr], by simp, by simp, ?_⟩
        intro _; simp [Builder.pdoc, hb, hpend, hch, chunksDoc]
      · refine ⟨⟨hc, by simpa using hp, ho⟩, ?_, by simp, by simp, by simp⟩
        simp [outStr, Builder.pdoc, hpend, hch, chunksDoc]
    · rename_i v cs hch
      have hcs : ∀ c ∈ cs, c.inOrd = true := fun c hcm => hc c (by simp [hch, hcm])
      have := coalesce_inOrd (b.syncBuf ++ v) cs b.pendingOoo hcs
      refine ⟨⟨this.2.2, by simpa using hp, by rw [this.2.1, ho]⟩, ?_⟩
      simp only [Builder.pdoc, hpend, hch, chunksDoc, Chunk.doc]
      simp only [List.append_nil, List.append_assoc] at this ⊢
      rw [this.1]
    · rename_i p cs hch
      have hcs : ∀ c ∈ cs, c.inOrd = true := fun c hcm => hc c (by simp [hch, hcm])
      have hpb : inOrdOps p.body = true := by
        have := hc (Chunk.async p) (by simp [hch]); simpa [Chunk.inOrd] using this
      dsimp only
      split
      · rename_i hb
        simp at hb
        refine ⟨⟨hcs, ?_, ho⟩, ?_⟩
        · intro p' hp'; simp at hp'; subst hp'; exact hpb
        · simp [Builder.pdoc, hb, hch, hpend, chunksDoc, Chunk.doc]
      · refine ⟨⟨hcs, ?_, ho⟩, ?_, by simp, by simp, by simp⟩
        · intro p' hp'; simp at hp'; subst hp'; exact hpb
        · simp [outStr, Builder.pdoc, hch, hpend, chunksDoc, Chunk.doc]
    · rename_i p cs hch
      have := hc (Chunk.ooo p) (by simp [hch])
      simp [Chunk.inOrd] at this

theorem pollNext_inOrd (env : Env) : ∀ (fuel : Nat) (b : Builder), IOk b →
    IOk (pollNext fuel env b).2 ∧ outStr (pollNext fuel env b).1 ++ (pollNext fuel env b).2.pdoc = b.pdoc ∧
    (pollNext fuel env b).1 ≠ Poll.panic ∧ ((pollNext fuel env b).1 = Poll.done → (pollNext fuel env b).2.pdoc = []) := by
  intro fuel
  induction fuel with
  | zero => intro b h; exact ⟨h, by simp [pollNext, outStr], by simp [pollNext], by simp [pollNext]⟩
  | succ n ih =>
    intro b h
    have hs := pollStep_inOrd env b h
    unfold pollNext
    split
    · rename_i o b' heq
      rw [heq] at hs
      exact ⟨hs.1, hs.2.1, hs.2.2.1, hs.2.2.2.2⟩
    · rename_i b' heq
      rw [heq] at hs
      have := ih b' hs.1
      rw [hs.2] at this
      exact this


theorem exec_fields (env : Env) : ∀ (n : Nat) (ops : List Op) (b : Builder), opsSize ops ≤ n →
    (execOps env ops b).pending = b.pending ∧ (execOps env ops b).pendingOoo = b.pendingOoo := by
  intro n
  induction n with
  | zero =>
    intro ops b h
    cases ops with
    | nil => simp [execOps]
    | cons o os => cases o <;> simp [opsSize, opSize] at h
  | succ n ih =>
    intro ops b h
    cases ops with
    | nil => simp [execOps]
    | cons o os =>
      simp only [opsSize] at h
      cases o <;> simp only [opSize] at h <;> simp only [execOps, execOp]
      · exact ih os _ (by omega)
      · exact ih os _ (by omega)
      · rename_i fb
        have := ih os (b.pushFallback fb) (by omega)
        have hw : ∀ (b : Builder) (o : Bool), (b.writeMarker o).pending = b.pending ∧ (b.writeMarker o).pendingOoo = b.pendingOoo := by
          intro b o; unfold Builder.writeMarker; split <;> simp
        simpa [Builder.pushFallback, hw] using this
      · exact ih os _ (by omega)
      · exact ih os _ (by omega)
      · rename_i body
        have := ih os (b.append (execOps env body (Builder.new b.id))) (by omega)
        have ha := append_fields b (execOps env body (Builder.new b.id))
        exact ⟨this.1.trans ha.1, this.2.trans ha.2⟩
      · rename_i fut t e
        split
        · have h1 := ih t b (by omega)
          have h2 := ih os (execOps env t b) (by omega)
          exact ⟨h2.1.trans h1.1, h2.2.trans h1.2⟩
        · have h1 := ih e b (by omega)
          have h2 := ih os (execOps env e b) (by omega)
          exact ⟨h2.1.trans h1.1, h2.2.trans h1.2⟩
      · have := ih os b.finish (by omega)
        have hf : b.finish.pending = b.pending ∧ b.finish.pendingOoo = b.pendingOoo := by
          unfold Builder.finish; split <;> simp
        exact ⟨this.1.trans hf.1, this.2.trans hf.2⟩

/-! ## fuel: every activation of `poll_next` consumes the measure `mu` (all programs) -/

def csum (cs : List Chunk) : Nat := (cs.map chunkSize).sum
def pendW (body : List Op) : Nat := 2 * opsSize body + 4
def posum (po : List PendOoo) : Nat := (po.map (fun p => pendW p.body)).sum

def Builder.mu (b : Builder) : Nat :=
  csum b.chunks + (match b.pending with | some p => pendW p.body | none => 0) + posum b.pendingOoo

theorem fuelFor_eq (b : Builder) : b.fuelFor = b.mu + 2 := by
  unfold Builder.fuelFor Builder.mu csum posum pendW
  cases b.pending <;> rfl

@[simp] theorem csum_nil : csum [] = 0 := rfl
@[simp] theorem csum_cons (c : Chunk) (cs : List Chunk) : csum (c :: cs) = chunkSize c + csum cs := by
  simp [csum]
@[simp] theorem csum_append (a b : List Chunk) : csum (a ++ b) = csum a + csum b := by
  simp [csum, List.sum_append]
@[simp] theorem posum_nil : posum [] = 0 := rfl
@[simp] theorem posum_cons (p : PendOoo) (po : List PendOoo) : posum (p :: po) = pendW p.body + posum po := by
  simp [posum]
@[simp] theorem posum_append (a b : List PendOoo) : posum (a ++ b) = posum a + posum b := by
  simp [posum, List.sum_append]

/-- potential of a builder under construction -/
def Builder.phi (b : Builder) : Nat := csum b.chunks + (if b.syncBuf.isEmpty then 0 else 2)

theorem csum_flushed (b : Builder) : csum b.flushed = b.phi := by
  unfold Builder.flushed Builder.phi
  split <;> simp [chunkSize]

theorem phi_writeMarker (b : Builder) (o : Bool) :
    (b.writeMarker o).chunks = b.chunks ∧ (b.writeMarker o).id = b.id := by
  unfold Builder.writeMarker; split <;> simp

theorem csum_finishChunks (cs : List Chunk) (rest : Str) : csum (Builder.finishChunks cs rest) ≤ csum cs + 2 := by
  fun_induction Builder.finishChunks cs rest <;> simp_all [chunkSize] <;> omega

theorem phi_finish (b : Builder) : b.finish.phi ≤ b.phi := by
  unfold Builder.finish
  split
  · exact Nat.le_refl _
  · rename_i h
    have := csum_finishChunks b.chunks b.syncBuf
    simp [Builder.phi, h]; omega

theorem exec_phi (env : Env) : ∀ (n : Nat) (ops : List Op) (b : Builder), opsSize ops ≤ n →
    (execOps env ops b).phi ≤ b.phi + 2 * opsSize ops := by
  intro n
  induction n with
  | zero =>
    intro ops b h
    cases ops with
    | nil => simp [execOps]
    | cons o os => cases o <;> simp [opsSize, opSize] at h
  | succ n ih =>
    intro ops b h
    cases ops with
    | nil => simp [execOps]
    | cons o os =>
      simp only [opsSize] at h
      cases o <;> simp only [opSize] at h <;> simp only [execOps, execOp, opsSize, opSize]
      · rename_i s'
        have := ih os (b.pushSync s') (by omega)
        have h2 : (b.pushSync s').phi ≤ b.phi + 2 := by
          unfold Builder.phi Builder.pushSync; dsimp only; split <;> split <;> omega
        omega
      · rename_i fut body
        have := ih os (b.pushAsync { fut := fut, born := env.now, id := b.id, body := body }) (by omega)
        have h2 : (b.pushAsync { fut := fut, born := env.now, id := b.id, body := body }).phi = b.phi + (2 * opsSize body + 5) := by
          unfold Builder.pushAsync
          simp [Builder.phi, csum_flushed, chunkSize]
        omega
      · rename_i fb
        have := ih os (b.pushFallback fb) (by omega)
        have h2 : (b.pushFallback fb).phi ≤ b.phi + 2 := by
          unfold Builder.pushFallback Builder.phi
          simp only [(phi_writeMarker _ _).1]
          split <;> split <;> omega
        omega
      · rename_i fut r body nonce
        have := ih os (b.pushOoo { fut := fut, born := env.now, id := b.id, replace := r, body := body, nonce := nonce }) (by omega)
        have h2 : (b.pushOoo { fut := fut, born := env.now, id := b.id, replace := r, body := body, nonce := nonce }).phi
            = b.phi + (2 * opsSize body + 5) := by
          unfold Builder.pushOoo Builder.phi
          simp [chunkSize]; omega
        omega
      · have := ih os b.nextId (by omega)
        have h2 : b.nextId.phi = b.phi := by simp [Builder.nextId, Builder.phi]
        omega
      · rename_i body
        have h1 := ih body (Builder.new b.id) (by omega)
        have := ih os (b.append (execOps env body (Builder.new b.id))) (by omega)
        have h0 : (Builder.new b.id).phi = 0 := by simp [Builder.new, Builder.phi]
        have h2 : ∀ o : Builder, (b.append o).phi ≤ b.phi + o.phi := by
          intro o; unfold Builder.append
          have hf := csum_flushed b
          by_cases ha : o.chunks.any (fun c => !c.isOoo) = true
          · simp only [ha, if_true, Builder.phi, csum_append, List.nil_append] at hf ⊢
            omega
          · have ha' : o.chunks.any (fun c => !c.isOoo) = false := by simpa using ha
            simp only [ha', Bool.false_eq_true, if_false, Builder.phi, csum_append]
            by_cases hb : b.syncBuf = [] <;> by_cases ho : o.syncBuf = [] <;> simp [hb, ho] <;> omega
        have := h2 (execOps env body (Builder.new b.id))
        omega
      · rename_i fut t e
        split
        · have h1 := ih t b (by omega)
          have h2 := ih os (execOps env t b) (by omega)
          omega
        · have h1 := ih e b (by omega)
          have h2 := ih os (execOps env e b) (by omega)
          omega
      · have := ih os b.finish (by omega)
        have h2 : b.finish.phi ≤ b.phi := phi_finish b
        omega

theorem csum_finish_take (b : Builder) : csum b.finish.takeChunks ≤ b.phi := by
  unfold Builder.finish Builder.takeChunks
  split
  · rename_i h; simp [Builder.flushed, Builder.phi, h]
  · rename_i h
    have := csum_finishChunks b.chunks b.syncBuf
    simp [Builder.flushed, Builder.phi, h]; omega

theorem csum_resolveAsync (env : Env) (p : PendAsync) : csum (resolveAsync env p) ≤ 2 * opsSize p.body := by
  unfold resolveAsync
  have h1 := csum_finish_take (execOps env p.body (Builder.new p.id))
  have h2 := exec_phi env _ p.body (Builder.new p.id) (Nat.le_refl _)
  have h0 : (Builder.new p.id).phi = 0 := by simp [Builder.new, Builder.phi]
  omega

theorem csum_exec_fresh (env : Env) (body : List Op) (b0 : Builder) (h0 : b0.phi = 0) :
    csum (execOps env body b0).finish.takeChunks ≤ 2 * opsSize body := by
  have h1 := csum_finish_take (execOps env body b0)
  have h2 := exec_phi env _ body b0 (Nat.le_refl _)
  omega

theorem csum_resolveOoo (env : Env) (p : PendOoo) : csum (resolveOoo env p).chunks ≤ 2 * opsSize p.body := by
  unfold resolveOoo
  dsimp only
  split
  · exact csum_exec_fresh env p.body _ (by simp [Builder.new, Builder.phi])
  · have h1 := csum_finish_take ({ (Builder.new p.id) with id := (Builder.new p.id).id.map (· ++ [0]) } : Builder)
    have h0 : ({ (Builder.new p.id) with id := (Builder.new p.id).id.map (· ++ [0]) } : Builder).phi = 0 := by
      simp [Builder.new, Builder.phi]
    rw [h0] at h1
    exact Nat.le_trans h1 (Nat.zero_le _)

theorem csum_reverse (xs : List Chunk) : csum xs.reverse = csum xs := by
  simp [csum, List.sum_reverse]

theorem csum_foldl_pushFront (xs d : List Chunk) : csum (xs.foldl (fun d c => c :: d) d) = csum xs + csum d := by
  induction xs generalizing d with
  | nil => simp
  | cons x xs ih => simp only [List.foldl_cons]; rw [ih]; simp; omega

theorem foldl_spliceFn_csum (xs : List Chunk) : ∀ (acc : Str × List Chunk),
    csum (xs.foldl spliceFn acc).2 ≤ csum xs + csum acc.2 := by
  induction xs with
  | nil => intro acc; simp
  | cons x xs ih =>
    intro acc
    simp only [List.foldl_cons]
    cases x with
    | sync r => have := ih (spliceFn acc (Chunk.sync r)); simp [spliceFn] at this ⊢; omega
    | async p => have := ih (spliceFn acc (Chunk.async p)); simp [spliceFn] at this ⊢; omega
    | ooo p => have := ih (spliceFn acc (Chunk.ooo p)); simp [spliceFn] at this ⊢; omega

theorem spliceInPlace_csum (cs : List Chunk) : csum (spliceInPlace cs).2 ≤ csum cs := by
  unfold spliceInPlace
  have h := foldl_spliceFn_csum cs.reverse ([], [])
  rw [csum_reverse] at h
  simpa using h

theorem spliceTemplate_csum (cs : List Chunk) (buf : Str) (d : List Chunk) :
    csum (spliceTemplate cs buf d).2 ≤ csum cs + csum d := by
  unfold spliceTemplate
  have h := foldl_spliceFn_csum cs.reverse (buf, d)
  rw [csum_reverse] at h
  simpa using h

theorem coalesce_mu (buf : Str) (cs : List Chunk) (po : List PendOoo) :
    csum (coalesce buf cs po).2.1 + posum (coalesce buf cs po).2.2 ≤ csum cs + posum po := by
  fun_induction coalesce buf cs po <;> simp_all [chunkSize, pendW] <;> omega

/-- `cont` strictly decreases `mu`, `ret` never increases it -/
def StepMu (b : Builder) : Step → Prop
  | .ret _ b' => b'.mu ≤ b.mu
  | .cont b' => b'.mu < b.mu

theorem pollStep_mu (env : Env) (b : Builder) : StepMu b (pollStep env b) := by
  unfold pollStep
  split
  · rename_i p hpend
    split
    · have := csum_resolveAsync env p
      simp only [StepMu, Builder.mu, hpend, pushFrontAll_eq, csum_append, pendW]
      omega
    · simp [StepMu]
  · rename_i hpend
    split
    · rename_i hch
      split
      · rename_i p rest hpo
        split
        · unfold oooReadyStep
          have hr := csum_resolveOoo env p
          dsimp only
          split
          · split
            · simp [StepMu, Builder.mu, hpend, hch, hpo]
            · split
              · simp [StepMu, Builder.mu, hpend, hch, hpo]
              · split
                · simp [StepMu, Builder.mu, hpend, hch, hpo]
                · have := spliceInPlace_csum (resolveOoo env p).chunks
                  simp only [StepMu, Builder.mu, hpend, hch, hpo, csum_foldl_pushFront, posum_cons, pendW, csum_nil]
                  omega
          · have := spliceTemplate_csum (resolveOoo env p).chunks (b.syncBuf ++ pushStart (resolveOoo env p).id) b.chunks
            simp only [StepMu, Builder.mu, hpend, hch, hpo, posum_cons, pendW, csum_nil] at this ⊢
            omega
        · unfold yieldStep
          split <;> simp [StepMu, Builder.mu, hpend, hch, hpo] <;> omega
      · rename_i hpo
        unfold yieldStep
        split <;> simp [StepMu, Builder.mu, hpend, hch, hpo]
    · rename_i v cs hch
      have := coalesce_mu (b.syncBuf ++ v) cs b.pendingOoo
      simp only [StepMu, Builder.mu, hpend, hch, csum_cons, chunkSize]
      omega
    · rename_i p cs hch
      dsimp only
      split <;> simp [StepMu, Builder.mu, hpend, hch, chunkSize, pendW] <;> omega
    · rename_i p cs hch
      dsimp only
      split <;> simp [StepMu, Builder.mu, hpend, hch, chunkSize, pendW] <;> omega

def Step.isStuck : Step → Bool
  | .ret Poll.stuck _ => true
  | _ => false

theorem yieldStep_not_stuck (b : Builder) (o : Poll) (h : o ≠ Poll.stuck) : (yieldStep b o).isStuck = false := by
  unfold yieldStep; split
  · cases o <;> simp_all [Step.isStuck]
  · simp [Step.isStuck]

theorem oooReadyStep_not_stuck (env : Env) (b : Builder) (p : PendOoo) : (oooReadyStep env b p).isStuck = false := by
  unfold oooReadyStep
  dsimp only
  split
  · split
    · rfl
    · split
      · rfl
      · split <;> rfl
  · rfl

theorem pollStep_not_stuck (env : Env) (b : Builder) : (pollStep env b).isStuck = false := by
  unfold pollStep
  split
  · split <;> rfl
  · split
    · split
      · split
        · exact oooReadyStep_not_stuck _ _ _
        · exact yieldStep_not_stuck _ _ (by simp)
      · exact yieldStep_not_stuck _ _ (by simp)
    · rfl
    · dsimp only; split <;> rfl
    · dsimp only; split <;> rfl

theorem pollNext_not_stuck (env : Env) : ∀ (fuel : Nat) (b : Builder), b.mu < fuel →
    (pollNext fuel env b).1 ≠ Poll.stuck ∧ (pollNext fuel env b).2.mu ≤ b.mu := by
  intro fuel
  induction fuel with
  | zero => intro b h; omega
  | succ n ih =>
    intro b h
    have hs := pollStep_mu env b
    have hn := pollStep_not_stuck env b
    unfold pollNext
    split
    · rename_i o b' heq
      rw [heq] at hs hn
      refine ⟨?_, hs⟩
      intro hst
      simp only at hst
      subst hst
      simp [Step.isStuck] at hn
    · rename_i b' heq
      rw [heq] at hs
      simp only [StepMu] at hs
      have := ih b' (by omega)
      exact ⟨this.1, by omega⟩


/-! ## termination: once every base future has completed, each poll makes progress -/

mutual
def futsOp : Op → List FId
  | .sync _ => []
  | .async fut body => fut.deps ++ futsOps body
  | .fallback _ => []
  | .ooo fut _ body _ => fut.deps ++ futsOps body
  | .nextId => []
  | .sub body => futsOps body
  | .ite fut t e => fut.deps ++ (futsOps t ++ futsOps e)
  | .finish => []
def futsOps : List Op → List FId
  | [] => []
  | o :: os => futsOp o ++ futsOps os
end

/-- a future of the state: born no later than poll `n`, waits only for futures in `D` -/
def ItemWf (D : List FId) (n : Nat) (fut : Fut) (born : Nat) (body : List Op) : Prop :=
  born ≤ n ∧ (∀ f ∈ fut.deps, f ∈ D) ∧ (∀ f ∈ futsOps body, f ∈ D)

def Chunk.wf (D : List FId) (n : Nat) : Chunk → Prop
  | .sync _ => True
  | .async p => ItemWf D n p.fut p.born p.body
  | .ooo p => ItemWf D n p.fut p.born p.body

structure Wf (D : List FId) (n : Nat) (b : Builder) : Prop where
  chunks : ∀ c ∈ b.chunks, c.wf D n
  pending : ∀ p, b.pending = some p → ItemWf D n p.fut p.born p.body
  pendingOoo : ∀ p ∈ b.pendingOoo, ItemWf D n p.fut p.born p.body

theorem ItemWf.mono {D n m fut born body} (h : ItemWf D n fut born body) (hm : n ≤ m) : ItemWf D m fut born body :=
  ⟨Nat.le_trans h.1 hm, h.2⟩

theorem Chunk.wf_mono {D n m} {c : Chunk} (h : c.wf D n) (hm : n ≤ m) : c.wf D m := by
  cases c <;> simp only [Chunk.wf] at h ⊢ <;> exact h.mono hm

theorem Wf.mono {D n m b} (h : Wf D n b) (hm : n ≤ m) : Wf D m b :=
  ⟨fun c hc => Chunk.wf_mono (h.chunks c hc) hm, fun p hp => (h.pending p hp).mono hm,
   fun p hp => (h.pendingOoo p hp).mono hm⟩

theorem wf_flushed (D : List FId) (n : Nat) (b : Builder) (h : ∀ c ∈ b.chunks, c.wf D n) :
    ∀ c ∈ b.flushed, c.wf D n := by
  unfold Builder.flushed
  split
  · exact h
  · intro c hc
    rcases List.mem_append.1 hc with hc | hc
    · exact h c hc
    · simp at hc; subst hc; trivial

theorem wf_finishChunks (D : List FId) (n : Nat) (cs : List Chunk) (rest : Str) (h : ∀ c ∈ cs, c.wf D n) :
    ∀ c ∈ Builder.finishChunks cs rest, c.wf D n := by
  fun_induction Builder.finishChunks cs rest <;> simp_all [Chunk.wf]

theorem exec_wf (env : Env) (D : List FId) (m : Nat) (hm : env.now ≤ m) : ∀ (n : Nat) (ops : List Op) (b : Builder),
    opsSize ops ≤ n → (∀ f ∈ futsOps ops, f ∈ D) → (∀ c ∈ b.chunks, c.wf D m) →
    ∀ c ∈ (execOps env ops b).chunks, c.wf D m := by
  intro n
  induction n with
  | zero =>
    intro ops b h _ hc
    cases ops with
    | nil => simpa [execOps] using hc
    | cons o os => cases o <;> simp [opsSize, opSize] at h
  | succ n ih =>
    intro ops b h hf hc
    cases ops with
    | nil => simpa [execOps] using hc
    | cons o os =>
      simp only [opsSize] at h
      simp only [futsOps, List.mem_append] at hf
      have hfo : ∀ f ∈ futsOps os, f ∈ D := fun f hf' => hf f (Or.inr hf')
      cases o <;> simp only [opSize] at h <;> simp only [execOps, execOp]
      · exact ih os _ (by omega) hfo (by simpa [Builder.pushSync] using hc)
      · rename_i fut body
        apply ih os _ (by omega) hfo
        intro c hcm
        simp only [Builder.pushAsync, List.mem_append, List.mem_singleton] at hcm
        rcases hcm with hcm | hcm
        · exact wf_flushed D m b hc c hcm
        · subst hcm
          refine ⟨hm, ?_, ?_⟩
          · intro f hf'; exact hf f (Or.inl (by simp [futsOp, hf']))
          · intro f hf'; exact hf f (Or.inl (by simp [futsOp, hf']))
      · rename_i fb
        apply ih os _ (by omega) hfo
        simpa [Builder.pushFallback, (phi_writeMarker _ _).1] using hc
      · rename_i fut r body nonce
        apply ih os _ (by omega) hfo
        intro c hcm
        simp only [Builder.pushOoo, List.mem_append, List.mem_singleton] at hcm
        rcases hcm with hcm | hcm
        · exact hc c hcm
        · subst hcm
          refine ⟨hm, ?_, ?_⟩
          · intro f hf'; exact hf f (Or.inl (by simp [futsOp, hf']))
          · intro f hf'; exact hf f (Or.inl (by simp [futsOp, hf']))
      · exact ih os _ (by omega) hfo (by simpa [Builder.nextId] using hc)
      · rename_i body
        apply ih os _ (by omega) hfo
        intro c hcm
        rcases append_chunks_mem _ _ c hcm with hcm | hcm | hcm
        · exact hc c hcm
        · subst hcm; trivial
        · exact ih body (Builder.new b.id) (by omega) (fun f hf' => hf f (Or.inl (by simp [futsOp, hf'])))
            (by simp [Builder.new]) c hcm
      · rename_i fut t e
        split
        · exact ih os _ (by omega) hfo
            (ih t b (by omega) (fun f hf' => hf f (Or.inl (by simp [futsOp, hf']))) hc)
        · exact ih os _ (by omega) hfo
            (ih e b (by omega) (fun f hf' => hf f (Or.inl (by simp [futsOp, hf']))) hc)
      · apply ih os _ (by omega) hfo
        unfold Builder.finish; split
        · exact hc
        · exact wf_finishChunks D m b.chunks b.syncBuf hc

theorem wf_finish_take (D : List FId) (n : Nat) (b : Builder) (h : ∀ c ∈ b.chunks, c.wf D n) :
    ∀ c ∈ b.finish.takeChunks, c.wf D n := by
  unfold Builder.finish Builder.takeChunks
  split
  · exact wf_flushed D n b h
  · simpa [Builder.flushed] using wf_finishChunks D n b.chunks b.syncBuf h

theorem wf_resolveAsync (env : Env) (D : List FId) (m : Nat) (hm : env.now ≤ m) (p : PendAsync)
    (h : ∀ f ∈ futsOps p.body, f ∈ D) : ∀ c ∈ resolveAsync env p, c.wf D m := by
  unfold resolveAsync
  exact wf_finish_take D m _ (exec_wf env D m hm _ p.body _ (Nat.le_refl _) h (by simp [Builder.new]))

theorem wf_resolveOoo (env : Env) (D : List FId) (m : Nat) (hm : env.now ≤ m) (p : PendOoo)
    (h : ∀ f ∈ futsOps p.body, f ∈ D) : ∀ c ∈ (resolveOoo env p).chunks, c.wf D m := by
  unfold resolveOoo
  dsimp only
  split
  · exact wf_finish_take D m _ (exec_wf env D m hm _ p.body _ (Nat.le_refl _) h (by simp [Builder.new]))
  · exact wf_finish_take D m _ (by simp [Builder.new])

theorem mem_foldl_spliceFn (xs : List Chunk) : ∀ (acc : Str × List Chunk) (c : Chunk),
    c ∈ (xs.foldl spliceFn acc).2 → c ∈ xs ∨ c ∈ acc.2 := by
  induction xs with
  | nil => intro acc c h; exact Or.inr h
  | cons x xs ih =>
    intro acc c h
    simp only [List.foldl_cons] at h
    rcases ih _ c h with h | h
    · exact Or.inl (by simp [h])
    · cases x <;> simp [spliceFn] at h
      · exact Or.inr h
      · rcases h with h | h
        · exact Or.inl (by simp [h])
        · exact Or.inr h
      · rcases h with h | h
        · exact Or.inl (by simp [h])
        · exact Or.inr h

theorem mem_foldl_pushFront (xs d : List Chunk) (c : Chunk) :
    c ∈ xs.foldl (fun d c => c :: d) d → c ∈ xs ∨ c ∈ d := by
  induction xs generalizing d with
  | nil => intro h; exact Or.inr h
  | cons x xs ih =>
    intro h
    simp only [List.foldl_cons] at h
    rcases ih _ h with h | h
    · exact Or.inl (by simp [h])
    · simp at h
      rcases h with h | h
      · exact Or.inl (by simp [h])
      · exact Or.inr h

theorem coalesce_wf (D : List FId) (n : Nat) (buf : Str) (cs : List Chunk) (po : List PendOoo)
    (hc : ∀ c ∈ cs, c.wf D n) (hp : ∀ p ∈ po, ItemWf D n p.fut p.born p.body) :
    (∀ c ∈ (coalesce buf cs po).2.1, c.wf D n) ∧ (∀ p ∈ (coalesce buf cs po).2.2, ItemWf D n p.fut p.born p.body) := by
  fun_induction coalesce buf cs po
  · exact ⟨by simp, hp⟩
  · exact ⟨hc, hp⟩
  · rename_i p cs po
    refine ⟨fun c h => hc c (by simp [h]), ?_⟩
    intro q hq
    rcases List.mem_append.1 hq with hq | hq
    · exact hp q hq
    · simp at hq; subst hq
      exact hc (Chunk.ooo q) (by simp)
  · rename_i buf s cs po ih
    exact ih (fun c h => hc c (by simp [h])) hp

def StepWf (D : List FId) (n : Nat) : Step → Prop
  | .ret _ b' => Wf D n b'
  | .cont b' => Wf D n b'

theorem pollStep_wf (env : Env) (D : List FId) (n : Nat) (hn : env.now ≤ n) (b : Builder) (h : Wf D n b) :
    StepWf D n (pollStep env b) := by
  obtain ⟨hc, hp, ho⟩ := h
  unfold pollStep
  split
  · rename_i p hpend
    split
    · refine ⟨?_, by simp, ho⟩
      intro c hcm
      rw [pushFrontAll_eq] at hcm
      rcases List.mem_append.1 hcm with hcm | hcm
      · exact wf_resolveAsync env D n hn p (hp p hpend).2.2 c hcm
      · exact hc c hcm
    · exact ⟨hc, hp, ho⟩
  · rename_i hpend
    split
    · rename_i hch
      split
      · rename_i p rest hpo
        have hpw := ho p (by simp [hpo])
        have hrest : ∀ q ∈ rest, ItemWf D n q.fut q.born q.body := fun q hq => ho q (by simp [hpo, hq])
        split
        · unfold oooReadyStep
          have hr := wf_resolveOoo env D n hn p hpw.2.2
          dsimp only
          split
          · split
            · exact ⟨hc, hp, hrest⟩
            · split
              · exact ⟨hc, hp, hrest⟩
              · split
                · exact ⟨hc, hp, hrest⟩
                · refine ⟨?_, hp, hrest⟩
                  intro c hcm
                  rcases mem_foldl_pushFront _ _ c hcm with hcm | hcm
                  · unfold spliceInPlace at hcm
                    rcases mem_foldl_spliceFn _ _ c hcm with hcm | hcm
                    · exact hr c (by simpa using hcm)
                    · simp at hcm
                  · exact hc c hcm
          · refine ⟨?_, hp, hrest⟩
            intro c hcm
            unfold spliceTemplate at hcm
            rcases mem_foldl_spliceFn _ _ c hcm with hcm | hcm
            · exact hr c (by simpa using hcm)
            · exact hc c hcm
        · unfold yieldStep
          have hro : ∀ q ∈ rest ++ [p], ItemWf D n q.fut q.born q.body := by
            intro q hq
            rcases List.mem_append.1 hq with hq | hq
            · exact hrest q hq
            · simp at hq; subst hq; exact hpw
          split
          · exact ⟨hc, hp, hro⟩
          · exact ⟨hc, hp, hro⟩
      · unfold yieldStep
        split
        · exact ⟨hc, hp, ho⟩
        · exact ⟨hc, hp, ho⟩
    · rename_i v cs hch
      have := coalesce_wf D n (b.syncBuf ++ v) cs b.pendingOoo (fun c h => hc c (by simp [hch, h])) ho
      exact ⟨this.1, hp, this.2⟩
    · rename_i p cs hch
      have hpw : ItemWf D n p.fut p.born p.body := hc (Chunk.async p) (by simp [hch])
      have hcs : ∀ c ∈ cs, c.wf D n := fun c h => hc c (by simp [hch, h])
      dsimp only
      split
      · exact ⟨hcs, by intro q hq; simp at hq; subst hq; exact hpw, ho⟩
      · exact ⟨hcs, by intro q hq; simp at hq; subst hq; exact hpw, ho⟩
    · rename_i p cs hch
      have hpw : ItemWf D n p.fut p.born p.body := hc (Chunk.ooo p) (by simp [hch])
      have hcs : ∀ c ∈ cs, c.wf D n := fun c h => hc c (by simp [hch, h])
      have hro : ∀ q ∈ b.pendingOoo ++ [p], ItemWf D n q.fut q.born q.body := by
        intro q hq
        rcases List.mem_append.1 hq with hq | hq
        · exact ho q hq
        · simp at hq; subst hq; exact hpw
      dsimp only
      split
      · exact ⟨hcs, hp, hro⟩
      · exact ⟨hcs, hp, hro⟩

theorem pollNext_wf (env : Env) (D : List FId) (n : Nat) (hn : env.now ≤ n) : ∀ (fuel : Nat) (b : Builder),
    Wf D n b → Wf D n (pollNext fuel env b).2 := by
  intro fuel
  induction fuel with
  | zero => intro b h; exact h
  | succ k ih =>
    intro b h
    have hs := pollStep_wf env D n hn b h
    unfold pollNext
    split
    · rename_i o b' heq; rw [heq] at hs; exact hs
    · rename_i b' heq; rw [heq] at hs; exact ih b' hs


def Builder.nu (b : Builder) : Nat := 2 * b.mu + (if b.syncBuf.isEmpty then 0 else 1)

def AllReady (env : Env) (b : Builder) : Prop :=
  (∀ p, b.pending = some p → p.fut.ready env p.born = true) ∧
  (∀ p ∈ b.pendingOoo, p.fut.ready env p.born = true)

theorem ready_of_wf {D : List FId} {n : Nat} {fut : Fut} {born : Nat} {body : List Op} (env : Env)
    (h : ItemWf D n fut born body) (hD : ∀ f ∈ D, f ∈ env.done) (hn : n < env.now) : fut.ready env born = true := by
  unfold Fut.ready
  simp only [Bool.and_eq_true, List.all_eq_true, Bool.or_eq_true, Bool.not_eq_true', decide_eq_true_eq]
  refine ⟨⟨?_, Or.inr (Nat.lt_of_le_of_lt h.1 hn)⟩, Or.inr (by omega)⟩
  intro f hf
  simpa using hD f (h.2.1 f hf)

theorem allReady_of_wf {D : List FId} {n : Nat} {b : Builder} (env : Env) (h : Wf D n b)
    (hD : ∀ f ∈ D, f ∈ env.done) (hn : n < env.now) : AllReady env b :=
  ⟨fun p hp => ready_of_wf env (h.pending p hp) hD hn, fun p hp => ready_of_wf env (h.pendingOoo p hp) hD hn⟩

/-- a step never increases `nu`; `cont` decreases it -/
def StepNu (b : Builder) : Step → Prop
  | .ret _ b' => b'.nu ≤ b.nu
  | .cont b' => b'.nu < b.nu

def StepBuf (b : Builder) : Step → Prop
  | .ret _ b' => b'.syncBuf = [] ∨ b'.syncBuf = b.syncBuf
  | .cont _ => True

theorem pollStep_buf (env : Env) (b : Builder) : StepBuf b (pollStep env b) := by
  unfold pollStep
  split
  · split
    · trivial
    · exact Or.inr rfl
  · split
    · split
      · split
        · unfold oooReadyStep
          dsimp only
          split
          · split
            · exact Or.inr rfl
            · split
              · exact Or.inr rfl
              · split
                · exact Or.inr rfl
                · trivial
          · trivial
        · unfold yieldStep; split
          · exact Or.inr rfl
          · exact Or.inl rfl
      · unfold yieldStep; split
        · exact Or.inr rfl
        · exact Or.inl rfl
    · trivial
    · dsimp only; split
      · trivial
      · exact Or.inl rfl
    · dsimp only; split
      · trivial
      · exact Or.inl rfl

theorem pollStep_nu (env : Env) (b : Builder) : StepNu b (pollStep env b) := by
  have h1 := pollStep_mu env b
  have h2 := pollStep_buf env b
  cases h : pollStep env b with
  | ret o b' =>
    rw [h] at h1 h2
    simp only [StepMu, StepBuf, StepNu, Builder.nu] at *
    rcases h2 with h2 | h2
    · rw [h2]; simp; split <;> omega
    · rw [h2]; split <;> omega
  | cont b' =>
    rw [h] at h1
    simp only [StepMu, StepNu, Builder.nu] at *
    split <;> split <;> omega

/-- under `AllReady` a step that returns either ends the stream, panics, or made progress -/
def StepFirst (b : Builder) : Step → Prop
  | .ret o b' => o = Poll.done ∨ o = Poll.panic ∨ b'.nu < b.nu
  | .cont _ => True

theorem pollStep_first (env : Env) (b : Builder) (h : AllReady env b) : StepFirst b (pollStep env b) := by
  unfold pollStep
  split
  · rename_i p hpend
    split
    · trivial
    · rename_i hr; exact absurd (h.1 p hpend) hr
  · rename_i hpend
    split
    · rename_i hch
      split
      · rename_i p rest hpo
        split
        · unfold oooReadyStep
          dsimp only
          split
          · split
            · exact Or.inr (Or.inl rfl)
            · split
              · exact Or.inr (Or.inl rfl)
              · split
                · exact Or.inr (Or.inl rfl)
                · trivial
          · trivial
        · rename_i hr; exact absurd (h.2 p (by simp [hpo])) hr
      · rename_i hpo
        unfold yieldStep
        split
        · exact Or.inl rfl
        · rename_i hb
          refine Or.inr (Or.inr ?_)
          simp only [Builder.nu, Builder.mu]
          simp [hb]
    · trivial
    · rename_i p cs hch
      dsimp only
      split
      · trivial
      · rename_i hb
        refine Or.inr (Or.inr ?_)
        simp only [Builder.nu, Builder.mu, hch, hpend, csum_cons, chunkSize, pendW]
        simp [hb]; omega
    · rename_i p cs hch
      dsimp only
      split
      · trivial
      · rename_i hb
        refine Or.inr (Or.inr ?_)
        simp only [Builder.nu, Builder.mu, hch, hpend, csum_cons, chunkSize, pendW, posum_append, posum_cons, posum_nil]
        simp [hb]; omega

theorem pollNext_nu (env : Env) : ∀ (fuel : Nat) (b : Builder), (pollNext fuel env b).2.nu ≤ b.nu := by
  intro fuel
  induction fuel with
  | zero => intro b; exact Nat.le_refl _
  | succ n ih =>
    intro b
    have hs := pollStep_nu env b
    unfold pollNext
    split
    · rename_i o b' heq; rw [heq] at hs; exact hs
    · rename_i b' heq; rw [heq] at hs
      exact Nat.le_trans (ih b') (Nat.le_of_lt hs)

theorem pollNext_progress (env : Env) (fuel : Nat) (b : Builder) (h : AllReady env b) (hf : 0 < fuel) :
    (pollNext fuel env b).1 = Poll.done ∨ (pollNext fuel env b).1 = Poll.panic ∨ (pollNext fuel env b).2.nu < b.nu := by
  cases fuel with
  | zero => omega
  | succ n =>
    have hs := pollStep_first env b h
    have hn := pollStep_nu env b
    unfold pollNext
    split
    · rename_i o b' heq; rw [heq] at hs; exact hs
    · rename_i b' heq; rw [heq] at hn
      exact Or.inr (Or.inr (Nat.lt_of_le_of_lt (pollNext_nu env n b') hn))

/-! ### streams: the draining phase -/

structure TInv (D : List FId) (r : Run) : Prop where
  wf : Wf D r.now r.b
  dead : r.dead = true → r.out.getLast? = some Poll.panic
  noStuck : r.out.getLast? ≠ some Poll.stuck

theorem TInv_poll (D : List FId) (r : Run) (newly : List FId) (h : TInv D r) : TInv D (r.poll newly) := by
  unfold Run.poll
  split
  · rename_i hd
    exact ⟨h.wf, by simp, by simp⟩
  · have hns := pollNext_not_stuck { done := r.done ++ newly, now := r.now + 1 } r.b.fuelFor r.b
      (by rw [fuelFor_eq]; omega)
    have hwf := pollNext_wf { done := r.done ++ newly, now := r.now + 1 } D (r.now + 1) (Nat.le_refl _) r.b.fuelFor r.b
      (h.wf.mono (Nat.le_succ _))
    refine ⟨hwf, ?_, ?_⟩
    · intro hd
      simp only [Bool.or_eq_true, beq_iff_eq] at hd
      rcases hd with hd | hd
      · simp [hd]
      · exact absurd hd hns.1
    · simp only [List.getLast?_append, List.getLast?_singleton, Option.some_or]
      intro hc; simp at hc; exact hns.1 hc

theorem TInv_polls (D : List FId) (sched : List (List FId)) : ∀ (r : Run), TInv D r → TInv D (r.polls sched) := by
  induction sched with
  | nil => intro r h; exact h
  | cons n ns ih => intro r h; exact ih _ (TInv_poll D r n h)

theorem poll_done (r : Run) (newly : List FId) : (r.poll newly).done = r.done ++ newly := by
  unfold Run.poll; split <;> rfl

theorem polls_done (sched : List (List FId)) : ∀ (r : Run), (r.polls sched).done = r.done ++ sched.flatten := by
  induction sched with
  | nil => intro r; simp [Run.polls]
  | cons n ns ih => intro r; simp [Run.polls, ih, poll_done]

theorem TInv_start (ooo : Bool) (prog : List Op) (done0 : List FId) :
    TInv (futsOps prog) (startStream ooo done0 prog) := by
  unfold startStream
  dsimp only
  have hc := exec_wf { done := done0, now := 0 } (futsOps prog) 0 (Nat.le_refl _) _ prog
    (Builder.new (if ooo then some [0] else none)) (Nat.le_refl _) (fun f hf => hf) (by simp [Builder.new])
  have hf := exec_fields { done := done0, now := 0 } _ prog (Builder.new (if ooo then some [0] else none)) (Nat.le_refl _)
  generalize execOps { done := done0, now := 0 } prog (Builder.new (if ooo then some [0] else none)) = b at hc hf
  refine ⟨⟨?_, ?_, ?_⟩, by simp, by simp⟩
  · unfold Builder.finish; split
    · exact hc
    · exact wf_finishChunks _ _ _ _ hc
  · intro p hp
    have : b.finish.pending = none := by unfold Builder.finish; split <;> simp [hf.1, Builder.new]
    rw [this] at hp; cases hp
  · intro p hp
    have : b.finish.pendingOoo = [] := by unfold Builder.finish; split <;> simp [hf.2, Builder.new]
    rw [this] at hp; cases hp

theorem drain_terminates (D : List FId) : ∀ (k : Nat) (r : Run), TInv D r → (∀ f ∈ D, f ∈ r.done) → r.b.nu < k →
    (r.drain k).out.getLast? = some Poll.done ∨ (r.drain k).out.getLast? = some Poll.panic := by
  intro k
  induction k with
  | zero => intro r _ _ h; omega
  | succ k ih =>
    intro r h hD hk
    unfold Run.drain
    split
    · rename_i hl; exact Or.inl hl
    · rename_i hl; exact Or.inr hl
    · rename_i hl; exact absurd hl h.noStuck
    · rename_i hnd hnp hns
      have hdead : r.dead = false := by
        cases hd : r.dead with
        | false => rfl
        | true => exact absurd (h.dead hd) hnp
      have hinv := TInv_poll D r [] h
      have hpr := pollNext_progress { done := r.done ++ [], now := r.now + 1 } r.b.fuelFor r.b
        (allReady_of_wf _ h.wf (by simpa using hD) (Nat.lt_succ_self _)) (by rw [fuelFor_eq]; omega)
      have hout : (r.poll []).out = r.out ++ [(pollNext r.b.fuelFor { done := r.done ++ [], now := r.now + 1 } r.b).1] ∧
          (r.poll []).b = (pollNext r.b.fuelFor { done := r.done ++ [], now := r.now + 1 } r.b).2 := by
        unfold Run.poll; simp [hdead]
      have hlast : ∀ (k : Nat) (r' : Run), (r'.out.getLast? = some Poll.done ∨ r'.out.getLast? = some Poll.panic) →
          r'.drain k = r' := by
        intro k r' hl
        cases k with
        | zero => rfl
        | succ k => unfold Run.drain; rcases hl with hl | hl <;> simp [hl]
      simp only [List.append_nil] at hpr hout
      rcases hpr with hpr | hpr | hpr
      · have : (r.poll []).out.getLast? = some Poll.done := by rw [hout.1]; simp [hpr]
        rw [hlast k _ (Or.inl this)]; exact Or.inl this
      · have : (r.poll []).out.getLast? = some Poll.panic := by rw [hout.1]; simp [hpr]
        rw [hlast k _ (Or.inr this)]; exact Or.inr this
      · apply ih (r.poll []) hinv
        · intro f hf; rw [poll_done]; simp [hD f hf]
        · rw [hout.2]; omega


/-! ### streams of in-order programs -/

theorem itemsOf_append (a : List Poll) (p : Poll) : itemsOf (a ++ [p]) = itemsOf a ++ outStr p := by
  induction a with
  | nil => cases p <;> simp [itemsOf, outStr]
  | cons q a ih => cases q <;> simp [itemsOf, ih]

structure RInv (D : Str) (r : Run) : Prop where
  ok : IOk r.b
  doc : itemsOf r.out ++ r.b.pdoc = D
  fin : r.out.getLast? = some Poll.done → r.b.pdoc = []
  alive : r.dead = false
  clean : ∀ o ∈ r.out, o ≠ Poll.panic ∧ o ≠ Poll.stuck

theorem RInv_poll (D : Str) (r : Run) (newly : List FId) (h : RInv D r) : RInv D (r.poll newly) := by
  unfold Run.poll
  simp only [h.alive, Bool.false_eq_true, if_false]
  have := pollNext_inOrd { done := r.done ++ newly, now := r.now + 1 } r.b.fuelFor r.b h.ok
  have hns := pollNext_not_stuck { done := r.done ++ newly, now := r.now + 1 } r.b.fuelFor r.b
    (by rw [fuelFor_eq]; omega)
  refine ⟨this.1, ?_, ?_, ?_, ?_⟩
  · simp only [itemsOf_append, List.append_assoc]
    rw [this.2.1, h.doc]
  · intro hl
    apply this.2.2.2
    simpa [List.getLast?_append] using hl
  · simp only [Bool.or_eq_false_iff, beq_eq_false_iff_ne, ne_eq]
    exact ⟨this.2.2.1, hns.1⟩
  · intro o ho
    simp only [List.mem_append, List.mem_singleton] at ho
    rcases ho with ho | ho
    · exact h.clean o ho
    · subst ho; exact ⟨this.2.2.1, hns.1⟩

theorem RInv_polls (D : Str) (sched : List (List FId)) : ∀ (r : Run), RInv D r → RInv D (r.polls sched) := by
  induction sched with
  | nil => intro r h; exact h
  | cons n ns ih => intro r h; exact ih _ (RInv_poll D r n h)

theorem RInv_start (prog : List Op) (done0 : List FId) (h : inOrdOps prog = true) :
    RInv (docOps prog) (startStream false done0 prog) := by
  unfold startStream
  simp only [Bool.false_eq_true, if_false]
  have he := exec_bdoc { done := done0, now := 0 } _ prog (Builder.new none) (Nat.le_refl _) h
  have hf := exec_fields { done := done0, now := 0 } _ prog (Builder.new none) (Nat.le_refl _)
  have hc := he.2 (by simp [Builder.new])
  generalize execOps { done := done0, now := 0 } prog (Builder.new none) = b at he hf hc
  have hd : b.bdoc = docOps prog := by simpa [Builder.bdoc, Builder.new, chunksDoc] using he.1
  refine ⟨⟨?_, ?_, ?_⟩, ?_, by simp, rfl, by simp⟩
  · unfold Builder.finish; split
    · exact hc
    · exact inOrd_finishChunks _ _ hc
  · intro p hp
    have : b.finish.pending = none := by
      unfold Builder.finish; split <;> simp [hf.1, Builder.new]
    rw [this] at hp; cases hp
  · unfold Builder.finish; split <;> simp [hf.2, Builder.new]
  · have hpn : b.finish.pending = none := by
      unfold Builder.finish; split <;> simp [hf.1, Builder.new]
    simp only [itemsOf, List.nil_append, Builder.pdoc, hpn]
    rw [← hd]
    unfold Builder.finish Builder.bdoc; split
    · rename_i hb; simp at hb; simp [hb]
    · simp [chunksDoc_finishChunks]


theorem RInv_drain (D : Str) : ∀ (k : Nat) (r : Run), RInv D r → RInv D (r.drain k) := by
  intro k
  induction k with
  | zero => intro r h; exact h
  | succ k ih =>
    intro r h
    unfold Run.drain
    split
    · exact h
    · exact h
    · exact h
    · exact ih _ (RInv_poll D r [] h)

/-! ### no empty chunk is ever yielded (all programs) -/

def Step.itemOk : Step → Prop
  | .ret (Poll.item s) _ => s ≠ []
  | _ => True

theorem yieldStep_itemOk (b : Builder) (o : Poll) (h : ∀ s, o ≠ Poll.item s) : (yieldStep b o).itemOk := by
  unfold yieldStep; split
  · cases o <;> simp_all [Step.itemOk]
  · rename_i hb; simp only [Step.itemOk]; intro he; simp [he] at hb

theorem pollStep_itemOk (env : Env) (b : Builder) : (pollStep env b).itemOk := by
  unfold pollStep
  split
  · split <;> trivial
  · split
    · split
      · split
        · unfold oooReadyStep
          dsimp only
          split
          · split
            · trivial
            · split
              · trivial
              · split <;> trivial
          · trivial
        · exact yieldStep_itemOk _ _ (by simp)
      · exact yieldStep_itemOk _ _ (by simp)
    · trivial
    · dsimp only; split
      · trivial
      · rename_i hb; simp only [Step.itemOk]; intro he; simp [he] at hb
    · dsimp only; split
      · trivial
      · rename_i hb; simp only [Step.itemOk]; intro he; simp [he] at hb

theorem pollNext_item_ne_nil (env : Env) : ∀ (fuel : Nat) (b : Builder) (s : Str),
    (pollNext fuel env b).1 = Poll.item s → s ≠ [] := by
  intro fuel
  induction fuel with
  | zero => intro b s h; simp [pollNext] at h
  | succ n ih =>
    intro b s h
    have hs := pollStep_itemOk env b
    unfold pollNext at h
    split at h
    · rename_i o b' heq
      rw [heq] at hs
      simp only at h
      subst h
      exact hs
    · exact ih _ s h

theorem poll_items_ne_nil (r : Run) (newly : List FId) (h : ∀ s, Poll.item s ∈ r.out → s ≠ []) :
    ∀ s, Poll.item s ∈ (r.poll newly).out → s ≠ [] := by
  intro s hs
  unfold Run.poll at hs
  split at hs
  · simp only [List.mem_append, List.mem_singleton] at hs
    rcases hs with hs | hs
    · exact h s hs
    · cases hs
  · simp only [List.mem_append, List.mem_singleton] at hs
    rcases hs with hs | hs
    · exact h s hs
    · exact pollNext_item_ne_nil _ _ _ s hs.symm

theorem polls_items_ne_nil (sched : List (List FId)) : ∀ (r : Run), (∀ s, Poll.item s ∈ r.out → s ≠ []) →
    ∀ s, Poll.item s ∈ (r.polls sched).out → s ≠ [] := by
  induction sched with
  | nil => intro r h; exact h
  | cons n ns ih => intro r h; exact ih _ (poll_items_ne_nil r n h)

end Leptos.Stream
