import LeptosModel.Proofs.OwnerLeak
/-!
# Proofs/OwnerFrame — a pass touches nothing outside the scope it releases (C08)

`Touch st o x` : owner `x` belongs to the scope rooted at `o` in the state `st` the pass starts from:
reachable through `children` lists and through "this node is a memo whose `Owner` is …".
Everything a pass modifies is the record of a touched owner, the record of the ambient owner
(cleanups that register work while they run), or an arena entry listed in a touched owner's nodes.
-/
namespace Leptos.Owner

inductive Touch (st : Core) (o : Nat) : Nat → Prop
  | root : Touch st o o
  | child {a c : Nat} : Touch st o a → c ∈ childrenOf st a → Touch st o c
  | memo {a : Nat} {k : Key} {m ow : Nat} : Touch st o a → k ∈ nodesOf st a →
      st.arena.get k = some (Val.memo m ow) → Touch st o ow
  | cdrop {a : Nat} {c : Cleanup} {ow : Nat} : Touch st o a → c ∈ cleanupsOf st a → c.drops = some ow →
      Touch st o ow

theorem modOwner_get_ne (st : Core) (o : Nat) (f : OwnerRec → OwnerRec) {x : Nat} (h : x ≠ o) :
    (st.modOwner o f).owners[x]? = st.owners[x]? := by
  rw [modOwner_get]; simp [h]

/-- what `on_cleanup` does -/
theorem regCleanup_spec (st : Core) (tag : Nat) (nested : Bool) (drops : Option Nat) :
    (∀ x, currentOwner st ≠ some x → (regCleanup st tag nested drops).owners[x]? = st.owners[x]?) ∧
    (∀ x c, c ∈ cleanupsOf (regCleanup st tag nested drops) x →
      c ∈ cleanupsOf st x ∨ (c.cid = st.nextCid ∧ c.drops = drops)) ∧
    (regCleanup st tag nested drops).cur = st.cur := by
  unfold regCleanup
  simp only
  cases hc : currentOwner { st with nextCid := st.nextCid + 1 } with
  | none => exact ⟨fun _ _ => rfl, fun _ _ h => Or.inl h, rfl⟩
  | some o =>
    have hc' : currentOwner st = some o := hc
    refine ⟨fun x hx => ?_, fun x c h => ?_, modOwner_cur _ _ _⟩
    · simp only
      rw [modOwner_get_ne]
      intro hxo; subst hxo; exact hx hc'
    · simp only at h
      rw [cleanupsOf_eq, fieldOf_modOwner] at h
      by_cases hx : x = o
      · simp only [hx, if_true] at h
        subst hx
        rw [cleanupsOf_eq]; unfold fieldOf
        split at h
        · next r hr =>
          simp only [List.mem_append, List.mem_singleton] at h
          rcases h with h | h
          · exact Or.inl h
          · exact Or.inr (by rw [h]; exact ⟨rfl, rfl⟩)
        · cases h
      · simp only [hx, if_false] at h; exact Or.inl h

theorem newItem_get_ne (st : Core) (v : Val) (x : Nat) (h : currentOwner st ≠ some x) :
    (newItem st v).1.owners[x]? = st.owners[x]? := by
  unfold newItem
  simp only
  cases hc : currentOwner { st with arena := (st.arena.insert v).1 } with
  | none => rfl
  | some o =>
    have hc' : currentOwner st = some o := hc
    simp only
    rw [modOwner_get_ne]
    intro hxo; subst hxo; exact h hc'

theorem newItem_cur (st : Core) (v : Val) : (newItem st v).1.cur = st.cur := by
  unfold newItem; simp only; split
  · rw [modOwner_cur]
  · rfl

theorem currentOwner_congr {a b : Core} (hc : b.cur = a.cur) (ha : ∀ x, b.aliveB x = a.aliveB x) :
    currentOwner b = currentOwner a := by
  unfold currentOwner; rw [hc]
  cases a.cur with
  | nil => rfl
  | cons o _ => simp only [ha]

/-- the pass invariant, relative to the state `st` and root `o` the pass starts from -/
structure FrameInv (st : Core) (o : Nat) (s : Core) (fs : List Frame) : Prop where
  wf : s.arena.WF
  le : ArenaLe st.arena s.arena
  cur : s.cur = st.cur
  visits : ∀ x late, Frame.visit x late ∈ fs ∨ Frame.drop x late ∈ fs → Touch st o x
  removes : ∀ k late, Frame.remove k late ∈ fs → (∃ x, Touch st o x ∧ k ∈ nodesOf st x) ∨ ¬ Issued st.arena k
  runs : ∀ c ow late, Frame.run c ow late ∈ fs →
    (∃ x, Touch st o x ∧ c ∈ cleanupsOf st x) ∨ (st.nextCid ≤ c.cid ∧ c.drops = none)
  nextCid : st.nextCid ≤ s.nextCid
  children : ∀ x c, c ∈ childrenOf s x → c ∈ childrenOf st x
  nodes : ∀ x k, k ∈ nodesOf s x → k ∈ nodesOf st x ∨ ¬ Issued st.arena k
  cleanups : ∀ x c, c ∈ cleanupsOf s x → c ∈ cleanupsOf st x ∨ (st.nextCid ≤ c.cid ∧ c.drops = none)
  old : ∀ k v, Issued st.arena k → s.arena.get k = some v → st.arena.get k = some v
  fresh : ∀ k v, ¬ Issued st.arena k → s.arena.get k = some v → ∃ n, v = Val.num n
  owners : ∀ x, ¬ Touch st o x → currentOwner st ≠ some x → s.owners[x]? = st.owners[x]?
  keys : ∀ k w, st.arena.get k = some w → (∀ x, Touch st o x → k ∉ nodesOf st x) → s.arena.get k = some w
  log : ∀ tag cid ow late, Ev.c tag cid ow late ∈ s.log → Ev.c tag cid ow late ∈ st.log ∨
      (∃ x c, Touch st o x ∧ c ∈ cleanupsOf st x ∧ c.cid = cid) ∨ st.nextCid ≤ cid

theorem FrameInv.init {st : Core} (hwf : st.arena.WF) (o : Nat) (f : Frame)
    (hf : ∀ x late, f = Frame.visit x late ∨ f = Frame.drop x late → x = o)
    (hr : ∀ k late, f = Frame.remove k late → ¬ Issued st.arena k ∨ ∃ x, Touch st o x ∧ k ∈ nodesOf st x)
    (hrun : ∀ c ow late, f ≠ Frame.run c ow late) : FrameInv st o st [f] := by
  refine ⟨hwf, ArenaLe.refl _, rfl, ?_, ?_, ?_, Nat.le_refl _, fun _ _ h => h, fun _ _ h => Or.inl h,
    fun _ _ h => Or.inl h, fun _ _ _ h => h, ?_, fun _ _ _ => rfl, fun _ _ h _ => h,
    fun _ _ _ _ h => Or.inl h⟩
  · intro x late h
    rcases h with h | h <;> (have := List.mem_singleton.mp h; rw [hf x late (by simp [this])]; exact Touch.root)
  · intro k late h
    have := List.mem_singleton.mp h
    rcases hr k late this.symm with h | h
    · exact Or.inr h
    · exact Or.inl h
  · intro c ow late h
    exact absurd (List.mem_singleton.mp h).symm (hrun c ow late)
  · intro k v hn hg
    exact absurd (issued_of_get hg) hn

theorem mem_expand_cases {r : OwnerRec} {x : Nat} {late : Bool} {f : Frame} (h : f ∈ expand r x late) :
    (∃ c, c ∈ r.children ∧ f = Frame.visit c late) ∨ (∃ c, c ∈ r.cleanups ∧ f = Frame.run c x late) ∨
      (∃ k, k ∈ r.nodes ∧ f = Frame.remove k late) := by
  unfold expand at h
  simp only [List.mem_append, List.mem_map] at h
  rcases h with ⟨c, hc, h⟩ | ⟨c, hc, h⟩ | ⟨k, hk, h⟩
  · exact Or.inl ⟨c, hc, h.symm⟩
  · exact Or.inr (Or.inl ⟨c, hc, h.symm⟩)
  · exact Or.inr (Or.inr ⟨k, hk, h.symm⟩)

theorem FrameInv.step {st : Core} (hst : NodesOK st) {o : Nat} {s : Core} (f : Frame) (fs : List Frame)
    (h : FrameInv st o s (f :: fs)) : FrameInv st o (stepFrame s f).1 ((stepFrame s f).2 ++ fs) := by
  have tail_visits : ∀ x late, Frame.visit x late ∈ fs ∨ Frame.drop x late ∈ fs → Touch st o x :=
    fun x late hx => h.visits x late (hx.imp (List.mem_cons_of_mem _) (List.mem_cons_of_mem _))
  have tail_removes := fun k late (hk : Frame.remove k late ∈ fs) => h.removes k late (List.mem_cons_of_mem _ hk)
  have tail_runs := fun c ow late (hk : Frame.run c ow late ∈ fs) => h.runs c ow late (List.mem_cons_of_mem _ hk)
  -- a step that rewrites the record of a touched owner `x`, clearing its three lists
  have clear : ∀ (x : Nat) (r r' : OwnerRec) (late : Bool), Touch st o x → s.owners[x]? = some r →
      r'.children = [] → r'.nodes = [] → r'.cleanups = [] →
      FrameInv st o (s.setOwner x r') (expand r x late ++ fs) := by
    intro x r r' late htx hr hc0 hn0 hcl0
    have rch : ∀ c, c ∈ r.children → c ∈ childrenOf st x := fun c hc =>
      h.children x c (by rw [childrenOf_eq]; unfold fieldOf; rw [hr]; exact hc)
    have rno : ∀ k, k ∈ r.nodes → k ∈ nodesOf st x ∨ ¬ Issued st.arena k := fun k hk =>
      h.nodes x k (by rw [nodesOf_eq]; unfold fieldOf; rw [hr]; exact hk)
    have rcl : ∀ c, c ∈ r.cleanups → c ∈ cleanupsOf st x ∨ (st.nextCid ≤ c.cid ∧ c.drops = none) := fun c hc =>
      h.cleanups x c (by rw [cleanupsOf_eq]; unfold fieldOf; rw [hr]; exact hc)
    refine ⟨h.wf, h.le, h.cur, ?_, ?_, ?_, h.nextCid, ?_, ?_, ?_, h.old, h.fresh, ?_, h.keys, h.log⟩
    · intro y l2 hy
      rcases hy with hy | hy
      · rcases List.mem_append.mp hy with hy | hy
        · rcases mem_expand_cases hy with ⟨c, hc, he⟩ | ⟨c, _, he⟩ | ⟨k, _, he⟩
          · cases he; exact Touch.child htx (rch _ hc)
          · cases he
          · cases he
        · exact tail_visits y l2 (Or.inl hy)
      · rcases List.mem_append.mp hy with hy | hy
        · rcases mem_expand_cases hy with ⟨c, _, he⟩ | ⟨c, _, he⟩ | ⟨k, _, he⟩ <;> cases he
        · exact tail_visits y l2 (Or.inr hy)
    · intro k l2 hk
      rcases List.mem_append.mp hk with hk | hk
      · rcases mem_expand_cases hk with ⟨c, _, he⟩ | ⟨c, _, he⟩ | ⟨k', hk', he⟩
        · cases he
        · cases he
        · cases he
          rcases rno _ hk' with h1 | h1
          · exact Or.inl ⟨x, htx, h1⟩
          · exact Or.inr h1
      · exact tail_removes k l2 hk
    · intro c ow l2 hk
      rcases List.mem_append.mp hk with hk | hk
      · rcases mem_expand_cases hk with ⟨c', _, he⟩ | ⟨c', hc', he⟩ | ⟨k', _, he⟩
        · cases he
        · cases he
          rcases rcl _ hc' with h1 | h1
          · exact Or.inl ⟨x, htx, h1⟩
          · exact Or.inr h1
        · cases he
      · exact tail_runs c ow l2 hk
    · intro y c hc
      rw [childrenOf_eq, fieldOf_setOwner _ _ hr] at hc
      by_cases hy : y = x
      · simp only [hy, if_true, hc0] at hc; cases hc
      · simp only [hy, if_false] at hc; exact h.children y c hc
    · intro y k hk
      rw [nodesOf_eq, fieldOf_setOwner _ _ hr] at hk
      by_cases hy : y = x
      · simp only [hy, if_true, hn0] at hk; cases hk
      · simp only [hy, if_false] at hk; exact h.nodes y k hk
    · intro y c hc
      rw [cleanupsOf_eq, fieldOf_setOwner _ _ hr] at hc
      by_cases hy : y = x
      · simp only [hy, if_true, hcl0] at hc; cases hc
      · simp only [hy, if_false] at hc; exact h.cleanups y c hc
    · intro y hy hamb
      have hyx : x ≠ y := fun e => hy (e ▸ htx)
      simp only [setOwner_owners]
      rw [List.getElem?_set_ne hyx]
      exact h.owners y hy hamb
  have noop : FrameInv st o s fs :=
    ⟨h.wf, h.le, h.cur, tail_visits, tail_removes, tail_runs, h.nextCid, h.children, h.nodes, h.cleanups,
      h.old, h.fresh, h.owners, h.keys, h.log⟩
  cases f with
  | visit x late =>
    have htx : Touch st o x := h.visits x late (Or.inl (List.mem_cons_self ..))
    cases hr : s.owners[x]? with
    | none => simp only [stepFrame, hr, List.nil_append]; exact noop
    | some r =>
      by_cases ha : r.alive = true
      · simp only [stepFrame, hr, ha, if_true]; exact clear x r _ late htx hr rfl rfl rfl
      · simp only [stepFrame, hr, ha, if_false, Bool.false_eq_true, List.nil_append]; exact noop
  | drop x late =>
    have htx : Touch st o x := h.visits x late (Or.inr (List.mem_cons_self ..))
    cases hr : s.owners[x]? with
    | none => simp only [stepFrame, hr, List.nil_append]; exact noop
    | some r => simp only [stepFrame, hr]; exact clear x r _ late htx hr rfl rfl rfl
  | run c ow late =>
    have hrun := h.runs c ow late (List.mem_cons_self ..)
    -- the log entry
    have hlog : ∀ tag cid ow' l2, Ev.c tag cid ow' l2 ∈ s.log ++ [Ev.c c.tag c.cid ow late] →
        Ev.c tag cid ow' l2 ∈ st.log ∨ (∃ x c, Touch st o x ∧ c ∈ cleanupsOf st x ∧ c.cid = cid) ∨ st.nextCid ≤ cid := by
      intro tag cid ow' l2 hm
      rcases List.mem_append.mp hm with hm | hm
      · exact h.log tag cid ow' l2 hm
      · have := List.mem_singleton.mp hm
        cases this
        rcases hrun with ⟨x, hx, hc⟩ | ⟨hge, _⟩
        · exact Or.inr (Or.inl ⟨x, c, hx, hc, rfl⟩)
        · exact Or.inr (Or.inr hge)
    -- what the closure owns is dropped after it has run: an owner of the scope
    have mem_clos : ∀ g, g ∈ closureFrames s.cur c → ∃ ow', c.drops = some ow' ∧ g = Frame.drop ow' true := by
      intro g hg
      unfold closureFrames at hg
      split at hg
      · next ow' hd =>
        split at hg
        · cases hg
        · exact ⟨ow', hd, List.mem_singleton.mp hg⟩
      · cases hg
    have vis' : ∀ x l2, Frame.visit x l2 ∈ closureFrames s.cur c ++ fs ∨ Frame.drop x l2 ∈ closureFrames s.cur c ++ fs →
        Touch st o x := by
      intro x l2 hx
      rcases hx with hx | hx
      · rcases List.mem_append.mp hx with hx | hx
        · obtain ⟨_, _, he⟩ := mem_clos _ hx; cases he
        · exact tail_visits x l2 (Or.inl hx)
      · rcases List.mem_append.mp hx with hx | hx
        · obtain ⟨ow', hd, he⟩ := mem_clos _ hx
          cases he
          rcases hrun with ⟨y, hy, hc⟩ | ⟨_, hnone⟩
          · exact Touch.cdrop hy hc hd
          · rw [hnone] at hd; cases hd
        · exact tail_visits x l2 (Or.inr hx)
    have rem' : ∀ k l2, Frame.remove k l2 ∈ closureFrames s.cur c ++ fs →
        (∃ x, Touch st o x ∧ k ∈ nodesOf st x) ∨ ¬ Issued st.arena k := by
      intro k l2 hk
      rcases List.mem_append.mp hk with hk | hk
      · obtain ⟨_, _, he⟩ := mem_clos _ hk; cases he
      · exact tail_removes k l2 hk
    have run' : ∀ c' ow' l2, Frame.run c' ow' l2 ∈ closureFrames s.cur c ++ fs →
        (∃ x, Touch st o x ∧ c' ∈ cleanupsOf st x) ∨ (st.nextCid ≤ c'.cid ∧ c'.drops = none) := by
      intro c' ow' l2 hk
      rcases List.mem_append.mp hk with hk | hk
      · obtain ⟨_, _, he⟩ := mem_clos _ hk; cases he
      · exact tail_runs c' ow' l2 hk
    by_cases hn : c.nested = true
    · simp only [stepFrame, hn, if_true, List.nil_append]
      -- s1 = log, s2 = regCleanup, s3 = newItem, then the handle table
      let s1 := logEv s (Ev.c c.tag c.cid ow late)
      let s2 := regCleanup s1 (c.tag + 100) false none
      have hcur1 : currentOwner s1 = currentOwner s := rfl
      obtain ⟨r_own, r_cl, r_cur⟩ := regCleanup_spec s1 (c.tag + 100) false none
      have hs12 : SameShape s1 s2 := SameShape.regCleanup s1 _ _ _
      have hcur2 : currentOwner s2 = currentOwner s :=
        (currentOwner_congr r_cur hs12.alive).trans hcur1
      obtain ⟨i_arena, i_alive, i_sub, i_mono, i_new⟩ := newItem_spec s2 (Val.num c.tag)
      have hs2arena : s2.arena = s.arena := hs12.arena
      -- the ambient owner of `s` is the ambient owner of `st` or nobody
      have hamb : ∀ x, currentOwner s = some x → currentOwner st = some x ∨ Touch st o x := by
        intro x hx
        by_cases ht : Touch st o x
        · exact Or.inr ht
        · left
          unfold currentOwner at hx ⊢
          rw [h.cur] at hx
          cases hcs : st.cur with
          | nil => rw [hcs] at hx; cases hx
          | cons y rest =>
            rw [hcs] at hx
            simp only at hx ⊢
            by_cases hal : s.aliveB y = true
            · simp only [hal, if_true] at hx
              cases hx
              -- `x` is untouched: its record is the one of `st` unless it is the ambient owner, which is what we prove
              by_cases hst_al : st.aliveB x = true
              · simp [hst_al]
              · exfalso
                -- if `x` were not the ambient owner of `st`, its record (and `alive`) would be unchanged
                have hne : currentOwner st ≠ some x := by
                  unfold currentOwner; rw [hcs]; simp [hst_al]
                have := h.owners x ht hne
                unfold Core.aliveB at hal hst_al
                rw [this] at hal
                exact hst_al hal
            · simp only [hal, if_false, Bool.false_eq_true] at hx; cases hx
      have k0_fresh : ¬ Issued st.arena (s2.arena.insert (Val.num c.tag)).2 := by
        intro hi
        have := h.le.issued _ hi
        rw [← hs2arena] at this
        exact insert_key_not_issued _ _ this
      unfold newStored
      refine ⟨?_, ?_, ?_, vis', rem', run', ?_, ?_, ?_, ?_, ?_, ?_, ?_, ?_, ?_⟩
      · show (newItem s2 (Val.num c.tag)).1.arena.WF
        rw [i_arena, hs2arena]; exact h.wf.insert _
      · show ArenaLe st.arena (newItem s2 (Val.num c.tag)).1.arena
        rw [i_arena, hs2arena]; exact h.le.trans (ArenaLe.insert _ _)
      · show (newItem s2 (Val.num c.tag)).1.cur = st.cur
        rw [newItem_cur, r_cur]; exact h.cur
      · show st.nextCid ≤ (newItem s2 (Val.num c.tag)).1.nextCid
        rw [newItem_nextCid, regCleanup_nextCid]
        have := h.nextCid
        show st.nextCid ≤ s.nextCid + 1
        omega
      · intro x c' hc'
        have : c' ∈ childrenOf s x := by
          have e1 : childrenOf (newItem s2 (Val.num c.tag)).1 x = childrenOf s2 x :=
            fieldOf_newItem (·.children) [] s2 _ (fun _ _ => rfl) x
          have hc2 : c' ∈ childrenOf (newItem s2 (Val.num c.tag)).1 x := hc'
          rw [e1, hs12.children] at hc2
          exact hc2
        exact h.children x c' this
      · intro x k hk
        have hk2 : k ∈ nodesOf (newItem s2 (Val.num c.tag)).1 x := hk
        rcases i_sub x k hk2 with h1 | h1
        · rw [hs12.nodes] at h1; exact h.nodes x k h1
        · rw [h1]; exact Or.inr k0_fresh
      · intro x c' hc'
        have hc2 : c' ∈ cleanupsOf (newItem s2 (Val.num c.tag)).1 x := hc'
        have e1 : cleanupsOf (newItem s2 (Val.num c.tag)).1 x = cleanupsOf s2 x :=
          fieldOf_newItem (·.cleanups) [] s2 _ (fun _ _ => rfl) x
        rw [e1] at hc2
        rcases r_cl x c' hc2 with h1 | h1
        · exact h.cleanups x c' h1
        · right
          have : s1.nextCid = s.nextCid := rfl
          exact ⟨by rw [h1.1, this]; exact h.nextCid, h1.2⟩
      · intro k v hi hg
        have hg2 : (newItem s2 (Val.num c.tag)).1.arena.get k = some v := hg
        rw [i_arena, hs2arena] at hg2
        have hne : k ≠ (s.arena.insert (Val.num c.tag)).2 := by
          intro e; subst e
          exact insert_key_not_issued _ _ (h.le.issued _ hi)
        exact h.old k v hi (insert_get_rev _ _ _ _ hg2 hne)
      · intro k v hni hg
        have hg2 : (newItem s2 (Val.num c.tag)).1.arena.get k = some v := hg
        rw [i_arena, hs2arena] at hg2
        by_cases hne : k = (s.arena.insert (Val.num c.tag)).2
        · subst hne
          rw [insert_get_self] at hg2
          cases hg2; exact ⟨_, rfl⟩
        · exact h.fresh k v hni (insert_get_rev _ _ _ _ hg2 hne)
      · intro x hx hambx
        have hne : currentOwner s ≠ some x := by
          intro e
          rcases hamb x e with h1 | h1
          · exact hambx h1
          · exact hx h1
        show (newItem s2 (Val.num c.tag)).1.owners[x]? = st.owners[x]?
        rw [newItem_get_ne s2 _ x (by rw [hcur2]; exact hne), r_own x (by rw [hcur1]; exact hne)]
        exact h.owners x hx hambx
      · intro k w hk hno
        show (newItem s2 (Val.num c.tag)).1.arena.get k = some w
        rw [i_arena, hs2arena]
        exact insert_get_other h.wf _ k w (h.keys k w hk hno)
      · intro tag cid ow' l2 hm
        have hm2 : Ev.c tag cid ow' l2 ∈ (newItem s2 (Val.num c.tag)).1.log := hm
        rw [newItem_log, regCleanup_log] at hm2
        exact hlog tag cid ow' l2 hm2
    · simp only [stepFrame, hn, if_false, Bool.false_eq_true, List.nil_append]
      exact ⟨h.wf, h.le, h.cur, vis', rem', run', h.nextCid, h.children, h.nodes,
        h.cleanups, h.old, h.fresh, h.owners, h.keys, hlog⟩
  | remove k0 late =>
    have hrem := h.removes k0 late (List.mem_cons_self ..)
    simp only [stepFrame]
    refine ⟨h.wf.remove k0, h.le.trans (ArenaLe.remove _ _), h.cur, ?_, ?_, ?_, h.nextCid, h.children, h.nodes,
      h.cleanups, ?_, ?_, h.owners, ?_, h.log⟩
    · intro x l2 hx
      rcases hx with hx | hx
      · rcases List.mem_append.mp hx with hx | hx
        · unfold dropFrames at hx; split at hx
          · simp at hx
          · cases hx
        · exact tail_visits x l2 (Or.inl hx)
      · rcases List.mem_append.mp hx with hx | hx
        · unfold dropFrames at hx
          split at hx
          · next m ow' hv =>
            simp only [List.mem_singleton, Frame.drop.injEq] at hx
            obtain ⟨rfl, _⟩ := hx
            -- the removed value is a memo: its key is old, so the memo is recorded in `st`
            have hget : s.arena.get k0 = some (Val.memo m x) := by rw [← remove_result]; exact hv
            rcases hrem with ⟨y, hy, hky⟩ | hfresh
            · have hi := hst y k0 hky
              exact Touch.memo hy hky (h.old k0 _ hi hget)
            · obtain ⟨n, hn⟩ := h.fresh k0 _ hfresh hget
              cases hn
          · cases hx
        · exact tail_visits x l2 (Or.inr hx)
    · intro k l2 hk
      rcases List.mem_append.mp hk with hk | hk
      · unfold dropFrames at hk; split at hk
        · simp at hk
        · cases hk
      · exact tail_removes k l2 hk
    · intro c ow l2 hk
      rcases List.mem_append.mp hk with hk | hk
      · unfold dropFrames at hk; split at hk
        · simp at hk
        · cases hk
      · exact tail_runs c ow l2 hk
    · intro k v hi hg
      by_cases hne : k = k0
      · subst hne; rw [remove_get_self] at hg; cases hg
      · rw [remove_get_other _ _ _ hne] at hg; exact h.old k v hi hg
    · intro k v hi hg
      by_cases hne : k = k0
      · subst hne; rw [remove_get_self] at hg; cases hg
      · rw [remove_get_other _ _ _ hne] at hg; exact h.fresh k v hi hg
    · intro k w hk hno
      have hne : k ≠ k0 := by
        intro e; subst e
        rcases hrem with ⟨y, hy, hky⟩ | hfresh
        · exact hno y hy hky
        · exact hfresh (issued_of_get hk)
      rw [remove_get_other _ _ _ hne]
      exact h.keys k w hk hno

end Leptos.Owner

namespace Leptos.Owner

/-! ## the arena's free list stays well formed along every history -/

theorem arenaWF_step (st : Core) (f : Frame) (h : st.arena.WF) : (stepFrame st f).1.arena.WF := by
  cases f with
  | visit o late =>
    cases hr : st.owners[o]? with
    | none => simp only [stepFrame, hr]; exact h
    | some r =>
      by_cases ha : r.alive = true
      · simp only [stepFrame, hr, ha, if_true]; exact h
      · simp only [stepFrame, hr, ha, if_false, Bool.false_eq_true]; exact h
  | drop o late =>
    cases hr : st.owners[o]? with
    | none => simp only [stepFrame, hr]; exact h
    | some r => simp only [stepFrame, hr]; exact h
  | run c ow late =>
    by_cases hn : c.nested = true
    · simp only [stepFrame, hn, if_true]
      rw [newStored_arena, regCleanup_arena]; exact h.insert _
    · simp only [stepFrame, hn, if_false, Bool.false_eq_true]; exact h
  | remove k late => simp only [stepFrame]; exact h.remove k

theorem arenaWF_prim {a b : Core} (hp : CorePrim a b) (h : a.arena.WF) : b.arena.WF := by
  rcases SameShape.prim_light hp with hs | ⟨v, rfl⟩ | ⟨p, paused, _, rfl⟩ | ⟨f, _, rfl⟩
  · rw [hs.arena]; exact h
  · rw [newItem_arena]; exact h.insert v
  · rw [newOwnerUnder_arena]; exact h
  · exact runPass_inv (fun s _ => s.arena.WF) (fun s f _ hs => arenaWF_step s f hs) a _ h

theorem arenaWF_reach {a b : Core} (h : CoreReach a b) (ha : a.arena.WF) : b.arena.WF :=
  CoreReach.inv (fun _ _ hp => arenaWF_prim hp) h ha

/-! ## frame theorems for the three passes -/

/-- **`cleanup` touches nothing outside the scope** (`Touch`), except that cleanups which register
work while they run put it on the ambient owner -/
theorem cleanupOwner_frame {st : Core} (hwf : st.arena.WF) (hn : NodesOK st) (o : Nat) :
    FrameInv st o (cleanupOwner st o) [] := by
  refine runPass_inv (FrameInv st o) (fun s f fs h => h.step hn f fs) st _ ?_
  exact FrameInv.init hwf o _ (fun x late h => by rcases h with h | h <;> cases h <;> rfl)
    (fun k late h => by cases h) (fun c ow late h => by cases h)

theorem dropOwner_frame {st : Core} (hwf : st.arena.WF) (hn : NodesOK st) (o : Nat) :
    FrameInv st o (dropOwner st o) [] := by
  refine runPass_inv (FrameInv st o) (fun s f fs h => h.step hn f fs) st _ ?_
  exact FrameInv.init hwf o _ (fun x late h => by rcases h with h | h <;> cases h <;> rfl)
    (fun k late h => by cases h) (fun c ow late h => by cases h)

end Leptos.Owner
