import LeptosModel.Proofs.KeyedFinal
/-!
# `Keyed::build` + `KeyedState::mount` produce a well-formed, mounted list (C11)
-/
namespace Leptos.Keyed

/-- the items `build` creates for `keys`, ids from `next` on -/
def itemsOf (bs : Nat) : List Key → Nat → List Item
  | [], _ => []
  | k :: ks, next => { key := k, nodes := List.range' next bs } :: itemsOf bs ks (next + bs)

theorem itemsOf_keys (bs : Nat) : ∀ (keys : List Key) (next : Nat), (itemsOf bs keys next).map (·.key) = keys
  | [], _ => rfl
  | k :: ks, next => by simp [itemsOf, itemsOf_keys bs ks]

theorem blocks_itemsOf (bs : Nat) : ∀ (keys : List Key) (next : Nat),
    blocks (itemsOf bs keys next) = List.range' next (bs * keys.length)
  | [], _ => by simp [itemsOf]
  | k :: ks, next => by
    simp only [itemsOf, blocks_cons, blocks_itemsOf bs ks, List.length_cons]
    rw [Nat.mul_add, Nat.mul_one, Nat.add_comm (bs * ks.length) bs]
    exact (List.range'_append_1 ..)

theorem buildLoop_eq (bs : Nat) : ∀ (keys : List Key) (idx : Nat) (w : World),
    (buildLoop bs keys idx w).storage = w.storage ++ (itemsOf bs keys w.next).map some ∧
    (buildLoop bs keys idx w).next = w.next + bs * keys.length ∧
    (buildLoop bs keys idx w).kids = w.kids
  | [], _, w => by simp [buildLoop, itemsOf]
  | k :: ks, idx, w => by
    simp only [buildLoop, buildItem]
    obtain ⟨h1, h2, h3⟩ := buildLoop_eq bs ks (idx + 1)
      { kids := w.kids, storage := w.storage ++ [some { key := k, nodes := List.range' w.next bs }],
        next := w.next + bs, log := { w.log with builds := w.log.builds ++ [(k, idx)] } }
    refine ⟨?_, ?_, ?_⟩
    · rw [h1]; simp [itemsOf]
    · rw [h2]; simp only [List.length_cons, Nat.mul_add, Nat.mul_one]; omega
    · rw [h3]

theorem mountItem_none_fresh : ∀ (b : List NodeId) (ks : List NodeId), b.Nodup → (∀ n ∈ b, n ∉ ks) →
    b.foldl (fun ks n => insertBefore ks n none) ks = ks ++ b
  | [], ks, _, _ => by simp
  | n :: b, ks, hb, hd => by
    simp only [List.nodup_cons] at hb
    have hn : n ∉ ks := hd n (by simp)
    have h0 : insertBefore ks n none = ks ++ [n] := by simp [insertBefore, List.erase_of_not_mem hn]
    rw [List.foldl_cons, h0]
    rw [mountItem_none_fresh b (ks ++ [n]) hb.2 (by
      intro m hm hmk
      simp only [List.mem_append, List.mem_singleton] at hmk
      rcases hmk with hmk | rfl
      · exact hd m (by simp [hm]) hmk
      · exact hb.1 hm)]
    simp

theorem mount_all_fresh : ∀ (items : List Item) (ks : List NodeId), (blocks items).Nodup →
    (∀ n ∈ blocks items, n ∉ ks) →
    items.foldl (fun ks it => mountItem ks it none) ks = ks ++ blocks items
  | [], ks, _, _ => by simp
  | it :: items, ks, hb, hd => by
    rw [blocks_cons, List.nodup_append] at hb
    simp only [List.foldl_cons, mountItem]
    rw [mountItem_none_fresh it.nodes ks hb.1 (fun n hn => hd n (by simp [hn]))]
    have := mount_all_fresh items (ks ++ it.nodes) hb.2.1 (by
      intro n hn hk
      simp only [List.mem_append] at hk
      rcases hk with hk | hk
      · exact hd n (by simp [hn]) hk
      · exact hb.2.2 n hk n hn rfl)
    simp only [mountItem] at this
    rw [this]
    simp

/-- **`build` then `mount(parent, None)`**: for any duplicate-free keys, any block size ≥ 1 and any
duplicate-free existing children below the id counter, the result is `Wf` and `Mounted` right after
the existing children (which then are the `pre` siblings). -/
theorem build_mount_wf (bs : Nat) (keys : List Key) (kids : List NodeId) (next : Nat) (hbs : 0 < bs)
    (hk : keys.Nodup) (hkids : kids.Nodup) (hfr : ∀ n ∈ kids, n < next) :
    Wf ((build bs keys kids next).mount none) ∧ Mounted kids [] ((build bs keys kids next).mount none) := by
  obtain ⟨h1, h2, h3⟩ := buildLoop_eq bs keys 0 { kids := kids, storage := [], next := next }
  simp only [List.nil_append] at h1 h2 h3
  have hsomes : somes (buildLoop bs keys 0 { kids := kids, storage := [], next := next }).storage
      = itemsOf bs keys next := by rw [h1]; exact somes_map_some _
  have hblocks := blocks_itemsOf bs keys next
  have hlt : ∀ n ∈ List.range' next (bs * keys.length), next ≤ n ∧ n < next + bs * keys.length := by
    intro n hn; simpa [List.mem_range'_1] using hn
  have hmount : ((build bs keys kids next).mount none).w.kids
      = kids ++ blocks (itemsOf bs keys next) ++ [next + bs * keys.length] := by
    simp only [KState.mount, build]
    show insertBefore (List.foldl (fun ks it => mountItem ks it none)
      (buildLoop bs keys 0 { kids := kids, storage := [], next := next }).kids
      (somes (buildLoop bs keys 0 { kids := kids, storage := [], next := next }).storage))
      (buildLoop bs keys 0 { kids := kids, storage := [], next := next }).next none = _
    rw [hsomes, h2, h3, mount_all_fresh _ _ (by rw [hblocks]; exact List.nodup_range' ..) (by
      intro n hn hk'
      rw [hblocks] at hn
      exact absurd (hfr n hk') (Nat.not_lt.mpr (hlt n hn).1))]
    simp only [insertBefore]
    rw [List.erase_of_not_mem]
    intro hm
    simp only [List.mem_append] at hm
    rcases hm with hm | hm
    · exact absurd (hfr _ hm) (Nat.not_lt.mpr (Nat.le_add_right _ _))
    · rw [hblocks] at hm
      exact absurd (hlt _ hm).2 (Nat.lt_irrefl _)
  have hst : ((build bs keys kids next).mount none).w.storage = (itemsOf bs keys next).map some := h1
  refine ⟨⟨?_, ?_, hk⟩, ⟨?_, ?_, ?_, ?_, hbs, rfl⟩⟩
  · rw [hst, somes_map_some]
  · rw [hst, somes_map_some]; exact itemsOf_keys bs keys next
  · rw [hmount, blocksOf_eq, hst, somes_map_some]
    show _ = kids ++ blocks (itemsOf bs keys next) ++ (buildLoop bs keys 0 _).next :: []
    rw [h2]
  · rw [hmount, hblocks, List.nodup_append, List.nodup_append]
    refine ⟨⟨hkids, List.nodup_range' .., ?_⟩, by simp, ?_⟩
    · intro a ha b hb hab
      subst hab
      exact absurd (hfr a ha) (Nat.not_lt.mpr (hlt a hb).1)
    · intro a ha b hb hab
      simp only [List.mem_singleton] at hb
      subst hab hb
      simp only [List.mem_append] at ha
      rcases ha with ha | ha
      · exact absurd (hfr _ ha) (Nat.not_lt.mpr (Nat.le_add_right _ _))
      · exact absurd (hlt _ ha).2 (Nat.lt_irrefl _)
  · rw [hst, somes_map_some]
    intro z hz
    have : ∀ (keys : List Key) (next : Nat), ∀ z ∈ itemsOf bs keys next, z.nodes ≠ [] := by
      intro keys
      induction keys with
      | nil => intro _ z hz; simp [itemsOf] at hz
      | cons k ks ih =>
        intro next z hz
        simp only [itemsOf, List.mem_cons] at hz
        rcases hz with rfl | hz
        · intro h
          have := congrArg List.length h
          simp at this; omega
        · exact ih _ z hz
    exact this keys next z hz
  · intro n hn
    rw [hmount, hblocks] at hn
    show n < (buildLoop bs keys 0 { kids := kids, storage := [], next := next }).next + 1
    rw [h2]
    simp only [List.mem_append, List.mem_singleton] at hn
    rcases hn with (hn | hn) | hn
    · exact Nat.lt_of_lt_of_le (hfr n hn) (by omega)
    · exact Nat.lt_of_lt_of_le (hlt n hn).2 (by omega)
    · rw [hn]; exact Nat.lt_succ_self _

end Leptos.Keyed
