import LeptosModel.Proofs.KeyedApply
/-!
# List lemmas for the DOM half of C11: `insertBefore`, blocks of nodes, insertion into a sequence
-/
namespace Leptos.Keyed

/-- insert `x` in front of the first occurrence of `y` (at the end if `y` does not occur) -/
def insB {α : Type} [DecidableEq α] (y x : α) : List α → List α
  | [] => [x]
  | a :: l => if a = y then x :: a :: l else a :: insB y x l

section
variable {α : Type} [DecidableEq α]

theorem insB_of_not_mem {y x : α} : ∀ {l : List α}, y ∉ l → insB y x l = l ++ [x]
  | [], _ => rfl
  | a :: l, h => by
    simp only [List.mem_cons, not_or] at h
    simp [insB, Ne.symm h.1, insB_of_not_mem h.2]

theorem insB_append_of_not_mem {y x : α} : ∀ {A : List α} (B : List α), y ∉ A →
    insB y x (A ++ y :: B) = A ++ x :: y :: B
  | [], B, _ => by simp [insB]
  | a :: A, B, h => by
    simp only [List.mem_cons, not_or] at h
    simp [insB, Ne.symm h.1, insB_append_of_not_mem B h.2]

theorem mem_insB {y x a : α} : ∀ {l : List α}, a ∈ insB y x l ↔ a = x ∨ a ∈ l
  | [] => by simp [insB]
  | b :: l => by
    unfold insB
    split
    · simp
    · simp only [List.mem_cons, mem_insB (l := l)]
      constructor
      · rintro (h | h | h) <;> simp [h]
      · rintro (h | h | h) <;> simp [h]

theorem nodup_insB {y x : α} : ∀ {l : List α}, l.Nodup → x ∉ l → (insB y x l).Nodup
  | [], _, _ => by simp [insB]
  | b :: l, h, hx => by
    simp only [List.mem_cons, not_or] at hx
    unfold insB
    split
    · exact List.nodup_cons.mpr ⟨by simp [hx.1, hx.2], h⟩
    · rw [List.nodup_cons] at h ⊢
      refine ⟨?_, nodup_insB h.2 hx.2⟩
      rw [mem_insB]
      rintro (h1 | h1)
      · exact hx.1 h1.symm
      · exact h.1 h1

theorem insB_cons_self (y x : α) (l : List α) : insB y x (y :: l) = x :: y :: l := by simp [insB]

theorem insB_cons_ne {y x a : α} (l : List α) (h : a ≠ y) : insB y x (a :: l) = a :: insB y x l := by
  simp [insB, h]

/-- filtering commutes with the insertion when the inserted element and the anchor survive -/
theorem filter_insB {y x : α} (p : α → Bool) (hx : p x = true) : ∀ {l : List α},
    (y ∈ l → p y = true) → (insB y x l).filter p = insB y x (l.filter p)
  | [], _ => by simp [insB, hx]
  | a :: l, hy => by
    by_cases h : a = y
    · subst h
      have := hy (by simp)
      rw [insB_cons_self, List.filter_cons_of_pos hx, List.filter_cons_of_pos this,
        insB_cons_self]
    · have ih := filter_insB p hx (l := l) (fun hm => hy (by simp [hm]))
      rw [insB_cons_ne l h]
      by_cases hpa : p a = true
      · rw [List.filter_cons_of_pos hpa, List.filter_cons_of_pos hpa, ih, insB_cons_ne _ h]
      · rw [List.filter_cons_of_neg hpa, List.filter_cons_of_neg hpa, ih]

end

theorem insBefore_eq_insB (r n : NodeId) : ∀ (l : List NodeId), insBefore r n l = insB r n l
  | [] => rfl
  | a :: l => by
    unfold insBefore insB
    by_cases h : a = r
    · simp [h]
    · simp [h, insBefore_eq_insB r n l]

/-! ### `insertBefore` on a duplicate-free child list -/

theorem insertBefore_of_mem {kids : List NodeId} {n r : NodeId} (h : r ∈ kids) :
    insertBefore kids n (some r) = insB r n (kids.erase n) := by
  simp [insertBefore, h, insBefore_eq_insB]

/-- a reference that is not a child: nothing happens (`NotFoundError`) -/
theorem insertBefore_of_not_mem {kids : List NodeId} {n r : NodeId} (h : r ∉ kids) :
    insertBefore kids n (some r) = kids := by
  simp [insertBefore, h]

theorem mem_insertBefore {kids : List NodeId} {n a : NodeId} {ref : Option NodeId}
    (h : a ∈ insertBefore kids n ref) : a = n ∨ a ∈ kids := by
  unfold insertBefore at h
  cases ref with
  | none =>
    simp only [List.mem_append, List.mem_singleton] at h
    rcases h with h | h
    · exact Or.inr (List.mem_of_mem_erase h)
    · exact Or.inl h
  | some r =>
    simp only at h
    split at h
    · rw [insBefore_eq_insB, mem_insB] at h
      rcases h with h | h
      · exact Or.inl h
      · exact Or.inr (List.mem_of_mem_erase h)
    · exact Or.inr h

theorem nodup_insertBefore {kids : List NodeId} (n : NodeId) (ref : Option NodeId) (h : kids.Nodup) :
    (insertBefore kids n ref).Nodup := by
  unfold insertBefore
  have h1 : (kids.erase n).Nodup := List.Nodup.sublist List.erase_sublist h
  have h2 : n ∉ kids.erase n := fun hm => (List.Nodup.mem_erase_iff h).mp hm |>.1 rfl
  cases ref with
  | none =>
    simp only
    rw [List.nodup_append]
    exact ⟨h1, by simp, by intro a ha b hb; simp at hb; subst hb; rintro rfl; exact h2 ha⟩
  | some r =>
    simp only
    split
    · rw [insBefore_eq_insB]
      exact nodup_insB h1 h2
    · exact h

theorem mem_mountItem {kids : List NodeId} {it : Item} {ref : Option NodeId} {a : NodeId}
    (h : a ∈ mountItem kids it ref) : a ∈ it.nodes ∨ a ∈ kids := by
  unfold mountItem at h
  generalize it.nodes = b at h
  induction b generalizing kids with
  | nil => exact Or.inr (by simpa using h)
  | cons n b ih =>
    simp only [List.foldl_cons] at h
    rcases ih h with h1 | h1
    · exact Or.inl (by simp [h1])
    · rcases mem_insertBefore h1 with h2 | h2
      · exact Or.inl (by simp [h2])
      · exact Or.inr h2

theorem nodup_mountItem {kids : List NodeId} (it : Item) (ref : Option NodeId) (h : kids.Nodup) :
    (mountItem kids it ref).Nodup := by
  unfold mountItem
  generalize it.nodes = b
  induction b generalizing kids with
  | nil => simpa
  | cons n b ih => exact ih (nodup_insertBefore n ref h)

/-- mounting a block in front of `ref`: the block's nodes leave their old places and stand, in
order, directly before `ref` -/
theorem mount_block (ref : NodeId) (A B : List NodeId) : ∀ (b cur : List NodeId),
    cur.Nodup → b.Nodup → ref ∉ b → cur.filter (fun a => !b.contains a) = A ++ ref :: B →
    b.foldl (fun ks n => insertBefore ks n (some ref)) cur = A ++ b ++ ref :: B
  | [], cur, _, _, _, h => by
    have : cur.filter (fun a => !([] : List NodeId).contains a) = cur :=
      List.filter_eq_self.mpr (by simp)
    rw [this] at h
    simp [h]
  | n :: b, cur, hc, hb, hr, h => by
    simp only [List.foldl_cons]
    simp only [List.nodup_cons] at hb
    simp only [List.mem_cons, not_or] at hr
    have hA : ref ∉ A := by
      have hnd : (A ++ ref :: B).Nodup := h ▸ List.Nodup.sublist List.filter_sublist hc
      rw [List.nodup_append] at hnd
      intro hm
      exact hnd.2.2 ref hm ref (by simp) rfl
    have hstep : (insertBefore cur n (some ref)).filter (fun a => !b.contains a)
        = (A ++ [n]) ++ ref :: B := by
      have href : ref ∈ cur := by
        have : ref ∈ cur.filter (fun a => !(n :: b).contains a) := by rw [h]; simp
        exact (List.mem_filter.mp this).1
      rw [insertBefore_of_mem href]
      rw [filter_insB _ (by simpa using hb.1) (by
        intro _
        simpa using hr.2)]
      have : (cur.erase n).filter (fun a => !b.contains a)
          = cur.filter (fun a => !(n :: b).contains a) := by
        rw [List.Nodup.erase_eq_filter hc, List.filter_filter]
        apply List.filter_congr
        intro a _
        by_cases h1 : a = n <;> simp [h1]
      rw [this, h, insB_append_of_not_mem B hA]
      simp
    have := mount_block ref (A ++ [n]) B b (insertBefore cur n (some ref))
      (nodup_insertBefore n _ hc) hb.2 hr.2 hstep
    rw [this]
    simp

/-! ### blocks of nodes -/

/-- the nodes of a sequence of items -/
def blocks (l : List Item) : List NodeId := l.flatMap (·.nodes)

@[simp] theorem blocks_nil : blocks [] = [] := rfl
@[simp] theorem blocks_cons (a : Item) (l : List Item) : blocks (a :: l) = a.nodes ++ blocks l := rfl
@[simp] theorem blocks_append (a b : List Item) : blocks (a ++ b) = blocks a ++ blocks b := by
  simp [blocks]

theorem blocksOf_eq (st : List (Option Item)) : blocksOf st = blocks (somes st) := rfl

theorem mem_blocks {l : List Item} {n : NodeId} : n ∈ blocks l ↔ ∃ x ∈ l, n ∈ x.nodes := by
  simp [blocks, List.mem_flatMap]

theorem filter_not_contains_of_disjoint {l b : List NodeId} (h : ∀ a ∈ l, a ∉ b) :
    l.filter (fun a => !b.contains a) = l :=
  List.filter_eq_self.mpr (by intro a ha; simpa using h a ha)

theorem filter_not_contains_self (b : List NodeId) : b.filter (fun a => !b.contains a) = [] :=
  List.filter_eq_nil_iff.mpr (by intro a ha; simpa using ha)

theorem unmountItem_eq_filter {kids : List NodeId} (it : Item) (h : kids.Nodup) :
    unmountItem kids it = kids.filter (fun a => !it.nodes.contains a) := by
  unfold unmountItem
  generalize it.nodes = b
  induction b generalizing kids with
  | nil => exact (filter_not_contains_of_disjoint (by simp)).symm
  | cons n b ih =>
    simp only [List.foldl_cons, removeNode]
    rw [ih (List.Nodup.sublist List.erase_sublist h), List.Nodup.erase_eq_filter h, List.filter_filter]
    apply List.filter_congr
    intro a _
    by_cases h1 : a = n <;> simp [h1]

/-- items with non-empty, pairwise disjoint blocks are pairwise different -/
theorem nodup_of_blocks_nodup : ∀ {seq : List Item}, (blocks seq).Nodup → (∀ x ∈ seq, x.nodes ≠ []) →
    seq.Nodup
  | [], _, _ => List.nodup_nil
  | a :: l, h, hne => by
    rw [blocks_cons, List.nodup_append] at h
    refine List.nodup_cons.mpr ⟨?_, nodup_of_blocks_nodup h.2.1 (fun x hx => hne x (by simp [hx]))⟩
    intro ha
    obtain ⟨n, hn⟩ := List.exists_mem_of_ne_nil _ (hne a (by simp))
    exact h.2.2 n hn n (mem_blocks.mpr ⟨a, ha, hn⟩) rfl

theorem block_nodup_of_mem {seq : List Item} {x : Item} (h : (blocks seq).Nodup) (hx : x ∈ seq) :
    x.nodes.Nodup := by
  obtain ⟨s, t, rfl⟩ := List.append_of_mem hx
  rw [blocks_append, blocks_cons, List.nodup_append] at h
  exact (List.nodup_append.mp h.2.1).1

/-- two different members of a sequence with duplicate-free blocks share no node -/
theorem disjoint_of_mem {seq : List Item} {x y : Item} (h : (blocks seq).Nodup) (hx : x ∈ seq) (hy : y ∈ seq)
    (hxy : x ≠ y) : ∀ n ∈ x.nodes, n ∉ y.nodes := by
  induction seq with
  | nil => simp at hx
  | cons a l ih =>
    rw [blocks_cons, List.nodup_append] at h
    simp only [List.mem_cons] at hx hy
    intro n hn hn'
    rcases hx with rfl | hx <;> rcases hy with rfl | hy
    · exact hxy rfl
    · exact h.2.2 n hn n (mem_blocks.mpr ⟨y, hy, hn'⟩) rfl
    · exact h.2.2 n hn' n (mem_blocks.mpr ⟨x, hx, hn⟩) rfl
    · exact ih h.2.1 hx hy n hn hn'

theorem blocks_filter_of_not_mem {seq : List Item} {x : Item} (h : ∀ n ∈ x.nodes, n ∉ blocks seq) :
    (blocks seq).filter (fun a => !x.nodes.contains a) = blocks seq :=
  filter_not_contains_of_disjoint (fun a ha hx => h a hx ha)

theorem blocks_filter_erase : ∀ {seq : List Item} {x : Item}, (blocks seq).Nodup →
    (∀ z ∈ seq, z.nodes ≠ []) → x ∈ seq →
    (blocks seq).filter (fun a => !x.nodes.contains a) = blocks (seq.erase x)
  | a :: l, x, h, hne, hx => by
    have hnd := nodup_of_blocks_nodup h hne
    rw [blocks_cons, List.filter_append]
    by_cases hax : a = x
    · subst hax
      rw [filter_not_contains_self, List.erase_cons_head, List.nil_append]
      rw [blocks_cons, List.nodup_append] at h
      exact filter_not_contains_of_disjoint (fun n hn hn' => h.2.2 n hn' n hn rfl)
    · have hxl : x ∈ l := by
        simp only [List.mem_cons] at hx
        rcases hx with rfl | hx
        · exact absurd rfl hax
        · exact hx
      have hdis := disjoint_of_mem h (by simp) (List.mem_cons_of_mem a hxl) hax
      rw [filter_not_contains_of_disjoint hdis, List.erase_cons_tail (by simpa using hax), blocks_cons]
      rw [blocks_cons, List.nodup_append] at h
      rw [blocks_filter_erase h.2.1 (fun z hz => hne z (by simp [hz])) hxl]

/-! ### the region `pre ++ blocks seq ++ marker :: post` -/

/-- the parent's children with the nodes of `x` taken out -/
theorem region_filter (pre post : List NodeId) (marker : NodeId) (seq : List Item) (x : Item)
    (hnd : (pre ++ blocks seq ++ marker :: post).Nodup) (hne : ∀ z ∈ seq, z.nodes ≠ [])
    (hx : x ∈ seq ∨ ∀ n ∈ x.nodes, n ∉ pre ++ blocks seq ++ marker :: post) :
    (pre ++ blocks seq ++ marker :: post).filter (fun a => !x.nodes.contains a)
      = pre ++ blocks (seq.erase x) ++ marker :: post := by
  have h1 := List.nodup_append.mp hnd
  have h2 := List.nodup_append.mp h1.1
  rw [List.filter_append, List.filter_append]
  rcases hx with hx | hx
  · rw [blocks_filter_erase h2.2.1 hne hx]
    congr 1
    · congr 1
      exact filter_not_contains_of_disjoint (fun a ha hxa =>
        h2.2.2 a ha a (mem_blocks.mpr ⟨x, hx, hxa⟩) rfl)
    · exact filter_not_contains_of_disjoint (fun a ha hxa =>
        h1.2.2 a (List.mem_append_right _ (mem_blocks.mpr ⟨x, hx, hxa⟩)) a ha rfl)
  · have hxs : x ∉ seq ∨ x.nodes = [] := by
      by_cases hm : x ∈ seq
      · right
        cases hn : x.nodes with
        | nil => rfl
        | cons n _ =>
          exfalso
          exact hx n (by simp [hn]) (by
            simp only [List.mem_append]
            exact Or.inl (Or.inr (mem_blocks.mpr ⟨x, hm, by simp [hn]⟩)))
      · exact Or.inl hm
    have herase : blocks (seq.erase x) = blocks seq := by
      rcases hxs with hxs | hxs
      · rw [List.erase_of_not_mem hxs]
      · by_cases hm : x ∈ seq
        · exact absurd hxs (hne x hm)
        · rw [List.erase_of_not_mem hm]
    rw [herase]
    congr 1
    · congr 1
      · exact filter_not_contains_of_disjoint (fun a ha hxa => hx a hxa (by simp [ha]))
      · exact filter_not_contains_of_disjoint (fun a ha hxa => hx a hxa (by simp [ha]))
    · exact filter_not_contains_of_disjoint (fun a ha hxa => hx a hxa (by
        simp only [List.mem_append]; exact Or.inr ha))

end Leptos.Keyed
