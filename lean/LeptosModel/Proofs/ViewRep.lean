import LeptosModel.Proofs.ViewMount
/-!
# Proofs/ViewRep — `Rep`: a retained state faithfully represents a view in a DOM
-/
namespace Leptos.View
open Leptos.Dom

-- `R`: how the attribute list of an element relates to the fresh render's (`Eq` for the static
-- fragment, lookup-equality `AttrsEq` where removal and re-insertion change the order)
variable {R : List (String × String) → List (String × String) → Prop}

/-- node `x` exists with this kind, data and parent -/
def NodeIs (d : Dom) (x : Id) (k : Kind) (data : String) (par : Option Id) : Prop :=
  ∃ r, d.get? x = some r ∧ r.kind = k ∧ r.data = data ∧ r.parent = par

/-- the attribute state a fresh `build` of this value retains -/
def AttrVal.initState : AttrVal → AttrState
  | .str _ v => .str v
  | .ostr _ v => .ostr v
  | .bool _ b => .bool b
  | .cls v => .cls v
  | .ocls v => .ocls v
  | .tcls n on => .tcls on n
  | .sty v => .sty v
  | .psty n v => .psty n v
  | .opsty n v => .opsty n v

mutual
/-- `Rep R d v st par`: the retained state `st` is the state of view `v` in DOM `d`, its top-level
nodes hanging below `par` (`none` = built but not mounted): every text / placeholder / element
node exists with the right kind, data and parent, element attributes are those of a fresh
render, and the children of each element are exactly the roots of its child state, recursively. -/
def Rep (R : List (String × String) → List (String × String) → Prop) (d : Dom) : View → State → Option Id → Prop
  | .text s, .text id s', par => s' = s ∧ NodeIs d id .text s par
  | .unit, .unit id, par => NodeIs d id .comment "" par
  | .elem tag as c, .elem id ass cs, par =>
    ∃ r, d.get? id = some r ∧ r.kind = .elem tag ∧ r.parent = par ∧ R r.attrs (renderAttrs as) ∧
      ass = as.map AttrVal.initState ∧
      (if isVoid tag then cs = none ∧ r.kids = []
       else ∃ c', cs = some c' ∧ r.kids = c'.roots ∧ Rep R d c c' (some id))
  | .tuple vs, .tuple sts, par => RepList R d vs sts par
  | .onone, .either i st, par => i = 1 ∧ ∃ id, st = .unit id ∧ NodeIs d id .comment "" par
  | .osome v, .either i st, par => i = 0 ∧ Rep R d v st par
  | .either _ i v, .either j st, par => j = i ∧ Rep R d v st par
  | .vec vs, .vec sts mk, par => RepList R d vs sts par ∧ NodeIs d mk .comment "" par
  | .any ty v, .any ty' st, par => ty' = ty ∧ Rep R d v st par
  | _, _, _ => False
def RepList (R : List (String × String) → List (String × String) → Prop) (d : Dom) : List View → List State → Option Id → Prop
  | [], [], _ => True
  | v :: vs, s :: ss, par => Rep R d v s par ∧ RepList R d vs ss par
  | _, _, _ => False
end

theorem NodeIs.congr {d d' : Dom} {x : Id} {k : Kind} {s : String} {par : Option Id}
    (h : d'.get? x = d.get? x) (hn : NodeIs d x k s par) : NodeIs d' x k s par := by
  obtain ⟨r, h1, h2⟩ := hn; exact ⟨r, by rw [h, h1], h2⟩

mutual
/-- `Rep` only looks at the nodes the state owns -/
theorem Rep.congr {d d' : Dom} : ∀ (v : View) (st : State) (par : Option Id),
    (∀ x ∈ owned st, d'.get? x = d.get? x) → Rep R d v st par → Rep R d' v st par
  | .text s, st, par, hf, h => by
    cases st <;> simp [Rep] at h ⊢
    exact ⟨h.1, h.2.congr (hf _ (by simp [owned]))⟩
  | .unit, st, par, hf, h => by
    cases st <;> simp [Rep] at h ⊢
    exact h.congr (hf _ (by simp [owned]))
  | .elem tag as c, st, par, hf, h => by
    cases st <;> simp only [Rep] at h ⊢
    rename_i id ass cs
    obtain ⟨r, h1, h2, h3, h4, h5, h6⟩ := h
    refine ⟨r, by rw [hf id (by simp [owned]), h1], h2, h3, h4, h5, ?_⟩
    by_cases hv : isVoid tag
    · simpa [hv] using h6
    · simp only [hv] at h6 ⊢
      obtain ⟨c', hc, hk, hr⟩ := h6
      refine ⟨c', hc, hk, Rep.congr c c' (some id) ?_ hr⟩
      intro x hx; exact hf x (by simp [owned, ownedOpt, hc, hx])
  | .tuple vs, st, par, hf, h => by
    cases st <;> simp only [Rep] at h ⊢
    exact RepList.congr vs _ par (by simpa [owned] using hf) h
  | .onone, st, par, hf, h => by
    cases st <;> simp only [Rep] at h ⊢
    obtain ⟨h1, id, h2, h3⟩ := h
    subst h2
    exact ⟨h1, id, rfl, h3.congr (hf _ (by simp [owned]))⟩
  | .osome v, st, par, hf, h => by
    cases st <;> simp only [Rep] at h ⊢
    exact ⟨h.1, Rep.congr v _ par (by simpa [owned] using hf) h.2⟩
  | .either _ i v, st, par, hf, h => by
    cases st <;> simp only [Rep] at h ⊢
    exact ⟨h.1, Rep.congr v _ par (by simpa [owned] using hf) h.2⟩
  | .vec vs, st, par, hf, h => by
    cases st <;> simp only [Rep] at h ⊢
    rename_i sts mk
    refine ⟨RepList.congr vs sts par ?_ h.1, h.2.congr (hf _ (by simp [owned]))⟩
    intro x hx; exact hf x (by simp [owned, hx])
  | .any ty v, st, par, hf, h => by
    cases st <;> simp only [Rep] at h ⊢
    exact ⟨h.1, Rep.congr v _ par (by simpa [owned] using hf) h.2⟩
theorem RepList.congr {d d' : Dom} : ∀ (vs : List View) (sts : List State) (par : Option Id),
    (∀ x ∈ ownedList sts, d'.get? x = d.get? x) → RepList R d vs sts par → RepList R d' vs sts par
  | [], sts, par, hf, h => by cases sts <;> simp [RepList] at h ⊢
  | v :: vs, sts, par, hf, h => by
    cases sts with
    | nil => simp [RepList] at h
    | cons s ss =>
      simp only [RepList] at h ⊢
      refine ⟨Rep.congr v s par ?_ h.1, RepList.congr vs ss par ?_ h.2⟩
      · intro x hx; exact hf x (by simp [ownedList, hx])
      · intro x hx; exact hf x (by simp [ownedList, hx])
end

theorem nodup_app {l1 l2 : List Id} (h : (l1 ++ l2).Nodup) :
    l1.Nodup ∧ l2.Nodup ∧ ∀ x, x ∈ l1 → x ∉ l2 := by
  rw [List.nodup_append] at h
  exact ⟨h.1, h.2.1, fun x hx hx2 => h.2.2 x hx x hx2 rfl⟩

mutual
/-- the roots of a represented state hang below `par` -/
theorem Rep.roots_parent {d : Dom} : ∀ (v : View) (st : State) (par : Option Id),
    Rep R d v st par → ∀ r ∈ st.roots, ∃ rr, d.get? r = some rr ∧ rr.parent = par
  | .text s, st, par, h => by
    cases st <;> simp [Rep] at h
    obtain ⟨_, r, h1, _, _, h4⟩ := h
    intro x hx; simp [State.roots] at hx; subst hx; exact ⟨r, h1, h4⟩
  | .unit, st, par, h => by
    cases st <;> simp [Rep] at h
    obtain ⟨r, h1, _, _, h4⟩ := h
    intro x hx; simp [State.roots] at hx; subst hx; exact ⟨r, h1, h4⟩
  | .elem tag as c, st, par, h => by
    cases st <;> simp only [Rep] at h
    obtain ⟨r, h1, _, h3, _⟩ := h
    intro x hx; simp [State.roots] at hx; subst hx; exact ⟨r, h1, h3⟩
  | .tuple vs, st, par, h => by
    cases st <;> simp only [Rep] at h
    simpa [State.roots] using RepList.roots_parent vs _ par h
  | .onone, st, par, h => by
    cases st <;> simp only [Rep] at h
    obtain ⟨_, id, h2, r, h3, _, _, h6⟩ := h
    subst h2
    intro x hx; simp [State.roots] at hx; subst hx; exact ⟨r, h3, h6⟩
  | .osome v, st, par, h => by
    cases st <;> simp only [Rep] at h
    simpa [State.roots] using Rep.roots_parent v _ par h.2
  | .either _ i v, st, par, h => by
    cases st <;> simp only [Rep] at h
    simpa [State.roots] using Rep.roots_parent v _ par h.2
  | .vec vs, st, par, h => by
    cases st <;> simp only [Rep] at h
    obtain ⟨h1, r, h2, _, _, h5⟩ := h
    intro x hx; simp [State.roots] at hx
    rcases hx with hx | hx
    · exact RepList.roots_parent vs _ par h1 x hx
    · subst hx; exact ⟨r, h2, h5⟩
  | .any ty v, st, par, h => by
    cases st <;> simp only [Rep] at h
    simpa [State.roots] using Rep.roots_parent v _ par h.2
theorem RepList.roots_parent {d : Dom} : ∀ (vs : List View) (sts : List State) (par : Option Id),
    RepList R d vs sts par → ∀ r ∈ State.rootsList sts, ∃ rr, d.get? r = some rr ∧ rr.parent = par
  | [], sts, par, h => by cases sts <;> simp [RepList, State.rootsList] at h ⊢
  | v :: vs, sts, par, h => by
    cases sts with
    | nil => simp [RepList] at h
    | cons s ss =>
      simp only [RepList] at h
      intro x hx; simp [State.rootsList] at hx
      rcases hx with hx | hx
      · exact Rep.roots_parent v s par h.1 x hx
      · exact RepList.roots_parent vs ss par h.2 x hx
end

theorem NodeIs.reparent {d d' : Dom} {x : Id} {k : Kind} {s : String} {par par' : Option Id}
    (h : ∀ rr, d.get? x = some rr → d'.get? x = some { rr with parent := par' })
    (hn : NodeIs d x k s par) : NodeIs d' x k s par' := by
  obtain ⟨r, h1, h2, h3, _⟩ := hn; exact ⟨_, h r h1, h2, h3, rfl⟩

mutual
/-- moving the roots below another parent (mount) keeps the representation -/
theorem Rep.reparent {d d' : Dom} : ∀ (v : View) (st : State) (par par' : Option Id),
    (owned st).Nodup →
    (∀ x ∈ owned st, x ∉ st.roots → d'.get? x = d.get? x) →
    (∀ r ∈ st.roots, ∀ rr, d.get? r = some rr → d'.get? r = some { rr with parent := par' }) →
    Rep R d v st par → Rep R d' v st par'
  | .text s, st, par, par', hn, hf, hr, h => by
    cases st <;> simp [Rep] at h ⊢
    exact ⟨h.1, h.2.reparent (hr _ (by simp [State.roots]))⟩
  | .unit, st, par, par', hn, hf, hr, h => by
    cases st <;> simp [Rep] at h ⊢
    exact h.reparent (hr _ (by simp [State.roots]))
  | .elem tag as c, st, par, par', hn, hf, hr, h => by
    cases st <;> simp only [Rep] at h ⊢
    rename_i id ass cs
    obtain ⟨r, h1, h2, h3, h4, h5, h6⟩ := h
    refine ⟨{ r with parent := par' }, hr id (by simp [State.roots]) r h1, h2, rfl, h4, h5, ?_⟩
    by_cases hv : isVoid tag
    · simpa [hv] using h6
    · simp only [hv] at h6 ⊢
      obtain ⟨c', hc, hk, hrep⟩ := h6
      refine ⟨c', hc, hk, Rep.congr c c' (some id) ?_ hrep⟩
      intro x hx
      subst hc
      simp only [owned, ownedOpt, List.nodup_cons] at hn
      apply hf x (by simp [owned, ownedOpt, hx])
      simp [State.roots]; intro e; subst e; exact hn.1 hx
  | .tuple vs, st, par, par', hn, hf, hr, h => by
    cases st <;> simp only [Rep] at h ⊢
    exact RepList.reparent vs _ par par' (by simpa [owned] using hn)
      (by simpa [owned, State.roots] using hf) (by simpa [State.roots] using hr) h
  | .onone, st, par, par', hn, hf, hr, h => by
    cases st <;> simp only [Rep] at h ⊢
    obtain ⟨h1, id, h2, h3⟩ := h
    subst h2
    exact ⟨h1, id, rfl, h3.reparent (hr _ (by simp [State.roots]))⟩
  | .osome v, st, par, par', hn, hf, hr, h => by
    cases st <;> simp only [Rep] at h ⊢
    exact ⟨h.1, Rep.reparent v _ par par' (by simpa [owned] using hn)
      (by simpa [owned, State.roots] using hf) (by simpa [State.roots] using hr) h.2⟩
  | .either _ i v, st, par, par', hn, hf, hr, h => by
    cases st <;> simp only [Rep] at h ⊢
    exact ⟨h.1, Rep.reparent v _ par par' (by simpa [owned] using hn)
      (by simpa [owned, State.roots] using hf) (by simpa [State.roots] using hr) h.2⟩
  | .vec vs, st, par, par', hn, hf, hr, h => by
    cases st <;> simp only [Rep] at h ⊢
    rename_i sts mk
    simp only [owned] at hn
    obtain ⟨hn1, _, hn3⟩ := nodup_app hn
    refine ⟨RepList.reparent vs sts par par' hn1 ?_ ?_ h.1, h.2.reparent (hr _ (by simp [State.roots]))⟩
    · intro x hx hxr
      apply hf x (by simp [owned, hx])
      simp [State.roots, hxr]; intro e; subst e; exact hn3 _ hx (by simp)
    · intro r hr'; exact hr r (by simp [State.roots, hr'])
  | .any ty v, st, par, par', hn, hf, hr, h => by
    cases st <;> simp only [Rep] at h ⊢
    exact ⟨h.1, Rep.reparent v _ par par' (by simpa [owned] using hn)
      (by simpa [owned, State.roots] using hf) (by simpa [State.roots] using hr) h.2⟩
theorem RepList.reparent {d d' : Dom} : ∀ (vs : List View) (sts : List State) (par par' : Option Id),
    (ownedList sts).Nodup →
    (∀ x ∈ ownedList sts, x ∉ State.rootsList sts → d'.get? x = d.get? x) →
    (∀ r ∈ State.rootsList sts, ∀ rr, d.get? r = some rr → d'.get? r = some { rr with parent := par' }) →
    RepList R d vs sts par → RepList R d' vs sts par'
  | [], sts, par, par', hn, hf, hr, h => by cases sts <;> simp [RepList] at h ⊢
  | v :: vs, sts, par, par', hn, hf, hr, h => by
    cases sts with
    | nil => simp [RepList] at h
    | cons s ss =>
      simp only [RepList] at h ⊢
      simp only [ownedList] at hn
      obtain ⟨hn1, hn2, hn3⟩ := nodup_app hn
      refine ⟨Rep.reparent v s par par' hn1 ?_ ?_ h.1, RepList.reparent vs ss par par' hn2 ?_ ?_ h.2⟩
      · intro x hx hxr
        apply hf x (by simp [ownedList, hx])
        simp [State.rootsList, hxr]
        intro hx2; exact hn3 x hx (rootsList_sub_ownedList ss x hx2)
      · intro r hr'; exact hr r (by simp [State.rootsList, hr'])
      · intro x hx hxr
        apply hf x (by simp [ownedList, hx])
        simp [State.rootsList, hxr]
        intro hx2; exact hn3 x (roots_sub_owned s x hx2) hx
      · intro r hr'; exact hr r (by simp [State.rootsList, hr'])
end

end Leptos.View
