import LeptosModel.Proofs.RViewMCount
import LeptosModel.Proofs.RViewMErrb
/-!
# Proofs/RViewMCountB — the register of a boundary after the first render

`build` of static structure with dynamic and `Result` leaves under the hook of boundary `sg`: every leaf that is
built as `Err` registers itself once; nothing else writes the register.
-/
namespace Leptos.RView
open Leptos.Reactive

/-- what the build needs to know about the state it threads -/
structure CB (sg : Nat) (st : St) : Prop where
  sig : SigAt sg st
  len : st.rs.nodes.length = st.prog.length
  kinds : ∀ (i : Nat) (d : NodeDef), st.prog[i]? = some d → (st.rs.get i).kind = kindOf d
  nw : ∀ (i : Nat) (x : Expr), st.prog[i]? = some (NodeDef.eff x) → x.noWrite = true
  teff : ∀ e ∈ st.tasks, ∃ x : Expr, st.prog[e]? = some (NodeDef.eff x)

/-- `st'` continues `st`: same hook, the register moved by `d` -/
structure Step (sg : Nat) (st st' : St) (d : Int) : Prop where
  cb : CB sg st'
  hook : st'.hook = st.hook
  env : envOf st'.rs sg = envOf st.rs sg + d
  zombies : st'.zombies = st.zombies
  root : st'.root = st.root
  pre : ∃ ext, st'.prog = st.prog ++ ext

theorem Step.refl {sg : Nat} {st : St} (h : CB sg st) : Step sg st st 0 :=
  ⟨h, rfl, by omega, rfl, rfl, ⟨[], by simp⟩⟩

theorem Step.trans {sg : Nat} {a b c : St} {d1 d2 : Int} (h1 : Step sg a b d1) (h2 : Step sg b c d2) :
    Step sg a c (d1 + d2) :=
  ⟨h2.cb, h2.hook.trans h1.hook, by rw [h2.env, h1.env]; omega, h2.zombies.trans h1.zombies,
    h2.root.trans h1.root, by
      obtain ⟨e1, h1'⟩ := h1.pre; obtain ⟨e2, h2'⟩ := h2.pre
      exact ⟨e1 ++ e2, by rw [h2', h1']; simp⟩⟩

/-- steps that touch neither the program nor the reactive state -/
theorem Step.of_eq {sg : Nat} {st st' : St} (h : CB sg st) (hp : st'.prog = st.prog) (hr : st'.rs = st.rs)
    (ht : ∀ e ∈ st'.tasks, e ∈ st.tasks ∨ ∃ x : Expr, st.prog[e]? = some (NodeDef.eff x))
    (hh : st'.hook = st.hook) (hz : st'.zombies = st.zombies) (hro : st'.root = st.root) : Step sg st st' 0 := by
  refine ⟨⟨⟨by rw [hp]; exact h.sig.psig, by rw [hr]; exact h.sig.lt, by rw [hr]; exact h.sig.ksig⟩,
    by rw [hr, hp]; exact h.len, fun i d hd => by rw [hr]; exact h.kinds i d (by rw [← hp]; exact hd),
    fun i x hx => h.nw i x (by rw [← hp]; exact hx), ?_⟩, hh, by rw [hr]; omega, hz, hro, ⟨[], by rw [hp]; simp⟩⟩
  intro e he
  rcases ht e he with h1 | ⟨x, hx⟩
  · obtain ⟨x, hx⟩ := h.teff e h1; exact ⟨x, by rw [hp]; exact hx⟩
  · exact ⟨x, by rw [hp]; exact hx⟩

theorem Step.alloc {sg : Nat} {st : St} (h : CB sg st) : Step sg st st.alloc.2 0 :=
  Step.of_eq h rfl rfl (fun _ he => Or.inl he) rfl rfl rfl

/-- `RenderEffect::new` of a body without writes, then the spawn of its task -/
theorem newEff_step {sg : Nat} {st : St} (h : CB sg st) {x : Expr} (hx : x.noWrite = true) :
    Step sg st (newEff st x).2.2 0 ∧ (newEff st x).2.2.prog = st.prog ++ [NodeDef.eff x] ∧
      (newEff st x).1 = st.prog.length ∧ (newEff st x).2.2.tasks = st.tasks := by
  have hlt : sg < st.prog.length := by rw [← h.len]; exact h.sig.lt
  -- the state with the new node appended
  have hA : (st.addDef (.eff x)).2.rs = { st.rs with nodes := st.rs.nodes ++ [initNode (.eff x)] } := rfl
  have hAp : (st.addDef (.eff x)).2.prog = st.prog ++ [.eff x] := rfl
  have gA : ∀ i, i < st.rs.nodes.length → (st.addDef (.eff x)).2.rs.get i = st.rs.get i := by
    intro i hi; rw [hA]; exact get_append_lt _ _ hi
  have gN : (st.addDef (.eff x)).2.rs.get st.prog.length = initNode (.eff x) := by
    rw [hA, ← h.len]; exact get_append_len _ _
  -- the first run
  have hbody : (bodyOf (st.prog ++ [NodeDef.eff x]) st.prog.length).noWrite = true := by
    simp only [bodyOf, List.getElem?_append_right (Nat.le_refl _), Nat.sub_self, List.getElem?_cons_zero]
    exact hx
  have g1 : SG (st.addDef (.eff x)).2.rs
      ((st.addDef (.eff x)).2.rs.upd st.prog.length fun n =>
        { n with dirty := false, chan := false, woken := true, first := false }) :=
    SG.upd_val _ _ _ (fun _ => rfl) (fun _ => rfl)
  have hk : ((((st.addDef (.eff x)).2.rs.upd st.prog.length fun n =>
      { n with dirty := false, chan := false, woken := true, first := false })).get st.prog.length).kind ≠ .sig := by
    rw [g1.kind, gN]; simp [initNode]
  have g2 := runEffBody_sg (st.prog ++ [NodeDef.eff x]) (fuelFor (st.prog ++ [NodeDef.eff x])) _ st.prog.length hbody hk
  have g := g1.trans g2
  have hrs : (newEff st x).2.2.rs = runEffBody (st.prog ++ [NodeDef.eff x]) (fuelFor (st.prog ++ [NodeDef.eff x]))
      ((st.addDef (.eff x)).2.rs.upd st.prog.length fun n =>
        { n with dirty := false, chan := false, woken := true, first := false }) st.prog.length := rfl
  have hkind : ∀ i, ((newEff st x).2.2.rs.get i).kind = ((st.addDef (.eff x)).2.rs.get i).kind := by
    intro i; rw [hrs]; exact g.kind i
  refine ⟨⟨⟨⟨?_, ?_, ?_⟩, ?_, ?_, ?_, ?_⟩, rfl, ?_, rfl, rfl, ⟨[NodeDef.eff x], rfl⟩⟩, rfl, rfl, rfl⟩
  · obtain ⟨v0, hv⟩ := h.sig.psig
    exact ⟨v0, by show (st.prog ++ [NodeDef.eff x])[sg]? = _; rw [List.getElem?_append_left hlt]; exact hv⟩
  · show sg < (newEff st x).2.2.rs.nodes.length
    rw [hrs, g.len, hA]; simp; have := h.sig.lt; omega
  · rw [hkind, gA sg h.sig.lt]; exact h.sig.ksig
  · show (newEff st x).2.2.rs.nodes.length = (st.prog ++ [NodeDef.eff x]).length
    rw [hrs, g.len, hA]; simp [h.len]
  · intro i d hd
    have hd' : (st.prog ++ [NodeDef.eff x])[i]? = some d := hd
    rw [hkind]
    rcases Nat.lt_or_ge i st.prog.length with hi | hi
    · rw [List.getElem?_append_left hi] at hd'
      rw [gA i (by rw [h.len]; exact hi)]; exact h.kinds i d hd'
    · have hi' : i = st.prog.length := by
        rcases Nat.lt_or_ge st.prog.length i with h2 | h2
        · rw [List.getElem?_eq_none (by simp; omega)] at hd'; cases hd'
        · omega
      subst hi'
      rw [List.getElem?_append_right (Nat.le_refl _)] at hd'
      simp at hd'
      rw [gN, ← hd']; rfl
  · intro i y hy
    have hy' : (st.prog ++ [NodeDef.eff x])[i]? = some (NodeDef.eff y) := hy
    rcases Nat.lt_or_ge i st.prog.length with hi | hi
    · rw [List.getElem?_append_left hi] at hy'; exact h.nw i y hy'
    · have hi' : i = st.prog.length := by
        rcases Nat.lt_or_ge st.prog.length i with h2 | h2
        · rw [List.getElem?_eq_none (by simp; omega)] at hy'; cases hy'
        · omega
      subst hi'
      rw [List.getElem?_append_right (Nat.le_refl _)] at hy'
      simp at hy'
      rw [← hy']; exact hx
  · intro e he
    obtain ⟨y, hy⟩ := h.teff e he
    have : e < st.prog.length := by
      rcases Nat.lt_or_ge e st.prog.length with h2 | h2
      · exact h2
      · rw [List.getElem?_eq_none h2] at hy; cases hy
    exact ⟨y, by show (st.prog ++ [NodeDef.eff x])[e]? = _; rw [List.getElem?_append_left this]; exact hy⟩
  · show envOf (newEff st x).2.2.rs sg = envOf st.rs sg + 0
    have hks : ((st.addDef (.eff x)).2.rs.get sg).kind = .sig := by rw [gA sg h.sig.lt]; exact h.sig.ksig
    simp only [envOf, hrs, g.sig sg hks, gA sg h.sig.lt]
    omega

/-- a new effect and the spawn of its task -/
theorem newEffSpawn_step {sg : Nat} {st : St} (h : CB sg st) {x : Expr} (hx : x.noWrite = true)
    (f : St → St) (hf : ∀ s, (f s).prog = s.prog ∧ (f s).rs = s.rs ∧ (f s).tasks = s.tasks ∧ (f s).hook = s.hook ∧
      (f s).zombies = s.zombies ∧ (f s).root = s.root) :
    Step sg st ((f (newEff st x).2.2).spawn (newEff st x).1) 0 := by
  have hn := newEff_step h hx
  have h2 : Step sg (newEff st x).2.2 ((f (newEff st x).2.2).spawn (newEff st x).1) 0 := by
    refine Step.of_eq hn.1.cb (hf _).1 (hf _).2.1 ?_ (hf _).2.2.2.1 (hf _).2.2.2.2.1 (hf _).2.2.2.2.2
    intro e he
    simp only [St.spawn, List.mem_append, List.mem_singleton] at he
    rcases he with he | he
    · left; rw [(hf _).2.2.1] at he; exact he
    · right
      refine ⟨x, ?_⟩
      rw [he, hn.2.2.1, hn.2.1, List.getElem?_append_right (Nat.le_refl _)]
      simp
  have := hn.1.trans h2
  simpa using this

theorem buildAttr_step {sg K : Nat} {st : St} (h : CB sg st) :
    ∀ (a : Attr), a.exprOk K = true → Step sg st (buildAttr st a).2.1 0
  | .stat _ _, _ => Step.refl h
  | .dyn n x, hx => by
    simp only [Attr.exprOk, Bool.and_eq_true] at hx
    simp only [buildAttr, st.res_eq hx.2]
    exact newEffSpawn_step h hx.1.2 id (fun _ => ⟨rfl, rfl, rfl, rfl, rfl, rfl⟩)
  | .cls n x, hx => by
    simp only [Attr.exprOk, Bool.and_eq_true] at hx
    simp only [buildAttr, st.res_eq hx.2]
    exact newEffSpawn_step h hx.1.2 id (fun _ => ⟨rfl, rfl, rfl, rfl, rfl, rfl⟩)
  | .sty n x, hx => by
    simp only [Attr.exprOk, Bool.and_eq_true] at hx
    simp only [buildAttr, st.res_eq hx.2]
    exact newEffSpawn_step h hx.1.2 id (fun _ => ⟨rfl, rfl, rfl, rfl, rfl, rfl⟩)

theorem buildAttrs_step {sg K : Nat} : ∀ (as : List Attr) (st : St), CB sg st → as.all (Attr.exprOk K) = true →
    Step sg st (buildAttrs as st).2.1 0
  | [], st, h, _ => Step.refl h
  | a :: as, st, h, ha => by
    simp only [List.all_cons, Bool.and_eq_true] at ha
    have h1 := buildAttr_step (K := K) h a ha.1
    have h2 := buildAttrs_step as (buildAttr st a).2.1 h1.cb ha.2
    rw [buildAttrs_cons]
    have := h1.trans h2
    simpa using this

/-- **`build` under the hook of boundary `sg`**: the leaves that are built as `Err` are registered, one each -/
theorem build_count {sg K : Nat} : ∀ (v : View) (st : St), CB sg st → st.hook = some sg → v.wfR K = true →
    v.leavesR = true →
    Step sg st (build v st).2 (errCount sg (build v st).1) ∧ (build v st).1.leafy = true ∧
      hooksAre (some sg) (build v st).1 := by
  intro v
  induction v with
  | text str => intro st h _ _ _; exact ⟨Step.alloc h, rfl, trivial⟩
  | unit => intro st h _ _ _; exact ⟨Step.alloc h, rfl, trivial⟩
  | elem tag attrs kid ih =>
    intro st h hh hw hl
    simp only [View.wfR, Bool.and_eq_true] at hw
    simp only [View.leavesR] at hl
    have h0 := Step.alloc h
    have h1 := buildAttrs_step (K := K) attrs st.alloc.2 h0.cb hw.1.1
    have h2 := ih (buildAttrs attrs st.alloc.2).2.1 h1.cb (by rw [h1.hook, h0.hook]; exact hh) hw.2 hl
    rw [build_elem]
    refine ⟨?_, h2.2.1, h2.2.2⟩
    have := (h0.trans h1).trans h2.1
    simpa [errCount] using this
  | seq a b iha ihb =>
    intro st h hh hw hl
    simp only [View.wfR, Bool.and_eq_true] at hw
    simp only [View.leavesR, Bool.and_eq_true] at hl
    have h1 := iha st h hh hw.1 hl.1
    have h2 := ihb (build a st).2 h1.1.cb (by rw [h1.1.hook]; exact hh) hw.2 hl.2
    rw [build_seq]
    refine ⟨?_, by simp only [RState.leafy, h1.2.1, h2.2.1, Bool.and_self], ⟨h1.2.2, h2.2.2⟩⟩
    have := h1.1.trans h2.1
    simpa [errCount] using this
  | dynText x =>
    intro st h _ hw _
    have hs : sigOnly K x = true := hw
    rw [build_dynText, st.res_eq (sigOnly_nu hs)]
    refine ⟨?_, rfl, trivial⟩
    exact newEffSpawn_step h (sigOnly_nw hs) (fun s => s.alloc.2) (fun _ => ⟨rfl, rfl, rfl, rfl, rfl, rfl⟩)
  | res c x =>
    intro st h hh hw _
    simp only [View.wfR, Bool.and_eq_true] at hw
    have hs := sigOnly_resBody hw.1 hw.2
    have hn := newEff_step h (sigOnly_nw hs)
    rw [build_res]
    unfold resAfter
    rw [st.res_eq (sigOnly_nu hs)]
    generalize hnn : newEff st (resBody c x) = r at hn
    obtain ⟨e, v, s1⟩ := r
    simp only at hn ⊢
    have ha := Step.alloc hn.1.cb
    have hk1 : s1.alloc.2.hook = some sg := by rw [ha.hook, hn.1.hook]; exact hh
    rw [hk1]
    -- the spawned task is an effect of the program
    have hpe : s1.prog[e]? = some (NodeDef.eff (resBody c x)) := by
      rw [hn.2.2.1, hn.2.1, List.getElem?_append_right (Nat.le_refl _)]; simp
    by_cases hv : (decodeRes v).isNone = true
    · simp only [hv, if_true]
      have ht := bump_tame ha.cb.sig 1
      have hb : Step sg s1.alloc.2 (bumpTo s1.alloc.2 (some sg) 1) 1 :=
        ⟨⟨ha.cb.sig.tame ht, by show (bump s1.alloc.2 sg 1).rs.nodes.length = _; rw [ht.len]; exact ha.cb.len,
          fun i d hd => by show ((bump s1.alloc.2 sg 1).rs.get i).kind = _; rw [ht.kind]; exact ha.cb.kinds i d hd,
          ha.cb.nw, ha.cb.teff⟩, rfl, bump_env ha.cb.sig 1, rfl, rfl, ⟨[], by simp; rfl⟩⟩
      have hsp : Step sg (bumpTo s1.alloc.2 (some sg) 1) ((bumpTo s1.alloc.2 (some sg) 1).spawn e) 0 := by
        refine Step.of_eq hb.cb rfl rfl ?_ rfl rfl rfl
        intro y hy
        simp only [St.spawn, List.mem_append, List.mem_singleton] at hy
        rcases hy with hy | hy
        · exact Or.inl hy
        · exact Or.inr ⟨resBody c x, by rw [hy]; exact hpe⟩
      have hbh : (bumpTo s1.alloc.2 (some sg) 1).hook = some sg := hk1
      refine ⟨?_, rfl, hbh⟩
      have := ((hn.1.trans ha).trans hb).trans hsp
      have hd : decodeRes v = none := by
        cases hdv : decodeRes v with
        | none => rfl
        | some u => rw [hdv] at hv; cases hv
      simpa [errCount, hd, hbh] using this
    · have hd : (decodeRes v).isNone = false := by
        cases hdv : (decodeRes v).isNone with
        | false => rfl
        | true => exact absurd hdv hv
      simp only [hd, Bool.false_eq_true, if_false]
      have hsp : Step sg s1.alloc.2 (s1.alloc.2.spawn e) 0 := by
        refine Step.of_eq ha.cb rfl rfl ?_ rfl rfl rfl
        intro y hy
        simp only [St.spawn, List.mem_append, List.mem_singleton] at hy
        rcases hy with hy | hy
        · exact Or.inl hy
        · exact Or.inr ⟨resBody c x, by rw [hy]; exact hpe⟩
      refine ⟨?_, rfl, hk1⟩
      have := (hn.1.trans ha).trans hsp
      simpa [errCount, hd] using this
  | either c a b _ _ => intro st _ _ _ hl; simp [View.leavesR] at hl
  | «show» c a b _ _ => intro st _ _ _ hl; simp [View.leavesR] at hl
  | forKeyed sel lists => intro st _ _ _ hl; simp [View.leavesR] at hl
  | scope sid d kid _ => intro st _ _ _ hl; simp [View.leavesR] at hl
  | forRows en sel lists row _ => intro st _ _ _ hl; simp [View.leavesR] at hl
  | eb kid _ => intro st _ _ _ hl; simp [View.leavesR] at hl

/-! ## the start state -/

theorem initDefs_rs (defs : Prog) : (initDefs defs).rs = initState defs := by
  have hf := initDefs_fold defs {}
  unfold initDefs; rw [hf.2.1]; simp [initState]

/-- **after the first render the register counts the leaves in error** -/
theorem CountE.start {defs : Prog} {kid : View} (hd : defsOk defs = true) (hw : kid.wfR defs.length = true)
    (hl : kid.leavesR = true) : CountE defs.length (RView.start { defs := defs, view := .eb kid }) := by
  have hdd := defsOk_eb hd
  simp only [defsOk, Bool.and_eq_true, List.all_eq_true] at hdd
  have hK : (ebDefs defs).length = defs.length + 2 := by simp [ebDefs]
  have hf := initDefs_fold (ebDefs defs) {}
  have hprog : (initDefs (ebDefs defs)).prog = ebDefs defs := initDefs_prog _
  have hrs : (initDefs (ebDefs defs)).rs = initState (ebDefs defs) := initDefs_rs _
  have htasks : (initDefs (ebDefs defs)).tasks = [] := by unfold initDefs; rw [hf.2.2.1]
  have hzomb : (initDefs (ebDefs defs)).zombies = [] := by unfold initDefs; rw [hf.2.2.2.1]
  have hroot0 : (initDefs (ebDefs defs)).root = none := by unfold initDefs; rw [hf.2.2.2.2.1]
  have hsgp : (ebDefs defs)[defs.length]? = some (NodeDef.sig 0) := by
    unfold ebDefs
    rw [List.append_assoc, List.getElem?_append_right (Nat.le_refl _)]; simp
  have hf0 := initDefs_fold defs {}
  have hhook : (initDefs defs).hook = none := by
    have : ∀ (l : Prog) (st : St), (l.foldl (fun st d => (st.addDef d).2) st).hook = st.hook := by
      intro l; induction l with
      | nil => intro st; rfl
      | cons d l ih => intro st; simp only [List.foldl_cons]; rw [ih]; rfl
    unfold initDefs; rw [this]
  -- the state the children are built in
  generalize hS1 : ({ (initDefs (ebDefs defs)).alloc.2 with hook := some defs.length } : St) = S1
  have hS1p : S1.prog = ebDefs defs := by rw [← hS1]; exact hprog
  have hS1r : S1.rs = initState (ebDefs defs) := by rw [← hS1]; exact hrs
  have hcb : CB defs.length S1 := by
    refine ⟨⟨⟨0, by rw [hS1p]; exact hsgp⟩, ?_, ?_⟩, ?_, ?_, ?_, ?_⟩
    · rw [hS1r]; simp [initState, hK]
    · rw [hS1r, initState_get, hsgp]; rfl
    · rw [hS1r, hS1p]; simp [initState]
    · intro i d hdd'
      rw [hS1p] at hdd'
      rw [hS1r, initState_get, hdd']
      exact (initNode_fields d).1
    · intro i x hx
      rw [hS1p] at hx
      have := hdd.2 _ (List.mem_of_getElem? hx)
      simp at this
    · intro e he
      rw [← hS1] at he
      have : e ∈ (initDefs (ebDefs defs)).tasks := he
      rw [htasks] at this; simp at this
  have hS1h : S1.hook = some defs.length := by rw [← hS1]
  have hb := build_count (K := defs.length + 2) kid S1 hcb hS1h (wfR_mono (by omega) kid hw) hl
  generalize hbk : build kid S1 = bk at hb
  obtain ⟨tk, S2⟩ := bk
  simp only at hb
  have hn := newEff_step hb.1.cb (x := .rd true (defs.length + 1)) rfl
  generalize hne : newEff S2 (.rd true (defs.length + 1)) = ne at hn
  obtain ⟨e, v, S3⟩ := ne
  simp only at hn
  have hstart : RView.start { defs := defs, view := .eb kid } =
      { (ebClose (initDefs defs).alloc.2.hook (initDefs defs).alloc.2.prog.length
            (build kid (ebOpen (initDefs defs).alloc.2)).1 (build kid (ebOpen (initDefs defs).alloc.2)).2).2 with
          root := some (ebClose (initDefs defs).alloc.2.hook (initDefs defs).alloc.2.prog.length
            (build kid (ebOpen (initDefs defs).alloc.2)).1 (build kid (ebOpen (initDefs defs).alloc.2)).2).1,
          rootN := ⟨(initDefs defs).next, (ebClose (initDefs defs).alloc.2.hook (initDefs defs).alloc.2.prog.length
            (build kid (ebOpen (initDefs defs).alloc.2)).1 (build kid (ebOpen (initDefs defs).alloc.2)).2).1.tops⟩,
          mounted := true } := rfl
  rw [hstart, ebOpen_initDefs, hS1, hbk]
  have hp0 : (initDefs defs).alloc.2.prog.length = defs.length := by
    show (initDefs defs).prog.length = _; rw [initDefs_prog]
  have hh0 : (initDefs defs).alloc.2.hook = none := hhook
  rw [hp0, hh0]
  simp only [ebClose, hne]
  generalize hS4 : (if v != 0 then S3 else S3.alloc.2) = S4
  have h34 : Step defs.length S3 S4 0 := by
    rw [← hS4]; split
    · exact Step.refl hn.1.cb
    · exact Step.alloc hn.1.cb
  have hp4 : S4.prog = S3.prog := by rw [← hS4]; split <;> rfl
  have ht4 : S4.tasks = S3.tasks := by rw [← hS4]; split <;> rfl
  have hpe : S3.prog[e]? = some (NodeDef.eff (.rd true (defs.length + 1))) := by
    rw [hn.2.2.1, hn.2.1, List.getElem?_append_right (Nat.le_refl _)]; simp
  have hsp : Step defs.length S4 (S4.spawn e) 0 := by
    refine Step.of_eq h34.cb rfl rfl ?_ rfl rfl rfl
    intro y hy
    simp only [St.spawn, List.mem_append, List.mem_singleton] at hy
    rcases hy with hy | hy
    · exact Or.inl hy
    · exact Or.inr ⟨_, by rw [hy, hp4]; exact hpe⟩
  have hall := (((hb.1.trans hn.1).trans h34).trans hsp)
  have hcbF := hall.cb
  have henv0 : envOf S1.rs defs.length = 0 := by
    simp only [envOf, hS1r, initState_get, hsgp, initNode]; rfl
  have hprogF : ∃ ext, (S4.spawn e).prog = S1.prog ++ ext := hall.pre
  refine ⟨⟨hcbF.sig.psig, hcbF.sig.lt, hcbF.sig.ksig⟩, ?_, ⟨e, defs.length + 1, _, tk, rfl, hb.2.1, hb.2.2, ?_⟩,
    hcbF.kinds, hcbF.nw, hcbF.teff, ?_⟩
  rotate_left 2
  · obtain ⟨ext, hext⟩ := hprogF
    show (S4.spawn e).prog[defs.length + 1]? = _
    rw [hext, hS1p, List.getElem?_append_left (by rw [hK]; omega)]
    unfold ebDefs
    rw [List.getElem?_append_right (by simp)]
    simp
  · show (S4.spawn e).zombies = []
    rw [hall.zombies, ← hS1]; exact hzomb
  · show envOf (S4.spawn e).rs defs.length = errCount defs.length tk
    have := hall.env
    rw [henv0] at this
    omega

end Leptos.RView
