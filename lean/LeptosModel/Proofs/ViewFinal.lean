import LeptosModel.Proofs.ViewSer
/-! # Proofs/ViewFinal — `StateOk`, sibling framing, build+mount and unmount -/
namespace Leptos.View
open Leptos.Dom

-- `R`: how the attribute list of an element relates to the fresh render's (`Eq` for the static
-- fragment, lookup-equality `AttrsEq` where removal and re-insertion change the order)
variable {R : List (String × String) → List (String × String) → Prop}

/-- `StateOk R d v st parent pre post`: the nodes retained by `st` are exactly a contiguous run of
`parent`'s children, between `pre` and `post`, in order, and represent `v` recursively -/
structure StateOk (R : List (String × String) → List (String × String) → Prop) (d : Dom) (v : View) (st : State) (parent : Id) (pre post : List Id) : Prop where
  rep : Rep R d v st (some parent)
  inv : Inv d st.roots (owned st) parent pre post

/-- the siblings serialise to `preT` / `postT` (depth budget `n0`) using allocated nodes that are
neither the parent nor among `O` (the nodes of the view state) -/
structure SiblingsOk (d : Dom) (O : List Id) (parent : Id) (pre post : List Id) (n0 : Nat)
    (preT postT : List Tree) : Prop where
  hpre : serListN n0 d pre = some preT
  hpost : serListN n0 d post = some postT
  sep : ∀ x, x ∈ pre ++ post → ∀ y, y ∈ subIds n0 d x → y < d.next ∧ y ∉ O ∧ y ≠ parent

theorem SiblingsOk.step {d d' : Dom} {O O' : List Id} {p : Id} {pre post : List Id} {n0 : Nat}
    {preT postT : List Tree} (h : SiblingsOk d O p pre post n0 preT postT)
    (hle : d.next ≤ d'.next)
    (hf : ∀ x, x < d.next → x ∉ O → x ≠ p → d'.get? x = d.get? x)
    (hown : ∀ x, x ∈ O' → x ∈ O ∨ d.next ≤ x) :
    SiblingsOk d' O' p pre post n0 preT postT := by
  have hc : ∀ x, x ∈ pre ++ post → ∀ y ∈ subIds n0 d x, d'.get? y = d.get? y := by
    intro x hx y hy
    obtain ⟨a, b, c⟩ := h.sep x hx y hy
    exact hf y a b c
  refine ⟨?_, ?_, ?_⟩
  · rw [serListN_congr n0 d d' pre (fun x hx => hc x (by simp [hx]))]; exact h.hpre
  · rw [serListN_congr n0 d d' post (fun x hx => hc x (by simp [hx]))]; exact h.hpost
  · intro x hx y hy
    rw [(serN_congr n0 d d' x (hc x hx)).2] at hy
    obtain ⟨a, b, c⟩ := h.sep x hx y hy
    refine ⟨by omega_nat, ?_, c⟩
    intro hm
    rcases hown y hm with ho | ho
    · exact b ho
    · omega_nat

/-- what the parent serialises to -/
theorem StateOk.ser {d : Dom} {v : View} {st : State} {p : Id} {pre post : List Id} {n0 : Nat}
    {preT postT : List Tree} {O : List Id}
    (h : StateOk Eq d v st p pre post) (hs : SiblingsOk d O p pre post n0 preT postT) :
    ∀ m, max n0 v.depth ≤ m → serListN m d (d.kidsOf p) = some (preT ++ render v ++ postT) := by
  intro m hm
  obtain ⟨rp, hp, _, hk⟩ := h.inv.par
  have h1 := serListN_mono_le n0 m d pre preT hs.hpre (by omega)
  have h2 := serListN_mono_le n0 m d post postT hs.hpost (by omega)
  have h3 := Rep.ser v st (some p) h.rep m (by omega)
  simp only [Dom.kidsOf, hp, hk]
  exact serListN_append _ d _ _ _ _ (serListN_append _ d _ _ _ _ h1 h3) h2

/-- `build` then `mount` before the first `post` sibling -/
theorem build_mount_spec (v : View) (d : Dom) (p : Id) (pre post : List Id) (rp : NodeRec)
    (hv : AllEl (AttrsFresh R) v)
    (hp : d.get? p = some rp) (hpe : rp.kind.isElem = true) (hk : rp.kids = pre ++ post)
    (hplt : p < d.next) (hsl : ∀ x, x ∈ pre ++ post → x < d.next)
    (hanchor : Anchor d p post.head? pre post) :
    StateOk R (mount (build v d).2 (build v d).1 p post.head?) v (build v d).2 p pre post ∧
    d.next ≤ (mount (build v d).2 (build v d).1 p post.head?).next ∧
    (∀ x, x < d.next → x ≠ p → (mount (build v d).2 (build v d).1 p post.head?).get? x = d.get? x) ∧
    (∀ x, x ∈ owned (build v d).2 → d.next ≤ x) := by
  have hB := build_spec v d hv
  generalize build v d = bd at hB ⊢
  obtain ⟨d1, ns⟩ := bd
  dsimp only at hB ⊢
  have hp1 : d1.get? p = some rp := by rw [hB.frame p hplt]; exact hp
  have hnsge : ∀ x, x ∈ owned ns → d.next ≤ x := fun x hx => (hB.range x hx).1
  have hanchor1 : Anchor d1 p post.head? pre post := by
    cases hpost : post.head? with
    | none => rw [hpost] at hanchor; exact hanchor
    | some a =>
      rw [hpost] at hanchor
      obtain ⟨l2', h1, h2, h3⟩ := hanchor
      refine ⟨l2', h1, h2, ?_⟩
      have halt : a < d.next := hsl a (by simp [h1])
      simp only [Dom.getParent] at h3 ⊢
      rw [hB.frame a halt]; exact h3
  have hspec := insertAll_spec ns.roots d1 p post.head? rp pre post hp1 hpe hk hanchor1
    (roots_nodup hB.nodup) (Rep.roots_parent v ns none hB.rep)
    (by intro h; have := hnsge p (roots_sub_owned ns p h); omega_nat)
    (by
      intro r hr
      have hge := hnsge r (roots_sub_owned ns r hr)
      exact ⟨fun h => by have := hsl r (by simp [h]); omega_nat,
        fun h => by have := hsl r (by simp [h]); omega_nat⟩)
  obtain ⟨⟨rp', hp', he', hk'⟩, hkids, hoth, hnx⟩ := hspec
  rw [mount_eq]
  have hnl := hB.next_le
  refine ⟨⟨?_, ⟨?_, roots_sub_owned ns, hB.nodup, roots_nodup hB.nodup, ?_, ?_, ?_, ?_, ?_⟩⟩, ?_, ?_, hnsge⟩
  · apply Rep.reparent v ns none (some p) hB.nodup ?_ hkids hB.rep
    intro x hx hxr
    apply hoth x ?_ hxr
    intro e; subst e; have := hnsge _ hx; omega_nat
  · exact ⟨rp', hp', by rw [he'.1]; exact hpe, hk'⟩
  · intro h; have := hnsge p h; omega_nat
  · intro x hx h; have := hnsge x h; have := hsl x hx; omega_nat
  · intro x hx; rw [hnx]; exact (hB.range x hx).2
  · rw [hnx]; omega_nat
  · intro x hx; rw [hnx]; have := hsl x hx; omega_nat
  · rw [hnx]; exact hnl
  · intro x hx hxp
    rw [hoth x hxp ?_, hB.frame x hx]
    intro h; have := hnsge x (roots_sub_owned ns x h); omega_nat

/-- `unmount` removes exactly the roots of the state from the parent -/
theorem unmount_spec (v : View) (st : State) (d : Dom) (p : Id) (pre post : List Id)
    (h : StateOk R d v st p pre post) :
    (∃ rp', (unmount st d).get? p = some rp' ∧ rp'.kids = pre ++ post) ∧
    (∀ x, x ≠ p → x ∉ st.roots → (unmount st d).get? x = d.get? x) ∧
    (unmount st d).next = d.next := by
  obtain ⟨rp, hp, _, hk⟩ := h.inv.par
  have hspec := removeAll_spec st.roots d p rp pre post hp hk h.inv.rnodup
    (Rep.roots_parent v st (some p) h.rep) (fun hm => h.inv.pnot (h.inv.sub p hm))
    (fun r hr => ⟨fun hm => h.inv.sib r (by simp [hm]) (h.inv.sub r hr),
      fun hm => h.inv.sib r (by simp [hm]) (h.inv.sub r hr)⟩)
  obtain ⟨⟨rp', hp', _, hk'⟩, hoth, hnx⟩ := hspec
  rw [unmount_eq]
  exact ⟨⟨rp', hp', hk'⟩, hoth, hnx⟩

end Leptos.View
