import LeptosModel.Proofs.Stream
/-! Proofs/StreamView — the chunk programs produced by view rendering (`compile`) are in the classes the
    stream theorems quantify over. -/
namespace Leptos.Stream

mutual
def viewSize : View → Nat
  | .raw _ => 1
  | .seq vs => 1 + viewSizeL vs
  | .suspend _ v => 1 + viewSize v
  | .suspense _ _ vs => 1 + viewSizeL vs
  | .eb vs => 1 + viewSizeL vs
  | .resSuspend _ v => 1 + viewSize v
  | .resRead _ _ v => 1 + viewSize v
  | .localRead => 1
  | .localAwait _ => 1
def viewSizeL : List View → Nat
  | [] => 0
  | v :: vs => viewSize v + viewSizeL vs
end

/-! `oooWfOps`: static shape of an out-of-order program: text, `next_id`, and `next_id; push_fallback; push_async_out_of_order(Some)`
    triples; a `now_or_never` branch must render the same document either way -/
mutual
def oooWfOp : Op → Bool
  | .sync _ => true
  | .nextId => true
  | .ite _ t e => oooWfOps t && oooWfOps e && decide (oooDocOps t = oooDocOps e)
  | .async _ _ => false
  | .fallback _ => false
  | .ooo _ _ _ _ => false
  | .sub body => oooWfOps body
  | .finish => false
def oooWfOps : List Op → Bool
  | [] => true
  | .nextId :: .fallback _ :: .ooo _ true body _ :: os => oooWfOps body && oooWfOps os
  | o :: os => oooWfOp o && oooWfOps os
end

theorem inOrdOps_append (a b : List Op) : inOrdOps (a ++ b) = (inOrdOps a && inOrdOps b) := by
  induction a with
  | nil => simp [inOrdOps]
  | cons o os ih => simp [inOrdOps, ih, Bool.and_assoc]

theorem docOps_append (a b : List Op) : docOps (a ++ b) = docOps a ++ docOps b := by
  induction a with
  | nil => simp [docOps]
  | cons o os ih => simp [docOps, ih]

theorem viewDocL_append (a b : List View) : viewDocL (a ++ b) = viewDocL a ++ viewDocL b := by
  induction a with
  | nil => simp [viewDocL]
  | cons o os ih => simp [viewDocL, ih]

mutual
theorem hasRead_guards : (v : View) → hasRead v = false → guardsOf v = []
  | .raw _, _ => by simp [guardsOf]
  | .seq vs, h => by simpa [guardsOf] using hasReadL_guards vs (by simpa [hasRead] using h)
  | .suspend _ _, _ => by simp [guardsOf]
  | .suspense _ _ _, _ => by simp [guardsOf]
  | .eb vs, h => by simpa [guardsOf] using hasReadL_guards vs (by simpa [hasRead] using h)
  | .resSuspend _ _, _ => by simp [guardsOf]
  | .resRead _ _ _, h => by simp [hasRead] at h
  | .localRead, _ => by simp [guardsOf]
  | .localAwait _, _ => by simp [guardsOf]
theorem hasReadL_guards : (vs : List View) → hasReadL vs = false → guardsOfL vs = []
  | [], _ => by simp [guardsOfL]
  | v :: vs, h => by
    simp only [hasReadL, Bool.or_eq_false_iff] at h
    simp [guardsOfL, hasRead_guards v h.1, hasReadL_guards vs h.2]
end

mutual
theorem noLate_nested_hasRead : (v : View) → noLate .nested v = true → hasRead v = false
  | .raw _, _ => by simp [hasRead]
  | .seq vs, h => by simpa [hasRead] using noLateL_nested_hasRead vs (by simpa [noLate] using h)
  | .suspend _ v, h => by simpa [hasRead] using noLate_nested_hasRead v (by simpa [noLate] using h)
  | .suspense _ _ _, _ => by simp [hasRead]
  | .eb vs, h => by simpa [hasRead] using noLateL_nested_hasRead vs (by simpa [noLate] using h)
  | .resSuspend _ v, h => by simpa [hasRead] using noLate_nested_hasRead v (by simpa [noLate] using h)
  | .resRead _ _ _, h => by simp [noLate] at h
  | .localRead, _ => by simp [hasRead]
  | .localAwait _, _ => by simp [hasRead]
theorem noLateL_nested_hasRead : (vs : List View) → noLateL .nested vs = true → hasReadL vs = false
  | [], _ => by simp [hasReadL]
  | v :: vs, h => by
    simp only [noLateL, Bool.and_eq_true] at h
    simp [hasReadL, noLate_nested_hasRead v h.1, noLateL_nested_hasRead vs h.2]
end

mutual
theorem noLate_direct_guards : (v : View) → noLate .direct v = true → guardsOf v = []
  | .raw _, _ => by simp [guardsOf]
  | .seq vs, h => by simpa [guardsOf] using noLateL_direct_guards vs (by simpa [noLate] using h)
  | .suspend _ _, _ => by simp [guardsOf]
  | .suspense _ _ _, _ => by simp [guardsOf]
  | .eb vs, h => by simpa [guardsOf] using noLateL_direct_guards vs (by simpa [noLate] using h)
  | .resSuspend _ _, _ => by simp [guardsOf]
  | .resRead _ _ v, h => by
    have h' : noLate .nested v = true := by simpa [noLate] using h
    have hr := noLate_nested_hasRead v h'
    simp [guardsOf, hr, hasRead_guards v hr]
  | .localRead, _ => by simp [guardsOf]
  | .localAwait _, _ => by simp [guardsOf]
theorem noLateL_direct_guards : (vs : List View) → noLateL .direct vs = true → guardsOfL vs = []
  | [], _ => by simp [guardsOfL]
  | v :: vs, h => by
    simp only [noLateL, Bool.and_eq_true] at h
    simp [guardsOfL, noLate_direct_guards v h.1, noLateL_direct_guards vs h.2]
end

/-! ### the rendering rules in terms of `compile` (= `compileA` with nothing loaded at the enclosing boundary) -/

theorem compile_raw (ooo : Bool) (c : Ctx) (s : Str) : compile ooo c (.raw s) = [Op.sync s] := by
  cases c <;> simp [compile, compileA]
theorem compile_seq (ooo : Bool) (c : Ctx) (vs : List View) : compile ooo c (.seq vs) = compileL ooo c vs := by
  cases c <;> simp [compile, compileL, compileA]
theorem compileL_nil (ooo : Bool) (c : Ctx) : compileL ooo c [] = [] := by simp [compileL, compileAL]
theorem compileL_cons (ooo : Bool) (c : Ctx) (v : View) (vs : List View) :
    compileL ooo c (v :: vs) = compile ooo c v ++ compileL ooo c vs := by simp [compile, compileL, compileAL]
theorem compile_suspend_top (ooo : Bool) (f : FId) (v : View) :
    compile ooo .top (.suspend f v) =
      [Op.ite { deps := [f], tick := false } (compile ooo .top v)
        (Op.nextId ::
          (if ooo then [Op.fallback "<!>".toList, Op.ooo { deps := [f], tick := false } true (compile ooo .top v) none]
           else [Op.async { deps := [f], tick := false } (compile ooo .top v)]))] := by simp [compile, compileA]
theorem compile_suspend_direct (ooo : Bool) (f : FId) (v : View) :
    compile ooo .direct (.suspend f v) = compile ooo .nested v := by simp [compile, compileA]
theorem compile_suspend_nested (ooo : Bool) (f : FId) (v : View) :
    compile ooo .nested (.suspend f v) = compile ooo .nested v := by simp [compile, compileA]
theorem compile_resSuspend_top (ooo : Bool) (f : FId) (v : View) :
    compile ooo .top (.resSuspend f v) =
      [Op.ite { deps := [f], tick := true } (compile ooo .top v)
        (Op.nextId ::
          (if ooo then [Op.fallback "<!>".toList, Op.ooo { deps := [f], tick := true } true (compile ooo .top v) none]
           else [Op.async { deps := [f], tick := true } (compile ooo .top v)]))] := by simp [compile, compileA]
theorem compile_resSuspend_direct (ooo : Bool) (f : FId) (v : View) :
    compile ooo .direct (.resSuspend f v) = compile ooo .nested v := by simp [compile, compileA]
theorem compile_resSuspend_nested (ooo : Bool) (f : FId) (v : View) :
    compile ooo .nested (.resSuspend f v) = compile ooo .nested v := by simp [compile, compileA]
theorem compile_eb (ooo : Bool) (c : Ctx) (vs : List View) : compile ooo c (.eb vs) = [Op.sub (compileL ooo c vs)] := by
  cases c <;> simp [compile, compileL, compileA]
theorem compile_resRead_top (ooo : Bool) (once : Bool) (f : FId) (v : View) :
    compile ooo .top (.resRead once f v) = compile ooo .top v := by simp [compile, compileA]
theorem compile_resRead_direct (ooo : Bool) (once : Bool) (f : FId) (v : View) :
    compile ooo .direct (.resRead once f v) = compile ooo .nested v := by simp [compile, compileA]
theorem compile_resRead_nested (ooo : Bool) (once : Bool) (f : FId) (v : View) :
    compile ooo .nested (.resRead once f v) =
      [Op.ite { deps := [f], tick := false } (compile ooo .nested v) [Op.sync "<!>".toList]] := by simp [compile, compileA]
theorem compile_localRead (ooo : Bool) (c : Ctx) : compile ooo c .localRead = [] := by
  cases c <;> simp [compile, compileA]
theorem compile_localAwait (ooo : Bool) (c : Ctx) (f : FId) : compile ooo c (.localAwait f) = [] := by
  cases c <;> simp [compile, compileA]
/-- a boundary none of whose walked reads has a read in its output: no branching on what had loaded -/
theorem compile_suspense (ooo : Bool) (c : Ctx) (fb : Str) (nonce : Option Str) (vs : List View) (hg : guardsOfL vs = []) :
    compile ooo c (.suspense fb nonce vs) =
      if localNowL vs then [Op.nextId, Op.sync fb]
      else match localWaitL vs with
        | some f =>
          Op.nextId ::
            (if ooo then [Op.fallback fb, Op.ooo { deps := [f], tick := true } false [] nonce]
             else [Op.async { deps := [f], tick := true } [Op.sync fb]])
        | none =>
          Op.nextId ::
            (if ooo then [Op.fallback fb, Op.ooo { deps := directDepsL vs, tick := true } true (compileL ooo .direct vs) nonce]
             else [Op.async { deps := directDepsL vs, tick := true } (compileL ooo .direct vs)]) := by
  cases c <;> (simp only [compile, compileL, compileA, hg, iteTree, directDepsL]; try rfl)

theorem compile_inOrd : ∀ (n : Nat),
    (∀ (c : Ctx) (v : View), viewSize v ≤ n → noLate c v = true →
      inOrdOps (compile false c v) = true ∧ docOps (compile false c v) = viewDoc v) ∧
    (∀ (c : Ctx) (vs : List View), viewSizeL vs ≤ n → noLateL c vs = true →
      inOrdOps (compileL false c vs) = true ∧ docOps (compileL false c vs) = viewDocL vs) := by
  intro n
  induction n with
  | zero =>
    refine ⟨?_, ?_⟩
    · intro c v h; cases v <;> simp [viewSize] at h
    · intro c vs h _
      cases vs with
      | nil => simp [compileL_nil, compileL_cons, inOrdOps, docOps, viewDocL]
      | cons v vs => cases v <;> simp [viewSizeL, viewSize] at h
  | succ n ih =>
    have hL : ∀ (c : Ctx) (vs : List View), viewSizeL vs ≤ n + 1 → noLateL c vs = true →
        (∀ (c : Ctx) (v : View), viewSize v ≤ n + 1 → noLate c v = true →
          inOrdOps (compile false c v) = true ∧ docOps (compile false c v) = viewDoc v) →
        inOrdOps (compileL false c vs) = true ∧ docOps (compileL false c vs) = viewDocL vs := by
      intro c vs
      induction vs with
      | nil => intro _ _ _; simp [compileL_nil, compileL_cons, inOrdOps, docOps, viewDocL]
      | cons v vs ihv =>
        intro h hn hv
        simp only [viewSizeL] at h
        simp only [noLateL, Bool.and_eq_true] at hn
        have h1 := hv c v (by omega) hn.1
        have h2 := ihv (by omega) hn.2 hv
        simp [compileL_nil, compileL_cons, inOrdOps_append, docOps_append, viewDocL, h1, h2]
    have hV : ∀ (c : Ctx) (v : View), viewSize v ≤ n + 1 → noLate c v = true →
        inOrdOps (compile false c v) = true ∧ docOps (compile false c v) = viewDoc v := by
      intro c v h hn
      cases v with
      | raw s => cases c <;> simp [compile_raw, compile_seq, compileL_nil, compileL_cons, compile_suspend_top, compile_suspend_direct, compile_suspend_nested, compile_resSuspend_top, compile_resSuspend_direct, compile_resSuspend_nested, compile_eb, compile_resRead_top, compile_resRead_direct, compile_resRead_nested, compile_localRead, compile_localAwait, inOrdOps, inOrdOp, docOps, docOp, viewDoc]
      | seq vs =>
        simp only [viewSize] at h
        have := ih.2 c vs (by omega) (by cases c <;> simpa [noLate] using hn)
        cases c <;> simpa [compile_raw, compile_seq, compileL_nil, compileL_cons, compile_suspend_top, compile_suspend_direct, compile_suspend_nested, compile_resSuspend_top, compile_resSuspend_direct, compile_resSuspend_nested, compile_eb, compile_resRead_top, compile_resRead_direct, compile_resRead_nested, compile_localRead, compile_localAwait, viewDoc] using this
      | suspend f v =>
        simp only [viewSize] at h
        cases c with
        | top =>
          have := ih.1 .top v (by omega) (by simpa [noLate] using hn)
          simp [compile_raw, compile_seq, compileL_nil, compileL_cons, compile_suspend_top, compile_suspend_direct, compile_suspend_nested, compile_resSuspend_top, compile_resSuspend_direct, compile_resSuspend_nested, compile_eb, compile_resRead_top, compile_resRead_direct, compile_resRead_nested, compile_localRead, compile_localAwait, inOrdOps, inOrdOp, docOps, docOp, viewDoc, this]
        | direct =>
          have := ih.1 .nested v (by omega) (by simpa [noLate] using hn)
          simpa [compile_raw, compile_seq, compileL_nil, compileL_cons, compile_suspend_top, compile_suspend_direct, compile_suspend_nested, compile_resSuspend_top, compile_resSuspend_direct, compile_resSuspend_nested, compile_eb, compile_resRead_top, compile_resRead_direct, compile_resRead_nested, compile_localRead, compile_localAwait, viewDoc] using this
        | nested =>
          have := ih.1 .nested v (by omega) (by simpa [noLate] using hn)
          simpa [compile_raw, compile_seq, compileL_nil, compileL_cons, compile_suspend_top, compile_suspend_direct, compile_suspend_nested, compile_resSuspend_top, compile_resSuspend_direct, compile_resSuspend_nested, compile_eb, compile_resRead_top, compile_resRead_direct, compile_resRead_nested, compile_localRead, compile_localAwait, viewDoc] using this
      | suspense fb nonce vs =>
        simp only [viewSize] at h
        have hnl : noLateL .direct vs = true := by cases c <;> simpa [noLate] using hn
        have hS := fun ooo c => compile_suspense ooo c fb nonce vs (noLateL_direct_guards vs hnl)
        have := ih.2 .direct vs (by omega) hnl
        by_cases hl : localNowL vs = true
        · cases c <;> simp [compile_raw, compile_seq, compileL_nil, compileL_cons, compile_suspend_top, compile_suspend_direct, compile_suspend_nested, compile_resSuspend_top, compile_resSuspend_direct, compile_resSuspend_nested, compile_eb, compile_resRead_top, compile_resRead_direct, compile_resRead_nested, compile_localRead, compile_localAwait, hS, inOrdOps, inOrdOp, docOps, docOp, viewDoc, hl]
        · have hl' : localNowL vs = false := by simpa using hl
          cases hw : localWaitL vs with
          | some f => cases c <;> simp [compile_raw, compile_seq, compileL_nil, compileL_cons, compile_suspend_top, compile_suspend_direct, compile_suspend_nested, compile_resSuspend_top, compile_resSuspend_direct, compile_resSuspend_nested, compile_eb, compile_resRead_top, compile_resRead_direct, compile_resRead_nested, compile_localRead, compile_localAwait, hS, inOrdOps, inOrdOp, docOps, docOp, viewDoc, hl', hw]
          | none => cases c <;> simp [compile_raw, compile_seq, compileL_nil, compileL_cons, compile_suspend_top, compile_suspend_direct, compile_suspend_nested, compile_resSuspend_top, compile_resSuspend_direct, compile_resSuspend_nested, compile_eb, compile_resRead_top, compile_resRead_direct, compile_resRead_nested, compile_localRead, compile_localAwait, hS, inOrdOps, inOrdOp, docOps, docOp, viewDoc, hl', hw, this]
      | eb vs =>
        simp only [viewSize] at h
        have := ih.2 c vs (by omega) (by cases c <;> simpa [noLate] using hn)
        cases c <;> simp [compile_raw, compile_seq, compileL_nil, compileL_cons, compile_suspend_top, compile_suspend_direct, compile_suspend_nested, compile_resSuspend_top, compile_resSuspend_direct, compile_resSuspend_nested, compile_eb, compile_resRead_top, compile_resRead_direct, compile_resRead_nested, compile_localRead, compile_localAwait, inOrdOps, inOrdOp, docOps, docOp, viewDoc, this]
      | resSuspend f v =>
        simp only [viewSize] at h
        cases c with
        | top =>
          have := ih.1 .top v (by omega) (by simpa [noLate] using hn)
          simp [compile_raw, compile_seq, compileL_nil, compileL_cons, compile_suspend_top, compile_suspend_direct, compile_suspend_nested, compile_resSuspend_top, compile_resSuspend_direct, compile_resSuspend_nested, compile_eb, compile_resRead_top, compile_resRead_direct, compile_resRead_nested, compile_localRead, compile_localAwait, inOrdOps, inOrdOp, docOps, docOp, viewDoc, this]
        | direct =>
          have := ih.1 .nested v (by omega) (by simpa [noLate] using hn)
          simpa [compile_raw, compile_seq, compileL_nil, compileL_cons, compile_suspend_top, compile_suspend_direct, compile_suspend_nested, compile_resSuspend_top, compile_resSuspend_direct, compile_resSuspend_nested, compile_eb, compile_resRead_top, compile_resRead_direct, compile_resRead_nested, compile_localRead, compile_localAwait, viewDoc] using this
        | nested =>
          have := ih.1 .nested v (by omega) (by simpa [noLate] using hn)
          simpa [compile_raw, compile_seq, compileL_nil, compileL_cons, compile_suspend_top, compile_suspend_direct, compile_suspend_nested, compile_resSuspend_top, compile_resSuspend_direct, compile_resSuspend_nested, compile_eb, compile_resRead_top, compile_resRead_direct, compile_resRead_nested, compile_localRead, compile_localAwait, viewDoc] using this
      | resRead once f v =>
        simp only [viewSize] at h
        cases c with
        | top =>
          have := ih.1 .top v (by omega) (by simpa [noLate] using hn)
          simpa [compile_raw, compile_seq, compileL_nil, compileL_cons, compile_suspend_top, compile_suspend_direct, compile_suspend_nested, compile_resSuspend_top, compile_resSuspend_direct, compile_resSuspend_nested, compile_eb, compile_resRead_top, compile_resRead_direct, compile_resRead_nested, compile_localRead, compile_localAwait, viewDoc] using this
        | direct =>
          have := ih.1 .nested v (by omega) (by simpa [noLate] using hn)
          simpa [compile_raw, compile_seq, compileL_nil, compileL_cons, compile_suspend_top, compile_suspend_direct, compile_suspend_nested, compile_resSuspend_top, compile_resSuspend_direct, compile_resSuspend_nested, compile_eb, compile_resRead_top, compile_resRead_direct, compile_resRead_nested, compile_localRead, compile_localAwait, viewDoc] using this
        | nested => simp [noLate] at hn
      | localRead => cases c <;> simp [compile_raw, compile_seq, compileL_nil, compileL_cons, compile_suspend_top, compile_suspend_direct, compile_suspend_nested, compile_resSuspend_top, compile_resSuspend_direct, compile_resSuspend_nested, compile_eb, compile_resRead_top, compile_resRead_direct, compile_resRead_nested, compile_localRead, compile_localAwait, inOrdOps, docOps, viewDoc]
      | localAwait f => cases c <;> simp [compile_raw, compile_seq, compileL_nil, compileL_cons, compile_suspend_top, compile_suspend_direct, compile_suspend_nested, compile_resSuspend_top, compile_resSuspend_direct, compile_resSuspend_nested, compile_eb, compile_resRead_top, compile_resRead_direct, compile_resRead_nested, compile_localRead, compile_localAwait, inOrdOps, docOps, viewDoc]
    exact ⟨hV, fun c vs h hn => hL c vs h hn hV⟩

/-! `oooViewOk`: no boundary whose future resolves to `None` *later* (`localWait`: a `LocalResource` awaited after another
    future; the out-of-order chunk then has `replace = false`, which `OooWf` does not cover) -/
mutual
def oooViewOk : View → Bool
  | .raw _ => true
  | .seq vs => oooViewOkL vs
  | .suspend _ v => oooViewOk v
  | .suspense _ _ vs => (localNowL vs || (localWaitL vs).isNone) && oooViewOkL vs
  | .eb vs => oooViewOkL vs
  | .resSuspend _ v => oooViewOk v
  | .resRead _ _ v => oooViewOk v
  | .localRead => true
  | .localAwait _ => true
def oooViewOkL : List View → Bool
  | [] => true
  | v :: vs => oooViewOk v && oooViewOkL vs
end

/-- the same shape as an inductive predicate (convenient for induction) -/
inductive OooWf : List Op → Prop where
  | nil : OooWf []
  | sync (s : Str) {os : List Op} : OooWf os → OooWf (Op.sync s :: os)
  | nextId {os : List Op} : OooWf os → OooWf (Op.nextId :: os)
  | triple (s : Str) (fut : Fut) (nonce : Option Str) {body os : List Op} : OooWf body → OooWf os →
      OooWf (Op.nextId :: Op.fallback s :: Op.ooo fut true body nonce :: os)
  | ite (fut : Fut) {t e os : List Op} : OooWf t → OooWf e → oooDocOps t = oooDocOps e → OooWf os →
      OooWf (Op.ite fut t e :: os)
  | sub {body os : List Op} : OooWf body → OooWf os → OooWf (Op.sub body :: os)

theorem OooWf_of_bool : ∀ (n : Nat) (ops : List Op), opsSize ops ≤ n → oooWfOps ops = true → OooWf ops := by
  intro n
  induction n with
  | zero =>
    intro ops h _
    cases ops with
    | nil => exact .nil
    | cons o os => cases o <;> simp [opsSize, opSize] at h
  | succ n ih =>
    intro ops h hw
    match ops, h, hw with
    | [], _, _ => exact .nil
    | .nextId :: .fallback s :: .ooo fut true body nonce :: os, h, hw =>
      simp only [oooWfOps, Bool.and_eq_true] at hw
      simp only [opsSize, opSize] at h
      exact .triple s fut nonce (ih body (by omega) hw.1) (ih os (by omega) hw.2)
    | .sync s :: os, h, hw =>
      simp only [oooWfOps, oooWfOp, Bool.true_and] at hw
      simp only [opsSize, opSize] at h
      exact .sync s (ih os (by omega) hw)
    | .nextId :: [], h, hw => exact .nextId .nil
    | .nextId :: .sync s :: os, h, hw =>
      simp only [oooWfOps, oooWfOp, Bool.true_and] at hw
      simp only [opsSize, opSize] at h
      exact .nextId (.sync s (ih os (by omega) hw))
    | .nextId :: .nextId :: os, h, hw =>
      simp only [opsSize, opSize] at h
      have : oooWfOps (.nextId :: os) = true := by
        rw [oooWfOps] at hw
        · simpa [oooWfOp] using hw
        · intro s fut body nonce os' _ he; simp at he
      exact .nextId (ih (.nextId :: os) (by simp only [opsSize, opSize]; omega) this)
    | .nextId :: .ite fut t e :: os, h, hw =>
      simp only [opsSize, opSize] at h
      have : oooWfOps (.ite fut t e :: os) = true := by
        rw [oooWfOps] at hw
        · simpa [oooWfOp] using hw
        · intro s fut body nonce os' _ he; simp at he
      exact .nextId (ih (.ite fut t e :: os) (by simp only [opsSize, opSize]; omega) this)
    | .nextId :: .async _ _ :: os, h, hw => simp [oooWfOps, oooWfOp] at hw
    | .nextId :: .sub body :: os, h, hw =>
      simp only [opsSize, opSize] at h
      have : oooWfOps (.sub body :: os) = true := by
        rw [oooWfOps] at hw
        · simpa [oooWfOp] using hw
        · intro s fut body nonce os' _ he; simp at he
      exact .nextId (ih (.sub body :: os) (by simp only [opsSize, opSize]; omega) this)
    | .nextId :: .ooo _ _ _ _ :: os, h, hw => simp [oooWfOps, oooWfOp] at hw
    | .nextId :: .fallback _ :: [], h, hw => simp [oooWfOps, oooWfOp] at hw
    | .nextId :: .fallback _ :: .sync _ :: os, h, hw => simp [oooWfOps, oooWfOp] at hw
    | .nextId :: .fallback _ :: .async _ _ :: os, h, hw => simp [oooWfOps, oooWfOp] at hw
    | .nextId :: .fallback _ :: .fallback _ :: os, h, hw => simp [oooWfOps, oooWfOp] at hw
    | .nextId :: .fallback _ :: .nextId :: os, h, hw => simp [oooWfOps, oooWfOp] at hw
    | .nextId :: .fallback _ :: .sub _ :: os, h, hw => simp [oooWfOps, oooWfOp] at hw
    | .nextId :: .fallback _ :: .ite _ _ _ :: os, h, hw => simp [oooWfOps, oooWfOp] at hw
    | .nextId :: .fallback _ :: .ooo _ false _ _ :: os, h, hw => simp [oooWfOps, oooWfOp] at hw
    | .ite fut t e :: os, h, hw =>
      simp only [oooWfOps, oooWfOp, Bool.and_eq_true, decide_eq_true_eq] at hw
      simp only [opsSize, opSize] at h
      exact .ite fut (ih t (by omega) hw.1.1.1) (ih e (by omega) hw.1.1.2) hw.1.2 (ih os (by omega) hw.2)
    | .async _ _ :: os, h, hw => simp [oooWfOps, oooWfOp] at hw
    | .fallback _ :: os, h, hw => simp [oooWfOps, oooWfOp] at hw
    | .ooo _ _ _ _ :: os, h, hw => simp [oooWfOps, oooWfOp] at hw
    | .sub body :: os, h, hw =>
      simp only [oooWfOps, oooWfOp, Bool.and_eq_true] at hw
      simp only [opsSize, opSize] at h
      exact .sub (ih body (by omega) hw.1) (ih os (by omega) hw.2)
    | .finish :: os, h, hw => simp [oooWfOps, oooWfOp] at hw
    | .nextId :: .finish :: os, h, hw => simp [oooWfOps, oooWfOp] at hw
    | .nextId :: .fallback _ :: .finish :: os, h, hw => simp [oooWfOps, oooWfOp] at hw

theorem OooWf.append {a b : List Op} (ha : OooWf a) (hb : OooWf b) : OooWf (a ++ b) := by
  induction ha with
  | nil => exact hb
  | sync s _ ih => exact .sync s ih
  | nextId _ ih => exact .nextId ih
  | triple s fut nonce hbody _ _ ih => exact .triple s fut nonce hbody ih
  | ite fut ht he hte _ _ _ ih => exact .ite fut ht he hte ih
  | sub hbody _ _ ih => exact .sub hbody ih

theorem oooDocOps_append {a : List Op} (ha : OooWf a) (b : List Op) : oooDocOps (a ++ b) = oooDocOps a ++ oooDocOps b := by
  induction ha with
  | nil => simp [oooDocOps]
  | sync s _ ih => simp [oooDocOps, oooDocOp, ih]
  | nextId _ ih => simp [oooDocOps, oooDocOp, ih]
  | triple s fut nonce _ _ _ ih => simp [oooDocOps, oooDocOp, ih]
  | ite fut _ _ _ _ _ _ ih => simp [oooDocOps, oooDocOp, ih]
  | sub _ _ _ ih => simp [oooDocOps, oooDocOp, ih]

theorem compile_oooWf : ∀ (n : Nat),
    (∀ (c : Ctx) (v : View), viewSize v ≤ n → oooViewOk v = true → noLate c v = true →
      OooWf (compile true c v) ∧ oooDocOps (compile true c v) = viewDoc v) ∧
    (∀ (c : Ctx) (vs : List View), viewSizeL vs ≤ n → oooViewOkL vs = true → noLateL c vs = true →
      OooWf (compileL true c vs) ∧ oooDocOps (compileL true c vs) = viewDocL vs) := by
  intro n
  induction n with
  | zero =>
    refine ⟨?_, ?_⟩
    · intro c v h; cases v <;> simp [viewSize] at h
    · intro c vs h _ _
      cases vs with
      | nil => exact ⟨by simp [compileL_nil, compileL_cons]; exact .nil, by simp [compileL_nil, compileL_cons, oooDocOps, viewDocL]⟩
      | cons v vs => cases v <;> simp [viewSizeL, viewSize] at h
  | succ n ih =>
    have hL : ∀ (c : Ctx) (vs : List View), viewSizeL vs ≤ n + 1 → oooViewOkL vs = true → noLateL c vs = true →
        (∀ (c : Ctx) (v : View), viewSize v ≤ n + 1 → oooViewOk v = true → noLate c v = true →
          OooWf (compile true c v) ∧ oooDocOps (compile true c v) = viewDoc v) →
        OooWf (compileL true c vs) ∧ oooDocOps (compileL true c vs) = viewDocL vs := by
      intro c vs
      induction vs with
      | nil => intro _ _ _ _; exact ⟨by simp [compileL_nil, compileL_cons]; exact .nil, by simp [compileL_nil, compileL_cons, oooDocOps, viewDocL]⟩
      | cons v vs ihv =>
        intro h hok hn hv
        simp only [viewSizeL] at h
        simp only [oooViewOkL, Bool.and_eq_true] at hok
        simp only [noLateL, Bool.and_eq_true] at hn
        have h1 := hv c v (by omega) hok.1 hn.1
        have h2 := ihv (by omega) hok.2 hn.2 hv
        refine ⟨by simp only [compileL_nil, compileL_cons]; exact h1.1.append h2.1, ?_⟩
        simp [compileL_nil, compileL_cons, oooDocOps_append h1.1, viewDocL, h1.2, h2.2]
    have hV : ∀ (c : Ctx) (v : View), viewSize v ≤ n + 1 → oooViewOk v = true → noLate c v = true →
        OooWf (compile true c v) ∧ oooDocOps (compile true c v) = viewDoc v := by
      intro c v h hok hn
      cases v with
      | raw s => cases c <;> exact ⟨by simp only [compile_raw, compile_seq, compileL_nil, compileL_cons, compile_suspend_top, compile_suspend_direct, compile_suspend_nested, compile_resSuspend_top, compile_resSuspend_direct, compile_resSuspend_nested, compile_eb, compile_resRead_top, compile_resRead_direct, compile_resRead_nested, compile_localRead, compile_localAwait]; exact .sync s .nil, by simp [compile_raw, compile_seq, compileL_nil, compileL_cons, compile_suspend_top, compile_suspend_direct, compile_suspend_nested, compile_resSuspend_top, compile_resSuspend_direct, compile_resSuspend_nested, compile_eb, compile_resRead_top, compile_resRead_direct, compile_resRead_nested, compile_localRead, compile_localAwait, oooDocOps, oooDocOp, viewDoc]⟩
      | seq vs =>
        simp only [viewSize] at h
        have := ih.2 c vs (by omega) (by simpa [oooViewOk] using hok) (by cases c <;> simpa [noLate] using hn)
        cases c <;> simpa [compile_raw, compile_seq, compileL_nil, compileL_cons, compile_suspend_top, compile_suspend_direct, compile_suspend_nested, compile_resSuspend_top, compile_resSuspend_direct, compile_resSuspend_nested, compile_eb, compile_resRead_top, compile_resRead_direct, compile_resRead_nested, compile_localRead, compile_localAwait, viewDoc] using this
      | suspend f v =>
        simp only [viewSize] at h
        have hv : oooViewOk v = true := by simpa [oooViewOk] using hok
        cases c with
        | top =>
          have := ih.1 .top v (by omega) hv (by simpa [noLate] using hn)
          refine ⟨?_, ?_⟩
          · simp only [compile_raw, compile_seq, compileL_nil, compileL_cons, compile_suspend_top, compile_suspend_direct, compile_suspend_nested, compile_resSuspend_top, compile_resSuspend_direct, compile_resSuspend_nested, compile_eb, compile_resRead_top, compile_resRead_direct, compile_resRead_nested, compile_localRead, compile_localAwait, if_true]
            exact .ite _ this.1 (.triple _ _ _ this.1 .nil) (by simp [oooDocOps, oooDocOp]) .nil
          · simp [compile_raw, compile_seq, compileL_nil, compileL_cons, compile_suspend_top, compile_suspend_direct, compile_suspend_nested, compile_resSuspend_top, compile_resSuspend_direct, compile_resSuspend_nested, compile_eb, compile_resRead_top, compile_resRead_direct, compile_resRead_nested, compile_localRead, compile_localAwait, oooDocOps, oooDocOp, viewDoc, this.2]
        | direct =>
          have := ih.1 .nested v (by omega) hv (by simpa [noLate] using hn)
          simpa [compile_raw, compile_seq, compileL_nil, compileL_cons, compile_suspend_top, compile_suspend_direct, compile_suspend_nested, compile_resSuspend_top, compile_resSuspend_direct, compile_resSuspend_nested, compile_eb, compile_resRead_top, compile_resRead_direct, compile_resRead_nested, compile_localRead, compile_localAwait, viewDoc] using this
        | nested =>
          have := ih.1 .nested v (by omega) hv (by simpa [noLate] using hn)
          simpa [compile_raw, compile_seq, compileL_nil, compileL_cons, compile_suspend_top, compile_suspend_direct, compile_suspend_nested, compile_resSuspend_top, compile_resSuspend_direct, compile_resSuspend_nested, compile_eb, compile_resRead_top, compile_resRead_direct, compile_resRead_nested, compile_localRead, compile_localAwait, viewDoc] using this
      | suspense fb nonce vs =>
        simp only [viewSize] at h
        simp only [oooViewOk, Bool.and_eq_true, Bool.or_eq_true] at hok
        have hnl : noLateL .direct vs = true := by cases c <;> simpa [noLate] using hn
        have hS := fun ooo c => compile_suspense ooo c fb nonce vs (noLateL_direct_guards vs hnl)
        have := ih.2 .direct vs (by omega) hok.2 hnl
        by_cases hl : localNowL vs = true
        · cases c <;> exact ⟨by simp only [compile_raw, compile_seq, compileL_nil, compileL_cons, compile_suspend_top, compile_suspend_direct, compile_suspend_nested, compile_resSuspend_top, compile_resSuspend_direct, compile_resSuspend_nested, compile_eb, compile_resRead_top, compile_resRead_direct, compile_resRead_nested, compile_localRead, compile_localAwait, hS, hl, if_true]; exact .nextId (.sync fb .nil),
            by simp [compile_raw, compile_seq, compileL_nil, compileL_cons, compile_suspend_top, compile_suspend_direct, compile_suspend_nested, compile_resSuspend_top, compile_resSuspend_direct, compile_resSuspend_nested, compile_eb, compile_resRead_top, compile_resRead_direct, compile_resRead_nested, compile_localRead, compile_localAwait, hS, hl, oooDocOps, oooDocOp, viewDoc]⟩
        · have hl' : localNowL vs = false := by simpa using hl
          have hw : localWaitL vs = none := by
            rcases hok.1 with h0 | h0
            · exact absurd h0 hl
            · simpa using h0
          cases c <;> exact ⟨by simp only [compile_raw, compile_seq, compileL_nil, compileL_cons, compile_suspend_top, compile_suspend_direct, compile_suspend_nested, compile_resSuspend_top, compile_resSuspend_direct, compile_resSuspend_nested, compile_eb, compile_resRead_top, compile_resRead_direct, compile_resRead_nested, compile_localRead, compile_localAwait, hS, hl', hw, if_true, Bool.false_eq_true, if_false]; exact .triple _ _ _ this.1 .nil,
            by simp [compile_raw, compile_seq, compileL_nil, compileL_cons, compile_suspend_top, compile_suspend_direct, compile_suspend_nested, compile_resSuspend_top, compile_resSuspend_direct, compile_resSuspend_nested, compile_eb, compile_resRead_top, compile_resRead_direct, compile_resRead_nested, compile_localRead, compile_localAwait, hS, hl', hw, oooDocOps, oooDocOp, viewDoc, this.2]⟩
      | eb vs =>
        simp only [viewSize] at h
        have := ih.2 c vs (by omega) (by simpa [oooViewOk] using hok) (by cases c <;> simpa [noLate] using hn)
        cases c <;> exact ⟨by simp only [compile_raw, compile_seq, compileL_nil, compileL_cons, compile_suspend_top, compile_suspend_direct, compile_suspend_nested, compile_resSuspend_top, compile_resSuspend_direct, compile_resSuspend_nested, compile_eb, compile_resRead_top, compile_resRead_direct, compile_resRead_nested, compile_localRead, compile_localAwait]; exact .sub this.1 .nil,
          by simp [compile_raw, compile_seq, compileL_nil, compileL_cons, compile_suspend_top, compile_suspend_direct, compile_suspend_nested, compile_resSuspend_top, compile_resSuspend_direct, compile_resSuspend_nested, compile_eb, compile_resRead_top, compile_resRead_direct, compile_resRead_nested, compile_localRead, compile_localAwait, oooDocOps, oooDocOp, viewDoc, this.2]⟩
      | resSuspend f v =>
        simp only [viewSize] at h
        have hv : oooViewOk v = true := by simpa [oooViewOk] using hok
        cases c with
        | top =>
          have := ih.1 .top v (by omega) hv (by simpa [noLate] using hn)
          refine ⟨?_, ?_⟩
          · simp only [compile_raw, compile_seq, compileL_nil, compileL_cons, compile_suspend_top, compile_suspend_direct, compile_suspend_nested, compile_resSuspend_top, compile_resSuspend_direct, compile_resSuspend_nested, compile_eb, compile_resRead_top, compile_resRead_direct, compile_resRead_nested, compile_localRead, compile_localAwait, if_true]
            exact .ite _ this.1 (.triple _ _ _ this.1 .nil) (by simp [oooDocOps, oooDocOp]) .nil
          · simp [compile_raw, compile_seq, compileL_nil, compileL_cons, compile_suspend_top, compile_suspend_direct, compile_suspend_nested, compile_resSuspend_top, compile_resSuspend_direct, compile_resSuspend_nested, compile_eb, compile_resRead_top, compile_resRead_direct, compile_resRead_nested, compile_localRead, compile_localAwait, oooDocOps, oooDocOp, viewDoc, this.2]
        | direct =>
          have := ih.1 .nested v (by omega) hv (by simpa [noLate] using hn)
          simpa [compile_raw, compile_seq, compileL_nil, compileL_cons, compile_suspend_top, compile_suspend_direct, compile_suspend_nested, compile_resSuspend_top, compile_resSuspend_direct, compile_resSuspend_nested, compile_eb, compile_resRead_top, compile_resRead_direct, compile_resRead_nested, compile_localRead, compile_localAwait, viewDoc] using this
        | nested =>
          have := ih.1 .nested v (by omega) hv (by simpa [noLate] using hn)
          simpa [compile_raw, compile_seq, compileL_nil, compileL_cons, compile_suspend_top, compile_suspend_direct, compile_suspend_nested, compile_resSuspend_top, compile_resSuspend_direct, compile_resSuspend_nested, compile_eb, compile_resRead_top, compile_resRead_direct, compile_resRead_nested, compile_localRead, compile_localAwait, viewDoc] using this
      | resRead once f v =>
        simp only [viewSize] at h
        have hv : oooViewOk v = true := by simpa [oooViewOk] using hok
        cases c with
        | top =>
          have := ih.1 .top v (by omega) hv (by simpa [noLate] using hn)
          simpa [compile_raw, compile_seq, compileL_nil, compileL_cons, compile_suspend_top, compile_suspend_direct, compile_suspend_nested, compile_resSuspend_top, compile_resSuspend_direct, compile_resSuspend_nested, compile_eb, compile_resRead_top, compile_resRead_direct, compile_resRead_nested, compile_localRead, compile_localAwait, viewDoc] using this
        | direct =>
          have := ih.1 .nested v (by omega) hv (by simpa [noLate] using hn)
          simpa [compile_raw, compile_seq, compileL_nil, compileL_cons, compile_suspend_top, compile_suspend_direct, compile_suspend_nested, compile_resSuspend_top, compile_resSuspend_direct, compile_resSuspend_nested, compile_eb, compile_resRead_top, compile_resRead_direct, compile_resRead_nested, compile_localRead, compile_localAwait, viewDoc] using this
        | nested => simp [noLate] at hn
      | localRead => cases c <;> exact ⟨by simp only [compile_raw, compile_seq, compileL_nil, compileL_cons, compile_suspend_top, compile_suspend_direct, compile_suspend_nested, compile_resSuspend_top, compile_resSuspend_direct, compile_resSuspend_nested, compile_eb, compile_resRead_top, compile_resRead_direct, compile_resRead_nested, compile_localRead, compile_localAwait]; exact .nil, by simp [compile_raw, compile_seq, compileL_nil, compileL_cons, compile_suspend_top, compile_suspend_direct, compile_suspend_nested, compile_resSuspend_top, compile_resSuspend_direct, compile_resSuspend_nested, compile_eb, compile_resRead_top, compile_resRead_direct, compile_resRead_nested, compile_localRead, compile_localAwait, oooDocOps, viewDoc]⟩
      | localAwait f => cases c <;> exact ⟨by simp only [compile_raw, compile_seq, compileL_nil, compileL_cons, compile_suspend_top, compile_suspend_direct, compile_suspend_nested, compile_resSuspend_top, compile_resSuspend_direct, compile_resSuspend_nested, compile_eb, compile_resRead_top, compile_resRead_direct, compile_resRead_nested, compile_localRead, compile_localAwait]; exact .nil, by simp [compile_raw, compile_seq, compileL_nil, compileL_cons, compile_suspend_top, compile_suspend_direct, compile_suspend_nested, compile_resSuspend_top, compile_resSuspend_direct, compile_resSuspend_nested, compile_eb, compile_resRead_top, compile_resRead_direct, compile_resRead_nested, compile_localRead, compile_localAwait, oooDocOps, viewDoc]⟩
    exact ⟨hV, fun c vs h hok hn => hL c vs h hok hn hV⟩

/-! ### marker ids (`next_id`, the `push(0)` of a sub-builder) -/

def oooIds : List Chunk → List Id
  | [] => []
  | .ooo p :: cs => p.id :: oooIds cs
  | _ :: cs => oooIds cs

theorem oooIds_append (a b : List Chunk) : oooIds (a ++ b) = oooIds a ++ oooIds b := by
  induction a with
  | nil => rfl
  | cons c cs ih => cases c <;> simp [oooIds, ih]

theorem bumpLast_snoc (pre : List Nat) (k : Nat) : Builder.bumpLast (pre ++ [k]) = pre ++ [k + 1] := by
  induction pre with
  | nil => rfl
  | cons a pre ih =>
    cases pre with
    | nil => rfl
    | cons b pre => simp only [List.cons_append] at ih ⊢; rw [Builder.bumpLast, ih]

/-- the ids used in one builder: all of the form `pre ++ [j]` with `lo < j ≤` the current counter, pairwise distinct -/
def IdsOk (pre : List Nat) (lo k : Nat) (b : Builder) : Prop :=
  b.id = some (pre ++ [k]) ∧ (∀ i ∈ oooIds b.chunks, ∃ j, lo < j ∧ j ≤ k ∧ i = some (pre ++ [j])) ∧ (oooIds b.chunks).Nodup

theorem oooIds_flushed (b : Builder) : oooIds b.flushed = oooIds b.chunks := by
  unfold Builder.flushed; split
  · rfl
  · simp [oooIds_append, oooIds]

theorem append_ids (b o : Builder) : oooIds (b.append o).chunks = oooIds b.chunks ++ oooIds o.chunks := by
  unfold Builder.append; split <;> simp [oooIds_append, oooIds_flushed]

theorem append_id (b o : Builder) (i : List Nat) (h : o.id = some i) : (b.append o).id = some i := by
  unfold Builder.append; split <;> simp [h]

theorem exec_ids {ops : List Op} (h : OooWf ops) (env : Env) : ∀ (b : Builder) (pre : List Nat) (lo k : Nat),
    lo ≤ k → IdsOk pre lo k b → ∃ k', k ≤ k' ∧ IdsOk pre lo k' (execOps env ops b) := by
  induction h with
  | nil => intro b pre lo k _ hb; exact ⟨k, Nat.le_refl _, hb⟩
  | sync s _ ih =>
    intro b pre lo k hlo hb
    simp only [execOps, execOp]
    exact ih _ pre lo k hlo (by simpa [IdsOk, Builder.pushSync] using hb)
  | nextId _ ih =>
    intro b pre lo k hlo hb
    simp only [execOps, execOp]
    obtain ⟨k', hk', h'⟩ := ih b.nextId pre lo (k + 1) (by omega) (by
      refine ⟨by simp [Builder.nextId, hb.1, bumpLast_snoc], ?_, by simpa [Builder.nextId] using hb.2.2⟩
      intro i hi
      obtain ⟨j, hj1, hj, rfl⟩ := hb.2.1 i (by simpa [Builder.nextId] using hi)
      exact ⟨j, hj1, by omega, rfl⟩)
    exact ⟨k', by omega, h'⟩
  | triple s fut nonce _ _ _ ih =>
    intro b pre lo k hlo hb
    simp only [execOps, execOp]
    have hid : (b.nextId.pushFallback s).id = some (pre ++ [k + 1]) := by
      simp [Builder.pushFallback, (phi_writeMarker _ _).2, Builder.nextId, hb.1, bumpLast_snoc]
    have hch : (b.nextId.pushFallback s).chunks = b.chunks := by
      simp [Builder.pushFallback, (phi_writeMarker _ _).1, Builder.nextId]
    obtain ⟨k', hk', h'⟩ := ih ((b.nextId.pushFallback s).pushOoo
        { fut := fut, born := env.now, id := (b.nextId.pushFallback s).id, replace := true, body := _, nonce := nonce })
      pre lo (k + 1) (by omega) (by
        refine ⟨by simpa [Builder.pushOoo] using hid, ?_, ?_⟩
        · intro i hi
          simp only [Builder.pushOoo, hch, oooIds_append, oooIds, List.mem_append, List.mem_singleton] at hi
          rcases hi with hi | hi
          · obtain ⟨j, hj1, hj, rfl⟩ := hb.2.1 i hi
            exact ⟨j, hj1, by omega, rfl⟩
          · exact ⟨k + 1, by omega, Nat.le_refl _, by rw [hi, hid]⟩
        · simp only [Builder.pushOoo, hch, oooIds_append, oooIds, hid]
          rw [List.nodup_append]
          refine ⟨hb.2.2, by simp, ?_⟩
          intro a ha b' hb'
          simp at hb'
          subst hb'
          obtain ⟨j, _, hj, rfl⟩ := hb.2.1 a ha
          intro he
          have := List.append_inj_right' (Option.some.inj he) rfl
          simp at this
          omega)
    exact ⟨k', by omega, h'⟩
  | ite fut _ _ _ _ iht ihe ihos =>
    intro b pre lo k hlo hb
    simp only [execOps, execOp]
    split
    · obtain ⟨k1, hk1, h1⟩ := iht b pre lo k hlo hb
      obtain ⟨k2, hk2, h2⟩ := ihos _ pre lo k1 (by omega) h1
      exact ⟨k2, by omega, h2⟩
    · obtain ⟨k1, hk1, h1⟩ := ihe b pre lo k hlo hb
      obtain ⟨k2, hk2, h2⟩ := ihos _ pre lo k1 (by omega) h1
      exact ⟨k2, by omega, h2⟩
  | sub _ _ ihb ihos =>
    intro b pre lo k hlo hb
    simp only [execOps, execOp]
    -- the sub-builder continues the numbering; the repaired `append` takes its counter back (fix-c07-3)
    obtain ⟨k1, hk1, h1⟩ := ihb (Builder.new b.id) pre k k (Nat.le_refl _)
      ⟨by simp [Builder.new, hb.1], by simp [Builder.new, oooIds], by simp [Builder.new, oooIds]⟩
    obtain ⟨k2, hk2, h2⟩ := ihos (b.append (execOps env _ (Builder.new b.id))) pre lo k1 (by omega) (by
      refine ⟨append_id _ _ _ h1.1, ?_, ?_⟩
      · intro i hi
        rw [append_ids, List.mem_append] at hi
        rcases hi with hi | hi
        · obtain ⟨j, hj1, hj, rfl⟩ := hb.2.1 i hi
          exact ⟨j, hj1, by omega, rfl⟩
        · obtain ⟨j, hj1, hj, rfl⟩ := h1.2.1 i hi
          exact ⟨j, by omega, hj, rfl⟩
      · rw [append_ids, List.nodup_append]
        refine ⟨hb.2.2, h1.2.2, ?_⟩
        intro a ha a' ha'
        obtain ⟨j, _, hj, rfl⟩ := hb.2.1 a ha
        obtain ⟨j', hj1', _, rfl⟩ := h1.2.1 a' ha'
        intro he
        have := List.append_inj_right' (Option.some.inj he) rfl
        simp at this
        omega)
    exact ⟨k2, by omega, h2⟩

theorem oooIds_cons (c : Chunk) (l : List Chunk) : oooIds (c :: l) = oooIds [c] ++ oooIds l :=
  oooIds_append [c] l

theorem oooIds_finishChunks : ∀ (cs : List Chunk) (rest : Str), oooIds (Builder.finishChunks cs rest) = oooIds cs
  | [], _ => rfl
  | [c], rest => by cases c <;> rfl
  | c :: c' :: l, rest => by
    rw [Builder.finishChunks, oooIds_cons, oooIds_finishChunks (c' :: l) rest, ← oooIds_cons]

theorem oooIds_finish_take (b : Builder) : oooIds b.finish.takeChunks = oooIds b.chunks := by
  unfold Builder.finish Builder.takeChunks Builder.flushed
  split
  · rename_i h; simp [h]
  · simp [oooIds_finishChunks]

/-- the chunks of a resolved out-of-order future carry ids that extend the future's own id by one component -/
theorem resolveOoo_ids (env : Env) (p : PendOoo) (I : List Nat) (hI : p.id = some I) (hw : OooWf p.body) :
    (resolveOoo env p).id = piecesStr I ∧
    (∀ i ∈ oooIds (resolveOoo env p).chunks, ∃ j, 1 ≤ j ∧ i = some (I ++ [j])) ∧
    (oooIds (resolveOoo env p).chunks).Nodup := by
  unfold resolveOoo
  dsimp only
  refine ⟨by simp [Builder.new, hI, idStr], ?_⟩
  split
  · obtain ⟨k', _, h'⟩ := exec_ids hw env
      ({ (Builder.new p.id) with id := (Builder.new p.id).id.map (· ++ [0]) } : Builder) I 0 0 (Nat.le_refl _)
      ⟨by simp [Builder.new, hI], by simp [Builder.new, oooIds], by simp [Builder.new, oooIds]⟩
    rw [oooIds_finish_take]
    refine ⟨?_, h'.2.2⟩
    intro i hi
    obtain ⟨j, hj1, _, rfl⟩ := h'.2.1 i hi
    exact ⟨j, hj1, rfl⟩
  · rw [oooIds_finish_take]
    simp [Builder.new, oooIds]

theorem startStream_ids (prog : List Op) (hw : OooWf prog) (done0 : List FId) :
    (∀ i ∈ oooIds (startStream true done0 prog).b.chunks, ∃ j, 1 ≤ j ∧ i = some [j]) ∧
    (oooIds (startStream true done0 prog).b.chunks).Nodup := by
  unfold startStream
  dsimp only
  obtain ⟨k', _, h'⟩ := exec_ids hw { done := done0, now := 0 } (Builder.new (some [0])) [] 0 0 (Nat.le_refl _)
    ⟨by simp [Builder.new], by simp [Builder.new, oooIds], by simp [Builder.new, oooIds]⟩
  have hf : ∀ b : Builder, oooIds b.finish.chunks = oooIds b.chunks := by
    intro b; unfold Builder.finish; split
    · rfl
    · simp [oooIds_finishChunks]
  simp only [if_true, hf]
  refine ⟨?_, h'.2.2⟩
  intro i hi
  obtain ⟨j, hj1, _, rfl⟩ := h'.2.1 i hi
  exact ⟨j, hj1, by simp⟩

end Leptos.Stream
