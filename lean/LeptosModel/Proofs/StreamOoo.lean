import LeptosModel.Proofs.StreamClient
import LeptosModel.Proofs.StreamView
/-! Proofs/StreamOoo — out-of-order streaming: the builder's state as segments and items, the invariant of
    `poll_next`, and the final document. -/
namespace Leptos.Stream

/-! ### clean programs -/

def cleanNonce (n : Option Str) : Bool := n.isNone

mutual
def cleanOp : Op → Bool
  | .sync s => cleanStr s
  | .async _ body => cleanOps body
  | .fallback s => cleanStr s
  | .ooo _ _ body nonce => cleanOps body && cleanNonce nonce
  | .nextId => true
  | .sub body => cleanOps body
  | .ite _ t e => cleanOps t && cleanOps e
  | .finish => true
def cleanOps : List Op → Bool
  | [] => true
  | o :: os => cleanOp o && cleanOps os
end

/-! ### substitution and filling -/

/-- the document in which every hole whose id `σ` knows is replaced by the given text -/
def fill (σ : List Nat → Option Str) : List Seg → Str
  | [] => []
  | .lit s :: gs => s ++ fill σ gs
  | .hole I fb :: gs => (match σ I with | some d => d | none => (Seg.hole I fb).str) ++ fill σ gs

theorem fill_append (σ : List Nat → Option Str) (a b : List Seg) : fill σ (a ++ b) = fill σ a ++ fill σ b := by
  induction a with
  | nil => rfl
  | cons g gs ih => cases g <;> simp [fill, ih]

theorem fill_congr {σ σ' : List Nat → Option Str} : ∀ {gs : List Seg}, (∀ I ∈ holeIds gs, σ I = σ' I) →
    fill σ gs = fill σ' gs
  | [], _ => rfl
  | .lit s :: gs, h => by simp [fill, fill_congr (gs := gs) (by simpa [holeIds] using h)]
  | .hole I fb :: gs, h => by
    simp only [holeIds, List.mem_cons, forall_eq_or_imp] at h
    simp [fill, h.1, fill_congr (gs := gs) h.2]

theorem fill_noHoles (σ : List Nat → Option Str) : ∀ {gs : List Seg}, holeIds gs = [] → fill σ gs = segsStr gs
  | [], _ => rfl
  | .lit s :: gs, h => by simp [fill, segsStr, Seg.str, fill_noHoles σ (gs := gs) (by simpa [holeIds] using h)]
  | .hole I fb :: gs, h => by simp [holeIds] at h

theorem substHole_append_mem {I : List Nat} {c : List Seg} : ∀ {X Y : List Seg}, I ∈ holeIds X →
    substHole I c (X ++ Y) = substHole I c X ++ Y
  | [], _, h => by simp [holeIds] at h
  | .lit s :: gs, Y, h => by
    simp [substHole, substHole_append_mem (X := gs) (Y := Y) (by simpa [holeIds] using h)]
  | .hole J fb :: gs, Y, h => by
    by_cases hJ : J = I
    · simp [substHole, hJ]
    · have : I ∈ holeIds gs := by
        simp only [holeIds, List.mem_cons] at h
        rcases h with h | h
        · exact absurd h.symm hJ
        · exact h
      simp [substHole, hJ, substHole_append_mem (X := gs) (Y := Y) this]

theorem substHole_append_notin {I : List Nat} {c : List Seg} {X Y : List Seg} (h : I ∉ holeIds X) :
    substHole I c (X ++ Y) = X ++ substHole I c Y := by
  induction X with
  | nil => rfl
  | cons g gs ih =>
    cases g with
    | lit s => simp [substHole, ih (by simpa [holeIds] using h)]
    | hole J fb =>
      simp only [holeIds, List.mem_cons, not_or] at h
      simp [substHole, Ne.symm h.1, ih h.2]

theorem holeIds_subst_mem {I : List Nat} {c : List Seg} {X : List Seg} {J : List Nat} :
    J ∈ holeIds (substHole I c X) → J ∈ holeIds X ∨ J ∈ holeIds c := by
  induction X with
  | nil => simp [substHole, holeIds]
  | cons g gs ih =>
    cases g with
    | lit s => simpa [substHole, holeIds] using ih
    | hole K fb =>
      simp only [substHole]
      split
      · intro h
        rw [holeIds_append] at h
        rcases List.mem_append.1 h with h | h
        · exact Or.inr h
        · exact Or.inl (by simp [holeIds, h])
      · intro h
        simp only [holeIds, List.mem_cons] at h
        rcases h with h | h
        · exact Or.inl (by simp [holeIds, h])
        · rcases ih h with h | h
          · exact Or.inl (by simp [holeIds, h])
          · exact Or.inr h

/-- substitutions at different ids commute -/
theorem substHole_comm {I J : List Nat} {c c' : List Seg} (hne : I ≠ J) (hJ : J ∉ holeIds c) (hI : I ∉ holeIds c') :
    ∀ (X : List Seg), substHole J c' (substHole I c X) = substHole I c (substHole J c' X)
  | [] => rfl
  | .lit s :: gs => by simp [substHole, substHole_comm hne hJ hI gs]
  | .hole K fb :: gs => by
    by_cases hKI : K = I
    · subst hKI
      have hKJ : ¬ K = J := hne
      simp only [substHole, if_true, hKJ, if_false]
      rw [substHole_append_notin hJ]
    · by_cases hKJ : K = J
      · subst hKJ
        simp only [substHole, hKI, if_false, if_true]
        rw [substHole_append_notin hI]
      · simp [substHole, hKI, hKJ, substHole_comm hne hJ hI gs]

theorem mem_holeIds_subst_other {I J : List Nat} {c : List Seg} (hne : J ≠ I) :
    ∀ {X : List Seg}, J ∈ holeIds X → J ∈ holeIds (substHole I c X)
  | [], h => by simp [holeIds] at h
  | .lit s :: gs, h => by
    simpa [substHole, holeIds] using mem_holeIds_subst_other hne (X := gs) (by simpa [holeIds] using h)
  | .hole K fb :: gs, h => by
    simp only [substHole]
    split
    · rename_i hK
      simp only [holeIds, List.mem_cons] at h
      rcases h with h | h
      · exact absurd (h.trans hK) hne
      · rw [holeIds_append]; exact List.mem_append_right _ h
    · simp only [holeIds, List.mem_cons] at h ⊢
      rcases h with h | h
      · exact Or.inl h
      · exact Or.inr (mem_holeIds_subst_other hne h)

theorem clientS_append (dom : List Seg) (a b : List Item) : clientS dom (a ++ b) = clientS (clientS dom a) b := by
  induction a generalizing dom with
  | nil => rfl
  | cons i is ih => cases i <;> simp [clientS, ih]

theorem clientS_segItems (dom gs : List Seg) : clientS dom (segItems gs) = dom ++ gs := by
  induction gs generalizing dom with
  | nil => simp [segItems, clientS]
  | cons g gs ih => simp only [segItems, List.map_cons, clientS] at ih ⊢; rw [ih]; simp

/-- substituting a hole that no later template touches commutes with the rest of the stream -/
theorem clientS_subst {I : List Nat} {c : List Seg} : ∀ (B : List Item) (X : List Seg), I ∈ holeIds X →
    I ∉ tplIds B → I ∉ allIds B → (∀ K ∈ tplIds B, K ∉ holeIds c) →
    clientS (substHole I c X) B = substHole I c (clientS X B) := by
  intro B
  induction B with
  | nil => intro X _ _ _ _; rfl
  | cons i is ih =>
    intro X hX ht ha hc
    cases i with
    | seg g =>
      simp only [clientS]
      rw [← ih (X ++ [g]) (by rw [holeIds_append]; exact List.mem_append_left _ hX)
        (by simpa [tplIds] using ht)
        (by cases g <;> simp [allIds] at ha ⊢ <;> first | exact ha | exact ha.2)
        (by simpa [tplIds] using hc)]
      rw [substHole_append_mem hX]
    | tpl t =>
      simp only [tplIds, List.mem_cons, not_or] at ht
      simp only [allIds, List.mem_append, not_or] at ha
      have hc' : t.I ∉ holeIds c := hc t.I (by simp [tplIds])
      simp only [clientS]
      rw [substHole_comm (Ne.symm ht.1) hc' ha.1 X]
      exact ih _ (mem_holeIds_subst_other (Ne.symm ht.1) hX) ht.2 ha.2 (fun K hK => hc K (by simp [tplIds, hK]))

/-- the holes of the document come from the holes of the stream -/
theorem holeIds_clientS {J : List Nat} : ∀ (B : List Item) (dom : List Seg), J ∈ holeIds (clientS dom B) →
    J ∈ holeIds dom ∨ J ∈ allIds B := by
  intro B
  induction B with
  | nil => intro dom h; exact Or.inl h
  | cons i is ih =>
    intro dom h
    cases i with
    | seg g =>
      simp only [clientS] at h
      rcases ih _ h with h | h
      · rw [holeIds_append] at h
        rcases List.mem_append.1 h with h | h
        · exact Or.inl h
        · cases g with
          | lit s => simp [holeIds] at h
          | hole K fb => simp [holeIds] at h; exact Or.inr (by simp [allIds, h])
      · exact Or.inr (by cases g <;> simp [allIds, h])
    | tpl t =>
      simp only [clientS] at h
      rcases ih _ h with h | h
      · rcases holeIds_subst_mem h with h | h
        · exact Or.inl h
        · exact Or.inr (by simp [allIds, h])
      · exact Or.inr (by simp [allIds, h])

theorem nodup_clientS : ∀ (B : List Item) (dom : List Seg) (R : List (List Nat)),
    (holeIds dom ++ (allIds B ++ R)).Nodup → (holeIds (clientS dom B) ++ R).Nodup := by
  intro B
  induction B with
  | nil => intro dom R h; simpa [allIds, clientS] using h
  | cons i is ih =>
    intro dom R h
    cases i with
    | seg g =>
      simp only [clientS]
      apply ih
      cases g with
      | lit s => simpa [allIds, holeIds_append, holeIds] using h
      | hole K fb => simpa [allIds, holeIds_append, holeIds] using h
    | tpl t =>
      simp only [clientS]
      apply ih
      apply nodup_subst
      simpa [allIds] using h

end Leptos.Stream
