import LeptosModel.Proofs.StreamClient
import LeptosModel.Proofs.StreamView
/-! Proofs/StreamOoo — out-of-order streaming: the builder's state as segments and items, the invariant of
    `poll_next`, and the final document. -/
namespace Leptos.Stream

/-! ### clean programs -/

def cleanNonce (n : Option Str) : Bool := n.isNone

mutual
def cleanOp : Op → Bool
  | .sync s => cleanStr s
  | .async _ body => cleanOps body
  | .fallback s => cleanStr s
  | .ooo _ _ body nonce => cleanOps body && cleanNonce nonce
  | .nextId => true
  | .sub body => cleanOps body
  | .ite _ t e => cleanOps t && cleanOps e
  | .finish => true
def cleanOps : List Op → Bool
  | [] => true
  | o :: os => cleanOp o && cleanOps os
end

/-! ### substitution and filling -/

/-- the document in which every hole whose id `σ` knows is replaced by the given text -/
def fill (σ : List Nat → Option Str) : List Seg → Str
  | [] => []
  | .lit s :: gs => s ++ fill σ gs
  | .hole I fb :: gs => (match σ I with | some d => d | none => (Seg.hole I fb).str) ++ fill σ gs

theorem fill_append (σ : List Nat → Option Str) (a b : List Seg) : fill σ (a ++ b) = fill σ a ++ fill σ b := by
  induction a with
  | nil => rfl
  | cons g gs ih => cases g <;> simp [fill, ih]

theorem fill_congr {σ σ' : List Nat → Option Str} : ∀ {gs : List Seg}, (∀ I ∈ holeIds gs, σ I = σ' I) →
    fill σ gs = fill σ' gs
  | [], _ => rfl
  | .lit s :: gs, h => by simp [fill, fill_congr (gs := gs) (by simpa [holeIds] using h)]
  | .hole I fb :: gs, h => by
    simp only [holeIds, List.mem_cons, forall_eq_or_imp] at h
    simp [fill, h.1, fill_congr (gs := gs) h.2]

theorem fill_noHoles (σ : List Nat → Option Str) : ∀ {gs : List Seg}, holeIds gs = [] → fill σ gs = segsStr gs
  | [], _ => rfl
  | .lit s :: gs, h => by simp [fill, segsStr, Seg.str, fill_noHoles σ (gs := gs) (by simpa [holeIds] using h)]
  | .hole I fb :: gs, h => by simp [holeIds] at h

theorem substHole_append_mem {I : List Nat} {c : List Seg} : ∀ {X Y : List Seg}, I ∈ holeIds X →
    substHole I c (X ++ Y) = substHole I c X ++ Y
  | [], _, h => by simp [holeIds] at h
  | .lit s :: gs, Y, h => by
    simp [substHole, substHole_append_mem (X := gs) (Y := Y) (by simpa [holeIds] using h)]
  | .hole J fb :: gs, Y, h => by
    by_cases hJ : J = I
    · simp [substHole, hJ]
    · have : I ∈ holeIds gs := by
        simp only [holeIds, List.mem_cons] at h
        rcases h with h | h
        · exact absurd h.symm hJ
        · exact h
      simp [substHole, hJ, substHole_append_mem (X := gs) (Y := Y) this]

theorem substHole_append_notin {I : List Nat} {c : List Seg} {X Y : List Seg} (h : I ∉ holeIds X) :
    substHole I c (X ++ Y) = X ++ substHole I c Y := by
  induction X with
  | nil => rfl
  | cons g gs ih =>
    cases g with
    | lit s => simp [substHole, ih (by simpa [holeIds] using h)]
    | hole J fb =>
      simp only [holeIds, List.mem_cons, not_or] at h
      simp [substHole, Ne.symm h.1, ih h.2]

theorem holeIds_subst_mem {I : List Nat} {c : List Seg} {X : List Seg} {J : List Nat} :
    J ∈ holeIds (substHole I c X) → J ∈ holeIds X ∨ J ∈ holeIds c := by
  induction X with
  | nil => simp [substHole, holeIds]
  | cons g gs ih =>
    cases g with
    | lit s => simpa [substHole, holeIds] using ih
    | hole K fb =>
      simp only [substHole]
      split
      · intro h
        rw [holeIds_append] at h
        rcases List.mem_append.1 h with h | h
        · exact Or.inr h
        · exact Or.inl (by simp [holeIds, h])
      · intro h
        simp only [holeIds, List.mem_cons] at h
        rcases h with h | h
        · exact Or.inl (by simp [holeIds, h])
        · rcases ih h with h | h
          · exact Or.inl (by simp [holeIds, h])
          · exact Or.inr h

/-- substitutions at different ids commute -/
theorem substHole_comm {I J : List Nat} {c c' : List Seg} (hne : I ≠ J) (hJ : J ∉ holeIds c) (hI : I ∉ holeIds c') :
    ∀ (X : List Seg), substHole J c' (substHole I c X) = substHole I c (substHole J c' X)
  | [] => rfl
  | .lit s :: gs => by simp [substHole, substHole_comm hne hJ hI gs]
  | .hole K fb :: gs => by
    by_cases hKI : K = I
    · subst hKI
      have hKJ : ¬ K = J := hne
      simp only [substHole, if_true, hKJ, if_false]
      rw [substHole_append_notin hJ]
    · by_cases hKJ : K = J
      · subst hKJ
        simp only [substHole, hKI, if_false, if_true]
        rw [substHole_append_notin hI]
      · simp [substHole, hKI, hKJ, substHole_comm hne hJ hI gs]

theorem mem_holeIds_subst_other {I J : List Nat} {c : List Seg} (hne : J ≠ I) :
    ∀ {X : List Seg}, J ∈ holeIds X → J ∈ holeIds (substHole I c X)
  | [], h => by simp [holeIds] at h
  | .lit s :: gs, h => by
    simpa [substHole, holeIds] using mem_holeIds_subst_other hne (X := gs) (by simpa [holeIds] using h)
  | .hole K fb :: gs, h => by
    simp only [substHole]
    split
    · rename_i hK
      simp only [holeIds, List.mem_cons] at h
      rcases h with h | h
      · exact absurd (h.trans hK) hne
      · rw [holeIds_append]; exact List.mem_append_right _ h
    · simp only [holeIds, List.mem_cons] at h ⊢
      rcases h with h | h
      · exact Or.inl h
      · exact Or.inr (mem_holeIds_subst_other hne h)

theorem clientS_append (dom : List Seg) (a b : List Item) : clientS dom (a ++ b) = clientS (clientS dom a) b := by
  induction a generalizing dom with
  | nil => rfl
  | cons i is ih => cases i <;> simp [clientS, ih]

theorem clientS_segItems (dom gs : List Seg) : clientS dom (segItems gs) = dom ++ gs := by
  induction gs generalizing dom with
  | nil => simp [segItems, clientS]
  | cons g gs ih => simp only [segItems, List.map_cons, clientS] at ih ⊢; rw [ih]; simp

/-- substituting a hole that no later template touches commutes with the rest of the stream -/
theorem clientS_subst {I : List Nat} {c : List Seg} : ∀ (B : List Item) (X : List Seg), I ∈ holeIds X →
    I ∉ tplIds B → I ∉ allIds B → (∀ K ∈ tplIds B, K ∉ holeIds c) →
    clientS (substHole I c X) B = substHole I c (clientS X B) := by
  intro B
  induction B with
  | nil => intro X _ _ _ _; rfl
  | cons i is ih =>
    intro X hX ht ha hc
    cases i with
    | seg g =>
      simp only [clientS]
      rw [← ih (X ++ [g]) (by rw [holeIds_append]; exact List.mem_append_left _ hX)
        (by simpa [tplIds] using ht)
        (by cases g <;> simp [allIds] at ha ⊢ <;> first | exact ha | exact ha.2)
        (by simpa [tplIds] using hc)]
      rw [substHole_append_mem hX]
    | tpl t =>
      simp only [tplIds, List.mem_cons, not_or] at ht
      simp only [allIds, List.mem_append, not_or] at ha
      have hc' : t.I ∉ holeIds c := hc t.I (by simp [tplIds])
      simp only [clientS]
      rw [substHole_comm ht.1 hc' ha.1 X]
      exact ih _ (mem_holeIds_subst_other ht.1 hX) ht.2 ha.2 (fun K hK => hc K (by simp [tplIds, hK]))

/-- the holes of the document come from the holes of the stream -/
theorem holeIds_clientS {J : List Nat} : ∀ (B : List Item) (dom : List Seg), J ∈ holeIds (clientS dom B) →
    J ∈ holeIds dom ∨ J ∈ allIds B := by
  intro B
  induction B with
  | nil => intro dom h; exact Or.inl h
  | cons i is ih =>
    intro dom h
    cases i with
    | seg g =>
      simp only [clientS] at h
      rcases ih _ h with h1 | h1
      · rw [holeIds_append] at h1
        rcases List.mem_append.1 h1 with h2 | h2
        · exact Or.inl h2
        · cases g with
          | lit s => simp [holeIds] at h2
          | hole K fb => simp [holeIds] at h2; exact Or.inr (by simp [allIds, h2])
      · refine Or.inr ?_
        cases g with
        | lit s => simpa [allIds] using h1
        | hole K fb => simp [allIds, h1]
    | tpl t =>
      simp only [clientS] at h
      rcases ih _ h with h | h
      · rcases holeIds_subst_mem h with h | h
        · exact Or.inl h
        · exact Or.inr (by simp [allIds, h])
      · exact Or.inr (by simp [allIds, h])

theorem nodup_clientS : ∀ (B : List Item) (dom : List Seg) (R : List (List Nat)),
    (holeIds dom ++ (allIds B ++ R)).Nodup → (holeIds (clientS dom B) ++ R).Nodup := by
  intro B
  induction B with
  | nil => intro dom R h; simpa [allIds, clientS] using h
  | cons i is ih =>
    intro dom R h
    cases i with
    | seg g =>
      simp only [clientS]
      apply ih
      cases g with
      | lit s => simpa [allIds, holeIds_append, holeIds] using h
      | hole K fb => simpa [allIds, holeIds_append, holeIds] using h
    | tpl t =>
      simp only [clientS]
      apply ih
      apply nodup_subst
      simpa [allIds] using h


/-! ### what executing an out-of-order program does to a builder -/

structure NodeOk (p : PendOoo) : Prop where
  replace : p.replace = true
  nonce : p.nonce = none
  wf : OooWf p.body
  clean : cleanOps p.body = true

/-- A compositional reading of out-of-order programs relative to the set `done` of completed base futures:
    `P done ops x` — "`x` is an admissible document of `ops`"; `holeOk done fut body fb v` — "the hole of a triple with
    future `fut`, program `body` and fallback `fb` may show `v`".  Two instances: the final document (`finalSem`) and
    the partial documents (`partialSem`, Theorems/C07). -/
structure Sem where
  P : List FId → List Op → Str → Prop
  holeOk : List FId → Fut → List Op → Str → Str → Prop
  nil : ∀ done, P done [] []
  sync : ∀ {done s os d}, P done os d → P done (Op.sync s :: os) (s ++ d)
  nextId : ∀ {done os d}, P done os d → P done (Op.nextId :: os) d
  triple : ∀ {done s fut body nonce os d v}, holeOk done fut body s v → P done os d →
    P done (Op.nextId :: Op.fallback s :: Op.ooo fut true body nonce :: os) (v ++ d)
  iteT : ∀ {done fut t e os dt d}, (∀ x ∈ fut.deps, x ∈ done) → P done t dt → P done os d →
    P done (Op.ite fut t e :: os) (dt ++ d)
  iteE : ∀ {done fut t e os de d}, oooDocOps t = oooDocOps e → P done e de → P done os d →
    P done (Op.ite fut t e :: os) (de ++ d)
  sub : ∀ {done body os db d}, P done body db → P done os d → P done (Op.sub body :: os) (db ++ d)
  resolve : ∀ {done fut body fb v}, (∀ x ∈ fut.deps, x ∈ done) → P done body v → holeOk done fut body fb v

/-- `σ` gives every hole that belongs to a node an admissible value -/
def Adm (S : Sem) (done : List FId) (σ : List Nat → Option Str) (D : List Seg) (out : List PendOoo) : Prop :=
  ∀ I fb, Seg.hole I fb ∈ D → ∀ p ∈ out, p.id = some I → ∃ v, σ I = some v ∧ S.holeOk done p.fut p.body fb v

theorem Adm.mono {S : Sem} {done : List FId} {σ : List Nat → Option Str} {D D' : List Seg} {out out' : List PendOoo}
    (h : Adm S done σ D out) (hD : ∀ g ∈ D', g ∈ D) (ho : ∀ p ∈ out', p ∈ out) : Adm S done σ D' out' :=
  fun I fb hg p hp hI => h I fb (hD _ hg) p (ho p hp) hI

/-- the final document -/
def finalSem : Sem where
  P := fun _ ops x => x = oooDocOps ops
  holeOk := fun _ _ body _ v => v = oooDocOps body
  nil := fun _ => by simp [oooDocOps]
  sync := by intro _ s os d h; simp [oooDocOps, oooDocOp, h]
  nextId := by intro _ os d h; simp [oooDocOps, oooDocOp, h]
  triple := by intro _ s fut body nonce os d v hv h; simp [oooDocOps, oooDocOp, hv, h]
  iteT := by intro _ fut t e os dt d _ ht h; simp [oooDocOps, oooDocOp, ht, h]
  iteE := by intro _ fut t e os de d hte he h; simp [oooDocOps, oooDocOp, he, h, hte]
  sub := by intro _ body os db d hb h; simp [oooDocOps, oooDocOp, hb, h]
  resolve := by intro _ _ _ _ _ _ h; exact h

theorem ready_deps {env : Env} {fut : Fut} {born : Nat} (h : fut.ready env born = true) :
    ∀ x ∈ fut.deps, x ∈ env.done := by
  unfold Fut.ready at h
  simp only [Bool.and_eq_true, List.all_eq_true] at h
  intro x hx
  simpa using h.1.1 x hx

theorem pushFallback_str (b : Builder) (ids : List Nat) (s : Str) (h : b.id = some ids) :
    (b.pushFallback s).syncBuf = b.syncBuf ++ (Seg.hole ids s).str ∧ (b.pushFallback s).chunks = b.chunks ∧
    (b.pushFallback s).id = some ids ∧ (b.pushFallback s).pending = b.pending ∧
    (b.pushFallback s).pendingOoo = b.pendingOoo := by
  refine ⟨?_, ?_, ?_, ?_, ?_⟩
  · simp [Builder.pushFallback, Builder.writeMarker, h, Seg.str, opening, closing]
  · simp [Builder.pushFallback, Builder.writeMarker, h]
  · simp [Builder.pushFallback, Builder.writeMarker, h]
  · simp [Builder.pushFallback, Builder.writeMarker, h]
  · simp [Builder.pushFallback, Builder.writeMarker, h]

theorem exec_segs {ops : List Op} (hw : OooWf ops) (env : Env) : ∀ (b : Builder), cleanOps ops = true →
    (∃ ids, b.id = some ids) →
    ∃ (segs : List Seg) (ps : List PendOoo),
      (execOps env ops b).syncBuf = b.syncBuf ++ segsStr segs ∧
      (execOps env ops b).chunks = b.chunks ++ ps.map Chunk.ooo ∧
      (∃ ids', (execOps env ops b).id = some ids') ∧
      (∀ g ∈ segs, g.ok) ∧ (holeIds segs).map some = ps.map (·.id) ∧ (∀ p ∈ ps, NodeOk p) ∧
      ∀ (S : Sem) (done : List FId), (∀ x ∈ env.done, x ∈ done) → ∀ σ, Adm S done σ segs ps →
        S.P done ops (fill σ segs) := by
  induction hw with
  | nil =>
    intro b _ hid
    exact ⟨[], [], by simp [execOps, segsStr], by simp [execOps], hid, by simp, rfl, by simp,
      fun S done _ _ _ => by simpa [fill] using S.nil done⟩
  | @sync s os _ ih =>
    intro b hc hid
    simp only [cleanOps, cleanOp, Bool.and_eq_true] at hc
    obtain ⟨segs, ps, h1, h2, h3, h4, h5, h6, h7⟩ := ih (b.pushSync s) hc.2 (by simpa [Builder.pushSync] using hid)
    refine ⟨Seg.lit s :: segs, ps, ?_, ?_, h3, ?_, by simpa [holeIds] using h5, h6, ?_⟩
    · simp only [execOps, execOp]; rw [h1]; simp [Builder.pushSync, segsStr, Seg.str]
    · simp only [execOps, execOp]; rw [h2]; simp [Builder.pushSync]
    · intro g hg
      simp only [List.mem_cons] at hg
      rcases hg with hg | hg
      · subst hg; exact clean_of_bool hc.1
      · exact h4 g hg
    · intro S done hd σ hσ
      have := h7 S done hd σ (hσ.mono (fun g hg => by simp [hg]) (fun p hp => hp))
      simpa [fill] using S.sync (s := s) this
  | @nextId os _ ih =>
    intro b hc hid
    simp only [cleanOps, cleanOp, Bool.true_and] at hc
    obtain ⟨ids, hids⟩ := hid
    obtain ⟨segs, ps, h1, h2, h3, h4, h5, h6, h7⟩ := ih b.nextId hc ⟨Builder.bumpLast ids, by simp [Builder.nextId, hids]⟩
    refine ⟨segs, ps, ?_, ?_, h3, h4, h5, h6, ?_⟩
    · simp only [execOps, execOp]; rw [h1]; simp [Builder.nextId]
    · simp only [execOps, execOp]; rw [h2]; simp [Builder.nextId]
    · intro S done hd σ hσ
      exact S.nextId (h7 S done hd σ hσ)
  | @triple s fut nonce body os hbody _ _ ih =>
    intro b hc hid
    simp only [cleanOps, cleanOp, Bool.and_eq_true, Bool.true_and] at hc
    obtain ⟨hcs, ⟨hcb, hcn⟩, hcos⟩ := hc
    obtain ⟨ids, hids⟩ := hid
    have hid1 : b.nextId.id = some (Builder.bumpLast ids) := by simp [Builder.nextId, hids]
    obtain ⟨f1, f2, f3, f4, f5⟩ := pushFallback_str b.nextId (Builder.bumpLast ids) s hid1
    let p : PendOoo := { fut := fut, born := env.now, id := (b.nextId.pushFallback s).id, replace := true,
                         body := body, nonce := nonce }
    obtain ⟨segs, ps, h1, h2, h3, h4, h5, h6, h7⟩ := ih ((b.nextId.pushFallback s).pushOoo p) hcos
      ⟨_, by simpa [Builder.pushOoo] using f3⟩
    have hpid : p.id = some (Builder.bumpLast ids) := f3
    refine ⟨Seg.hole (Builder.bumpLast ids) s :: segs, p :: ps, ?_, ?_, h3, ?_, ?_, ?_, ?_⟩
    · have e : ((b.nextId.pushFallback s).pushOoo p).syncBuf = b.syncBuf ++ (Seg.hole (Builder.bumpLast ids) s).str := by
        simp only [Builder.pushOoo]; rw [f1]; rfl
      simp only [execOps, execOp]
      show (execOps env os ((b.nextId.pushFallback s).pushOoo p)).syncBuf = _
      rw [h1, e]; simp [segsStr]
    · have e : ((b.nextId.pushFallback s).pushOoo p).chunks = b.chunks ++ [Chunk.ooo p] := by
        simp only [Builder.pushOoo]; rw [f2]; rfl
      simp only [execOps, execOp]
      show (execOps env os ((b.nextId.pushFallback s).pushOoo p)).chunks = _
      rw [h2, e]; simp
    · intro g hg
      simp only [List.mem_cons] at hg
      rcases hg with hg | hg
      · subst hg; exact clean_of_bool hcs
      · exact h4 g hg
    · simp [holeIds, h5, hpid]
    · intro q hq
      simp only [List.mem_cons] at hq
      rcases hq with hq | hq
      · subst hq
        exact ⟨rfl, by simpa [cleanNonce] using hcn, hbody, hcb⟩
      · exact h6 q hq
    · intro S done hd σ hσ
      obtain ⟨v, hv, hok⟩ := hσ (Builder.bumpLast ids) s (by simp) p (by simp) hpid
      have := h7 S done hd σ (hσ.mono (fun g hg => by simp [hg]) (fun q hq => by simp [hq]))
      have := S.triple (nonce := nonce) hok this
      simpa [fill, hv] using this
  | @ite fut t e os _ _ hte _ iht ihe ihos =>
    intro b hc hid
    simp only [cleanOps, cleanOp, Bool.and_eq_true] at hc
    simp only [execOps, execOp]
    split
    · obtain ⟨segs1, ps1, a1, a2, a3, a4, a5, a6, a7⟩ := iht b hc.1.1 hid
      obtain ⟨segs2, ps2, b1, b2, b3, b4, b5, b6, b7⟩ := ihos _ hc.2 a3
      refine ⟨segs1 ++ segs2, ps1 ++ ps2, ?_, ?_, b3, ?_, ?_, ?_, ?_⟩
      · rw [b1, a1]; simp [segsStr_append]
      · rw [b2, a2]; simp
      · intro g hg; rcases List.mem_append.1 hg with hg | hg
        · exact a4 g hg
        · exact b4 g hg
      · simp [holeIds_append, a5, b5]
      · intro q hq; rcases List.mem_append.1 hq with hq | hq
        · exact a6 q hq
        · exact b6 q hq
      · intro S done hd σ hσ
        rename_i hready
        rw [fill_append]
        exact S.iteT (fun x hx => hd x (ready_deps hready x hx))
          (a7 S done hd σ (hσ.mono (fun g hg => by simp [hg]) (fun q hq => by simp [hq])))
          (b7 S done hd σ (hσ.mono (fun g hg => by simp [hg]) (fun q hq => by simp [hq])))
    · obtain ⟨segs1, ps1, a1, a2, a3, a4, a5, a6, a7⟩ := ihe b hc.1.2 hid
      obtain ⟨segs2, ps2, b1, b2, b3, b4, b5, b6, b7⟩ := ihos _ hc.2 a3
      refine ⟨segs1 ++ segs2, ps1 ++ ps2, ?_, ?_, b3, ?_, ?_, ?_, ?_⟩
      · rw [b1, a1]; simp [segsStr_append]
      · rw [b2, a2]; simp
      · intro g hg; rcases List.mem_append.1 hg with hg | hg
        · exact a4 g hg
        · exact b4 g hg
      · simp [holeIds_append, a5, b5]
      · intro q hq; rcases List.mem_append.1 hq with hq | hq
        · exact a6 q hq
        · exact b6 q hq
      · intro S done hd σ hσ
        rw [fill_append]
        exact S.iteE hte
          (a7 S done hd σ (hσ.mono (fun g hg => by simp [hg]) (fun q hq => by simp [hq])))
          (b7 S done hd σ (hσ.mono (fun g hg => by simp [hg]) (fun q hq => by simp [hq])))
  | @sub body os _ _ ihb ihos =>
    intro b hc hid
    simp only [cleanOps, cleanOp, Bool.and_eq_true] at hc
    obtain ⟨ids, hids⟩ := hid
    obtain ⟨segs1, ps1, a1, a2, a3, a4, a5, a6, a7⟩ := ihb (Builder.new b.id) hc.1 ⟨ids, by simp [Builder.new, hids]⟩
    -- the sub-builder holds only out-of-order chunks: `append` does not flush
    have hall : (execOps env body (Builder.new b.id)).chunks.any (fun c => !c.isOoo) = false := by
      rw [a2]; simp [Builder.new, Chunk.isOoo]
    obtain ⟨ids', hids'⟩ := a3
    have happ : (b.append (execOps env body (Builder.new b.id))).syncBuf = b.syncBuf ++ segsStr segs1 ∧
        (b.append (execOps env body (Builder.new b.id))).chunks = b.chunks ++ ps1.map Chunk.ooo ∧
        (b.append (execOps env body (Builder.new b.id))).id = some ids' := by
      unfold Builder.append
      rw [hall]
      simp only [Bool.false_eq_true, if_false]
      refine ⟨?_, ?_, ?_⟩
      · rw [a1]; simp [Builder.new]
      · rw [a2]; simp [Builder.new]
      · rw [hids']; simp
    obtain ⟨segs2, ps2, b1, b2, b3, b4, b5, b6, b7⟩ := ihos _ hc.2 ⟨_, happ.2.2⟩
    refine ⟨segs1 ++ segs2, ps1 ++ ps2, ?_, ?_, b3, ?_, ?_, ?_, ?_⟩
    · simp only [execOps, execOp]; rw [b1, happ.1]; simp [segsStr_append]
    · simp only [execOps, execOp]; rw [b2, happ.2.1]; simp
    · intro g hg; rcases List.mem_append.1 hg with hg | hg
      · exact a4 g hg
      · exact b4 g hg
    · simp [holeIds_append, a5, b5]
    · intro q hq; rcases List.mem_append.1 hq with hq | hq
      · exact a6 q hq
      · exact b6 q hq
    · intro S done hd σ hσ
      rw [fill_append]
      exact S.sub
        (a7 S done hd σ (hσ.mono (fun g hg => by simp [hg]) (fun q hq => by simp [hq])))
        (b7 S done hd σ (hσ.mono (fun g hg => by simp [hg]) (fun q hq => by simp [hq])))


/-! ### the resolved out-of-order chunk and the two splice loops -/

theorem finishChunks_ooo (ps : List PendOoo) (t : Str) :
    Builder.finishChunks (ps.map Chunk.ooo) t = ps.map Chunk.ooo ++ [Chunk.sync t] := by
  induction ps with
  | nil => rfl
  | cons p ps ih =>
    cases ps with
    | nil => rfl
    | cons q ps =>
      simp only [List.map_cons] at ih ⊢
      rw [Builder.finishChunks, ih]; simp

/-- the text chunk at the end of a resolved list (absent when the text is empty) -/
def tailChunk (t : Str) : List Chunk := if t.isEmpty then [] else [Chunk.sync t]

theorem finish_take_ooo (b : Builder) (ps : List PendOoo) (h : b.chunks = ps.map Chunk.ooo) :
    b.finish.takeChunks = ps.map Chunk.ooo ++ tailChunk b.syncBuf := by
  unfold Builder.finish Builder.takeChunks Builder.flushed tailChunk
  by_cases hb : b.syncBuf.isEmpty = true
  · simp [hb, h]
  · simp [hb, h, finishChunks_ooo]

theorem nodup_of_map_some {α : Type} : ∀ {l : List α}, (l.map some).Nodup → l.Nodup
  | [], _ => List.nodup_nil
  | a :: l, h => by
    simp only [List.map_cons, List.nodup_cons, List.mem_map, not_exists, not_and] at h
    exact List.nodup_cons.2 ⟨fun hm => h.1 a hm rfl, nodup_of_map_some h.2⟩

theorem resolveOoo_segs (env : Env) (p : PendOoo) (hp : NodeOk p) (I : List Nat) (hI : p.id = some I) :
    ∃ (segs : List Seg) (ps : List PendOoo),
      (resolveOoo env p).id = piecesStr I ∧ (resolveOoo env p).replace = true ∧ (resolveOoo env p).nonce = none ∧
      (resolveOoo env p).chunks = ps.map Chunk.ooo ++ tailChunk (segsStr segs) ∧
      (∀ g ∈ segs, g.ok) ∧ (holeIds segs).map some = ps.map (·.id) ∧ (∀ q ∈ ps, NodeOk q) ∧
      (∀ (S : Sem) (done : List FId), (∀ x ∈ env.done, x ∈ done) → ∀ σ, Adm S done σ segs ps →
        S.P done p.body (fill σ segs)) ∧
      (∀ i ∈ holeIds segs, ∃ j, 1 ≤ j ∧ i = I ++ [j]) ∧ (holeIds segs).Nodup := by
  have hids := resolveOoo_ids env p I hI hp.wf
  unfold resolveOoo at hids ⊢
  simp only [hp.replace, if_true] at hids ⊢
  obtain ⟨segs, ps, h1, h2, _, h4, h5, h6, h7⟩ := exec_segs hp.wf env
    ({ (Builder.new p.id) with id := (Builder.new p.id).id.map (· ++ [0]) } : Builder) hp.clean
    ⟨I ++ [0], by simp [Builder.new, hI]⟩
  have hch := finish_take_ooo _ ps (by rw [h2]; simp [Builder.new])
  rw [h1] at hch
  simp only [Builder.new, List.nil_append] at hch
  refine ⟨segs, ps, hids.1, trivial, hp.nonce, ?_, h4, h5, h6, h7, ?_, ?_⟩
  · simpa [Builder.new] using hch
  · intro i hi
    have hmem : some i ∈ oooIds (ps.map Chunk.ooo ++ tailChunk (segsStr segs)) := by
      have : oooIds (ps.map Chunk.ooo ++ tailChunk (segsStr segs)) = ps.map (·.id) := by
        rw [oooIds_append]
        have e1 : ∀ (l : List PendOoo), oooIds (l.map Chunk.ooo) = l.map (·.id) := by
          intro l; induction l with
          | nil => rfl
          | cons q l ih => simp [oooIds, ih]
        have e2 : oooIds (tailChunk (segsStr segs)) = [] := by unfold tailChunk; split <;> rfl
        rw [e1, e2]; simp
      rw [this, ← h5]
      exact List.mem_map.2 ⟨i, hi, rfl⟩
    have hch' : (Builder.finish (execOps env p.body
        { (Builder.new p.id) with id := (Builder.new p.id).id.map (· ++ [0]) })).takeChunks
        = ps.map Chunk.ooo ++ tailChunk (segsStr segs) := by simpa [Builder.new] using hch
    rw [← hch'] at hmem
    obtain ⟨j, hj, hij⟩ := hids.2.1 _ hmem
    exact ⟨j, hj, Option.some.inj hij⟩
  · have hch' : (Builder.finish (execOps env p.body
        { (Builder.new p.id) with id := (Builder.new p.id).id.map (· ++ [0]) })).takeChunks
        = ps.map Chunk.ooo ++ tailChunk (segsStr segs) := by simpa [Builder.new] using hch
    have hn := hids.2.2
    rw [hch'] at hn
    have : oooIds (ps.map Chunk.ooo ++ tailChunk (segsStr segs)) = (holeIds segs).map some := by
      rw [oooIds_append, h5]
      have e1 : ∀ (l : List PendOoo), oooIds (l.map Chunk.ooo) = l.map (·.id) := by
        intro l; induction l with
        | nil => rfl
        | cons q l ih => simp [oooIds, ih]
      have e2 : oooIds (tailChunk (segsStr segs)) = [] := by unfold tailChunk; split <;> rfl
      rw [e1, e2]; simp
    rw [this] at hn
    exact nodup_of_map_some hn

theorem foldl_spliceFn_ooo (ps : List PendOoo) (x : Str) (d : List Chunk) :
    (ps.map Chunk.ooo).reverse.foldl spliceFn (x, d) = (x, ps.map Chunk.ooo ++ d) := by
  induction ps generalizing d with
  | nil => rfl
  | cons p ps ih =>
    simp only [List.map_cons, List.reverse_cons, List.foldl_append, List.foldl_cons, List.foldl_nil, ih]
    simp [spliceFn]

theorem splice_resolved (ps : List PendOoo) (t : Str) (x : Str) (d : List Chunk) :
    (ps.map Chunk.ooo ++ tailChunk t).reverse.foldl spliceFn (x, d) = (x ++ t, ps.map Chunk.ooo ++ d) := by
  unfold tailChunk
  split
  · rename_i h
    have : t = [] := by simpa using h
    subst this
    simp only [List.append_nil]
    rw [foldl_spliceFn_ooo]
  · simp only [List.reverse_append, List.reverse_cons, List.reverse_nil, List.nil_append, List.foldl_append,
      List.foldl_cons, List.foldl_nil]
    rw [show spliceFn (x, d) (Chunk.sync t) = (x ++ t, d) from rfl, foldl_spliceFn_ooo]

theorem foldl_pushFront_eq (xs d : List Chunk) : xs.foldl (fun d c => c :: d) d = xs.reverse ++ d := by
  induction xs generalizing d with
  | nil => rfl
  | cons x xs ih => simp [ih]


/-! ### the invariant of an out-of-order stream -/

def properPrefix (I K : List Nat) : Prop := ∃ t, t ≠ [] ∧ K = I ++ t

/-- ids of the holes inside the template contents of a buffer / of its top-level holes -/
def contentIds : List Item → List (List Nat)
  | [] => []
  | .seg _ :: r => contentIds r
  | .tpl t :: r => holeIds t.content ++ contentIds r

def topIds : List Item → List (List Nat)
  | [] => []
  | .seg (.hole I _) :: r => I :: topIds r
  | .seg (.lit _) :: r => topIds r
  | .tpl _ :: r => topIds r

theorem contentIds_append (a b : List Item) : contentIds (a ++ b) = contentIds a ++ contentIds b := by
  induction a with
  | nil => rfl
  | cons i is ih => cases i <;> simp [contentIds, ih]

theorem contentIds_segItems (gs : List Seg) : contentIds (segItems gs) = [] := by
  induction gs with
  | nil => rfl
  | cons g gs ih => simpa [segItems, contentIds] using ih

theorem mem_allIds_split {I : List Nat} : ∀ {B : List Item}, I ∈ allIds B → I ∈ topIds B ∨ I ∈ contentIds B
  | [], h => by simp [allIds] at h
  | .seg (.lit s) :: r, h => by
    simpa [topIds, contentIds] using mem_allIds_split (B := r) (by simpa [allIds] using h)
  | .seg (.hole J fb) :: r, h => by
    simp only [allIds, List.mem_cons] at h
    rcases h with h | h
    · exact Or.inl (by simp [topIds, h])
    · rcases mem_allIds_split h with h | h
      · exact Or.inl (by simp [topIds, h])
      · exact Or.inr (by simpa [contentIds] using h)
  | .tpl t :: r, h => by
    simp only [allIds, List.mem_append] at h
    rcases h with h | h
    · exact Or.inr (by simp [contentIds, h])
    · rcases mem_allIds_split h with h | h
      · exact Or.inl (by simpa [topIds] using h)
      · exact Or.inr (by simp [contentIds, h])

theorem split_topIds {I : List Nat} : ∀ {B : List Item}, I ∈ topIds B →
    ∃ B1 fb B2, B = B1 ++ Item.seg (Seg.hole I fb) :: B2
  | [], h => by simp [topIds] at h
  | .seg (.lit s) :: r, h => by
    obtain ⟨B1, fb, B2, e⟩ := split_topIds (B := r) (by simpa [topIds] using h)
    exact ⟨.seg (.lit s) :: B1, fb, B2, by simp [e]⟩
  | .seg (.hole J fb) :: r, h => by
    by_cases hJ : J = I
    · subst hJ; exact ⟨[], fb, r, rfl⟩
    · have : I ∈ topIds r := by
        simp only [topIds, List.mem_cons] at h
        rcases h with h | h
        · exact absurd h.symm hJ
        · exact h
      obtain ⟨B1, fb', B2, e⟩ := split_topIds this
      exact ⟨.seg (.hole J fb) :: B1, fb', B2, by simp [e]⟩
  | .tpl t :: r, h => by
    obtain ⟨B1, fb, B2, e⟩ := split_topIds (B := r) (by simpa [topIds] using h)
    exact ⟨.tpl t :: B1, fb, B2, by simp [e]⟩

theorem holeIds_of_empty : ∀ {gs : List Seg}, segsStr gs = [] → holeIds gs = []
  | [], _ => rfl
  | .lit s :: gs, h => by
    simp only [segsStr, List.append_eq_nil_iff] at h
    simpa [holeIds] using holeIds_of_empty h.2
  | .hole I fb :: gs, h => by
    simp only [segsStr, Seg.str, List.append_eq_nil_iff] at h
    have := h.1.1.1
    rw [opening_eq] at this
    cases this

theorem items_of_empty : ∀ {B : List Item}, itemsStr B = [] → allIds B = [] ∧ tplIds B = [] ∧ contentIds B = []
  | [], _ => ⟨rfl, rfl, rfl⟩
  | .seg (.lit s) :: r, h => by
    simp only [itemsStr, List.append_eq_nil_iff] at h
    simpa [allIds, tplIds, contentIds] using items_of_empty h.2
  | .seg (.hole I fb) :: r, h => by
    simp only [itemsStr, Item.str, Seg.str, List.append_eq_nil_iff] at h
    have := h.1.1.1
    rw [opening_eq] at this
    cases this
  | .tpl t :: r, h => by
    simp only [itemsStr, Item.str, Tpl.str, List.append_eq_nil_iff] at h
    have := h.1.1.1
    rw [pushStart_eq] at this
    simp only [List.append_eq_nil_iff] at this
    have h0 : tplOpen ≠ [] := by decide
    exact absurd this.1.1 h0

structure OInv (S : Sem) (prog : List Op) (done : List FId) (Y : Str) (b : Builder) (ys bs : List Item)
    (tail : List Seg) (cs : List PendOoo) : Prop where
  hY : Y = itemsStr ys
  hB : b.syncBuf = itemsStr bs
  hP : b.pending = none
  hC : b.chunks = cs.map Chunk.ooo ++ tailChunk (segsStr tail)
  okI : ∀ i ∈ ys ++ bs, i.ok
  okT : ∀ g ∈ tail, g.ok
  ndText : (allIds (ys ++ bs) ++ holeIds tail).Nodup
  ndTpl : (tplIds (ys ++ bs)).Nodup
  okN : ∀ p ∈ cs ++ b.pendingOoo, NodeOk p ∧ ∃ I, p.id = some I
  ndOut : ((cs ++ b.pendingOoo).map (·.id)).Nodup
  mem : ∀ I, I ∈ holeIds (clientS [] (ys ++ bs) ++ tail) ↔ ∃ p ∈ cs ++ b.pendingOoo, p.id = some I
  /-- whatever admissible values the holes of the unresolved nodes are given — now or after more futures have
      completed — the client's document reads as an admissible document of the program -/
  sem : ∀ done', (∀ x ∈ done, x ∈ done') → ∀ σ,
    Adm S done' σ (clientS [] (ys ++ bs) ++ tail) (cs ++ b.pendingOoo) →
    S.P done' prog (fill σ (clientS [] (ys ++ bs) ++ tail))
  outTpl : ∀ p ∈ cs ++ b.pendingOoo, ∀ I, p.id = some I → I ∉ tplIds (ys ++ bs)
  fresh : ∀ p ∈ cs ++ b.pendingOoo, ∀ I, p.id = some I →
    ∀ K ∈ allIds (ys ++ bs) ++ holeIds tail ++ tplIds (ys ++ bs), ¬ properPrefix I K
  inTpl : ∀ I ∈ contentIds bs, ∃ p ∈ cs, p.id = some I

/-- the stream state `b`, having yielded `Y` while the futures `done` completed, reads as `prog` under `S` -/
def ORel (S : Sem) (prog : List Op) (done : List FId) (Y : Str) (b : Builder) : Prop :=
  ∃ ys bs tail cs, OInv S prog done Y b ys bs tail cs

/-- more futures have completed -/
theorem OInv.weaken {S prog done done' Y b ys bs tail cs} (h : OInv S prog done Y b ys bs tail cs)
    (hd : ∀ x ∈ done, x ∈ done') : OInv S prog done' Y b ys bs tail cs :=
  { h with sem := fun d'' hd'' => h.sem d'' (fun x hx => hd'' x (hd x hx)) }

/-- yield the buffer -/
theorem OInv.flush {S prog done Y b ys bs tail cs} (h : OInv S prog done Y b ys bs tail cs) :
    OInv S prog done (Y ++ b.syncBuf) { b with syncBuf := [] } (ys ++ bs) [] tail cs := by
  refine ⟨by rw [h.hY, h.hB, itemsStr_append], rfl, h.hP, h.hC, by simpa using h.okI, h.okT, by simpa using h.ndText,
    by simpa using h.ndTpl, h.okN, h.ndOut, by simpa using h.mem, by simpa using h.sem,
    by simpa using h.outTpl, by simpa using h.fresh, by simp [contentIds]⟩

/-- the out-of-order nodes only matter as a set -/
theorem OInv.perm {S prog done Y b ys bs tail cs} (h : OInv S prog done Y b ys bs tail cs) (cs' po' : List PendOoo)
    (chunks' : List Chunk) (hch : chunks' = cs'.map Chunk.ooo ++ tailChunk (segsStr tail))
    (hperm : (cs' ++ po').Perm (cs ++ b.pendingOoo))
    (hin : ∀ I ∈ contentIds bs, ∃ p ∈ cs', p.id = some I) :
    OInv S prog done Y { b with chunks := chunks', pendingOoo := po' } ys bs tail cs' := by
  have hm : ∀ p, p ∈ cs' ++ po' ↔ p ∈ cs ++ b.pendingOoo := fun p => hperm.mem_iff
  refine ⟨h.hY, h.hB, h.hP, hch, h.okI, h.okT, h.ndText, h.ndTpl, ?_, ?_, ?_, ?_, ?_, ?_, hin⟩
  · intro p hp; exact h.okN p ((hm p).1 hp)
  · exact (List.Perm.nodup_iff (hperm.map _)).2 h.ndOut
  · intro I; rw [h.mem I]
    constructor
    · rintro ⟨p, hp, hI⟩; exact ⟨p, (hm p).2 hp, hI⟩
    · rintro ⟨p, hp, hI⟩; exact ⟨p, (hm p).1 hp, hI⟩
  · intro d' hd' σ hσ
    exact h.sem d' hd' σ (hσ.mono (fun g hg => hg) (fun p hp => (hm p).2 hp))
  · intro p hp; exact h.outTpl p ((hm p).1 hp)
  · intro p hp; exact h.fresh p ((hm p).1 hp)

/-- the text chunk at the end of the queue moves into the buffer -/
theorem OInv.takeTail {S prog done Y b ys bs tail} (h : OInv S prog done Y b ys bs tail []) :
    OInv S prog done Y { b with syncBuf := b.syncBuf ++ segsStr tail, chunks := [] } ys (bs ++ segItems tail) [] [] := by
  have e1 : clientS [] (ys ++ (bs ++ segItems tail)) ++ [] = clientS [] (ys ++ bs) ++ tail := by
    rw [← List.append_assoc, clientS_append, clientS_segItems]; simp
  have e2 : allIds (ys ++ (bs ++ segItems tail)) ++ holeIds [] = allIds (ys ++ bs) ++ holeIds tail := by
    rw [← List.append_assoc, allIds_append, allIds_segItems]; simp [holeIds]
  have e3 : tplIds (ys ++ (bs ++ segItems tail)) = tplIds (ys ++ bs) := by
    rw [← List.append_assoc, tplIds_append, tplIds_segItems]; simp
  refine ⟨h.hY, ?_, h.hP, by simp [tailChunk, segsStr], ?_, by simp, by rw [e2]; exact h.ndText, by rw [e3]; exact h.ndTpl,
    h.okN, h.ndOut, by rw [e1]; exact h.mem, by rw [e1]; exact h.sem, by rw [e3]; exact h.outTpl, ?_, ?_⟩
  · simp [itemsStr_append, itemsStr_segItems, h.hB]
  · intro i hi
    rw [← List.append_assoc] at hi
    rcases List.mem_append.1 hi with hi | hi
    · exact h.okI i hi
    · simp only [segItems, List.mem_map] at hi
      obtain ⟨g, hg, rfl⟩ := hi
      exact h.okT g hg
  · intro p hp I hI K hK
    rw [e3] at hK
    have : K ∈ allIds (ys ++ bs) ++ holeIds tail ++ tplIds (ys ++ bs) := by
      rw [← e2]; simpa [holeIds] using hK
    exact h.fresh p hp I hI K this
  · intro I hI
    rw [contentIds_append, contentIds_segItems] at hI
    exact h.inTpl I (by simpa using hI)

/-! ### resolving one out-of-order node -/

theorem nodup_map_some {α : Type} : ∀ {l : List α}, l.Nodup → (l.map some).Nodup
  | [], _ => List.nodup_nil
  | a :: l, h => by
    have h' := List.nodup_cons.1 h
    simp only [List.map_cons, List.nodup_cons, List.mem_map, not_exists, not_and]
    exact ⟨fun x hx he => h'.1 (by cases he; exact hx), nodup_map_some h'.2⟩

theorem eq_of_nodup_map_id : ∀ {ps : List PendOoo}, (ps.map (·.id)).Nodup → ∀ {q q' : PendOoo}, q ∈ ps → q' ∈ ps →
    q.id = q'.id → q = q'
  | [], _, _, _, h, _, _ => by cases h
  | a :: ps, hn, q, q', hq, hq', he => by
    simp only [List.map_cons, List.nodup_cons, List.mem_map, not_exists, not_and] at hn
    simp only [List.mem_cons] at hq hq'
    rcases hq with rfl | hq <;> rcases hq' with rfl | hq'
    · rfl
    · exact absurd he.symm (hn.1 q' hq')
    · exact absurd he (hn.1 q hq)
    · exact eq_of_nodup_map_id hn.2 hq hq' he

theorem find_node {ps : List PendOoo} (hn : (ps.map (·.id)).Nodup) {q : PendOoo} (hq : q ∈ ps) {J : List Nat}
    (hJ : q.id = some J) : ps.find? (fun q => q.id == some J) = some q := by
  cases h : ps.find? (fun q => q.id == some J) with
  | none =>
    have := List.find?_eq_none.1 h q hq
    simp [hJ] at this
  | some q' =>
    have h1 := List.find?_some h
    have h2 := List.mem_of_find?_eq_some h
    simp only [beq_iff_eq] at h1
    rw [eq_of_nodup_map_id hn hq h2 (hJ.trans h1.symm)]

theorem mem_hole_holeIds {I : List Nat} {fb : Str} : ∀ {D : List Seg}, Seg.hole I fb ∈ D → I ∈ holeIds D
  | [], h => by cases h
  | .lit s :: gs, h => by
    simp only [List.mem_cons] at h
    rcases h with h | h
    · cases h
    · simpa [holeIds] using mem_hole_holeIds h
  | .hole J fb' :: gs, h => by
    simp only [List.mem_cons] at h
    rcases h with h | h
    · cases h; simp [holeIds]
    · simp [holeIds, mem_hole_holeIds h]

/-- resolving the node with id `I`: its hole is replaced by the node's segments, its children become outstanding -/
theorem resolve_sem (S : Sem) {done : List FId} {D0 tail segsT : List Seg} {I : List Nat} {p : PendOoo}
    {psC rest cs' : List PendOoo} {Q : Str → Prop}
    (hI : I ∈ holeIds D0) (hnd : (holeIds (D0 ++ tail)).Nodup) (hp : p.id = some I)
    (hmem : ∀ J, J ∈ holeIds (D0 ++ tail) ↔ ∃ q ∈ p :: rest, q.id = some J)
    (hout : ((p :: rest).map (·.id)).Nodup)
    (hsem : ∀ σ, Adm S done σ (D0 ++ tail) (p :: rest) → Q (fill σ (D0 ++ tail)))
    (hlink : (holeIds segsT).map some = psC.map (·.id))
    (hfill : ∀ σ', Adm S done σ' segsT psC → S.P done p.body (fill σ' segsT))
    (hready : ∀ x ∈ p.fut.deps, x ∈ done)
    (hfresh : ∀ K ∈ holeIds segsT, K ∉ holeIds (D0 ++ tail))
    (hcs : ∀ q, q ∈ cs' ↔ q ∈ psC) :
    (∀ σ', Adm S done σ' (substHole I segsT D0 ++ tail) (cs' ++ rest) →
      Q (fill σ' (substHole I segsT D0 ++ tail))) ∧
    (∀ J, J ∈ holeIds (substHole I segsT D0 ++ tail) ↔ ∃ q ∈ cs' ++ rest, q.id = some J) := by
  obtain ⟨X, fb, Z, h1, hX, h3⟩ := substHole_split (c := segsT) hI
  have hIZ : I ∉ holeIds Z ∧ I ∉ holeIds tail := by
    rw [h1] at hnd
    simp only [holeIds_append, holeIds, List.append_assoc] at hnd
    have := (List.nodup_append.1 hnd).2.1
    have := (List.nodup_cons.1 this).1
    simpa using this
  have hIseg : I ∉ holeIds segsT := by
    intro hm
    exact hfresh I hm (by rw [holeIds_append]; exact List.mem_append_left _ hI)
  refine ⟨?_, ?_⟩
  · intro σ' hσ'
    rw [h3] at hσ' ⊢
    -- the value of the resolved node's hole: its segments, read under σ'
    let σ : List Nat → Option Str := fun J => if J = I then some (fill σ' segsT) else σ' J
    have hσne : ∀ J, J ≠ I → σ J = σ' J := fun J hJ => by simp [σ, hJ]
    have hadmC : Adm S done σ' segsT psC :=
      hσ'.mono (fun g hg => by simp [hg]) (fun q hq => by simp [(hcs q).2 hq])
    have hadm : Adm S done σ (D0 ++ tail) (p :: rest) := by
      intro J fbJ hg q hq hqJ
      simp only [List.mem_cons] at hq
      rcases hq with rfl | hq
      · -- the resolved node itself
        rw [hp] at hqJ; cases hqJ
        have hfbeq : fbJ = fb := by
          -- the only hole with id I is the one at the split
          rw [h1] at hg
          simp only [List.mem_append, List.mem_cons] at hg
          rcases hg with (hg | hg | hg) | hg
          · exact absurd (mem_hole_holeIds hg) hX
          · cases hg; rfl
          · exact absurd (mem_hole_holeIds hg) hIZ.1
          · exact absurd (mem_hole_holeIds hg) hIZ.2
        subst hfbeq
        exact ⟨fill σ' segsT, by simp [σ], S.resolve hready (hfill σ' hadmC)⟩
      · have hne : J ≠ I := by
          intro he; subst he
          simp only [List.map_cons, List.nodup_cons, List.mem_map, not_exists, not_and] at hout
          exact hout.1 q hq (hqJ.trans hp.symm)
        rw [hσne J hne]
        refine hσ' J fbJ ?_ q (by simp [hq]) hqJ
        rw [h1] at hg
        simp only [List.mem_append, List.mem_cons] at hg ⊢
        rcases hg with (hg | hg | hg) | hg
        · exact Or.inl (Or.inl (Or.inl hg))
        · cases hg; exact absurd rfl hne
        · exact Or.inl (Or.inr hg)
        · exact Or.inr hg
    have := hsem σ hadm
    have hXm : ∀ J ∈ holeIds X, σ J = σ' J := fun J hJ => hσne J (fun he => hX (he ▸ hJ))
    have hZm : ∀ J ∈ holeIds Z, σ J = σ' J := fun J hJ => hσne J (fun he => hIZ.1 (he ▸ hJ))
    have hTm : ∀ J ∈ holeIds tail, σ J = σ' J := fun J hJ => hσne J (fun he => hIZ.2 (he ▸ hJ))
    have hσI : σ I = some (fill σ' segsT) := by simp [σ]
    rw [h1] at this
    simp only [fill_append, fill, hσI] at this
    rw [fill_congr hXm, fill_congr hZm, fill_congr hTm] at this
    simpa [fill_append] using this
  · intro J
    rw [h3]
    simp only [holeIds_append, List.mem_append]
    constructor
    · rintro (((hJ | hJ) | hJ) | hJ)
      · have : J ∈ holeIds (D0 ++ tail) := by rw [h1]; simp [holeIds_append, hJ]
        obtain ⟨q, hq, hqJ⟩ := (hmem J).1 this
        simp only [List.mem_cons] at hq
        rcases hq with rfl | hq
        · rw [hp] at hqJ; cases hqJ; exact absurd hJ hX
        · exact ⟨q, Or.inr hq, hqJ⟩
      · have : some J ∈ psC.map (·.id) := by rw [← hlink]; exact List.mem_map.2 ⟨J, hJ, rfl⟩
        obtain ⟨q, hq, hqJ⟩ := List.mem_map.1 this
        exact ⟨q, Or.inl ((hcs q).2 hq), hqJ⟩
      · have : J ∈ holeIds (D0 ++ tail) := by rw [h1]; simp [holeIds_append, holeIds, hJ]
        obtain ⟨q, hq, hqJ⟩ := (hmem J).1 this
        simp only [List.mem_cons] at hq
        rcases hq with rfl | hq
        · rw [hp] at hqJ; cases hqJ; exact absurd hJ hIZ.1
        · exact ⟨q, Or.inr hq, hqJ⟩
      · have : J ∈ holeIds (D0 ++ tail) := by simp [holeIds_append, hJ]
        obtain ⟨q, hq, hqJ⟩ := (hmem J).1 this
        simp only [List.mem_cons] at hq
        rcases hq with rfl | hq
        · rw [hp] at hqJ; cases hqJ; exact absurd hJ hIZ.2
        · exact ⟨q, Or.inr hq, hqJ⟩
    · rintro ⟨q, hq | hq, hqJ⟩
      · have : some J ∈ psC.map (·.id) := List.mem_map.2 ⟨q, (hcs q).1 hq, hqJ⟩
        rw [← hlink] at this
        obtain ⟨J', hJ', he⟩ := List.mem_map.1 this
        cases he
        exact Or.inl (Or.inl (Or.inr hJ'))
      · have hJD : J ∈ holeIds (D0 ++ tail) := (hmem J).2 ⟨q, by simp [hq], hqJ⟩
        have hne : J ≠ I := by
          intro he; subst he
          simp only [List.map_cons, List.nodup_cons, List.mem_map, not_exists, not_and] at hout
          exact hout.1 q hq (hqJ.trans hp.symm)
        rw [h1] at hJD
        simp only [holeIds_append, holeIds, List.mem_append, List.mem_cons] at hJD
        rcases hJD with (hJD | hJD | hJD) | hJD
        · exact Or.inl (Or.inl (Or.inl hJD))
        · exact absurd hJD hne
        · exact Or.inl (Or.inr hJD)
        · exact Or.inr hJD

theorem pp_trans {A B C : List Nat} (h1 : properPrefix A B) (h2 : properPrefix B C) : properPrefix A C := by
  obtain ⟨t, ht, rfl⟩ := h1
  obtain ⟨u, _, rfl⟩ := h2
  exact ⟨t ++ u, by simp [ht], by simp⟩

theorem pp_snoc (A : List Nat) (j : Nat) : properPrefix A (A ++ [j]) := ⟨[j], by simp, rfl⟩

theorem pp_of_snoc {Q I : List Nat} {i : Nat} (h : properPrefix Q (I ++ [i])) : Q = I ∨ properPrefix Q I := by
  obtain ⟨t, ht, he⟩ := h
  rcases List.eq_nil_or_concat t with rfl | ⟨t', x, rfl⟩
  · exact absurd rfl ht
  · rw [List.concat_eq_append, ← List.append_assoc] at he
    have := List.append_inj' he rfl
    by_cases ht' : t' = []
    · subst ht'; exact Or.inl (by simpa using this.1.symm)
    · exact Or.inr ⟨t', ht', this.1⟩

theorem not_pp_snoc_snoc {I : List Nat} {i j : Nat} : ¬ properPrefix (I ++ [j]) (I ++ [i]) := by
  rintro ⟨t, ht, he⟩
  have hl : (I ++ [i]).length = (I ++ [j] ++ t).length := congrArg List.length he
  simp only [List.length_append, List.length_cons, List.length_nil] at hl
  exact ht (List.length_eq_zero_iff.1 (by omega))

theorem not_pp_self_snoc {I : List Nat} {j : Nat} : ¬ properPrefix (I ++ [j]) I := by
  rintro ⟨t, _, he⟩
  have hl : I.length = (I ++ [j] ++ t).length := congrArg List.length he
  simp only [List.length_append, List.length_cons, List.length_nil] at hl
  omega

/-- re-establishing the invariant after the node `p` (id `I`) at the head of the queue has been resolved into the
    segments `segsT` and the child nodes `psC`, given what the concrete step did to the buffer -/
theorem OInv.resolved {S prog done Y b b' ys bs bs' tail p rest I segsT psC cs'}
    (h : OInv S prog done Y b ys bs tail []) (hpo : b.pendingOoo = p :: rest) (hpI : p.id = some I)
    (htail : segsStr tail = [])
    (_hokT : ∀ g ∈ segsT, g.ok) (hlink : (holeIds segsT).map some = psC.map (·.id)) (hokC : ∀ q ∈ psC, NodeOk q)
    (hfill : ∀ done', (∀ x ∈ done, x ∈ done') → ∀ σ', Adm S done' σ' segsT psC → S.P done' p.body (fill σ' segsT))
    (hready : ∀ x ∈ p.fut.deps, x ∈ done)
    (hshape : ∀ i ∈ holeIds segsT, ∃ j, 1 ≤ j ∧ i = I ++ [j]) (hndC : (holeIds segsT).Nodup)
    (hB' : b'.syncBuf = itemsStr bs') (hP' : b'.pending = none)
    (hC' : b'.chunks = cs'.map Chunk.ooo ++ tailChunk (segsStr tail)) (hpo' : b'.pendingOoo = rest)
    (hperm : cs'.Perm psC)
    (hcl : clientS [] (ys ++ bs') = substHole I segsT (clientS [] (ys ++ bs)))
    (hok' : ∀ i ∈ ys ++ bs', i.ok)
    (hall : ∀ K ∈ allIds (ys ++ bs'), K ∈ allIds (ys ++ bs) ∨ K ∈ holeIds segsT)
    (hnd' : (allIds (ys ++ bs') ++ holeIds tail).Nodup)
    (htpl : ∀ K ∈ tplIds (ys ++ bs'), K ∈ tplIds (ys ++ bs) ∨ K = I) (hndt' : (tplIds (ys ++ bs')).Nodup)
    (hin' : ∀ J ∈ contentIds bs', ∃ q ∈ cs', q.id = some J) :
    OInv S prog done Y b' ys bs' tail cs' := by
  have hpmem : p ∈ [] ++ b.pendingOoo := by simp [hpo]
  have hholeT : holeIds tail = [] := holeIds_of_empty htail
  have hcs : ∀ q, q ∈ cs' ↔ q ∈ psC := fun q => hperm.mem_iff
  have hID0 : I ∈ holeIds (clientS [] (ys ++ bs)) := by
    have := (h.mem I).2 ⟨p, hpmem, hpI⟩
    simpa [holeIds_append, hholeT] using this
  have hIall : I ∈ allIds (ys ++ bs) := by
    rcases holeIds_clientS _ _ hID0 with h0 | h0
    · simp [holeIds] at h0
    · exact h0
  have hndD : (holeIds (clientS [] (ys ++ bs) ++ tail)).Nodup := by
    rw [holeIds_append]
    exact nodup_clientS _ _ _ (by simpa [holeIds] using h.ndText)
  -- the children are fresh
  have hchild : ∀ K ∈ holeIds segsT, K ∉ allIds (ys ++ bs) ++ holeIds tail ++ tplIds (ys ++ bs) := by
    intro K hK hmemK
    obtain ⟨j, _, rfl⟩ := hshape K hK
    exact h.fresh p hpmem I hpI _ hmemK (pp_snoc I j)
  have hchildD : ∀ K ∈ holeIds segsT, K ∉ holeIds (clientS [] (ys ++ bs) ++ tail) := by
    intro K hK hm
    rw [holeIds_append] at hm
    rcases List.mem_append.1 hm with hm | hm
    · rcases holeIds_clientS _ _ hm with h0 | h0
      · simp [holeIds] at h0
      · exact hchild K hK (by simp [h0])
    · exact hchild K hK (by simp [hm])
  have hout : ((p :: rest).map (·.id)).Nodup := by simpa [hpo] using h.ndOut
  have hsem' : ∀ done', (∀ x ∈ done, x ∈ done') →
      (∀ σ', Adm S done' σ' (substHole I segsT (clientS [] (ys ++ bs)) ++ tail) (cs' ++ rest) →
        S.P done' prog (fill σ' (substHole I segsT (clientS [] (ys ++ bs)) ++ tail))) := by
    intro done' hd'
    exact (resolve_sem S (done := done') (tail := tail) (rest := rest) (cs' := cs') (Q := S.P done' prog) hID0 hndD hpI
      (by simpa [hpo] using h.mem) hout (by simpa [hpo] using h.sem done' hd') hlink (hfill done' hd')
      (fun x hx => hd' x (hready x hx)) hchildD hcs).1
  have hm' := (resolve_sem S (done := done) (tail := tail) (rest := rest) (cs' := cs') (Q := S.P done prog) hID0 hndD hpI
      (by simpa [hpo] using h.mem) hout (by simpa [hpo] using h.sem done (fun x hx => hx)) hlink
      (hfill done (fun x hx => hx)) hready hchildD hcs).2
  have hidC : ∀ q ∈ psC, ∃ K, q.id = some K ∧ K ∈ holeIds segsT := by
    intro q hq
    have : q.id ∈ (holeIds segsT).map some := by rw [hlink]; exact List.mem_map.2 ⟨q, hq, rfl⟩
    obtain ⟨K, hK, he⟩ := List.mem_map.1 this
    exact ⟨K, he.symm, hK⟩
  have hrestJ : ∀ q ∈ rest, ∀ J, q.id = some J → J ∈ allIds (ys ++ bs) ∧ J ≠ I := by
    intro q hq J hJ
    have hm := (h.mem J).2 ⟨q, by simp [hpo, hq], hJ⟩
    rw [holeIds_append, hholeT, List.append_nil] at hm
    refine ⟨?_, ?_⟩
    · rcases holeIds_clientS _ _ hm with h0 | h0
      · simp [holeIds] at h0
      · exact h0
    · intro he; subst he
      simp only [List.map_cons, List.nodup_cons, List.mem_map, not_exists, not_and] at hout
      exact hout.1 q hq (hJ.trans hpI.symm)
  refine ⟨h.hY, hB', hP', hC', hok', h.okT, hnd', hndt', ?_, ?_, ?_, ?_, ?_, ?_, hin'⟩
  · -- okN
    intro q hq
    rw [hpo'] at hq
    rcases List.mem_append.1 hq with hq | hq
    · obtain ⟨K, hK, _⟩ := hidC q ((hcs q).1 hq)
      exact ⟨hokC q ((hcs q).1 hq), K, hK⟩
    · exact h.okN q (by simp [hpo, hq])
  · -- ndOut
    rw [hpo', List.map_append, List.nodup_append]
    refine ⟨?_, (List.nodup_cons.1 hout).2, ?_⟩
    · rw [List.Perm.nodup_iff (hperm.map _), ← hlink]; exact nodup_map_some hndC
    · intro a ha a' ha' he
      obtain ⟨q, hq, rfl⟩ := List.mem_map.1 ha
      obtain ⟨q', hq', rfl⟩ := List.mem_map.1 ha'
      obtain ⟨K, hK, hKm⟩ := hidC q ((hcs q).1 hq)
      have := hrestJ q' hq' K (he ▸ hK)
      exact hchild K hKm (by simp [this.1])
  · rw [hcl, hpo']; exact hm'
  · rw [hcl, hpo']; exact hsem'
  · -- outTpl
    intro q hq J hJ hmem
    rw [hpo'] at hq
    rcases htpl J hmem with hold | rfl
    · rcases List.mem_append.1 hq with hq | hq
      · obtain ⟨K, hK, hKm⟩ := hidC q ((hcs q).1 hq)
        rw [hJ] at hK; cases hK
        exact hchild J hKm (by simp [hold])
      · exact h.outTpl q (by simp [hpo, hq]) J hJ hold
    · rcases List.mem_append.1 hq with hq | hq
      · obtain ⟨K, hK, hKm⟩ := hidC q ((hcs q).1 hq)
        rw [hJ] at hK; cases hK
        obtain ⟨j, _, he⟩ := hshape J hKm
        have := congrArg List.length he
        simp at this
      · exact (hrestJ q hq J hJ).2 rfl
  · -- fresh
    intro q hq Q hQ K hK
    rw [hpo'] at hq
    have hKcases : K ∈ allIds (ys ++ bs) ++ holeIds tail ++ tplIds (ys ++ bs) ∨ K ∈ holeIds segsT := by
      simp only [List.mem_append] at hK ⊢
      rcases hK with (hK | hK) | hK
      · rcases hall K hK with h0 | h0
        · exact Or.inl (Or.inl (Or.inl h0))
        · exact Or.inr h0
      · exact Or.inl (Or.inl (Or.inr hK))
      · rcases htpl K hK with h0 | rfl
        · exact Or.inl (Or.inr h0)
        · exact Or.inl (Or.inl (Or.inl hIall))
    rcases List.mem_append.1 hq with hq | hq
    · obtain ⟨K', hK', hKm'⟩ := hidC q ((hcs q).1 hq)
      rw [hQ] at hK'; cases hK'
      obtain ⟨j, _, rfl⟩ := hshape Q hKm'
      rcases hKcases with hold | hnew
      · intro hpp
        exact h.fresh p hpmem I hpI K hold (pp_trans (pp_snoc I j) hpp)
      · obtain ⟨i, _, rfl⟩ := hshape K hnew
        exact not_pp_snoc_snoc
    · rcases hKcases with hold | hnew
      · exact h.fresh q (by simp [hpo, hq]) Q hQ K hold
      · obtain ⟨i, _, rfl⟩ := hshape K hnew
        intro hpp
        rcases pp_of_snoc hpp with rfl | hpp'
        · exact (hrestJ q hq Q hQ).2 rfl
        · exact h.fresh q (by simp [hpo, hq]) Q hQ I (by simp [hIall]) hpp'

end Leptos.Stream
