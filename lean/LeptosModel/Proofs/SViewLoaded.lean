import LeptosModel.Model.SView
/-!
# Proofs/SViewLoaded — suspense boundaries at idle points: the loaded state is the fresh render (C04)

Invariant of every history (`ResOK`): unless a resource was written to since its fetch started, that fetch captured
what the fetcher gives for the current signals (a write to a signal the fetcher did not read changes neither the
value nor the reads: `eval_agree`); a settled resource holds the captured value.  A `<Transition>` is in phase 1
only while something below it is pending (`PhaseOK`).
-/
namespace Leptos.SView
open Leptos.Reactive (Expr Prog NodeDef)
open Leptos.RView (Attr Tok Txt AOut listAt renderAttrL)

/-! ## proofs -/

theorem eval_agree (ρ ρ' : Nat → Int) : ∀ (x : Expr), (∀ i ∈ readsDyn ρ x, ρ' i = ρ i) →
    Reactive.evalPure ρ' x = Reactive.evalPure ρ x ∧ readsDyn ρ' x = readsDyn ρ x := by
  intro x
  induction x with
  | lit n => intro _; exact ⟨rfl, rfl⟩
  | rd t i => intro h; exact ⟨h i (by simp [readsDyn]), rfl⟩
  | add a b iha ihb =>
    intro h
    have ha := iha (fun i hi => h i (by simp [readsDyn, hi]))
    have hb := ihb (fun i hi => h i (by simp [readsDyn, hi]))
    simp only [Reactive.evalPure, readsDyn, ha.1, hb.1, ha.2, hb.2, and_self]
  | mulc k a iha =>
    intro h
    have ha := iha (fun i hi => h i (by simp [readsDyn, hi]))
    simp only [Reactive.evalPure, readsDyn, ha.1, ha.2, and_self]
  | ite c t e ihc iht ihe =>
    intro h
    have hc := ihc (fun i hi => h i (by simp [readsDyn, hi]))
    cases hv : (Reactive.evalPure ρ c != 0) with
    | true =>
      have ht := iht (fun i hi => h i (by simp [readsDyn, hv, hi]))
      simp [Reactive.evalPure, readsDyn, hc.1, hc.2, hv, ht.1, ht.2]
    | false =>
      have he := ihe (fun i hi => h i (by simp [readsDyn, hv, hi]))
      simp [Reactive.evalPure, readsDyn, hc.1, hc.2, hv, he.1, he.2]
  | seq a b iha ihb =>
    intro h
    have ha := iha (fun i hi => h i (by simp [readsDyn, hi]))
    have hb := ihb (fun i hi => h i (by simp [readsDyn, hi]))
    simp only [Reactive.evalPure, readsDyn, hb.1, ha.2, hb.2, and_self]
  | wr id a iha =>
    intro h
    have ha := iha (fun i hi => h i (by simp [readsDyn, hi]))
    simp only [Reactive.evalPure, readsDyn, ha.1, ha.2, and_self]

/-- the value of a signal node in the from-scratch environment is the signal's value -/
theorem env_sig (st : SSt) (i : Nat) (v : Int) (h : st.defs[i]? = some (.sig v)) : st.env i = st.sigs i := by
  simp only [SSt.env, Reactive.fuelFor, Reactive.scratch, h]

/-- an expression over signals reads signal nodes only -/
theorem reads_sigs (defs : Prog) (ρ : Nat → Int) : ∀ (x : Expr), sigsOnly defs x = true →
    ∀ i ∈ readsDyn ρ x, ∃ v, defs[i]? = some (.sig v) := by
  intro x
  induction x with
  | lit n => intro _ i hi; simp [readsDyn] at hi
  | rd t j =>
    intro h i hi
    simp only [readsDyn, List.mem_singleton] at hi
    subst hi
    simp only [sigsOnly] at h
    split at h
    · next v hv => exact ⟨v, hv⟩
    · cases h
  | add a b iha ihb =>
    intro h i hi
    simp only [sigsOnly, Bool.and_eq_true] at h
    simp only [readsDyn, List.mem_append] at hi
    rcases hi with hi | hi
    · exact iha h.1 i hi
    · exact ihb h.2 i hi
  | mulc k a iha => intro h i hi; exact iha (by simpa [sigsOnly] using h) i (by simpa [readsDyn] using hi)
  | ite c t e ihc iht ihe =>
    intro h i hi
    simp only [sigsOnly, Bool.and_eq_true] at h
    simp only [readsDyn, List.mem_append] at hi
    rcases hi with hi | hi
    · exact ihc h.1.1 i hi
    · split at hi
      · exact iht h.1.2 i hi
      · exact ihe h.2 i hi
  | seq a b _ _ => intro h; simp [sigsOnly] at h
  | wr id a _ => intro h; simp [sigsOnly] at h

/-- the state of a resource is consistent with the signals: unless it was written to since its fetch started, the
fetch captured what the fetcher gives now and tracks what the fetcher reads now; a settled resource holds that value -/
structure ResOK (st : SSt) (r : Res) : Prop where
  so : sigsOnly st.defs r.body = true
  cur : r.again = false → Reactive.evalPure st.env r.body = r.cap ∧ ∀ i ∈ readsDyn st.env r.body, i ∈ r.tracked
  done : r.pending = false → r.again = false ∧ r.last = some r.cap

theorem ResOK.start {st : SSt} {r : Res} (h : sigsOnly st.defs r.body = true) : ResOK st (r.start st.env) := by
  refine ⟨h, fun _ => ⟨rfl, fun i hi => ?_⟩, fun hp => by simp [Res.start] at hp⟩
  simp only [Res.start, List.mem_append, List.mem_filter]
  by_cases hc : i ∈ r.tracked
  · exact Or.inl hc
  · exact Or.inr ⟨hi, by simpa using hc⟩

/-- the same resource under another state with the same definitions whose environment agrees on what it reads -/
theorem ResOK.of_env {st st' : SSt} {r : Res} (h : ResOK st r) (hd : st'.defs = st.defs)
    (he : r.again = false → ∀ i ∈ readsDyn st.env r.body, st'.env i = st.env i) : ResOK st' r := by
  refine ⟨by rw [hd]; exact h.so, fun ha => ?_, h.done⟩
  have := eval_agree st.env st'.env r.body (he ha)
  rw [this.1, this.2]
  exact h.cur ha

def AllOK (st : SSt) : Prop := ∀ r ∈ st.res, ResOK st r

theorem settle_res (st : SSt) : st.settle.res = st.res ∧ st.settle.defs = st.defs ∧ st.settle.sigs = st.sigs ∧
    st.settle.view = st.view ∧ st.settle.disposed = st.disposed := by
  unfold SSt.settle
  split <;> exact ⟨rfl, rfl, rfl, rfl, rfl⟩

theorem settle_gates (st : SSt) : st.settle.gates = st.gates := by
  unfold SSt.settle
  split <;> rfl

theorem settle_env (st : SSt) : st.settle.env = st.env := by
  funext i
  simp only [SSt.env, (settle_res st).2.1, (settle_res st).2.2.1]

theorem AllOK.settle {st : SSt} (h : AllOK st) : AllOK st.settle := by
  intro r hr
  rw [(settle_res st).1] at hr
  exact (h r hr).of_env (settle_res st).2.1 (fun _ i _ => by rw [settle_env])

theorem AllOK.set {st : SSt} (h : AllOK st) (id : Nat) (v : Int) : AllOK (st.set id v) := by
  intro r' hr'
  simp only [SSt.set, List.mem_map] at hr'
  obtain ⟨r, hr, rfl⟩ := hr'
  have hok := h r hr
  -- the state after the write, before the resources react
  have henv : ∀ i, i ≠ id → (∃ w, st.defs[i]? = some (.sig w)) →
      SSt.env { st with sigs := setAt st.sigs id v } i = st.env i := by
    intro i hi ⟨w, hw⟩
    rw [env_sig { st with sigs := setAt st.sigs id v } i w hw, env_sig st i w hw]
    simp [setAt, hi]
  -- the final state has the same environment
  have hfin : ∀ (res' : List Res), SSt.env { ({ st with sigs := setAt st.sigs id v } : SSt) with res := res' } =
      SSt.env { st with sigs := setAt st.sigs id v } := fun _ => rfl
  by_cases hc : r.tracked.contains id = true
  · simp only [hc, if_true]
    by_cases hp : r.pending = true
    · simp only [hp, if_true]
      exact ⟨hok.so, fun ha => by simp at ha, fun hd => by simp [hp] at hd⟩
    · simp only [hp, Bool.false_eq_true, if_false]
      exact ResOK.start (st := { ({ st with sigs := setAt st.sigs id v } : SSt) with res := _ }) hok.so
  · simp only [hc, Bool.false_eq_true, if_false]
    refine hok.of_env rfl (fun ha i hi => ?_)
    have hne : i ≠ id := by
      intro hh; subst hh
      exact hc (by simpa using (hok.cur ha).2 i hi)
    exact henv i hne (reads_sigs st.defs st.env r.body hok.so i hi)

theorem AllOK.resolve {st : SSt} (h : AllOK st) (rid : Nat) : AllOK (st.resolve rid) := by
  intro r' hr'
  simp only [SSt.resolve, List.mem_map] at hr'
  obtain ⟨⟨i, r⟩, hir, rfl⟩ := hr'
  have hr : r ∈ st.res := (List.of_mem_zip hir).2
  have hok := h r hr
  simp only
  by_cases hc : (i == rid && r.pending) = true
  · simp only [hc, if_true]
    by_cases ha : r.again = true
    · simp only [ha, if_true]
      exact ResOK.start (st := { st with res := _ }) hok.so
    · simp only [ha, Bool.false_eq_true, if_false]
      have ha' : r.again = false := by simpa using ha
      exact ⟨hok.so, fun _ => hok.cur ha', fun _ => ⟨by simpa using ha', rfl⟩⟩
  · simp only [hc, Bool.false_eq_true, if_false]
    exact hok.of_env rfl (fun _ _ _ => rfl)

theorem AllOK.addRes {st : SSt} (h : AllOK st) (b : Expr) (hb : sigsOnly st.defs b = true) : AllOK (st.addRes b) := by
  intro r hr
  simp only [SSt.addRes, List.mem_append, List.mem_singleton] at hr
  rcases hr with hr | rfl
  · exact (h r hr).of_env rfl (fun _ _ _ => rfl)
  · exact ResOK.start (st := { st with res := _ }) (r := { body := b }) hb

theorem AllOK.mount {st : SSt} (h : AllOK st) (v : SV) : AllOK (st.mount v) := by
  unfold SSt.mount
  apply AllOK.settle
  intro r hr
  exact (h r hr).of_env rfl (fun _ _ _ => rfl)

theorem AllOK.openGate {st : SSt} (h : AllOK st) (g : Nat) : AllOK (st.openGate g) :=
  fun r hr => (h r hr).of_env rfl (fun _ _ _ => rfl)

theorem AllOK.step {st : SSt} (h : AllOK st) (op : SOp) : AllOK (st.step op) := by
  cases op with
  | set id v => exact (h.set id v).settle
  | resolve rid => exact (h.resolve rid).settle
  | openGate g => exact (h.openGate g).settle

/-- the definitions never change -/
theorem step_defs (st : SSt) (op : SOp) : (st.step op).defs = st.defs := by
  cases op <;> simp only [SSt.step, (settle_res _).2.1] <;> rfl

/-! the phases: a `<Transition>` is in its first pending episode only while something below it is pending -/

/-- a phase of 1 belongs to a `<Transition>` of the view … -/
def PhaseDom (st : SSt) : Prop :=
  ∀ i, st.phase.getD i 0 = 1 → ∃ v kid, st.view = some v ∧ (transitions v).find? (·.1 == i) = some (i, kid)

/-- … below which something is pending -/
def PhaseOK (st : SSt) : Prop :=
  ∀ i, st.phase.getD i 0 = 1 → ∃ v kid, st.view = some v ∧ (transitions v).find? (·.1 == i) = some (i, kid) ∧
    pendingIn st kid 0 = true

theorem pendingIn_congr (st st' : SSt) (hr : st'.res = st.res) (he : st'.env = st.env)
    (hg : st'.gates = st.gates) : ∀ (v : SV) (k : Int), pendingIn st' v k = pendingIn st v k := by
  intro v
  induction v with
  | text s => intro k; rfl
  | unit => intro k; rfl
  | elem tag attrs kid ih => intro k; simp only [pendingIn, ih]
  | seq a b iha ihb => intro k; simp only [pendingIn, iha, ihb]
  | dynText e => intro k; rfl
  | either c a b iha ihb => intro k; simp only [pendingIn, iha, ihb, he]
  | «show» c a b iha ihb => intro k; simp only [pendingIn, iha, ihb, he]
  | forKeyed sel lists => intro k; rfl
  | forRows sel lists row ih => intro k; simp only [pendingIn, ih, he]
  | sus kid _ => intro k; rfl
  | tra i kid _ => intro k; rfl
  | aw rid => intro k; simp only [pendingIn, SSt.isPending, hr]
  | lw sel => intro k; simp only [pendingIn, SSt.gateOpen, he, hg]

theorem nextPhase_one {ph : Nat} {p : Bool} (h : nextPhase ph p = 1) : p = true := by
  unfold nextPhase at h
  cases p <;> simp_all
  split at h <;> simp_all

theorem find_fst {l : List (Nat × SV)} {i j : Nat} {kid : SV} (h : l.find? (·.1 == i) = some (j, kid)) : j = i := by
  have := List.find?_some h
  simpa using this

theorem settle_phaseOK {st : SSt} (h : PhaseDom st) : PhaseOK st.settle := by
  intro i hi
  cases hv : st.view with
  | none =>
    exfalso
    have hs : st.settle = st := by unfold SSt.settle; rw [hv]
    rw [hs] at hi
    obtain ⟨v, _, hv', _⟩ := h i hi
    rw [hv] at hv'; cases hv'
  | some v =>
    have hs : st.settle = { st with phase := (List.range st.phase.length).map (phaseAt st v) } := by
      unfold SSt.settle; rw [hv]
    rw [hs] at hi ⊢
    simp only at hi
    rw [List.getD_eq_getElem?_getD] at hi
    rcases Nat.lt_or_ge i st.phase.length with hlt | hge
    case inr =>
      exfalso
      rw [List.getElem?_eq_none (by simpa using hge)] at hi
      cases hi
    simp only [List.getElem?_map, List.getElem?_range hlt, Option.map_some, Option.getD_some] at hi
    unfold phaseAt at hi
    cases hf : (transitions v).find? (·.1 == i) with
    | none =>
      rw [hf] at hi
      obtain ⟨v', kid, hv', hf'⟩ := h i hi
      rw [hv] at hv'; cases hv'
      rw [hf] at hf'; cases hf'
    | some jk =>
      obtain ⟨j, kid⟩ := jk
      rw [hf] at hi
      have hj := find_fst hf
      subst hj
      refine ⟨v, kid, hv, hf, ?_⟩
      rw [pendingIn_congr st { st with phase := (List.range st.phase.length).map (phaseAt st v) } rfl rfl rfl]
      exact nextPhase_one hi

theorem PhaseOK.dom {st : SSt} (h : PhaseOK st) : PhaseDom st :=
  fun i hi => let ⟨v, kid, hv, hf, _⟩ := h i hi; ⟨v, kid, hv, hf⟩


theorem PhaseDom.of_eq {st st' : SSt} (h : PhaseDom st) (hp : st'.phase = st.phase) (hv : st'.view = st.view) :
    PhaseDom st' := by
  intro i hi
  rw [hp] at hi
  obtain ⟨v, kid, h1, h2⟩ := h i hi
  exact ⟨v, kid, by rw [hv]; exact h1, h2⟩

theorem step_phaseOK {st : SSt} (h : PhaseDom st) (op : SOp) : PhaseOK (st.step op) := by
  cases op with
  | set id v => exact settle_phaseOK (h.of_eq rfl rfl)
  | resolve rid => exact settle_phaseOK (h.of_eq rfl rfl)
  | openGate g => exact settle_phaseOK (h.of_eq rfl rfl)

theorem mount_phaseOK (st : SSt) (v : SV) : PhaseOK (st.mount v) := by
  unfold SSt.mount
  apply settle_phaseOK
  intro i hi
  exfalso
  simp only at hi
  rw [List.getD_eq_getElem?_getD] at hi
  rcases Nat.lt_or_ge i (countTra v) with hlt | hge
  · rw [List.getElem?_replicate] at hi; simp [hlt] at hi
  · rw [List.getElem?_eq_none (by simpa using hge)] at hi; cases hi

/-! nothing pending: no boundary shows its fallback -/

theorem pendingIn_none (st : SSt) (hn : ∀ r ∈ st.res, r.pending = false) :
    ∀ (v : SV) (k : Int), lwClosed st v k = false → pendingIn st v k = false := by
  intro v
  induction v with
  | text s => intro k _; rfl
  | unit => intro k _; rfl
  | elem tag attrs kid ih => intro k h; simp only [lwClosed] at h; simp only [pendingIn, ih k h]
  | seq a b iha ihb =>
    intro k h
    simp only [lwClosed, Bool.or_eq_false_iff] at h
    simp only [pendingIn, iha k h.1, ihb k h.2, Bool.or_self]
  | dynText e => intro k _; rfl
  | either c a b iha ihb =>
    intro k h
    simp only [lwClosed] at h
    simp only [pendingIn]
    split at h
    · next hc => simp only [hc, if_true]; exact iha 0 h
    · next hc => simp only [hc, if_false]; exact ihb 0 h
  | «show» c a b iha ihb =>
    intro k h
    simp only [lwClosed] at h
    simp only [pendingIn]
    split at h
    · next hc => simp only [hc, if_true]; exact iha 0 h
    · next hc => simp only [hc, if_false]; exact ihb 0 h
  | forKeyed sel lists => intro k _; rfl
  | forRows sel lists row ih =>
    intro k h
    simp only [lwClosed, List.any_eq_false] at h
    simp only [pendingIn, List.any_eq_false]
    intro x hx
    simpa using ih (x : Int) (by simpa using h x hx)
  | sus kid _ => intro k _; rfl
  | tra i kid _ => intro k _; rfl
  | aw rid =>
    intro k _
    simp only [pendingIn, SSt.isPending]
    cases h : st.res[rid]? with
    | none => rfl
    | some r => simp [hn r (List.mem_of_getElem? h)]
  | lw sel => intro k h; exact h

/-- the views below the `<Transition>`s of a view have no closed gate if the view has none -/
theorem lwClosed_transitions (st : SSt) : ∀ (v : SV), lwClosed st v 0 = false →
    ∀ i kid, (i, kid) ∈ transitions v → lwClosed st kid 0 = false := by
  intro v
  induction v with
  | elem tag attrs kid ih => intro h i k hm; simp only [lwClosed] at h; exact ih h i k (by simpa [transitions] using hm)
  | seq a b iha ihb =>
    intro h i k hm
    simp only [lwClosed, Bool.or_eq_false_iff] at h
    simp only [transitions, List.mem_append] at hm
    rcases hm with hm | hm
    · exact iha h.1 i k hm
    · exact ihb h.2 i k hm
  | sus kid ih => intro h i k hm; simp only [lwClosed] at h; exact ih h i k (by simpa [transitions] using hm)
  | tra j kid ih =>
    intro h i k hm
    simp only [lwClosed] at h
    simp only [transitions, List.mem_cons] at hm
    rcases hm with hm | hm
    · have := (Prod.mk.inj hm).2; rw [this]; exact h
    · exact ih h i k hm
  | _ => intro _ i k hm; simp [transitions] at hm

theorem lastOf_loaded {st : SSt} (hok : AllOK st) (hn : ∀ r ∈ st.res, r.pending = false) (rid : Nat) :
    st.lastOf rid = ((st.res[rid]?).map fun r => Reactive.evalPure st.env r.body).getD 0 := by
  simp only [SSt.lastOf]
  cases h : st.res[rid]? with
  | none => rfl
  | some r =>
    have hr := List.mem_of_getElem? h
    have hd := (hok r hr).done (hn r hr)
    have hc := (hok r hr).cur hd.1
    simp [hd.2, hc.1]

theorem renderS_loaded {st : SSt} (hok : AllOK st) (hn : ∀ r ∈ st.res, r.pending = false)
    (hph : ∀ i, st.phase.getD i 0 ≠ 1) :
    ∀ (v : SV) (k : Int), lwClosed st v k = false → renderS st v k = renderLoaded st v k := by
  intro v
  induction v with
  | text s => intro k _; rfl
  | unit => intro k _; rfl
  | elem tag attrs kid ih => intro k h; simp only [lwClosed] at h; simp only [renderS, renderLoaded, ih k h]
  | seq a b iha ihb =>
    intro k h
    simp only [lwClosed, Bool.or_eq_false_iff] at h
    simp only [renderS, renderLoaded, iha k h.1, ihb k h.2]
  | dynText e => intro k _; rfl
  | either c a b iha ihb =>
    intro k h
    simp only [lwClosed] at h
    simp only [renderS, renderLoaded]
    split at h
    · next hc => simp only [hc, if_true]; exact iha 0 h
    · next hc => simp only [hc, if_false]; exact ihb 0 h
  | «show» c a b iha ihb =>
    intro k h
    simp only [lwClosed] at h
    simp only [renderS, renderLoaded]
    split at h
    · next hc => simp only [hc, if_true]; exact iha 0 h
    · next hc => simp only [hc, if_false]; exact ihb 0 h
  | forKeyed sel lists => intro k _; rfl
  | forRows sel lists row ih =>
    intro k h
    simp only [lwClosed, List.any_eq_false] at h
    simp only [renderS, renderLoaded]
    congr 1
    have : ∀ (l : List Nat), (∀ x ∈ l, lwClosed st row (x : Int) = false) →
        l.flatMap (fun (k : Nat) => [Tok.open "li" [], Tok.text (Txt.lit (toString k))] ++ renderS st row (k : Int) ++ [Tok.close]) =
        l.flatMap (fun (k : Nat) => [Tok.open "li" [], Tok.text (Txt.lit (toString k))] ++ renderLoaded st row (k : Int) ++ [Tok.close]) := by
      intro l
      induction l with
      | nil => intro _; rfl
      | cons x l ihl =>
        intro hx
        simp only [List.flatMap_cons]
        rw [ih (x : Int) (hx x (by simp)), ihl (fun y hy => hx y (by simp [hy]))]
    exact this _ (fun x hx => by simpa using h x hx)
  | sus kid ih =>
    intro k h
    simp only [lwClosed] at h
    simp only [renderS, renderLoaded, pendingIn_none st hn kid k h, Bool.false_eq_true, if_false, ih k h]
  | tra i kid ih =>
    intro k h
    simp only [lwClosed] at h
    have hne : (st.phase.getD i 0 == 1) = false := by simpa using hph i
    simp only [renderS, renderLoaded, hne, Bool.false_eq_true, if_false, ih k h]
  | aw rid => intro k _; simp only [renderS, renderLoaded, lastOf_loaded hok hn]
  | lw sel => intro k _; rfl

/-- well-formed: the fetchers read signals only -/
def SProg.wf (p : SProg) : Bool := p.bodies.all (sigsOnly p.defs)

theorem foldl_addRes_ok (defs : Prog) : ∀ (bs : List Expr) (st : SSt), st.defs = defs → AllOK st →
    bs.all (sigsOnly defs) = true → AllOK (bs.foldl SSt.addRes st) ∧ (bs.foldl SSt.addRes st).defs = defs ∧
      (bs.foldl SSt.addRes st).view = st.view ∧ (bs.foldl SSt.addRes st).phase = st.phase
  | [], st, hd, h, _ => ⟨h, hd, rfl, rfl⟩
  | b :: bs, st, hd, h, hb => by
    simp only [List.all_cons, Bool.and_eq_true] at hb
    simp only [List.foldl_cons]
    have := foldl_addRes_ok defs bs (st.addRes b) hd (h.addRes b (by rw [hd]; exact hb.1)) hb.2
    exact ⟨this.1, this.2.1, this.2.2.1, this.2.2.2⟩

theorem foldl_resolve_ok : ∀ (l : List Nat) (st : SSt), AllOK st → AllOK (l.foldl SSt.resolve st)
  | [], _, h => h
  | rid :: l, st, h => by simp only [List.foldl_cons]; exact foldl_resolve_ok l _ (h.resolve rid)

theorem run_ok (p : SProg) (hw : p.wf = true) : ∀ (ops : List SOp), AllOK (p.run ops) ∧ PhaseOK (p.run ops) ∧
    (p.run ops).view = some p.view := by
  have hstart : AllOK p.start ∧ PhaseOK p.start ∧ p.start.view = some p.view := by
    unfold SProg.start
    have h0 : AllOK (initS p.defs) := fun r hr => by simp [initS] at hr
    have h1 := foldl_addRes_ok p.defs p.bodies (initS p.defs) rfl h0 hw
    have h2 := foldl_resolve_ok p.pre _ h1.1
    refine ⟨h2.mount p.view, mount_phaseOK _ _, ?_⟩
    simp only [SSt.mount, (settle_res _).2.2.2.1]
  intro ops
  unfold SProg.run
  generalize p.start = st at hstart
  induction ops generalizing st with
  | nil => exact hstart
  | cons op ops ih =>
    simp only [List.foldl_cons]
    apply ih
    refine ⟨hstart.1.step op, step_phaseOK hstart.2.1.dom op, ?_⟩
    cases op <;> simp only [SSt.step, (settle_res _).2.2.2.1] <;> exact hstart.2.2

/-- **C04 for suspense boundaries, loaded state**: after any history of signal writes and completions of fetches
(reloads that overlap, complete in any order, are superseded while in flight), whenever no resource has a
fetch in flight (and every `Suspend` over a plain future selects an opened gate) the DOM of the mounted view has
no fallback in it and every `Suspend` leaf shows the value its resource's fetcher / its gate gives for the CURRENT
signals — the view as if nothing had ever been pending -/
theorem C04_suspense_loaded (p : SProg) (hw : p.wf = true) (ops : List SOp)
    (hn : ∀ r ∈ (p.run ops).res, r.pending = false) (hg : lwClosed (p.run ops) p.view 0 = false)
    (hd : (p.run ops).disposed = false) :
    (p.run ops).dom = renderLoaded (p.run ops) p.view 0 := by
  obtain ⟨hok, hph, hv⟩ := run_ok p hw ops
  simp only [SSt.dom, hd, Bool.false_eq_true, if_false, hv]
  refine renderS_loaded hok hn (fun i hi => ?_) p.view 0 hg
  obtain ⟨v, kid, hv', hf, hpend⟩ := hph i hi
  rw [hv] at hv'; cases hv'
  have hm : (i, kid) ∈ transitions p.view := List.mem_of_find?_eq_some hf
  rw [pendingIn_none _ hn kid 0 (lwClosed_transitions _ p.view hg i kid hm)] at hpend
  cases hpend

/-- … and while something below it is pending, a `<Suspense>` shows its fallback (the spec, by definition) -/
theorem C04_suspense_pending (st : SSt) (kid : SV) (k : Int) (h : pendingIn st kid k = true) :
    renderS st (.sus kid) k = [.text (.lit "wait")] := by
  simp only [renderS, h, if_true]

/-! a `<Transition>` falls back during ONE episode at most -/

theorem nextPhase_two (p : Bool) : nextPhase 2 p = 2 := by cases p <;> rfl

theorem settle_phase_two (st : SSt) (i : Nat) (h : st.phase.getD i 0 = 2) : st.settle.phase.getD i 0 = 2 := by
  unfold SSt.settle
  cases hv : st.view with
  | none => exact h
  | some v =>
    simp only
    rw [List.getD_eq_getElem?_getD] at h ⊢
    rcases Nat.lt_or_ge i st.phase.length with hlt | hge
    · simp only [List.getElem?_map, List.getElem?_range hlt, Option.map_some, Option.getD_some]
      rw [List.getElem?_eq_getElem hlt, Option.getD_some] at h
      unfold phaseAt
      rw [List.getD_eq_getElem?_getD, List.getElem?_eq_getElem hlt, Option.getD_some, h]
      split
      · exact nextPhase_two _
      · rfl
    · rw [List.getElem?_eq_none (by simpa using hge)] at h; cases h

/-- once the first pending episode of a `<Transition>` is over (`phase = 2`) it is over for good: whatever is
written or completed later, the boundary never shows its fallback again (`renderS` falls back only in phase 1) -/
theorem C04_transition_once (p : SProg) (ops more : List SOp) (i : Nat)
    (h : (p.run ops).phase.getD i 0 = 2) : (p.run (ops ++ more)).phase.getD i 0 = 2 := by
  unfold SProg.run at h ⊢
  rw [List.foldl_append]
  generalize ops.foldl SSt.step p.start = st at h
  induction more generalizing st with
  | nil => exact h
  | cons op more ih =>
    simp only [List.foldl_cons]
    apply ih
    cases op <;> exact settle_phase_two _ i h

end Leptos.SView
