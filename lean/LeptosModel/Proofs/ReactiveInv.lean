import LeptosModel.Proofs.ReactiveState
/-!
# Proofs/ReactiveInv — the invariant of the mark / check / pull protocol

`InvR p s` holds of every state reachable *inside* an operation (some memos may be
mid-run: ghost flag `running`); between operations nobody is running and `obs = none`.
-/
namespace Leptos.Reactive

def kindOf : NodeDef → Kind
  | .sig _ => .sig | .memo _ => .memo | .eff _ => .eff

def noEff (p : Prog) : Bool := p.all fun d => match d with | .eff _ => false | _ => true

/-- no `unjust` event in the log -/
def LogOK (s : State) : Prop := ∀ i, Ev.unjust i ∉ s.log

/-- the log of `s'` extends the log of `s` by events satisfying `good` -/
def LogExt (good : Ev → Prop) (s s' : State) : Prop :=
  ∃ suf, s'.log = s.log ++ suf ∧ ∀ ev ∈ suf, good ev

theorem LogExt.refl (good : Ev → Prop) (s : State) : LogExt good s s :=
  ⟨[], by simp, fun _ h => by cases h⟩

theorem LogExt.of_eq {good : Ev → Prop} {s s' : State} (h : s'.log = s.log) : LogExt good s s' :=
  ⟨[], by simp [h], fun _ h => by cases h⟩

theorem LogExt.trans {good : Ev → Prop} {s s' s'' : State} (h1 : LogExt good s s')
    (h2 : LogExt good s' s'') : LogExt good s s'' := by
  obtain ⟨a, ha, ga⟩ := h1
  obtain ⟨b, hb, gb⟩ := h2
  refine ⟨a ++ b, by rw [hb, ha, List.append_assoc], fun ev hev => ?_⟩
  rcases List.mem_append.1 hev with h | h
  · exact ga ev h
  · exact gb ev h

theorem LogExt.mono {good good' : Ev → Prop} {s s' : State} (h : LogExt good s s')
    (hg : ∀ ev, good ev → good' ev) : LogExt good' s s' := by
  obtain ⟨a, ha, ga⟩ := h
  exact ⟨a, ha, fun ev hev => hg ev (ga ev hev)⟩

theorem LogExt.emit {good : Ev → Prop} {s : State} {ev : Ev} (h : good ev) : LogExt good s (s.emit ev) :=
  ⟨[ev], rfl, fun e he => by rw [List.mem_singleton.1 he]; exact h⟩

/-- events that are neither `unjust` nor `ran` -/
def QuietEv (ev : Ev) : Prop := (∀ i, ev ≠ .unjust i) ∧ (∀ i, ev ≠ .ran i)

def WokeEv (ev : Ev) : Prop := ∃ i, ev = .woke i
def ChgEv (ev : Ev) : Prop := (∃ i, ev = .woke i) ∨ ∃ i, ev = .changed i
/-- events that are neither a tracked read nor a signal write -/
def PlainEv (ev : Ev) : Prop := (∀ a b c, ev ≠ .rdv a b c) ∧ ∀ i, ev ≠ .set i

theorem WokeEv.quiet {ev : Ev} (h : WokeEv ev) : QuietEv ev := by
  obtain ⟨i, rfl⟩ := h
  exact ⟨fun _ h => (by cases h), fun _ h => (by cases h)⟩
theorem WokeEv.plain {ev : Ev} (h : WokeEv ev) : PlainEv ev := by
  obtain ⟨i, rfl⟩ := h
  exact ⟨fun _ _ _ h => (by cases h), fun _ h => (by cases h)⟩
theorem WokeEv.chg {ev : Ev} (h : WokeEv ev) : ChgEv ev := .inl h
theorem ChgEv.quiet {ev : Ev} (h : ChgEv ev) : QuietEv ev := by
  rcases h with ⟨i, rfl⟩ | ⟨i, rfl⟩
  · exact ⟨fun _ h => (by cases h), fun _ h => (by cases h)⟩
  · exact ⟨fun _ h => (by cases h), fun _ h => (by cases h)⟩
theorem ChgEv.plain {ev : Ev} (h : ChgEv ev) : PlainEv ev := by
  rcases h with ⟨i, rfl⟩ | ⟨i, rfl⟩
  · exact ⟨fun _ _ _ h => (by cases h), fun _ h => (by cases h)⟩
  · exact ⟨fun _ _ _ h => (by cases h), fun _ h => (by cases h)⟩

/-- every `ran i` event is the run of a memo (kinds taken in `s`) -/
def MemoEv (s : State) (ev : Ev) : Prop := ∀ i, ev = .ran i → (s.get i).kind = .memo

/-- number of `ran i` events in a piece of log -/
def countRan (i : Nat) (l : List Ev) : Nat := l.countP (fun ev => decide (ev = Ev.ran i))

theorem countRan_append (i : Nat) (a b : List Ev) : countRan i (a ++ b) = countRan i a + countRan i b := by
  simp [countRan, List.countP_append]

theorem countRan_quiet (i : Nat) (l : List Ev) (h : ∀ ev ∈ l, QuietEv ev) : countRan i l = 0 := by
  simp only [countRan, List.countP_eq_zero, decide_eq_true_eq]
  intro ev hev hc
  exact (h ev hev).2 i hc

/-- the ghost counter `runs` counts exactly the `ran` events logged between `s` and `s'` -/
def RunsX (s s' : State) : Prop :=
  ∃ suf, s'.log = s.log ++ suf ∧ ∀ i, (s'.get i).runs = (s.get i).runs + countRan i suf

theorem RunsX.refl (s : State) : RunsX s s := ⟨[], by simp, fun _ => by simp [countRan]⟩

theorem RunsX.trans {s s' s'' : State} (h1 : RunsX s s') (h2 : RunsX s' s'') : RunsX s s'' := by
  obtain ⟨a, ha, ra⟩ := h1
  obtain ⟨b, hb, rb⟩ := h2
  refine ⟨a ++ b, by rw [hb, ha, List.append_assoc], fun i => ?_⟩
  rw [rb i, ra i, countRan_append]; omega

theorem RunsX.of_quiet {s s' : State} (h : LogExt QuietEv s s') (hr : ∀ i, (s'.get i).runs = (s.get i).runs) :
    RunsX s s' := by
  obtain ⟨a, ha, ga⟩ := h
  exact ⟨a, ha, fun i => by rw [hr i, countRan_quiet i a ga]; rfl⟩

/-- the cached value of memo `m` is its body evaluated at the tracked values it saw and some
snapshot of the untracked reads -/
def Replays (p : Prog) (s : State) (m : Nat) : Prop :=
  ∃ U : List Int, ∀ ρ : Nat → Int, (∀ e ∈ (s.get m).seen, ρ e.1 = e.2.1) →
    (s.get m).val = some (evalSnap ρ (bodyOf p m) U).1

theorem Replays.congr {p : Prog} {s s' : State} {m : Nat} (h : Replays p s m)
    (hseen : (s'.get m).seen = (s.get m).seen) (hval : (s'.get m).val = (s.get m).val) :
    Replays p s' m := by
  obtain ⟨U, hU⟩ := h
  exact ⟨U, fun ρ hρ => by rw [hval]; exact hU ρ (by rw [← hseen]; exact hρ)⟩

structure InvR (p : Prog) (s : State) : Prop where
  len : s.nodes.length = p.length
  kind : ∀ i d, p[i]? = some d → (s.get i).kind = kindOf d
  sigOk : ∀ i, i < p.length → (s.get i).kind = .sig →
    (s.get i).st = .clean ∧ (s.get i).running = false ∧ ∃ v, (s.get i).val = some v
  obsRun : ∀ o, s.obs = some o → (s.get o).running = true
  edge : ∀ x w, w ∈ (s.get x).subs ↔ x ∈ (s.get w).sources
  nodup : ∀ x, (s.get x).subs.Nodup
  srcLt : ∀ w x, x ∈ (s.get w).sources → x < w
  runNC : ∀ r, (s.get r).kind = .memo → (s.get r).running = true → (s.get r).st ≠ .clean
  closed : ∀ x w, (s.get x).kind = .memo → (s.get x).st ≠ .clean → w ∈ (s.get x).subs →
    (s.get w).kind = .memo → (s.get w).st ≠ .clean
  srcSeen : ∀ m, (s.get m).kind = .memo → (s.get m).running = false →
    (s.get m).sources = (s.get m).seen.map (·.1)
  valNone : ∀ m, (s.get m).kind = .memo → (s.get m).running = false → (s.get m).val = none →
    (s.get m).st = .dirty
  replay : ∀ m, (s.get m).kind = .memo → (s.get m).running = false → (s.get m).st ≠ .dirty →
    Replays p s m
  srcVal : ∀ m, (s.get m).kind = .memo → (s.get m).running = false → (s.get m).st ≠ .dirty →
    ∀ e ∈ (s.get m).seen, (s.get e.1).running = true ∨ (s.get e.1).val = some e.2.1
  verDirty : ∀ m, (s.get m).kind = .memo → (s.get m).running = false → (s.get m).st = .dirty →
    (s.get m).runs ≠ 0 → ∃ e ∈ (s.get m).seen, (s.get e.1).ver ≠ e.2.2
  verLe : ∀ w e, e ∈ (s.get w).seen → e.2.2 ≤ (s.get e.1).ver
  srcData : ∀ w x, x ∈ (s.get w).sources → (s.get x).kind ≠ .eff

/-! ## the effect flags `dirty` / `chan` / `woken`: only ever set by marking -/

structure FlagRel (s s' : State) : Prop where
  d : ∀ i, (s.get i).dirty = true → (s'.get i).dirty = true
  c : ∀ i, (s.get i).chan = true → (s'.get i).chan = true
  w : ∀ i, (s.get i).woken = true → (s'.get i).woken = true
  newD : ∀ i, (s'.get i).dirty = true → (s.get i).dirty = true ∨
    ((s'.get i).chan = true ∧ (s'.get i).woken = true)
  newC : ∀ i, (s'.get i).chan = true → (s.get i).chan = true ∨ (s'.get i).woken = true

theorem FlagRel.refl (s : State) : FlagRel s s :=
  ⟨fun _ h => h, fun _ h => h, fun _ h => h, fun _ h => .inl h, fun _ h => .inl h⟩

theorem FlagRel.trans {s s' s'' : State} (h1 : FlagRel s s') (h2 : FlagRel s' s'') : FlagRel s s'' where
  d i h := h2.d i (h1.d i h)
  c i h := h2.c i (h1.c i h)
  w i h := h2.w i (h1.w i h)
  newD i h := by
    rcases h2.newD i h with h' | h'
    · rcases h1.newD i h' with h'' | h''
      · exact .inl h''
      · exact .inr ⟨h2.c i h''.1, h2.w i h''.2⟩
    · exact .inr h'
  newC i h := by
    rcases h2.newC i h with h' | h'
    · rcases h1.newC i h' with h'' | h''
      · exact .inl h''
      · exact .inr (h2.w i h'')
    · exact .inr h'

/-- states whose nodes carry the same three flags -/
theorem FlagRel.of_same {s s' : State}
    (h : ∀ i, (s'.get i).dirty = (s.get i).dirty ∧ (s'.get i).chan = (s.get i).chan ∧
      (s'.get i).woken = (s.get i).woken) : FlagRel s s' :=
  ⟨fun i hd => by rw [(h i).1]; exact hd, fun i hc => by rw [(h i).2.1]; exact hc,
   fun i hw => by rw [(h i).2.2]; exact hw, fun i hd => .inl (by rw [← (h i).1]; exact hd),
   fun i hc => .inl (by rw [← (h i).2.1]; exact hc)⟩

theorem FlagRel.of_upd (s : State) (id : Nat) (g : Node → Node)
    (hg : ∀ n, (g n).dirty = n.dirty ∧ (g n).chan = n.chan ∧ (g n).woken = n.woken) :
    FlagRel s (s.upd id g) := by
  apply FlagRel.of_same
  intro i
  rw [State.get_upd]; split
  · exact hg _
  · exact ⟨rfl, rfl, rfl⟩

/-- what a call `upd … m` (`k = m + 1`) leaves alone (`obs` and `running` are stated separately) -/
structure Frame (s s' : State) (k : Nat) : Prop where
  len : s'.nodes.length = s.nodes.length
  kind : ∀ i, (s'.get i).kind = (s.get i).kind
  clean : ∀ i, (s.get i).st = .clean → (s'.get i).st = .clean ∧ (s'.get i).val = (s.get i).val
  verMono : ∀ i, (s.get i).ver ≤ (s'.get i).ver
  sigVer : ∀ i, (s.get i).kind = .sig → (s'.get i).ver = (s.get i).ver
  above : ∀ i, k ≤ i → (s'.get i).core = (s.get i).core ∧
    ((s'.get i).st = (s.get i).st ∨ (s'.get i).st = .dirty)
  log : LogOK s → LogOK s'
  effCore : ∀ i, (s.get i).kind = .eff → (s'.get i).core = (s.get i).core
  effD : ∀ i, (s.get i).kind = .eff → (s'.get i).dirty = true →
    (s.get i).dirty = true ∨ ∃ y ∈ (s.get i).sources, (s.get y).ver < (s'.get y).ver
  flags : FlagRel s s'
  logx : LogExt (MemoEv s) s s'
  runsx : RunsX s s'

theorem Frame.refl (s : State) (k : Nat) : Frame s s k :=
  ⟨rfl, fun _ => rfl, fun _ h => ⟨h, rfl⟩, fun _ => Nat.le_refl _,
   fun _ _ => rfl, fun _ _ => ⟨rfl, .inl rfl⟩, fun h => h, fun _ _ => rfl, fun _ _ h => .inl h,
   FlagRel.refl s, LogExt.refl _ s, RunsX.refl s⟩

theorem Frame.trans {s s' s'' : State} {k : Nat} (h1 : Frame s s' k) (h2 : Frame s' s'' k) :
    Frame s s'' k where
  len := h2.len.trans h1.len
  kind i := (h2.kind i).trans (h1.kind i)
  clean i h := by
    have a := h1.clean i h
    have b := h2.clean i a.1
    exact ⟨b.1, b.2.trans a.2⟩
  verMono i := Nat.le_trans (h1.verMono i) (h2.verMono i)
  sigVer i h := by
    have a := h1.sigVer i h
    have b := h2.sigVer i ((h1.kind i).trans h)
    exact b.trans a
  above i hi := by
    have a := h1.above i hi
    have b := h2.above i hi
    refine ⟨b.1.trans a.1, ?_⟩
    rcases b.2 with b2 | b2
    · rcases a.2 with a2 | a2
      · exact .inl (b2.trans a2)
      · exact .inr (b2.trans a2)
    · exact .inr b2
  log h := h2.log (h1.log h)
  effCore i hk := (h2.effCore i ((h1.kind i).trans hk)).trans (h1.effCore i hk)
  effD i hk hd := by
    have hk' : (s'.get i).kind = .eff := (h1.kind i).trans hk
    have hsrc : (s'.get i).sources = (s.get i).sources := (Node.core_fields (h1.effCore i hk)).2.2.1
    rcases h2.effD i hk' hd with h | ⟨y, hy, hv⟩
    · rcases h1.effD i hk h with h' | ⟨y, hy, hv⟩
      · exact .inl h'
      · exact .inr ⟨y, hy, Nat.lt_of_lt_of_le hv (h2.verMono y)⟩
    · rw [hsrc] at hy
      exact .inr ⟨y, hy, Nat.lt_of_le_of_lt (h1.verMono y) hv⟩
  flags := h1.flags.trans h2.flags
  logx := h1.logx.trans (h2.logx.mono (fun ev hev i hi => by rw [← h1.kind]; exact hev i hi))
  runsx := h1.runsx.trans h2.runsx

theorem Frame.mono {s s' : State} {k k' : Nat} (h : Frame s s' k) (hk : k ≤ k') : Frame s s' k' :=
  { h with above := fun i hi => h.above i (Nat.le_trans hk hi) }

/-- marking only: `st`, `dirty`, `chan`, `woken` (and `woke` log entries) change; `st` is only raised -/
structure MarkRel (s s' : State) : Prop where
  len : s'.nodes.length = s.nodes.length
  obs : s'.obs = s.obs
  core : ∀ i, (s'.get i).core = (s.get i).core
  rank : ∀ i, (s.get i).st.rank ≤ (s'.get i).st.rank
  notMemo : ∀ i, (s.get i).kind ≠ .memo → (s'.get i).st = (s.get i).st
  log : LogOK s → LogOK s'
  logx : LogExt WokeEv s s'

theorem MarkRel.refl (s : State) : MarkRel s s :=
  ⟨rfl, rfl, fun _ => rfl, fun _ => Nat.le_refl _, fun _ _ => rfl, fun h => h, LogExt.refl _ s⟩

theorem MarkRel.trans {s s' s'' : State} (h1 : MarkRel s s') (h2 : MarkRel s' s'') : MarkRel s s'' where
  len := h2.len.trans h1.len
  obs := h2.obs.trans h1.obs
  core i := (h2.core i).trans (h1.core i)
  rank i := Nat.le_trans (h1.rank i) (h2.rank i)
  notMemo i h := by
    have hk : (s'.get i).kind = (s.get i).kind := (Node.core_fields (h1.core i)).1
    exact (h2.notMemo i (by rw [hk]; exact h)).trans (h1.notMemo i h)
  log h := h2.log (h1.log h)
  logx := h1.logx.trans h2.logx

theorem MarkRel.kind {s s'} (h : MarkRel s s') (i : Nat) : (s'.get i).kind = (s.get i).kind :=
  (Node.core_fields (h.core i)).1
theorem MarkRel.val {s s'} (h : MarkRel s s') (i : Nat) : (s'.get i).val = (s.get i).val :=
  (Node.core_fields (h.core i)).2.1
theorem MarkRel.sources {s s'} (h : MarkRel s s') (i : Nat) : (s'.get i).sources = (s.get i).sources :=
  (Node.core_fields (h.core i)).2.2.1
theorem MarkRel.subs {s s'} (h : MarkRel s s') (i : Nat) : (s'.get i).subs = (s.get i).subs :=
  (Node.core_fields (h.core i)).2.2.2.1
theorem MarkRel.running {s s'} (h : MarkRel s s') (i : Nat) : (s'.get i).running = (s.get i).running :=
  (Node.core_fields (h.core i)).2.2.2.2.2.1
theorem MarkRel.seen {s s'} (h : MarkRel s s') (i : Nat) : (s'.get i).seen = (s.get i).seen :=
  (Node.core_fields (h.core i)).2.2.2.2.2.2.1
theorem MarkRel.ver {s s'} (h : MarkRel s s') (i : Nat) : (s'.get i).ver = (s.get i).ver :=
  (Node.core_fields (h.core i)).2.2.2.2.2.2.2.1
theorem MarkRel.runs {s s'} (h : MarkRel s s') (i : Nat) : (s'.get i).runs = (s.get i).runs :=
  (Node.core_fields (h.core i)).2.2.2.2.2.2.2.2

theorem MarkRel.nonclean {s s'} (h : MarkRel s s') {i : Nat} (hc : (s.get i).st ≠ .clean) :
    (s'.get i).st ≠ .clean := by
  intro h'
  have := h.rank i
  rw [h'] at this
  cases hs : (s.get i).st <;> simp_all [St.rank]

theorem MarkRel.dirty {s s'} (h : MarkRel s s') {i : Nat} (hc : (s.get i).st = .dirty) :
    (s'.get i).st = .dirty := by
  have := h.rank i
  rw [hc] at this
  cases hs : (s'.get i).st <;> simp_all [St.rank]

/-! ## basic consequences -/

theorem InvR.kind_ne_eff {p : Prog} {s : State} (h : InvR p s) (hne : noEff p = true) (i : Nat) :
    (s.get i).kind ≠ .eff := by
  rcases Nat.lt_or_ge i p.length with hi | hi
  · have hd : p[i]? = some p[i] := List.getElem?_eq_getElem hi
    rw [h.kind i _ hd]
    have : p[i] ∈ p := List.getElem_mem hi
    simp only [noEff, List.all_eq_true] at hne
    have := hne _ this
    cases hp : p[i] <;> simp_all [kindOf]
  · rw [State.get_default s (by rw [h.len]; exact hi)]; simp

theorem InvR.memo_lt {p : Prog} {s : State} (h : InvR p s) {i : Nat} (hk : (s.get i).kind = .memo) :
    i < p.length := by
  rw [← h.len]; exact s.lt_of_kind_ne (by rw [hk]; simp)

theorem InvR.memo_def {p : Prog} {s : State} (h : InvR p s) {i : Nat} (hk : (s.get i).kind = .memo) :
    ∃ b, p[i]? = some (.memo b) := by
  have hi := h.memo_lt hk
  have hd : p[i]? = some p[i] := List.getElem?_eq_getElem hi
  have := h.kind i _ hd
  rw [hk] at this
  cases hp : p[i] with
  | memo b => exact ⟨b, by rw [hd, hp]⟩
  | sig v => rw [hp] at this; cases this
  | eff b => rw [hp] at this; cases this

theorem InvR.sig_def {p : Prog} {s : State} (h : InvR p s) {i : Nat} (hi : i < p.length)
    (hk : (s.get i).kind = .sig) : ∃ v, p[i]? = some (.sig v) := by
  have hd : p[i]? = some p[i] := List.getElem?_eq_getElem hi
  have := h.kind i _ hd
  rw [hk] at this
  cases hp : p[i] with
  | sig v => exact ⟨v, by rw [hd, hp]⟩
  | memo b => rw [hp] at this; cases this
  | eff b => rw [hp] at this; cases this

theorem scratch_env_congr {p : Prog} {env env' : Nat → Int}
    (h : ∀ i v, p[i]? = some (.sig v) → env i = env' i) :
    ∀ f id, scratch p env f id = scratch p env' f id := by
  intro f
  induction f with
  | zero => intro id; rfl
  | succ f ih =>
    intro id
    simp only [scratch]
    cases hd : p[id]? with
    | none => rfl
    | some d =>
      cases d with
      | sig v => exact h id v hd
      | memo b => simp only [funext ih]
      | eff b => simp only [funext ih]

/-- a clean node holds its from-scratch value -/
theorem InvR.clean_correct {p : Prog} {s : State} (h : InvR p s) (hwf : WF p = true)
    (htr : ∀ (m : Nat) (b : Expr), p[m]? = some (NodeDef.memo b) → b.noUntracked = true) :
    ∀ m, m < p.length → (s.get m).kind ≠ .eff → (s.get m).st = .clean →
      (s.get m).val = some (specVal p s m) := by
  intro m
  induction m using Nat.strongRecOn with
  | _ m ih =>
    intro hm hne hst
    cases hk : (s.get m).kind with
    | eff => exact absurd hk hne
    | sig =>
      obtain ⟨v, hv⟩ := (h.sigOk m hm hk).2.2
      obtain ⟨v0, hd⟩ := h.sig_def hm hk
      simp only [specVal, fuelFor, scratch, hd, envOf, hv, Option.getD_some]
    | memo =>
      have hrun : (s.get m).running = false := by
        cases hr : (s.get m).running with
        | false => rfl
        | true => exact absurd hst (h.runNC m hk hr)
      obtain ⟨b, hd⟩ := h.memo_def hk
      have hw := WF_get hwf hd
      simp only [wfNode, Bool.and_eq_true] at hw
      have hnd : (s.get m).st ≠ .dirty := by rw [hst]; simp
      have hcons : ∀ e ∈ (s.get m).seen, specVal p s e.1 = e.2.1 := by
        intro e he
        have hsrc : e.1 ∈ (s.get m).sources := by
          rw [h.srcSeen m hk hrun]; exact List.mem_map_of_mem he
        have hlt := h.srcLt m e.1 hsrc
        have hsub : m ∈ (s.get e.1).subs := (h.edge e.1 m).2 hsrc
        have hdat := h.srcData m e.1 hsrc
        have hcl : (s.get e.1).st = .clean := by
          cases hk1 : (s.get e.1).kind with
          | eff => exact absurd hk1 hdat
          | sig => exact (h.sigOk e.1 (by omega) hk1).1
          | memo =>
            cases hs1 : (s.get e.1).st with
            | clean => rfl
            | check => exact absurd hst (h.closed e.1 m hk1 (by rw [hs1]; simp) hsub hk)
            | dirty => exact absurd hst (h.closed e.1 m hk1 (by rw [hs1]; simp) hsub hk)
        have hnr : (s.get e.1).running = false := by
          cases hk1 : (s.get e.1).kind with
          | eff => exact absurd hk1 hdat
          | sig => exact (h.sigOk e.1 (by omega) hk1).2.1
          | memo =>
            cases hr : (s.get e.1).running with
            | false => rfl
            | true => exact absurd hcl (h.runNC e.1 hk1 hr)
        have hv := ih e.1 hlt (by omega) hdat hcl
        rcases h.srcVal m hk hrun hnd e he with h1 | h1
        · rw [hnr] at h1; cases h1
        · rw [hv] at h1; exact Option.some.inj h1
      obtain ⟨U, hU⟩ := h.replay m hk hrun hnd
      have hval := hU (specVal p s) hcons
      rw [hval]
      congr 1
      simp only [bodyOf, hd]
      rw [evalSnap_tracked _ b U (htr m b hd)]
      show _ = scratch p (envOf s) (p.length + 1) m
      simp only [scratch, hd]
      apply evalPure_congr (k := m) _ b hw.1.1
      intro j hj
      exact scratch_fuel _ hwf _ _ j (by simp only [fuelFor]; omega) (by omega)

/-- when the value of a source of an effect changes, the effect is flagged dirty
(unless it is the current observer, or dead) -/
def ValCh (s s' : State) : Prop :=
  ∀ i, (s.get i).kind = .eff → ∀ x ∈ (s.get i).sources, (s'.get x).val ≠ (s.get x).val →
    (s'.get i).dirty = true ∨ s.obs = some i ∨ (s.get i).alive = false

theorem ValCh.of_val_eq {s s' : State} (h : ∀ x, (s'.get x).val = (s.get x).val) : ValCh s s' :=
  fun _ _ x _ hne => absurd (h x) hne

theorem ValCh.trans {s s1 s2 : State} {k : Nat} (h1 : ValCh s s1) (h2 : ValCh s1 s2)
    (f1 : Frame s s1 k) (f2 : Frame s1 s2 k) (ho : s1.obs = s.obs) : ValCh s s2 := by
  intro i hk x hx hne
  have hk1 : (s1.get i).kind = .eff := (f1.kind i).trans hk
  have hc := f1.effCore i hk
  by_cases h : (s1.get x).val = (s.get x).val
  · rcases h2 i hk1 x (by rw [(Node.core_fields hc).2.2.1]; exact hx) (by rw [h]; exact hne) with h' | h' | h'
    · exact .inl h'
    · exact .inr (.inl (by rw [← ho]; exact h'))
    · exact .inr (.inr (by rw [← (Node.core_life hc).1]; exact h'))
  · rcases h1 i hk x hx h with h' | h' | h'
    · exact .inl (f2.flags.d i h')
    · exact .inr (.inl h')
    · exact .inr (.inr h')

/-- every recorded source of a node is read by the node's body (static over-approximation) -/
def SrcStatic (p : Prog) (s : State) : Prop :=
  ∀ w x, x ∈ (s.get w).sources → (bodyOf p w).readsNode x = true

theorem SrcStatic.mono {p : Prog} {s s' : State} (h : SrcStatic p s)
    (hsub : ∀ w x, x ∈ (s'.get w).sources → x ∈ (s.get w).sources) : SrcStatic p s' :=
  fun w x hx => h w x (hsub w x hx)

/-- between `s` and `s'` every node ran at most once, and a node that ran is clean afterwards
(and was not clean before) -/
def RunRel (s s' : State) : Prop :=
  ∀ i, (s'.get i).runs = (s.get i).runs ∨
    ((s'.get i).runs = (s.get i).runs + 1 ∧ (s'.get i).st = .clean ∧ (s.get i).st ≠ .clean)

theorem RunRel.of_eq {s s' : State} (h : ∀ i, (s'.get i).runs = (s.get i).runs) : RunRel s s' :=
  fun i => .inl (h i)

theorem RunRel.trans {s s1 s2 : State} (h1 : RunRel s s1) (h2 : RunRel s1 s2)
    (c1 : ∀ i, (s.get i).st = .clean → (s1.get i).st = .clean)
    (c2 : ∀ i, (s1.get i).st = .clean → (s2.get i).st = .clean) : RunRel s s2 := by
  intro i
  rcases h1 i with a | a
  · rcases h2 i with b | b
    · exact .inl (b.trans a)
    · exact .inr ⟨by rw [b.1, a], b.2.1, fun hc => b.2.2 (c1 i hc)⟩
  · rcases h2 i with b | b
    · exact .inr ⟨by rw [b, a.1], c2 i a.2.1, a.2.2⟩
    · exact absurd a.2.1 b.2.2

/-- `InvR` does not depend on the log, and on `obs` only through `obsRun` -/
theorem InvR.reobs {p : Prog} {s s' : State} (h : InvR p s) (hn : s'.nodes = s.nodes)
    (ho : ∀ o, s'.obs = some o → (s.get o).running = true) : InvR p s' := by
  have g : ∀ i, s'.get i = s.get i := by intro i; simp only [State.get, hn]
  constructor
  · rw [hn]; exact h.len
  · intro i d hd; rw [g]; exact h.kind i d hd
  · intro i hi hk; rw [g] at hk ⊢; exact h.sigOk i hi hk
  · intro o ho'; rw [g]; exact ho o ho'
  · intro a w; rw [g, g]; exact h.edge a w
  · intro a; rw [g]; exact h.nodup a
  · intro w a ha; rw [g] at ha; exact h.srcLt w a ha
  · intro r hk hr; rw [g] at hk hr ⊢; exact h.runNC r hk hr
  · intro a w hka hsa hw hkw; rw [g] at hka hsa hw; rw [g] at hkw ⊢; exact h.closed a w hka hsa hw hkw
  · intro i hk hr; rw [g] at hk hr ⊢; exact h.srcSeen i hk hr
  · intro i hk hr hv; rw [g] at hk hr hv ⊢; exact h.valNone i hk hr hv
  · intro i hk hr hst; rw [g] at hk hr hst; exact (h.replay i hk hr hst).congr (by rw [g]) (by rw [g])
  · intro i hk hr hst x hx; rw [g] at hk hr hst hx; rw [g]; exact h.srcVal i hk hr hst x hx
  · intro i hk hr hst hruns
    rw [g] at hk hr hst hruns
    obtain ⟨x, hx, hne⟩ := h.verDirty i hk hr hst hruns
    exact ⟨x, by rw [g]; exact hx, by rw [g]; exact hne⟩
  · intro w x hx; rw [g] at hx; rw [g]; exact h.verLe w x hx
  · intro w a ha; rw [g] at ha; rw [g]; exact h.srcData w a ha


/-! ## glitch-freedom of the log

The log does not record states, so "every value read is the from-scratch value for the signal state
at that moment" is stated as consistency of a piece of log with an evolving signal environment:
the environment changes only at a `set i` event and only at signal `i`; every `rdv self x v` event
carries `scratch` of `x` for the environment current at that position. -/

/-- memo bodies use tracked reads only -/
def MemoTracked (p : Prog) : Prop :=
  ∀ (m : Nat) (b : Expr), p[m]? = some (NodeDef.memo b) → b.noUntracked = true

/-- the two environments agree on every signal of `p` -/
def SigEq (p : Prog) (env env' : Nat → Int) : Prop := ∀ i v, p[i]? = some (.sig v) → env i = env' i

theorem SigEq.refl (p : Prog) (env : Nat → Int) : SigEq p env env := fun _ _ _ => rfl
theorem SigEq.symm {p : Prog} {a b : Nat → Int} (h : SigEq p a b) : SigEq p b a :=
  fun i v hd => (h i v hd).symm
theorem SigEq.trans {p : Prog} {a b c : Nat → Int} (h1 : SigEq p a b) (h2 : SigEq p b c) : SigEq p a c :=
  fun i v hd => (h1 i v hd).trans (h2 i v hd)

theorem SigEq.of_val {p : Prog} {s s' : State}
    (h : ∀ i v, p[i]? = some (.sig v) → (s'.get i).val = (s.get i).val) : SigEq p (envOf s) (envOf s') :=
  fun i v hd => by simp only [envOf, h i v hd]

inductive GlitchFree (p : Prog) : (Nat → Int) → List Ev → (Nat → Int) → Prop
  | nil {env env' : Nat → Int} : SigEq p env env' → GlitchFree p env [] env'
  | rdv {env env' : Nat → Int} {self x : Nat} {v : Int} {rest : List Ev} :
      scratch p env (fuelFor p) x = v → GlitchFree p env rest env' →
      GlitchFree p env (.rdv self x v :: rest) env'
  | set {env env1 env' : Nat → Int} {id : Nat} {rest : List Ev} :
      (∀ i v, p[i]? = some (.sig v) → i ≠ id → env i = env1 i) → GlitchFree p env1 rest env' →
      GlitchFree p env (.set id :: rest) env'
  | skip {env env' : Nat → Int} {ev : Ev} {rest : List Ev} :
      PlainEv ev → GlitchFree p env rest env' → GlitchFree p env (ev :: rest) env'

theorem GlitchFree.congr_left {p : Prog} {env0 env env' : Nat → Int} {l : List Ev}
    (h : GlitchFree p env l env') (h0 : SigEq p env0 env) : GlitchFree p env0 l env' := by
  induction h generalizing env0 with
  | nil h => exact .nil (h0.trans h)
  | rdv hv _ ih => exact .rdv (by rw [scratch_env_congr h0]; exact hv) (ih h0)
  | set hs hr _ => exact .set (fun i v hd hne => (h0 i v hd).trans (hs i v hd hne)) hr
  | skip hp _ ih => exact .skip hp (ih h0)

theorem GlitchFree.append {p : Prog} {env env1 env' : Nat → Int} {a b : List Ev}
    (h1 : GlitchFree p env a env1) (h2 : GlitchFree p env1 b env') : GlitchFree p env (a ++ b) env' := by
  induction h1 with
  | nil h => exact h2.congr_left h
  | rdv hv _ ih => exact .rdv hv (ih h2)
  | set hs _ ih => exact .set hs (ih h2)
  | skip hp _ ih => exact .skip hp (ih h2)

theorem GlitchFree.plain {p : Prog} {env env' : Nat → Int} (h : SigEq p env env') :
    ∀ (l : List Ev), (∀ ev ∈ l, PlainEv ev) → GlitchFree p env l env'
  | [], _ => .nil h
  | ev :: l, hl => .skip (hl ev (List.mem_cons_self ..))
      (GlitchFree.plain h l (fun e he => hl e (List.mem_cons_of_mem _ he)))

/-- a piece of log without `set` events: the environment is constant, every read carries the
from-scratch value for it -/
theorem GlitchFree.noset {p : Prog} {env env' : Nat → Int} {l : List Ev} (h : GlitchFree p env l env')
    (hn : ∀ i, Ev.set i ∉ l) :
    SigEq p env env' ∧ ∀ self x v, Ev.rdv self x v ∈ l → v = scratch p env (fuelFor p) x := by
  induction h with
  | nil h => exact ⟨h, fun _ _ _ hm => by cases hm⟩
  | rdv hv _ ih =>
    have ih' := ih (fun i hi => hn i (List.mem_cons_of_mem _ hi))
    refine ⟨ih'.1, fun self x v hm => ?_⟩
    rcases List.mem_cons.1 hm with hm | hm
    · cases hm; exact hv.symm
    · exact ih'.2 self x v hm
  | set _ _ _ => exact absurd (List.mem_cons_self ..) (hn _)
  | skip hp _ ih =>
    have ih' := ih (fun i hi => hn i (List.mem_cons_of_mem _ hi))
    refine ⟨ih'.1, fun self x v hm => ?_⟩
    rcases List.mem_cons.1 hm with hm | hm
    · exact absurd hm.symm (hp.1 self x v)
    · exact ih'.2 self x v hm

/-- the log written between `s` and `s'` is glitch-free, from the signal values of `s` to those of `s'` -/
def StateGF (p : Prog) (s s' : State) : Prop :=
  ∃ suf, s'.log = s.log ++ suf ∧ GlitchFree p (envOf s) suf (envOf s')

theorem StateGF.refl (p : Prog) (s : State) : StateGF p s s :=
  ⟨[], by simp, .nil (SigEq.refl _ _)⟩

theorem StateGF.trans {p : Prog} {s s' s'' : State} (h1 : StateGF p s s') (h2 : StateGF p s' s'') :
    StateGF p s s'' := by
  obtain ⟨a, ha, ga⟩ := h1
  obtain ⟨b, hb, gb⟩ := h2
  exact ⟨a ++ b, by rw [hb, ha, List.append_assoc], ga.append gb⟩

theorem StateGF.of_plain {p : Prog} {s s' : State} (hl : LogExt PlainEv s s')
    (he : SigEq p (envOf s) (envOf s')) : StateGF p s s' := by
  obtain ⟨a, ha, ga⟩ := hl
  exact ⟨a, ha, GlitchFree.plain he a ga⟩

theorem StateGF.of_eq {p : Prog} {s s' : State} (hl : s'.log = s.log)
    (he : SigEq p (envOf s) (envOf s')) : StateGF p s s' :=
  StateGF.of_plain (LogExt.of_eq hl) he

/-- a tracked read of a clean data node logs its from-scratch value -/
theorem StateGF.rdv {p : Prog} {s : State} (h : InvR p s) (hwf : WF p = true) (htr : MemoTracked p)
    {x : Nat} (hx : x < p.length) (hk : (s.get x).kind ≠ .eff) (hst : (s.get x).st = .clean)
    {v : Int} (hv : (s.get x).val = some v) (self : Nat) : StateGF p s (s.emit (.rdv self x v)) := by
  refine ⟨[.rdv self x v], rfl, .rdv ?_ (.nil (SigEq.refl _ _))⟩
  have := h.clean_correct hwf htr x hx hk hst
  rw [hv] at this
  exact (Option.some.inj this).symm

theorem Frame.sigEq {p : Prog} {s s' : State} {k : Nat} (h : InvR p s) (fr : Frame s s' k) :
    SigEq p (envOf s) (envOf s') := by
  apply SigEq.of_val
  intro i v hd
  have hi : i < p.length := by
    rcases Nat.lt_or_ge i p.length with h' | h'
    · exact h'
    · rw [List.getElem?_eq_none h'] at hd; cases hd
  have hk := h.kind i _ hd
  exact (fr.clean i (h.sigOk i hi hk).1).2

theorem MarkRel.sigEq {p : Prog} {s s' : State} (h : MarkRel s s') : SigEq p (envOf s) (envOf s') :=
  SigEq.of_val (fun i _ _ => h.val i)

/-! ## at most one run per change, at the level of the log

Between two consecutive `ran w` events of the log, `w` made a tracked read `rdv w x v` (during the
first of the two runs) and AFTER that read `x` changed (`set x` for a signal, `changed x` for a memo). -/

/-- `x` is not an effect of `p` -/
def notEffP (p : Prog) (x : Nat) : Prop := ∀ b, p[x]? ≠ some (.eff b)

theorem InvR.notEffP {p : Prog} {s : State} (h : InvR p s) {x : Nat} (hk : (s.get x).kind ≠ .eff) :
    notEffP p x := by
  intro b hd
  exact hk (h.kind x _ hd)

def HasChg (x : Nat) (l : List Ev) : Prop := Ev.set x ∈ l ∨ Ev.changed x ∈ l

theorem HasChg.append_right {x : Nat} {l : List Ev} (h : HasChg x l) (l' : List Ev) : HasChg x (l ++ l') := by
  rcases h with h | h
  · exact .inl (List.mem_append_left _ h)
  · exact .inr (List.mem_append_left _ h)

theorem HasChg.append_left {x : Nat} {l : List Ev} (h : HasChg x l) (l' : List Ev) : HasChg x (l' ++ l) := by
  rcases h with h | h
  · exact .inl (List.mem_append_right _ h)
  · exact .inr (List.mem_append_right _ h)

/-- the last run of `w` in `pre` made a tracked read of some `x` which changed afterwards -/
def RunJust (pre : List Ev) (w : Nat) : Prop :=
  ∃ l1 m1 m2 x v, pre = l1 ++ Ev.ran w :: (m1 ++ Ev.rdv w x v :: m2) ∧ Ev.ran w ∉ m1 ∧ Ev.ran w ∉ m2 ∧
    HasChg x m2

/-- every `ran w` of `suf` that is not the first run of `w` in `pre ++ suf` is justified by the log before it -/
def SepFrom : List Ev → List Ev → Prop
  | _, [] => True
  | pre, ev :: rest => (∀ w, ev = Ev.ran w → Ev.ran w ∈ pre → RunJust pre w) ∧ SepFrom (pre ++ [ev]) rest

theorem SepFrom.append {pre : List Ev} : ∀ {a b : List Ev},
    SepFrom pre (a ++ b) ↔ SepFrom pre a ∧ SepFrom (pre ++ a) b := by
  intro a
  induction a generalizing pre with
  | nil => intro b; simp [SepFrom]
  | cons ev a ih =>
    intro b
    simp only [List.cons_append, SepFrom]
    rw [ih]
    simp [and_assoc]

theorem SepFrom.of_noRan {suf : List Ev} (h : ∀ w, Ev.ran w ∉ suf) : ∀ pre, SepFrom pre suf := by
  induction suf with
  | nil => intro _; trivial
  | cons ev suf ih =>
    intro pre
    refine ⟨fun w hw _ => absurd (by rw [hw]; exact List.mem_cons_self) (h w), ih (fun w hw => h w (List.mem_cons_of_mem _ hw)) _⟩

theorem SepFrom.split {pre suf a b : List Ev} {w : Nat} (h : SepFrom pre suf) (hs : suf = a ++ Ev.ran w :: b)
    (hm : Ev.ran w ∈ pre ++ a) : RunJust (pre ++ a) w := by
  subst hs
  have := (SepFrom.append.1 h).2
  exact this.1 w rfl hm

theorem mem_split_last {α : Type} [DecidableEq α] {a : α} : ∀ {l : List α}, a ∈ l →
    ∃ l1 l2, l = l1 ++ a :: l2 ∧ a ∉ l2 := by
  intro l
  induction l with
  | nil => intro h; cases h
  | cons b l ih =>
    intro h
    by_cases hl : a ∈ l
    · obtain ⟨l1, l2, he, hn⟩ := ih hl
      exact ⟨b :: l1, l2, by rw [he]; rfl, hn⟩
    · rcases List.mem_cons.1 h with rfl | h'
      · exact ⟨[], l, rfl, hl⟩
      · exact absurd h' hl

/-- every recorded read of a node that has run is in the log after the last run of the node, and if its
source has a new version since, the change is in the log after the read -/
def SeenLog (p : Prog) (s : State) : Prop :=
  ∀ w x v vx, (x, v, vx) ∈ (s.get w).seen → notEffP p x → Ev.ran w ∈ s.log →
    ∃ l1 m1 m2, s.log = l1 ++ Ev.ran w :: (m1 ++ Ev.rdv w x v :: m2) ∧ Ev.ran w ∉ m1 ∧ Ev.ran w ∉ m2 ∧
      ((s.get x).ver ≠ vx → HasChg x m2)

structure CInv (p : Prog) (s : State) : Prop where
  seen : SeenLog p s
  runs : ∀ w, Ev.ran w ∈ s.log → (s.get w).runs ≠ 0

structure ChgRelS (p : Prog) (s s' : State) (suf : List Ev) : Prop where
  log : s'.log = s.log ++ suf
  entry : ∀ w x v vx, (x, v, vx) ∈ (s'.get w).seen → notEffP p x →
      ((x, v, vx) ∈ (s.get w).seen ∧ Ev.ran w ∉ suf ∧
        ((s'.get x).ver ≠ vx → (s.get x).ver ≠ vx ∨ HasChg x suf))
    ∨ (∃ m1 m2, suf = m1 ++ Ev.rdv w x v :: m2 ∧ Ev.ran w ∉ m2 ∧ ((s'.get x).ver ≠ vx → HasChg x m2))
  sep : SepFrom s.log suf
  runsNew : ∀ w, Ev.ran w ∈ suf → (s'.get w).runs ≠ 0
  runsMono : ∀ w, (s.get w).runs ≠ 0 → (s'.get w).runs ≠ 0

def ChgRel (p : Prog) (s s' : State) : Prop := ∃ suf, ChgRelS p s s' suf

theorem ChgRel.refl (p : Prog) (s : State) : ChgRel p s s :=
  ⟨[], by simp, fun _ _ _ _ he _ => .inl ⟨he, (by simp), fun h => .inl h⟩, trivial,
    fun _ h => (by cases h), fun _ h => h⟩

theorem ChgRel.trans {p : Prog} {s s' s'' : State} (h1 : ChgRel p s s') (h2 : ChgRel p s' s'') :
    ChgRel p s s'' := by
  obtain ⟨a, h1⟩ := h1
  obtain ⟨b, h2⟩ := h2
  refine ⟨a ++ b, by rw [h2.log, h1.log, List.append_assoc], ?_, ?_, ?_, fun w h => h2.runsMono w (h1.runsMono w h)⟩
  · intro w x v vx he hx
    rcases h2.entry w x v vx he hx with ⟨he', hn2, hv2⟩ | ⟨m1, m2, hs, hn, hv⟩
    · rcases h1.entry w x v vx he' hx with ⟨he0, hn1, hv1⟩ | ⟨m1, m2, hs, hn, hv⟩
      · refine .inl ⟨he0, fun hc => ?_, fun hne => ?_⟩
        · rcases List.mem_append.1 hc with hc | hc
          · exact hn1 hc
          · exact hn2 hc
        · rcases hv2 hne with h' | h'
          · rcases hv1 h' with h'' | h''
            · exact .inl h''
            · exact .inr (h''.append_right _)
          · exact .inr (h'.append_left _)
      · refine .inr ⟨m1, m2 ++ b, by rw [hs]; simp, fun hc => ?_, fun hne => ?_⟩
        · rcases List.mem_append.1 hc with hc | hc
          · exact hn hc
          · exact hn2 hc
        · rcases hv2 hne with h' | h'
          · exact (hv h').append_right _
          · exact h'.append_left _
    · exact .inr ⟨a ++ m1, m2, by rw [hs]; simp, hn, hv⟩
  · rw [SepFrom.append]
    exact ⟨h1.sep, by rw [← h1.log]; exact h2.sep⟩
  · intro w hw
    rcases List.mem_append.1 hw with hw | hw
    · exact h2.runsMono w (h1.runsNew w hw)
    · exact h2.runsNew w hw

theorem CInv.step {p : Prog} {s s' : State} (h : CInv p s) (r : ChgRel p s s') : CInv p s' := by
  obtain ⟨suf, r⟩ := r
  constructor
  · intro w x v vx he hx hran
    rcases r.entry w x v vx he hx with ⟨he0, hn, hv⟩ | ⟨m1, m2, hs, hn, hv⟩
    · have hran0 : Ev.ran w ∈ s.log := by
        rw [r.log] at hran
        rcases List.mem_append.1 hran with h' | h'
        · exact h'
        · exact absurd h' hn
      obtain ⟨l1, m1, m2, hl, n1, n2, hc⟩ := h.seen w x v vx he0 hx hran0
      refine ⟨l1, m1, m2 ++ suf, by rw [r.log, hl]; simp, n1, fun hc' => ?_, fun hne => ?_⟩
      · rcases List.mem_append.1 hc' with h' | h'
        · exact n2 h'
        · exact hn h'
      · rcases hv hne with h' | h'
        · exact (hc h').append_right _
        · exact h'.append_left _
    · have hran0 : Ev.ran w ∈ s.log ++ m1 := by
        rw [r.log, hs, ← List.append_assoc] at hran
        rcases List.mem_append.1 hran with h' | h'
        · exact h'
        · rcases List.mem_cons.1 h' with h'' | h''
          · cases h''
          · exact absurd h'' hn
      obtain ⟨l1, l2, hl, hn2⟩ := mem_split_last hran0
      refine ⟨l1, l2, m2, by rw [r.log, hs, ← List.append_assoc, hl]; simp, hn2, hn, hv⟩
  · intro w hw
    rw [r.log] at hw
    rcases List.mem_append.1 hw with hw | hw
    · exact r.runsMono w (h.runs w hw)
    · exact r.runsNew w hw

/-- a step that logs no `ran`, keeps every `seen`, and logs a change event for every new version of a
data node -/
theorem ChgRel.of_noRan {p : Prog} {s s' : State} {suf : List Ev} (hl : s'.log = s.log ++ suf)
    (hnr : ∀ w, Ev.ran w ∉ suf) (hseen : ∀ w, (s'.get w).seen = (s.get w).seen)
    (hver : ∀ x, notEffP p x → (s'.get x).ver ≠ (s.get x).ver → HasChg x suf)
    (hruns : ∀ w, (s.get w).runs ≠ 0 → (s'.get w).runs ≠ 0) : ChgRel p s s' := by
  refine ⟨suf, hl, fun w x v vx he hx => .inl ⟨by rw [← hseen]; exact he, hnr w, fun hne => ?_⟩,
    SepFrom.of_noRan hnr _, fun w hw => absurd hw (hnr w), hruns⟩
  by_cases hv : (s'.get x).ver = (s.get x).ver
  · exact .inl (by rw [← hv]; exact hne)
  · exact .inr (hver x hx hv)

/-- nothing relevant changes -/
theorem ChgRel.of_same {p : Prog} {s s' : State} (hl : s'.log = s.log)
    (hseen : ∀ w, (s'.get w).seen = (s.get w).seen) (hver : ∀ x, (s'.get x).ver = (s.get x).ver)
    (hruns : ∀ w, (s'.get w).runs = (s.get w).runs) : ChgRel p s s' :=
  ChgRel.of_noRan (suf := []) (by simp [hl]) (fun _ h => by cases h) hseen
    (fun x _ hne => absurd (hver x) hne) (fun w h => by rw [hruns]; exact h)

/-- the running node `w` records a tracked read -/
theorem ChgRel.of_rdv {p : Prog} {s s' : State} {w x : Nat} {v : Int}
    (hl : s'.log = s.log ++ [Ev.rdv w x v])
    (hsw : (s'.get w).seen = (s.get w).seen ++ [(x, v, (s.get x).ver)])
    (hso : ∀ i, i ≠ w → (s'.get i).seen = (s.get i).seen)
    (hver : ∀ i, (s'.get i).ver = (s.get i).ver)
    (hruns : ∀ i, (s'.get i).runs = (s.get i).runs) : ChgRel p s s' := by
  have hnr : ∀ i, Ev.ran i ∉ [Ev.rdv w x v] := fun i h => by simp at h
  refine ⟨_, hl, fun i y u vy he hy => ?_, SepFrom.of_noRan hnr _, fun i hi => absurd hi (hnr i),
    fun i h => by rw [hruns]; exact h⟩
  by_cases hi : i = w
  · subst hi
    rw [hsw] at he
    rcases List.mem_append.1 he with he | he
    · exact .inl ⟨he, hnr i, fun hne => .inl (by rw [← hver]; exact hne)⟩
    · have := List.mem_singleton.1 he
      cases this
      exact .inr ⟨[], [], rfl, (by simp), fun hne => absurd (hver _) hne⟩
  · exact .inl ⟨by rw [← hso i hi]; exact he, hnr i, fun hne => .inl (by rw [← hver]; exact hne)⟩

/-- node `m` starts a run (`noteRun`): justified by a recorded read whose source has a new version -/
theorem ChgRel.of_ran {p : Prog} {s s' : State} {m : Nat} {pre : List Ev} (hc : CInv p s)
    (hl : s'.log = s.log ++ (pre ++ [Ev.ran m])) (hpre : ∀ ev ∈ pre, ev = Ev.unjust m)
    (hsm : (s'.get m).seen = []) (hso : ∀ i, i ≠ m → (s'.get i).seen = (s.get i).seen)
    (hver : ∀ i, (s'.get i).ver = (s.get i).ver) (hrm : (s'.get m).runs ≠ 0)
    (hro : ∀ i, i ≠ m → (s'.get i).runs = (s.get i).runs)
    (hj : (s.get m).runs ≠ 0 → ∃ e ∈ (s.get m).seen, notEffP p e.1 ∧ (s.get e.1).ver ≠ e.2.2) :
    ChgRel p s s' := by
  have hnp : ∀ w, Ev.ran w ∉ pre := fun w hw => by have := hpre _ hw; cases this
  have hmem : ∀ w, Ev.ran w ∈ pre ++ [Ev.ran m] → w = m := by
    intro w hw
    rcases List.mem_append.1 hw with hw | hw
    · exact absurd hw (hnp w)
    · have := List.mem_singleton.1 hw; cases this; rfl
  refine ⟨_, hl, fun i y u vy he hy => ?_, ?_, fun w hw => by rw [hmem w hw]; exact hrm, fun w h => ?_⟩
  · by_cases hi : i = m
    · subst hi; rw [hsm] at he; cases he
    · exact .inl ⟨by rw [← hso i hi]; exact he, fun hc' => hi (hmem i hc'),
        fun hne => .inl (by rw [← hver]; exact hne)⟩
  · rw [SepFrom.append]
    refine ⟨SepFrom.of_noRan hnp _, fun w hw hin => ?_, trivial⟩
    cases hw
    have hin0 : Ev.ran m ∈ s.log := by
      rcases List.mem_append.1 hin with h' | h'
      · exact h'
      · exact absurd h' (hnp m)
    obtain ⟨e, he, hne, hv⟩ := hj (hc.runs m hin0)
    obtain ⟨x, v, vx⟩ := e
    obtain ⟨l1, m1, m2, hlog, n1, n2, hch⟩ := hc.seen m x v vx he hne hin0
    refine ⟨l1, m1, m2 ++ pre, x, v, by rw [hlog]; simp, n1, fun hc' => ?_, (hch hv).append_right _⟩
    rcases List.mem_append.1 hc' with h' | h'
    · exact n2 h'
    · exact hnp m h'
  · by_cases hw : w = m
    · subst hw; exact hrm
    · rw [hro w hw]; exact h

end Leptos.Reactive
