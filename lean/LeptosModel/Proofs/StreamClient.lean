import LeptosModel.Proofs.StreamSeg
/-! Proofs/StreamClient — the inline scripts (`applyScripts`) on a stream of items act as hole substitution. -/
namespace Leptos.Stream

/-- replace the (first) hole with id `I` by the segments `c` -/
def substHole (I : List Nat) (c : List Seg) : List Seg → List Seg
  | [] => []
  | .lit s :: gs => .lit s :: substHole I c gs
  | .hole J fb :: gs => if J = I then c ++ gs else .hole J fb :: substHole I c gs

/-- the document after the client has processed the items -/
def clientS (dom : List Seg) : List Item → List Seg
  | [] => dom
  | .seg g :: r => clientS (dom ++ [g]) r
  | .tpl t :: r => clientS (substHole t.I t.content dom) r

def countTpl : List Item → Nat
  | [] => 0
  | .seg _ :: r => countTpl r
  | .tpl _ :: r => countTpl r + 1

theorem substHole_notin {I : List Nat} {c : List Seg} : ∀ {d : List Seg}, I ∉ holeIds d → substHole I c d = d
  | [], _ => rfl
  | .lit s :: gs, h => by simp [substHole, substHole_notin (d := gs) (by simpa [holeIds] using h)]
  | .hole J fb :: gs, h => by
    simp only [holeIds, List.mem_cons, not_or] at h
    simp [substHole, Ne.symm h.1, substHole_notin (d := gs) h.2]

theorem substHole_split {I : List Nat} {c : List Seg} : ∀ {d : List Seg}, I ∈ holeIds d →
    ∃ X fb Z, d = X ++ Seg.hole I fb :: Z ∧ I ∉ holeIds X ∧ substHole I c d = X ++ c ++ Z
  | [], h => by simp [holeIds] at h
  | .lit s :: gs, h => by
    obtain ⟨X, fb, Z, h1, h2, h3⟩ := substHole_split (c := c) (d := gs) (by simpa [holeIds] using h)
    exact ⟨.lit s :: X, fb, Z, by simp [h1], by simpa [holeIds] using h2, by simp [substHole, h3]⟩
  | .hole J fb :: gs, h => by
    by_cases hJ : J = I
    · subst hJ
      exact ⟨[], fb, gs, rfl, by simp [holeIds], by simp [substHole]⟩
    · have : I ∈ holeIds gs := by
        simp only [holeIds, List.mem_cons] at h
        rcases h with h | h
        · exact absurd h.symm hJ
        · exact h
      obtain ⟨X, fb', Z, h1, h2, h3⟩ := substHole_split (c := c) (d := gs) this
      exact ⟨.hole J fb :: X, fb', Z, by simp [h1], by simp [holeIds, h2, Ne.symm hJ], by simp [substHole, hJ, h3]⟩

/-! ### one template block -/

def tplKey (I : List Nat) : Str := piecesStr I ++ ['f']

theorem tplKey_inj {I J : List Nat} (h : tplKey I = tplKey J) : I = J := by
  unfold tplKey at h
  have := List.append_cancel_right h
  exact pieces_inj this

def tplTable (done : List Tpl) : List (Str × Str) := done.map fun t => (tplKey t.I, segsStr t.content)

theorem lookup_tplTable {I : List Nat} : ∀ {done : List Tpl}, I ∉ done.map (·.I) → ∀ (v : Str),
    lookupTpl (tplKey I) (tplTable done ++ [(tplKey I, v)]) = some v
  | [], _, v => by simp [tplTable, lookupTpl]
  | t :: done, h, v => by
    simp only [List.map_cons, List.mem_cons, not_or] at h
    have hne : (tplKey t.I == tplKey I) = false := by
      simp only [beq_eq_false_iff_ne, ne_eq]
      intro he; exact h.1 (tplKey_inj he).symm
    simp only [tplTable, List.map_cons, List.cons_append, lookupTpl, hne]
    exact lookup_tplTable (done := done) h.2 v

set_option maxRecDepth 100000 in
theorem scriptPost_head : scriptPost = ['"'] ++ scriptPost.tail := by decide

set_option maxRecDepth 100000 in
theorem scriptPost_replace : ∃ a b, scriptPost = a ++ "range.deleteContents()".toList ++ b :=
  ⟨scriptHead, (scriptReplace.drop 22) ++ "})()".toList, by decide⟩

theorem scriptId_body {m : Str} (hm : IdChars m) : scriptId (scriptBody m) = some m := by
  unfold scriptId scriptBody
  have e : scriptPre = "<script>(function() { ".toList ++ "let id = \"".toList := by decide
  have h1 : splitFirst "let id = \"".toList ("<script>(function() { ".toList ++ "let id = \"".toList ++ (m ++ scriptPost))
      = some ("<script>(function() { ".toList, m ++ scriptPost) :=
    splitFirst_head_notin (p0 := 'l') (P' := "et id = \"".toList) (by decide) (by decide)
  have h2 : splitFirst "\"".toList (m ++ "\"".toList ++ scriptPost.tail) = some (m, scriptPost.tail) :=
    splitFirst_head_notin (p0 := '"') (P' := []) (by decide) (hm.not_mem (by decide) (by decide))
  have e2 : m ++ scriptPost = m ++ "\"".toList ++ scriptPost.tail := by
    conv => lhs; rw [scriptPost_head]
    have : "\"".toList = ['"'] := by decide
    rw [this]; simp only [List.append_assoc]
  rw [e]
  simp only [List.append_assoc] at h1 ⊢
  rw [h1]
  simp only []
  rw [e2, h2]
  rfl

theorem contains_delete_body (m : Str) : contains "range.deleteContents()".toList (scriptBody m) = true := by
  obtain ⟨a, b, hab⟩ := scriptPost_replace
  exact contains_of_occ (a := scriptPre ++ m ++ a) (b := b) (by unfold scriptBody; rw [hab]; simp)

theorem free_scriptClose_body {m : Str} (hm : IdChars m) : Free scriptClose (scriptBody m) := by
  have e : scriptBody m = '<' :: ("script>(function() { let id = \"".toList ++ m ++ scriptPost) := by
    unfold scriptBody scriptPre
    have : "<script>(function() { let id = \"".toList = '<' :: "script>(function() { let id = \"".toList := by decide
    rw [this]; simp only [List.cons_append, List.append_assoc]
  refine free_single (r := "/script>".toList) e ?_ (by decide) ?_
  · simp only [List.mem_append, not_or]
    exact ⟨⟨scriptPre_tail_noLt, hm.lt⟩, scriptPost_noLt⟩
  · intro b he
    rw [e] at he
    have : scriptClose = '<' :: '/' :: "script>".toList := by decide
    rw [this] at he
    simp at he

/-- what the inline script of one block does to a document that is a segment text -/
theorem applyOne_segs {I : List Nat} {c d : List Seg} (hd : ∀ g ∈ d, g.ok) (hn : (holeIds d).Nodup) :
    applyOne (segsStr d) (piecesStr I) true (some (segsStr c)) = segsStr (substHole I c d) := by
  by_cases hI : I ∈ holeIds d
  · obtain ⟨X, fb, Z, h1, h2, h3⟩ := substHole_split (c := c) hI
    have hnZ : I ∉ holeIds Z := by
      rw [h1, holeIds_append] at hn
      simp only [holeIds] at hn
      have := (List.nodup_append.1 hn).2.1
      exact (List.nodup_cons.1 this).1
    have hX : ∀ g ∈ X, g.ok := fun g hg => hd g (by rw [h1]; simp [hg])
    have hZ : ∀ g ∈ Z, g.ok := fun g hg => hd g (by rw [h1]; simp [hg])
    have hfb : Clean fb := hd (Seg.hole I fb) (by rw [h1]; simp)
    have := findLast_hole_segs hX hZ hfb h2 hnZ
    rw [h3, h1]
    unfold applyOne
    rw [this.1, this.2]
    have hlen : ¬ (segsStr X ++ opening (piecesStr I) ++ fb).length < (segsStr X).length := by
      simp only [List.length_append]; omega
    simp only [if_true, hlen, if_false, segsStr_append]
  · have hf := free_opening_segs hd hI
    unfold applyOne
    rw [splitLast_none hf.1, substHole_notin hI]

theorem applyScriptsAux_succ (fuel : Nat) (dom : Str) (tpls : List (Str × Str)) (input : Str) :
    applyScriptsAux (fuel + 1) dom tpls input =
      match splitFirst tplOpen input with
      | none => dom ++ input
      | some (pre, rest) =>
        match splitFirst "\">".toList rest with
        | none => dom ++ input
        | some (tid, rest2) =>
          match splitFirst tplClose rest2 with
          | none => dom ++ input
          | some (content, rest3) =>
            match splitFirst scriptClose rest3 with
            | none => dom ++ input
            | some (script, rest4) =>
              match scriptId script with
              | none => applyScriptsAux fuel (dom ++ pre) (tpls ++ [(tid, content)]) rest4
              | some id =>
                applyScriptsAux fuel (applyOne (dom ++ pre) id (contains "range.deleteContents()".toList script)
                  (lookupTpl (id ++ ['f']) (tpls ++ [(tid, content)]))) (tpls ++ [(tid, content)]) rest4 := by
  rfl

/-- one `<template>` block after a text prefix -/
theorem applyScriptsAux_block (fuel : Nat) (dom : Str) (done : List Tpl) (pre : List Seg) (t : Tpl) (rest : Str)
    (hpre : ∀ g ∈ pre, g.ok) (ht : ∀ g ∈ t.content, g.ok) (hnew : t.I ∉ done.map (·.I)) :
    applyScriptsAux (fuel + 1) dom (tplTable done) (segsStr pre ++ t.str ++ rest) =
      applyScriptsAux fuel (applyOne (dom ++ segsStr pre) (piecesStr t.I) true (some (segsStr t.content)))
        (tplTable (done ++ [t])) rest := by
  have hm := idChars_pieces t.I
  have e0 : segsStr pre ++ t.str ++ rest = segsStr pre ++ tplOpen ++
      (tplKey t.I ++ "\">".toList ++ (segsStr t.content ++ tplClose ++ (scriptBody (piecesStr t.I) ++ scriptClose ++ rest))) := by
    unfold Tpl.str tplKey
    rw [pushStart_eq, pushEnd_true]
    have : "f\">".toList = ['f'] ++ "\">".toList := by decide
    rw [this]; simp only [List.append_assoc]
  have s1 := splitFirst_after (y := tplKey t.I ++ "\">".toList ++ (segsStr t.content ++ tplClose ++
      (scriptBody (piecesStr t.I) ++ scriptClose ++ rest))) ltPat_tplOpen (segs_closed hpre) (free_tplOpen_segs hpre)
  have s2 : splitFirst "\">".toList (tplKey t.I ++ "\">".toList ++ (segsStr t.content ++ tplClose ++
      (scriptBody (piecesStr t.I) ++ scriptClose ++ rest))) = some (tplKey t.I, _) :=
    splitFirst_head_notin (p0 := '"') (P' := ['>']) (by decide) (by
      unfold tplKey
      simp only [List.mem_append, List.mem_singleton, not_or]
      exact ⟨hm.not_mem (by decide) (by decide), by decide⟩)
  have s3 := splitFirst_after (y := scriptBody (piecesStr t.I) ++ scriptClose ++ rest) ltPat_tplClose (segs_closed ht)
    (free_tplClose_segs ht)
  have s4 := splitFirst_after (y := rest) ltPat_scriptClose (tagClosed_scriptBody hm) (free_scriptClose_body hm)
  rw [e0, applyScriptsAux_succ]
  simp only [s1, s2, s3, s4, scriptId_body hm, contains_delete_body]
  have hl : lookupTpl (piecesStr t.I ++ ['f']) (tplTable done ++ [(tplKey t.I, segsStr t.content)])
      = some (segsStr t.content) := lookup_tplTable hnew _
  rw [hl]
  simp [tplTable]

theorem applyScriptsAux_text (fuel : Nat) (dom : Str) (tpls : List (Str × Str)) (x : Str) (hx : Free tplOpen x) :
    applyScriptsAux fuel dom tpls x = dom ++ x := by
  cases fuel with
  | zero => rfl
  | succ n =>
    rw [applyScriptsAux_succ, splitFirst_none.2 hx]


/-! ### the whole stream -/

theorem substHole_ok {I : List Nat} {c : List Seg} (hc : ∀ g ∈ c, g.ok) : ∀ {d : List Seg}, (∀ g ∈ d, g.ok) →
    ∀ g ∈ substHole I c d, g.ok
  | [], _ => by simp [substHole]
  | .lit s :: gs, h => by
    intro g hg
    simp only [substHole, List.mem_cons] at hg
    rcases hg with hg | hg
    · subst hg; exact h _ (by simp)
    · exact substHole_ok hc (d := gs) (fun g hg => h g (by simp [hg])) g hg
  | .hole J fb :: gs, h => by
    intro g hg
    simp only [substHole] at hg
    split at hg
    · rcases List.mem_append.1 hg with hg | hg
      · exact hc g hg
      · exact h g (by simp [hg])
    · simp only [List.mem_cons] at hg
      rcases hg with hg | hg
      · subst hg; exact h _ (by simp)
      · exact substHole_ok hc (d := gs) (fun g hg => h g (by simp [hg])) g hg

/-- substituting a hole keeps the hole ids duplicate-free when the new holes are fresh -/
theorem nodup_subst {I : List Nat} {c d : List Seg} {R : List (List Nat)}
    (h : (holeIds d ++ (holeIds c ++ R)).Nodup) : (holeIds (substHole I c d) ++ R).Nodup := by
  by_cases hI : I ∈ holeIds d
  · obtain ⟨X, fb, Z, h1, _, h3⟩ := substHole_split (c := c) hI
    rw [h3]
    rw [h1] at h
    simp only [holeIds_append, holeIds, List.append_assoc] at h ⊢
    -- h : (X ++ I :: (Z ++ (c ++ R))).Nodup ; goal (X ++ (c ++ (Z ++ R))).Nodup
    have h' : (holeIds X ++ (holeIds Z ++ (holeIds c ++ R))).Nodup := by
      refine List.Nodup.sublist ?_ h
      exact List.Sublist.append (List.Sublist.refl _) (List.sublist_cons_self _ _)
    refine (List.Perm.nodup_iff ?_).1 h'
    refine List.Perm.append_left _ ?_
    rw [← List.append_assoc, ← List.append_assoc]
    exact List.Perm.append_right _ List.perm_append_comm
  · rw [substHole_notin hI]
    refine List.Nodup.sublist ?_ h
    exact List.Sublist.append (List.Sublist.refl _) (List.sublist_append_right _ _)

theorem free_tplOpen_segs' {gs : List Seg} (h : ∀ g ∈ gs, g.ok) : Free tplOpen (segsStr gs) := free_tplOpen_segs h

/-- **the client on a stream of items**: the scripts substitute template contents for holes -/
theorem applyScriptsAux_items : ∀ (items : List Item) (fuel : Nat) (dom acc : List Seg) (done : List Tpl),
    (∀ i ∈ items, i.ok) → (∀ g ∈ dom, g.ok) → (∀ g ∈ acc, g.ok) →
    (holeIds (dom ++ acc) ++ allIds items).Nodup →
    (done.map (·.I) ++ tplIds items).Nodup →
    countTpl items ≤ fuel →
    applyScriptsAux fuel (segsStr dom) (tplTable done) (segsStr acc ++ itemsStr items)
      = segsStr (clientS (dom ++ acc) items) := by
  intro items
  induction items with
  | nil =>
    intro fuel dom acc done _ _ hacc _ _ _
    simp only [itemsStr, List.append_nil, clientS]
    rw [applyScriptsAux_text _ _ _ _ (free_tplOpen_segs hacc), segsStr_append]
  | cons i items ih =>
    intro fuel dom acc done hi hdom hacc hnd htd hcount
    have hrest : ∀ j ∈ items, j.ok := fun j hj => hi j (by simp [hj])
    cases i with
    | seg g =>
      have hg : g.ok := hi (Item.seg g) (by simp)
      have := ih fuel dom (acc ++ [g]) done hrest hdom
        (by intro g' hg'; rcases List.mem_append.1 hg' with h | h
            · exact hacc g' h
            · simp at h; subst h; exact hg)
        (by
          cases g with
          | lit s => simpa [allIds, holeIds_append, holeIds] using hnd
          | hole J fb => simpa [allIds, holeIds_append, holeIds] using hnd)
        (by simpa [tplIds] using htd) (by simpa [countTpl] using hcount)
      simp only [itemsStr, Item.str, clientS]
      rw [← List.append_assoc dom acc [g]] at this
      rw [← this, segsStr_append]
      simp [segsStr]
    | tpl t =>
      have ht : ∀ g ∈ t.content, g.ok := hi (Item.tpl t) (by simp)
      cases fuel with
      | zero => simp [countTpl] at hcount
      | succ fuel =>
        have hnew : t.I ∉ done.map (·.I) := by
          simp only [tplIds] at htd
          have := (List.nodup_append.1 htd).2.2
          intro hmem
          exact this _ hmem _ (by simp) rfl
        simp only [itemsStr, Item.str, clientS]
        rw [← List.append_assoc, applyScriptsAux_block fuel _ done acc t _ hacc ht hnew]
        have hdA : ∀ g ∈ dom ++ acc, g.ok := by
          intro g hg; rcases List.mem_append.1 hg with h | h
          · exact hdom g h
          · exact hacc g h
        have hnodup : (holeIds (dom ++ acc)).Nodup := (List.nodup_append.1 hnd).1
        rw [← segsStr_append, applyOne_segs hdA hnodup]
        have := ih fuel (substHole t.I t.content (dom ++ acc)) [] (done ++ [t]) hrest
          (substHole_ok ht hdA) (by simp)
          (by
            simp only [List.append_nil]
            apply nodup_subst
            simpa [allIds] using hnd)
          (by simpa [tplIds] using htd) (by simpa [countTpl] using hcount)
        simpa [segsStr] using this

theorem countTpl_le : ∀ (items : List Item), countTpl items ≤ (itemsStr items).length
  | [] => Nat.le_refl _
  | .seg g :: r => by
    have := countTpl_le r
    simp only [countTpl, itemsStr, List.length_append]; omega
  | .tpl t :: r => by
    have := countTpl_le r
    have : 1 ≤ t.str.length := by
      unfold Tpl.str
      rw [pushStart_eq]
      have : 1 ≤ tplOpen.length := by decide
      simp only [List.length_append]; omega
    simp only [countTpl, itemsStr, Item.str, List.length_append]; omega

/-- **C1** -/
theorem applyScripts_items (items : List Item) (h : ∀ i ∈ items, i.ok) (hn : (allIds items).Nodup)
    (ht : (tplIds items).Nodup) : applyScripts (itemsStr items) = segsStr (clientS [] items) := by
  have := applyScriptsAux_items items (itemsStr items).length [] [] [] h (by simp) (by simp)
    (by simpa [holeIds] using hn) (by simpa using ht) (countTpl_le items)
  simpa [applyScripts, segsStr, tplTable] using this

end Leptos.Stream
