import LeptosModel.Proofs.ViewTyping
/-! # Proofs/ViewSteps — monotonicity of `AllEl`, the nested (element) step -/
namespace Leptos.View
open Leptos.Dom

-- `R`: how the attribute list of an element relates to the fresh render's (`Eq` for the static
-- fragment, lookup-equality `AttrsEq` where removal and re-insertion change the order)
variable {R : List (String × String) → List (String × String) → Prop}

mutual
theorem AllEl.mono {P Q : List AttrVal → Prop} (h : ∀ as, P as → Q as) :
    ∀ (v : View), AllEl P v → AllEl Q v
  | .text _, _ => by simp [AllEl]
  | .unit, _ => by simp [AllEl]
  | .onone, _ => by simp [AllEl]
  | .elem _ as c, hv => by
    simp only [AllEl] at hv ⊢; exact ⟨h as hv.1, AllEl.mono h c hv.2⟩
  | .tuple vs, hv => by simp only [AllEl] at hv ⊢; exact AllElList.mono h vs hv
  | .osome v, hv => by simp only [AllEl] at hv ⊢; exact AllEl.mono h v hv
  | .either _ _ v, hv => by simp only [AllEl] at hv ⊢; exact AllEl.mono h v hv
  | .vec vs, hv => by simp only [AllEl] at hv ⊢; exact AllElList.mono h vs hv
  | .any _ v, hv => by simp only [AllEl] at hv ⊢; exact AllEl.mono h v hv
theorem AllElList.mono {P Q : List AttrVal → Prop} (h : ∀ as, P as → Q as) :
    ∀ (vs : List View), AllElList P vs → AllElList Q vs
  | [], _ => by simp [AllElList]
  | v :: vs, hv => by
    simp only [AllElList] at hv ⊢; exact ⟨AllEl.mono h v hv.1, AllElList.mono h vs hv.2⟩
end

/-- an element whose own record changed (attributes) and whose children took a step -/
theorem Res.nest {d d1 d2 : Dom} {el : Id} {Oc Rc' Oc' : List Id} {p : Id} {pre post : List Id}
    (h : Inv d [el] (el :: Oc) p pre post)
    (hn1 : d1.next = d.next) (hf1 : ∀ y, y ≠ el → d1.get? y = d.get? y)
    (s2 : Res d1 d2 Oc Rc' Oc' el [] []) :
    Res d d2 (el :: Oc) [el] (el :: Oc') p pre post := by
  have hpe : p ≠ el := fun e => h.pnot (by simp [e])
  have hpo : p ∉ Oc := fun hm => h.pnot (by simp [hm])
  have hle := s2.next_le
  have hplt := h.plt
  have hp2 : d2.get? p = d.get? p := by
    rw [s2.frame p (by omega_nat) hpo hpe, hf1 p hpe]
  have hown : ∀ x, x ∈ Oc' → x ∈ Oc ∨ d.next ≤ x := by
    intro x hx; rcases s2.own x hx with ho | ho
    · exact Or.inl ho
    · exact Or.inr (by omega_nat)
  refine ⟨⟨?_, by simp, ?_, by simp, ?_, ?_, ?_, by omega_nat, ?_⟩, by omega_nat, ?_, ?_, ?_⟩
  · obtain ⟨rp, a, b, c⟩ := h.par; exact ⟨rp, by rw [hp2]; exact a, b, c⟩
  · rw [List.nodup_cons]; exact ⟨s2.inv.pnot, s2.inv.nodup⟩
  · intro hm; simp at hm
    rcases hm with hm | hm
    · exact hpe hm
    · rcases hown p hm with ho | ho
      · exact hpo ho
      · omega_nat
  · intro x hx hm; simp at hm
    rcases hm with hm | hm
    · subst hm; exact h.sib x hx (by simp)
    · rcases hown x hm with ho | ho
      · exact h.sib x hx (by simp [ho])
      · have := h.siblt x hx; omega_nat
  · intro x hx; simp at hx
    rcases hx with hx | hx
    · subst hx; have := h.lt x (by simp); omega_nat
    · exact s2.inv.lt x hx
  · intro x hx; have := h.siblt x hx; omega_nat
  · intro x hx hxo hxp
    simp at hxo
    rw [s2.frame x (by omega_nat) hxo.2 hxo.1, hf1 x hxo.1]
  · intro rp hrp; exact ⟨rp, by rw [hp2]; exact hrp, EqModKids.refl _⟩
  · intro x hx; simp at hx ⊢
    rcases hx with hx | hx
    · exact Or.inl (Or.inl hx)
    · rcases hown x hx with ho | ho
      · exact Or.inl (Or.inr ho)
      · exact Or.inr ho

end Leptos.View
