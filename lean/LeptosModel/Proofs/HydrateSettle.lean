import LeptosModel.Model.Hydrate
import LeptosModel.Proofs.DomLemmas
/-! Helper lemmas for C05, part 6: the walk of `hydrate` reads node kinds, child lists and parents
only; `set_text` changes none of them.  Hence the writes of the repaired `hydrate` (`settle`: the
adopted `" "` of an empty string becomes `""`) commute with the walk, which is what lets the model
perform the walk first and the writes afterwards. -/
namespace Leptos.Hydrate
open Leptos.Dom Leptos.View

/-- two DOMs with the same node kinds, child lists and parent pointers -/
structure SameShape (d d' : Dom) : Prop where
  kind : ∀ x, d'.kindOf x = d.kindOf x
  kids : ∀ x, d'.kidsOf x = d.kidsOf x
  par : ∀ x, d'.getParent x = d.getParent x

theorem SameShape.refl (d : Dom) : SameShape d d := ⟨fun _ => rfl, fun _ => rfl, fun _ => rfl⟩

theorem SameShape.trans {a b c : Dom} (h1 : SameShape a b) (h2 : SameShape b c) : SameShape a c :=
  ⟨fun x => (h2.kind x).trans (h1.kind x), fun x => (h2.kids x).trans (h1.kids x),
    fun x => (h2.par x).trans (h1.par x)⟩

theorem isElement_kindOf (d : Dom) (x : Id) :
    d.isElement x = (match d.kindOf x with | some k => k.isElem | none => false) := by
  simp only [Dom.isElement, Dom.kindOf]
  cases d.get? x <;> rfl

theorem SameShape.isElement {d d' : Dom} (h : SameShape d d') (x : Id) : d'.isElement x = d.isElement x := by
  rw [isElement_kindOf, isElement_kindOf, h.kind]

theorem SameShape.firstChild {d d' : Dom} (h : SameShape d d') (x : Id) : d'.firstChild x = d.firstChild x := by
  simp only [Dom.firstChild, h.kids]

theorem SameShape.nextSibling {d d' : Dom} (h : SameShape d d') (x : Id) : d'.nextSibling x = d.nextSibling x := by
  simp only [Dom.nextSibling, h.par, h.kids]

theorem sameShape_modify (d : Dom) (x : Id) (f : NodeRec → NodeRec)
    (hf : ∀ r, (f r).kind = r.kind ∧ (f r).kids = r.kids ∧ (f r).parent = r.parent) :
    SameShape d (d.modify x f) := by
  refine ⟨?_, ?_, ?_⟩ <;> intro y
  · simp only [Dom.kindOf, Dom.get?_modify]
    by_cases h : y = x
    · subst h; cases d.get? y <;> simp [(hf _).1]
    · simp [h]
  · simp only [Dom.kidsOf, Dom.get?_modify]
    by_cases h : y = x
    · subst h; cases d.get? y <;> simp [(hf _).2.1]
    · simp [h]
  · simp only [Dom.getParent, Dom.get?_modify]
    by_cases h : y = x
    · subst h; cases d.get? y <;> simp [(hf _).2.2]
    · simp [h]

theorem sameShape_setText (d : Dom) (x : Id) (s : String) : SameShape d (d.setText x s) := by
  unfold Dom.setText
  split
  · exact sameShape_modify d x _ (fun r => ⟨rfl, rfl, rfl⟩)
  · exact sameShape_modify d x _ (fun r => ⟨rfl, rfl, rfl⟩)
  · exact SameShape.refl d

mutual
theorem settle_sameShape : (st : State) → ∀ (d : Dom), SameShape d (settle st d)
  | .text i s, d => by
    simp only [settle]
    split
    · exact sameShape_setText d i ""
    · exact SameShape.refl d
  | .unit _, d => SameShape.refl d
  | .elem _ _ none, d => SameShape.refl d
  | .elem _ _ (some c), d => by simpa [settle] using settle_sameShape c d
  | .tuple sts, d => by simpa [settle] using settleL_sameShape sts d
  | .either _ st, d => by simpa [settle] using settle_sameShape st d
  | .vec sts _, d => by simpa [settle] using settleL_sameShape sts d
  | .any _ st, d => by simpa [settle] using settle_sameShape st d
theorem settleL_sameShape : (sts : List State) → ∀ (d : Dom), SameShape d (settleL sts d)
  | [], d => SameShape.refl d
  | s :: ss, d => by
    simp only [settleL]
    exact (settle_sameShape s d).trans (settleL_sameShape ss (settle s d))
end

theorem stepIn_congr {d d' : Dom} (h : SameShape d d') (c : Cur) : stepIn d' c = stepIn d c := by
  simp only [stepIn, Cur.child, Cur.sibling, h.firstChild, h.nextSibling]

theorem textTarget_congr {d d' : Dom} (h : SameShape d d') (c : Cur) : textTarget d' c = textTarget d c := by
  simp only [textTarget, stepIn_congr h, h.nextSibling]

theorem elemTarget_congr {d d' : Dom} (h : SameShape d d') (c : Cur) : elemTarget d' c = elemTarget d c := by
  simp only [elemTarget, Cur.child, Cur.sibling, h.firstChild, h.nextSibling]

theorem nextPlaceholder_congr {d d' : Dom} (h : SameShape d d') (c : Cur) :
    nextPlaceholder d' c = nextPlaceholder d c := by
  simp only [nextPlaceholder, stepIn_congr h, h.kind]

mutual
/-- the walk depends on the shape of the DOM only -/
theorem hydrate_congr {d d' : Dom} (h : SameShape d d') : (v : View) → ∀ (c : Cur), hydrate d' v c = hydrate d v c
  | .text s, c => by simp only [hydrate, textTarget_congr h, h.kind]
  | .unit, c => by simp only [hydrate, nextPlaceholder_congr h]
  | .onone, c => by simp only [hydrate, nextPlaceholder_congr h]
  | .osome v, c => by simp only [hydrate, hydrate_congr h v c]
  | .either _ _ v, c => by simp only [hydrate, hydrate_congr h v c]
  | .any _ v, c => by simp only [hydrate, hydrate_congr h v c]
  | .tuple vs, c => by simp only [hydrate, hydrateList_congr h vs c]
  | .vec vs, c => by
    simp only [hydrate, hydrateList_congr h vs c]
    cases hydrateList d vs c with
    | error e => rfl
    | ok o => simp only [nextPlaceholder_congr h]
  | .elem tag as child, c => by
    simp only [hydrate, elemTarget_congr h, h.isElement, hydrate_congr h child]
theorem hydrateList_congr {d d' : Dom} (h : SameShape d d') : (vs : List View) → ∀ (c : Cur),
    hydrateList d' vs c = hydrateList d vs c
  | [], c => by simp only [hydrateList]
  | v :: vs, c => by
    simp only [hydrateList, hydrate_congr h v c]
    cases hydrate d v c with
    | error e => rfl
    | ok o => simp only [hydrateList_congr h vs o.cur]
end

end Leptos.Hydrate
