import LeptosModel.Proofs.ReactiveState2
/-!
# Proofs/ReactivePush — appending a freshly created memo or effect node to a program and its state
-/
namespace Leptos.Reactive

variable {D : Nat → Prop}

/-- append a node -/
def State.push (s : State) (n : Node) : State := { s with nodes := s.nodes ++ [n] }

theorem State.push_get (s : State) (n : Node) (i : Nat) :
    (s.push n).get i = if i = s.nodes.length then n else s.get i := by
  simp only [State.get, State.push]
  by_cases hi : i < s.nodes.length
  · rw [List.getElem?_append_left hi, if_neg (by omega)]
  · by_cases he : i = s.nodes.length
    · subst he; simp
    · rw [if_neg he, List.getElem?_eq_none (by simp; omega), List.getElem?_eq_none (by omega)]

/-- a fresh memo / effect node looks like an absent node except for its kind and effect flags -/
structure FreshNode (n : Node) : Prop where
  kind : n.kind ≠ .sig
  val : n.val = none
  st : n.st = .dirty
  sources : n.sources = []
  subs : n.subs = []
  running : n.running = false
  seen : n.seen = []
  ver : n.ver = 0
  runs : n.runs = 0

theorem freshNode_memo (b : Expr) : FreshNode (initNode (.memo b)) :=
  ⟨by simp [initNode], rfl, rfl, rfl, rfl, rfl, rfl, rfl, rfl⟩
theorem freshNode_eff (b : Expr) : FreshNode (initNode (.eff b)) :=
  ⟨by simp [initNode], rfl, rfl, rfl, rfl, rfl, rfl, rfl, rfl⟩

section
variable {s : State} {n : Node}

theorem push_fields (hn : FreshNode n) (i : Nat) :
    ((s.push n).get i).val = (s.get i).val ∧ ((s.push n).get i).st = (s.get i).st ∧
    ((s.push n).get i).sources = (s.get i).sources ∧ ((s.push n).get i).subs = (s.get i).subs ∧
    ((s.push n).get i).running = (s.get i).running ∧ ((s.push n).get i).seen = (s.get i).seen ∧
    ((s.push n).get i).ver = (s.get i).ver ∧ ((s.push n).get i).runs = (s.get i).runs := by
  rw [State.push_get]
  split
  · next h =>
    rw [State.get_default s (by omega)]
    exact ⟨hn.val, hn.st, hn.sources, hn.subs, hn.running, hn.seen, hn.ver, hn.runs⟩
  · exact ⟨rfl, rfl, rfl, rfl, rfl, rfl, rfl, rfl⟩

theorem push_old (i : Nat) (hi : i ≠ s.nodes.length) : (s.push n).get i = s.get i := by
  rw [State.push_get, if_neg hi]

theorem push_new : (s.push n).get s.nodes.length = n := by
  rw [State.push_get, if_pos rfl]
end

theorem bodyOf_append (p : Prog) (d : NodeDef) (m : Nat) (hm : m < p.length) :
    bodyOf (p ++ [d]) m = bodyOf p m := by
  simp only [bodyOf, List.getElem?_append_left hm]

/-- the data invariant survives the creation of a memo or effect node -/
theorem InvR.push {p : Prog} {s : State} (h : InvR p s) (d : NodeDef) (hd : FreshNode (initNode d))
    (hk : (initNode d).kind = kindOf d) : InvR (p ++ [d]) (s.push (initNode d)) := by
  have F := fun i => push_fields (s := s) hd i
  have hlen := h.len
  -- kinds of old nodes
  have kold : ∀ i, i ≠ s.nodes.length → ((s.push (initNode d)).get i).kind = (s.get i).kind :=
    fun i hi => by rw [push_old i hi]
  have knew : ((s.push (initNode d)).get s.nodes.length).kind = kindOf d := by rw [push_new]; exact hk
  -- a node of non-default kind / with edges is an old node
  have old_of_kind : ∀ i k, (s.get i).kind = k → k ≠ .sig → i ≠ s.nodes.length := by
    intro i k hk' hne hc
    subst hc
    rw [State.get_default s (Nat.le_refl _)] at hk'
    exact hne hk'.symm
  have memo_old : ∀ i, ((s.push (initNode d)).get i).kind = .memo → i ≠ s.nodes.length →
      (s.get i).kind = .memo := fun i hk' hi => by rw [← kold i hi]; exact hk'
  constructor
  · simp [State.push, hlen]
  · intro i d' hd'
    by_cases hi : i < p.length
    · rw [List.getElem?_append_left hi] at hd'
      rw [kold i (by omega)]; exact h.kind i d' hd'
    · have hie : i = p.length := by
        rcases Nat.lt_or_ge i (p.length + 1) with h' | h'
        · omega
        · rw [List.getElem?_eq_none (by simp; omega)] at hd'; cases hd'
      subst hie
      simp only [List.getElem?_concat_length, Option.some.injEq] at hd'
      subst hd'
      rw [← hlen]; exact knew
  · intro i hi hki
    simp only [List.length_append, List.length_singleton] at hi
    by_cases hie : i = s.nodes.length
    · subst hie; rw [knew] at hki
      exfalso
      have := hd.kind; rw [hk, hki] at this; exact this rfl
    · rw [kold i hie] at hki
      rw [(F i).2.1, (F i).2.2.2.2.1, (F i).1]
      exact h.sigOk i (by omega) hki
  · intro o ho
    rw [(F o).2.2.2.2.1]; exact h.obsRun o ho
  · intro a w; rw [(F a).2.2.2.1, (F w).2.2.1]; exact h.edge a w
  · intro a; rw [(F a).2.2.2.1]; exact h.nodup a
  · intro w a ha; rw [(F w).2.2.1] at ha; exact h.srcLt w a ha
  · intro r hkr hrr
    rw [(F r).2.2.2.2.1] at hrr
    have hro : r ≠ s.nodes.length := by
      intro hc; subst hc
      rw [State.get_default s (Nat.le_refl _)] at hrr; cases hrr
    rw [(F r).2.1]; exact h.runNC r (memo_old r hkr hro) hrr
  · intro a w hka hsa hw hkw
    rw [(F a).2.2.2.1] at hw
    rw [(F a).2.1] at hsa
    have hao : a ≠ s.nodes.length := by
      intro hc; subst hc
      rw [State.get_default s (Nat.le_refl _)] at hw; cases hw
    have hwo : w ≠ s.nodes.length := by
      intro hc; subst hc
      have := (h.edge a s.nodes.length).1 hw
      rw [State.get_default s (Nat.le_refl _)] at this; cases this
    rw [(F w).2.1]
    exact h.closed a w (memo_old a hka hao) hsa hw (memo_old w hkw hwo)
  · intro m hkm hrm
    rw [(F m).2.2.2.2.1] at hrm
    rw [(F m).2.2.1, (F m).2.2.2.2.2.1]
    by_cases hmo : m = s.nodes.length
    · subst hmo; rw [State.get_default s (Nat.le_refl _)]; rfl
    · exact h.srcSeen m (memo_old m hkm hmo) hrm
  · intro m hkm hrm hv
    rw [(F m).2.1]
    by_cases hmo : m = s.nodes.length
    · subst hmo; rw [State.get_default s (Nat.le_refl _)]
    · rw [(F m).2.2.2.2.1] at hrm; rw [(F m).1] at hv
      exact h.valNone m (memo_old m hkm hmo) hrm hv
  · intro m hkm hrm hst
    rw [(F m).2.1] at hst
    have hmo : m ≠ s.nodes.length := by
      intro hc; subst hc
      rw [State.get_default s (Nat.le_refl _)] at hst; exact hst rfl
    rw [(F m).2.2.2.2.1] at hrm
    have hmp : m < p.length := h.memo_lt (memo_old m hkm hmo)
    obtain ⟨U, hU⟩ := h.replay m (memo_old m hkm hmo) hrm hst
    refine ⟨U, fun ρ hρ => ?_⟩
    rw [(F m).2.2.2.2.2.1] at hρ
    rw [(F m).1, bodyOf_append p d m hmp]
    exact hU ρ hρ
  · intro m hkm hrm hst e he
    rw [(F m).2.1] at hst
    have hmo : m ≠ s.nodes.length := by
      intro hc; subst hc
      rw [State.get_default s (Nat.le_refl _)] at hst; exact hst rfl
    rw [(F m).2.2.2.2.1] at hrm; rw [(F m).2.2.2.2.2.1] at he
    rw [(F e.1).2.2.2.2.1, (F e.1).1]
    exact h.srcVal m (memo_old m hkm hmo) hrm hst e he
  · intro m hkm hrm hst hruns
    rw [(F m).2.2.2.2.2.2.2] at hruns
    have hmo : m ≠ s.nodes.length := by
      intro hc; subst hc
      rw [State.get_default s (Nat.le_refl _)] at hruns; exact hruns rfl
    rw [(F m).2.2.2.2.1] at hrm; rw [(F m).2.1] at hst
    obtain ⟨e, he, hne⟩ := h.verDirty m (memo_old m hkm hmo) hrm hst hruns
    exact ⟨e, by rw [(F m).2.2.2.2.2.1]; exact he, by rw [(F e.1).2.2.2.2.2.2.1]; exact hne⟩
  · intro w e he
    rw [(F w).2.2.2.2.2.1] at he; rw [(F e.1).2.2.2.2.2.2.1]; exact h.verLe w e he
  · intro w a ha
    rw [(F w).2.2.1] at ha
    have hwo : w ≠ s.nodes.length := by
      intro hc; subst hc
      rw [State.get_default s (Nat.le_refl _)] at ha; cases ha
    have hlt := h.srcLt w a ha
    have hw : w < s.nodes.length := by
      rcases Nat.lt_or_ge w s.nodes.length with h' | h'
      · exact h'
      · rw [State.get_default s h'] at ha; cases ha
    rw [kold a (by omega)]; exact h.srcData w a ha

/-! ## static dependencies of old nodes do not change -/

theorem any_congr_mem {α : Type} {f g : α → Bool} : ∀ (l : List α), (∀ z ∈ l, f z = g z) →
    l.any f = l.any g
  | [], _ => rfl
  | a :: l, h => by
    simp only [List.any_cons, h a List.mem_cons_self,
      any_congr_mem l (fun z hz => h z (List.mem_cons_of_mem _ hz))]

theorem dependsOn_append (p : Prog) (d : NodeDef) : ∀ (f y sg : Nat), y < p.length →
    dependsOn (p ++ [d]) f y sg = dependsOn p f y sg
  | 0, _, _, _ => rfl
  | f + 1, y, sg, hy => by
    simp only [dependsOn, List.getElem?_append_left hy]
    congr 1
    cases hp : p[y]? with
    | none => rfl
    | some nd =>
      cases nd with
      | memo b =>
        simp only
        apply any_congr_mem
        intro z hz
        rw [dependsOn_append p d f z sg (by simp only [List.mem_range] at hz; omega)]
      | sig v => rfl
      | eff b => rfl

theorem dependsOn_fuel (p : Prog) : ∀ (f g y sg : Nat), y < f → y < g →
    dependsOn p f y sg = dependsOn p g y sg
  | 0, _, _, _, h, _ => by omega
  | _ + 1, 0, _, _, _, h => by omega
  | f + 1, g + 1, y, sg, hf, hg => by
    simp only [dependsOn]
    congr 1
    cases hp : p[y]? with
    | none => rfl
    | some nd =>
      cases nd with
      | memo b =>
        simp only
        apply any_congr_mem
        intro z hz
        simp only [List.mem_range] at hz
        rw [dependsOn_fuel p f g z sg (by omega) (by omega)]
      | sig v => rfl
      | eff b => rfl

theorem NoFB.of_append {p : Prog} {d : NodeDef} (hwf : WF (p ++ [d]) = true) {i : Nat} (hi : i < p.length)
    (h : NoFB (p ++ [d]) i) : NoFB p i := by
  intro sg y hw hr
  have hbo := bodyOf_append p d i hi
  have h' := h sg y (by rw [hbo]; exact hw) (by rw [hbo]; exact hr)
  -- `y` is below `i`
  have hy : y < i := by
    cases hp : p[i]? with
    | none => simp [bodyOf, hp, Expr.readsNode] at hr
    | some nd =>
      have hpa : (p ++ [d])[i]? = some nd := by rw [List.getElem?_append_left hi]; exact hp
      have hwn := WF_get hwf hpa
      cases nd with
      | sig v => simp [bodyOf, hp, Expr.readsNode] at hr
      | memo b =>
        simp only [wfNode, Bool.and_eq_true] at hwn
        have : b.readsNode y = true := by simpa [bodyOf, hp] using hr
        exact readsNode_lt b i y hwn.1.1 this
      | eff b =>
        simp only [wfNode, Bool.and_eq_true] at hwn
        have : b.readsNode y = true := by simpa [bodyOf, hp] using hr
        exact readsNode_lt b i y hwn.1 this
  have hyl : y < p.length := by omega
  simp only [List.length_append, List.length_singleton] at h'
  rw [dependsOn_append p d _ y sg hyl, dependsOn_fuel p (p.length + 1) p.length y sg (by omega) hyl] at h'
  exact h'

/-! ## the effect invariant and the top-level invariant survive the creation of a node -/

theorem ValOK.push {p : Prog} {s : State} {d : NodeDef} (hd : FreshNode (initNode d)) {i : Nat}
    (hi : i < p.length) (h : ValOK p s i) : ValOK (p ++ [d]) (s.push (initNode d)) i := by
  have F := push_fields (s := s) hd i
  intro hr ρ hρ
  rw [F.2.2.2.2.2.2.2] at hr
  rw [F.2.2.2.2.2.1] at hρ
  rw [F.1, bodyOf_append p d i hi]
  exact h hr ρ hρ

theorem InvC.push {p : Prog} {s : State} {X : Option Nat} (hI : InvR p s) (h : InvC p s X D)
    (d : NodeDef) (hd : FreshNode (initNode d)) (hwf : WF (p ++ [d]) = true)
    (hnew : (initNode d).kind = .eff → (initNode d).alive = true ∧ (initNode d).paused = false ∧
      (initNode d).done = false ∧ (initNode d).dirty = true ∧ (initNode d).chan = true ∧
      (initNode d).woken = true ∧ (initNode d).first = true) :
    InvC (p ++ [d]) (s.push (initNode d)) X D := by
  have F := fun i => push_fields (s := s) hd i
  have old_eff : ∀ i, i ≠ s.nodes.length → ((s.push (initNode d)).get i).kind = .eff →
      (s.get i).kind = .eff ∧ i < p.length := by
    intro i hi hk
    rw [push_old i hi] at hk
    refine ⟨hk, ?_⟩
    rw [← hI.len]; exact s.lt_of_kind_ne (by rw [hk]; simp)
  refine ⟨?_, ?_, ?_⟩
  · intro i hk hr hD
    by_cases hi : i = s.nodes.length
    · subst hi
      rw [push_new] at hk
      have hn := hnew hk
      exact ⟨by rw [push_new]; exact ⟨hn.1, hn.2.1, hn.2.2.1⟩,
        by rw [push_new, hd.sources, hd.seen]; rfl,
        fun hf => by rw [push_new, hn.2.2.2.2.2.2] at hf; cases hf⟩
    · obtain ⟨hk0, _⟩ := old_eff i hi hk
      have hg := push_old (s := s) (n := initNode d) i hi
      rw [hg] at hr
      have b := h.base i hk0 hr hD
      exact ⟨by rw [hg]; exact b.live, by rw [hg]; exact b.srcSeen, by rw [hg]; exact b.ran⟩
  · intro i hk hr hD hX
    by_cases hi : i = s.nodes.length
    · subst hi
      rw [push_new] at hk
      have hn := hnew hk
      refine ⟨?_, ?_, ?_, ?_, ?_⟩
      · intro _ hdd; rw [push_new, hn.2.2.2.1] at hdd; cases hdd
      · intro hc; rw [push_new, hn.2.2.2.2.1] at hc; cases hc
      · intro _; rw [push_new]; exact hn.2.2.2.2.2.1
      · intro hc; rw [push_new, hn.2.2.2.2.1] at hc; cases hc
      · intro hruns; rw [push_new, hd.runs] at hruns; exact absurd rfl hruns
    · obtain ⟨hk0, hip⟩ := old_eff i hi hk
      have hg := push_old (s := s) (n := initNode d) i hi
      rw [hg] at hr
      have c := h.eff i hk0 hr hD hX
      refine ⟨?_, by rw [hg]; exact c.quietFlags, by rw [hg]; exact c.chanWoken, ?_, c.valOK.push hd hip⟩
      · intro hro hdd z hz
        rw [hg] at hdd hz
        rw [(F z.1).2.2.2.2.1, (F z.1).1]
        exact c.vals (hro.of_append hwf hip) hdd z hz
      · intro hcf y hy hky
        rw [hg] at hcf hy
        have hyo : y ≠ s.nodes.length := by
          intro hc'; subst hc'
          have := hI.srcLt i _ hy
          have : i < s.nodes.length := s.lt_of_kind_ne (by rw [hk0]; simp)
          omega
        rw [push_old y hyo] at hky ⊢
        exact c.srcClean hcf y hy hky
  · intro i hdd
    have := h.dead i hdd
    have hi : i ≠ s.nodes.length := by
      intro hc; subst hc
      rw [State.get_default s (Nat.le_refl _)] at this; cases this.1
    rw [push_old i hi]; exact this

theorem SrcStatic.push {p : Prog} {s : State} (hI : InvR p s) (h : SrcStatic p s) (d : NodeDef)
    (hd : FreshNode (initNode d)) : SrcStatic (p ++ [d]) (s.push (initNode d)) := by
  intro w x hx
  rw [(push_fields (s := s) hd w).2.2.1] at hx
  have hw : w < s.nodes.length := by
    rcases Nat.lt_or_ge w s.nodes.length with h' | h'
    · exact h'
    · rw [State.get_default s h'] at hx; cases hx
  rw [bodyOf_append p d w (by rw [← hI.len]; exact hw)]
  exact h w x hx

/-- **creation of a memo or effect node** between two operations: the new node is appended to the
program and (in its initial state) to the state; every invariant is preserved.  For an effect the new
node is notified (`chan`, `dirty`, `first` set), i.e. it will run at its first poll. -/
theorem TopC.push {p : Prog} {s : State} (h : TopC p s D) (d : NodeDef)
    (hd : (∃ b, d = .memo b) ∨ (∃ b, d = .eff b)) (hwf : WF (p ++ [d]) = true) :
    TopC (p ++ [d]) (s.push (initNode d)) D := by
  have hfresh : FreshNode (initNode d) := by
    rcases hd with ⟨b, rfl⟩ | ⟨b, rfl⟩
    · exact freshNode_memo b
    · exact freshNode_eff b
  have hkind : (initNode d).kind = kindOf d := by
    rcases hd with ⟨b, rfl⟩ | ⟨b, rfl⟩ <;> rfl
  have hnew : (initNode d).kind = .eff → (initNode d).alive = true ∧ (initNode d).paused = false ∧
      (initNode d).done = false ∧ (initNode d).dirty = true ∧ (initNode d).chan = true ∧
      (initNode d).woken = true ∧ (initNode d).first = true := by
    rcases hd with ⟨b, rfl⟩ | ⟨b, rfl⟩
    · intro hc; simp [initNode] at hc
    · intro _; exact ⟨rfl, rfl, rfl, rfl, rfl, rfl, rfl⟩
  refine ⟨⟨h.quiet.inv.push d hfresh hkind, ?_⟩, h.conv.push h.quiet.inv d hfresh hwf hnew,
    h.ss.push h.quiet.inv d hfresh⟩
  intro i
  rw [(push_fields (s := s) hfresh i).2.2.2.2.1]; exact h.quiet.idle i

theorem initState_push (p : Prog) (d : NodeDef) :
    initState (p ++ [d]) = (initState p).push (initNode d) := by
  simp [initState, State.push]

/-- members of the dead set are existing nodes -/
theorem TopC.dead_lt {p : Prog} {s : State} (h : TopC p s D) {i : Nat} (hd : D i) : i < s.nodes.length :=
  s.lt_of_kind_ne (by rw [(h.conv.dead i hd).1]; simp)

/-- the index of a freshly pushed node is not dead -/
theorem TopC.fresh_not_dead {p : Prog} {s : State} (h : TopC p s D) : ¬ D s.nodes.length :=
  fun hd => Nat.lt_irrefl _ (h.dead_lt hd)

/-- `RenderEffect::new` on a freshly created effect node: create + run synchronously -/
theorem TopC.createRenderEffect {p : Prog} {s : State} (h : TopC p s D) (b : Expr)
    (hwf : WF (p ++ [.eff b]) = true) (ht : bodiesTracked (p ++ [.eff b]) = true) :
    TopC (p ++ [.eff b])
      (Leptos.Reactive.initRenderEffect (p ++ [.eff b]) (s.push (initNode (.eff b))) s.nodes.length) D := by
  have h1 := h.push (.eff b) (.inr ⟨b, rfl⟩) hwf
  refine h1.initRenderEffect (memoOK_of_wf hwf) (effOK_of_wf hwf ht) ?_ h.fresh_not_dead
  rw [push_new]; rfl

end Leptos.Reactive
