import LeptosModel.Proofs.HydrateWalk
import LeptosModel.Proofs.HydrateLoad
import LeptosModel.Proofs.HydrateSettle
import LeptosModel.Proofs.ViewMount
/-! Helper lemmas for C05, part 10: which nodes of the parsed forest the hydrated state owns, which are
separators, and what `settle` does to each node. -/
namespace Leptos.Hydrate
open Leptos.Dom Leptos.View

mutual
/-- the separator comments (`<!>` in front of a string that follows a string) `adopt` skips, nested ones included -/
def sepsOf : View → Position → List IdTree → List Id
  | .text _, pos, f => if pos = .nextChildAfterText then (f.take 1).map IdTree.id else []
  | .unit, _, _ => []
  | .elem tag _ c, _, f =>
    match f with
    | .node _ ks :: _ => if !viewExists c || !escKids tag then [] else sepsOf c .firstChild ks
    | [] => []
  | .tuple vs, pos, f => sepsOfL vs pos f
  | .onone, _, _ => []
  | .osome v, pos, f => sepsOf v pos f
  | .either _ _ v, pos, f => sepsOf v pos f
  | .vec vs, pos, f => sepsOfL vs pos f
  | .any _ v, pos, f => sepsOf v pos f
def sepsOfL : List View → Position → List IdTree → List Id
  | [], _, _ => []
  | v :: vs, pos, f => sepsOf v pos f ++ sepsOfL vs (after true v pos) (adopt v pos f).2
end

mutual
/-- every non-void element has children (`Ch ≠ ()`): the hydrated state then has a child state, as the
client-built one has -/
def fullV : View → Bool
  | .elem tag _ c => (isVoidT tag || viewExists c) && fullV c
  | .tuple vs => fullL vs
  | .osome v => fullV v
  | .either _ _ v => fullV v
  | .vec vs => fullL vs
  | .any _ v => fullV v
  | _ => true
def fullL : List View → Bool
  | [] => true
  | v :: vs => fullV v && fullL vs
end

theorem idsOfL_append : ∀ (a b : List IdTree), idsOfL (a ++ b) = idsOfL a ++ idsOfL b
  | [], _ => rfl
  | t :: a, b => by simp [idsOfL, idsOfL_append a b]

theorem real_comment_kind {d : Dom} {s : Str} {i : Id} {ks : List IdTree} {p : Id}
    (h : real d (.comment s) (.node i ks) p) : d.kindOf i = some .comment ∧ ks = [] := by
  obtain ⟨hks, r, hr, hk, _, _⟩ := (by simpa [real] using h)
  exact ⟨by simp [Dom.kindOf, hr, hk], hks⟩

theorem real_text_leaf {d : Dom} {s : Str} {i : Id} {ks : List IdTree} {p : Id}
    (h : real d (.text s) (.node i ks) p) : ks = [] := by
  obtain ⟨hks, _⟩ := (by simpa [real] using h)
  exact hks

/-- consuming one marker comment -/
theorem shape_marker {d : Dom} {ts' : List HTree} {todo : List IdTree} {p : Id}
    (hr : realL d (Html.Tree.comment [] :: ts') todo p) :
    ∃ i rest, todo = .node i [] :: rest ∧ realL d ts' rest p ∧ d.kindOf i = some .comment := by
  obtain ⟨it, rest, htodo, hreal, hrest⟩ := realL_cons_inv hr
  cases it with
  | node i ks =>
    obtain ⟨hk, hks⟩ := real_comment_kind hreal
    subst hks
    exact ⟨i, rest, htodo, hrest, hk⟩

mutual
/-- the nodes `adopt` consumes are exactly the nodes the state owns plus the separators; separators are comments -/
theorem hyd_shape (d : Dom) : (v : View) → ∀ (p : Id) (pos : Position) (todo : List IdTree) (ts' : List HTree),
    wfH v = true → realL d (dom v pos ++ ts') todo p →
    ∃ consumed, todo = consumed ++ (adopt v pos todo).2 ∧ realL d ts' (adopt v pos todo).2 p ∧
      (idsOfL consumed).Perm (owned (adopt v pos todo).1 ++ sepsOf v pos todo) ∧
      (∀ z ∈ sepsOf v pos todo, d.kindOf z = some .comment)
  | .text s, p, pos, todo, ts', _, hr => by
    by_cases hpos : pos = .nextChildAfterText
    · simp only [dom, hpos, if_true, List.cons_append, List.nil_append] at hr
      obtain ⟨si, rest1, htodo, hr1, hsep⟩ := shape_marker hr
      obtain ⟨it, rest, hrest1, htext, hrest⟩ := realL_cons_inv hr1
      cases it with
      | node i ks =>
        have hks := real_text_leaf (by simpa [textNode] using htext)
        subst htodo; subst hrest1; subst hks
        refine ⟨[.node si [], .node i []], by simp [adopt, hpos], by simpa [adopt, hpos] using hrest, ?_, ?_⟩
        · simp only [idsOfL, idsOf, adopt, hpos, if_true, List.drop_succ_cons, List.drop_zero, owned, sepsOf,
            List.take_succ_cons, List.take_zero, List.map_cons, List.map_nil, IdTree.id, List.append_nil,
            List.nil_append, List.cons_append]
          exact List.Perm.swap _ _ _
        · intro z hz
          simp only [sepsOf, hpos, if_true, List.take_succ_cons, List.take_zero, List.map_cons, List.map_nil,
            IdTree.id, List.mem_singleton] at hz
          subst hz; exact hsep
    · simp only [dom, hpos, if_false, List.nil_append, List.cons_append] at hr
      obtain ⟨it, rest, htodo, htext, hrest⟩ := realL_cons_inv hr
      cases it with
      | node i ks =>
        have hks := real_text_leaf (by simpa [textNode] using htext)
        subst htodo; subst hks
        refine ⟨[.node i []], by simp [adopt, hpos], by simpa [adopt, hpos] using hrest, ?_, ?_⟩
        · simp [idsOfL, idsOf, adopt, hpos, owned, sepsOf]
        · simp [sepsOf, hpos]
  | .unit, p, pos, todo, ts', _, hr => by
    simp only [dom, List.cons_append, List.nil_append] at hr
    obtain ⟨i, rest, htodo, hrest, _⟩ := shape_marker hr
    subst htodo
    exact ⟨[.node i []], by simp [adopt], by simpa [adopt] using hrest,
      by simp [idsOfL, idsOf, adopt, owned, sepsOf], by simp [sepsOf]⟩
  | .onone, p, pos, todo, ts', _, hr => by
    simp only [dom, List.cons_append, List.nil_append] at hr
    obtain ⟨i, rest, htodo, hrest, _⟩ := shape_marker hr
    subst htodo
    exact ⟨[.node i []], by simp [adopt], by simpa [adopt] using hrest,
      by simp [idsOfL, idsOf, adopt, owned, sepsOf], by simp [sepsOf]⟩
  | .osome v, p, pos, todo, ts', hw, hr => by
    obtain ⟨c, h1, h2, h3, h4⟩ := hyd_shape d v p pos todo ts' (by simpa [wfH] using hw) (by simpa [dom] using hr)
    exact ⟨c, by simpa [adopt] using h1, by simpa [adopt] using h2, by simpa [adopt, owned, sepsOf] using h3,
      by simpa [sepsOf] using h4⟩
  | .either _ _ v, p, pos, todo, ts', hw, hr => by
    obtain ⟨c, h1, h2, h3, h4⟩ := hyd_shape d v p pos todo ts' (by simpa [wfH] using hw) (by simpa [dom] using hr)
    exact ⟨c, by simpa [adopt] using h1, by simpa [adopt] using h2, by simpa [adopt, owned, sepsOf] using h3,
      by simpa [sepsOf] using h4⟩
  | .any _ v, p, pos, todo, ts', hw, hr => by
    obtain ⟨c, h1, h2, h3, h4⟩ := hyd_shape d v p pos todo ts' (by simpa [wfH] using hw) (by simpa [dom] using hr)
    exact ⟨c, by simpa [adopt] using h1, by simpa [adopt] using h2, by simpa [adopt, owned, sepsOf] using h3,
      by simpa [sepsOf] using h4⟩
  | .tuple vs, p, pos, todo, ts', hw, hr => by
    obtain ⟨c, h1, h2, h3, h4⟩ := hyd_shapeL d vs p pos todo ts' (by simpa [wfH] using hw) (by simpa [dom] using hr)
    exact ⟨c, by simpa [adopt] using h1, by simpa [adopt] using h2, by simpa [adopt, owned, sepsOf] using h3,
      by simpa [sepsOf] using h4⟩
  | .vec vs, p, pos, todo, ts', hw, hr => by
    obtain ⟨c, h1, h2, h3, h4⟩ := hyd_shapeL d vs p pos todo (Html.Tree.comment [] :: ts') (by simpa [wfH] using hw)
      (by simpa [dom, List.append_assoc] using hr)
    obtain ⟨m, rest, hm, hrest, _⟩ := shape_marker h2
    refine ⟨c ++ [.node m []], ?_, ?_, ?_, by simpa [sepsOf] using h4⟩
    · simp only [adopt, hm]; rw [List.append_assoc]; simpa [hm] using h1
    · simpa [adopt, hm] using hrest
    · simp only [adopt, hm, owned, sepsOf, idsOfL_append, idsOfL, idsOf, List.append_nil]
      have := h3.append_right [m]
      refine this.trans ?_
      simp only [List.append_assoc]
      exact List.Perm.append_left _ List.perm_append_comm
  | .elem tag as child, p, pos, todo, ts', hw, hr => by
    simp only [dom, List.cons_append, List.nil_append] at hr
    obtain ⟨it, rest, htodo, hel, hrest⟩ := realL_cons_inv hr
    cases it with
    | node i ks =>
      subst htodo
      obtain ⟨_, _, hkidsReal⟩ := real_elem hel
      simp only [wfH, Bool.and_eq_true] at hw
      obtain ⟨hshape, hwc⟩ := hw
      by_cases hskip : (!viewExists child || !escKids tag) = true
      · -- no child state: the element has no children in the DOM either
        have hks : ks = [] := by
          have hempty : (if isVoidT tag = true then [] else if viewExists child = true then dom child .firstChild else []) = [] := by
            by_cases hv : isVoidT tag = true
            · simp [hv]
            · have hesc : escKids tag = true := by simpa [hv] using hshape
              have : viewExists child = false := by
                simp only [Bool.or_eq_true, Bool.not_eq_true'] at hskip
                rcases hskip with h | h
                · exact h
                · rw [hesc] at h; cases h
              simp [hv, this]
          rw [hempty] at hkidsReal
          cases ks with
          | nil => rfl
          | cons _ _ => simp [realL] at hkidsReal
        subst hks
        refine ⟨[.node i []], by simp [adopt, hskip], by simpa [adopt, hskip] using hrest, ?_, ?_⟩
        · simp [adopt, hskip, owned, ownedOpt, sepsOf, idsOfL, idsOf]
        · simp [sepsOf, hskip]
      · have hex : viewExists child = true ∧ escKids tag = true := by
          simpa [Bool.or_eq_true, not_or] using hskip
        have hnv : isVoidT tag = false := by
          cases hv : isVoidT tag with
          | false => rfl
          | true => simp [hv, hex.1] at hshape
        have hr2 : realL d (dom child .firstChild ++ []) ks i := by simpa [hnv, hex.1] using hkidsReal
        obtain ⟨c, h1, h2, h3, h4⟩ := hyd_shape d child i .firstChild ks [] hwc hr2
        have hrest2 : (adopt child .firstChild ks).2 = [] := by
          cases h : (adopt child .firstChild ks).2 with
          | nil => rfl
          | cons _ _ => rw [h] at h2; simp [realL] at h2
        have hc : c = ks := by rw [hrest2] at h1; simpa using h1.symm
        subst hc
        have hsk : (!viewExists child || !escKids tag) = false := by simp [hex.1, hex.2]
        refine ⟨[.node i c], by simp [adopt, hsk], by simpa [adopt, hsk] using hrest, ?_, ?_⟩
        · simp only [adopt, hsk, owned, ownedOpt, sepsOf, idsOfL, idsOf, List.append_nil, Bool.false_eq_true, if_false,
            List.cons_append]
          exact List.Perm.cons _ h3
        · simpa [sepsOf, hsk] using h4
theorem hyd_shapeL (d : Dom) : (vs : List View) → ∀ (p : Id) (pos : Position) (todo : List IdTree) (ts' : List HTree),
    wfHL vs = true → realL d (domL vs pos ++ ts') todo p →
    ∃ consumed, todo = consumed ++ (adoptL vs pos todo).2 ∧ realL d ts' (adoptL vs pos todo).2 p ∧
      (idsOfL consumed).Perm (ownedList (adoptL vs pos todo).1 ++ sepsOfL vs pos todo) ∧
      (∀ z ∈ sepsOfL vs pos todo, d.kindOf z = some .comment)
  | [], p, pos, todo, ts', _, hr =>
    ⟨[], by simp [adoptL], by simpa [adoptL, domL] using hr, by simp [adoptL, ownedList, sepsOfL, idsOfL],
      by simp [sepsOfL]⟩
  | v :: vs, p, pos, todo, ts', hw, hr => by
    simp only [wfHL, Bool.and_eq_true] at hw
    obtain ⟨c1, h1, h2, h3, h4⟩ := hyd_shape d v p pos todo (domL vs (after true v pos) ++ ts') hw.1
      (by simpa [domL, List.append_assoc] using hr)
    obtain ⟨c2, g1, g2, g3, g4⟩ := hyd_shapeL d vs p (after true v pos) (adopt v pos todo).2 ts' hw.2 h2
    refine ⟨c1 ++ c2, ?_, by simpa [adoptL] using g2, ?_, ?_⟩
    · simp only [adoptL]; rw [List.append_assoc, ← g1]; exact h1
    · simp only [adoptL, ownedList, sepsOfL, idsOfL_append]
      refine (h3.append g3).trans ?_
      simp only [List.append_assoc]
      refine List.Perm.append_left _ ?_
      rw [← List.append_assoc, ← List.append_assoc]
      exact List.Perm.append_right _ List.perm_append_comm
    · intro z hz
      simp only [sepsOfL, List.mem_append] at hz
      rcases hz with hz | hz
      · exact h4 z hz
      · exact g4 z hz
end

/-! ### what `settle` does to each node -/

mutual
/-- the nodes `settle` writes `""` into -/
def emptyIds : State → List Id
  | .text i s => if s = "" then [i] else []
  | .unit _ => []
  | .elem _ _ none => []
  | .elem _ _ (some c) => emptyIds c
  | .tuple sts => emptyIdsL sts
  | .either _ st => emptyIds st
  | .vec sts _ => emptyIdsL sts
  | .any _ st => emptyIds st
def emptyIdsL : List State → List Id
  | [] => []
  | s :: ss => emptyIds s ++ emptyIdsL ss
end

mutual
theorem emptyIds_sub_owned : (st : State) → ∀ x ∈ emptyIds st, x ∈ owned st
  | .text i s, x, h => by
    by_cases hs : s = "" <;> simp [emptyIds, hs] at h
    simp [owned, h]
  | .unit _, _, h => by simp [emptyIds] at h
  | .elem _ _ none, _, h => by simp [emptyIds] at h
  | .elem _ _ (some c), x, h => by
    simp only [owned, ownedOpt, List.mem_cons]
    exact Or.inr (emptyIds_sub_owned c x (by simpa [emptyIds] using h))
  | .tuple sts, x, h => by simpa [owned] using emptyIdsL_sub_ownedList sts x (by simpa [emptyIds] using h)
  | .either _ st, x, h => by simpa [owned] using emptyIds_sub_owned st x (by simpa [emptyIds] using h)
  | .any _ st, x, h => by simpa [owned] using emptyIds_sub_owned st x (by simpa [emptyIds] using h)
  | .vec sts _, x, h => by
    simp only [owned, List.mem_append]
    exact Or.inl (emptyIdsL_sub_ownedList sts x (by simpa [emptyIds] using h))
theorem emptyIdsL_sub_ownedList : (sts : List State) → ∀ x ∈ emptyIdsL sts, x ∈ ownedList sts
  | [], _, h => by simp [emptyIdsL] at h
  | s :: ss, x, h => by
    simp only [emptyIdsL, List.mem_append] at h
    simp only [ownedList, List.mem_append]
    rcases h with h | h
    · exact Or.inl (emptyIds_sub_owned s x h)
    · exact Or.inr (emptyIdsL_sub_ownedList ss x h)
end

/-- `r'` is `r` with the data replaced by `""` if `c` -/
def Settled (c : Bool) (r r' : NodeRec) : Prop :=
  r'.kind = r.kind ∧ r'.parent = r.parent ∧ r'.kids = r.kids ∧ r'.attrs = r.attrs ∧
    r'.data = (if c then "" else r.data)

theorem get?_setText_text (d : Dom) (i : Id) (hk : d.kindOf i = some .text) (x : Id) (r : NodeRec)
    (hr : d.get? x = some r) :
    ∃ r', (d.setText i "").get? x = some r' ∧ Settled (x == i) r r' := by
  obtain ⟨ri, hri, hki⟩ : ∃ ri, d.get? i = some ri ∧ ri.kind = .text := by
    simp only [Dom.kindOf] at hk
    cases h : d.get? i with
    | none => simp [h] at hk
    | some ri => exact ⟨ri, rfl, by simpa [h] using hk⟩
  have := Dom.get?_setText d i "" ri hri (Or.inl hki) x
  by_cases hx : x = i
  · subst hx
    rw [hri] at hr; cases hr
    refine ⟨{ r with data := "", muts := r.muts + 1 }, by rw [this]; simp, rfl, rfl, rfl, rfl, by simp⟩
  · exact ⟨r, by rw [this]; simp [hx, hr], rfl, rfl, rfl, rfl, by simp [hx]⟩

mutual
theorem settle_get : (st : State) → ∀ (d : Dom), (∀ i ∈ emptyIds st, d.kindOf i = some .text) →
    ∀ (x : Id) (r : NodeRec), d.get? x = some r →
    ∃ r', (settle st d).get? x = some r' ∧ Settled ((emptyIds st).contains x) r r'
  | .text i s, d, hk, x, r, hr => by
    by_cases hs : s = ""
    · obtain ⟨r', h1, h2⟩ := get?_setText_text d i (hk i (by simp [emptyIds, hs])) x r hr
      refine ⟨r', by simpa [settle, hs] using h1, ?_⟩
      have : (emptyIds (.text i s)).contains x = (x == i) := by
        by_cases hx : x = i <;> simp [emptyIds, hs, hx]
      rw [this]; exact h2
    · exact ⟨r, by simp [settle, hs, hr], rfl, rfl, rfl, rfl, by simp [emptyIds, hs]⟩
  | .unit _, d, _, x, r, hr => ⟨r, by simp [settle, hr], rfl, rfl, rfl, rfl, by simp [emptyIds]⟩
  | .elem _ _ none, d, _, x, r, hr => ⟨r, by simp [settle, hr], rfl, rfl, rfl, rfl, by simp [emptyIds]⟩
  | .elem _ _ (some c), d, hk, x, r, hr => by
    have := settle_get c d (by simpa [emptyIds] using hk) x r hr
    simpa only [settle, emptyIds] using this
  | .tuple sts, d, hk, x, r, hr => by
    have := settleL_get sts d (by simpa [emptyIds] using hk) x r hr
    simpa only [settle, emptyIds] using this
  | .either _ st, d, hk, x, r, hr => by
    have := settle_get st d (by simpa [emptyIds] using hk) x r hr
    simpa only [settle, emptyIds] using this
  | .any _ st, d, hk, x, r, hr => by
    have := settle_get st d (by simpa [emptyIds] using hk) x r hr
    simpa only [settle, emptyIds] using this
  | .vec sts _, d, hk, x, r, hr => by
    have := settleL_get sts d (by simpa [emptyIds] using hk) x r hr
    simpa only [settle, emptyIds] using this
theorem settleL_get : (sts : List State) → ∀ (d : Dom), (∀ i ∈ emptyIdsL sts, d.kindOf i = some .text) →
    ∀ (x : Id) (r : NodeRec), d.get? x = some r →
    ∃ r', (settleL sts d).get? x = some r' ∧ Settled ((emptyIdsL sts).contains x) r r'
  | [], d, _, x, r, hr => ⟨r, by simp [settleL, hr], rfl, rfl, rfl, rfl, by simp [emptyIdsL]⟩
  | s :: ss, d, hk, x, r, hr => by
    obtain ⟨r1, h1, k1, p1, c1, a1, d1⟩ := settle_get s d (fun i hi => hk i (by simp [emptyIdsL, hi])) x r hr
    have hk2 : ∀ i ∈ emptyIdsL ss, (settle s d).kindOf i = some .text := fun i hi => by
      rw [(settle_sameShape s d).kind i]; exact hk i (by simp [emptyIdsL, hi])
    obtain ⟨r2, h2, k2, p2, c2, a2, d2⟩ := settleL_get ss (settle s d) hk2 x r1 h1
    refine ⟨r2, by simpa [settleL] using h2, by rw [k2, k1], by rw [p2, p1], by rw [c2, c1], by rw [a2, a1], ?_⟩
    rw [d2, d1]
    by_cases ha : x ∈ emptyIds s <;> by_cases hb : x ∈ emptyIdsL ss <;> simp [emptyIdsL, ha, hb]
end

mutual
theorem settle_next : (st : State) → ∀ (d : Dom), (settle st d).next = d.next
  | .text i s, d => by by_cases h : s = "" <;> simp [settle, h]
  | .unit _, d => rfl
  | .elem _ _ none, d => rfl
  | .elem _ _ (some c), d => by simpa [settle] using settle_next c d
  | .tuple sts, d => by simpa [settle] using settleL_next sts d
  | .either _ st, d => by simpa [settle] using settle_next st d
  | .vec sts _, d => by simpa [settle] using settleL_next sts d
  | .any _ st, d => by simpa [settle] using settle_next st d
theorem settleL_next : (sts : List State) → ∀ (d : Dom), (settleL sts d).next = d.next
  | [], _ => rfl
  | s :: ss, d => by simp only [settleL]; rw [settleL_next ss, settle_next s]
end

end Leptos.Hydrate
