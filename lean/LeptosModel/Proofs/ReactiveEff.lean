import LeptosModel.Proofs.ReactiveUpd
import LeptosModel.Proofs.ReactiveSet
/-!
# Proofs/ReactiveEff — effects preserve the data invariant `InvR`
(effect nodes carry no obligations in `InvR`; what matters is that their runs call `upd`
and `setSignal` from states satisfying `InvR`)
-/
namespace Leptos.Reactive

/-- updating an effect node in a way that keeps its edges, does not grow `seen` and does not lower `ver` -/
theorem InvR.updEff {p : Prog} {s : State} (h : InvR p s) {e : Nat} (hk : (s.get e).kind = .eff)
    (g : Node → Node) (gk : (g (s.get e)).kind = .eff)
    (gsrc : (g (s.get e)).sources = (s.get e).sources) (gsubs : (g (s.get e)).subs = (s.get e).subs)
    (gseen : ∀ x ∈ (g (s.get e)).seen, x ∈ (s.get e).seen)
    (gver : (s.get e).ver ≤ (g (s.get e)).ver)
    (gobs : s.obs = some e → (g (s.get e)).running = true) : InvR p (s.upd e g) := by
  have he : e < s.nodes.length := s.lt_of_kind_ne (by rw [hk]; simp)
  generalize hs' : s.upd e g = s'
  have ge : s'.get e = g (s.get e) := by subst hs'; rw [State.get_upd_same _ _ he]
  have go : ∀ i, i ≠ e → s'.get i = s.get i := by
    intro i hi; subst hs'; rw [State.get_upd_ne _ _ (Ne.symm hi)]
  have hlen : s'.nodes.length = s.nodes.length := by subst hs'; simp
  have hobs : s'.obs = s.obs := by subst hs'; rfl
  have kE : ∀ i, (s'.get i).kind = (s.get i).kind := by
    intro i; by_cases hi : i = e
    · subst hi; rw [ge, gk, hk]
    · rw [go i hi]
  have srcE : ∀ i, (s'.get i).sources = (s.get i).sources := by
    intro i; by_cases hi : i = e
    · subst hi; rw [ge, gsrc]
    · rw [go i hi]
  have subsE : ∀ i, (s'.get i).subs = (s.get i).subs := by
    intro i; by_cases hi : i = e
    · subst hi; rw [ge, gsubs]
    · rw [go i hi]
  have verMono : ∀ i, (s.get i).ver ≤ (s'.get i).ver := by
    intro i; by_cases hi : i = e
    · subst hi; rw [ge]; exact gver
    · rw [go i hi]; exact Nat.le_refl _
  have seenSub : ∀ i x, x ∈ (s'.get i).seen → x ∈ (s.get i).seen := by
    intro i x hx; by_cases hi : i = e
    · subst hi; rw [ge] at hx; exact gseen x hx
    · rw [go i hi] at hx; exact hx
  have ne_of_memo : ∀ i, (s.get i).kind = .memo → i ≠ e := by
    intro i hki hie; subst hie; rw [hk] at hki; cases hki
  have ne_of_sig : ∀ i, (s.get i).kind = .sig → i ≠ e := by
    intro i hki hie; subst hie; rw [hk] at hki; cases hki
  have data_ne : ∀ m x, (s.get m).kind = .memo → (s.get m).running = false →
      x ∈ (s.get m).seen → x.1 ≠ e := by
    intro m x hkm hrm hx hxe
    have : x.1 ∈ (s.get m).sources := by rw [h.srcSeen m hkm hrm]; exact List.mem_map_of_mem hx
    exact h.srcData m x.1 this (by rw [hxe]; exact hk)
  constructor
  · exact hlen.trans h.len
  · intro i d hd; rw [kE]; exact h.kind i d hd
  · intro i hi hki
    rw [kE] at hki
    rw [go i (ne_of_sig i hki)]; exact h.sigOk i hi hki
  · intro o ho
    rw [hobs] at ho
    by_cases hoe : o = e
    · subst hoe; rw [ge]; exact gobs ho
    · rw [go o hoe]; exact h.obsRun o ho
  · intro a w; rw [subsE, srcE]; exact h.edge a w
  · intro a; rw [subsE]; exact h.nodup a
  · intro w a ha; rw [srcE] at ha; exact h.srcLt w a ha
  · intro r hkr hrr
    rw [kE] at hkr
    rw [go r (ne_of_memo r hkr)] at hrr ⊢; exact h.runNC r hkr hrr
  · intro a w hka hsa hw hkw
    rw [kE] at hka hkw; rw [subsE] at hw
    rw [go a (ne_of_memo a hka)] at hsa
    rw [go w (ne_of_memo w hkw)]
    exact h.closed a w hka hsa hw hkw
  · intro i hki hri
    rw [kE] at hki
    rw [go i (ne_of_memo i hki)] at hri ⊢; exact h.srcSeen i hki hri
  · intro i hki hri hv
    rw [kE] at hki
    rw [go i (ne_of_memo i hki)] at hri hv ⊢; exact h.valNone i hki hri hv
  · intro i hki hri hst
    rw [kE] at hki
    have g := go i (ne_of_memo i hki)
    rw [g] at hri hst
    exact (h.replay i hki hri hst).congr (by rw [g]) (by rw [g])
  · intro i hki hri hst x hx
    rw [kE] at hki
    rw [go i (ne_of_memo i hki)] at hri hst hx
    rw [go x.1 (data_ne i x hki hri hx)]
    exact h.srcVal i hki hri hst x hx
  · intro i hki hri hst hruns
    rw [kE] at hki
    rw [go i (ne_of_memo i hki)] at hri hst hruns ⊢
    obtain ⟨x, hx, hne⟩ := h.verDirty i hki hri hst hruns
    exact ⟨x, hx, by rw [go x.1 (data_ne i x hki hri hx)]; exact hne⟩
  · intro w x hx
    exact Nat.le_trans (h.verLe w x (seenSub w x hx)) (verMono x.1)
  · intro w a ha; rw [srcE] at ha; rw [kE]; exact h.srcData w a ha

/-! ## clearSources on an effect -/

structure ClearPost (s s2 : State) (m : Nat) : Prop where
  len : s2.nodes.length = s.nodes.length
  obs : s2.obs = s.obs
  log : s2.log = s.log
  gm : s2.get m = { s.get m with sources := [] }
  go : ∀ i, i ≠ m → s2.get i = { s.get i with subs := (s.get i).subs.erase m }

theorem clearSources_post {s : State} {m : Nat} (hnd : ∀ i, (s.get i).subs.Nodup)
    (hedge : ∀ i, i ∉ (s.get m).sources → m ∉ (s.get i).subs) (hself : m ∉ (s.get m).sources)
    (hm : m < s.nodes.length) : ClearPost s (clearSources s m) m := by
  unfold clearSources
  generalize hs2 : ((s.get m).sources.foldl
    (fun s src => s.upd src fun n => { n with subs := n.subs.erase m }) s) = s2
  have g2 : ∀ i, s2.get i = if i ∈ (s.get m).sources then
      { s.get i with subs := (s.get i).subs.erase m } else s.get i := by
    intro i; subst hs2; exact foldl_erase_get m _ s hnd i
  have len2 : s2.nodes.length = s.nodes.length := by subst hs2; rw [foldl_erase_len]
  have log2 : s2.log = s.log := by subst hs2; rw [foldl_erase_log]
  have obs2 : s2.obs = s.obs := by subst hs2; rw [foldl_erase_obs]
  have g2m : s2.get m = s.get m := by rw [g2 m, if_neg hself]
  have hm2 : m < s2.nodes.length := by rw [len2]; exact hm
  refine ⟨by simpa using len2, obs2, log2, ?_, ?_⟩
  · rw [State.get_upd_same _ _ hm2, g2m]
  · intro i hi
    rw [State.get_upd_ne _ _ (Ne.symm hi), g2 i]
    split
    · rfl
    · next hni =>
      have := hedge i hni
      simp only [List.erase_of_not_mem this]

theorem clearSources_inv_eff {p : Prog} {s s2 : State} {e : Nat} (h : InvR p s)
    (t : ClearPost s s2 e) (hk : (s.get e).kind = .eff) : InvR p s2 := by
  have kE : ∀ i, (s2.get i).kind = (s.get i).kind := by
    intro i; by_cases hi : i = e
    · subst hi; rw [t.gm]
    · rw [t.go i hi]
  have same : ∀ i, (s2.get i).val = (s.get i).val ∧ (s2.get i).st = (s.get i).st ∧
      (s2.get i).running = (s.get i).running ∧ (s2.get i).seen = (s.get i).seen ∧
      (s2.get i).ver = (s.get i).ver ∧ (s2.get i).runs = (s.get i).runs := by
    intro i; by_cases hi : i = e
    · subst hi; rw [t.gm]; exact ⟨rfl, rfl, rfl, rfl, rfl, rfl⟩
    · rw [t.go i hi]; exact ⟨rfl, rfl, rfl, rfl, rfl, rfl⟩
  have srcO : ∀ i, i ≠ e → (s2.get i).sources = (s.get i).sources := by
    intro i hi; rw [t.go i hi]
  have srcE : (s2.get e).sources = [] := by rw [t.gm]
  have subsE : (s2.get e).subs = (s.get e).subs := by rw [t.gm]
  have subsO : ∀ i, i ≠ e → (s2.get i).subs = (s.get i).subs.erase e := by
    intro i hi; rw [t.go i hi]
  have mem_subs : ∀ a w, a ≠ e → (w ∈ (s2.get a).subs ↔ w ≠ e ∧ w ∈ (s.get a).subs) := by
    intro a w ha; rw [subsO a ha]; exact (h.nodup a).mem_erase_iff
  have hee : e ∉ (s.get e).subs := by
    intro hc; exact Nat.lt_irrefl e (h.srcLt e e ((h.edge e e).1 hc))
  have sub_of : ∀ a w, w ∈ (s2.get a).subs → w ∈ (s.get a).subs := by
    intro a w hw
    by_cases ha : a = e
    · subst ha; rw [subsE] at hw; exact hw
    · exact ((mem_subs a w ha).1 hw).2
  have src_of : ∀ w a, a ∈ (s2.get w).sources → a ∈ (s.get w).sources := by
    intro w a ha
    by_cases hw : w = e
    · subst hw; rw [srcE] at ha; cases ha
    · rw [srcO w hw] at ha; exact ha
  have ne_of_memo : ∀ i, (s.get i).kind = .memo → i ≠ e := by
    intro i hki hie; subst hie; rw [hk] at hki; cases hki
  constructor
  · exact t.len.trans h.len
  · intro i d hd; rw [kE]; exact h.kind i d hd
  · intro i hi hki; rw [kE] at hki; rw [(same i).2.1, (same i).2.2.1, (same i).1]; exact h.sigOk i hi hki
  · intro o ho; rw [t.obs] at ho; rw [(same o).2.2.1]; exact h.obsRun o ho
  · intro a w
    by_cases ha : a = e
    · subst ha
      rw [subsE]
      by_cases hw : w = a
      · subst hw; rw [srcE]; simp [hee]
      · rw [srcO w hw]; exact h.edge a w
    · rw [mem_subs a w ha]
      by_cases hw : w = e
      · subst hw; rw [srcE]; simp
      · rw [srcO w hw, ← h.edge]; simp [hw]
  · intro a
    by_cases ha : a = e
    · subst ha; rw [subsE]; exact h.nodup a
    · rw [subsO a ha]; exact (h.nodup a).erase e
  · intro w a ha; exact h.srcLt w a (src_of w a ha)
  · intro r hkr hrr; rw [kE] at hkr; rw [(same r).2.2.1] at hrr; rw [(same r).2.1]; exact h.runNC r hkr hrr
  · intro a w hka hsa hw hkw
    rw [kE] at hka hkw; rw [(same a).2.1] at hsa; rw [(same w).2.1]
    exact h.closed a w hka hsa (sub_of a w hw) hkw
  · intro i hki hri
    rw [kE] at hki; rw [(same i).2.2.1] at hri
    rw [srcO i (ne_of_memo i hki), (same i).2.2.2.1]; exact h.srcSeen i hki hri
  · intro i hki hri hv
    rw [kE] at hki; rw [(same i).2.2.1] at hri; rw [(same i).1] at hv; rw [(same i).2.1]
    exact h.valNone i hki hri hv
  · intro i hki hri hst
    rw [kE] at hki; rw [(same i).2.2.1] at hri; rw [(same i).2.1] at hst
    exact (h.replay i hki hri hst).congr (same i).2.2.2.1 (same i).1
  · intro i hki hri hst x hx
    rw [kE] at hki; rw [(same i).2.2.1] at hri; rw [(same i).2.1] at hst; rw [(same i).2.2.2.1] at hx
    rw [(same x.1).2.2.1, (same x.1).1]; exact h.srcVal i hki hri hst x hx
  · intro i hki hri hst hruns
    rw [kE] at hki; rw [(same i).2.2.1] at hri; rw [(same i).2.1] at hst
    rw [(same i).2.2.2.2.2] at hruns
    obtain ⟨x, hx, hne⟩ := h.verDirty i hki hri hst hruns
    exact ⟨x, by rw [(same i).2.2.2.1]; exact hx, by rw [(same x.1).2.2.2.2.1]; exact hne⟩
  · intro w x hx
    rw [(same w).2.2.2.1] at hx; rw [(same x.1).2.2.2.2.1]; exact h.verLe w x hx
  · intro w a ha; rw [kE]; exact h.srcData w a (src_of w a ha)

/-! ## evaluation of an effect body -/

structure EffLoc (s : State) (e : Nat) : Prop where
  obs : s.obs = some e
  kind : (s.get e).kind = .eff
  running : (s.get e).running = true
  only : ∀ r, (s.get r).running = true → r = e

/-- effect bodies read smaller data nodes, tracked; they may write signals -/
def EffOK (p : Prog) : Prop :=
  ∀ (e : Nat) (b : Expr), p[e]? = some (NodeDef.eff b) →
    b.readsBelow e = true ∧ b.noUntracked = true ∧ b.readsData p = true

theorem readEff_spec {p : Prog} {u : State → Nat → State × Bool} {f : Nat} (hu : UpdOK p u f)
    {e : Nat} (hef : e ≤ f) {s : State} (h : InvR p s) (hl : EffLoc s e) {x : Nat} (hx : x < e)
    (hkx : (s.get x).kind ≠ .eff) (ev : Int → Nat → Ev) :
    let r := readNode u s x
    InvR p ((r.1.upd e fun n => { n with seen := n.seen ++ [(x, r.2, (r.1.get x).ver)] }).emit
      (ev r.2 (r.1.get x).ver)) ∧
    EffLoc ((r.1.upd e fun n => { n with seen := n.seen ++ [(x, r.2, (r.1.get x).ver)] }).emit
      (ev r.2 (r.1.get x).ver)) e := by
  have he : e < s.nodes.length := s.lt_of_running hl.running
  have hxe : x ≠ e := Nat.ne_of_lt hx
  have t := track_post hl.obs he hx
  have h1 := track_inv h t hx (fun hk => by rw [hl.kind] at hk; cases hk) hkx
  have hxnr : (s.get x).running = false := by
    cases hr : (s.get x).running with
    | false => rfl
    | true => exact absurd (hl.only x hr) hxe
  -- the state after the read
  have key : ∃ s2 v, readNode u s x = (s2, v) ∧ InvR p s2 ∧ s2.obs = s.obs ∧
      (∀ i, (s2.get i).running = (s.get i).running) ∧ (s2.get e).kind = .eff ∧
      s2.nodes.length = s.nodes.length := by
    unfold readNode
    generalize track s x = s1 at t h1
    simp only
    cases hk : (s1.get x).kind with
    | eff => rw [t.kind] at hk; exact absurd hk hkx
    | sig => exact ⟨s1, _, rfl, h1, t.obs, t.running, by rw [t.kind]; exact hl.kind, t.len⟩
    | memo =>
      simp only
      have hp := hu s1 x h1 (by omega) (by rw [t.running]; exact hxnr) (by
        intro r hr
        rw [t.running] at hr
        rw [hl.only r hr]; exact hx)
      generalize u s1 x = r at hp
      obtain ⟨s2, ch⟩ := r
      exact ⟨s2, _, rfl, hp.inv, hp.obs.trans t.obs, fun i => (hp.running i).trans (t.running i),
        by rw [hp.frame.kind, t.kind]; exact hl.kind, hp.frame.len.trans t.len⟩
  obtain ⟨s2, v, hrd, h2, hobs2, hrun2, hk2, hlen2⟩ := key
  rw [hrd]
  simp only
  have he2 : e < s2.nodes.length := by rw [hlen2]; exact he
  refine ⟨appendSeen_inv h2 he2 (fun hk => by rw [hk2] at hk; cases hk) _ (Nat.le_refl _) _, ?_⟩
  have ge : ∀ i, ((s2.upd e fun n => { n with seen := n.seen ++ [(x, v, (s2.get x).ver)] }).get i).running
      = (s2.get i).running ∧
      ((s2.upd e fun n => { n with seen := n.seen ++ [(x, v, (s2.get x).ver)] }).get i).kind
      = (s2.get i).kind := by
    intro i
    rw [State.get_upd]; split <;> exact ⟨rfl, rfl⟩
  refine ⟨hobs2.trans hl.obs, ?_, ?_, ?_⟩
  · rw [State.emit_get, (ge e).2]; exact hk2
  · rw [State.emit_get, (ge e).1, hrun2]; exact hl.running
  · intro r hr
    rw [State.emit_get, (ge r).1, hrun2] at hr
    exact hl.only r hr

theorem evalEff_spec {p : Prog} {u : State → Nat → State × Bool} {f : Nat} (hu : UpdOK p u f)
    {e : Nat} (hef : e ≤ f) (F : Nat) (hF : p.length ≤ F) :
    ∀ (ex : Expr) (s : State), InvR p s → EffLoc s e → ex.readsBelow e = true →
      ex.noUntracked = true → ex.readsData p = true →
      InvR p (evalE (readNode u) (setSignal F) e ex s).1 ∧
      EffLoc (evalE (readNode u) (setSignal F) e ex s).1 e
  | .lit n, s, h, hl, _, _, _ => ⟨h, hl⟩
  | .rd tracked x, s, h, hl, hb, hu', hd => by
    simp only [Expr.noUntracked] at hu'
    subst hu'
    simp only [Expr.readsBelow, decide_eq_true_eq] at hb
    have hkx : (s.get x).kind ≠ .eff := by
      simp only [Expr.readsData] at hd
      cases hpx : p[x]? with
      | none => rw [hpx] at hd; cases hd
      | some d =>
        rw [h.kind x d hpx]
        cases d <;> simp_all [kindOf]
    have := readEff_spec hu hef h hl hb hkx (fun v _ => .rdv e x v)
    simp only [evalE, if_true]
    exact this
  | .add a b, s, h, hl, hb, hu', hd => by
    simp only [Expr.readsBelow, Expr.noUntracked, Expr.readsData, Bool.and_eq_true] at hb hu' hd
    obtain ⟨h1, l1⟩ := evalEff_spec hu hef F hF a s h hl hb.1 hu'.1 hd.1
    simp only [evalE]
    exact evalEff_spec hu hef F hF b _ h1 l1 hb.2 hu'.2 hd.2
  | .mulc k a, s, h, hl, hb, hu', hd => by
    simp only [Expr.readsBelow, Expr.noUntracked, Expr.readsData] at hb hu' hd
    simp only [evalE]
    exact evalEff_spec hu hef F hF a s h hl hb hu' hd
  | .ite c t el, s, h, hl, hb, hu', hd => by
    simp only [Expr.readsBelow, Expr.noUntracked, Expr.readsData, Bool.and_eq_true] at hb hu' hd
    obtain ⟨h1, l1⟩ := evalEff_spec hu hef F hF c s h hl hb.1.1 hu'.1.1 hd.1.1
    simp only [evalE]
    split
    · exact evalEff_spec hu hef F hF t _ h1 l1 hb.1.2 hu'.1.2 hd.1.2
    · exact evalEff_spec hu hef F hF el _ h1 l1 hb.2 hu'.2 hd.2
  | .seq a b, s, h, hl, hb, hu', hd => by
    simp only [Expr.readsBelow, Expr.noUntracked, Expr.readsData, Bool.and_eq_true] at hb hu' hd
    obtain ⟨h1, l1⟩ := evalEff_spec hu hef F hF a s h hl hb.1 hu'.1 hd.1
    simp only [evalE]
    exact evalEff_spec hu hef F hF b _ h1 l1 hb.2 hu'.2 hd.2
  | .wr x a, s, h, hl, hb, hu', hd => by
    simp only [Expr.readsBelow, Expr.noUntracked, Expr.readsData, Bool.and_eq_true] at hb hu' hd
    obtain ⟨h1, l1⟩ := evalEff_spec hu hef F hF a s h hl hb hu' hd.2
    simp only [evalE]
    generalize evalE (readNode u) (setSignal F) e a s = r at h1 l1
    obtain ⟨s1, v⟩ := r
    simp only at h1 l1 ⊢
    cases hpx : p[x]? with
    | none => rw [hpx] at hd; simp at hd
    | some d =>
      cases d with
      | memo _ => rw [hpx] at hd; simp at hd
      | eff _ => rw [hpx] at hd; simp at hd
      | sig v0 =>
        obtain ⟨h2, sp⟩ := setSignal_inv h1 hpx v (f := F) (by rw [h1.len]; exact hF)
        refine ⟨h2, sp.obs.trans l1.obs, by rw [sp.kind]; exact l1.kind, by rw [sp.running]; exact l1.running, ?_⟩
        intro r hr
        rw [sp.running] at hr
        exact l1.only r hr

/-! ## quiescent states and the effect task -/

structure Quiet (p : Prog) (s : State) : Prop where
  inv : InvR p s
  idle : ∀ i, (s.get i).running = false

theorem Quiet.obs {p : Prog} {s : State} (h : Quiet p s) : s.obs = none := by
  cases ho : s.obs with
  | none => rfl
  | some o =>
    have := h.inv.obsRun o ho
    rw [h.idle o] at this; cases this

theorem Quiet.updEff {p : Prog} {s : State} (h : Quiet p s) {e : Nat} (hk : (s.get e).kind = .eff)
    (g : Node → Node) (gk : (g (s.get e)).kind = .eff)
    (gsrc : (g (s.get e)).sources = (s.get e).sources) (gsubs : (g (s.get e)).subs = (s.get e).subs)
    (gseen : ∀ x ∈ (g (s.get e)).seen, x ∈ (s.get e).seen)
    (gver : (s.get e).ver ≤ (g (s.get e)).ver) (grun : (g (s.get e)).running = false) :
    Quiet p (s.upd e g) := by
  refine ⟨h.inv.updEff hk g gk gsrc gsubs gseen gver (fun ho => by rw [h.obs] at ho; cases ho), ?_⟩
  intro i
  rw [State.get_upd]; split
  · next hc => obtain ⟨rfl, _⟩ := hc; exact grun
  · exact h.idle i

theorem walk_spec {p : Prog} {u : State → Nat → State × Bool} {f : Nat} (hu : UpdOK p u f)
    (self : Nat) : ∀ (l : List Nat) (s : State), (∀ x ∈ l, x < f) → Quiet p s →
      Quiet p (anySrc u false self l s).1 ∧
      ∀ i, ((anySrc u false self l s).1.get i).kind = (s.get i).kind
  | [], s, _, h => ⟨h, fun _ => rfl⟩
  | x :: l, s, hl, h => by
    have hp := hu s x h.inv (hl x List.mem_cons_self) (h.idle x)
      (fun r hr => by rw [h.idle r] at hr; cases hr)
    unfold anySrc
    generalize u s x = r at hp
    obtain ⟨s1, ch⟩ := r
    simp only at hp ⊢
    have q1 : Quiet p s1 := ⟨hp.inv, fun i => (hp.running i).trans (h.idle i)⟩
    split
    · exact ⟨q1, hp.frame.kind⟩
    · have ih := walk_spec hu self l s1 (fun y hy => hl y (List.mem_cons_of_mem _ hy)) q1
      exact ⟨ih.1, fun i => (ih.2 i).trans (hp.frame.kind i)⟩

theorem State.setObs_none_eq {s : State} (h : s.obs = none) : ({ s with obs := none } : State) = s := by
  cases s; simp only at h; subst h; rfl

theorem effUpdate_dirty (p : Prog) (f : Nat) (s : State) (id : Nat) (h : (s.get id).dirty = true) :
    effUpdate p f s id = (s.upd id fun n => { n with dirty := false }, true) := by
  unfold effUpdate; rw [if_pos h]

theorem effUpdate_clean (p : Prog) (f : Nat) (s : State) (id : Nat) (h : (s.get id).dirty = false) :
    effUpdate p f s id =
      (({ (anySrc (upd p f) false id (s.get id).sources { s with obs := none }).1 with obs := s.obs } : State).upd id
          fun n => { n with dirty := false },
       (anySrc (upd p f) false id (s.get id).sources { s with obs := none }).2 ||
        ((anySrc (upd p f) false id (s.get id).sources { s with obs := none }).1.get id).dirty) := by
  unfold effUpdate; rw [if_neg (by rw [h]; simp)]; rfl

theorem effUpdate_spec {p : Prog} {f : Nat} (hu : UpdOK p (upd p f) f) (hf : p.length ≤ f)
    {s : State} {e : Nat} (h : Quiet p s) (hk : (s.get e).kind = .eff) :
    Quiet p ({ (effUpdate p f { s with obs := some e } e).1 with obs := none }) ∧
    ((effUpdate p f { s with obs := some e } e).1.get e).kind = .eff := by
  have he : e < s.nodes.length := s.lt_of_kind_ne (by rw [hk]; simp)
  cases hd : (s.get e).dirty with
  | true =>
    rw [effUpdate_dirty p f { s with obs := some e } e hd]
    have e1 : ({ (({ s with obs := some e } : State).upd e fun n => { n with dirty := false }) with
        obs := none } : State) = ({ s with obs := none } : State).upd e fun n => { n with dirty := false } := rfl
    simp only
    rw [e1, State.setObs_none_eq h.obs]
    refine ⟨h.updEff hk _ hk rfl rfl (fun _ hx => hx) (Nat.le_refl _) (h.idle e), ?_⟩
    rw [State.get_upd_same (s := { s with obs := some e }) _ he]; exact hk
  | false =>
    rw [effUpdate_clean p f { s with obs := some e } e hd]
    have e0 : ({ ({ s with obs := some e } : State) with obs := none } : State) = s :=
      State.setObs_none_eq h.obs
    simp only [State.setObs_get]
    rw [e0]
    have hw := walk_spec hu e (s.get e).sources s (fun x hx => by
      have := h.inv.srcLt e x hx
      have := h.inv.len
      omega) h
    generalize anySrc (upd p f) false e (s.get e).sources s = r at hw
    obtain ⟨s2, any⟩ := r
    simp only at hw ⊢
    have hk2 : (s2.get e).kind = .eff := by rw [hw.2]; exact hk
    have he2 : e < s2.nodes.length := s2.lt_of_kind_ne (by rw [hk2]; simp)
    have e1 : ({ (({ s2 with obs := some e } : State).upd e fun n => { n with dirty := false }) with
        obs := none } : State) = ({ s2 with obs := none } : State).upd e fun n => { n with dirty := false } := rfl
    rw [e1, State.setObs_none_eq hw.1.obs]
    refine ⟨hw.1.updEff hk2 _ hk2 rfl rfl (fun _ hx => hx) (Nat.le_refl _) (hw.1.idle e), ?_⟩
    rw [State.get_upd_same (s := { s2 with obs := some e }) _ he2]; exact hk2

/-- one run of the effect body inside the task loop (verbatim) -/
def effRun (p : Prog) (f : Nat) (s : State) (e : Nat) (saved : Option Nat) : State :=
  let s := s.upd e fun n => { n with first := false }
  let s := clearSources s e
  let old := (s.get e).val
  let s := noteRun s e
  let s := { s with obs := some e }
  let (s, v) := evalE (readNode (upd p f)) (setSignal f) e (bodyOf p e) s
  let s := { s with obs := saved }
  s.upd e fun n =>
    { n with val := some v, running := false, ver := (if old != some v then n.ver + 1 else n.ver) }

theorem effLoop_succ (p : Prog) (f k : Nat) (s : State) (e : Nat) :
    effLoop p f (k + 1) s e =
      if !(s.get e).chan then s else
      let s1 := s.upd e fun n => { n with chan := false }
      if (s1.get e).paused then effLoop p f k s1 e else
      let r := effUpdate p f { s1 with obs := some e } e
      let s3 : State := { r.1 with obs := s1.obs }
      if r.2 || (s3.get e).first then effLoop p f k (effRun p f s3 e s1.obs) e
      else effLoop p f k s3 e := by
  rfl

theorem effRun_spec {p : Prog} {f : Nat} (hu : UpdOK p (upd p f) f) (hf : p.length < f)
    (hpe : EffOK p) {s : State} {e : Nat} (h : Quiet p s) (hk : (s.get e).kind = .eff) :
    Quiet p (effRun p f s e none) ∧ ((effRun p f s e none).get e).kind = .eff := by
  have he : e < s.nodes.length := s.lt_of_kind_ne (by rw [hk]; simp)
  have hep : e < p.length := by rw [← h.inv.len]; exact he
  -- first := false
  have q1 := h.updEff hk (fun n => { n with first := false }) hk rfl rfl (fun _ hx => hx)
    (Nat.le_refl _) (h.idle e)
  unfold effRun
  generalize hs1 : (s.upd e fun n => { n with first := false }) = s1 at q1
  have hk1 : (s1.get e).kind = .eff := by subst hs1; rw [State.get_upd_same _ _ he]; exact hk
  have he1 : e < s1.nodes.length := by subst hs1; simpa using he
  -- clearSources
  have t := clearSources_post (s := s1) (m := e) q1.inv.nodup
    (fun i hni hc => hni ((q1.inv.edge i e).1 hc))
    (fun hc => Nat.lt_irrefl e (q1.inv.srcLt e e hc)) he1
  have h2 := clearSources_inv_eff q1.inv t hk1
  simp only
  generalize clearSources s1 e = s2 at t h2
  have hk2 : (s2.get e).kind = .eff := by rw [t.gm]; exact hk1
  have he2 : e < s2.nodes.length := by rw [t.len]; exact he1
  have idle2 : ∀ i, (s2.get i).running = false := by
    intro i; by_cases hi : i = e
    · subst hi; rw [t.gm]; exact q1.idle i
    · rw [t.go i hi]; exact q1.idle i
  have obs2 : s2.obs = none := t.obs.trans q1.obs
  -- noteRun + observer
  generalize hs4 : ({ noteRun s2 e with obs := some e } : State) = s4
  have g4 : ∀ i, s4.get i = if e = i ∧ i < s2.nodes.length then
      { s2.get i with seen := [], runs := (s2.get i).runs + 1, running := true } else s2.get i := by
    intro i; subst hs4; exact noteRun_get s2 e i
  have g4e : s4.get e = { s2.get e with seen := [], runs := (s2.get e).runs + 1, running := true } := by
    rw [g4 e, if_pos ⟨rfl, he2⟩]
  have g4o : ∀ i, i ≠ e → s4.get i = s2.get i := by
    intro i hi; rw [g4 i, if_neg (fun hc => hi hc.1.symm)]
  have h4 : InvR p s4 := by
    have hq2 : Quiet p s2 := ⟨h2, idle2⟩
    have h3 := hq2.inv.updEff hk2 (fun n => { n with seen := [], runs := n.runs + 1, running := true })
      hk2 rfl rfl (fun _ hx => by cases hx) (Nat.le_refl _) (fun _ => rfl)
    refine h3.reobs (s' := s4) ?_ ?_
    · subst hs4
      unfold noteRun
      simp only [State.emit_nodes]
      split <;> rfl
    · intro o ho
      have : o = e := by subst hs4; simpa using ho.symm
      subst this
      rw [State.get_upd_same _ _ he2]
  have l4 : EffLoc s4 e := by
    refine ⟨by subst hs4; rfl, by rw [g4e]; exact hk2, by rw [g4e], ?_⟩
    intro r hr
    by_cases hre : r = e
    · exact hre
    · rw [g4o r hre, idle2 r] at hr; cases hr
  -- the body
  obtain ⟨b, hb⟩ : ∃ b, p[e]? = some (.eff b) := by
    have hd : p[e]? = some p[e] := List.getElem?_eq_getElem hep
    have := h.inv.kind e _ hd
    rw [hk] at this
    cases hp : p[e] with
    | eff b => exact ⟨b, by rw [hd, hp]⟩
    | sig v => rw [hp] at this; cases this
    | memo b => rw [hp] at this; cases this
  have hbody := hpe e b hb
  have hbo : bodyOf p e = b := by simp only [bodyOf, hb]
  have h4len : s4.nodes.length = s2.nodes.length := by subst hs4; exact noteRun_len s2 e
  have ev := evalEff_spec hu (by omega) f (by omega) (bodyOf p e) s4 h4 l4
    (by rw [hbo]; exact hbody.1) (by rw [hbo]; exact hbody.2.1) (by rw [hbo]; exact hbody.2.2)
  generalize evalE (readNode (upd p f)) (setSignal f) e (bodyOf p e) s4 = r at ev
  obtain ⟨s8, v⟩ := r
  simp only at ev ⊢
  obtain ⟨h8, l8⟩ := ev
  have h9 : InvR p ({ s8 with obs := none } : State) :=
    h8.reobs rfl (fun o ho => by cases ho)
  have he9 : e < ({ s8 with obs := none } : State).nodes.length := s8.lt_of_running l8.running
  refine ⟨⟨h9.updEff l8.kind _ l8.kind rfl rfl (fun _ hx => hx) ?_ (fun ho => by cases ho), ?_⟩, ?_⟩
  · simp only [State.setObs_get]; split <;> omega
  · intro i
    rw [State.get_upd]; split
    · rfl
    · next hc =>
      cases hr : (s8.get i).running with
      | false => exact hr
      | true =>
        have := l8.only i hr
        subst this
        exact absurd ⟨rfl, he9⟩ hc
  · rw [State.get_upd_same _ _ he9]; exact l8.kind

theorem Quiet.flagEff {p : Prog} {s : State} (h : Quiet p s) {e : Nat} (hk : (s.get e).kind = .eff)
    (g : Node → Node) (gc : ∀ n, (g n).kind = n.kind ∧ (g n).sources = n.sources ∧ (g n).subs = n.subs ∧
      (g n).seen = n.seen ∧ (g n).ver = n.ver ∧ (g n).running = n.running) :
    Quiet p (s.upd e g) ∧ ((s.upd e g).get e).kind = .eff := by
  have he : e < s.nodes.length := s.lt_of_kind_ne (by rw [hk]; simp)
  have c := gc (s.get e)
  refine ⟨h.updEff hk g (by rw [c.1]; exact hk) c.2.1 c.2.2.1 (fun x hx => by rw [c.2.2.2.1] at hx; exact hx)
    (by rw [c.2.2.2.2.1]; exact Nat.le_refl _) (by rw [c.2.2.2.2.2]; exact h.idle e), ?_⟩
  rw [State.get_upd_same _ _ he, c.1]; exact hk

theorem effLoop_spec {p : Prog} {f : Nat} (hu : UpdOK p (upd p f) f) (hf : p.length < f)
    (hpe : EffOK p) (e : Nat) : ∀ (k : Nat) (s : State), Quiet p s → (s.get e).kind = .eff →
      Quiet p (effLoop p f k s e)
  | 0, s, h, _ => h
  | k + 1, s, h, hk => by
    rw [effLoop_succ]
    split
    · exact h
    · obtain ⟨q1, hk1⟩ := h.flagEff hk (fun n => { n with chan := false })
        (fun _ => ⟨rfl, rfl, rfl, rfl, rfl, rfl⟩)
      simp only
      generalize (s.upd e fun n => { n with chan := false }) = s1 at q1 hk1
      split
      · exact effLoop_spec hu hf hpe e k s1 q1 hk1
      · obtain ⟨q3, hk3⟩ := effUpdate_spec hu (by omega) q1 hk1
        rw [q1.obs]
        generalize effUpdate p f { s1 with obs := some e } e = r at q3 hk3
        obtain ⟨s2, need⟩ := r
        simp only at q3 hk3 ⊢
        have hk3' : (({ s2 with obs := none } : State).get e).kind = .eff := hk3
        split
        · obtain ⟨q4, hk4⟩ := effRun_spec hu hf hpe q3 hk3'
          exact effLoop_spec hu hf hpe e k _ q4 hk4
        · exact effLoop_spec hu hf hpe e k _ q3 hk3'

theorem pollEff_spec {p : Prog} (hp : MemoOK p) (hpe : EffOK p) {s : State} {e : Nat} (h : Quiet p s)
    (hk : (s.get e).kind = .eff) : Quiet p (pollEff p s e) := by
  unfold pollEff
  obtain ⟨q1, hk1⟩ := h.flagEff hk (fun n => { n with woken := false })
    (fun _ => ⟨rfl, rfl, rfl, rfl, rfl, rfl⟩)
  simp only
  generalize (s.upd e fun n => { n with woken := false }) = s1 at q1 hk1
  split
  · exact (q1.flagEff hk1 (fun n => { n with done := true }) (fun _ => ⟨rfl, rfl, rfl, rfl, rfl, rfl⟩)).1
  · exact effLoop_spec (upd_ok hp (fuelFor p)) (by simp [fuelFor]) hpe e 64 s1 q1 hk1

theorem ready_kind {s : State} {e : Nat} (h : e ∈ ready s) : (s.get e).kind = .eff := by
  unfold ready at h
  simp only [List.mem_filter, Bool.and_eq_true, beq_iff_eq] at h
  exact h.2.1.1

theorem pollNth_spec {p : Prog} (hp : MemoOK p) (hpe : EffOK p) {s : State} (h : Quiet p s) (i : Nat) :
    Quiet p (pollNth p s i) := by
  unfold pollNth
  simp only
  split
  · exact h
  · next hne =>
    apply pollEff_spec hp hpe h
    apply ready_kind
    have hpos : 0 < (ready s).length := by
      cases hr : ready s with
      | nil => rw [hr] at hne; simp at hne
      | cons a l => simp
    have hlt : i % (ready s).length < (ready s).length := Nat.mod_lt _ hpos
    rw [List.getD_eq_getElem?_getD, List.getElem?_eq_getElem hlt]
    exact List.getElem_mem hlt

theorem runIdle_spec {p : Prog} (hp : MemoOK p) (hpe : EffOK p) :
    ∀ (k : Nat) (s : State), Quiet p s → Quiet p (runIdle p k s)
  | 0, _, h => h
  | k + 1, s, h => by
    unfold runIdle
    split
    · exact h
    · exact runIdle_spec hp hpe k _ (pollNth_spec hp hpe h 0)

end Leptos.Reactive
