import LeptosModel.Proofs.ViewAttrs2
/-! # Proofs/ViewClass — the class-token string round trip and what `classList.add/remove` do to the
token set -/
namespace Leptos.View
open Leptos.Dom

/-- a valid class token: non-empty, no ASCII whitespace (`ClassList::validate`) -/
def validTokC (w : List Char) : Prop := w ≠ [] ∧ ∀ c ∈ w, isAsciiWs c = false

def joinC : List (List Char) → List Char
  | [] => []
  | [w] => w
  | w :: w' :: ws => w ++ ' ' :: joinC (w' :: ws)

theorem intercalate_eq_joinC : ∀ (ws : List (List Char)), [' '].intercalate ws = joinC ws
  | [] => by simp [List.intercalate, joinC]
  | [w] => by simp [List.intercalate, joinC]
  | w :: w' :: ws => by
    have ih := intercalate_eq_joinC (w' :: ws)
    simp only [List.intercalate, List.intersperse_cons_cons, List.flatten_cons, joinC] at ih ⊢
    rw [ih]; simp

/-- reading a word that contains no whitespace only extends the current token -/
theorem splitWs_word : ∀ (w rest cur : List Char), (∀ c ∈ w, isAsciiWs c = false) →
    splitWs (w ++ rest) cur = splitWs rest (w.reverse ++ cur)
  | [], rest, cur, _ => by simp
  | c :: w, rest, cur, h => by
    have hc : isAsciiWs c = false := h c (by simp)
    simp only [List.cons_append, splitWs, hc, Bool.false_eq_true, if_false]
    rw [splitWs_word w rest (c :: cur) (fun x hx => h x (by simp [hx]))]
    simp

theorem splitWs_joinC : ∀ (ws : List (List Char)), (∀ w ∈ ws, validTokC w) →
    splitWs (joinC ws) [] = ws
  | [], _ => by simp [joinC, splitWs]
  | [w], h => by
    have hw := h w (by simp)
    have := splitWs_word w [] [] hw.2
    simp only [List.append_nil] at this
    simp only [joinC, this, splitWs]
    have : w.reverse.isEmpty = false := by
      cases w with
      | nil => exact absurd rfl hw.1
      | cons _ _ => simp
    simp [this]
  | w :: w' :: ws, h => by
    have hw := h w (by simp)
    have ih := splitWs_joinC (w' :: ws) (fun x hx => h x (by simp [hx]))
    simp only [joinC]
    rw [splitWs_word w _ [] hw.2]
    have hne : w.reverse.isEmpty = false := by
      cases w with
      | nil => exact absurd rfl hw.1
      | cons _ _ => simp
    simp only [List.append_nil, splitWs, hne]
    have hsp : isAsciiWs ' ' = true := by decide
    simp [hsp, ih]

theorem splitWs_valid : ∀ (l cur : List Char), (∀ c ∈ cur, isAsciiWs c = false) →
    ∀ w ∈ splitWs l cur, validTokC w
  | [], cur, hc, w, hw => by
    simp only [splitWs] at hw
    by_cases he : cur.isEmpty
    · simp [he] at hw
    · simp [he] at hw; subst hw
      refine ⟨by simpa using he, fun c hcm => hc c (by simpa using hcm)⟩
  | c :: cs, cur, hc, w, hw => by
    simp only [splitWs] at hw
    by_cases hws : isAsciiWs c = true
    · simp only [hws, if_true] at hw
      by_cases he : cur.isEmpty
      · simp only [he, if_true] at hw; exact splitWs_valid cs [] (by simp) w hw
      · simp only [he] at hw
        simp at hw
        rcases hw with hw | hw
        · subst hw; exact ⟨by simpa using he, fun c hcm => hc c (by simpa using hcm)⟩
        · exact splitWs_valid cs [] (by simp) w hw
    · simp only [hws] at hw
      apply splitWs_valid cs (c :: cur) ?_ w hw
      intro x hx; simp at hx
      rcases hx with hx | hx
      · subst hx; simpa using hws
      · exact hc x hx

theorem mem_dedup : ∀ (l acc : List String) (t : String), t ∈ dedup l acc ↔ t ∈ acc ∨ t ∈ l
  | [], acc, t => by simp [dedup]
  | x :: l, acc, t => by
    simp only [dedup]
    by_cases h : acc.contains x = true
    · simp only [h, if_true, mem_dedup l acc t]
      have hx : x ∈ acc := by simpa using h
      constructor
      · rintro (h1 | h1)
        · exact Or.inl h1
        · exact Or.inr (by simp [h1])
      · rintro (h1 | h1)
        · exact Or.inl h1
        · simp at h1; rcases h1 with h1 | h1
          · subst h1; exact Or.inl hx
          · exact Or.inr h1
    · have hf : acc.contains x = false := by simpa using h
      simp only [hf, Bool.false_eq_true, if_false]
      rw [mem_dedup l (acc ++ [x]) t]
      simp only [List.mem_append, List.mem_cons, List.not_mem_nil, or_false]
      constructor
      · rintro ((h1 | h1) | h1)
        · exact Or.inl h1
        · exact Or.inr (Or.inl h1)
        · exact Or.inr (Or.inr h1)
      · rintro (h1 | h1 | h1)
        · exact Or.inl (Or.inl h1)
        · exact Or.inl (Or.inr h1)
        · exact Or.inr h1

theorem mem_classTokens (s t : String) : t ∈ classTokens s ↔ t.toList ∈ splitWs s.toList [] := by
  simp only [classTokens, mem_dedup, List.not_mem_nil, false_or, List.mem_map]
  constructor
  · rintro ⟨w, hw, rfl⟩; simpa using hw
  · intro h; exact ⟨t.toList, h, by simp⟩

theorem classTokens_valid (s t : String) (h : t ∈ classTokens s) : validTokC t.toList :=
  splitWs_valid s.toList [] (by simp) _ ((mem_classTokens s t).mp h)

/-- the round trip of `ClassList::update`: the tokens written are the tokens read back -/
theorem classTokens_join (ts : List String) (hv : ∀ t ∈ ts, validTokC t.toList) (t : String) :
    t ∈ classTokens (" ".intercalate ts) ↔ t ∈ ts := by
  rw [mem_classTokens, String.toList_intercalate]
  have h1 : (" " : String).toList = [' '] := by decide
  rw [h1, intercalate_eq_joinC, splitWs_joinC _ (by
    intro w hw; simp at hw; obtain ⟨x, hx, rfl⟩ := hw; exact hv x hx)]
  simp only [List.mem_map]
  constructor
  · rintro ⟨x, hx, he⟩; rwa [← String.toList_inj.mp he]
  · intro h; exact ⟨t, h, rfl⟩

end Leptos.View
