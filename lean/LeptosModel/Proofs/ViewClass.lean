import LeptosModel.Proofs.ViewAttrs2
/-! # Proofs/ViewClass — the class-token string round trip and what `classList.add/remove` do to the
token set -/
namespace Leptos.View
open Leptos.Dom

/-- a valid class token: non-empty, no ASCII whitespace (`ClassList::validate`) -/
def validTokC (w : List Char) : Prop := w ≠ [] ∧ ∀ c ∈ w, isAsciiWs c = false

def joinC : List (List Char) → List Char
  | [] => []
  | [w] => w
  | w :: w' :: ws => w ++ ' ' :: joinC (w' :: ws)

theorem intercalate_eq_joinC : ∀ (ws : List (List Char)), [' '].intercalate ws = joinC ws
  | [] => by simp [List.intercalate, joinC]
  | [w] => by simp [List.intercalate, joinC]
  | w :: w' :: ws => by
    have ih := intercalate_eq_joinC (w' :: ws)
    simp only [List.intercalate, List.intersperse_cons_cons, List.flatten_cons, joinC] at ih ⊢
    rw [ih]; simp

/-- reading a word that contains no whitespace only extends the current token -/
theorem splitWs_word : ∀ (w rest cur : List Char), (∀ c ∈ w, isAsciiWs c = false) →
    splitWs (w ++ rest) cur = splitWs rest (w.reverse ++ cur)
  | [], rest, cur, _ => by simp
  | c :: w, rest, cur, h => by
    have hc : isAsciiWs c = false := h c (by simp)
    simp only [List.cons_append, splitWs, hc, Bool.false_eq_true, if_false]
    rw [splitWs_word w rest (c :: cur) (fun x hx => h x (by simp [hx]))]
    simp

theorem splitWs_joinC : ∀ (ws : List (List Char)), (∀ w ∈ ws, validTokC w) →
    splitWs (joinC ws) [] = ws
  | [], _ => by simp [joinC, splitWs]
  | [w], h => by
    have hw := h w (by simp)
    have := splitWs_word w [] [] hw.2
    simp only [List.append_nil] at this
    simp only [joinC, this, splitWs]
    have : w.reverse.isEmpty = false := by
      cases w with
      | nil => exact absurd rfl hw.1
      | cons _ _ => simp
    simp [this]
  | w :: w' :: ws, h => by
    have hw := h w (by simp)
    have ih := splitWs_joinC (w' :: ws) (fun x hx => h x (by simp [hx]))
    simp only [joinC]
    rw [splitWs_word w _ [] hw.2]
    have hne : w.reverse.isEmpty = false := by
      cases w with
      | nil => exact absurd rfl hw.1
      | cons _ _ => simp
    simp only [List.append_nil, splitWs, hne]
    have hsp : isAsciiWs ' ' = true := by decide
    simp [hsp, ih]

theorem splitWs_valid : ∀ (l cur : List Char), (∀ c ∈ cur, isAsciiWs c = false) →
    ∀ w ∈ splitWs l cur, validTokC w
  | [], cur, hc, w, hw => by
    simp only [splitWs] at hw
    by_cases he : cur.isEmpty
    · simp [he] at hw
    · simp [he] at hw; subst hw
      refine ⟨by simpa using he, fun c hcm => hc c (by simpa using hcm)⟩
  | c :: cs, cur, hc, w, hw => by
    simp only [splitWs] at hw
    by_cases hws : isAsciiWs c = true
    · simp only [hws, if_true] at hw
      by_cases he : cur.isEmpty
      · simp only [he, if_true] at hw; exact splitWs_valid cs [] (by simp) w hw
      · simp only [he] at hw
        simp at hw
        rcases hw with hw | hw
        · subst hw; exact ⟨by simpa using he, fun c hcm => hc c (by simpa using hcm)⟩
        · exact splitWs_valid cs [] (by simp) w hw
    · simp only [hws] at hw
      apply splitWs_valid cs (c :: cur) ?_ w hw
      intro x hx; simp at hx
      rcases hx with hx | hx
      · subst hx; simpa using hws
      · exact hc x hx

theorem mem_dedup : ∀ (l acc : List String) (t : String), t ∈ dedup l acc ↔ t ∈ acc ∨ t ∈ l
  | [], acc, t => by simp [dedup]
  | x :: l, acc, t => by
    simp only [dedup]
    by_cases h : acc.contains x = true
    · simp only [h, if_true, mem_dedup l acc t]
      have hx : x ∈ acc := by simpa using h
      constructor
      · rintro (h1 | h1)
        · exact Or.inl h1
        · exact Or.inr (by simp [h1])
      · rintro (h1 | h1)
        · exact Or.inl h1
        · simp at h1; rcases h1 with h1 | h1
          · subst h1; exact Or.inl hx
          · exact Or.inr h1
    · have hf : acc.contains x = false := by simpa using h
      simp only [hf, Bool.false_eq_true, if_false]
      rw [mem_dedup l (acc ++ [x]) t]
      simp only [List.mem_append, List.mem_cons, List.not_mem_nil, or_false]
      constructor
      · rintro ((h1 | h1) | h1)
        · exact Or.inl h1
        · exact Or.inr (Or.inl h1)
        · exact Or.inr (Or.inr h1)
      · rintro (h1 | h1 | h1)
        · exact Or.inl (Or.inl h1)
        · exact Or.inl (Or.inr h1)
        · exact Or.inr h1

theorem mem_classTokens (s t : String) : t ∈ classTokens s ↔ t.toList ∈ splitWs s.toList [] := by
  simp only [classTokens, mem_dedup, List.not_mem_nil, false_or, List.mem_map]
  constructor
  · rintro ⟨w, hw, rfl⟩; simpa using hw
  · intro h; exact ⟨t.toList, h, by simp⟩

theorem classTokens_valid (s t : String) (h : t ∈ classTokens s) : validTokC t.toList :=
  splitWs_valid s.toList [] (by simp) _ ((mem_classTokens s t).mp h)

/-- the round trip of `ClassList::update`: the tokens written are the tokens read back -/
theorem classTokens_join (ts : List String) (hv : ∀ t ∈ ts, validTokC t.toList) (t : String) :
    t ∈ classTokens (" ".intercalate ts) ↔ t ∈ ts := by
  rw [mem_classTokens, String.toList_intercalate]
  have h1 : (" " : String).toList = [' '] := by decide
  rw [h1, intercalate_eq_joinC, splitWs_joinC _ (by
    intro w hw; simp at hw; obtain ⟨x, hx, rfl⟩ := hw; exact hv x hx)]
  simp only [List.mem_map]
  constructor
  · rintro ⟨x, hx, he⟩; rwa [← String.toList_inj.mp he]
  · intro h; exact ⟨t, h, rfl⟩

/-- the class tokens / style declarations an attribute list denotes -/
def clsOf (l : List (String × String)) : List String := classTokens ((getA l "class").getD "")
def styOf (l : List (String × String)) : List (String × String) := styleDecls ((getA l "style").getD "")

def validTok (t : String) : Prop := validTokC t.toList

theorem classTokenError_none (tok : String) (h : validTok tok) : classTokenError tok = none := by
  obtain ⟨h1, h2⟩ := h
  have he : tok.isEmpty = false := by
    cases hb : tok.isEmpty with
    | false => rfl
    | true =>
      have := String.isEmpty_iff.mp hb
      subst this; exact absurd (by decide : ("" : String).toList = []) h1
  have ha : tok.toList.any isAsciiWs = false := by
    simp only [List.any_eq_false]; intro c hc; simp [h2 c hc]
  simp [classTokenError, he, ha]

theorem classTokens_empty : classTokens "" = [] := by decide

theorem join_nil : (" " : String).intercalate [] = "" := by decide

/-- `classList.add(tok)` -/
theorem addClass_attrs (d : Dom) (x : Id) (tok : String) (r : NodeRec)
    (hx : d.get? x = some r) (hk : r.kind.isElem = true) (hv : validTok tok) :
    (∃ r', (d.addClass x tok).get? x = some r' ∧ EqModAttrs r r' ∧
      (∀ k, k ≠ "class" → getA r'.attrs k = getA r.attrs k) ∧
      (∀ t, t ∈ clsOf r'.attrs ↔ t ∈ clsOf r.attrs ∨ t = tok)) ∧
    (∀ y, y ≠ x → (d.addClass x tok).get? y = d.get? y) ∧
    (d.addClass x tok).next = d.next := by
  have hga : d.getAttribute x "class" = getA r.attrs "class" := by
    simp [Dom.getAttribute, Dom.attrsOf, hx]
  simp only [Dom.addClass, classTokenError_none tok hv, hga]
  generalize hts : classTokens ((getA r.attrs "class").getD "") = ts
  have hvalid : ∀ t ∈ ts, validTokC t.toList := by
    intro t ht; rw [← hts] at ht; exact classTokens_valid _ t ht
  let new := if ts.contains tok then ts else ts ++ [tok]
  have hnew_valid : ∀ t ∈ new, validTokC t.toList := by
    intro t ht
    by_cases hc : ts.contains tok = true
    · simp only [new, hc, if_true] at ht; exact hvalid t ht
    · have hf : ts.contains tok = false := by simpa using hc
      simp only [new, hf, Bool.false_eq_true, if_false, List.mem_append, List.mem_singleton] at ht
      rcases ht with ht | ht
      · exact hvalid t ht
      · subst ht; exact hv
  have hnew_mem : ∀ t, t ∈ new ↔ t ∈ ts ∨ t = tok := by
    intro t
    by_cases hc : ts.contains tok = true
    · simp only [new, hc, if_true]
      have : tok ∈ ts := by simpa using hc
      constructor
      · exact Or.inl
      · rintro (h | h); exact h; exact h ▸ this
    · have hnm : tok ∉ ts := by simpa using hc
      simp [new, hnm]
  have hne : new.isEmpty = false := by
    by_cases hc : ts.contains tok = true
    · have : tok ∈ ts := by simpa using hc
      simp only [new, hc, if_true]
      cases ts with
      | nil => simp at this
      | cons _ _ => rfl
    · have hnm : tok ∉ ts := by simpa using hc
      simp [new, hnm]
  have hcu : d.classUpdate x new = d.setAttribute x "class" (" ".intercalate new) := by
    simp [Dom.classUpdate, hne]
  show (∃ r', (d.classUpdate x new).get? x = some r' ∧ _) ∧ _
  rw [hcu]
  obtain ⟨⟨r', h1, h2, h3⟩, h4, h5⟩ := setAttribute_attrs d x "class" (" ".intercalate new) r hx hk
  refine ⟨⟨r', h1, h2, fun k hkc => by rw [h3 k]; simp [hkc], ?_⟩, h4, h5⟩
  intro t
  have : getA r'.attrs "class" = some (" ".intercalate new) := by rw [h3]; simp
  simp only [clsOf, this, Option.getD_some, hts]
  rw [classTokens_join new hnew_valid t, hnew_mem t]

/-- `classList.remove(tok)` -/
theorem removeClass_attrs (d : Dom) (x : Id) (tok : String) (r : NodeRec)
    (hx : d.get? x = some r) (hk : r.kind.isElem = true) (hv : validTok tok) :
    (∃ r', (d.removeClass x tok).get? x = some r' ∧ EqModAttrs r r' ∧
      (∀ k, k ≠ "class" → getA r'.attrs k = getA r.attrs k) ∧
      (∀ t, t ∈ clsOf r'.attrs ↔ t ∈ clsOf r.attrs ∧ t ≠ tok)) ∧
    (∀ y, y ≠ x → (d.removeClass x tok).get? y = d.get? y) ∧
    (d.removeClass x tok).next = d.next := by
  have hga : d.getAttribute x "class" = getA r.attrs "class" := by
    simp [Dom.getAttribute, Dom.attrsOf, hx]
  simp only [Dom.removeClass, classTokenError_none tok hv, hga]
  generalize hts : classTokens ((getA r.attrs "class").getD "") = ts
  have hvalid : ∀ t ∈ ts, validTokC t.toList := by
    intro t ht; rw [← hts] at ht; exact classTokens_valid _ t ht
  have hnew_valid : ∀ t ∈ ts.filter (· != tok), validTokC t.toList := by
    intro t ht; exact hvalid t (List.mem_filter.mp ht).1
  have hnew_mem : ∀ t, t ∈ ts.filter (· != tok) ↔ t ∈ ts ∧ t ≠ tok := by
    intro t; simp [List.mem_filter]
  by_cases hskip : ((ts.filter (· != tok)).isEmpty && (getA r.attrs "class").isNone) = true
  · -- nothing to update: no class attribute and no tokens
    have hcu : d.classUpdate x (ts.filter (· != tok)) = d := by
      simp only [Dom.classUpdate, hga, hskip, if_true]
    rw [hcu]
    refine ⟨⟨r, hx, ⟨rfl, rfl, rfl, rfl⟩, fun _ _ => rfl, ?_⟩, fun _ _ => rfl, rfl⟩
    simp only [Bool.and_eq_true, Option.isNone_iff_eq_none] at hskip
    intro t
    have hts0 : ts = [] := by rw [← hts, hskip.2]; exact classTokens_empty
    simp [clsOf, hskip.2, classTokens_empty, hts0] at *
  · have hcu : d.classUpdate x (ts.filter (· != tok)) =
        d.setAttribute x "class" (" ".intercalate (ts.filter (· != tok))) := by
      simp only [Dom.classUpdate, hga]
      simp only [hskip, Bool.false_eq_true, if_false]
    rw [hcu]
    obtain ⟨⟨r', h1, h2, h3⟩, h4, h5⟩ :=
      setAttribute_attrs d x "class" (" ".intercalate (ts.filter (· != tok))) r hx hk
    refine ⟨⟨r', h1, h2, fun k hkc => by rw [h3 k]; simp [hkc], ?_⟩, h4, h5⟩
    intro t
    have : getA r'.attrs "class" = some (" ".intercalate (ts.filter (· != tok))) := by rw [h3]; simp
    simp only [clsOf, this, Option.getD_some, hts]
    rw [classTokens_join _ hnew_valid t, hnew_mem t]

end Leptos.View
