import LeptosModel.Proofs.HydrateThen
import LeptosModel.Proofs.HydrateState
import LeptosModel.Proofs.ViewAttrs
import LeptosModel.Proofs.ViewSer2
/-! Helper lemmas for C05, part 13: assembly of `C05_then_like_csr` — the hydrated world with its
separators erased is a mounted representation in the sense of C03; rebuilding commutes with the
erasure; C03's `rebuild_spec` gives the result on the erased side and on the client-built side. -/
namespace Leptos.Hydrate
open Leptos.Dom Leptos.View

mutual
/-- every element has only static string attributes with pairwise distinct names (the attribute
fragment for which C03 proves `rebuild`) -/
def staticV : View → Bool
  | .elem _ as c => decide (StaticAttrs as) && staticV c
  | .tuple vs => staticL vs
  | .osome v => staticV v
  | .either _ _ v => staticV v
  | .vec vs => staticL vs
  | .any _ v => staticV v
  | _ => true
def staticL : List View → Bool
  | [] => true
  | v :: vs => staticV v && staticL vs
end

mutual
theorem staticV_allEl : ∀ (v : View), staticV v = true → AllEl StaticAttrs v
  | .text _, _ => by simp [AllEl]
  | .unit, _ => by simp [AllEl]
  | .onone, _ => by simp [AllEl]
  | .elem _ as c, h => by
    simp [staticV] at h; simp only [AllEl]; exact ⟨h.1, staticV_allEl c h.2⟩
  | .tuple vs, h => by simp only [staticV] at h; simp only [AllEl]; exact staticL_allEl vs h
  | .osome v, h => by simp only [staticV] at h; simp only [AllEl]; exact staticV_allEl v h
  | .either _ _ v, h => by simp only [staticV] at h; simp only [AllEl]; exact staticV_allEl v h
  | .vec vs, h => by simp only [staticV] at h; simp only [AllEl]; exact staticL_allEl vs h
  | .any _ v, h => by simp only [staticV] at h; simp only [AllEl]; exact staticV_allEl v h
theorem staticL_allEl : ∀ (vs : List View), staticL vs = true → AllElList StaticAttrs vs
  | [], _ => by simp [AllElList]
  | v :: vs, h => by
    simp only [staticL, Bool.and_eq_true] at h
    simp only [AllElList]; exact ⟨staticV_allEl v h.1, staticL_allEl vs h.2⟩
end

variable {R : List (String × String) → List (String × String) → Prop} {Good : List AttrVal → Prop}

mutual
theorem sim_eq : ∀ (a b : Dom.Tree), Tree.sim Eq a b → a = b
  | .elem _ _ k1, .elem _ _ k2, h => by
    simp only [Tree.sim] at h
    obtain ⟨h1, h2, h3⟩ := h
    rw [h1, h2, simList_eq k1 k2 h3]
  | .text _, .text _, h => by simp only [Tree.sim] at h; rw [h]
  | .comment _, .comment _, h => by simp only [Tree.sim] at h; rw [h]
  | .elem _ _ _, .text _, h => by simp [Tree.sim] at h
  | .elem _ _ _, .comment _, h => by simp [Tree.sim] at h
  | .text _, .elem _ _ _, h => by simp [Tree.sim] at h
  | .text _, .comment _, h => by simp [Tree.sim] at h
  | .comment _, .elem _ _ _, h => by simp [Tree.sim] at h
  | .comment _, .text _, h => by simp [Tree.sim] at h
theorem simList_eq : ∀ (a b : List Dom.Tree), Tree.simList Eq a b → a = b
  | [], [], _ => rfl
  | [], _ :: _, h => by simp [Tree.simList] at h
  | _ :: _, [], h => by simp [Tree.simList] at h
  | a :: as, b :: bs, h => by
    simp only [Tree.simList] at h
    rw [sim_eq a b h.1, simList_eq as bs h.2]
end

/-- a mounted representation without siblings serialises, with the fuel of `serializeKids`, to `render v` up to
the attribute relation -/
theorem stateOk_serSim (F : Frag R Good) {d : Dom} {v : View} {st : State} {p : Id} (hw : wfH v = true)
    (h : StateOk R d v st p [] []) (m : Nat) (hm : (owned st).length + 1 ≤ m) :
    ∃ ts, serListN m d (d.kidsOf p) = some ts ∧ Tree.simList R ts (render v) := by
  have hs : SiblingsOk d (owned st) p [] [] 0 [] [] :=
    ⟨by simp [serListN, allSome], by simp [serListN, allSome], by simp⟩
  have hd := depth_le_owned v st (some p) hw h.rep
  obtain ⟨ts, h1, h2⟩ := h.serSim F.refl hs m (by omega)
  exact ⟨ts, h1, by simpa using h2⟩

theorem owned_length_lt {d : Dom} {st : State} {p : Id} {R : List Id} (h : Inv d R (owned st) p [] []) :
    (owned st).length + 1 ≤ d.next := by
  have hnd : (p :: owned st).Nodup := List.nodup_cons.mpr ⟨h.pnot, h.nodup⟩
  have hb : ∀ x ∈ p :: owned st, x < d.next := by
    intro x hx
    simp only [List.mem_cons] at hx
    rcases hx with hx | hx
    · subst hx; exact h.plt
    · exact h.lt x hx
  simpa using nodup_bounded d.next (p :: owned st) hnd hb

/-- one `rebuild` of a mounted representation (C03 `rebuild_spec`) -/
theorem rebuild_stateOk (F : Frag R Good) (a b : View) (ty : Ty) (st : State) (d : Dom) (p : Id)
    (hta : HasTy a ty) (htb : HasTy b ty) (ha : AllEl Good a) (hb : AllEl Good b)
    (hok : StateOk R d a st p [] []) :
    StateOk R (rebuild false b st d).1 b (rebuild false b st d).2 p [] [] := by
  obtain ⟨h1, h2⟩ := rebuild_spec (R := R) Good F.fresh F.rebuild b a ty st false d p [] []
    hta.1 hta.2 htb.2 ha hb hok.rep hok.inv
  exact ⟨h1, h2.inv⟩

/-- the client-built twin: built, mounted and rebuilt it shows `render b`, up to the attribute relation -/
theorem csr_side_gen (F : Frag R Good) (a b : View) (ty : Ty) (hta : HasTy a ty) (htb : HasTy b ty) (ha : AllEl Good a)
    (hb : AllEl Good b) (hwb : wfH b = true) : ∃ k2, runCsr a b = some k2 ∧ Tree.simList R k2 (render b) := by
  have hroot : (({} : Dom).createElement "div").1.get? 0 = some { kind := .elem "div", data := "" } := by
    show (({} : Dom).create _ _).1.get? 0 = _
    rw [Dom.get?_create]; rfl
  have hnext : (({} : Dom).createElement "div").1.next = 1 := rfl
  obtain ⟨hok, _, _, _⟩ := build_mount_spec (R := R) a (({} : Dom).createElement "div").1 0 [] []
    { kind := .elem "div", data := "" } (allEl_fresh F ha) hroot rfl rfl (by rw [hnext]; exact Nat.zero_lt_one)
    (by simp) (by simp [Anchor])
  have hok2 := rebuild_stateOk F a b ty _ _ 0 hta htb ha hb hok
  obtain ⟨k2, hser, hsim⟩ := stateOk_serSim F hwb hok2 _ (Nat.le_succ_of_le (owned_length_lt hok2.inv))
  exact ⟨k2, by simpa [runCsr, Dom.createElement, serializeKids] using hser, hsim⟩

/-- the client-built twin, static string attributes: exactly `render b` -/
theorem csr_side (a b : View) (ty : Ty) (hta : HasTy a ty) (htb : HasTy b ty) (ha : AllEl StaticAttrs a)
    (hb : AllEl StaticAttrs b) (hwb : wfH b = true) : runCsr a b = some (render b) := by
  obtain ⟨k2, h1, h2⟩ := csr_side_gen fragStatic a b ty hta htb ha hb hwb
  rw [h1, simList_eq _ _ h2]

/-! ### the hydrated side -/

mutual
theorem bound_empty_kind {d : Dom} : (st : State) → bound d st = true → ∀ i ∈ emptyIds st, d.kindOf i = some .text
  | .text i s, h, x, hx => by
    by_cases hs : s = "" <;> simp [emptyIds, hs] at hx
    subst hx
    simp only [bound, Bool.and_eq_true, beq_iff_eq] at h
    exact h.1
  | .unit _, _, _, hx => by simp [emptyIds] at hx
  | .elem _ _ none, _, _, hx => by simp [emptyIds] at hx
  | .elem _ _ (some c), h, x, hx => by
    simp only [bound, Bool.and_eq_true] at h
    exact bound_empty_kind c h.2 x (by simpa [emptyIds] using hx)
  | .tuple sts, h, x, hx => boundL_empty_kind sts (by simpa [bound] using h) x (by simpa [emptyIds] using hx)
  | .either _ st, h, x, hx => bound_empty_kind st (by simpa [bound] using h) x (by simpa [emptyIds] using hx)
  | .any _ st, h, x, hx => bound_empty_kind st (by simpa [bound] using h) x (by simpa [emptyIds] using hx)
  | .vec sts _, h, x, hx => by
    simp only [bound, Bool.and_eq_true] at h
    exact boundL_empty_kind sts h.1 x (by simpa [emptyIds] using hx)
theorem boundL_empty_kind {d : Dom} : (sts : List State) → boundL d sts = true →
    ∀ i ∈ emptyIdsL sts, d.kindOf i = some .text
  | [], _, _, hx => by simp [emptyIdsL] at hx
  | s :: ss, h, x, hx => by
    simp only [boundL, Bool.and_eq_true] at h
    simp only [emptyIdsL, List.mem_append] at hx
    rcases hx with hx | hx
    · exact bound_empty_kind s h.1 x hx
    · exact boundL_empty_kind ss h.2 x hx
end

theorem loadRoot_facts (ts : List HTree) (h : nodupAttrsL ts = true) :
    (loadRoot ts).2.1 = 0 ∧
    (∃ r, (loadRoot ts).1.get? 0 = some r ∧ r.kind.isElem = true ∧ r.kids = (loadRoot ts).2.2.map IdTree.id) ∧
    realL (loadRoot ts).1 ts (loadRoot ts).2.2 0 ∧ ((loadRoot ts).2.2.map IdTree.id).Nodup ∧
    (idsOfL (loadRoot ts).2.2).Pairwise (· < ·) ∧
    (∀ x ∈ idsOfL (loadRoot ts).2.2, 1 ≤ x ∧ x < (loadRoot ts).1.next) ∧ 1 ≤ (loadRoot ts).1.next := by
  have hroot : (({} : Dom).createElement "div").1.get? 0 = some { kind := .elem "div", data := "" } := by
    show (({} : Dom).create _ _).1.get? 0 = _
    rw [Dom.get?_create]; rfl
  obtain ⟨hres, hreal, hnd⟩ := loadL_spec ts 0 (({} : Dom).createElement "div").1 _ fresh_root hroot rfl h
  obtain ⟨rp', h1, h2, _, _, _, h6⟩ := hres.par
  have e : loadRoot ts = ((loadTrees ts 0 (({} : Dom).createElement "div").1).1, 0,
      (loadTrees ts 0 (({} : Dom).createElement "div").1).2) := rfl
  rw [e]
  have hn : (({} : Dom).createElement "div").1.next = 1 := rfl
  refine ⟨rfl, ⟨rp', h1, by rw [h2]; rfl, by simpa using h6⟩, hreal, hnd, hres.sorted, ?_, ?_⟩
  · intro x hx
    have := hres.range x hx
    rw [hn] at this
    exact this
  · have := hres.le
    rw [hn] at this
    exact this

/-- the walk on the loaded DOM of `domOf a` -/
theorem hydrate_loaded (a : View) (hwa : wfV [[]] a = true) :
    ∃ c, hydrateFrom (loadRoot (domOf a)).1 0 a = .ok ⟨(adopt a .firstChild (loadRoot (domOf a)).2.2).1, c, 0⟩ ∧
      bound (loadRoot (domOf a)).1 (adopt a .firstChild (loadRoot (domOf a)).2.2).1 = true := by
  obtain ⟨_, ⟨r, hget, _, hkids⟩, hreal, hnd, _, _, _⟩ := loadRoot_facts (domOf a) (nodupAttrs_dom a _ .firstChild hwa)
  have hc : Ctx (loadRoot (domOf a)).1 0 ((loadRoot (domOf a)).2.2.map IdTree.id) :=
    ⟨by simp [Dom.kidsOf, hget, hkids], hnd, realL_parent hreal⟩
  obtain ⟨consumed, rest, c', _, _, h3, _, _, _, h7⟩ :=
    hyd_view (loadRoot (domOf a)).1 a 0 ((loadRoot (domOf a)).2.2.map IdTree.id) [] (loadRoot (domOf a)).2.2
      ⟨0, .firstChild⟩ [] hc (by simp) (wfH_of_wfV a _ hwa) (by simpa [domOf] using hreal) (Or.inl ⟨rfl, rfl, rfl⟩)
  exact ⟨c', h3, h7⟩

theorem pairwise_lt_nodup : ∀ (l : List Nat), l.Pairwise (· < ·) → l.Nodup
  | [], _ => List.nodup_nil
  | a :: l, h => by
    simp only [List.pairwise_cons] at h
    exact List.nodup_cons.mpr ⟨fun hm => Nat.lt_irrefl a (h.1 a hm), pairwise_lt_nodup l h.2⟩

/-- **the hydrated side**: SSR of `a`, parsed, loaded, hydrated with `a`, rebuilt with `b` — the children of
the root serialise (with the fuel of `serializeKids`) to trees that `stripL` cannot tell from `render b` -/
theorem hydrated_side_gen (F : Frag R Good) (a b : View) (ty : Ty) (hta : HasTy a ty) (htb : HasTy b ty)
    (hwa : wfV [[]] a = true) (hwb : wfH b = true) (ha : AllEl Good a) (hb : AllEl Good b)
    (hfa : fullV a = true) :
    ∃ k1 t1, runHydrated (domOf a) a b = ⟨.ok (), 0, some k1⟩ ∧ stripL k1 = stripL t1 ∧
      Tree.simList R t1 (render b) := by
  obtain ⟨_, ⟨r0, hget0, hel0, hkids0⟩, hreal, _, hsorted, hrange, hnext⟩ :=
    loadRoot_facts (domOf a) (nodupAttrs_dom a _ .firstChild hwa)
  obtain ⟨c, hwalk, hbound⟩ := hydrate_loaded a hwa
  generalize hd0 : (loadRoot (domOf a)).1 = d0 at *
  generalize hf : (loadRoot (domOf a)).2.2 = f at *
  -- what the state owns, what the separators are
  obtain ⟨consumed, hsplit, hrest, hperm, hsepk⟩ :=
    hyd_shape d0 a 0 .firstChild f [] (wfH_of_wfV a _ hwa) (by simpa [domOf] using hreal)
  have hrest0 : (adopt a .firstChild f).2 = [] := by
    cases h : (adopt a .firstChild f).2 with
    | nil => rfl
    | cons _ _ => rw [h] at hrest; simp [realL] at hrest
  have hcons : consumed = f := by rw [hrest0] at hsplit; simpa using hsplit.symm
  subst hcons
  generalize hst : (adopt a .firstChild consumed).1 = st at *
  generalize hS : sepsOf a .firstChild consumed = S at *
  have hnd : (owned st ++ S).Nodup := (hperm.nodup_iff).mp (pairwise_lt_nodup _ hsorted)
  have hrng : ∀ x ∈ owned st ++ S, 1 ≤ x ∧ x < d0.next := fun x hx => hrange x ((hperm.mem_iff).mpr hx)
  have hdisj : ∀ x ∈ owned st, x ∉ S := fun x hx hs => (List.nodup_append.mp hnd).2.2 x hx x hs rfl
  have h0S : (0 : Id) ∉ S := fun h => by have := (hrng 0 (by simp [h])).1; omega_nat
  have h0O : (0 : Id) ∉ owned st := fun h => by have := (hrng 0 (by simp [h])).1; omega_nat
  -- the world after the writes, with the separators erased
  have hkT : ∀ i ∈ emptyIds st, d0.kindOf i = some .text := bound_empty_kind st hbound
  have hE : EWorld d0 (erase (settle st d0) S) S (emptyIds st) := by
    refine ⟨fun x r hx hr => ?_⟩
    obtain ⟨r1, h1, k1, p1, c1, a1, e1⟩ := settle_get st d0 hkT x r hr
    refine ⟨eraseRec S r1, by rw [get?_erase_keep _ hx, h1]; rfl, k1, p1, a1, by simp [eraseRec, c1], e1⟩
  have hloc : Loc S (emptyIds st) (owned st) (emptyIds st) S :=
    ⟨fun _ h => h, hdisj, fun _ _ h => h, fun _ h => h, (List.nodup_append.mp hnd).1⟩
  obtain ⟨hrep0, c2, hsplit2, _, hroots⟩ := hyd_rep hE a [[]] 0 .firstChild consumed [] hwa (AllEl.mono F.plain a ha) hfa
    (by simpa [domOf] using hreal) (by rw [hst, hS]; exact hloc)
  have hrep := Rep.mono (R := Eq) (R' := R) (fun x y e => e ▸ F.refl x) a _ _ hrep0
  rw [hst] at hrep hroots
  have hc2 : c2 = consumed := by
    have : (adopt a .firstChild consumed).2 = [] := hrest0
    rw [this] at hsplit2; simpa using hsplit2.symm
  rw [hc2] at hroots
  obtain ⟨r0', hg0', hk0', _, _, hkids0', _⟩ := hE.get 0 r0 h0S hget0
  have hnextE : (erase (settle st d0) S).next = d0.next := by simp [settle_next]
  have hinv : Inv (erase (settle st d0) S) st.roots (owned st) 0 [] [] :=
    Inv.ofState ⟨r0', hg0', by rw [hk0']; exact hel0, by rw [hkids0', hkids0, hroots]; simp⟩
      (List.nodup_append.mp hnd).1 h0O (by simp)
      (fun x hx => by rw [hnextE]; exact (hrng x (by simp [hx])).2) (by rw [hnextE]; omega_nat) (by simp)
  have hok : StateOk R (erase (settle st d0) S) a st 0 [] [] := ⟨hrep, hinv⟩
  -- rebuild on the erased side (C03), and its commutation with the erasure
  have hok2 := rebuild_stateOk F a b ty st _ 0 hta htb ha hb hok
  have hside : SideZ (settle st d0) S :=
    ⟨fun z hz => by rw [settle_next]; exact (hrng z (by simp [hz])).2,
      fun z hz => by
        rw [isElement_kindOf, (settle_sameShape st d0).kind z, hsepk z hz]; rfl⟩
  have hown : OwnOk S (settle st d0) st :=
    fun x hx => ⟨hdisj x hx, by rw [settle_next]; exact (hrng x (by simp [hx])).2⟩
  have hstep := erase_rebuild F S b false st (settle st d0) hside hown hb
  have hgrow := hstep.grow
  rw [hstep.comm] at hok2
  simp only [] at hok2
  generalize hd1 : (rebuild false b st (settle st d0)).1 = d1 at *
  generalize hst1 : (rebuild false b st (settle st d0)).2 = st1 at *
  have hlen := owned_length_lt hok2.inv
  simp only [erase_next] at hlen
  obtain ⟨t1, hser, hsim⟩ := stateOk_serSim F hwb hok2 d1.next hlen
  rw [kidsOf_erase d1 h0S] at hser
  have hZ : ∀ z ∈ S, d1.kindOf z = some .comment := by
    intro z hz
    rw [hgrow.kind z (hside.lt z hz), (settle_sameShape st d0).kind z]
    exact hsepk z hz
  obtain ⟨k1, hk1, hstrip⟩ := serList_erase d1 S hZ d1.next (d1.kidsOf 0) t1 hser
  refine ⟨k1, t1, ?_, hstrip, hsim⟩
  have hwalk' : hydrateFrom d0 0 a = .ok ⟨st, c, 0⟩ := hwalk
  have hload : loadRoot (domOf a) = (d0, 0, consumed) := by
    have e : loadRoot (domOf a) = ((loadRoot (domOf a)).1, 0, (loadRoot (domOf a)).2.2) := rfl
    rw [e, hd0, hf]
  simp only [runHydrated, hload, hydrateDom, hwalk', hd1, serializeKids, hk1]

/-- the hydrated side, static string attributes: `stripL` cannot tell the result from `render b` -/
theorem hydrated_side (a b : View) (ty : Ty) (hta : HasTy a ty) (htb : HasTy b ty)
    (hwa : wfV [[]] a = true) (hwb : wfH b = true) (ha : AllEl StaticAttrs a) (hb : AllEl StaticAttrs b)
    (hfa : fullV a = true) :
    ∃ k1, runHydrated (domOf a) a b = ⟨.ok (), 0, some k1⟩ ∧ stripL k1 = stripL (render b) := by
  obtain ⟨k1, t1, h1, h2, h3⟩ := hydrated_side_gen fragStatic a b ty hta htb hwa hwb ha hb hfa
  exact ⟨k1, h1, by rw [h2, simList_eq _ _ h3]⟩

end Leptos.Hydrate
