import LeptosModel.Model.ServerFn
import LeptosModel.Proofs.ServerFnB64
/-!
# Proofs/ServerFnForm — `form_urlencoded` serialise / parse round trip (pairs appended by `to_url`)
-/
namespace Leptos.ServerFn
open Leptos

theorem hexVal_hexUp' : ∀ n, n < 16 → Url.hexVal (Url.hexUp n) = some n := by decide

theorem hexUp_range : ∀ n, n < 16 → Url.hexUp n ≠ 43 ∧ Url.hexUp n ≠ 38 ∧ Url.hexUp n ≠ 61 ∧ Url.hexUp n ≠ 35 ∧ Url.hexUp n < 128 := by
  decide

theorem tripleVal_hexUp' (b : Nat) (hb : b < 256) (rest : List Nat) :
    Url.tripleVal (Url.hexUp (b / 16) :: Url.hexUp (b % 16) :: rest) = some b := by
  have h1 := hexVal_hexUp' (b / 16) (by omega)
  have h2 := hexVal_hexUp' (b % 16) (by omega)
  simp only [Url.tripleVal, h1, h2]
  congr 1; omega

theorem formUnchanged_props {b : Nat} (h : formUnchanged b = true) :
    b ≠ 37 ∧ b ≠ 43 ∧ b ≠ 38 ∧ b ≠ 61 ∧ b ≠ 35 ∧ b < 128 := by
  simp only [formUnchanged, Url.isAlnum, Bool.or_eq_true, Bool.and_eq_true, beq_iff_eq, decide_eq_true_eq] at h
  omega

/-- percent-decoding (after `+` ↦ space) inverts `byte_serialize` -/
theorem pctGo_formEnc (s : Bytes) (hs : IsBytes s) :
    Url.pctGo 0 (Url.plusToSpace (formEnc s)) = s := by
  induction s with
  | nil => simp [formEnc, Url.plusToSpace, Url.pctGo]
  | cons b bs ih =>
    have hb : b < 256 := hs b (by simp)
    have ih' := ih (fun x hx => hs x (by simp [hx]))
    simp only [Url.plusToSpace] at ih' ⊢
    unfold formEnc
    split
    · next h =>
      obtain ⟨h37, h43, _⟩ := formUnchanged_props h
      simp [Url.pctGo, h37, h43, ih']
    · split
      · next h => subst h; simp [Url.pctGo, ih']
      · next hu h32 =>
        obtain ⟨p1, _, _, _, _⟩ := hexUp_range (b / 16) (by omega)
        obtain ⟨p2, _, _, _, _⟩ := hexUp_range (b % 16) (by omega)
        simp [Url.pctGo, p1, p2, tripleVal_hexUp' b hb, ih']

/-- the serialised form contains none of the delimiters `&`, `=`, `#` and is ASCII -/
theorem formEnc_clean (s : Bytes) (hs : IsBytes s) : ∀ x ∈ formEnc s, x ≠ 38 ∧ x ≠ 61 ∧ x ≠ 35 ∧ x < 128 := by
  induction s with
  | nil => simp [formEnc]
  | cons b bs ih =>
    have hb : b < 256 := hs b (by simp)
    have ih' := ih (fun x hx => hs x (by simp [hx]))
    unfold formEnc
    split
    · next h =>
      obtain ⟨_, _, h38, h61, h35, hlt⟩ := formUnchanged_props h
      intro x hx
      simp only [List.mem_cons] at hx
      rcases hx with h | h
      · subst h; exact ⟨h38, h61, h35, hlt⟩
      · exact ih' x h
    · split
      · intro x hx
        simp only [List.mem_cons] at hx
        rcases hx with h | h
        · subst h; omega
        · exact ih' x h
      · obtain ⟨_, a1, a2, a3, a4⟩ := hexUp_range (b / 16) (by omega)
        obtain ⟨_, b1, b2, b3, b4⟩ := hexUp_range (b % 16) (by omega)
        intro x hx
        simp only [List.mem_cons] at hx
        rcases hx with h | h | h | h
        · subst h; omega
        · subst h; exact ⟨a1, a2, a3, a4⟩
        · subst h; exact ⟨b1, b2, b3, b4⟩
        · exact ih' x h

/-! ### splitting -/

theorem splitOn_ne_nil (sep : Nat) (s : Bytes) : Url.splitOn sep s ≠ [] := by
  induction s with
  | nil => simp [Url.splitOn]
  | cons b bs ih =>
    unfold Url.splitOn
    split
    · simp
    · split <;> simp

theorem splitOn_append (sep : Nat) (q r : Bytes) :
    Url.splitOn sep (q ++ sep :: r) = Url.splitOn sep q ++ Url.splitOn sep r := by
  induction q with
  | nil => simp [Url.splitOn]
  | cons b bs ih =>
    by_cases hb : b = sep
    · simp [Url.splitOn, hb, ← ih]
    · have hne := splitOn_ne_nil sep bs
      simp only [List.cons_append, Url.splitOn, hb, if_false, ih]
      cases hq : Url.splitOn sep bs with
      | nil => exact absurd hq hne
      | cons p ps => simp

theorem splitOn_no_sep (sep : Nat) (s : Bytes) (h : ∀ x ∈ s, x ≠ sep) : Url.splitOn sep s = [s] := by
  induction s with
  | nil => simp [Url.splitOn]
  | cons b bs ih =>
    have hb : b ≠ sep := h b (by simp)
    simp [Url.splitOn, hb, ih (fun x hx => h x (by simp [hx]))]

theorem splitFirst_append (sep : Nat) (k v : Bytes) (h : ∀ x ∈ k, x ≠ sep) :
    Url.splitFirst sep (k ++ sep :: v) = (k, v) := by
  induction k with
  | nil => simp [Url.splitFirst]
  | cons b bs ih =>
    have hb : b ≠ sep := h b (by simp)
    simp [Url.splitFirst, hb, ih (fun x hx => h x (by simp [hx]))]

/-- `form_urlencoded::parse` distributes over `&` -/
theorem formParse_append (q r : Bytes) : Url.formParse (q ++ 38 :: r) = Url.formParse q ++ Url.formParse r := by
  simp [Url.formParse, splitOn_append]

/-! ### UTF-8 lossy decoding is the identity on well-formed text -/

theorem lossyGo_of_valid' (s : List Nat) : ∀ k, Url.validGo k s = true → Url.lossyGo k 0 s = s := by
  induction s with
  | nil => intro k _; cases k <;> simp [Url.lossyGo]
  | cons b bs ih =>
    intro k h
    cases k with
    | succ k => simp [Url.lossyGo, Url.validGo] at h ⊢; exact ih k h
    | zero =>
      simp only [Url.validGo] at h
      simp only [Url.lossyGo]
      split at h
      · next n hn => simp [ih _ h]
      · simp at h

theorem formDecode_formEnc (s : Bytes) (hs : IsBytes s) (hv : Url.utf8Valid s = true) :
    Url.formDecode (formEnc s) = s := by
  simp only [Url.formDecode, Url.pctDecode, pctGo_formEnc s hs]
  exact lossyGo_of_valid' s 0 hv

/-- one serialised pair parses back to exactly that pair -/
theorem formParse_pair (k v : Bytes) (hk : IsBytes k) (hv : IsBytes v)
    (uk : Url.utf8Valid k = true) (uv : Url.utf8Valid v = true) :
    Url.formParse (formEnc k ++ 61 :: formEnc v) = [(k, v)] := by
  have ck := formEnc_clean k hk
  have cv := formEnc_clean v hv
  have hno : ∀ x ∈ formEnc k ++ 61 :: formEnc v, x ≠ 38 := by
    intro x hx
    simp only [List.mem_append, List.mem_cons] at hx
    rcases hx with h | h | h
    · exact (ck x h).1
    · omega
    · exact (cv x h).1
  have hsf := splitFirst_append 61 (formEnc k) (formEnc v) (fun x hx => (ck x hx).2.1)
  simp [Url.formParse, splitOn_no_sep 38 _ hno, hsf, formDecode_formEnc k hk uk, formDecode_formEnc v hv uv]

/-- `append_pair` adds exactly one pair at the end, whatever the query held before -/
theorem formParse_appendPair (q k v : Bytes) (hk : IsBytes k) (hv : IsBytes v)
    (uk : Url.utf8Valid k = true) (uv : Url.utf8Valid v = true) :
    Url.formParse (appendPair q k v) = Url.formParse q ++ [(k, v)] := by
  unfold appendPair
  by_cases hq : q.isEmpty = true
  · have : q = [] := by simpa using hq
    subst this
    simp only [List.isEmpty_nil, if_true, List.nil_append, formParse_pair k v hk hv uk uv]
    simp [Url.formParse, Url.splitOn]
  · simp only [hq, if_false, Bool.false_eq_true]
    rw [List.append_assoc, List.singleton_append, formParse_append, formParse_pair k v hk hv uk uv]

/-- the whole serialiser: parsing returns the old pairs followed by the new ones -/
theorem formParse_serializePairs (kvs : List (Bytes × Bytes))
    (h : ∀ kv ∈ kvs, IsBytes kv.1 ∧ IsBytes kv.2 ∧ Url.utf8Valid kv.1 = true ∧ Url.utf8Valid kv.2 = true) :
    ∀ q, Url.formParse (serializePairs q kvs) = Url.formParse q ++ kvs := by
  induction kvs with
  | nil => intro q; simp [serializePairs]
  | cons kv rest ih =>
    intro q
    obtain ⟨k, v⟩ := kv
    obtain ⟨h1, h2, h3, h4⟩ := h (k, v) (by simp)
    simp only [serializePairs]
    rw [ih (fun x hx => h x (by simp [hx])), formParse_appendPair q k v h1 h2 h3 h4]
    simp

/-! ### `get_str`: the most recent value -/

theorem queryGetLast_append_hit (k v : Bytes) (l : List (Bytes × Bytes)) : queryGetLast k (l ++ [(k, v)]) = some v := by
  induction l with
  | nil => simp [queryGetLast]
  | cons kv rest ih => obtain ⟨k', v'⟩ := kv; simp [queryGetLast, ih]

theorem queryGetLast_append_miss (k k' v' : Bytes) (l : List (Bytes × Bytes)) (h : k' ≠ k) :
    queryGetLast k (l ++ [(k', v')]) = queryGetLast k l := by
  induction l with
  | nil => simp [queryGetLast, h]
  | cons kv rest ih => obtain ⟨k'', v''⟩ := kv; simp [queryGetLast, ih]

/-- ASCII text is well-formed UTF-8 -/
theorem validGo_ascii (s : Bytes) (h : ∀ x ∈ s, x < 128) : Url.validGo 0 s = true := by
  induction s with
  | nil => simp [Url.validGo]
  | cons b bs ih =>
    have hb : b < 128 := h b (by simp)
    have : Url.utf8Next (b :: bs) = .valid 1 := by simp [Url.utf8Next, hb]
    simp [Url.validGo, this, ih (fun x hx => h x (by simp [hx]))]

/-! ### splitting a serialised URL into prefix, query and fragment -/

theorem splitFirst_no_sep (sep : Nat) (s : Bytes) (h : ∀ x ∈ s, x ≠ sep) : Url.splitFirst sep s = (s, []) := by
  induction s with
  | nil => simp [Url.splitFirst]
  | cons b bs ih =>
    have hb : b ≠ sep := h b (by simp)
    simp [Url.splitFirst, hb, ih (fun x hx => h x (by simp [hx]))]

theorem splitFirst_fst_mem (sep : Nat) (s : Bytes) : ∀ x ∈ (Url.splitFirst sep s).1, x ∈ s ∧ x ≠ sep := by
  induction s with
  | nil => simp [Url.splitFirst]
  | cons b bs ih =>
    intro x hx
    unfold Url.splitFirst at hx
    split at hx
    · simp at hx
    · next hb =>
      simp only [List.mem_cons] at hx ⊢
      rcases hx with h | h
      · subst h; exact ⟨Or.inl rfl, hb⟩
      · have := ih x h; exact ⟨Or.inr this.1, this.2⟩

theorem splitFirst_snd_mem (sep : Nat) (s : Bytes) : ∀ x ∈ (Url.splitFirst sep s).2, x ∈ s := by
  induction s with
  | nil => simp [Url.splitFirst]
  | cons b bs ih =>
    intro x hx
    unfold Url.splitFirst at hx
    split at hx
    · simp at hx; simp [hx]
    · simp only [List.mem_cons]; exact Or.inr (ih x hx)

theorem contains_false_of_ne (sep : Nat) (s : Bytes) (h : ∀ x ∈ s, x ≠ sep) : s.contains sep = false := by
  simp only [List.contains_eq_mem, decide_eq_false_iff_not]
  intro hm
  exact h sep hm rfl

/-- prefix without `?`/`#`, query without `#`: splitting the joined URL returns the parts -/
theorem splitUrl_joinUrl (pre q : Bytes) (frag : Option Bytes)
    (h1 : ∀ x ∈ pre, x ≠ 35 ∧ x ≠ 63) (h2 : ∀ x ∈ q, x ≠ 35) :
    splitUrl (joinUrl ⟨pre, some q, frag⟩) = ⟨pre, some q, frag⟩ := by
  have hpq : ∀ x ∈ pre ++ 63 :: q, x ≠ 35 := by
    intro x hx
    simp only [List.mem_append, List.mem_cons] at hx
    rcases hx with h | h | h
    · exact (h1 x h).1
    · omega
    · exact h2 x h
  have hsq := splitFirst_append 63 pre q (fun x hx => (h1 x hx).2)
  have hc63 : (pre ++ 63 :: q).contains 63 = true := by simp
  cases frag with
  | none =>
    have hs := splitFirst_no_sep 35 (pre ++ 63 :: q) hpq
    have hc := contains_false_of_ne 35 (pre ++ 63 :: q) hpq
    simp only [joinUrl, List.append_nil, splitUrl, hs, hsq, hc63, hc]
    simp
  | some f =>
    have hs := splitFirst_append 35 (pre ++ 63 :: q) f hpq
    have hc : ((pre ++ 63 :: q) ++ 35 :: f).contains 35 = true := by simp
    simp only [joinUrl, splitUrl, hs, hsq, hc63, hc]
    simp

/-- what `splitUrl` returns satisfies the hypotheses of `splitUrl_joinUrl` -/
theorem splitUrl_clean (u : Bytes) :
    (∀ x ∈ (splitUrl u).pre, x ≠ 35 ∧ x ≠ 63) ∧ (∀ x ∈ (splitUrl u).query.getD [], x ≠ 35) := by
  constructor
  · intro x hx
    simp only [splitUrl] at hx
    have h1 := splitFirst_fst_mem 63 _ x hx
    have h2 := splitFirst_fst_mem 35 u x h1.1
    exact ⟨h2.2, h1.2⟩
  · intro x hx
    simp only [splitUrl] at hx
    split at hx
    · simp only [Option.getD_some] at hx
      have h1 := splitFirst_snd_mem 63 _ x hx
      exact (splitFirst_fst_mem 35 u x h1).2
    · simp at hx

theorem appendPair_no_hash (q k v : Bytes) (hk : IsBytes k) (hv : IsBytes v) (hq : ∀ x ∈ q, x ≠ 35) :
    ∀ x ∈ appendPair q k v, x ≠ 35 := by
  intro x hx
  unfold appendPair at hx
  simp only [List.mem_append, List.mem_cons] at hx
  rcases hx with h | h | h | h
  · split at h
    · simp at h
    · simp only [List.mem_append, List.mem_singleton] at h
      rcases h with h | h
      · exact hq x h
      · omega
  · exact (formEnc_clean k hk x h).2.2.1
  · omega
  · exact (formEnc_clean v hv x h).2.2.1

end Leptos.ServerFn
