import LeptosModel.Proofs.HydrateRep
import LeptosModel.Proofs.HydrateInitial
import LeptosModel.Proofs.HydrateErase
import LeptosModel.Proofs.ViewRep
import LeptosModel.Proofs.ViewAttrs
/-! Helper lemmas for C05, part 11: the hydrated world with the separators erased and the writes of
`settle` applied is a mounted representation (`Rep`, C03) of the view. -/
namespace Leptos.Hydrate
open Leptos.Dom Leptos.View

/-- `E` is `d0` without the nodes of `S`, the text of the nodes of `T` reset to `""` -/
structure EWorld (d0 E : Dom) (S T : List Id) : Prop where
  get : ∀ x r, x ∉ S → d0.get? x = some r → ∃ r', E.get? x = some r' ∧ r'.kind = r.kind ∧
    r'.parent = r.parent ∧ r'.attrs = r.attrs ∧ r'.kids = r.kids.filter (keep S) ∧
    r'.data = (if T.contains x then "" else r.data)

/-- how a sub-state sits in the global sets: its separators are in `S`, its nodes are not, `T` meets
its nodes exactly in its own empty strings -/
structure Loc (S T : List Id) (O Em Se : List Id) : Prop where
  sep : ∀ x ∈ Se, x ∈ S
  own : ∀ x ∈ O, x ∉ S
  t1 : ∀ x ∈ O, x ∈ T → x ∈ Em
  t2 : ∀ x ∈ Em, x ∈ T
  nd : O.Nodup

theorem Loc.left {S T o1 o2 e1 e2 s1 s2 : List Id} (h : Loc S T (o1 ++ o2) (e1 ++ e2) (s1 ++ s2))
    (he2 : ∀ x ∈ e2, x ∈ o2) : Loc S T o1 e1 s1 := by
  have hnd := List.nodup_append.mp h.nd
  refine ⟨fun x hx => h.sep x (by simp [hx]), fun x hx => h.own x (by simp [hx]), ?_,
    fun x hx => h.t2 x (by simp [hx]), hnd.1⟩
  intro x hx hT
  have := h.t1 x (by simp [hx]) hT
  simp only [List.mem_append] at this
  rcases this with h1 | h2
  · exact h1
  · exact absurd rfl (hnd.2.2 x hx x (he2 x h2))

theorem Loc.right {S T o1 o2 e1 e2 s1 s2 : List Id} (h : Loc S T (o1 ++ o2) (e1 ++ e2) (s1 ++ s2))
    (he1 : ∀ x ∈ e1, x ∈ o1) : Loc S T o2 e2 s2 := by
  have hnd := List.nodup_append.mp h.nd
  refine ⟨fun x hx => h.sep x (by simp [hx]), fun x hx => h.own x (by simp [hx]), ?_,
    fun x hx => h.t2 x (by simp [hx]), hnd.2.1⟩
  intro x hx hT
  have := h.t1 x (by simp [hx]) hT
  simp only [List.mem_append] at this
  rcases this with h1 | h2
  · exact absurd rfl (hnd.2.2 x (he1 x h1) x hx)
  · exact h2

theorem hydrateAttr_eq_init : hydrateAttr = AttrVal.initState := by
  funext a; cases a <;> rfl

/-- one leaf node of the state in `E` -/
theorem leaf_in_E {d0 E : Dom} {S T : List Id} (hE : EWorld d0 E S T) {i : Id} {r : NodeRec}
    (hi : i ∉ S) (hr : d0.get? i = some r) (k : Kind) (hk : r.kind = k) (p : Id) (hp : r.parent = some p)
    (data : String) (hd : (if T.contains i then "" else r.data) = data) : NodeIs E i k data (some p) := by
  obtain ⟨r', h1, h2, h3, _, _, h6⟩ := hE.get i r hi hr
  exact ⟨r', h1, by rw [h2, hk], by rw [h6, hd], by rw [h3, hp]⟩

theorem marker_in_E {d0 E : Dom} {S T : List Id} (hE : EWorld d0 E S T) {i : Id} {ks : List IdTree} {p : Id}
    (hreal : real d0 (.comment []) (.node i ks) p) (hi : i ∉ S) : NodeIs E i .comment "" (some p) := by
  obtain ⟨_, r, hr, hk, hd, hp⟩ := (by simpa [real] using hreal)
  exact leaf_in_E hE hi hr .comment hk p hp "" (by rw [hd]; simp)

theorem filter_keep_nil (S : List Id) : ([] : List Id).filter (keep S) = [] := rfl

mutual
theorem hyd_rep {d0 E : Dom} {S T : List Id} (hE : EWorld d0 E S T) : (v : View) → ∀ (anc : List Str) (p : Id)
    (pos : Position) (todo : List IdTree) (ts' : List HTree),
    wfV anc v = true → AllEl PlainAttrs v → fullV v = true → realL d0 (dom v pos ++ ts') todo p →
    Loc S T (owned (adopt v pos todo).1) (emptyIds (adopt v pos todo).1) (sepsOf v pos todo) →
    Rep Eq E v (adopt v pos todo).1 (some p) ∧
      ∃ consumed, todo = consumed ++ (adopt v pos todo).2 ∧ realL d0 ts' (adopt v pos todo).2 p ∧
        (consumed.map IdTree.id).filter (keep S) = (adopt v pos todo).1.roots
  | .text s, anc, p, pos, todo, ts', _, _, _, hr, hl => by
    have textCase : ∀ (i : Id) (ks : List IdTree), real d0 (textNode s.toList) (.node i ks) p →
        i ∉ S → (i ∈ T → s = "") → (s = "" → i ∈ T) → NodeIs E i .text s (some p) := by
      intro i ks hreal hi h1 h2
      obtain ⟨_, r, hr0, hk, hd, hp⟩ := (by simpa [real, textNode] using hreal)
      refine leaf_in_E hE hi hr0 .text hk p hp s ?_
      rw [hd]
      by_cases hs : s = ""
      · subst hs; simp [h2 rfl]
      · have : ¬ s.toList = [] := by simpa using hs
        have hT : i ∉ T := fun h => hs (h1 h)
        simp [hT, hs]
    by_cases hpos : pos = .nextChildAfterText
    · simp only [dom, hpos, if_true, List.cons_append, List.nil_append] at hr
      obtain ⟨si, rest1, htodo, hr1, _⟩ := shape_marker hr
      obtain ⟨it, rest, hrest1, htext, hrest⟩ := realL_cons_inv hr1
      cases it with
      | node i ks =>
        subst htodo; subst hrest1
        have hst : adopt (.text s) pos (.node si [] :: .node i ks :: rest) = (.text i s, rest) := by
          simp [adopt, hpos]
        rw [hst] at hl ⊢
        have hsi : si ∈ S := hl.sep si (by simp [sepsOf, hpos, IdTree.id])
        have hi : i ∉ S := hl.own i (by simp [owned])
        refine ⟨by
          simp only [Rep]
          exact ⟨trivial, textCase i ks htext hi
            (fun h => by
              have := hl.t1 i (by simp [owned]) h
              by_cases hs : s = ""
              · exact hs
              · simp [emptyIds, hs] at this)
            (fun hs => hl.t2 i (by simp [emptyIds, hs]))⟩,
          [.node si [], .node i ks], by simp, hrest, ?_⟩
        simp [IdTree.id, State.roots, keep, hsi, hi]
    · simp only [dom, hpos, if_false, List.nil_append, List.cons_append] at hr
      obtain ⟨it, rest, htodo, htext, hrest⟩ := realL_cons_inv hr
      cases it with
      | node i ks =>
        subst htodo
        have hst : adopt (.text s) pos (.node i ks :: rest) = (.text i s, rest) := by simp [adopt, hpos]
        rw [hst] at hl ⊢
        have hi : i ∉ S := hl.own i (by simp [owned])
        refine ⟨by
          simp only [Rep]
          exact ⟨trivial, textCase i ks htext hi
            (fun h => by
              have := hl.t1 i (by simp [owned]) h
              by_cases hs : s = ""
              · exact hs
              · simp [emptyIds, hs] at this)
            (fun hs => hl.t2 i (by simp [emptyIds, hs]))⟩,
          [.node i ks], by simp, hrest, ?_⟩
        simp [IdTree.id, State.roots, keep, hi]
  | .unit, anc, p, pos, todo, ts', _, _, _, hr, hl => by
    simp only [dom, List.cons_append, List.nil_append] at hr
    obtain ⟨it, rest, htodo, hreal, hrest⟩ := realL_cons_inv hr
    cases it with
    | node i ks =>
      subst htodo
      have hst : adopt .unit pos (.node i ks :: rest) = (.unit i, rest) := by simp [adopt]
      rw [hst] at hl ⊢
      have hi : i ∉ S := hl.own i (by simp [owned])
      exact ⟨by simp only [Rep]; exact marker_in_E hE hreal hi, [.node i ks], by simp, hrest,
        by simp [IdTree.id, State.roots, keep, hi]⟩
  | .onone, anc, p, pos, todo, ts', _, _, _, hr, hl => by
    simp only [dom, List.cons_append, List.nil_append] at hr
    obtain ⟨it, rest, htodo, hreal, hrest⟩ := realL_cons_inv hr
    cases it with
    | node i ks =>
      subst htodo
      have hst : adopt .onone pos (.node i ks :: rest) = (.either 1 (.unit i), rest) := by simp [adopt]
      rw [hst] at hl ⊢
      have hi : i ∉ S := hl.own i (by simp [owned])
      exact ⟨by simp only [Rep]; exact ⟨trivial, i, rfl, marker_in_E hE hreal hi⟩, [.node i ks], by simp, hrest,
        by simp [IdTree.id, State.roots, keep, hi]⟩
  | .osome v, anc, p, pos, todo, ts', hw, ha, hf, hr, hl => by
    obtain ⟨h1, c, h2, h3, h4⟩ := hyd_rep hE v anc p pos todo ts' (by simpa [wfV] using hw) (by simpa [AllEl] using ha)
      (by simpa [fullV] using hf) (by simpa [dom] using hr) (by simpa [adopt, owned, emptyIds, sepsOf] using hl)
    exact ⟨by simp only [adopt, Rep]; exact ⟨trivial, h1⟩, c, by simpa [adopt] using h2, by simpa [adopt] using h3,
      by simpa [adopt, State.roots] using h4⟩
  | .either _ _ v, anc, p, pos, todo, ts', hw, ha, hf, hr, hl => by
    obtain ⟨h1, c, h2, h3, h4⟩ := hyd_rep hE v anc p pos todo ts' (by simpa [wfV] using hw) (by simpa [AllEl] using ha)
      (by simpa [fullV] using hf) (by simpa [dom] using hr) (by simpa [adopt, owned, emptyIds, sepsOf] using hl)
    exact ⟨by simp only [adopt, Rep]; exact ⟨trivial, h1⟩, c, by simpa [adopt] using h2, by simpa [adopt] using h3,
      by simpa [adopt, State.roots] using h4⟩
  | .any _ v, anc, p, pos, todo, ts', hw, ha, hf, hr, hl => by
    obtain ⟨h1, c, h2, h3, h4⟩ := hyd_rep hE v anc p pos todo ts' (by simpa [wfV] using hw) (by simpa [AllEl] using ha)
      (by simpa [fullV] using hf) (by simpa [dom] using hr) (by simpa [adopt, owned, emptyIds, sepsOf] using hl)
    exact ⟨by simp only [adopt, Rep]; exact ⟨trivial, h1⟩, c, by simpa [adopt] using h2, by simpa [adopt] using h3,
      by simpa [adopt, State.roots] using h4⟩
  | .tuple vs, anc, p, pos, todo, ts', hw, ha, hf, hr, hl => by
    obtain ⟨h1, c, h2, h3, h4⟩ := hyd_repL hE vs anc p pos todo ts' (by simpa [wfV] using hw) (by simpa [AllEl] using ha)
      (by simpa [fullV] using hf) (by simpa [dom] using hr) (by simpa [adopt, owned, emptyIds, sepsOf] using hl)
    exact ⟨by simp only [adopt, Rep]; exact h1, c, by simpa [adopt] using h2, by simpa [adopt] using h3,
      by simpa [adopt, State.roots] using h4⟩
  | .vec vs, anc, p, pos, todo, ts', hw, ha, hf, hr, hl => by
    -- the shape first: items, then the marker
    obtain ⟨c0, g1, g2, _, _⟩ := hyd_shapeL d0 vs p pos todo (Html.Tree.comment [] :: ts')
      (wfHL_of_wfL vs anc (by simpa [wfV] using hw)) (by simpa [dom, List.append_assoc] using hr)
    obtain ⟨it, rest, hm, hreal, hrest⟩ := realL_cons_inv g2
    cases it with
    | node m mks =>
      have hst : adopt (.vec vs) pos todo = (.vec (adoptL vs pos todo).1 m, rest) := by simp [adopt, hm]
      rw [hst] at hl ⊢
      have hlL : Loc S T (ownedList (adoptL vs pos todo).1) (emptyIdsL (adoptL vs pos todo).1) (sepsOfL vs pos todo) := by
        have : Loc S T (ownedList (adoptL vs pos todo).1 ++ [m]) (emptyIdsL (adoptL vs pos todo).1 ++ [])
            (sepsOfL vs pos todo ++ []) := by simpa [owned, emptyIds, sepsOf] using hl
        exact this.left (by simp)
      obtain ⟨h1, c, h2, h3, h4⟩ := hyd_repL hE vs anc p pos todo (Html.Tree.comment [] :: ts') (by simpa [wfV] using hw)
        (by simpa [AllEl] using ha) (by simpa [fullV] using hf) (by simpa [dom, List.append_assoc] using hr) hlL
      have hmS : m ∉ S := hl.own m (by simp [owned])
      refine ⟨by simp only [Rep]; exact ⟨h1, marker_in_E hE hreal hmS⟩, c ++ [.node m mks], ?_, hrest, ?_⟩
      · rw [List.append_assoc]; simpa [hm] using h2
      · simp [State.roots, List.filter_append, h4, IdTree.id, keep, hmS]
  | .elem tag as child, anc, p, pos, todo, ts', hw, ha, hf, hr, hl => by
    simp only [dom, List.cons_append, List.nil_append] at hr
    obtain ⟨it, rest, htodo, hel, hrest⟩ := realL_cons_inv hr
    cases it with
    | node i ks =>
      subst htodo
      obtain ⟨r0, hr0, hk0, hp0, hat0, hkids0, _, hkidsReal⟩ := (by simpa [real] using hel)
      simp only [wfV, Bool.and_eq_true, Bool.or_eq_true] at hw
      obtain ⟨⟨hattrs, _⟩, hcase⟩ := hw
      simp only [AllEl] at ha
      simp only [fullV, Bool.and_eq_true, Bool.or_eq_true] at hf
      have hattr : r0.attrs = renderAttrs as := by
        rw [hat0]; exact attrs_like_csr as ha.1 hattrs
      have hi : i ∉ S := hl.own i (by
        by_cases hskip : (!viewExists child || !escKids tag) = true <;> simp [adopt, hskip, owned])
      obtain ⟨r', hg, hk', hp', ha', hkids', _⟩ := hE.get i r0 hi hr0
      by_cases hv : isVoidT tag = true
      · -- void element: no children, no child state
        have hne : viewExists child = false := by
          rcases hcase with ⟨hg', _⟩ | ⟨_, hne⟩
          · simp only [Html.genericOK, Bool.and_eq_true, Bool.not_eq_true'] at hg'
            have : isVoidT tag = false := hg'.1.1.1.2
            rw [hv] at this; cases this
          · simpa using hne
        have hst : adopt (.elem tag as child) pos (.node i ks :: rest) = (.elem i (as.map hydrateAttr) none, rest) := by
          simp [adopt, hne]
        have hks : ks = [] := by
          have : realL d0 [] ks i := by simpa [hv] using hkidsReal
          cases ks with
          | nil => rfl
          | cons _ _ => simp [realL] at this
        subst hks
        rw [hst]
        refine ⟨?_, [.node i []], by simp, hrest, by simp [IdTree.id, State.roots, keep, hi]⟩
        simp only [Rep]
        refine ⟨r', hg, by rw [hk', hk0], by rw [hp', hp0], by rw [ha', hattr], by rw [hydrateAttr_eq_init], ?_⟩
        rw [isVoid_agree, hv]
        simp only [if_true]
        exact ⟨trivial, by rw [hkids', hkids0]; rfl⟩
      · have hvf : isVoidT tag = false := by simpa using hv
        have hex : viewExists child = true := by
          rcases hf.1 with h | h
          · rw [hvf] at h; cases h
          · exact h
        obtain ⟨hesc, hwc⟩ : escKids tag = true ∧ wfV (tag.toList :: anc) child = true := by
          rcases hcase with ⟨hg', hc⟩ | ⟨hvo, _⟩
          · simp only [Html.genericOK, Bool.and_eq_true] at hg'
            exact ⟨hg'.1.1.2, hc⟩
          · simp only [Html.voidOK, Bool.and_eq_true] at hvo
            have : isVoidT tag = true := hvo.1.2
            rw [hvf] at this; cases this
        have hst : adopt (.elem tag as child) pos (.node i ks :: rest) =
            (.elem i (as.map hydrateAttr) (some (adopt child .firstChild ks).1), rest) := by
          simp [adopt, hex, hesc]
        rw [hst] at hl ⊢
        have hr2 : realL d0 (dom child .firstChild ++ []) ks i := by simpa [hvf, hex] using hkidsReal
        have hlc : Loc S T (owned (adopt child .firstChild ks).1) (emptyIds (adopt child .firstChild ks).1)
            (sepsOf child .firstChild ks) := by
          have : Loc S T ([i] ++ owned (adopt child .firstChild ks).1) ([] ++ emptyIds (adopt child .firstChild ks).1)
              ([] ++ sepsOf child .firstChild ks) := by
            simpa [owned, ownedOpt, emptyIds, sepsOf, hex, hesc] using hl
          exact this.right (by simp)
        obtain ⟨h1, c, h2, h3, h4⟩ := hyd_rep hE child (tag.toList :: anc) i .firstChild ks [] hwc ha.2 hf.2 hr2 hlc
        have hrest2 : (adopt child .firstChild ks).2 = [] := by
          cases h : (adopt child .firstChild ks).2 with
          | nil => rfl
          | cons _ _ => rw [h] at h3; simp [realL] at h3
        have hc : c = ks := by rw [hrest2] at h2; simpa using h2.symm
        subst hc
        refine ⟨?_, [.node i c], by simp, hrest, by simp [IdTree.id, State.roots, keep, hi]⟩
        simp only [Rep]
        refine ⟨r', hg, by rw [hk', hk0], by rw [hp', hp0], by rw [ha', hattr], by rw [hydrateAttr_eq_init], ?_⟩
        rw [isVoid_agree, hvf]
        simp only [Bool.false_eq_true, if_false]
        exact ⟨_, rfl, by rw [hkids', hkids0, h4], h1⟩
theorem hyd_repL {d0 E : Dom} {S T : List Id} (hE : EWorld d0 E S T) : (vs : List View) → ∀ (anc : List Str) (p : Id)
    (pos : Position) (todo : List IdTree) (ts' : List HTree),
    wfL anc vs = true → AllElList PlainAttrs vs → fullL vs = true → realL d0 (domL vs pos ++ ts') todo p →
    Loc S T (ownedList (adoptL vs pos todo).1) (emptyIdsL (adoptL vs pos todo).1) (sepsOfL vs pos todo) →
    RepList Eq E vs (adoptL vs pos todo).1 (some p) ∧
      ∃ consumed, todo = consumed ++ (adoptL vs pos todo).2 ∧ realL d0 ts' (adoptL vs pos todo).2 p ∧
        (consumed.map IdTree.id).filter (keep S) = State.rootsList (adoptL vs pos todo).1
  | [], anc, p, pos, todo, ts', _, _, _, hr, _ =>
    ⟨by simp [adoptL, RepList], [], by simp [adoptL], by simpa [adoptL, domL] using hr, by simp [adoptL, State.rootsList]⟩
  | v :: vs, anc, p, pos, todo, ts', hw, ha, hf, hr, hl => by
    simp only [wfL, Bool.and_eq_true] at hw
    simp only [AllElList] at ha
    simp only [fullL, Bool.and_eq_true] at hf
    have hl' : Loc S T (owned (adopt v pos todo).1 ++ ownedList (adoptL vs (after true v pos) (adopt v pos todo).2).1)
        (emptyIds (adopt v pos todo).1 ++ emptyIdsL (adoptL vs (after true v pos) (adopt v pos todo).2).1)
        (sepsOf v pos todo ++ sepsOfL vs (after true v pos) (adopt v pos todo).2) := by
      simpa [adoptL, ownedList, emptyIdsL, sepsOfL] using hl
    obtain ⟨h1, c1, h2, h3, h4⟩ := hyd_rep hE v anc p pos todo (domL vs (after true v pos) ++ ts') hw.1 ha.1 hf.1
      (by simpa [domL, List.append_assoc] using hr) (hl'.left (emptyIdsL_sub_ownedList _))
    obtain ⟨g1, c2, g2, g3, g4⟩ := hyd_repL hE vs anc p (after true v pos) (adopt v pos todo).2 ts' hw.2 ha.2 hf.2 h3
      (hl'.right (emptyIds_sub_owned _))
    refine ⟨by simp only [adoptL, RepList]; exact ⟨h1, g1⟩, c1 ++ c2, ?_, by simpa [adoptL] using g3, ?_⟩
    · simp only [adoptL]; rw [List.append_assoc, ← g2]; exact h2
    · simp [adoptL, State.rootsList, List.filter_append, h4, g4]
end

mutual
/-- `Rep` is monotone in the attribute relation -/
theorem Rep.mono {R R' : List (String × String) → List (String × String) → Prop} (h : ∀ x y, R x y → R' x y) {d : Dom} :
    ∀ (v : View) (st : State) (par : Option Id), Rep R d v st par → Rep R' d v st par
  | .text _, st, _, hr => by cases st <;> simp only [Rep] at hr ⊢ <;> exact hr
  | .unit, st, _, hr => by cases st <;> simp only [Rep] at hr ⊢ <;> exact hr
  | .onone, st, _, hr => by cases st <;> simp only [Rep] at hr ⊢ <;> exact hr
  | .osome v, st, par, hr => by
    cases st <;> simp only [Rep] at hr ⊢
    exact ⟨hr.1, Rep.mono h v _ par hr.2⟩
  | .either _ _ v, st, par, hr => by
    cases st <;> simp only [Rep] at hr ⊢
    exact ⟨hr.1, Rep.mono h v _ par hr.2⟩
  | .any _ v, st, par, hr => by
    cases st <;> simp only [Rep] at hr ⊢
    exact ⟨hr.1, Rep.mono h v _ par hr.2⟩
  | .tuple vs, st, par, hr => by
    cases st <;> simp only [Rep] at hr ⊢
    exact RepList.mono h vs _ par hr
  | .vec vs, st, par, hr => by
    cases st <;> simp only [Rep] at hr ⊢
    exact ⟨RepList.mono h vs _ par hr.1, hr.2⟩
  | .elem tag as c, st, par, hr => by
    cases st <;> simp only [Rep] at hr ⊢
    obtain ⟨r, h1, h2, h3, h4, h5, h6⟩ := hr
    refine ⟨r, h1, h2, h3, h _ _ h4, h5, ?_⟩
    by_cases hv : isVoid tag = true
    · simpa [hv] using h6
    · simp only [hv, Bool.false_eq_true, if_false] at h6 ⊢
      obtain ⟨c', e1, e2, e3⟩ := h6
      exact ⟨c', e1, e2, Rep.mono h c c' _ e3⟩
theorem RepList.mono {R R' : List (String × String) → List (String × String) → Prop} (h : ∀ x y, R x y → R' x y) {d : Dom} :
    ∀ (vs : List View) (sts : List State) (par : Option Id), RepList R d vs sts par → RepList R' d vs sts par
  | [], sts, _, hr => by cases sts <;> simp only [RepList] at hr ⊢
  | v :: vs, sts, par, hr => by
    cases sts with
    | nil => simp only [RepList] at hr
    | cons s ss =>
      simp only [RepList] at hr ⊢
      exact ⟨Rep.mono h v s par hr.1, RepList.mono h vs ss par hr.2⟩
end

end Leptos.Hydrate
