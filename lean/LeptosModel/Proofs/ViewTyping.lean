import LeptosModel.Proofs.ViewEqns
/-! # Proofs/ViewTyping — consequences of `hasTy` / `Ty.wf`; the semantic condition on attribute rebuilds -/
namespace Leptos.View
open Leptos.Dom

-- `R`: how the attribute list of an element relates to the fresh render's (`Eq` for the static
-- fragment, lookup-equality `AttrsEq` where removal and re-insertion change the order)
variable {R : List (String × String) → List (String × String) → Prop}

theorem wfList_get : ∀ (ts : List Ty) (i : Nat) (t : Ty), Ty.wfList ts = true → ts[i]? = some t →
    t.wf = true
  | [], i, t, _, h => by simp at h
  | t0 :: ts, 0, t, hw, h => by
    simp at h; subst h; simp [Ty.wfList] at hw; exact hw.1
  | t0 :: ts, i + 1, t, hw, h => by
    simp at h; simp [Ty.wfList] at hw; exact wfList_get ts i t hw.2 h

mutual
theorem Ty.beq_eq : ∀ (a b : Ty), Ty.beq a b = true → a = b
  | .text, b, h => by cases b <;> simp [Ty.beq] at h ⊢
  | .unit, b, h => by cases b <;> simp [Ty.beq] at h ⊢
  | .any, b, h => by cases b <;> simp [Ty.beq] at h ⊢
  | .elem t1 a1 c1, b, h => by
    cases b <;> simp [Ty.beq] at h ⊢
    exact ⟨h.1.1, h.1.2, Ty.beq_eq c1 _ h.2⟩
  | .tuple l1, b, h => by
    cases b <;> simp [Ty.beq] at h ⊢
    exact Ty.beqList_eq l1 _ h
  | .either l1, b, h => by
    cases b <;> simp [Ty.beq] at h ⊢
    exact Ty.beqList_eq l1 _ h
  | .opt a, b, h => by
    cases b <;> simp [Ty.beq] at h ⊢
    exact Ty.beq_eq a _ h
  | .vec a, b, h => by
    cases b <;> simp [Ty.beq] at h ⊢
    exact Ty.beq_eq a _ h
  | .arr n a, b, h => by
    cases b <;> simp [Ty.beq] at h ⊢
    exact ⟨h.1, Ty.beq_eq a _ h.2⟩
theorem Ty.beqList_eq : ∀ (as bs : List Ty), Ty.beqList as bs = true → as = bs
  | [], bs, h => by cases bs <;> simp [Ty.beqList] at h ⊢
  | a :: as, bs, h => by
    cases bs with
    | nil => simp [Ty.beqList] at h
    | cons b bs =>
      simp [Ty.beqList] at h ⊢
      exact ⟨Ty.beq_eq a b h.1, Ty.beqList_eq as bs h.2⟩
end

theorem hasTyAll_list : ∀ (vs : List View) (t : Ty), hasTyAll vs t = true →
    hasTyList vs (List.replicate vs.length t) = true
  | [], _, _ => by simp [hasTyList]
  | v :: vs, t, h => by
    simp [hasTyAll] at h
    simp [List.replicate_succ, hasTyList, h.1, hasTyAll_list vs t h.2]

theorem wfList_replicate : ∀ (n : Nat) (t : Ty), t.wf = true → Ty.wfList (List.replicate n t) = true
  | 0, _, _ => by simp [Ty.wfList]
  | n + 1, t, h => by simp [List.replicate_succ, Ty.wfList, h, wfList_replicate n t h]

theorem nodefulAll_get : ∀ (ts : List Ty) (i : Nat) (t : Ty), Ty.nodefulAll ts = true →
    ts[i]? = some t → t.nodeful = true
  | [], i, t, _, h => by simp at h
  | t0 :: ts, 0, t, hw, h => by
    simp at h; subst h; simp [Ty.nodefulAll] at hw; exact hw.1
  | t0 :: ts, i + 1, t, hw, h => by
    simp at h; simp [Ty.nodefulAll] at hw; exact nodefulAll_get ts i t hw.2 h

mutual
/-- a mounted state of a well-formed `nodeful` type has at least one root node -/
theorem roots_ne_nil {d : Dom} : ∀ (a : View) (ty : Ty) (st : State) (par : Option Id),
    ty.wf = true → ty.nodeful = true → hasTy a ty = true → Rep R d a st par → st.roots ≠ []
  | .text _, ty, st, par, _, _, _, h => by cases st <;> simp [Rep, State.roots] at h ⊢
  | .unit, ty, st, par, _, _, _, h => by cases st <;> simp [Rep, State.roots] at h ⊢
  | .elem _ _ _, ty, st, par, _, _, _, h => by cases st <;> simp [Rep, State.roots] at h ⊢
  | .onone, ty, st, par, _, _, _, h => by
    cases st <;> simp only [Rep] at h
    obtain ⟨_, id, rfl, _⟩ := h; simp [State.roots]
  | .vec _, ty, st, par, _, _, _, h => by cases st <;> simp [Rep, State.roots] at h ⊢
  | .osome v, ty, st, par, hw, hn, ht, h => by
    cases ty <;> simp [hasTy] at ht
    cases st <;> simp only [Rep] at h
    simp only [State.roots]
    simp [Ty.wf] at hw
    exact roots_ne_nil v _ _ par hw.1 hw.2 ht h.2
  | .either n i v, ty, st, par, hw, hn, ht, h => by
    cases ty <;> simp [hasTy] at ht
    rename_i ts
    cases st <;> simp only [Rep] at h
    simp only [State.roots]
    cases hi : ts[i]? with
    | none => simp [hi] at ht
    | some t =>
      simp [hi] at ht
      simp [Ty.wf] at hw
      exact roots_ne_nil v t _ par (wfList_get ts i t hw.1.2 hi) (nodefulAll_get ts i t hw.2 hi) ht.2 h.2
  | .any tyv v, ty, st, par, hw, hn, ht, h => by
    cases ty <;> simp [hasTy] at ht
    cases st <;> simp only [Rep] at h
    simp only [State.roots]
    exact roots_ne_nil v tyv _ par ht.1.1 ht.1.2 ht.2 h.2
  | .tuple vs, ty, st, par, hw, hn, ht, h => by
    cases ty <;> simp [hasTy] at ht
    · rename_i ts
      cases st <;> simp only [Rep] at h
      simp only [State.roots]
      simp [Ty.wf] at hw
      simp only [Ty.nodeful] at hn
      exact rootsList_ne_nil vs ts _ par hw.2 hn ht h
    · rename_i n t
      cases st <;> simp only [Rep] at h
      simp only [State.roots]
      simp [Ty.wf] at hw
      simp [Ty.nodeful] at hn
      exact rootsAll_ne_nil vs t _ par hw hn.2 ht.2 (by omega) h
theorem rootsList_ne_nil {d : Dom} : ∀ (as : List View) (ts : List Ty) (sts : List State)
    (par : Option Id), Ty.wfList ts = true → Ty.nodefulAny ts = true → hasTyList as ts = true →
    RepList R d as sts par → State.rootsList sts ≠ []
  | [], ts, sts, par, _, hn, ht, _ => by cases ts <;> simp [hasTyList, Ty.nodefulAny] at ht hn
  | v :: vs, ts, sts, par, hw, hn, ht, h => by
    cases ts with
    | nil => simp [hasTyList] at ht
    | cons t ts =>
      cases sts with
      | nil => simp [RepList] at h
      | cons s ss =>
        simp [hasTyList] at ht; simp [Ty.wfList] at hw; simp only [RepList] at h
        simp only [State.rootsList]
        simp [Ty.nodefulAny] at hn
        rcases hn with hn | hn
        · have := roots_ne_nil v t s par hw.1 hn ht.1 h.1
          intro e; simp at e; exact this e.1
        · have := rootsList_ne_nil vs ts ss par hw.2 hn ht.2 h.2
          intro e; simp at e; exact this e.2
theorem rootsAll_ne_nil {d : Dom} : ∀ (as : List View) (t : Ty) (sts : List State)
    (par : Option Id), t.wf = true → t.nodeful = true → hasTyAll as t = true → 1 ≤ as.length →
    RepList R d as sts par → State.rootsList sts ≠ []
  | [], t, sts, par, _, _, _, hl, _ => by simp at hl
  | v :: vs, t, sts, par, hw, hn, ht, _, h => by
    cases sts with
    | nil => simp [RepList] at h
    | cons s ss =>
      simp [hasTyAll] at ht; simp only [RepList] at h
      simp only [State.rootsList]
      have := roots_ne_nil v t s par hw hn ht.1 h.1
      intro e; simp at e; exact this e.1
end

/-- what rebuilding attribute values `as` into `bs` must achieve on the element (semantic
condition on a pair of attribute lists; proved for each stage's attribute fragment) -/
def AttrsRebuild (R : List (String × String) → List (String × String) → Prop) (as bs : List AttrVal) : Prop :=
  ∀ (er : Bool) (d : Dom) (el : Id) (r : NodeRec), d.get? el = some r → r.kind.isElem = true →
    R r.attrs (renderAttrs as) →
    (∃ r', (rebuildAttrs er el bs (as.map AttrVal.initState) d).1.get? el = some r' ∧
      R r'.attrs (renderAttrs bs) ∧
      r'.kind = r.kind ∧ r'.parent = r.parent ∧ r'.kids = r.kids ∧ r'.data = r.data) ∧
    (∀ y, y ≠ el → (rebuildAttrs er el bs (as.map AttrVal.initState) d).1.get? y = d.get? y) ∧
    (rebuildAttrs er el bs (as.map AttrVal.initState) d).1.next = d.next ∧
    (rebuildAttrs er el bs (as.map AttrVal.initState) d).2 = bs.map AttrVal.initState

mutual
/-- `P as bs` holds for the attribute values of every element that `rebuild b` RETAINS from the
state of `a` (same position, same `Either` branch, same `Option` case, same erased type, the common
prefix of two `Vec`s); replaced branches impose nothing -/
def PairEl (P : List AttrVal → List AttrVal → Prop) : View → View → Prop
  | .elem _ as c, .elem _ bs c' => P as bs ∧ PairEl P c c'
  | .tuple vs, .tuple ws => PairElList P vs ws
  | .osome v, .osome w => PairEl P v w
  | .either _ i v, .either _ j w => i = j → PairEl P v w
  | .vec vs, .vec ws => PairElList P vs ws
  | .any t v, .any t' w => Ty.beq t' t = true → PairEl P v w
  | _, _ => True
def PairElList (P : List AttrVal → List AttrVal → Prop) : List View → List View → Prop
  | v :: vs, w :: ws => PairEl P v w ∧ PairElList P vs ws
  | _, _ => True
end

end Leptos.View
