import LeptosModel.Proofs.ViewRep
/-!
# Proofs/ViewBuild — `build` produces an unmounted representation made of fresh nodes
-/
namespace Leptos.View
open Leptos.Dom

-- `R`: how the attribute list of an element relates to the fresh render's (`Eq` for the static
-- fragment, lookup-equality `AttrsEq` where removal and re-insertion change the order)
variable {R : List (String × String) → List (String × String) → Prop}

theorem build_text (s : String) (d : Dom) :
    build (.text s) d = ((d.create .text s).1, .text d.next s) := rfl
theorem build_unit (d : Dom) :
    build .unit d = ((d.create .comment "").1, .unit d.next) := rfl
theorem build_onone (d : Dom) :
    build .onone d = ((d.create .comment "").1, .either 1 (.unit d.next)) := rfl
theorem build_osome (v : View) (d : Dom) :
    build (.osome v) d = ((build v d).1, .either 0 (build v d).2) := rfl
theorem build_either (n i : Nat) (v : View) (d : Dom) :
    build (.either n i v) d = ((build v d).1, .either i (build v d).2) := rfl
theorem build_any (ty : Ty) (v : View) (d : Dom) :
    build (.any ty v) d = ((build v d).1, .any ty (build v d).2) := rfl
theorem build_tuple (vs : List View) (d : Dom) :
    build (.tuple vs) d = ((buildList vs d).1, .tuple (buildList vs d).2) := rfl
theorem build_vec (vs : List View) (d : Dom) :
    build (.vec vs) d =
      ((buildList vs (d.create .comment "").1).1, .vec (buildList vs (d.create .comment "").1).2 d.next) := rfl
theorem build_elem (tag : String) (as : List AttrVal) (c : View) (d : Dom) :
    build (.elem tag as c) d =
      (let d1 := (d.create (.elem tag) "").1
       let r2 := buildAttrs d.next as d1
       if isVoid tag then (r2.1, .elem d.next r2.2 none)
       else
         let r3 := build c r2.1
         (mount r3.2 r3.1 d.next none, .elem d.next r2.2 (some r3.2))) := by
  simp only [build]; rfl
theorem buildList_nil (d : Dom) : buildList [] d = (d, []) := rfl
theorem buildList_cons (v : View) (vs : List View) (d : Dom) :
    buildList (v :: vs) d =
      ((buildList vs (build v d).1).1, (build v d).2 :: (buildList vs (build v d).1).2) := rfl

mutual
theorem roots_sublist_owned : ∀ (st : State), st.roots.Sublist (owned st)
  | .text _ _ => by simp [State.roots, owned]
  | .unit _ => by simp [State.roots, owned]
  | .elem _ _ _ => by simp [State.roots, owned]
  | .tuple sts => by simpa [State.roots, owned] using rootsList_sublist_ownedList sts
  | .either _ st => by simpa [State.roots, owned] using roots_sublist_owned st
  | .vec sts mk => by
    simp only [State.roots, owned]
    exact List.Sublist.append (rootsList_sublist_ownedList sts) (List.Sublist.refl _)
  | .any _ st => by simpa [State.roots, owned] using roots_sublist_owned st
theorem rootsList_sublist_ownedList : ∀ (sts : List State), (State.rootsList sts).Sublist (ownedList sts)
  | [] => by simp [State.rootsList, ownedList]
  | s :: ss => by
    simp only [State.rootsList, ownedList]
    exact List.Sublist.append (roots_sublist_owned s) (rootsList_sublist_ownedList ss)
end

theorem roots_nodup {st : State} (h : (owned st).Nodup) : st.roots.Nodup :=
  (roots_sublist_owned st).nodup h

/-- what building these attribute values on a fresh element must achieve (a semantic condition on
an attribute list; proved for each stage's attribute fragment) -/
def AttrsFresh (R : List (String × String) → List (String × String) → Prop) (as : List AttrVal) : Prop :=
  ∀ (d : Dom) (el : Id) (r : NodeRec), d.get? el = some r → r.kind.isElem = true → r.attrs = [] →
    (∃ r', (buildAttrs el as d).1.get? el = some r' ∧ R r'.attrs (renderAttrs as) ∧
      r'.kind = r.kind ∧ r'.parent = r.parent ∧ r'.kids = r.kids ∧ r'.data = r.data) ∧
    (∀ y, y ≠ el → (buildAttrs el as d).1.get? y = d.get? y) ∧
    (buildAttrs el as d).1.next = d.next ∧
    (buildAttrs el as d).2 = as.map AttrVal.initState

mutual
/-- every element of the view satisfies `P` on its attribute values -/
def AllEl (P : List AttrVal → Prop) : View → Prop
  | .elem _ as c => P as ∧ AllEl P c
  | .tuple vs => AllElList P vs
  | .osome v => AllEl P v
  | .either _ _ v => AllEl P v
  | .vec vs => AllElList P vs
  | .any _ v => AllEl P v
  | _ => True
def AllElList (P : List AttrVal → Prop) : List View → Prop
  | [] => True
  | v :: vs => AllEl P v ∧ AllElList P vs
end

/-- result of `build`: an unmounted representation made of fresh nodes only -/
structure Built (R : List (String × String) → List (String × String) → Prop) (d d' : Dom) (v : View) (st : State) : Prop where
  rep : Rep R d' v st none
  next_le : d.next ≤ d'.next
  range : ∀ x ∈ owned st, d.next ≤ x ∧ x < d'.next
  nodup : (owned st).Nodup
  frame : ∀ x, x < d.next → d'.get? x = d.get? x

theorem NodeIs_create (d : Dom) (k : Kind) (s : String) :
    NodeIs (d.create k s).1 d.next k s none :=
  ⟨{ kind := k, data := s }, by simp [Dom.get?_create], rfl, rfl, rfl⟩

theorem frame_create (d : Dom) (k : Kind) (s : String) (x : Id) (h : x < d.next) :
    (d.create k s).1.get? x = d.get? x := by
  simp [Dom.get?_create, Nat.ne_of_lt h]

mutual
theorem build_spec : ∀ (v : View) (d : Dom), AllEl (AttrsFresh R) v →
    Built R d (build v d).1 v (build v d).2
  | .text s, d, _ => by
    rw [build_text]
    exact ⟨by simp [Rep, NodeIs_create], by simp, by simp [owned], by simp [owned],
      fun x hx => frame_create d _ _ x hx⟩
  | .unit, d, _ => by
    rw [build_unit]
    exact ⟨by simp [Rep, NodeIs_create], by simp, by simp [owned], by simp [owned],
      fun x hx => frame_create d _ _ x hx⟩
  | .onone, d, _ => by
    rw [build_onone]
    exact ⟨by simp [Rep, NodeIs_create], by simp, by simp [owned], by simp [owned],
      fun x hx => frame_create d _ _ x hx⟩
  | .osome v, d, h => by
    rw [build_osome]
    have := build_spec v d (by simpa [AllEl] using h)
    exact ⟨by simp [Rep, this.rep], this.next_le, by simpa [owned] using this.range,
      by simpa [owned] using this.nodup, this.frame⟩
  | .either n i v, d, h => by
    rw [build_either]
    have := build_spec v d (by simpa [AllEl] using h)
    exact ⟨by simp [Rep, this.rep], this.next_le, by simpa [owned] using this.range,
      by simpa [owned] using this.nodup, this.frame⟩
  | .any ty v, d, h => by
    rw [build_any]
    have := build_spec v d (by simpa [AllEl] using h)
    exact ⟨by simp [Rep, this.rep], this.next_le, by simpa [owned] using this.range,
      by simpa [owned] using this.nodup, this.frame⟩
  | .tuple vs, d, h => by
    rw [build_tuple]
    exact buildList_spec vs d (by simpa [AllEl] using h)
  | .vec vs, d, h => by
    rw [build_vec]
    have hmk := NodeIs_create d .comment ""
    have hfr := frame_create d .comment ""
    have hnx : (d.create .comment "").1.next = d.next + 1 := rfl
    generalize (d.create .comment "").1 = d1 at *
    have hl := buildList_spec vs d1 (by simpa [AllEl] using h)
    have hl1 := hl.next_le
    refine ⟨?_, ?_, ?_, ?_, ?_⟩ <;> (try dsimp only)
    · simp only [Rep]
      refine ⟨by simpa [Rep] using hl.rep, hmk.congr ?_⟩
      exact hl.frame _ (by omega_nat)
    · omega_nat
    · intro x hx
      simp [owned] at hx
      rcases hx with hx | hx
      · have := hl.range x (by simpa [owned] using hx); omega_nat
      · subst hx; omega_nat
    · simp only [owned]
      rw [List.nodup_append]
      refine ⟨by simpa [owned] using hl.nodup, by simp, ?_⟩
      intro a ha b hb; simp at hb; subst hb
      have := hl.range a (by simpa [owned] using ha); omega_nat
    · intro x hx
      rw [hl.frame x (by omega_nat)]
      exact hfr x hx
  | .elem tag as c, d, h => by
    simp only [AllEl] at h
    rw [build_elem]
    have hg1 : (d.create (.elem tag) "").1.get? d.next = some { kind := .elem tag, data := "" } := by
      simp [Dom.get?_create]
    have hfr := frame_create d (.elem tag) ""
    have hnx : (d.create (.elem tag) "").1.next = d.next + 1 := rfl
    dsimp only
    generalize (d.create (.elem tag) "").1 = d1 at *
    obtain ⟨⟨r', hr', ha', hk', hp', hkid', hd'⟩, hoth, hnext, hst⟩ :=
      h.1 d1 d.next _ hg1 rfl rfl
    simp only at hk' hp' hkid'
    by_cases hv : isVoid tag
    · simp only [hv, if_true]
      refine ⟨?_, ?_, ?_, ?_, ?_⟩ <;> (try dsimp only)
      · simp only [Rep, hv, if_true]
        refine ⟨r', hr', hk', hp', ha', hst, ?_⟩
        simpa using hkid'
      · omega_nat
      · intro x hx; simp [owned, ownedOpt] at hx; subst hx; omega_nat
      · simp [owned, ownedOpt]
      · intro x hx
        rw [hoth x (Nat.ne_of_lt hx)]
        exact hfr x hx
    · have hvf : isVoid tag = false := by simpa using hv
      simp only [hvf, Bool.false_eq_true, if_false]
      have hc := build_spec c (buildAttrs d.next as d1).1 h.2
      generalize build c (buildAttrs d.next as d1).1 = r3 at hc ⊢
      obtain ⟨d3, cs⟩ := r3
      dsimp only at hc ⊢
      -- the element's record is untouched by building the children
      have hel3 : d3.get? d.next = some r' := by
        rw [hc.frame _ (by omega_nat)]; exact hr'
      have hroots := Rep.roots_parent c cs none hc.rep
      have hspec := insertAll_spec cs.roots d3 d.next none r' [] []
        hel3 (by rw [hk']; rfl) (by simpa using hkid') rfl (roots_nodup hc.nodup) hroots
        (by intro hm; have := hc.range _ (roots_sub_owned cs _ hm); omega_nat)
        (by simp)
      rw [mount_eq]
      obtain ⟨⟨rp', hp1, hp2, hp3⟩, hkids, hothers, hnx'⟩ := hspec
      have hcn := hc.next_le
      refine ⟨?_, ?_, ?_, ?_, ?_⟩ <;> (try dsimp only)
      · simp only [Rep, hvf, Bool.false_eq_true, if_false]
        refine ⟨rp', hp1, by rw [hp2.1, hk'], by rw [hp2.2.1, hp'], by rw [hp2.2.2.1]; exact ha', hst, ?_⟩
        refine ⟨cs, rfl, by simpa using hp3, ?_⟩
        apply Rep.reparent c cs none (some d.next) hc.nodup ?_ hkids hc.rep
        intro x hx hxr
        apply hothers x ?_ hxr
        have := hc.range x hx; omega_nat
      · omega_nat
      · intro x hx
        simp [owned, ownedOpt] at hx
        rcases hx with hx | hx
        · subst hx; omega_nat
        · have := hc.range x hx; omega_nat
      · simp only [owned, ownedOpt, List.nodup_cons]
        refine ⟨?_, hc.nodup⟩
        intro hm; have := hc.range _ hm; omega_nat
      · intro x hx
        rw [hothers x (by omega_nat) ?_, hc.frame x (by omega_nat), hoth x (by omega_nat)]
        · exact hfr x hx
        · intro hm; have := hc.range _ (roots_sub_owned cs _ hm); omega_nat
theorem buildList_spec : ∀ (vs : List View) (d : Dom), AllElList (AttrsFresh R) vs →
    Built R d (buildList vs d).1 (.tuple vs) (.tuple (buildList vs d).2)
  | [], d, _ => by
    rw [buildList_nil]
    exact ⟨by simp [Rep, RepList], by simp, by simp [owned, ownedList], by simp [owned, ownedList],
      fun _ _ => rfl⟩
  | v :: vs, d, h => by
    simp only [AllElList] at h
    rw [buildList_cons]
    have h1 := build_spec v d h.1
    have h2 := buildList_spec vs (build v d).1 h.2
    have hn1 := h1.next_le
    have hn2 := h2.next_le
    refine ⟨?_, ?_, ?_, ?_, ?_⟩ <;> (try dsimp only)
    · simp only [Rep, RepList]
      refine ⟨Rep.congr v _ none ?_ h1.rep, by simpa [Rep] using h2.rep⟩
      intro x hx; exact h2.frame x (h1.range x hx).2
    · omega_nat
    · intro x hx
      simp [owned, ownedList] at hx
      rcases hx with hx | hx
      · have := h1.range x hx; omega_nat
      · have := h2.range x (by simpa [owned] using hx); omega_nat
    · simp only [owned, ownedList]
      rw [List.nodup_append]
      refine ⟨h1.nodup, by simpa [owned] using h2.nodup, ?_⟩
      intro a ha b hb e; subst e
      have := h1.range a ha; have := h2.range a (by simpa [owned] using hb); omega_nat
    · intro x hx
      rw [h2.frame x (by omega_nat), h1.frame x hx]
end

end Leptos.View
