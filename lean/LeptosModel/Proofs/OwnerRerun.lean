import LeptosModel.Proofs.OwnerEff
/-!
# Proofs/OwnerRerun — every kind of owner-scoped re-run starts with a complete clean-up pass (C08)

Memo recomputation (`runMemo`), the loop body of every effect-like value (`runEffect`: `Effect::new`
/ `new_sync` / `new_isomorphic`, `Effect::watch`, `RenderEffect::new` / `new_isomorphic`,
`AsyncDerived`), every run of an `ImmediateEffect` (`immUpdate`, recursive runs included), and a direct
`Owner::with_cleanup` (`runWc`) all factor as "`cleanupOwner` on the scope's owner, then the rest";
the rest only performs core primitives, so what the pass killed stays dead and what it logged stays
logged.  The clean-up does not look at what the previous run allocated (only plain arena values,
only cleanups, only child owners, a mixture, nothing): `cleanupOwner` is the same pass in all cases.
-/
namespace Leptos.Owner

/-! ### the rest of a re-run, after its clean-up pass -/

theorem runScoped_after {ex : St → BOp → St} (hex : SRex ex) (st : St) (e o b : Nat) :
    CoreReach (cleanupOwner st.toCore o) (runScoped ex st e o b).toCore := by
  unfold runScoped
  simp only
  have key : ∀ (body : List BOp) (S0 : St),
      S0.toCore = logEv (pushCur (cleanupOwner st.toCore o) o) (Ev.r e) →
      ∀ x, CoreReach (cleanupOwner st.toCore o) (popCur (logEv (List.foldl ex S0 body).toCore (Ev.s e x)) 1) := by
    intro body S0 h0 x
    refine CR.popCur (CR.logEv (sr_foldl _ hex body (a := st.lift (cleanupOwner · o)) (st := S0) ?_) _ rfl) 1
    unfold SR; rw [h0]
    exact CR.logEv (CR.pushCur (CoreReach.refl _) _) _ rfl
  exact key _ _ rfl _

theorem runEffect_after (st : St) (e : Nat) (er : EffRec) :
    CoreReach (cleanupOwner st.toCore er.owner) (runEffect st e er).toCore := by
  unfold runEffect
  have h1 : (prepRun st e er).toCore = st.toCore := by
    unfold prepRun; simp only; split <;> rfl
  have h2 := runScoped_after sr_execBOp (prepRun st e er) e er.owner er.body
  rw [h1] at h2
  exact sr_afterRun (a := St.lift st (cleanupOwner · er.owner)) h2 e er

theorem runWc_after (st : St) (o b : Nat) :
    CoreReach (cleanupOwner st.toCore o) (runWc st o b).toCore := by
  unfold runWc
  simp only
  have key : ∀ (body : List BOp) (S0 : St), S0.toCore = pushCur (cleanupOwner st.toCore o) o →
      CoreReach (cleanupOwner st.toCore o) (popCur (List.foldl execBOp S0 body).toCore 1) := by
    intro body S0 h0
    refine CR.popCur (sr_foldl _ sr_execBOp body (a := st.lift (cleanupOwner · o)) (st := S0) ?_) 1
    unfold SR; rw [h0]
    exact CR.pushCur (CoreReach.refl _) _
  exact key _ _ rfl

theorem runMemo_after {ex : St → BOp → St} (hex : SRex ex) (st : St) (m : Nat) (mr : MemoRec)
    (hm : st.memos[m]? = some mr) :
    CoreReach (cleanupOwner st.toCore mr.owner) (runMemo ex st m).toCore := by
  unfold runMemo
  rw [hm]
  simp only
  have key : ∀ (body : List BOp) (S0 : St),
      S0.toCore = logEv (pushCur (cleanupOwner st.toCore mr.owner) mr.owner) (Ev.m m) →
      CoreReach (cleanupOwner st.toCore mr.owner) (popCur (List.foldl ex S0 body).toCore 1) := by
    intro body S0 h0
    refine CR.popCur (sr_foldl _ hex body (a := st.lift (cleanupOwner · mr.owner)) (st := S0) ?_) 1
    unfold SR; rw [h0]
    exact CR.logEv (CR.pushCur (CoreReach.refl _) _) _ rfl
  split
  · exact key _ _ rfl
  · exact key _ _ rfl

/-- a run of an `ImmediateEffect` (`update_if_necessary`, state `Dirty`, owner not paused) — the first
one, a later one, or one that starts while an earlier run of the same effect is still in progress -/
theorem immUpdate_after {ex : St → BOp → St} (hex : SRex ex) (st : St) (e : Nat) (er : EffRec)
    (he : st.effs[e]? = some er) (hrun : (ownerPaused st.toCore er.owner || !er.dirty) = false) :
    CoreReach (cleanupOwner st.toCore er.owner) (immUpdate ex st e).toCore := by
  unfold immUpdate
  rw [he]
  simp only [hrun, Bool.false_eq_true, if_false]
  refine sr_immRelease (a := st.lift (cleanupOwner · er.owner)) (sr_immEnd ?_ _ _) _
  have key : ∀ S0 : St, S0.toCore = st.toCore →
      SR (st.lift (cleanupOwner · er.owner)) (runScoped ex S0 e er.owner er.body) := by
    intro S0 h0
    have := runScoped_after hex S0 e er.owner er.body
    rw [h0] at this
    exact this
  refine SR.react (st := runScoped ex _ e er.owner er.body) (key _ ?_) rfl
  rfl

end Leptos.Owner
