import LeptosModel.Proofs.RViewMPoll
/-!
# Proofs/RViewMRun — every history of a program over signals and memos (with `Show`) keeps the invariant;
at idle the DOM is the fresh render
-/
namespace Leptos.RView
open Leptos.Reactive

/-- **one poll of any task keeps the invariant** -/
theorem InvCM.poll {K : Nat} {v : View} {st : St} (h : InvCM K v st) (hre : RerunOK K v)
    {e : Nat} (he : e ∈ st.tasks) (hedone : (st.rs.get e).done = false) : InvCM K v (pollTask st e) := by
  obtain ⟨t, ht⟩ := h.tree
  have hzbound := zEffs_boundM h.zb h.zok
  have hb : K ≤ e ∧ IsEff st e := by
    rcases ht.tasks e he with hd | hd | hd
    · rw [hedone] at hd; cases hd.1
    · obtain ⟨x, _, hk⟩ := ht.eff hd; exact ⟨hk.ke, x, hk.prog⟩
    · exact hzbound e hd
  by_cases healive : (st.rs.get e).alive = true
  · exact pollAliveM hre h ⟨hb.1, hb.2, healive, hedone, he⟩
  · exact h.dead hb.1 hb.2 (by simpa using healive)

theorem InvCM.pollNth {K : Nat} {v : View} {st : St} (h : InvCM K v st) (hre : RerunOK K v)
    (i : Nat) : InvCM K v (RView.pollNth st i) := by
  unfold RView.pollNth
  simp only
  split
  · exact h
  · next hne =>
    have hm := getD_mem_of_ne_nil (l := ready st) (by simpa using hne) i
    have hf : (ready st).getD (i % (ready st).length) 0 ∈ st.tasks ∧
        (st.rs.get ((ready st).getD (i % (ready st).length) 0)).done = false := by
      unfold ready at hm ⊢
      have := List.mem_filter.1 hm
      exact ⟨this.1, by have := this.2; simp only [Bool.and_eq_true, Bool.not_eq_true'] at this; exact this.2⟩
    exact h.poll hre hf.1 hf.2

theorem InvCM.runIdle {K : Nat} {v : View} (hre : RerunOK K v) :
    ∀ (k : Nat) (st : St), InvCM K v st → InvCM K v (RView.runIdle k st)
  | 0, st, h => h
  | k + 1, st, h => by
    simp only [RView.runIdle]
    split
    · exact h
    · exact InvCM.runIdle hre k _ (h.pollNth hre 0)

theorem InvCM.setSig {K : Nat} {v : View} {st : St} (h : InvCM K v st) (id : Nat) (w : Int) :
    InvCM K v (RView.setSig st id w) := by
  obtain ⟨hrm, hx⟩ := setSigM h.rm id w
  obtain ⟨t, ht⟩ := h.tree
  have hprog : (RView.setSig st id w).prog = st.prog := rfl
  refine ⟨hrm, ⟨t, ht.root, GoodM.extM hx v t ht.good (fun _ _ hf => hf), ht.uniq, ?_⟩, ?_, ?_,
    fun z hz => ⟨(h.zb z hz).1, (h.zb z hz).2.of_prog hprog⟩⟩
  · intro y hy
    rcases ht.tasks y hy with hd | hd | hd
    · left
      have := hx.keep y hd.2.lt (hd.2.kind h.rm) (fun hf => hf)
      simp only [stab, Prod.mk.injEq] at this
      exact ⟨by rw [this.2.2.2.1]; exact hd.1, hd.2.of_prog hprog⟩
    · exact Or.inr (Or.inl hd)
    · exact Or.inr (Or.inr hd)
  · intro z hz sub hsub; exact (h.zok z hz sub hsub).of_prog hprog
  · intro z hz
    have hb := h.zb z hz
    have := hx.keep z.1 hb.2.lt (hb.2.kind h.rm) (fun hf => hf)
    simp only [stab, Prod.mk.injEq] at this
    rw [this.2.2.1]; exact h.zdead z hz

/-- the invariant of a history: disposed for good, or `InvCM` -/
def InvDM (K : Nat) (v : View) (st : St) : Prop :=
  (st.disposed = true ∧ st.root = none) ∨ (st.disposed = false ∧ InvCM K v st)

theorem InvDM.step {K : Nat} {v : View} {st : St} (h : InvDM K v st) (hre : RerunOK K v)
    (op : Op) : InvDM K v (RView.step st op) := by
  rcases h with h | h
  · exact Or.inl (step_disposed st op h)
  · cases op with
    | set id w => exact Or.inr ⟨h.1, h.2.setSig id w⟩
    | poll i => exact Or.inr ⟨(pollNth_book st i).1.trans h.1, h.2.pollNth hre i⟩
    | idle => exact Or.inr ⟨(runIdle_book 4096 st).1.trans h.1, InvCM.runIdle hre 4096 st h.2⟩
    | dispose => exact Or.inl (dispose_disposed st)

/-! ## the start state -/

theorem initDefs_fold : ∀ (defs : Prog) (st : St),
    (defs.foldl (fun st d => (st.addDef d).2) st).prog = st.prog ++ defs ∧
    (defs.foldl (fun st d => (st.addDef d).2) st).rs =
      { st.rs with nodes := st.rs.nodes ++ defs.map initNode } ∧
    (defs.foldl (fun st d => (st.addDef d).2) st).tasks = st.tasks ∧
    (defs.foldl (fun st d => (st.addDef d).2) st).zombies = st.zombies ∧
    (defs.foldl (fun st d => (st.addDef d).2) st).root = st.root ∧
    (defs.foldl (fun st d => (st.addDef d).2) st).disposed = st.disposed
  | [], st => by simp
  | d :: rest, st => by
    have ih := initDefs_fold rest (st.addDef d).2
    simp only [List.foldl_cons]
    refine ⟨by rw [ih.1]; simp [St.addDef], ?_, ih.2.2.1, ih.2.2.2.1, ih.2.2.2.2.1, ih.2.2.2.2.2⟩
    rw [ih.2.1]
    simp [St.addDef]

theorem defsOk_spec {defs : Prog} (h : defsOk defs = true) :
    WF defs = true ∧ bodiesTracked defs = true ∧ ∀ i, i < defs.length → ∃ d, defs[i]? = some d ∧ ∀ x, d ≠ .eff x := by
  simp only [defsOk, Bool.and_eq_true, List.all_eq_true] at h
  refine ⟨h.1, ?_, ?_⟩
  · simp only [bodiesTracked, List.all_eq_true]
    intro d hd
    have := h.2 d hd
    cases d with
    | sig _ => rfl
    | memo b => exact this
    | eff b => simp at this
  · intro i hi
    refine ⟨defs[i], List.getElem?_eq_getElem hi, ?_⟩
    intro x hx
    have := h.2 defs[i] (List.getElem_mem hi)
    rw [hx] at this; simp at this

theorem initDefsM {defs : Prog} (h : defsOk defs = true) : RM defs.length (initDefs defs) := by
  obtain ⟨hwf, htr, hdata⟩ := defsOk_spec h
  have hf := initDefs_fold defs {}
  have hprog : (initDefs defs).prog = defs := by
    unfold initDefs; rw [hf.1]; simp
  have hrs : (initDefs defs).rs = initState defs := by
    unfold initDefs; rw [hf.2.1]; simp [initState]
  have hnoeff : ∀ i, ((initState defs).get i).kind ≠ .eff := by
    intro i hk
    rw [initState_get] at hk
    cases hd : defs[i]? with
    | none => rw [hd] at hk; cases hk
    | some d =>
      rw [hd] at hk
      have hi : i < defs.length := by
        rcases Nat.lt_or_ge i defs.length with h' | h'
        · exact h'
        · rw [List.getElem?_eq_none h'] at hd; cases hd
      obtain ⟨d', hd', hne⟩ := hdata i hi
      rw [hd] at hd'; cases hd'
      cases d with
      | sig _ => cases hk
      | memo _ => cases hk
      | eff x => exact hne x rfl
  refine ⟨?_, by rw [hprog]; exact hwf, by rw [hprog]; exact htr, by rw [hprog]; exact Nat.le_refl _, ?_, ?_, ?_⟩
  · rw [hprog, hrs]
    exact (init_topC defs).congrD (fun i => ⟨fun hf => hf.elim, fun hd => absurd hd.1 (hnoeff i)⟩)
  · rw [hprog]; exact hdata
  · intro i hk; rw [hrs] at hk; exact absurd hk (hnoeff i)
  · intro i x hx
    rw [hprog] at hx
    have hi : i < defs.length := by
      rcases Nat.lt_or_ge i defs.length with h' | h'
      · exact h'
      · rw [List.getElem?_eq_none h'] at hx; cases hx
    obtain ⟨d', hd', hne⟩ := hdata i hi
    rw [hx] at hd'; cases hd'
    exact absurd rfl (hne x)

theorem InvDM.start {p : Program} (hw : p.wf = true) (hc : p.view.coreS = true) :
    InvDM p.defs.length p.view (RView.start p) := by
  simp only [Program.wf, Bool.and_eq_true] at hw
  have hi := initDefsM hw.1
  have hf := initDefs_fold p.defs {}
  have htasks : (initDefs p.defs).tasks = [] := by unfold initDefs; rw [hf.2.2.1]
  have hzomb : (initDefs p.defs).zombies = [] := by unfold initDefs; rw [hf.2.2.2.1]
  have hdisp : (initDefs p.defs).disposed = false := by unfold initDefs; rw [hf.2.2.2.2.2]
  have hb := build_specM p.view (initDefs p.defs).alloc.2 (allocM hi) hw.2 hc
  have hz : (build p.view (initDefs p.defs).alloc.2).2.zombies = [] := by
    rw [hb.same.zombies]; exact hzomb
  refine Or.inr ⟨?_, ?_⟩
  · show (build p.view (initDefs p.defs).alloc.2).2.disposed = false
    rw [hb.same.disposed]; exact hdisp
  · refine ⟨hb.rm.of_rs_prog rfl rfl, ⟨_, rfl, ?_, ?_, ?_⟩, ?_, ?_, ?_⟩
    · exact GoodM.congr _ _ hb.good rfl rfl rfl
    · intro y
      show (effsOf (build p.view (initDefs p.defs).alloc.2).1).count y +
        (zEffs (build p.view (initDefs p.defs).alloc.2).2.zombies).count y ≤ 1
      rw [hz]
      have := List.nodup_iff_count.1 hb.nodup y
      simp [zEffs]; exact this
    · intro e he
      rcases build_tasksM p.view (initDefs p.defs).alloc.2 hc e he with h1 | h1
      · have : (initDefs p.defs).alloc.2.tasks = [] := htasks
        rw [this] at h1; simp at h1
      · exact Or.inr (Or.inl h1)
    · intro z hz'
      have : z ∈ (build p.view (initDefs p.defs).alloc.2).2.zombies := hz'
      rw [hz] at this; simp at this
    · intro z hz'
      have : z ∈ (build p.view (initDefs p.defs).alloc.2).2.zombies := hz'
      rw [hz] at this; simp at this
    · intro z hz'
      have : z ∈ (build p.view (initDefs p.defs).alloc.2).2.zombies := hz'
      rw [hz] at this; simp at this

theorem InvDM.run {p : Program} (hw : p.wf = true) (hc : p.view.coreS = true) (ops : List Op) :
    InvDM p.defs.length p.view (RView.run p ops) := by
  have hw' := hw
  simp only [Program.wf, Bool.and_eq_true] at hw'
  unfold RView.run
  have h0 : ∀ (s0 : St), InvDM p.defs.length p.view s0 →
      InvDM p.defs.length p.view (ops.foldl RView.step s0) := by
    induction ops with
    | nil => intro s0 h; exact h
    | cons op rest ih => intro s0 h; exact ih _ (h.step (rerunOK_coreS hw'.2 hc) op)
  exact h0 _ (InvDM.start hw hc)

/-- at an idle point of a state satisfying the invariant the DOM is the fresh render -/
theorem InvCM.settled {K : Nat} {v : View} {st : St} (h : InvCM K v st) (hc : v.coreS = true)
    (hidle : ready st = []) : st.dom = render st.env v := by
  obtain ⟨t, ht⟩ := h.tree
  have hnp : ∀ e ∈ effsOf t, (st.rs.get e).chan = false := by
    intro e he
    obtain ⟨x, cur, hok⟩ := ht.eff he
    cases hch : (st.rs.get e).chan with
    | false => rfl
    | true =>
      exfalso
      have hnd : ¬ DeadE st.rs e := fun hd => by have := hd.2; rw [hok.alive] at this; cases this
      have hwk := (h.rm.top.conv.eff e hok.kind (h.rm.top.quiet.idle e) hnd (by simp)).chanWoken hch
      have : e ∈ ready st := by
        unfold ready
        refine List.mem_filter.2 ⟨hok.task, ?_⟩
        simp [hwk, hok.done]
      rw [hidle] at this; simp at this
  simp only [St.dom, ht.root]
  exact GoodM.serialize_eq h.rm v t ht.good hc hnp

/-- a well-formed view (the grammar of the theorems) has no component-local state -/
theorem wf_coreS {k : Nat} : ∀ (v : View), v.wf k = true → v.coreS = true
  | .text _, _ => rfl
  | .unit, _ => rfl
  | .elem _ _ kid, h => by
    simp only [View.wf, Bool.and_eq_true] at h
    exact wf_coreS kid h.2
  | .seq a b, h => by
    simp only [View.wf, Bool.and_eq_true] at h
    simp only [View.coreS, wf_coreS a h.1, wf_coreS b h.2, Bool.and_self]
  | .dynText _, _ => rfl
  | .either _ a b, h => by
    simp only [View.wf, Bool.and_eq_true] at h
    simp only [View.coreS, wf_coreS a h.1.2, wf_coreS b h.2, Bool.and_self]
  | .show _ a b, h => by
    simp only [View.wf, Bool.and_eq_true] at h
    simp only [View.coreS, wf_coreS a h.1.2, wf_coreS b h.2, Bool.and_self]
  | .forKeyed _ _, _ => rfl
  | .scope _ _ _, h => by simp [View.wf] at h
  | .forRows _ _ _ _, h => by simp [View.wf] at h

end Leptos.RView
