import LeptosModel.Proofs.AsyncSusp
/-!
# Proofs/AsyncLock — nobody is lost at the value lock (C10)

The `(false, Poll::Pending)` arm of `AsyncDerivedFuture::poll` / `AsyncDerivedRefFuture::poll` returns `Pending`
with the task's waker registered nowhere (`Aw.lost`).  It needs loading OFF while the lock is not readable.  The only
writer that ever waits for the lock is the derived's own task (`lockReg`), and it stores the value before it turns
loading off — unless a manual write turned loading off during the fetch.  So as long as no manual write happens,
no awaiter is ever lost (`LOK.run`).
-/
namespace Leptos.Async

def NoLost (l : List Aw) : Prop := ∀ a ∈ l, a.lost = false

theorem NoLost.append {l m : List Aw} (h : NoLost l) (hm : NoLost m) : NoLost (l ++ m) := by
  intro a ha
  rcases List.mem_append.mp ha with ha | ha
  · exact h a ha
  · exact hm a ha

theorem NoLost.map {f : Aw → Aw} (hf : ∀ a, (f a).lost = a.lost) {l : List Aw} (h : NoLost l) : NoLost (l.map f) := by
  intro a ha
  rcases List.mem_map.mp ha with ⟨b, hb, rfl⟩
  rw [hf]; exact h b hb

theorem wakeAw_lost (a : Aw) : (wakeAw a).lost = a.lost := by unfold wakeAw; split <;> rfl
theorem dropAw_lost (a : Aw) : (dropAw a).lost = a.lost := by unfold dropAw; split <;> rfl
theorem releaseAw_lost (a : Aw) : (releaseAw a).lost = a.lost := by unfold releaseAw; split <;> rfl

/-- polling an awaiter while loading is on, or while the lock is readable, never loses it -/
theorem NoLost.poll {l : List Aw} (h : NoLost l) {ld b : Bool} (hb : ld = true ∨ b = false) (v : Option Val) (i : Nat) :
    NoLost (modifyAt (pollAw ld b v) l i) := by
  intro a ha
  rcases mem_modifyAt ha with ha | ⟨x, hx, rfl⟩
  · exact h a ha
  · have := h x hx
    unfold pollAw
    (repeat' split) <;> simp_all

/-- no manual write has interfered with the fetch in flight, and nobody has been lost -/
structure LOK (s : State) : Prop where
  m : s.msetDuring = false
  n : NoLost s.aws

theorem LOK.init (c : Cfg) : LOK (init c) := by
  constructor <;> simp [Async.init, NoLost]

theorem LOK.of_same {s t : State} (h : LOK s) (e : SameSusp s t) : LOK t := by
  obtain ⟨_, e2, _, _, _, _, _, e8, _, _⟩ := e
  exact ⟨by rw [e8]; exact h.m, by rw [e2]; exact h.n⟩

theorem LOK.applyResult {s : State} (h : LOK s) : LOK (applyResult s) := by
  simp only [Async.applyResult]
  split
  · constructor
    · simp [notifySubs_msetDuring]; exact h.m
    · simp only [notifySubs_aws, postReads_aws]
      exact h.n.map wakeAw_lost
  · exact ⟨by simpa using h.m, by simpa using h.n⟩

theorem LOK.fetchState {s : State} (h : NoLost s.aws) : LOK (fetchState s) := by
  have hn : NoLost (if s.isLocal = true then s.aws ++ [({ kind := .tick, tag := s.nf + 1 } : Aw)] else s.aws) := by
    split
    · exact h.append (by simp [NoLost])
    · exact h
  rcases fetchState_cases s with ⟨_, _, _, _, heq⟩ | heq <;> rw [heq]
  · exact ⟨rfl, h⟩
  · exact ⟨rfl, hn⟩

theorem chk_lok {s : State} (h : LOK s) : LOK (chk s).1 := by
  have e1 : (chk s).1.msetDuring = s.msetDuring := by
    simp only [chk, dNeedsRerun, smUpdate]; (repeat' split) <;> rfl
  have e2 : (chk s).1.aws = s.aws := by
    simp only [chk, dNeedsRerun, smUpdate]; (repeat' split) <;> rfl
  exact ⟨by rw [e1]; exact h.m, by rw [e2]; exact h.n⟩

theorem LOK.block {s : State} (h : LOK s) : LOK (blockOnLock s) := ⟨h.m, h.n⟩

theorem LOK.dIter {s : State} (h : LOK s) : LOK (dIter s).1 := by
  rw [dIter_def]
  split
  · exact ⟨h.m, h.n⟩
  · split
    · split
      · split
        · exact (LOK.fetchState h.n).applyResult
        · exact (LOK.fetchState h.n).block
      · exact ⟨(LOK.fetchState h.n).m, (LOK.fetchState h.n).n⟩
    · exact chk_lok h

theorem LOK.dLoop (n : Nat) {s : State} (h : LOK s) : LOK (dLoop n s) := by
  induction n generalizing s with
  | zero => exact ⟨h.m, h.n⟩
  | succ n ih =>
    rw [Async.dLoop]
    split
    · exact ih h.dIter
    · exact h.dIter

theorem LOK.pollD {s : State} (h : LOK s) : LOK (pollD s) := by
  unfold Async.pollD
  dsimp only
  split
  · apply LOK.dLoop
    split <;> exact ⟨h.m, h.n⟩
  · exact LOK.dLoop 3 ⟨h.m, h.n⟩
  · split
    · split
      · exact LOK.dLoop 3 (LOK.applyResult ⟨h.m, h.n⟩)
      · exact ⟨h.m, h.n⟩
    · exact ⟨h.m, h.n⟩

/-- every event but a manual write -/
theorem LOK.step {s : State} (h : LOK s) (hi : Inv s) (hs : SInv false s) (e : Event)
    (he : ∀ v, e ≠ .manualSet v) : LOK (step s e) := by
  cases e with
  | set i v => exact h.of_same (setSrc_susp s i v)
  | refetch => exact h.of_same (refetch_susp s)
  | manualSet v => exact absurd rfl (he v)
  | complete k => exact h.of_same (complete_susp s k)
  | attach => exact ⟨h.m, h.n.append (by simp [NoLost])⟩
  | poll j =>
    simp only [Async.step, pollNth]
    split
    · rename_i t _
      cases t
      · show LOK (pollT0 s)
        unfold pollT0
        split <;> exact ⟨h.m, h.n⟩
      · exact h.pollD
      · exact h.of_same (SameSusp.trans (b := { s with eWoken := false })
          ⟨rfl, rfl, rfl, rfl, rfl, rfl, rfl, rfl, rfl, rfl⟩ (eLoop_susp 4 _))
      · rename_i i _
        -- the lock is unreadable only while the task holds a result it has not stored: then loading is still on
        have hb : s.loading = true ∨ s.lockReg = false := by
          cases hl : s.lockReg
          · exact .inr rfl
          · exact .inl (hs.p5 (hi.dr.r8 hl).1 h.m)
        have hn := h.n.poll hb s.value i
        show LOK (pollA s i)
        unfold pollA wakeWriter
        dsimp only
        split <;> exact ⟨h.m, hn⟩
    · exact h
  | get => exact h
  | bread =>
    simp only [Async.step, bread]
    (repeat' split) <;> first | exact ⟨h.m, h.n⟩ | exact ⟨h.m, h.n.append (by simp [NoLost])⟩
  | attachS => exact ⟨h.m, h.n.append (by simp [NoLost])⟩
  | bdrop => exact ⟨h.m, h.n.map dropAw_lost⟩
  | attachR => exact ⟨h.m, h.n.append (by simp [NoLost])⟩
  | attachH => exact ⟨h.m, h.n.append (by simp [NoLost])⟩
  | hold => exact ⟨h.m, h.n⟩
  | release =>
    show LOK (release s)
    unfold release wakeWriter
    dsimp only
    split <;> exact ⟨h.m, h.n.map releaseAw_lost⟩

theorem LOK.foldl {s : State} (h : LOK s) (hi : Inv s) (hs : SInv false s) (es : List Event)
    (hes : ∀ e ∈ es, ∀ v, e ≠ .manualSet v) : LOK (es.foldl Async.step s) := by
  induction es generalizing s with
  | nil => exact h
  | cons e es ih =>
    exact ih (h.step hi hs e (hes e (by simp))) (hi.step e) (hs.step e) (fun x hx => hes x (by simp [hx]))

/-- after every history without a manual write -/
theorem LOK.run (c : Cfg) (es : List Event) (hes : ∀ e ∈ es, ∀ v, e ≠ .manualSet v) : LOK (run c es) :=
  (LOK.init c).foldl (Inv.init c) (SInv.init c) es hes

end Leptos.Async
