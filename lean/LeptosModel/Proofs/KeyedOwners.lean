import LeptosModel.Proofs.KeyedSummary
import LeptosModel.Proofs.KeyedDetached
/-!
# Row-local state follows item identity (C11: "retained items keep their DOM nodes AND STATE")
-/
namespace Leptos.Keyed

theorem get_map_of_mem (g : Item → Nat) : ∀ (l : List Item) (it : Item), it ∈ l →
    Owners.get (l.map fun x => (x, g x)) it = some (g it)
  | [], _, h => by simp at h
  | a :: l, it, h => by
    unfold Owners.get
    simp only [List.map_cons, List.find?_cons]
    by_cases ha : a = it
    · subst ha; simp
    · have : (a == it) = false := by simpa using ha
      simp only [this]
      have hl : it ∈ l := by
        simp only [List.mem_cons] at h
        rcases h with rfl | h
        · exact absurd rfl ha
        · exact h
      exact get_map_of_mem g l it hl

theorem get_map_of_not_mem (g : Item → Nat) : ∀ (l : List Item) (it : Item), it ∉ l →
    Owners.get (l.map fun x => (x, g x)) it = none
  | [], _, _ => rfl
  | a :: l, it, h => by
    simp only [List.mem_cons, not_or] at h
    unfold Owners.get
    have : (a == it) = false := by simpa using Ne.symm h.1
    simp only [List.map_cons, List.find?_cons, this]
    exact get_map_of_not_mem g l it h.2

theorem get_none_of_not_mem (o : Owners) (it : Item) (h : ∀ p ∈ o, p.1 ≠ it) : o.get it = none := by
  unfold Owners.get
  rw [List.find?_eq_none.mpr (by intro p hp; simpa using h p hp)]
  rfl

/-- **row-local state after `rebuild`** (any diff function that hands `apply_diff` the right commands; with or
without a parent): a retained item keeps its owner with the value it holds, the owner of a removed item is
disposed, a new item has a fresh owner -/
theorem owners_after_rebuild (D : List Key → List Key → Diff) (hD : DiffLike D) (fresh : Key → Nat)
    (s : KState) (to : List Key) (o : Owners) (hs : Wf s) (hto : to.Nodup)
    (hown : ∀ p ∈ o, p.1 ∈ somes s.w.storage) :
    (∀ it ∈ somes s.w.storage, it.key ∈ to →
      (ownersAfter fresh o (rebuildWith D s to)).get it = some ((o.get it).getD (fresh it.key))) ∧
    (∀ it ∈ somes s.w.storage, it.key ∉ to → (ownersAfter fresh o (rebuildWith D s to)).get it = none) ∧
    (∀ it ∈ somes (rebuildWith D s to).w.storage, it.key ∉ s.hashed →
      (ownersAfter fresh o (rebuildWith D s to)).get it = some (fresh it.key)) := by
  have sm : Summary s.hashed to (somes s.w.storage) (rebuildWith D s to).w :=
    (applyDiff_summary D hD s.hashed to (somes s.w.storage) hs.nodup hto hs.keys s.bs s.marker
      { s.w with log := {} } hs.all_some rfl).of_sim (rebuildWith_sim D s to)
  have hkeys : ∀ z ∈ somes (rebuildWith D s to).w.storage, z.key ∈ to := by
    intro z hz
    obtain ⟨j, hj⟩ := List.mem_iff_getElem?.mp hz
    have hjlt : j < to.length := by
      have := (List.getElem?_eq_some_iff.mp hj).1
      have := sm.len
      omega
    obtain ⟨it', hit', hk, _⟩ := sm.at_ j to[j] (List.getElem?_eq_getElem hjlt)
    rw [hj] at hit'
    simp only [Option.some.injEq] at hit'
    subst hit'
    rw [hk]
    exact List.getElem_mem hjlt
  refine ⟨?_, ?_, ?_⟩
  · -- identity: the item is still stored
    intro it hit hk
    obtain ⟨i, hi⟩ := List.mem_iff_getElem?.mp hit
    obtain ⟨j, hj⟩ := List.mem_iff_getElem?.mp hk
    have hfi : s.hashed[i]? = some it.key := by rw [← hs.keys, List.getElem?_map, hi]; rfl
    obtain ⟨it', hit', _, hold⟩ := sm.at_ j it.key hj
    have := hold i hfi
    rw [hi] at this
    simp only [Option.some.injEq] at this
    subst this
    exact get_map_of_mem _ _ _ (List.mem_of_getElem? hit')
  · intro it _ hk
    exact get_map_of_not_mem _ _ _ (fun h => hk (hkeys it h))
  · intro it hit hk
    have hget := get_map_of_mem (fun x => (o.get x).getD (fresh x.key)) _ it hit
    have : o.get it = none := by
      apply get_none_of_not_mem
      intro p hp heq
      have hmem := hown p hp
      rw [heq] at hmem
      obtain ⟨i, hi⟩ := List.mem_iff_getElem?.mp hmem
      have : s.hashed[i]? = some it.key := by rw [← hs.keys, List.getElem?_map, hi]; rfl
      exact hk (List.mem_of_getElem? this)
    rw [this] at hget
    exact hget

end Leptos.Keyed
