import LeptosModel.Proofs.RViewInv
/-!
# Proofs/RViewNodes — which DOM nodes a re-run of effect `e` can touch (all trees, no invariant needed)
-/
namespace Leptos.RView
open Leptos.Reactive

/-- the structural effects (either / show / for) whose DOM region lies directly in the enclosing
parent's child list -/
def structEffs : RState → List Nat
  | .text _ _ => []
  | .unit _ => []
  | .elem _ _ _ _ => []
  | .seq a b => structEffs a ++ structEffs b
  | .dynText _ _ _ _ => []
  | .either e _ _ _ _ inner => e :: structEffs inner
  | .show e _ _ _ _ _ inner => e :: structEffs inner
  | .forK e _ _ _ _ => [e]
  | .scope _ _ _ inner => structEffs inner
  | .rows e _ _ _ _ _ _ => [e]
  | .rowCons _ _ _ _ => []
  | .rowNil => []
  | .errb e _ _ _ kid => e :: structEffs kid
  | .res e _ _ _ _ _ => [e]
  | .hooked _ inner => structEffs inner
  | .errTok _ => []

/-- the rows of a keyed region as DOM nodes: `<li>` (one mutation: its text child), its text, the marker -/
def forNodes (ks : Keyed.KState) (texts : List (Nat × Nat)) : List N :=
  ks.w.kids.flatMap fun li =>
    if li == ks.marker then [⟨li, 0⟩]
    else [⟨li, 1⟩, ⟨((texts.find? (·.1 == li)).map (·.2)).getD 0, 0⟩]

/-- every DOM node of a state tree (identity + mutation counter) with the effects that govern it: the
dynamic parts enclosing it, its own reactive attributes, and the structural parts directly below it -/
def nodesOf : RState → List (N × List Nat)
  | .text n _ => [(n, [])]
  | .unit n => [(n, [])]
  | .elem n _ as kid => (n, as.flatMap AState.effs ++ structEffs kid) :: nodesOf kid
  | .seq a b => nodesOf a ++ nodesOf b
  | .dynText e _ n _ => [(n, [e])]
  | .either e _ _ _ _ inner => (nodesOf inner).map fun p => (p.1, e :: p.2)
  | .show e _ _ _ _ _ inner => (nodesOf inner).map fun p => (p.1, e :: p.2)
  | .forK e _ _ ks texts => (forNodes ks texts).map fun n => (n, [e])
  | .scope _ _ _ inner => nodesOf inner
  -- lists with rows of their own are outside the class of `C04_untouched_nodes`
  | .rows _ _ _ _ _ _ _ => []
  | .rowCons _ _ _ _ => []
  | .rowNil => []
  -- error boundaries are outside the class of `C04_untouched_nodes`
  | .errb _ _ _ _ _ => []
  | .res _ _ _ _ _ _ => []
  | .hooked _ _ => []
  | .errTok _ => []

/-- the mount root and everything below it -/
def St.nodes (st : St) : List (N × List Nat) :=
  match st.root with
  | some t => (st.rootN, structEffs t) :: nodesOf t
  | none => [(st.rootN, [])]

theorem rerunAttr_other (e : Nat) (w : Int) : ∀ (s : AState), e ∉ s.effs → rerunAttr e w s = (s, 0)
  | .stat _ _, _ => rfl
  | .dyn e' _ _ _, h => by
    have : ¬ e' = e := fun hh => h (by simp [AState.effs, hh])
    simp [rerunAttr, this]
  | .cls e' _ _ _, h => by
    have : ¬ e' = e := fun hh => h (by simp [AState.effs, hh])
    simp [rerunAttr, this]
  | .sty e' _ _ _, h => by
    have : ¬ e' = e := fun hh => h (by simp [AState.effs, hh])
    simp [rerunAttr, this]

theorem rerunAttrs_other (e : Nat) (w : Int) : ∀ (ss : List AState), e ∉ ss.flatMap AState.effs →
    rerunAttrs e w ss = (ss, 0)
  | [], _ => rfl
  | s :: ss, h => by
    simp only [List.flatMap_cons, List.mem_append, not_or] at h
    simp only [rerunAttrs, rerunAttr_other e w s h.1, rerunAttrs_other e w ss h.2]

theorem rerunAttr_effs (e : Nat) (w : Int) : ∀ (s : AState), (rerunAttr e w s).1.effs = s.effs
  | .stat _ _ => rfl
  | .dyn e' _ _ _ => by simp only [rerunAttr]; split <;> rfl
  | .cls e' _ _ _ => by simp only [rerunAttr]; split <;> rfl
  | .sty e' _ _ _ => by simp only [rerunAttr]; split <;> rfl

theorem rerunAttrs_effs (e : Nat) (w : Int) : ∀ (ss : List AState),
    (rerunAttrs e w ss).1.flatMap AState.effs = ss.flatMap AState.effs
  | [] => rfl
  | s :: ss => by
    simp only [rerunAttrs, List.flatMap_cons, rerunAttr_effs e w s, rerunAttrs_effs e w ss]

/-- a re-run of `e` leaves the structural effects of a region, and the parent's child list, alone unless
`e` is one of them -/
theorem rerunIn_struct (e : Nat) (w : Int) : ∀ (t : RState) (st : St), e ∉ structEffs t →
    (rerunIn e w t st).2.2 = 0 ∧ structEffs (rerunIn e w t st).1 = structEffs t := by
  intro t
  induction t with
  | text n s => intro st _; exact ⟨rfl, rfl⟩
  | unit n => intro st _; exact ⟨rfl, rfl⟩
  | elem n tag as kid _ => intro st _; exact ⟨rfl, rfl⟩
  | seq a b iha ihb =>
    intro st h
    simp only [structEffs, List.mem_append, not_or] at h
    have h1 := iha st h.1
    have h2 := ihb (rerunIn e w a st).2.1 h.2
    simp only [rerunIn, structEffs]
    exact ⟨by rw [h1.1, h2.1], by rw [h1.2, h2.2]⟩
  | dynText e' x n last => intro st _; simp only [rerunIn]; split <;> exact ⟨rfl, rfl⟩
  | either e' c a b left inner ih =>
    intro st h
    simp only [structEffs, List.mem_cons, not_or] at h
    have hne : ¬ e' = e := fun hh => h.1 hh.symm
    simp only [rerunIn, hne, if_false, structEffs]
    exact ⟨(ih st h.2).1, by rw [(ih st h.2).2]⟩
  | «show» e' m c a b left inner ih =>
    intro st h
    simp only [structEffs, List.mem_cons, not_or] at h
    have hne : ¬ e' = e := fun hh => h.1 hh.symm
    simp only [rerunIn, hne, if_false, structEffs]
    exact ⟨(ih st h.2).1, by rw [(ih st h.2).2]⟩
  | forK e' sel lists ks texts =>
    intro st h
    simp only [structEffs, List.mem_singleton] at h
    have hne : ¬ e' = e := fun hh => h hh.symm
    simp only [rerunIn, hne, if_false, structEffs]
    exact ⟨trivial, trivial⟩
  | scope m sid isSig inner ih =>
    intro st h
    simp only [structEffs] at h
    simp only [rerunIn, structEffs]
    exact ih st h
  | rows e' en sel lists row ks items _ =>
    intro st h
    simp only [structEffs, List.mem_singleton] at h
    have hne : ¬ e' = e := fun hh => h hh.symm
    simp only [rerunIn, hne, if_false, structEffs]
    exact ⟨trivial, trivial⟩
  | rowCons k ix r rest _ _ => intro st _; simp only [rerunIn, structEffs]; exact ⟨trivial, trivial⟩
  | rowNil => intro st _; exact ⟨rfl, rfl⟩
  | errb e' m s fb kid ih =>
    intro st h
    simp only [structEffs, List.mem_cons, not_or] at h
    have hne : ¬ e' = e := fun hh => h.1 hh.symm
    have := ih { st with hook := some s } h.2
    simp only [rerunIn, hne, if_false, structEffs, underHook]
    refine ⟨?_, by rw [this.2]⟩
    split
    · rfl
    · exact this.1
  | res e' c x n last hook =>
    intro st h
    simp only [structEffs, List.mem_singleton] at h
    have hne : ¬ e' = e := fun hh => h hh.symm
    simp only [rerunIn, hne, if_false, structEffs]
    exact ⟨trivial, trivial⟩
  | hooked hk inner ih =>
    intro st h
    simp only [structEffs] at h
    have := ih { st with hook := hk } h
    simp only [rerunIn, structEffs, underHook]
    exact this
  | errTok s => intro st _; exact ⟨rfl, rfl⟩

/-- a re-run of `e` keeps every node that `e` does not govern: same identity, same mutation counter -/
theorem rerunIn_nodes (e : Nat) (w : Int) : ∀ (t : RState) (st : St) (n : N) (g : List Nat),
    (n, g) ∈ nodesOf t → e ∉ g → (n, g) ∈ nodesOf (rerunIn e w t st).1 := by
  intro t
  induction t with
  | text n s => intro st n' g h _; exact h
  | unit n => intro st n' g h _; exact h
  | elem n tag as kid ih =>
    intro st n' g h hg
    simp only [nodesOf, List.mem_cons] at h
    simp only [rerunIn, nodesOf, List.mem_cons]
    rcases h with h | h
    · left
      have hn : n' = n := (Prod.mk.inj h).1
      have hgg : g = as.flatMap AState.effs ++ structEffs kid := (Prod.mk.inj h).2
      subst hn; subst hgg
      simp only [List.mem_append, not_or] at hg
      have h1 := rerunAttrs_other e w as hg.1
      have h2 := rerunIn_struct e w kid st hg.2
      rw [h1, h2.1, h2.2]
      cases n'; rfl
    · right; exact ih st n' g h hg
  | seq a b iha ihb =>
    intro st n' g h hg
    simp only [nodesOf, List.mem_append] at h
    simp only [rerunIn, nodesOf, List.mem_append]
    rcases h with h | h
    · left; exact iha st n' g h hg
    · right; exact ihb _ n' g h hg
  | dynText e' x n last =>
    intro st n' g h hg
    simp only [nodesOf, List.mem_singleton] at h
    have hgg : g = [e'] := (Prod.mk.inj h).2
    have hne : ¬ e' = e := fun hh => hg (by rw [hgg, hh]; simp)
    simp only [rerunIn, hne, if_false, nodesOf, List.mem_singleton]
    exact h
  | either e' c a b left inner ih =>
    intro st n' g h hg
    simp only [nodesOf, List.mem_map] at h
    obtain ⟨⟨n0, g0⟩, hm, heq⟩ := h
    have hn : n0 = n' := (Prod.mk.inj heq).1
    have hgg : e' :: g0 = g := (Prod.mk.inj heq).2
    subst hn; subst hgg
    simp only [List.mem_cons, not_or] at hg
    have hne : ¬ e' = e := fun hh => hg.1 hh.symm
    simp only [rerunIn, hne, if_false, nodesOf, List.mem_map]
    exact ⟨(n0, g0), ih st n0 g0 hm hg.2, rfl⟩
  | «show» e' m c a b left inner ih =>
    intro st n' g h hg
    simp only [nodesOf, List.mem_map] at h
    obtain ⟨⟨n0, g0⟩, hm, heq⟩ := h
    have hn : n0 = n' := (Prod.mk.inj heq).1
    have hgg : e' :: g0 = g := (Prod.mk.inj heq).2
    subst hn; subst hgg
    simp only [List.mem_cons, not_or] at hg
    have hne : ¬ e' = e := fun hh => hg.1 hh.symm
    simp only [rerunIn, hne, if_false, nodesOf, List.mem_map]
    exact ⟨(n0, g0), ih st n0 g0 hm hg.2, rfl⟩
  | forK e' sel lists ks texts =>
    intro st n' g h hg
    simp only [nodesOf, List.mem_map] at h
    obtain ⟨n0, hm, heq⟩ := h
    have hgg : [e'] = g := (Prod.mk.inj heq).2
    have hne : ¬ e' = e := fun hh => hg (by rw [← hgg, hh]; simp)
    simp only [rerunIn, hne, if_false, nodesOf, List.mem_map]
    exact ⟨n0, hm, heq⟩
  | scope m sid isSig inner ih =>
    intro st n' g h hg
    simp only [nodesOf] at h
    simp only [rerunIn, nodesOf]
    exact ih st n' g h hg
  | rows e' en sel lists row ks items _ => intro st n' g h _; simp [nodesOf] at h
  | rowCons k ix r rest _ _ => intro st n' g h _; simp [nodesOf] at h
  | rowNil => intro st n' g h _; simp [nodesOf] at h
  | errb e' m s fb kid _ => intro st n' g h _; simp [nodesOf] at h
  | res e' c x n last hook => intro st n' g h _; simp [nodesOf] at h
  | hooked hk inner _ => intro st n' g h _; simp [nodesOf] at h
  | errTok s => intro st n' g h _; simp [nodesOf] at h


theorem structEffs_sub : ∀ (t : RState), ∀ e ∈ structEffs t, e ∈ effsOf t := by
  intro t
  induction t with
  | text n s => intro e h; simp [structEffs] at h
  | unit n => intro e h; simp [structEffs] at h
  | elem n tag as kid _ => intro e h; simp [structEffs] at h
  | seq a b iha ihb =>
    intro e h
    simp only [structEffs, List.mem_append] at h
    simp only [effsOf, List.mem_append]
    rcases h with h | h
    · exact Or.inl (iha e h)
    · exact Or.inr (ihb e h)
  | dynText e' x n last => intro e h; simp [structEffs] at h
  | either e' c a b left inner ih =>
    intro e h
    simp only [structEffs, List.mem_cons] at h
    simp only [effsOf, List.mem_cons]
    rcases h with h | h
    · exact Or.inl h
    · exact Or.inr (ih e h)
  | «show» e' m c a b left inner ih =>
    intro e h
    simp only [structEffs, List.mem_cons] at h
    simp only [effsOf, List.mem_cons]
    rcases h with h | h
    · exact Or.inl h
    · exact Or.inr (ih e h)
  | forK e' sel lists ks texts => intro e h; simpa [structEffs, effsOf] using h
  | scope m sid isSig inner ih => intro e h; simp only [structEffs] at h; simp only [effsOf]; exact ih e h
  | rows e' en sel lists row ks items _ =>
    intro e h
    simp only [structEffs, List.mem_singleton] at h
    simp [effsOf, h]
  | rowCons k ix r rest _ _ => intro e h; simp [structEffs] at h
  | rowNil => intro e h; simp [structEffs] at h
  | errb e' m s fb kid ih =>
    intro e h
    simp only [structEffs, List.mem_cons] at h
    simp only [effsOf, List.mem_cons]
    rcases h with h | h
    · exact Or.inl h
    · exact Or.inr (ih e h)
  | res e' c x n last hook => intro e h; simpa [structEffs, effsOf] using h
  | hooked hk inner ih => intro e h; simp only [structEffs] at h; simp only [effsOf]; exact ih e h
  | errTok s => intro e h; simp [structEffs] at h

/-- the effects governing a node are effects of the tree -/
theorem nodesOf_sub : ∀ (t : RState) (n : N) (g : List Nat), (n, g) ∈ nodesOf t → ∀ e ∈ g, e ∈ effsOf t := by
  intro t
  induction t with
  | text n s =>
    intro n' g h e he
    simp only [nodesOf, List.mem_singleton] at h
    rw [(Prod.mk.inj h).2] at he; simp at he
  | unit n =>
    intro n' g h e he
    simp only [nodesOf, List.mem_singleton] at h
    rw [(Prod.mk.inj h).2] at he; simp at he
  | elem n tag as kid ih =>
    intro n' g h e he
    simp only [nodesOf, List.mem_cons] at h
    simp only [effsOf, List.mem_append]
    rcases h with h | h
    · rw [(Prod.mk.inj h).2] at he
      simp only [List.mem_append] at he
      rcases he with he | he
      · exact Or.inl he
      · exact Or.inr (structEffs_sub kid e he)
    · exact Or.inr (ih n' g h e he)
  | seq a b iha ihb =>
    intro n' g h e he
    simp only [nodesOf, List.mem_append] at h
    simp only [effsOf, List.mem_append]
    rcases h with h | h
    · exact Or.inl (iha n' g h e he)
    · exact Or.inr (ihb n' g h e he)
  | dynText e' x n last =>
    intro n' g h e he
    simp only [nodesOf, List.mem_singleton] at h
    rw [(Prod.mk.inj h).2] at he
    simpa [effsOf] using he
  | either e' c a b left inner ih =>
    intro n' g h e he
    simp only [nodesOf, List.mem_map] at h
    obtain ⟨⟨n0, g0⟩, hm, heq⟩ := h
    rw [← (Prod.mk.inj heq).2] at he
    simp only [List.mem_cons] at he
    simp only [effsOf, List.mem_cons]
    rcases he with he | he
    · exact Or.inl he
    · exact Or.inr (ih n0 g0 hm e he)
  | «show» e' m c a b left inner ih =>
    intro n' g h e he
    simp only [nodesOf, List.mem_map] at h
    obtain ⟨⟨n0, g0⟩, hm, heq⟩ := h
    rw [← (Prod.mk.inj heq).2] at he
    simp only [List.mem_cons] at he
    simp only [effsOf, List.mem_cons]
    rcases he with he | he
    · exact Or.inl he
    · exact Or.inr (ih n0 g0 hm e he)
  | forK e' sel lists ks texts =>
    intro n' g h e he
    simp only [nodesOf, List.mem_map] at h
    obtain ⟨n0, _, heq⟩ := h
    rw [← (Prod.mk.inj heq).2] at he
    simpa [effsOf] using he
  | scope m sid isSig inner ih =>
    intro n' g h e he
    simp only [nodesOf] at h
    simp only [effsOf]
    exact ih n' g h e he
  | rows e' en sel lists row ks items _ => intro n' g h; simp [nodesOf] at h
  | rowCons k ix r rest _ _ => intro n' g h; simp [nodesOf] at h
  | rowNil => intro n' g h; simp [nodesOf] at h
  | errb e' m s fb kid _ => intro n' g h; simp [nodesOf] at h
  | res e' c x n last hook => intro n' g h; simp [nodesOf] at h
  | hooked hk inner _ => intro n' g h; simp [nodesOf] at h
  | errTok s => intro n' g h; simp [nodesOf] at h

end Leptos.RView
