import LeptosModel.Proofs.RViewMRenew
import LeptosModel.Proofs.RViewRerun
/-!
# Proofs/RViewMRerun — the re-run of one render effect inside a tree, over signals and memos, `Show`
included (port of `Proofs/RViewRerun.lean`)
-/
namespace Leptos.RView
open Leptos.Reactive

/-- what the lemmas need of a predicate on the effects of a tree -/
structure PredM (K : Nat) (P : St → EP) : Prop where
  wf : ∀ {st e x cur}, P st e x cur → EffWf K st e x cur
  ext : ∀ {A : Nat → Prop} {st st' e x cur}, ExtM K A st st' → ¬ A e → P st e x cur → P st' e x cur
  ofEM : ∀ {st e x cur}, EM K st e x cur → P st e x cur

theorem predM_em (K : Nat) : PredM K (EM K) := ⟨fun h => h.wf, fun hx ha h => h.ext hx ha, fun h => h⟩

theorem predM_effWf (K : Nat) : PredM K (EffWf K) := ⟨fun h => h, fun hx _ h => h.extM hx, fun h => h.wf⟩

theorem GoodM.extP {K : Nat} {P : St → EP} (hP : PredM K P) {A : Nat → Prop} {st st' : St} (hx : ExtM K A st st')
    (v : View) (t : RState) (h : GoodM (P st) (ShowMemo K st) v t) (ha : ∀ e ∈ effsOf t, ¬ A e) :
    GoodM (P st') (ShowMemo K st') v t :=
  GoodM.map v t h (fun e _ _ he hp => hP.ext hx (ha e he) hp) (fun _ _ hq => hq.ext hx)

/-- the result of re-running effect `e` inside the tree `t` (a state of `v`) -/
structure RerunM (K : Nat) (P : St → EP) (s : St) (t : RState) (v : View) (t' : RState) (s' : St) : Prop where
  inv : RM K s'
  zomb : s'.zombies = s.zombies ++ newZ s s'
  ext : ExtM K (fun x => x ∈ zEffs (newZ s s')) s s'
  good : GoodM (P s') (ShowMemo K s') v t'
  cnt : ∀ x, x < s.prog.length → (effsOf t').count x + (zEffs (newZ s s')).count x = (effsOf t).count x
  fresh : ∀ x, s.prog.length ≤ x →
    (effsOf t').count x ≤ 1 ∧ (zEffs (newZ s s')).count x = 0 ∧ (x ∈ effsOf t' → x < s'.prog.length)
  zdead : ∀ z ∈ newZ s s', (s'.rs.get z.1).alive = false
  zok : ∀ z ∈ newZ s s', ∀ h, z.2 = some h → ZTreeM K s' h
  tasks : ∀ x ∈ s'.tasks, x ∈ s.tasks ∨ x ∈ effsOf t'
  root : s'.root = s.root
  rootN : s'.rootN = s.rootN
  disposed : s'.disposed = s.disposed

/-- nothing happened to the state; the tree kept its effects -/
theorem RerunM.same {K : Nat} {P : St → EP} {s : St} {t t' : RState} {v : View} (hi : RM K s)
    (hg : GoodM (P s) (ShowMemo K s) v t') (he : effsOf t' = effsOf t) (hnd : (effsOf t).Nodup)
    (hb : ∀ x ∈ effsOf t, x < s.prog.length) : RerunM K P s t v t' s := by
  refine ⟨hi, by rw [newZ_self]; simp, ?_, hg, ?_, ?_, ?_, ?_, fun x hx => Or.inl hx, rfl, rfl, rfl⟩
  · rw [newZ_self]; exact ExtM.refl K _ (fun _ h => by simp [zEffs] at h) s
  · intro x _; rw [newZ_self, he]; simp [zEffs]
  · intro x hx
    rw [newZ_self, he]
    refine ⟨List.nodup_iff_count.1 hnd x, by simp [zEffs], fun hm => ?_⟩
    have := hb x hm; omega
  · intro z hz; rw [newZ_self] at hz; simp at hz
  · intro z hz; rw [newZ_self] at hz; simp at hz


/-- only the node-id counter moved; the tree kept its effects -/
theorem RerunM.same_next {K : Nat} {P : St → EP} (hP : PredM K P) {s : St} {t t' : RState} {v : View}
    (hi : RM K s) (n : Nat) (hg : GoodM (P s) (ShowMemo K s) v t') (he : effsOf t' = effsOf t) (hnd : (effsOf t).Nodup)
    (hb : ∀ x ∈ effsOf t, x < s.prog.length) : RerunM K P s t v t' { s with next := n } := by
  have hz : newZ s { s with next := n } = [] := by simp [newZ]
  have hx : ExtM K (fun _ => False) s { s with next := n } :=
    ExtM.of_rs_prog _ (fun _ hf => hf.elim) rfl rfl (fun _ h => h)
  refine ⟨hi.of_rs_prog rfl rfl, by rw [hz]; simp, ?_, ?_, ?_, ?_, ?_, ?_, fun x hx => Or.inl hx, rfl, rfl, rfl⟩
  · rw [hz]; exact hx.mono (fun _ hf => hf.elim) (fun _ h => by simp [zEffs] at h)
  · exact GoodM.extP hP hx v t' hg (fun _ _ hf => hf)
  · intro x _; rw [hz, he]; simp [zEffs]
  · intro x hx'
    rw [hz, he]
    refine ⟨List.nodup_iff_count.1 hnd x, by simp [zEffs], fun hm => ?_⟩
    have := hb x hm
    show x < s.prog.length
    omega
  · intro z hz'; rw [hz] at hz'; simp at hz'
  · intro z hz'; rw [hz] at hz'; simp at hz'


theorem goodM_either {P : EP} {Q : Nat → Expr → Prop} {e : Nat} {c : Expr} {a b : View} {l : Bool} {inner : RState}
    (hp : P e c (fun v => l = (v != 0))) (h1 : l = true → GoodM P Q a inner) (h2 : l = false → GoodM P Q b inner) :
    GoodM P Q (.either c a b) (.either e c a b l inner) := by
  simp only [GoodM]; exact ⟨trivial, trivial, trivial, hp, h1, h2⟩

theorem goodM_show {P : EP} {Q : Nat → Expr → Prop} {e m : Nat} {c : Expr} {a b : View} {l : Bool} {inner : RState}
    (hp : P e (.rd true m) (fun v => l = (v != 0))) (hq : Q m c) (hme : m < e)
    (h1 : l = true → GoodM P Q a inner) (h2 : l = false → GoodM P Q b inner) :
    GoodM P Q (.show c a b) (.show e m c a b l inner) := by
  simp only [GoodM]; exact ⟨trivial, trivial, trivial, hp, hq, hme, h1, h2⟩

/-- effects of the surrounding tree are not among those handed over to the zombies -/
theorem RerunM.not_acted {K : Nat} {P : St → EP} {s s' : St} {t0 t0' : RState} {v0 : View}
    (h : RerunM K P s t0 v0 t0' s') {pre post : List Nat} (hnd : (pre ++ effsOf t0 ++ post).Nodup)
    {y : Nat} (hy : y ∈ pre ++ post) (hlt : y < s.prog.length) : y ∉ zEffs (newZ s s') := by
  have hc := h.cnt y hlt
  have h0 : (effsOf t0).count y = 0 := by
    rw [List.count_eq_zero]
    intro hm
    have h1 := List.nodup_iff_count.1 hnd y
    simp only [List.count_append] at h1
    have h2 : 1 ≤ (effsOf t0).count y := List.one_le_count_iff.2 hm
    rcases List.mem_append.1 hy with hp | hp
    · have : 1 ≤ pre.count y := List.one_le_count_iff.2 hp; omega
    · have : 1 ≤ post.count y := List.one_le_count_iff.2 hp; omega
  rw [← List.count_eq_zero]; omega

/-- a re-run inside a subtree, seen from a surrounding tree whose other effects (`pre`, `post`) stay -/
theorem RerunM.wrap {K : Nat} {P : St → EP} {s s' : St} {t0 t0' : RState} {v0 : View}
    (h : RerunM K P s t0 v0 t0' s') (pre post : List Nat) {T T' : RState} {V : View}
    (hT : effsOf T = pre ++ effsOf t0 ++ post) (hT' : effsOf T' = pre ++ effsOf t0' ++ post)
    (hnd : (effsOf T).Nodup) (hb : ∀ x ∈ effsOf T, x < s.prog.length)
    (hg : GoodM (P s') (ShowMemo K s') V T') : RerunM K P s T V T' s' := by
  have hpp : ∀ x, s.prog.length ≤ x → pre.count x = 0 ∧ post.count x = 0 := by
    intro x hx
    constructor
    · rw [List.count_eq_zero]; intro hm
      have := hb x (by rw [hT]; simp [hm]); omega
    · rw [List.count_eq_zero]; intro hm
      have := hb x (by rw [hT]; simp [hm]); omega
  refine ⟨h.inv, h.zomb, h.ext, hg, ?_, ?_, h.zdead, h.zok, ?_, h.root, h.rootN, h.disposed⟩
  · intro x hx
    have := h.cnt x hx
    rw [hT, hT']; simp only [List.count_append]; omega
  · intro x hx
    have hf := h.fresh x hx
    have hz := hpp x hx
    rw [hT']
    refine ⟨by simp only [List.count_append]; omega, hf.2.1, ?_⟩
    intro hm
    simp only [List.mem_append] at hm
    rcases hm with (hm | hm) | hm
    · have := List.count_eq_zero.1 hz.1; exact absurd hm this
    · exact hf.2.2 hm
    · have := List.count_eq_zero.1 hz.2; exact absurd hm this
  · intro x hx
    rcases h.tasks x hx with ht | ht
    · exact Or.inl ht
    · exact Or.inr (by rw [hT']; simp [ht])

section rerun
variable {K : Nat} {P : St → EP} (hP : PredM K P) {s : St} (hi : RM K s) {e : Nat} {w : Int} {P0 : EP}
  {Q0 : Nat → Expr → Prop}
variable (hothers : ∀ e' x cur, e' ≠ e → P0 e' x cur → P s e' x cur)
variable (hself : ∀ x (cur : Int → Prop), P0 e x cur → ∀ cur' : Int → Prop, cur' w → P s e x cur')
variable (hq : ∀ m c, Q0 m c → ShowMemo K s m c)
include hP hi hothers hself hq

omit hi hq in
theorem p0_wfM : ∀ e' x cur, P0 e' x cur → EffWf K s e' x cur := by
  intro e' x cur h
  by_cases he : e' = e
  · subst he
    have := hP.wf (hself x cur h (fun _ => True) trivial)
    exact ⟨this.1, this.2.1, this.2.2⟩
  · have := hP.wf (hothers e' x cur he h)
    exact ⟨this.1, this.2.1, this.2.2⟩

omit hP hi hq in
theorem rerunAttr_goodM : ∀ {a : Attr} {o : AState}, GoodAttrP P0 a o → GoodAttrP (P s) a (rerunAttr e w o).1
  | .stat _ _, .stat _ _, h => h
  | .dyn _ _, .dyn e' _ _ _, h => by
    simp only [rerunAttr]
    by_cases he : e' = e
    · subst he; rw [if_pos rfl]; exact ⟨h.1, h.2.1, hself _ _ h.2.2 _ rfl⟩
    · rw [if_neg he]; exact ⟨h.1, h.2.1, hothers _ _ _ he h.2.2⟩
  | .cls _ _, .cls e' _ _ _, h => by
    simp only [rerunAttr]
    by_cases he : e' = e
    · subst he; rw [if_pos rfl]; exact ⟨h.1, h.2.1, hself _ _ h.2.2 _ rfl⟩
    · rw [if_neg he]; exact ⟨h.1, h.2.1, hothers _ _ _ he h.2.2⟩
  | .sty _ _, .sty e' _ _ _, h => by
    simp only [rerunAttr]
    by_cases he : e' = e
    · subst he; rw [if_pos rfl]; exact ⟨h.1, h.2.1, hself _ _ h.2.2 _ rfl⟩
    · rw [if_neg he]; exact ⟨h.1, h.2.1, hothers _ _ _ he h.2.2⟩
  | .stat _ _, .dyn _ _ _ _, h => h.elim
  | .stat _ _, .cls _ _ _ _, h => h.elim
  | .stat _ _, .sty _ _ _ _, h => h.elim
  | .dyn _ _, .stat _ _, h => h.elim
  | .dyn _ _, .cls _ _ _ _, h => h.elim
  | .dyn _ _, .sty _ _ _ _, h => h.elim
  | .cls _ _, .stat _ _, h => h.elim
  | .cls _ _, .dyn _ _ _ _, h => h.elim
  | .cls _ _, .sty _ _ _ _, h => h.elim
  | .sty _ _, .stat _ _, h => h.elim
  | .sty _ _, .dyn _ _ _ _, h => h.elim
  | .sty _ _, .cls _ _ _ _, h => h.elim

omit hP hi hq in
theorem rerunAttrs_goodM : ∀ {as : List Attr} {os : List AState}, GoodAttrsP P0 as os →
    GoodAttrsP (P s) as (rerunAttrs e w os).1
  | [], [], _ => trivial
  | _ :: _, _ :: _, h => by
    simp only [rerunAttrs]
    exact ⟨rerunAttr_goodM hothers hself h.1, rerunAttrs_goodM h.2⟩
  | [], _ :: _, h => h.elim
  | _ :: _, [], h => h.elim

omit hP hi hself in
/-- a tree none of whose effects is `e` is as good afterwards as before -/
theorem goodM_others (v : View) (t : RState) (hg : GoodM P0 Q0 v t) (hne : e ∉ effsOf t) :
    GoodM (P s) (ShowMemo K s) v t :=
  GoodM.map v t hg (fun e' x cur he' hp => hothers e' x cur (fun hh => hne (hh ▸ he')) hp) hq

omit hP hi hothers hself hq in
/-- the node of the re-run effect itself (`either` or `Show`): its branch was renewed -/
theorem rerun_cond_nodeM {inner inner' : RState} {bv : View} {s' : St} {T T' : RState} {V : View}
    (hren : RenewedM K s (effsOf inner) bv inner' s') (hnd : (e :: effsOf inner).Nodup)
    (hbI : ∀ x ∈ e :: effsOf inner, K ≤ x ∧ x < s.prog.length)
    (hT : effsOf T = e :: effsOf inner) (hT' : effsOf T' = e :: effsOf inner')
    (hg : GoodM (P s') (ShowMemo K s') V T') :
    RerunM K P s T V T' s' ∧ ExtM K (fun x => x ∈ effsOf inner) s s' := by
  have hne : e ∉ effsOf inner := (List.nodup_cons.1 hnd).1
  have hzmem : ∀ i, i ∈ zEffs (newZ s s') ↔ i ∈ effsOf inner := by
    intro i
    rw [← List.count_pos_iff, ← List.count_pos_iff, hren.core.zcnt]
  have hx : ExtM K (fun x => x ∈ zEffs (newZ s s')) s s' :=
    hren.core.ext.mono (fun i hi' => (hzmem i).2 hi')
      (fun i hi' => (hbI i (List.mem_cons_of_mem _ ((hzmem i).1 hi'))).1)
  have hfreshI : ∀ x, x < s.prog.length → (effsOf inner').count x = 0 := by
    intro x hx'
    rw [List.count_eq_zero]; intro hm
    have := hren.core.fresh x hm; omega
  refine ⟨⟨hren.core.inv, hren.core.zomb, hx, hg, ?_, ?_, hren.core.zdead, hren.core.zok, ?_, hren.core.root,
    hren.core.rootN, hren.core.disposed⟩, hren.core.ext⟩
  · intro x hx'
    rw [hT, hT']
    simp only [List.count_cons]
    rw [hren.core.zcnt, hfreshI x hx']
    omega
  · intro x hx'
    have he : e < s.prog.length := (hbI e (by simp)).2
    have hcz : (effsOf inner).count x = 0 := by
      rw [List.count_eq_zero]; intro hm
      have := (hbI x (List.mem_cons_of_mem _ hm)).2; omega
    have hne' : ¬ (e == x) = true := by simp; omega
    rw [hT']
    refine ⟨?_, by rw [hren.core.zcnt]; exact hcz, ?_⟩
    · simp only [List.count_cons, hne', if_false]
      exact List.nodup_iff_count.1 hren.core.nodup x
    · intro hm
      simp only [List.mem_cons] at hm
      rcases hm with hm | hm
      · omega
      · exact (hren.core.fresh x hm).2
  · intro x hx'
    rcases hren.core.tasks x hx' with ht | ht
    · exact Or.inl ht
    · exact Or.inr (by rw [hT']; simp [ht])

/-- **the re-run of effect `e` inside a tree** (static structure, dynamic leaves, `either`, `Show`, `<For>`) -/
theorem rerunIn_specM : ∀ (v : View) (t : RState), GoodM P0 Q0 v t → v.wf K = true → v.coreS = true →
    (effsOf t).Nodup → RerunM K P s t v (rerunIn e w t s).1 (rerunIn e w t s).2.1 := by
  intro v
  induction v with
  | text str =>
    intro t hg _ _ hnd
    cases t <;> simp only [GoodM] at hg
    next n s' => exact RerunM.same hi (by simp only [rerunIn, GoodM]; exact hg) rfl hnd (by simp [effsOf])
  | unit =>
    intro t hg _ _ hnd
    cases t <;> simp only [GoodM] at hg
    next n => exact RerunM.same hi (by simp only [rerunIn, GoodM]) rfl hnd (by simp [effsOf])
  | elem tag attrs kid ih =>
    intro t hg hw hc hnd
    cases t <;> simp only [GoodM] at hg
    next n tag' as k =>
      simp only [View.wf, Bool.and_eq_true] at hw
      simp only [View.coreS] at hc
      have hbT : ∀ x ∈ effsOf (RState.elem n tag' as k), x < s.prog.length := by
        have hg' : GoodM (EffWf K s) (ShowMemo K s) (.elem tag attrs kid) (.elem n tag' as k) :=
          GoodM.map _ _ (show GoodM P0 Q0 (.elem tag attrs kid) (.elem n tag' as k) by simp only [GoodM]; exact hg)
            (fun e' x cur _ hp => p0_wfM hP hothers hself e' x cur hp) hq
        exact fun x hx => (GoodM.bound _ _ hg' x hx).2
      simp only [effsOf] at hnd
      have hk := ih k hg.2.2 hw.2 hc (List.nodup_append.1 hnd).2.1
      have hnd' : (as.flatMap AState.effs ++ effsOf k ++ []).Nodup := by simpa using hnd
      have hattrs : GoodAttrsP (P (rerunIn e w k s).2.1) attrs (rerunAttrs e w as).1 := by
        refine (rerunAttrs_goodM hothers hself hg.2.1).map ?_
        intro y x cur hy hp
        rw [rerunAttrs_effs] at hy
        have hylt := hbT y (by simp [effsOf, hy])
        exact hP.ext hk.ext (hk.not_acted hnd' (by simp [hy]) hylt) hp
      simp only [rerunIn]
      refine hk.wrap (as.flatMap AState.effs) [] (by simp [effsOf]) (by simp [effsOf, rerunAttrs_effs])
        (by simpa [effsOf] using hnd) hbT ?_
      simp only [GoodM]
      exact ⟨hg.1, hattrs, hk.good⟩
  | seq a b iha ihb =>
    intro t hg hw hc hnd
    cases t <;> simp only [GoodM] at hg
    next sa sb =>
      simp only [View.wf, Bool.and_eq_true] at hw
      simp only [View.coreS, Bool.and_eq_true] at hc
      have hbT : ∀ x ∈ effsOf (RState.seq sa sb), x < s.prog.length := by
        have hg' : GoodM (EffWf K s) (ShowMemo K s) (.seq a b) (.seq sa sb) :=
          GoodM.map _ _ (show GoodM P0 Q0 (.seq a b) (.seq sa sb) by simp only [GoodM]; exact hg)
            (fun e' x cur _ hp => p0_wfM hP hothers hself e' x cur hp) hq
        exact fun x hx => (GoodM.bound _ _ hg' x hx).2
      simp only [effsOf] at hnd
      by_cases hea : e ∈ effsOf sa
      · have heb : e ∉ effsOf sb := fun hm => (List.nodup_append.1 hnd).2.2 e hea e hm rfl
        have ha := iha sa hg.1 hw.1 hc.1 (List.nodup_append.1 hnd).1
        have hnd' : ([] ++ effsOf sa ++ effsOf sb).Nodup := by simpa using hnd
        have hbgood : GoodM (P (rerunIn e w sa s).2.1) (ShowMemo K (rerunIn e w sa s).2.1) b sb := by
          refine GoodM.extP hP ha.ext b sb (goodM_others hothers hq b sb hg.2 heb) ?_
          intro y hy
          exact ha.not_acted hnd' (by simp [hy]) (hbT y (by simp [effsOf, hy]))
        simp only [rerunIn, rerunIn_absent e w sb _ heb]
        refine ha.wrap [] (effsOf sb) (by simp [effsOf]) (by simp [effsOf]) (by simpa [effsOf] using hnd) hbT ?_
        simp only [GoodM]
        exact ⟨ha.good, hbgood⟩
      · have hb := ihb sb hg.2 hw.2 hc.2 (List.nodup_append.1 hnd).2.1
        have hnd' : (effsOf sa ++ effsOf sb ++ []).Nodup := by simpa using hnd
        have hagood : GoodM (P (rerunIn e w sb s).2.1) (ShowMemo K (rerunIn e w sb s).2.1) a sa := by
          refine GoodM.extP hP hb.ext a sa (goodM_others hothers hq a sa hg.1 hea) ?_
          intro y hy
          exact hb.not_acted hnd' (by simp [hy]) (hbT y (by simp [effsOf, hy]))
        simp only [rerunIn, rerunIn_absent e w sa _ hea]
        refine hb.wrap (effsOf sa) [] (by simp [effsOf]) (by simp [effsOf]) (by simpa [effsOf] using hnd) hbT ?_
        simp only [GoodM]
        exact ⟨hagood, hb.good⟩
  | dynText x =>
    intro t hg _ _ hnd
    cases t with
    | dynText e' x' n last =>
      simp only [GoodM] at hg
      have hwf := p0_wfM hP hothers hself e' x _ hg.2
      have hb : ∀ y ∈ effsOf (RState.dynText e' x' n last), y < s.prog.length := by
        intro y hy; simp only [effsOf, List.mem_singleton] at hy; rw [hy]; exact hwf.2.1
      simp only [rerunIn]
      by_cases he : e' = e
      · subst he; rw [if_pos rfl]
        exact RerunM.same hi (by simp only [GoodM]; exact ⟨hg.1, hself _ _ hg.2 _ rfl⟩) rfl hnd hb
      · rw [if_neg he]
        exact RerunM.same hi (by simp only [GoodM]; exact ⟨hg.1, hothers _ _ _ he hg.2⟩) rfl hnd hb
    | _ => simp only [GoodM] at hg
  | either c a b iha ihb =>
    intro t hg hw hc hnd
    cases t with
    | either e' c' a' b' left inner =>
      simp only [GoodM] at hg
      obtain ⟨hcc, haa, hbb, hpe, hgl, hgr⟩ := hg
      subst hcc; subst haa; subst hbb
      simp only [View.wf, Bool.and_eq_true] at hw
      simp only [View.coreS, Bool.and_eq_true] at hc
      simp only [effsOf] at hnd
      have hne' : e' ∉ effsOf inner := (List.nodup_cons.1 hnd).1
      have hndI : (effsOf inner).Nodup := (List.nodup_cons.1 hnd).2
      have hgw : GoodM (EffWf K s) (ShowMemo K s) (.either c a b) (.either e' c a b left inner) :=
        GoodM.map _ _ (show GoodM P0 Q0 (.either c a b) (.either e' c a b left inner) by
          simp only [GoodM]; exact ⟨trivial, trivial, trivial, hpe, hgl, hgr⟩)
          (fun e'' x cur _ hp => p0_wfM hP hothers hself e'' x cur hp) hq
      have hbT : ∀ x ∈ e' :: effsOf inner, K ≤ x ∧ x < s.prog.length := fun x hx =>
        GoodM.bound _ _ hgw x (by simpa [effsOf] using hx)
      simp only [GoodM] at hgw
      by_cases he : e' = e
      · subst he
        simp only [rerunIn, if_true]
        have key : ∀ (lf l' : Bool) (bv : View) (inner' : RState) (s' : St),
            bv = (if l' then a else b) → l' = (w != 0) →
            RenewedM K s (effsOf inner) bv inner' s' →
            RerunM K P s (.either e' c a b lf inner) (.either c a b) (.either e' c a b l' inner') s' := by
          intro lf l' bv inner' s' hbv hl' hren
          have hPe : P s e' c (fun v => l' = (v != 0)) := hself _ _ hpe _ hl'
          have hgood' : GoodM (P s') (ShowMemo K s') bv inner' :=
            GoodM.map bv inner' hren.good (fun _ _ _ _ hk => hP.ofEM hk) (fun _ _ h => h)
          refine (rerun_cond_nodeM hren hnd hbT (by simp [effsOf]) (by simp [effsOf]) ?_).1
          refine goodM_either (hP.ext hren.core.ext hne' hPe) ?_ ?_
          · intro hl; have : bv = a := by rw [hbv, hl]; rfl
            rw [← this]; exact hgood'
          · intro hl; have : bv = b := by rw [hbv, hl]; rfl
            rw [← this]; exact hgood'
        by_cases hsame : (w != 0) = left
        · rw [if_pos hsame]
          cases hl : left with
          | true =>
            have hren := rebuild_specM a inner s hi (hgw.2.2.2.2.1 hl) hw.1.2 hc.1 hndI
            simp only [if_true]
            exact key _ true a _ _ (by simp) (by rw [hsame, hl]) hren
          | false =>
            have hren := rebuild_specM b inner s hi (hgw.2.2.2.2.2 hl) hw.2 hc.2 hndI
            simp only [Bool.false_eq_true, if_false]
            exact key _ false b _ _ (by simp) (by rw [hsame, hl]) hren
        · rw [if_neg hsame]
          cases hl : left with
          | true =>
            have hw0 : (w != 0) = false := by
              cases hh : (w != 0) with
              | true => rw [hh, hl] at hsame; exact absurd rfl hsame
              | false => rfl
            have hren := replace_specM (v := b) hi hw.2 hc.2 (hgw.2.2.2.2.1 hl) hw.1.2 hc.1
            simp only [hw0, Bool.false_eq_true, if_false]
            exact key _ false b _ _ (by simp) hw0.symm hren
          | false =>
            have hw0 : (w != 0) = true := by
              cases hh : (w != 0) with
              | true => rfl
              | false => rw [hh, hl] at hsame; exact absurd rfl hsame
            have hren := replace_specM (v := a) hi hw.1.2 hc.1 (hgw.2.2.2.2.2 hl) hw.2 hc.2
            simp only [hw0, if_true]
            exact key _ true a _ _ (by simp) hw0.symm hren
      · simp only [rerunIn, if_neg he]
        have hnd' : ([e'] ++ effsOf inner ++ []).Nodup := by simpa using hnd
        have hbT' : ∀ x ∈ effsOf (RState.either e' c a b left inner), x < s.prog.length :=
          fun x hx => (hbT x (by simpa [effsOf] using hx)).2
        cases hl : left with
        | true =>
          have hin := iha inner (hgl hl) hw.1.2 hc.1 hndI
          refine hin.wrap [e'] [] (by simp [effsOf]) (by simp [effsOf]) (by simpa [effsOf] using hnd)
            (by rw [hl] at hbT'; exact hbT') ?_
          refine goodM_either ?_ (fun _ => hin.good) (fun hf => by cases hf)
          rw [hl] at hpe
          exact hP.ext hin.ext (hin.not_acted hnd' (by simp) (hbT e' (by simp)).2) (hothers _ _ _ he hpe)
        | false =>
          have hin := ihb inner (hgr hl) hw.2 hc.2 hndI
          refine hin.wrap [e'] [] (by simp [effsOf]) (by simp [effsOf]) (by simpa [effsOf] using hnd)
            (by rw [hl] at hbT'; exact hbT') ?_
          refine goodM_either ?_ (fun hf => by cases hf) (fun _ => hin.good)
          rw [hl] at hpe
          exact hP.ext hin.ext (hin.not_acted hnd' (by simp) (hbT e' (by simp)).2) (hothers _ _ _ he hpe)
    | _ => simp only [GoodM] at hg
  | «show» c a b iha ihb =>
    intro t hg hw hc hnd
    cases t with
    | «show» e' m c' a' b' left inner =>
      simp only [GoodM] at hg
      obtain ⟨hcc, haa, hbb, hpe, hqm, hme, hgl, hgr⟩ := hg
      subst hcc; subst haa; subst hbb
      simp only [View.wf, Bool.and_eq_true] at hw
      simp only [View.coreS, Bool.and_eq_true] at hc
      simp only [effsOf] at hnd
      have hne' : e' ∉ effsOf inner := (List.nodup_cons.1 hnd).1
      have hndI : (effsOf inner).Nodup := (List.nodup_cons.1 hnd).2
      have hgw : GoodM (EffWf K s) (ShowMemo K s) (.show c a b) (.show e' m c a b left inner) :=
        GoodM.map _ _ (show GoodM P0 Q0 (.show c a b) (.show e' m c a b left inner) by
          simp only [GoodM]; exact ⟨trivial, trivial, trivial, hpe, hqm, hme, hgl, hgr⟩)
          (fun e'' x cur _ hp => p0_wfM hP hothers hself e'' x cur hp) hq
      have hbT : ∀ x ∈ e' :: effsOf inner, K ≤ x ∧ x < s.prog.length := fun x hx =>
        GoodM.bound _ _ hgw x (by simpa [effsOf] using hx)
      simp only [GoodM] at hgw
      by_cases he : e' = e
      · subst he
        simp only [rerunIn, if_true]
        have key : ∀ (lf l' : Bool) (bv : View) (inner' : RState) (s' : St),
            bv = (if l' then a else b) → l' = (w != 0) →
            RenewedM K s (effsOf inner) bv inner' s' →
            RerunM K P s (.show e' m c a b lf inner) (.show c a b) (.show e' m c a b l' inner') s' := by
          intro lf l' bv inner' s' hbv hl' hren
          have hPe : P s e' (.rd true m) (fun v => l' = (v != 0)) := hself _ _ hpe _ hl'
          have hgood' : GoodM (P s') (ShowMemo K s') bv inner' :=
            GoodM.map bv inner' hren.good (fun _ _ _ _ hk => hP.ofEM hk) (fun _ _ h => h)
          refine (rerun_cond_nodeM hren hnd hbT (by simp [effsOf]) (by simp [effsOf]) ?_).1
          refine goodM_show (hP.ext hren.core.ext hne' hPe) ((hq _ _ hqm).ext hren.core.ext) hme ?_ ?_
          · intro hl; have : bv = a := by rw [hbv, hl]; rfl
            rw [← this]; exact hgood'
          · intro hl; have : bv = b := by rw [hbv, hl]; rfl
            rw [← this]; exact hgood'
        by_cases hsame : (w != 0) = left
        · rw [if_pos hsame]
          cases hl : left with
          | true =>
            have hren := rebuild_specM a inner s hi (hgw.2.2.2.2.2.2.1 hl) hw.1.2 hc.1 hndI
            simp only [if_true]
            exact key _ true a _ _ (by simp) (by rw [hsame, hl]) hren
          | false =>
            have hren := rebuild_specM b inner s hi (hgw.2.2.2.2.2.2.2 hl) hw.2 hc.2 hndI
            simp only [Bool.false_eq_true, if_false]
            exact key _ false b _ _ (by simp) (by rw [hsame, hl]) hren
        · rw [if_neg hsame]
          cases hl : left with
          | true =>
            have hw0 : (w != 0) = false := by
              cases hh : (w != 0) with
              | true => rw [hh, hl] at hsame; exact absurd rfl hsame
              | false => rfl
            have hren := replace_specM (v := b) hi hw.2 hc.2 (hgw.2.2.2.2.2.2.1 hl) hw.1.2 hc.1
            simp only [hw0, Bool.false_eq_true, if_false]
            exact key _ false b _ _ (by simp) hw0.symm hren
          | false =>
            have hw0 : (w != 0) = true := by
              cases hh : (w != 0) with
              | true => rfl
              | false => rw [hh, hl] at hsame; exact absurd rfl hsame
            have hren := replace_specM (v := a) hi hw.1.2 hc.1 (hgw.2.2.2.2.2.2.2 hl) hw.2 hc.2
            simp only [hw0, if_true]
            exact key _ true a _ _ (by simp) hw0.symm hren
      · simp only [rerunIn, if_neg he]
        have hnd' : ([e'] ++ effsOf inner ++ []).Nodup := by simpa using hnd
        have hbT' : ∀ x ∈ effsOf (RState.show e' m c a b left inner), x < s.prog.length :=
          fun x hx => (hbT x (by simpa [effsOf] using hx)).2
        cases hl : left with
        | true =>
          have hin := iha inner (hgl hl) hw.1.2 hc.1 hndI
          refine hin.wrap [e'] [] (by simp [effsOf]) (by simp [effsOf]) (by simpa [effsOf] using hnd)
            (by rw [hl] at hbT'; exact hbT') ?_
          refine goodM_show ?_ ((hq _ _ hqm).ext hin.ext) hme (fun _ => hin.good) (fun hf => by cases hf)
          rw [hl] at hpe
          exact hP.ext hin.ext (hin.not_acted hnd' (by simp) (hbT e' (by simp)).2) (hothers _ _ _ he hpe)
        | false =>
          have hin := ihb inner (hgr hl) hw.2 hc.2 hndI
          refine hin.wrap [e'] [] (by simp [effsOf]) (by simp [effsOf]) (by simpa [effsOf] using hnd)
            (by rw [hl] at hbT'; exact hbT') ?_
          refine goodM_show ?_ ((hq _ _ hqm).ext hin.ext) hme (fun hf => by cases hf) (fun _ => hin.good)
          rw [hl] at hpe
          exact hP.ext hin.ext (hin.not_acted hnd' (by simp) (hbT e' (by simp)).2) (hothers _ _ _ he hpe)
    | _ => simp only [GoodM] at hg
  | scope sid d kid _ => intro t _ _ hc; simp [View.coreS] at hc
  | forRows en sel lists row _ => intro t _ _ hc; simp [View.coreS] at hc
  | eb kid _ => intro t _ _ hc; simp [View.coreS] at hc
  | res c x => intro t _ _ hc; simp [View.coreS] at hc
  | forKeyed sel lists =>
    intro t hg hw _ hnd
    cases t with
    | forK e' sel' lists' ks texts =>
      simp only [GoodM] at hg
      obtain ⟨hs, hl, hpe, hk⟩ := hg
      subst hs; subst hl
      have hwf := p0_wfM hP hothers hself e' sel _ hpe
      have hb : ∀ y ∈ effsOf (RState.forK e' sel lists ks texts), y < s.prog.length := by
        intro y hy; simp only [effsOf, List.mem_singleton] at hy; rw [hy]; exact hwf.2.1
      by_cases he : e' = e
      · subst he
        rw [rerunIn_forK_self]
        dsimp only
        obtain ⟨n, hn⟩ := rerunFor_st s ks texts (listAt lists w)
        rw [hn]
        refine RerunM.same_next hP hi n ?_ rfl hnd hb
        simp only [GoodM]
        exact ⟨trivial, trivial, hself _ _ hpe _ (rerunFor_hashed _ _ _ _),
          rerunFor_kok _ _ hk (listAt_nodup (wf_forKeyed hw).2 _)⟩
      · rw [rerunIn_forK_other he]
        exact RerunM.same hi (by simp only [GoodM]; exact ⟨trivial, trivial, hothers _ _ _ he hpe, hk⟩) rfl hnd hb
    | _ => simp only [GoodM] at hg

end rerun

/-- the re-run of an effect inside a state tree of `v` is accounted for (`RerunM`), whatever the effect — what the
top-level invariant needs to know about a class of views -/
def RerunOK (K : Nat) (v : View) : Prop :=
  ∀ {s : St}, RM K s → ∀ {e : Nat} {w : Int} {P0 : EP} {Q0 : Nat → Expr → Prop},
    (∀ e' x cur, e' ≠ e → P0 e' x cur → EM K s e' x cur) →
    (∀ x (cur : Int → Prop), P0 e x cur → ∀ cur' : Int → Prop, cur' w → EM K s e x cur') →
    (∀ m c, Q0 m c → ShowMemo K s m c) →
    ∀ (t : RState), GoodM P0 Q0 v t → (effsOf t).Nodup →
      RerunM K (EM K) s t v (rerunIn e w t s).1 (rerunIn e w t s).2.1

theorem rerunOK_coreS {K : Nat} {v : View} (hw : v.wf K = true) (hc : v.coreS = true) : RerunOK K v :=
  fun hi _ _ _ _ hothers hself hq t hg hnd => rerunIn_specM (predM_em K) hi hothers hself hq v t hg hw hc hnd

end Leptos.RView
