import LeptosModel.Proofs.KeyedMain
/-!
# The logs of one `apply_diff`: unmounts, builds, `set_index` calls (C11)
-/
namespace Leptos.Keyed

section
variable {f t : List Key} {old : List Item} {rem : List Nat} {U : List DiffOpMove} {ads : List DiffOpAdd}

theorem Ctx.old_key (c : Ctx f t old rem U ads) (i : Nat) : (old[i]?).map (·.key) = f[i]? := by
  rw [← c.hold, List.getElem?_map]

/-- the keys unmounted by the removal loop -/
theorem Ctx.unmounts_eq (c : Ctx f t old rem U ads) :
    (rem.filterMap (itemAt (old.map some))).map (·.key) = rem.filterMap fun a => f[a]? := by
  rw [List.map_filterMap]
  apply filterMap_congr'
  intro a _
  rw [itemAt_map_some, c.old_key]

theorem Ctx.unmounts_nodup (c : Ctx f t old rem U ads) : (rem.filterMap fun a => f[a]?).Nodup := by
  refine List.Pairwise.filterMap _ ?_ c.sp.rem_nodup
  intro a a' hne b hb b' hb' heq
  subst heq
  have hlt := (List.getElem?_eq_some_iff.mp hb).1
  exact hne ((List.getElem?_inj hlt c.hf).mp (hb.trans hb'.symm))

theorem Ctx.mem_unmounts (c : Ctx f t old rem U ads) {k : Key} :
    k ∈ rem.filterMap (fun a => f[a]?) ↔ k ∈ f ∧ k ∉ t := by
  rw [List.mem_filterMap]
  constructor
  · rintro ⟨a, ha, hk⟩
    obtain ⟨k', hk', hkt⟩ := isRem_iff.mp (c.sp.mem_rem.mp ha)
    rw [hk] at hk'; simp only [Option.some.injEq] at hk'; subst hk'
    exact ⟨List.mem_of_getElem? hk, hkt⟩
  · rintro ⟨hkf, hkt⟩
    obtain ⟨i, hi⟩ := List.mem_iff_getElem?.mp hkf
    exact ⟨i, c.sp.mem_rem.mpr (isRem_iff.mpr ⟨k, hi, hkt⟩), hi⟩

/-- the `view_fn` calls of the additions loop -/
theorem Ctx.builds_keys_nodup (c : Ctx f t old rem U ads) :
    ((ads.map fun a => (t[a.at_]?.getD 0, a.at_)).map (·.1)).Nodup := by
  rw [List.map_map]
  have h := c.sp.ads_nodup
  rw [List.Nodup, List.pairwise_map] at h ⊢
  refine List.Pairwise.imp_of_mem ?_ h
  intro a b ha hb hab heq
  apply hab
  have h1 := c.at_lt ha
  have h2 := c.at_lt hb
  simp only [Function.comp, List.getElem?_eq_getElem h1, List.getElem?_eq_getElem h2, Option.getD_some] at heq
  have : t[a.at_]? = t[b.at_]? := by
    rw [List.getElem?_eq_getElem h1, List.getElem?_eq_getElem h2, heq]
  exact (List.getElem?_inj h1 c.ht).mp this

theorem Ctx.mem_builds (c : Ctx f t old rem U ads) {k : Key} {i : Nat} :
    (k, i) ∈ (ads.map fun a => (t[a.at_]?.getD 0, a.at_)) ↔ t[i]? = some k ∧ k ∉ f := by
  rw [List.mem_map]
  constructor
  · rintro ⟨a, ha, hk⟩
    simp only [Prod.mk.injEq] at hk
    obtain ⟨hk1, rfl⟩ := hk
    obtain ⟨k', hk', hkf⟩ := isAdd_iff.mp (c.sp.mem_ads.mp (List.mem_map.mpr ⟨a, ha, rfl⟩))
    rw [hk'] at hk1; simp only [Option.getD_some] at hk1; subst hk1
    exact ⟨hk', hkf⟩
  · rintro ⟨hk, hkf⟩
    obtain ⟨a, ha, rfl⟩ := List.mem_map.mp (c.sp.mem_ads.mpr (isAdd_iff.mpr ⟨k, hk, hkf⟩))
    exact ⟨a, ha, by simp [hk]⟩

/-- all `set_index` calls: first the storage-only moves, then the DOM moves -/
def setIndexCalls (f : List Key) (U : List DiffOpMove) : List (Key × Nat) :=
  ((U.filter fun m => !m.moveInDom).filterMap fun m => (f[m.from_]?).map fun k => (k, m.to_)) ++
  ((U.filter fun m => m.moveInDom).filterMap fun m => (f[m.from_]?).map fun k => (k, m.to_))

theorem Ctx.setIndex_eq (c : Ctx f t old rem U ads) :
    ndCalls (movedWith (old.map some) rem U) ++ dCalls (movedWith (old.map some) rem U)
      = setIndexCalls f U := by
  rw [c.movedWith_eq, ndCalls, dCalls, setIndexCalls, List.filter_map, List.filter_map,
    List.filterMap_map, List.filterMap_map]
  congr 1 <;>
  · apply filterMap_congr'
    intro m _
    simp only [Function.comp]
    rw [← c.old_key]
    cases old[m.from_]? <;> rfl

theorem Ctx.mem_setIndex (c : Ctx f t old rem U ads) {k : Key} {i : Nat} :
    (k, i) ∈ setIndexCalls f U ↔ k ∈ f ∧ t[i]? = some k ∧ f[i]? ≠ some k := by
  have key : (k, i) ∈ setIndexCalls f U ↔ ∃ m ∈ U, f[m.from_]? = some k ∧ m.to_ = i := by
    simp only [setIndexCalls, List.mem_append, List.mem_filterMap, List.mem_filter,
      Option.map_eq_some_iff, Prod.mk.injEq]
    constructor
    · rintro (⟨m, ⟨hm, _⟩, k', hk', rfl, rfl⟩ | ⟨m, ⟨hm, _⟩, k', hk', rfl, rfl⟩) <;> exact ⟨m, hm, hk', rfl⟩
    · rintro ⟨m, hm, hk, rfl⟩
      by_cases hd : m.moveInDom = true
      · exact Or.inr ⟨m, ⟨hm, hd⟩, k, hk, rfl, rfl⟩
      · exact Or.inl ⟨m, ⟨hm, by simpa using hd⟩, k, hk, rfl, rfl⟩
  rw [key]
  constructor
  · rintro ⟨m, hm, hk, rfl⟩
    obtain ⟨hne, k', hk1, hk2⟩ := (c.sp.mem_pairs c.ht).mp ⟨m, hm, rfl, rfl⟩
    rw [hk] at hk1; simp only [Option.some.injEq] at hk1; subst hk1
    refine ⟨List.mem_of_getElem? hk, hk2, ?_⟩
    intro h
    have hlt := (List.getElem?_eq_some_iff.mp hk).1
    exact hne ((List.getElem?_inj hlt c.hf).mp (hk.trans h.symm))
  · rintro ⟨hkf, hk, hne⟩
    obtain ⟨i0, hi0⟩ := List.mem_iff_getElem?.mp hkf
    have : i0 ≠ i := by rintro rfl; exact hne hi0
    obtain ⟨m, hm, hmf, hmt⟩ := (c.sp.mem_pairs c.ht).mpr ⟨this, k, hi0, hk⟩
    exact ⟨m, hm, by rw [hmf]; exact hi0, hmt⟩

theorem Ctx.setIndex_keys_nodup (c : Ctx f t old rem U ads) : ((setIndexCalls f U).map (·.1)).Nodup := by
  have hfrom := c.sp.from_nodup c.ht
  have hU : U.Nodup := by
    have := hfrom
    rw [List.Nodup, List.pairwise_map] at this
    exact this.imp (fun h heq => h (by rw [heq]))
  have hpw : ∀ (p : DiffOpMove → Bool),
      (((U.filter p).filterMap fun m => (f[m.from_]?).map fun k => (k, m.to_)).map (·.1)).Nodup := by
    intro p
    rw [List.Nodup, List.pairwise_map]
    have hsub : ((U.filter p).map (·.from_)).Nodup :=
      List.Nodup.sublist (List.Sublist.map _ List.filter_sublist) hfrom
    rw [List.Nodup, List.pairwise_map] at hsub
    refine List.Pairwise.filterMap _ ?_ hsub
    intro m m' hne b hb b' hb' heq
    simp only [Option.map_eq_some_iff] at hb hb'
    obtain ⟨k, hk, rfl⟩ := hb
    obtain ⟨k', hk', rfl⟩ := hb'
    simp only at heq
    subst heq
    have hlt := (List.getElem?_eq_some_iff.mp hk).1
    exact hne ((List.getElem?_inj hlt c.hf).mp (hk.trans hk'.symm))
  rw [setIndexCalls, List.map_append, List.nodup_append]
  refine ⟨hpw _, hpw _, ?_⟩
  intro a ha b hb hab
  subst hab
  simp only [List.mem_map, List.mem_filterMap, List.mem_filter, Option.map_eq_some_iff] at ha hb
  obtain ⟨⟨_, _⟩, ⟨m, ⟨hm, hd⟩, k, hk, hkk⟩, rfl⟩ := ha
  obtain ⟨⟨_, _⟩, ⟨m', ⟨hm', hd'⟩, k', hk', hkk'⟩, h2⟩ := hb
  simp only [Prod.mk.injEq] at hkk hkk'
  obtain ⟨rfl, rfl⟩ := hkk
  obtain ⟨rfl, rfl⟩ := hkk'
  simp only at h2
  subst h2
  have hlt := (List.getElem?_eq_some_iff.mp hk).1
  have hfe := (List.getElem?_inj hlt c.hf).mp (hk.trans hk'.symm)
  have := eq_of_mem_of_nodup_map hfrom hm hm' hfe
  subst this
  simp_all

end

end Leptos.Keyed
