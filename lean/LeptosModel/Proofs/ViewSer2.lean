import LeptosModel.Proofs.ViewFinal
import LeptosModel.Proofs.ViewAttrs2
/-! # Proofs/ViewSer2 — serialisation up to the attribute relation `R` (for fragments where
attributes are compared as a map) -/
namespace Leptos.View
open Leptos.Dom

variable {R : List (String × String) → List (String × String) → Prop}

mutual
/-- same tree, attribute lists related by `R` -/
def Tree.sim (R : List (String × String) → List (String × String) → Prop) : Tree → Tree → Prop
  | .elem t1 a1 k1, .elem t2 a2 k2 => t1 = t2 ∧ R a1 a2 ∧ Tree.simList R k1 k2
  | .text a, .text b => a = b
  | .comment a, .comment b => a = b
  | _, _ => False
def Tree.simList (R : List (String × String) → List (String × String) → Prop) :
    List Tree → List Tree → Prop
  | [], [] => True
  | a :: as, b :: bs => Tree.sim R a b ∧ Tree.simList R as bs
  | _, _ => False
end

theorem simList_append : ∀ (a b c e : List Tree), Tree.simList R a b → Tree.simList R c e →
    Tree.simList R (a ++ c) (b ++ e)
  | [], [], c, e, _, h => by simpa using h
  | [], _ :: _, _, _, h, _ => by simp [Tree.simList] at h
  | _ :: _, [], _, _, h, _ => by simp [Tree.simList] at h
  | x :: a, y :: b, c, e, h1, h2 => by
    simp only [Tree.simList, List.cons_append] at h1 ⊢
    exact ⟨h1.1, simList_append a b c e h1.2 h2⟩

mutual
theorem sim_refl (hR : ∀ a, R a a) : ∀ (t : Tree), Tree.sim R t t
  | .text _ => by simp [Tree.sim]
  | .comment _ => by simp [Tree.sim]
  | .elem _ a k => by simp only [Tree.sim]; exact ⟨trivial, hR a, simList_refl hR k⟩
theorem simList_refl (hR : ∀ a, R a a) : ∀ (ts : List Tree), Tree.simList R ts ts
  | [] => by simp [Tree.simList]
  | t :: ts => by simp only [Tree.simList]; exact ⟨sim_refl hR t, simList_refl hR ts⟩
end

theorem serSim_leaf {d : Dom} {x : Id} {k : Kind} {s : String} {par : Option Id}
    (h : NodeIs d x k s par) (hk : k = .text ∨ k = .comment) (m : Nat) :
    ∃ ts, serListN (m + 1) d [x] = some ts ∧
      Tree.simList R ts [match k with | .text => .text s | _ => .comment s] := by
  refine ⟨_, serListN_single _ d _ _ (serN_leaf h hk m), ?_⟩
  rcases hk with hk | hk <;> subst hk <;> simp [Tree.simList, Tree.sim]

mutual
/-- a represented state serialises to `render v`, up to `R` on attribute lists -/
theorem Rep.serSim {d : Dom} : ∀ (v : View) (st : State) (par : Option Id), Rep R d v st par →
    ∀ n, v.depth ≤ n → ∃ ts, serListN n d st.roots = some ts ∧ Tree.simList R ts (render v)
  | .text s, st, par, h, n, hn => by
    cases st <;> simp only [Rep] at h
    simp only [View.depth] at hn
    obtain ⟨m, rfl⟩ : ∃ m, n = m + 1 := ⟨n - 1, by omega⟩
    simpa [State.roots, render] using serSim_leaf (R := R) h.2 (Or.inl rfl) m
  | .unit, st, par, h, n, hn => by
    cases st <;> simp only [Rep] at h
    simp only [View.depth] at hn
    obtain ⟨m, rfl⟩ : ∃ m, n = m + 1 := ⟨n - 1, by omega⟩
    simpa [State.roots, render] using serSim_leaf (R := R) h (Or.inr rfl) m
  | .onone, st, par, h, n, hn => by
    cases st <;> simp only [Rep] at h
    obtain ⟨_, id, rfl, hnode⟩ := h
    simp only [View.depth] at hn
    obtain ⟨m, rfl⟩ : ∃ m, n = m + 1 := ⟨n - 1, by omega⟩
    simpa [State.roots, render] using serSim_leaf (R := R) hnode (Or.inr rfl) m
  | .elem tag as c, st, par, h, n, hn => by
    cases st <;> simp only [Rep] at h
    rename_i id ass cs
    obtain ⟨r, h1, h2, _, h4, _, h6⟩ := h
    simp only [View.depth] at hn
    obtain ⟨m, rfl⟩ : ∃ m, n = m + 1 := ⟨n - 1, by omega⟩
    by_cases hv : isVoid tag
    · simp only [hv, if_true] at h6
      refine ⟨[.elem tag r.attrs []], serListN_single _ d _ _ ?_, ?_⟩
      · rw [serN]; simp [h1, h2, h6.2, allSome]
      · simp [render, hv, Tree.simList, Tree.sim, h4]
    · simp only [hv] at h6
      obtain ⟨c', _, hk, hrc⟩ := h6
      obtain ⟨ks, hks, hsim⟩ := Rep.serSim c c' (some id) hrc m (by omega)
      refine ⟨[.elem tag r.attrs ks], serListN_single _ d _ _ ?_, ?_⟩
      · rw [serN]; simp only [serListN] at hks; simp [h1, h2, hk, hks]
      · simp [render, hv, Tree.simList, Tree.sim, h4, hsim]
  | .tuple vs, st, par, h, n, hn => by
    cases st <;> simp only [Rep] at h
    simpa [State.roots, render] using RepList.serSim vs _ par h n (by simpa [View.depth] using hn)
  | .osome v, st, par, h, n, hn => by
    cases st <;> simp only [Rep] at h
    simpa [State.roots, render] using Rep.serSim v _ par h.2 n (by simpa [View.depth] using hn)
  | .either _ i v, st, par, h, n, hn => by
    cases st <;> simp only [Rep] at h
    simpa [State.roots, render] using Rep.serSim v _ par h.2 n (by simpa [View.depth] using hn)
  | .any ty v, st, par, h, n, hn => by
    cases st <;> simp only [Rep] at h
    simpa [State.roots, render] using Rep.serSim v _ par h.2 n (by simpa [View.depth] using hn)
  | .vec vs, st, par, h, n, hn => by
    cases st <;> simp only [Rep] at h
    simp only [View.depth] at hn
    obtain ⟨m, rfl⟩ : ∃ m, n = m + 1 := ⟨n - 1, by omega⟩
    obtain ⟨t1, h1, s1⟩ := RepList.serSim vs _ par h.1 (m + 1) (by omega)
    obtain ⟨t2, h2, s2⟩ := serSim_leaf (R := R) h.2 (Or.inr rfl) m
    exact ⟨t1 ++ t2, by simpa [State.roots] using serListN_append _ d _ _ _ _ h1 h2,
      by simpa [render] using simList_append _ _ _ _ s1 s2⟩
theorem RepList.serSim {d : Dom} : ∀ (vs : List View) (sts : List State) (par : Option Id),
    RepList R d vs sts par → ∀ n, View.depthList vs ≤ n →
    ∃ ts, serListN n d (State.rootsList sts) = some ts ∧ Tree.simList R ts (renderList vs)
  | [], sts, par, h, n, _ => by
    cases sts <;> simp [RepList] at h
    exact ⟨[], by simp [State.rootsList, serListN, allSome], by simp [renderList, Tree.simList]⟩
  | v :: vs, sts, par, h, n, hn => by
    cases sts with
    | nil => simp [RepList] at h
    | cons s ss =>
      simp only [RepList] at h
      simp only [View.depthList] at hn
      obtain ⟨t1, h1, s1⟩ := Rep.serSim v s par h.1 n (by omega)
      obtain ⟨t2, h2, s2⟩ := RepList.serSim vs ss par h.2 n (by omega)
      exact ⟨t1 ++ t2, by simpa [State.rootsList] using serListN_append _ d _ _ _ _ h1 h2,
        by simpa [renderList] using simList_append _ _ _ _ s1 s2⟩
end

/-- what the parent serialises to, up to `R` -/
theorem StateOk.serSim {d : Dom} {v : View} {st : State} {p : Id} {pre post : List Id} {n0 : Nat}
    {preT postT : List Tree} {O : List Id} (hR : ∀ a, R a a)
    (h : StateOk R d v st p pre post) (hs : SiblingsOk d O p pre post n0 preT postT) :
    ∀ m, max n0 v.depth ≤ m →
      ∃ ts, serListN m d (d.kidsOf p) = some ts ∧ Tree.simList R ts (preT ++ render v ++ postT) := by
  intro m hm
  obtain ⟨rp, hp, _, hk⟩ := h.inv.par
  have h1 := serListN_mono_le n0 m d pre preT hs.hpre (by omega)
  have h2 := serListN_mono_le n0 m d post postT hs.hpost (by omega)
  obtain ⟨ts, h3, s3⟩ := Rep.serSim v st (some p) h.rep m (by omega)
  refine ⟨preT ++ ts ++ postT, ?_, ?_⟩
  · simp only [Dom.kidsOf, hp, hk]
    exact serListN_append _ d _ _ _ _ (serListN_append _ d _ _ _ _ h1 h3) h2
  · exact simList_append _ _ _ _ (simList_append _ _ _ _ (simList_refl hR preT) s3)
      (simList_refl hR postT)

mutual
theorem Tree.sim.symm (hR : ∀ x y, R x y → R y x) : ∀ (a b : Tree), Tree.sim R a b → Tree.sim R b a
  | .elem _ _ k1, .elem _ _ k2, h => by
    simp only [Tree.sim] at h ⊢
    exact ⟨h.1.symm, hR _ _ h.2.1, Tree.simList.symm hR k1 k2 h.2.2⟩
  | .text _, .text _, h => by simp only [Tree.sim] at h ⊢; exact h.symm
  | .comment _, .comment _, h => by simp only [Tree.sim] at h ⊢; exact h.symm
  | .elem _ _ _, .text _, h => by simp [Tree.sim] at h
  | .elem _ _ _, .comment _, h => by simp [Tree.sim] at h
  | .text _, .elem _ _ _, h => by simp [Tree.sim] at h
  | .text _, .comment _, h => by simp [Tree.sim] at h
  | .comment _, .elem _ _ _, h => by simp [Tree.sim] at h
  | .comment _, .text _, h => by simp [Tree.sim] at h
theorem Tree.simList.symm (hR : ∀ x y, R x y → R y x) :
    ∀ (a b : List Tree), Tree.simList R a b → Tree.simList R b a
  | [], [], _ => by simp [Tree.simList]
  | [], _ :: _, h => by simp [Tree.simList] at h
  | _ :: _, [], h => by simp [Tree.simList] at h
  | a :: as, b :: bs, h => by
    simp only [Tree.simList] at h ⊢
    exact ⟨Tree.sim.symm hR a b h.1, Tree.simList.symm hR as bs h.2⟩
end

mutual
theorem Tree.sim.trans (hR : ∀ x y z, R x y → R y z → R x z) :
    ∀ (a b c : Tree), Tree.sim R a b → Tree.sim R b c → Tree.sim R a c
  | .elem _ _ k1, .elem _ _ k2, .elem _ _ k3, h1, h2 => by
    simp only [Tree.sim] at h1 h2 ⊢
    exact ⟨h1.1.trans h2.1, hR _ _ _ h1.2.1 h2.2.1, Tree.simList.trans hR k1 k2 k3 h1.2.2 h2.2.2⟩
  | .text _, .text _, .text _, h1, h2 => by simp only [Tree.sim] at h1 h2 ⊢; exact h1.trans h2
  | .comment _, .comment _, .comment _, h1, h2 => by
    simp only [Tree.sim] at h1 h2 ⊢; exact h1.trans h2
  | .elem _ _ _, .text _, _, h, _ => by simp [Tree.sim] at h
  | .elem _ _ _, .comment _, _, h, _ => by simp [Tree.sim] at h
  | .text _, .elem _ _ _, _, h, _ => by simp [Tree.sim] at h
  | .text _, .comment _, _, h, _ => by simp [Tree.sim] at h
  | .comment _, .elem _ _ _, _, h, _ => by simp [Tree.sim] at h
  | .comment _, .text _, _, h, _ => by simp [Tree.sim] at h
  | .elem _ _ _, .elem _ _ _, .text _, _, h => by simp [Tree.sim] at h
  | .elem _ _ _, .elem _ _ _, .comment _, _, h => by simp [Tree.sim] at h
  | .text _, .text _, .elem _ _ _, _, h => by simp [Tree.sim] at h
  | .text _, .text _, .comment _, _, h => by simp [Tree.sim] at h
  | .comment _, .comment _, .elem _ _ _, _, h => by simp [Tree.sim] at h
  | .comment _, .comment _, .text _, _, h => by simp [Tree.sim] at h
theorem Tree.simList.trans (hR : ∀ x y z, R x y → R y z → R x z) :
    ∀ (a b c : List Tree), Tree.simList R a b → Tree.simList R b c → Tree.simList R a c
  | [], [], [], _, _ => by simp [Tree.simList]
  | [], _ :: _, _, h, _ => by simp [Tree.simList] at h
  | _ :: _, [], _, h, _ => by simp [Tree.simList] at h
  | [], [], _ :: _, _, h => by simp [Tree.simList] at h
  | _ :: _, _ :: _, [], _, h => by simp [Tree.simList] at h
  | a :: as, b :: bs, c :: cs, h1, h2 => by
    simp only [Tree.simList] at h1 h2 ⊢
    exact ⟨Tree.sim.trans hR a b c h1.1 h2.1, Tree.simList.trans hR as bs cs h1.2 h2.2⟩
end

end Leptos.View
