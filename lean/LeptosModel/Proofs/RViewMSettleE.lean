import LeptosModel.Proofs.RViewMCountB
/-!
# Proofs/RViewMSettleE — a mounted `<ErrorBoundary>` over leaves settles to the fresh render

`InvCM` (reactive invariant + state tree, `Proofs/RViewMErrb.lean`) says what every effect last rendered;
`CountE` (`Proofs/RViewMCount.lean`) says that the boundary's register counts the leaves in error.  At an idle
point no effect is notified: every leaf shows the current value of its body, the boundary's effect has seen the
current register.
-/
namespace Leptos.RView
open Leptos.Reactive

theorem valued_eq (lv : List Int) (key : Int) : ∀ (x : Expr), x.noUntracked = true → x.valued lv key = x
  | .lit _, _ => rfl
  | .rd true _, _ => rfl
  | .rd false _, h => by simp [Reactive.Expr.noUntracked] at h
  | .add a b, h => by
    simp only [Reactive.Expr.noUntracked, Bool.and_eq_true] at h
    simp only [Reactive.Expr.valued, valued_eq lv key a h.1, valued_eq lv key b h.2]
  | .mulc _ a, h => by
    simp only [Reactive.Expr.noUntracked] at h
    simp only [Reactive.Expr.valued, valued_eq lv key a h]
  | .ite c t e, h => by
    simp only [Reactive.Expr.noUntracked, Bool.and_eq_true] at h
    simp only [Reactive.Expr.valued, valued_eq lv key c h.1.1, valued_eq lv key t h.1.2, valued_eq lv key e h.2]
  | .seq a b, h => by
    simp only [Reactive.Expr.noUntracked, Bool.and_eq_true] at h
    simp only [Reactive.Expr.valued, valued_eq lv key a h.1, valued_eq lv key b h.2]
  | .wr _ a, h => by
    simp only [Reactive.Expr.noUntracked] at h
    simp only [Reactive.Expr.valued, valued_eq lv key a h]

theorem renderAttrL_eq {k : Nat} (ρ : Nat → Int) : ∀ (a : Attr), a.exprOk k = true →
    renderAttrL ρ [] 0 a = renderAttr ρ a
  | .stat _ _, _ => rfl
  | .dyn _ x, h => by
    simp only [Attr.exprOk, Bool.and_eq_true] at h
    simp only [renderAttrL, renderAttr, valued_eq [] 0 x h.2]
  | .cls _ x, h => by
    simp only [Attr.exprOk, Bool.and_eq_true] at h
    simp only [renderAttrL, renderAttr, valued_eq [] 0 x h.2]
  | .sty _ x, h => by
    simp only [Attr.exprOk, Bool.and_eq_true] at h
    simp only [renderAttrL, renderAttr, valued_eq [] 0 x h.2]

theorem decodeRes_zero : decodeRes 0 = none := by decide

theorem decodeRes_odd (u : Int) : decodeRes (2 * u + 1) = some u := by
  unfold decodeRes
  have h1 : (2 * u + 1) % 2 = 1 := by omega
  have h2 : (2 * u + 1 - 1) / 2 = u := by omega
  simp [h1, h2]

theorem evalPure_resBody (ρ : Nat → Int) (c x : Expr) :
    decodeRes (evalPure ρ (resBody c x)) = if evalPure ρ c != 0 then none else some (evalPure ρ x) := by
  simp only [resBody, evalPure]
  split
  · exact decodeRes_zero
  · exact decodeRes_odd _

theorem errCount_nonneg (sg : Nat) : ∀ (t : RState), 0 ≤ errCount sg t := by
  intro t
  induction t with
  | elem n tag as kid ih => simpa [errCount] using ih
  | seq a b iha ihb => simp only [errCount]; omega
  | res e c x n last hook => simp only [errCount]; split <;> omega
  | _ => simp [errCount]

/-- **static structure with dynamic and `Result` leaves, no effect notified**: the tree shows the fresh render,
and the leaves in error are exactly the `Result`s of the fresh render that are `Err` -/
theorem leaves_settled {K sg : Nat} {st : St} (hr : RM K st) : ∀ (v : View) (t : RState),
    GoodM (EM K st) (ShowMemo K st) v t → v.leavesR = true → v.wfR K = true → hooksAre (some sg) t →
    (∀ e ∈ effsOf t, (st.rs.get e).chan = false) →
    serialize t = renderL st.env (fun _ _ => none) v [] 0 [] ∧
      (errCount sg t ≠ 0 ↔ errL st.env (fun _ _ => none) v [] 0 [] = true) := by
  intro v
  induction v with
  | text s =>
    intro t h _ _ hh hn
    cases t <;> simp only [GoodM] at h
    simp [RView.serialize, renderL, errL, errCount, h]
  | unit =>
    intro t h _ _ hh hn
    cases t <;> simp only [GoodM] at h
    simp [RView.serialize, renderL, errL, errCount]
  | elem tag attrs kid ih =>
    intro t h hl hw hh hn
    cases t <;> simp only [GoodM] at h
    next n tag' as k =>
      simp only [View.leavesR] at hl
      simp only [View.wfR, Bool.and_eq_true, List.all_eq_true] at hw
      have hk := ih k h.2.2 hl hw.2 hh (fun e he => hn e (by simp [effsOf, he]))
      have ha := h.2.1.outM hr (fun e he => hn e (by simp [effsOf, he]))
      have hattrs : attrs.map (renderAttrL st.env [] 0) = attrs.map (renderAttr st.env) :=
        List.map_congr_left (fun a hm => renderAttrL_eq st.env a (hw.1.1 a hm))
      simp only [RView.serialize, renderL, errL, errCount, ha, hk.1, hattrs, h.1]
      exact ⟨trivial, hk.2⟩
  | seq a b iha ihb =>
    intro t h hl hw hh hn
    cases t <;> simp only [GoodM] at h
    next sa sb =>
      simp only [View.leavesR, Bool.and_eq_true] at hl
      simp only [View.wfR, Bool.and_eq_true] at hw
      have h1 := iha sa h.1 hl.1 hw.1 hh.1 (fun e he => hn e (by simp [effsOf, he]))
      have h2 := ihb sb h.2 hl.2 hw.2 hh.2 (fun e he => hn e (by simp [effsOf, he]))
      simp only [RView.serialize, renderL, errL, errCount, h1.1, h2.1, Bool.or_eq_true]
      refine ⟨trivial, ?_⟩
      have n1 := errCount_nonneg sg sa
      have n2 := errCount_nonneg sg sb
      rw [← h1.2, ← h2.2]
      constructor
      · intro hne
        by_cases hz : errCount sg sa = 0
        · right; omega
        · left; exact hz
      · intro hor
        rcases hor with h' | h' <;> omega
  | dynText x =>
    intro t h _ hw hh hn
    cases t <;> simp only [GoodM] at h
    next e x' n last =>
      have hs : sigOnly K x = true := hw
      have := h.2.cur_idle hr (hn e (by simp [effsOf]))
      simp [RView.serialize, renderL, errL, errCount, this, valued_eq [] 0 x (sigOnly_nu hs)]
  | res c x =>
    intro t h _ hw hh hn
    cases t <;> simp only [GoodM] at h
    next e c' x' n last hook =>
      simp only [View.wfR, Bool.and_eq_true] at hw
      have hk : hook = some sg := hh
      have hcur := h.2.2.cur_idle hr (hn e (by simp [effsOf]))
      rw [evalPure_resBody] at hcur
      simp only [RView.serialize, renderL, errL, errCount, valued_eq [] 0 c (sigOnly_nu hw.1),
        valued_eq [] 0 x (sigOnly_nu hw.2), hk, beq_self_eq_true, Bool.and_true]
      by_cases hc : (evalPure st.env c != 0) = true
      · simp only [hc, if_true] at hcur ⊢
        subst hcur
        simp
      · simp only [hc, Bool.false_eq_true, if_false] at hcur ⊢
        subst hcur
        simp
  | either c a b _ _ => intro t _ hl; simp [View.leavesR] at hl
  | «show» c a b _ _ => intro t _ hl; simp [View.leavesR] at hl
  | forKeyed sel lists => intro t _ hl; simp [View.leavesR] at hl
  | scope sid d kid _ => intro t _ hl; simp [View.leavesR] at hl
  | forRows en sel lists row _ => intro t _ hl; simp [View.leavesR] at hl
  | eb kid _ => intro t _ hl; simp [View.leavesR] at hl

/-! ## the invariant of a history -/

/-- the operations of a history write the program's own signals -/
def opsOk (n : Nat) (ops : List Op) : Prop := ∀ op ∈ ops, ∀ id v, op = Op.set id v → id < n

/-- disposed for good, or both invariants -/
def InvE (n : Nat) (kid : View) (st : St) : Prop :=
  (st.disposed = true ∧ st.root = none) ∨
    (st.disposed = false ∧ InvCM (n + 2) (.eb kid) st ∧ CountE n st)

theorem InvE.step {n : Nat} {kid : View} {st : St} (h : InvE n kid st) (hl : kid.leavesR = true) (op : Op)
    (hop : ∀ id v, op = Op.set id v → id < n) : InvE n kid (RView.step st op) := by
  rcases h with h | h
  · exact Or.inl (step_disposed st op h)
  · cases op with
    | set id w =>
      have hid := hop id w rfl
      exact Or.inr ⟨h.1, h.2.1.setSig id w, setSig_count h.2.2 id w (by omega)⟩
    | poll i =>
      exact Or.inr ⟨(pollNth_book st i).1.trans h.1, h.2.1.pollNth (rerunOK_eb hl) i, pollNth_count h.2.2 i⟩
    | idle =>
      exact Or.inr ⟨(runIdle_book 4096 st).1.trans h.1, InvCM.runIdle (rerunOK_eb hl) 4096 st h.2.1,
        runIdle_count 4096 st h.2.2⟩
    | dispose => exact Or.inl (dispose_disposed st)

theorem InvE.run {defs : Prog} {kid : View} (hd : defsOk defs = true) (hw : kid.wfR defs.length = true)
    (hl : kid.leavesR = true) : ∀ (ops : List Op), opsOk defs.length ops →
    InvE defs.length kid (RView.run { defs := defs, view := .eb kid } ops) := by
  intro ops hops
  unfold RView.run
  have h0 : InvE defs.length kid (RView.start { defs := defs, view := .eb kid }) := by
    rcases InvDM.startE hd hw hl with h | h
    · exact Or.inl h
    · exact Or.inr ⟨h.1, h.2, CountE.start hd hw hl⟩
  generalize RView.start { defs := defs, view := .eb kid } = s0 at h0
  induction ops generalizing s0 with
  | nil => exact h0
  | cons op rest ih =>
    simp only [List.foldl_cons]
    apply ih (fun o ho => hops o (List.mem_cons_of_mem _ ho))
    exact h0.step hl op (hops op (List.mem_cons_self ..))

/-- the from-scratch value of a signal node is its stored value -/
theorem env_sig_node {st : St} {i : Nat} {v0 : Int} (h : st.prog[i]? = some (NodeDef.sig v0)) :
    st.env i = envOf st.rs i := by
  simp only [St.env, specVal, fuelFor, scratch, h]

/-- **at an idle point a mounted boundary shows the fresh render** -/
theorem InvE.settled {n : Nat} {kid : View} {st : St} (hcm : InvCM (n + 2) (.eb kid) st) (hce : CountE n st)
    (hl : kid.leavesR = true) (hw : kid.wfR n = true) (hidle : ready st = []) :
    st.dom = render st.env (.eb kid) := by
  obtain ⟨t, ht⟩ := hcm.tree
  obtain ⟨e0, m0, fb0, k0, hroot0, _, hhooks, hcount⟩ := hce.tree
  have htt : t = .errb e0 m0 n fb0 k0 := by
    have := ht.root; rw [hroot0] at this; exact (Option.some.inj this).symm
  subst htt
  have hg := ht.good
  simp only [GoodM] at hg
  obtain ⟨hm, hem, hgk⟩ := hg
  -- nothing is notified
  have hnp : ∀ e ∈ effsOf (RState.errb e0 m0 n fb0 k0), (st.rs.get e).chan = false := by
    intro e he
    obtain ⟨x, cur, hok⟩ := ht.eff he
    cases hch : (st.rs.get e).chan with
    | false => rfl
    | true =>
      exfalso
      have hnd : ¬ DeadE st.rs e := fun hd => by have := hd.2; rw [hok.alive] at this; cases this
      have hwk := (hcm.rm.top.conv.eff e hok.kind (hcm.rm.top.quiet.idle e) hnd (by simp)).chanWoken hch
      have : e ∈ ready st := by
        unfold ready
        refine List.mem_filter.2 ⟨hok.task, ?_⟩
        simp [hwk, hok.done]
      rw [hidle] at this; simp at this
  -- the boundary's effect has seen the register
  have hfb := hem.cur_idle hcm.rm (hnp e0 (by simp [effsOf]))
  have hmemo : st.env m0 = evalPure st.env (.ite (.rd true n) (.lit 0) (.lit 1)) := by
    rw [hm]; exact specVal_memo hcm.rm.wf st.rs hce.pmemo
  obtain ⟨v0, hv0⟩ := hce.sig.psig
  have hreg : st.env n = errCount n k0 := by rw [env_sig_node hv0]; exact hcount
  -- the leaves
  have hk := leaves_settled (sg := n) hcm.rm kid k0 hgk hl (wfR_mono (by omega) kid hw) hhooks
    (fun e he => hnp e (by simp [effsOf, he]))
  have hfb' : fb0.isSome = errL st.env (fun _ _ => none) kid [] 0 [] := by
    simp only [evalPure] at hfb
    rw [hmemo] at hfb
    simp only [evalPure, hreg] at hfb
    rw [hfb]
    by_cases hz : errCount n k0 = 0
    · have : errL st.env (fun _ _ => none) kid [] 0 [] = false := by
        cases he : errL st.env (fun _ _ => none) kid [] 0 [] with
        | false => rfl
        | true => exact absurd hz (hk.2.2 he)
      simp [hz, this]
    · have : errL st.env (fun _ _ => none) kid [] 0 [] = true := hk.2.1 hz
      simp [hz, this]
  simp only [St.dom, hroot0, RView.serialize, render, renderL, hfb', hk.1]

end Leptos.RView
