import LeptosModel.Proofs.KeyedApply
/-!
# What `diff` + `unpack_moves` hand to `apply_diff`, in terms of the two key sequences (C11)
-/
namespace Leptos.Keyed

theorem idxOf?_eq_some_of_nodup {t : List Key} (ht : t.Nodup) {k : Key} {j : Nat} :
    t.idxOf? k = some j ↔ t[j]? = some k := by
  rw [List.idxOf?_eq_some_iff]
  constructor
  · rintro ⟨h, hk, _⟩
    exact List.getElem?_eq_some_iff.mpr ⟨h, hk⟩
  · intro h
    obtain ⟨hj, hk⟩ := List.getElem?_eq_some_iff.mp h
    refine ⟨hj, hk, ?_⟩
    intro j' hj' heq
    have : t[j']? = t[j]? := by
      rw [List.getElem?_eq_getElem (by omega), List.getElem?_eq_getElem hj, heq, hk]
    have := (List.getElem?_inj (by omega) ht).mp this
    omega

theorem isRem_iff {f t : List Key} {i : Nat} :
    isRem f t i = true ↔ ∃ k, f[i]? = some k ∧ k ∉ t := by
  unfold isRem
  cases f[i]? <;> simp

theorem isAdd_iff {f t : List Key} {j : Nat} :
    isAdd f t j = true ↔ ∃ k, t[j]? = some k ∧ k ∉ f := by
  unfold isAdd
  cases t[j]? <;> simp

theorem mvPair_eq_some {f t : List Key} (ht : t.Nodup) {i : Nat} {p : Nat × Nat} :
    mvPair f t i = some p ↔ p.1 = i ∧ i ≠ p.2 ∧ ∃ k, f[i]? = some k ∧ t[p.2]? = some k := by
  unfold mvPair
  cases hf : f[i]? with
  | none => simp
  | some k =>
    simp only
    constructor
    · intro h
      split at h
      · rename_i hne
        simp only [Option.map_eq_some_iff] at h
        obtain ⟨j, hj, rfl⟩ := h
        rw [idxOf?_eq_some_of_nodup ht] at hj
        refine ⟨rfl, ?_, k, rfl, hj⟩
        rintro rfl
        simp [hj] at hne
      · simp at h
    · rintro ⟨h1, h2, k', hk', hk''⟩
      simp only [Option.some.injEq] at hk'
      subst hk'
      have hne : (some k != t[i]?) = true := by
        simp only [bne_iff_ne, ne_eq]
        intro h
        have hlt : i < t.length := (List.getElem?_eq_some_iff.mp h.symm).1
        exact h2 ((List.getElem?_inj hlt ht).mp (h.symm.trans hk''.symm))
      rw [if_pos hne, (idxOf?_eq_some_of_nodup ht).mpr hk'']
      obtain ⟨a, b⟩ := p
      simp at h1 ⊢
      exact h1.symm

/-- the unpacked command lists for `from → to` -/
structure Spec (f t : List Key) (rem : List Nat) (U : List DiffOpMove) (ads : List DiffOpAdd) : Prop where
  rem_eq : rem = (List.range (max f.length t.length)).filter (isRem f t)
  ads_at : ads.map (·.at_) = (List.range (max f.length t.length)).filter (isAdd f t)
  pairs : (U.map fun m => (m.from_, m.to_)) = (List.range (max f.length t.length)).filterMap (mvPair f t)

theorem unpack_flatMap_singles_len (ms : List DiffOpMove) : ∀ m ∈ ms.flatMap singles, m.len = 1 := by
  intro m hm
  simp only [List.mem_flatMap, singles, List.mem_map] at hm
  obtain ⟨_, _, _, _, rfl⟩ := hm
  rfl

/-- `diff` followed by `unpack_moves`, for two non-empty sequences -/
theorem spec_of_diff (f t : List Key) (hf : f ≠ []) (ht : t ≠ []) :
    (diff f t).clear = false ∧
    Spec f t (diff f t).removed (unpackMoves (diff f t)).1 (unpackMoves (diff f t)).2 ∧
    (diff f t).added.length = (unpackMoves (diff f t)).2.length ∧
    ∀ a ∈ (unpackMoves (diff f t)).2, a.mode = .normal := by
  have hd : diff f t =
      { removed := ((List.range (max f.length t.length)).foldl (diffStep f t) {}).removed,
        itemsToMove := sumLens (groupAdjacentMoves ((List.range (max f.length t.length)).foldl (diffStep f t) {}).moved),
        moved := groupAdjacentMoves ((List.range (max f.length t.length)).foldl (diffStep f t) {}).moved,
        added := ((List.range (max f.length t.length)).foldl (diffStep f t) {}).added,
        clear := false } := by
    unfold diff
    have h1 : f.isEmpty = false := by cases f <;> simp_all
    have h2 : t.isEmpty = false := by cases t <;> simp_all
    simp [h1, h2]
  obtain ⟨hr, ha, hm, hl⟩ := diffFold f t (max f.length t.length)
  have hu : unpackMoves (diff f t) = ((diff f t).moved.flatMap singles, (diff f t).added) := by
    unfold unpackMoves
    apply unpackLoop_complete
    · rw [hd]; exact group_len_pos _ hl
    · rw [hd]; simp
  refine ⟨by rw [hd], ⟨?_, ?_, ?_⟩, by rw [hu], ?_⟩
  · rw [hd]; exact hr
  · rw [hu, hd]; simp only; rw [ha]; simp [List.map_map, Function.comp_def]
  · rw [hu, hd]; simp only
    have := group_pairs _ hl
    simp only [movePairs] at this
    rw [this, hm]
  · rw [hu, hd]; simp only; rw [ha]; simp
    rintro a x _ _ rfl; rfl

/-- `diff` followed by `unpack_moves`, from the empty sequence: `Append` additions at every index -/
theorem spec_of_diff_from_empty (t : List Key) (ht : t ≠ []) :
    (diff [] t).clear = false ∧ (diff [] t).removed = [] ∧ (unpackMoves (diff [] t)).1 = [] ∧
    (unpackMoves (diff [] t)).2 = (List.range t.length).map (fun i => { at_ := i, mode := .append }) ∧
    (diff [] t).added.length = t.length := by
  have h2 : t.isEmpty = false := by cases t <;> simp_all
  have hd : diff [] t = { added := (List.range t.length).map fun i => { at_ := i, mode := .append } } := by
    unfold diff; simp [h2]
  have hu : unpackMoves (diff [] t) = ((diff [] t).moved.flatMap singles, (diff [] t).added) := by
    unfold unpackMoves
    apply unpackLoop_complete
    · rw [hd]; simp
    · rw [hd]; simp [sumLens]
  rw [hu, hd]; simp

/-- `unpack_moves (diff from to)`, for ALL `from`, `to` -/
theorem unpack_diff (f t : List Key) :
    unpackMoves (diff f t) = ((diff f t).moved.flatMap singles, (diff f t).added) := by
  unfold unpackMoves
  apply unpackLoop_complete
  · unfold diff
    split
    · simp
    · split
      · simp
      · split
        · simp
        · exact group_len_pos _ (diffFold f t _).2.2.2
  · unfold diff
    split
    · simp [sumLens]
    · split
      · simp [sumLens]
      · split
        · simp [sumLens]
        · simp

/-- BEFORE the repair: `diff` followed by `unpack_moves`, for two non-empty sequences -/
theorem spec_of_diffOld (f t : List Key) (hf : f ≠ []) (ht : t ≠ []) :
    (diffOld f t).clear = false ∧
    Spec f t (diffOld f t).removed (unpackMoves (diffOld f t)).1 (unpackMoves (diffOld f t)).2 ∧
    (diffOld f t).added.length = (unpackMoves (diffOld f t)).2.length ∧
    ∀ a ∈ (unpackMoves (diffOld f t)).2, a.mode = .normal := by
  have hd : diffOld f t =
      { removed := ((List.range (max f.length t.length)).foldl (diffStepOld f t) {}).removed,
        itemsToMove := sumLens (groupAdjacentMovesOld ((List.range (max f.length t.length)).foldl (diffStepOld f t) {}).moved),
        moved := groupAdjacentMovesOld ((List.range (max f.length t.length)).foldl (diffStepOld f t) {}).moved,
        added := ((List.range (max f.length t.length)).foldl (diffStepOld f t) {}).added,
        clear := false } := by
    unfold diffOld
    have h1 : f.isEmpty = false := by cases f <;> simp_all
    have h2 : t.isEmpty = false := by cases t <;> simp_all
    simp [h1, h2]
  obtain ⟨hr, ha, hm, hl⟩ := diffFoldOld f t (max f.length t.length)
  have hu : unpackMoves (diffOld f t) = ((diffOld f t).moved.flatMap singles, (diffOld f t).added) := by
    unfold unpackMoves
    apply unpackLoop_complete
    · rw [hd]; exact groupOld_len_pos _ hl
    · rw [hd]; simp
  refine ⟨by rw [hd], ⟨?_, ?_, ?_⟩, by rw [hu], ?_⟩
  · rw [hd]; exact hr
  · rw [hu, hd]; simp only; rw [ha]; simp [List.map_map, Function.comp_def]
  · rw [hu, hd]; simp only
    have := groupOld_pairs _ hl
    simp only [movePairs] at this
    rw [this, hm]
  · rw [hu, hd]; simp only; rw [ha]; simp
    rintro a x _ _ rfl; rfl

/-- BEFORE the repair: `diff` followed by `unpack_moves`, from the empty sequence: `Append` additions at every index -/
theorem spec_of_diffOld_from_empty (t : List Key) (ht : t ≠ []) :
    (diffOld [] t).clear = false ∧ (diffOld [] t).removed = [] ∧ (unpackMoves (diffOld [] t)).1 = [] ∧
    (unpackMoves (diffOld [] t)).2 = (List.range t.length).map (fun i => { at_ := i, mode := .append }) ∧
    (diffOld [] t).added.length = t.length := by
  have h2 : t.isEmpty = false := by cases t <;> simp_all
  have hd : diffOld [] t = { added := (List.range t.length).map fun i => { at_ := i, mode := .append } } := by
    unfold diffOld; simp [h2]
  have hu : unpackMoves (diffOld [] t) = ((diffOld [] t).moved.flatMap singles, (diffOld [] t).added) := by
    unfold unpackMoves
    apply unpackLoop_complete
    · rw [hd]; simp
    · rw [hd]; simp [sumLens]
  rw [hu, hd]; simp

/-- BEFORE the repair: `unpack_moves (diff from to)`, for ALL `from`, `to` -/
theorem unpack_diffOld (f t : List Key) :
    unpackMoves (diffOld f t) = ((diffOld f t).moved.flatMap singles, (diffOld f t).added) := by
  unfold unpackMoves
  apply unpackLoop_complete
  · unfold diffOld
    split
    · simp
    · split
      · simp
      · split
        · simp
        · exact groupOld_len_pos _ (diffFoldOld f t _).2.2.2
  · unfold diffOld
    split
    · simp [sumLens]
    · split
      · simp [sumLens]
      · split
        · simp [sumLens]
        · simp

/-- what the theorems about `apply_diff` need to know about the diff function -/
structure DiffLike (D : List Key → List Key → Diff) : Prop where
  nil_nil : D [] [] = {}
  to_nil : ∀ f, f ≠ [] → D f [] = { clear := true }
  general : ∀ f t, f ≠ [] → t ≠ [] →
    (D f t).clear = false ∧
    Spec f t (D f t).removed (unpackMoves (D f t)).1 (unpackMoves (D f t)).2 ∧
    (D f t).added.length = (unpackMoves (D f t)).2.length ∧
    ∀ a ∈ (unpackMoves (D f t)).2, a.mode = .normal
  from_nil : ∀ t, t ≠ [] →
    (D [] t).clear = false ∧ (D [] t).removed = [] ∧ (unpackMoves (D [] t)).1 = [] ∧
    (unpackMoves (D [] t)).2 = (List.range t.length).map (fun i => { at_ := i, mode := .append }) ∧
    (D [] t).added.length = t.length

theorem diffLike_diff : DiffLike diff where
  nil_nil := by simp [diff]
  to_nil := by
    intro f hf
    have : f.isEmpty = false := by cases f <;> simp_all
    simp [diff, this]
  general := spec_of_diff
  from_nil := spec_of_diff_from_empty

theorem diffLike_diffOld : DiffLike diffOld where
  nil_nil := by simp [diffOld]
  to_nil := by
    intro f hf
    have : f.isEmpty = false := by cases f <;> simp_all
    simp [diffOld, this]
  general := spec_of_diffOld
  from_nil := spec_of_diffOld_from_empty

/-! ### `apply_diff` after the `clear` test -/

/-- removals, move out, resize, move in, additions, drain — with the command lists as parameters -/
def pipeline (bs : Nat) (marker : NodeId) (to : List Key) (rem : List Nat) (U : List DiffOpMove)
    (ads : List DiffOpAdd) (nadd : Nat) (w : World) : World :=
  let w := rem.foldl removeStep w
  let r := U.foldl moveOutStep (w, [])
  let w := { r.1 with storage := r.1.storage ++ List.replicate nadd none }
  let mcs := U.zip r.2
  let w := mcs.foldl moveInStorageStep w
  let w := mcs.foldl (moveInDomStep marker) w
  let w := ads.foldl (addStep bs marker to) w
  { w with storage := w.storage.filter Option.isSome }

theorem applyDiff_eq_pipeline (bs : Nat) (marker : NodeId) (d : Diff) (to : List Key) (w : World)
    (h : d.clear = false) :
    applyDiff bs marker d to w =
      pipeline bs marker to d.removed (unpackMoves d).1 (unpackMoves d).2 d.added.length w := by
  simp [applyDiff, pipeline, h]

/-- storage after the removals and the move-out -/
def storage2 (st : List (Option Item)) (rem : List Nat) (U : List DiffOpMove) : List (Option Item) :=
  applyWrites (applyWrites st (rem.map fun a => (a, none))) (U.map fun m => (m.from_, none))

/-- every move with the item it carries -/
def movedWith (st : List (Option Item)) (rem : List Nat) (U : List DiffOpMove) :
    List (DiffOpMove × Option Item) :=
  U.map fun m => (m, itemAt (applyWrites st (rem.map fun a => (a, none))) m.from_)

/-- storage after resize and the storage-only move-in: what the DOM phases start from -/
def storage4 (st : List (Option Item)) (rem : List Nat) (U : List DiffOpMove) (nadd : Nat) :
    List (Option Item) :=
  applyWrites (storage2 st rem U ++ List.replicate nadd none) (ndWrites (movedWith st rem U))

/-- parent's children after the removals -/
def kids1 (w : World) (rem : List Nat) : List NodeId :=
  (rem.filterMap (itemAt w.storage)).foldl unmountItem w.kids

/-- all placements of the DOM phases, in order -/
def placements (bs : Nat) (to : List Key) (w : World) (rem : List Nat) (U : List DiffOpMove)
    (ads : List DiffOpAdd) : List (Nat × Item) :=
  dPlacements (movedWith w.storage rem U) ++ addPlacements bs to w.next ads

theorem placeAll_append (marker : NodeId) (a b : List (Nat × Item)) (ks : List NodeId × List (Option Item)) :
    placeAll marker (a ++ b) ks = placeAll marker b (placeAll marker a ks) := by
  simp [placeAll, List.foldl_append]

/-- closed form of the pipeline when no index is out of range and no `unwrap` fails -/
theorem pipeline_eq (bs : Nat) (marker : NodeId) (to : List Key) (rem : List Nat) (U : List DiffOpMove)
    (ads : List DiffOpAdd) (nadd : Nat) (w : World)
    (hrem : rem.Nodup) (hremv : ∀ a ∈ rem, ∃ it, itemAt w.storage a = some it)
    (hfrom : (U.map (·.from_)).Nodup) (hfromv : ∀ m ∈ U, m.from_ < w.storage.length)
    (htov : ∀ m ∈ U, m.to_ < w.storage.length + nadd)
    (hcarry : ∀ mc ∈ movedWith w.storage rem U, mc.2.isSome)
    (hads : ∀ a ∈ ads, a.mode = .normal ∧ a.at_ < to.length ∧ a.at_ < w.storage.length + nadd) :
    pipeline bs marker to rem U ads nadd w =
      { kids := (placeAll marker (placements bs to w rem U ads) (kids1 w rem, storage4 w.storage rem U nadd)).1,
        storage := ((placeAll marker (placements bs to w rem U ads)
          (kids1 w rem, storage4 w.storage rem U nadd)).2).filter Option.isSome,
        next := w.next + bs * ads.length,
        log := { w.log with
          unmounts := w.log.unmounts ++ (rem.filterMap (itemAt w.storage)).map (·.key),
          setIndex := w.log.setIndex ++ ndCalls (movedWith w.storage rem U) ++ dCalls (movedWith w.storage rem U),
          builds := w.log.builds ++ ads.map fun a => (to[a.at_]?.getD 0, a.at_) } } := by
  unfold pipeline
  simp only
  rw [removeFold rem w hrem hremv]
  rw [moveOutFold U _ [] hfrom (by simpa using hfromv)]
  simp only [List.nil_append]
  have hzip : U.zip (U.map fun m => itemAt (applyWrites w.storage (rem.map fun a => (a, none))) m.from_)
      = movedWith w.storage rem U := by
    have := List.zip_map' (f := fun (m : DiffOpMove) => m)
      (g := fun m => itemAt (applyWrites w.storage (rem.map fun a => (a, none))) m.from_) (l := U)
    simpa [movedWith] using this
  rw [hzip]
  have hmem : ∀ mc ∈ movedWith w.storage rem U, mc.1 ∈ U := by
    intro mc hmc
    simp only [movedWith, List.mem_map] at hmc
    obtain ⟨m, hm, rfl⟩ := hmc
    exact hm
  rw [moveInStorageFold _ _ (by
    intro mc hmc _
    simpa using htov mc.1 (hmem mc hmc))]
  rw [moveInDomFold marker _ _ (by
    intro mc hmc _
    exact ⟨hcarry mc hmc, by simpa using htov mc.1 (hmem mc hmc)⟩)]
  rw [addFold bs marker to ads _ (by
    intro a ha
    obtain ⟨h1, h2, h3⟩ := hads a ha
    refine ⟨h1, h2, ?_⟩
    simpa [placeAll_storage] using h3)]
  simp only [placements, placeAll_append, kids1, storage4, storage2]

end Leptos.Keyed
