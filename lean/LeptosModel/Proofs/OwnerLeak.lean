import LeptosModel.Proofs.OwnerReach
/-!
# Proofs/OwnerLeak — node lists hold issued keys; every live entry has a live owner (C08)
-/
namespace Leptos.Owner

/-! ## more field lemmas -/

theorem fieldOf_newOwnerUnder {α} (F : OwnerRec → α) (d : α) (st : Core) (p : Option Nat) (paused : Bool)
    (hp : ∀ x, p = some x → x < st.owners.length)
    (hF : ∀ r id, F { r with children := r.children ++ [id] } = F r) (hd : F (freshOwner p paused) = d) (x : Nat) :
    fieldOf F d (newOwnerUnder st p paused).1 x = fieldOf F d st x := by
  unfold fieldOf
  rw [newOwnerUnder_get st p paused hp]
  by_cases h1 : x = st.owners.length
  · subst h1
    have hn : st.owners[st.owners.length]? = none := List.getElem?_eq_none (Nat.le_refl _)
    simp [hn, hd]
  · by_cases h2 : p = some x
    · simp only [h1, h2, if_true, if_false]
      cases st.owners[x]? <;> simp [hF]
    · simp [h1, h2]

theorem fieldOf_pauseWalk {α} (F : OwnerRec → α) (d : α) (hF : ∀ r p, F { r with paused := p } = F r)
    (n : Nat) (st : Core) (l : List Nat) (p : Bool) (x : Nat) :
    fieldOf F d (pauseWalk n st l p) x = fieldOf F d st x := by
  induction n generalizing st l with
  | zero => rfl
  | succ n ih =>
    cases l with
    | nil => rfl
    | cons o rest =>
      simp only [pauseWalk]
      split
      · next r hr =>
        split
        · rw [ih, fieldOf_setOwner _ _ hr]
          by_cases hx : x = o
          · subst hx; simp [fieldOf, hr, hF]
          · simp [hx]
        · rw [ih]
      · rw [ih]

theorem newItem_unowned_le (st : Core) (v : Val) : st.unowned ≤ (newItem st v).1.unowned := by
  unfold newItem; simp only; split
  · rw [modOwner_unowned]; exact Nat.le_refl _
  · exact Nat.le_succ _

theorem regCleanup_unowned (st : Core) (tag : Nat) (nested : Bool) (drops : Option Nat) : (regCleanup st tag nested drops).unowned = st.unowned := by
  unfold regCleanup; simp only; split
  · rw [modOwner_unowned]
  · rfl

theorem step_unowned_le (st : Core) (f : Frame) : st.unowned ≤ (stepFrame st f).1.unowned := by
  cases f with
  | visit o late =>
    cases hr : st.owners[o]? with
    | none => simp only [stepFrame, hr]; exact Nat.le_refl _
    | some r =>
      by_cases ha : r.alive = true
      · simp only [stepFrame, hr, ha, if_true, setOwner_unowned]; exact Nat.le_refl _
      · simp only [stepFrame, hr, ha, if_false, Bool.false_eq_true]; exact Nat.le_refl _
  | drop o late =>
    cases hr : st.owners[o]? with
    | none => simp only [stepFrame, hr]; exact Nat.le_refl _
    | some r => simp only [stepFrame, hr, setOwner_unowned]; exact Nat.le_refl _
  | run c ow late =>
    by_cases hn : c.nested = true
    · simp only [stepFrame, hn, if_true]
      unfold newStored
      have := newItem_unowned_le (regCleanup (logEv st (Ev.c c.tag c.cid ow late)) (c.tag + 100) false none) (Val.num c.tag)
      rw [regCleanup_unowned] at this
      exact this
    · simp only [stepFrame, hn, if_false, Bool.false_eq_true]; exact Nat.le_refl _
  | remove k late => exact Nat.le_refl _

/-! ## what `newItem` does, in one place -/

/-- `newItem` either registers the new key under the (alive) current owner or counts it as unowned;
all other node lists, `alive` flags and arena entries are as before -/
theorem newItem_spec (st : Core) (v : Val) :
    let k0 := (st.arena.insert v).2
    (newItem st v).1.arena = (st.arena.insert v).1 ∧
    (∀ x, (newItem st v).1.aliveB x = st.aliveB x) ∧
    (∀ x k, k ∈ nodesOf (newItem st v).1 x → k ∈ nodesOf st x ∨ k = k0) ∧
    (∀ x k, k ∈ nodesOf st x → k ∈ nodesOf (newItem st v).1 x) ∧
    ((∃ o, st.aliveB o = true ∧ k0 ∈ nodesOf (newItem st v).1 o) ∨ st.unowned < (newItem st v).1.unowned) := by
  intro k0
  refine ⟨newItem_arena st v, fun x => ?_, fun x k hk => ?_, fun x k hk => nodesOf_newItem_mono st v x k hk, ?_⟩
  · rw [aliveB_eq, fieldOf_newItem _ _ _ _ (fun _ _ => rfl)]; rfl
  · unfold newItem at hk
    simp only at hk
    split at hk
    · next o ho =>
      rw [nodesOf_eq, fieldOf_modOwner] at hk
      by_cases hx : x = o
      · simp only [hx, if_true] at hk
        subst hx
        rw [nodesOf_eq]; unfold fieldOf
        split at hk
        · next r hr =>
          simp only [List.mem_append, List.mem_singleton] at hk
          exact hk
        · cases hk
      · simp only [hx, if_false] at hk; exact Or.inl hk
    · exact Or.inl hk
  · unfold newItem
    simp only
    cases hc : currentOwner { st with arena := (st.arena.insert v).1 } with
    | none => right; simp
    | some o =>
      left
      have hal : st.aliveB o = true := by
        unfold currentOwner at hc
        split at hc
        · split at hc
          · next ha => cases hc; exact ha
          · cases hc
        · cases hc
      refine ⟨o, hal, ?_⟩
      simp only
      rw [nodesOf_eq, fieldOf_modOwner]
      simp only [if_true]
      have : ∃ r, st.owners[o]? = some r := by
        unfold Core.aliveB at hal
        cases hr : st.owners[o]? with
        | none => rw [hr] at hal; cases hal
        | some r => exact ⟨r, rfl⟩
      obtain ⟨r, hr⟩ := this
      have hr' : ({ st with arena := (st.arena.insert v).1 } : Core).owners[o]? = some r := hr
      rw [hr']
      simp only [List.mem_append, List.mem_singleton]
      exact Or.inr rfl

/-- primitives that leave node lists, `alive`, `children`, the arena and `unowned` alone -/
structure SameShape (a b : Core) : Prop where
  arena : b.arena = a.arena
  nodes : ∀ x, nodesOf b x = nodesOf a x
  alive : ∀ x, b.aliveB x = a.aliveB x
  children : ∀ x, childrenOf b x = childrenOf a x
  unowned : b.unowned = a.unowned

theorem SameShape.of_owners {a b : Core} (ho : b.owners = a.owners) (ha : b.arena = a.arena)
    (hu : b.unowned = a.unowned) : SameShape a b :=
  ⟨ha, fun x => fieldOf_congr (·.nodes) [] ho x, fun x => fieldOf_congr (·.alive) false ho x,
   fun x => fieldOf_congr (·.children) [] ho x, hu⟩

theorem SameShape.modOwner (st : Core) (o : Nat) (f : OwnerRec → OwnerRec)
    (h1 : ∀ r, (f r).nodes = r.nodes) (h2 : ∀ r, (f r).alive = r.alive) (h3 : ∀ r, (f r).children = r.children) :
    SameShape st (st.modOwner o f) :=
  ⟨modOwner_arena _ _ _, fun x => fieldOf_modOwner_same (·.nodes) [] st o f h1 x,
   fun x => fieldOf_modOwner_same (·.alive) false st o f h2 x,
   fun x => fieldOf_modOwner_same (·.children) [] st o f h3 x, modOwner_unowned _ _ _⟩

theorem SameShape.trans {a b c : Core} (h1 : SameShape a b) (h2 : SameShape b c) : SameShape a c :=
  ⟨h2.arena.trans h1.arena, fun x => (h2.nodes x).trans (h1.nodes x), fun x => (h2.alive x).trans (h1.alive x),
   fun x => (h2.children x).trans (h1.children x), h2.unowned.trans h1.unowned⟩

theorem ss_eq {a st st' : Core} (h : SameShape a st) (ho : st'.owners = st.owners) (ha : st'.arena = st.arena)
    (hu : st'.unowned = st.unowned) : SameShape a st' := h.trans (SameShape.of_owners ho ha hu)

theorem ss_modOwner {a st : Core} (h : SameShape a st) (o : Nat) (f : OwnerRec → OwnerRec)
    (h1 : ∀ r, (f r).nodes = r.nodes) (h2 : ∀ r, (f r).alive = r.alive) (h3 : ∀ r, (f r).children = r.children) :
    SameShape a (st.modOwner o f) := h.trans (SameShape.modOwner st o f h1 h2 h3)

theorem SameShape.refl (a : Core) : SameShape a a := SameShape.of_owners rfl rfl rfl

theorem SameShape.regCleanup (st : Core) (tag : Nat) (nested : Bool) (drops : Option Nat) : SameShape st (regCleanup st tag nested drops) := by
  unfold Leptos.Owner.regCleanup
  simp only
  split
  · refine ss_modOwner ?_ _ _ (fun _ => rfl) (fun _ => rfl) (fun _ => rfl)
    exact ss_eq (SameShape.refl st) rfl rfl rfl
  · exact SameShape.of_owners rfl rfl rfl

theorem SameShape.provide (st : Core) (ty : Nat) (v : Int) : SameShape st (provide st ty v) := by
  unfold Leptos.Owner.provide
  split
  · exact ss_modOwner (SameShape.refl st) _ _ (fun _ => rfl) (fun _ => rfl) (fun _ => rfl)
  · exact SameShape.of_owners rfl rfl rfl

theorem SameShape.useCtx (st : Core) (ty : Nat) : SameShape st (useCtx st ty) := by
  unfold Leptos.Owner.useCtx
  split <;> exact SameShape.of_owners rfl rfl rfl

theorem SameShape.takeCtx (st : Core) (ty : Nat) : SameShape st (takeCtx st ty) := by
  unfold Leptos.Owner.takeCtx
  split
  · next o e _ =>
    simp only
    refine ss_eq (st := st.modOwner o _) ?_ rfl rfl rfl
    exact ss_modOwner (SameShape.refl st) _ _ (fun _ => rfl) (fun _ => rfl) (fun _ => rfl)
  · exact SameShape.of_owners rfl rfl rfl

theorem SameShape.updateCtx (st : Core) (ty : Nat) (d : Int) : SameShape st (updateCtx st ty d) := by
  unfold Leptos.Owner.updateCtx
  split
  · next o e _ =>
    simp only
    refine ss_eq (st := st.modOwner o _) ?_ rfl rfl rfl
    exact ss_modOwner (SameShape.refl st) _ _ (fun _ => rfl) (fun _ => rfl) (fun _ => rfl)
  · exact SameShape.of_owners rfl rfl rfl

theorem SameShape.setPaused (st : Core) (o : Nat) (p : Bool) : SameShape st (setPaused st o p) := by
  unfold Leptos.Owner.setPaused
  refine ⟨pauseWalk_arena _ _ _ _, fun x => fieldOf_pauseWalk (·.nodes) [] (fun _ _ => rfl) _ _ _ _ x,
    fun x => fieldOf_pauseWalk (·.alive) false (fun _ _ => rfl) _ _ _ _ x,
    fun x => fieldOf_pauseWalk (·.children) [] (fun _ _ => rfl) _ _ _ _ x, ?_⟩
  generalize 2 * st.owners.length + 2 = n
  generalize [o] = l
  induction n generalizing st l with
  | zero => rfl
  | succ n ih =>
    cases l with
    | nil => rfl
    | cons o rest =>
      simp only [pauseWalk]
      split
      · split
        · rw [ih]; rfl
        · rw [ih]
      · rw [ih]

/-- the eight "light" primitives -/
theorem SameShape.prim_light {a b : Core} (hp : CorePrim a b) :
    SameShape a b ∨ (∃ v, b = (newItem a v).1) ∨ (∃ p paused, (∀ x, p = some x → x < a.owners.length) ∧
      b = (newOwnerUnder a p paused).1) ∨ (∃ f, f.isRoot = true ∧ b = runPass a [f]) := by
  cases hp with
  | regCleanup tag nested drops => exact Or.inl (SameShape.regCleanup _ _ _ _)
  | newItem v => exact Or.inr (Or.inl ⟨v, rfl⟩)
  | addItemHandle k => exact Or.inl (SameShape.of_owners rfl rfl rfl)
  | newOwnerUnder p paused hp => exact Or.inr (Or.inr (Or.inl ⟨p, paused, hp, rfl⟩))
  | pass f hf => exact Or.inr (Or.inr (Or.inr ⟨f, hf, rfl⟩))
  | provide ty v => exact Or.inl (SameShape.provide _ _ _)
  | useCtx ty => exact Or.inl (SameShape.useCtx _ _)
  | takeCtx ty => exact Or.inl (SameShape.takeCtx _ _)
  | updateCtx ty d => exact Or.inl (SameShape.updateCtx _ _ _)
  | setPaused o p => exact Or.inl (SameShape.setPaused _ _ _)
  | setCur cur => exact Or.inl (SameShape.of_owners rfl rfl rfl)
  | logEv e he => exact Or.inl (SameShape.of_owners rfl rfl rfl)

/-! ## I5 — node lists hold issued keys -/

def NodesOK (st : Core) : Prop := ∀ o k, k ∈ nodesOf st o → Issued st.arena k

theorem insert_issued_self (a : Arena) (v : Val) : Issued (a.insert v).1 (a.insert v).2 :=
  issued_of_get (insert_get_self a v)

theorem NodesOK.newItem {st : Core} (h : NodesOK st) (v : Val) : NodesOK (newItem st v).1 := by
  obtain ⟨harena, _, hsub, _, _⟩ := newItem_spec st v
  intro o k hk
  rw [harena]
  rcases hsub o k hk with h1 | h1
  · exact (h o k h1).insert v
  · rw [h1]; exact insert_issued_self _ _

theorem NodesOK.of_same {st st' : Core} (h : NodesOK st) (ha : st'.arena = st.arena)
    (hn : ∀ x, nodesOf st' x = nodesOf st x) : NodesOK st' :=
  fun o k hk => by rw [ha]; exact h o k (by rw [← hn]; exact hk)

theorem NodesOK.step {st : Core} (f : Frame) (h : NodesOK st) : NodesOK (stepFrame st f).1 := by
  -- a step that rewrites the record of `x`, clearing its node list
  have clear : ∀ (x : Nat) (r r' : OwnerRec), st.owners[x]? = some r → r'.nodes = [] →
      NodesOK (st.setOwner x r') := by
    intro x r r' hr hn o k hk
    rw [nodesOf_eq, fieldOf_setOwner _ _ hr] at hk
    by_cases ho : o = x
    · simp only [ho, if_true, hn] at hk; cases hk
    · simp only [ho, if_false] at hk; exact h o k hk
  cases f with
  | visit x late =>
    cases hr : st.owners[x]? with
    | none => simp only [stepFrame, hr]; exact h
    | some r =>
      by_cases ha : r.alive = true
      · simp only [stepFrame, hr, ha, if_true]; exact clear x r _ hr rfl
      · simp only [stepFrame, hr, ha, if_false, Bool.false_eq_true]; exact h
  | drop x late =>
    cases hr : st.owners[x]? with
    | none => simp only [stepFrame, hr]; exact h
    | some r => simp only [stepFrame, hr]; exact clear x r _ hr rfl
  | run c ow late =>
    by_cases hn : c.nested = true
    · simp only [stepFrame, hn, if_true]
      unfold newStored
      have h1 : NodesOK (regCleanup (logEv st (Ev.c c.tag c.cid ow late)) (c.tag + 100) false none) := by
        have hs := (SameShape.of_owners (a := st) (b := logEv st (Ev.c c.tag c.cid ow late)) rfl rfl rfl).trans
          (SameShape.regCleanup (logEv st (Ev.c c.tag c.cid ow late)) (c.tag + 100) false none)
        exact NodesOK.of_same h hs.arena hs.nodes
      exact NodesOK.of_same (h1.newItem (Val.num c.tag)) rfl (fun _ => rfl)
    · simp only [stepFrame, hn, if_false, Bool.false_eq_true]
      exact NodesOK.of_same h rfl (fun _ => rfl)
  | remove k late =>
    simp only [stepFrame]
    exact fun o k' hk => (h o k' hk).remove k

theorem NodesOK.frames (n : Nat) {st : Core} (fs : List Frame) (h : NodesOK st) : NodesOK (runFrames n st fs).1 :=
  (runFrames_inv (fun s _ => NodesOK s) (fun _ f _ h => h.step f) n st fs h)

theorem NodesOK.prim {a b : Core} (hp : CorePrim a b) (h : NodesOK a) : NodesOK b := by
  rcases SameShape.prim_light hp with hs | ⟨v, rfl⟩ | ⟨p, paused, hpp, rfl⟩ | ⟨f, _, rfl⟩
  · exact h.of_same hs.arena hs.nodes
  · exact h.newItem v
  · refine h.of_same (newOwnerUnder_arena _ _ _) (fun x => ?_)
    exact fieldOf_newOwnerUnder (·.nodes) [] _ _ _ hpp (fun _ _ => rfl) rfl x
  · exact h.frames _ _

theorem NodesOK.init : NodesOK {} := by
  intro o k hk; simp [nodesOf] at hk

theorem NodesOK.reach {a b : Core} (h : CoreReach a b) (ha : NodesOK a) : NodesOK b :=
  CoreReach.inv (fun _ _ hp => NodesOK.prim hp) h ha

/-! ## I4 — every live arena entry has a live owner (unless something was created with no owner) -/

def Owned (st : Core) (fs : List Frame) : Prop :=
  st.unowned = 0 → ∀ k v, st.arena.get k = some v →
    (∃ o, st.aliveB o = true ∧ k ∈ nodesOf st o) ∨ (∃ late, Frame.remove k late ∈ fs)

theorem Owned.newItem {st : Core} {fs : List Frame} (h : Owned st fs) (v : Val) : Owned (newItem st v).1 fs := by
  obtain ⟨harena, halive, _, hmono, hnew⟩ := newItem_spec st v
  intro hu k w hk
  have hle := newItem_unowned_le st v
  have hu0 : st.unowned = 0 := by omega
  rw [harena] at hk
  by_cases hkk : k = (st.arena.insert v).2
  · rcases hnew with ⟨o, ho, hmem⟩ | hlt
    · exact Or.inl ⟨o, by rw [halive]; exact ho, hkk ▸ hmem⟩
    · omega
  · rcases h hu0 k w (insert_get_rev _ _ _ _ hk hkk) with ⟨o, ho, hmem⟩ | hfr
    · exact Or.inl ⟨o, by rw [halive]; exact ho, hmono o k hmem⟩
    · exact Or.inr hfr

theorem Owned.of_same {a b : Core} {fs : List Frame} (h : Owned a fs) (hs : SameShape a b) : Owned b fs := by
  intro hu k w hk
  rw [hs.arena] at hk
  rcases h (by rw [← hs.unowned]; exact hu) k w hk with ⟨o, ho, hmem⟩ | hfr
  · exact Or.inl ⟨o, by rw [hs.alive]; exact ho, by rw [hs.nodes]; exact hmem⟩
  · exact Or.inr hfr

theorem Owned.weaken {st : Core} {fs fs' : List Frame} (h : Owned st fs) (hsub : ∀ f, f ∈ fs → f ∈ fs') :
    Owned st fs' := by
  intro hu k w hk
  rcases h hu k w hk with ho | ⟨l2, hfr⟩
  · exact Or.inl ho
  · exact Or.inr ⟨l2, hsub _ hfr⟩

theorem Owned.step {st : Core} (f : Frame) (fs : List Frame) (h : Owned st (f :: fs)) :
    Owned (stepFrame st f).1 ((stepFrame st f).2 ++ fs) := by
  -- a step that rewrites the record of `x`: node list cleared and pushed as `remove` frames
  have clear : ∀ (x : Nat) (r r' : OwnerRec) (late : Bool), st.owners[x]? = some r → r'.nodes = [] →
      (∀ g, g ∈ f :: fs → (∃ k l, g = Frame.remove k l) → g ∈ fs) →
      Owned (st.setOwner x r') (expand r x late ++ fs) := by
    intro x r r' late hr hn hhead hu k w hk
    rcases h hu k w hk with ⟨o, ho, hmem⟩ | ⟨l2, hfr⟩
    · by_cases hox : o = x
      · subst hox
        have : k ∈ r.nodes := by rw [nodesOf_eq] at hmem; unfold fieldOf at hmem; rw [hr] at hmem; exact hmem
        exact Or.inr ⟨late, List.mem_append_left _ (mem_expand_remove this)⟩
      · refine Or.inl ⟨o, ?_, ?_⟩
        · rw [aliveB_eq, fieldOf_setOwner _ _ hr]; simp only [hox, if_false]; exact ho
        · rw [nodesOf_eq, fieldOf_setOwner _ _ hr]; simp only [hox, if_false]; exact hmem
    · exact Or.inr ⟨l2, List.mem_append_right _ (hhead _ hfr ⟨k, l2, rfl⟩)⟩
  have nohead : ∀ g, g ∈ f :: fs → (∃ k l, g = Frame.remove k l) → (∀ k l, f ≠ Frame.remove k l) → g ∈ fs := by
    intro g hg ⟨k, l, hgk⟩ hf
    rcases List.mem_cons.mp hg with rfl | hg
    · exact absurd hgk (hf k l)
    · exact hg
  cases f with
  | visit x late =>
    have hnh : ∀ g, g ∈ Frame.visit x late :: fs → (∃ k l, g = Frame.remove k l) → g ∈ fs :=
      fun g hg hk => nohead g hg hk (fun _ _ hh => by cases hh)
    have noop : Owned st fs := by
      intro hu k w hk
      rcases h hu k w hk with ho | ⟨l2, hfr⟩
      · exact Or.inl ho
      · exact Or.inr ⟨l2, hnh _ hfr ⟨k, l2, rfl⟩⟩
    cases hr : st.owners[x]? with
    | none => simp only [stepFrame, hr, List.nil_append]; exact noop
    | some r =>
      by_cases ha : r.alive = true
      · simp only [stepFrame, hr, ha, if_true]
        intro hu k w hk
        rcases clear x r (clearedRec r) late hr rfl hnh hu k w hk with ⟨o, ho, hmem⟩ | hfr
        · exact Or.inl ⟨o, ho, hmem⟩
        · exact Or.inr hfr
      · simp only [stepFrame, hr, ha, if_false, Bool.false_eq_true, List.nil_append]; exact noop
  | drop x late =>
    have hnh : ∀ g, g ∈ Frame.drop x late :: fs → (∃ k l, g = Frame.remove k l) → g ∈ fs :=
      fun g hg hk => nohead g hg hk (fun _ _ hh => by cases hh)
    cases hr : st.owners[x]? with
    | none =>
      simp only [stepFrame, hr, List.nil_append]
      intro hu k w hk
      rcases h hu k w hk with ho | ⟨l2, hfr⟩
      · exact Or.inl ho
      · exact Or.inr ⟨l2, hnh _ hfr ⟨k, l2, rfl⟩⟩
    | some r => simp only [stepFrame, hr]; exact clear x r (deadRec r) late hr rfl hnh
  | run c ow late =>
    have hnh : ∀ g, g ∈ Frame.run c ow late :: fs → (∃ k l, g = Frame.remove k l) → g ∈ fs :=
      fun g hg hk => nohead g hg hk (fun _ _ hh => by cases hh)
    have base : Owned st fs := by
      intro hu k w hk
      rcases h hu k w hk with ho | ⟨l2, hfr⟩
      · exact Or.inl ho
      · exact Or.inr ⟨l2, hnh _ hfr ⟨k, l2, rfl⟩⟩
    by_cases hn : c.nested = true
    · simp only [stepFrame, hn, if_true, List.nil_append]
      unfold newStored
      have hs := (SameShape.of_owners (a := st) (b := logEv st (Ev.c c.tag c.cid ow late)) rfl rfl rfl).trans
        (SameShape.regCleanup (logEv st (Ev.c c.tag c.cid ow late)) (c.tag + 100) false none)
      exact (((base.of_same hs).newItem (Val.num c.tag)).of_same (SameShape.of_owners rfl rfl rfl)).weaken
        (fun f hf => List.mem_append_right _ hf)
    · simp only [stepFrame, hn, if_false, Bool.false_eq_true, List.nil_append]
      exact (base.of_same (SameShape.of_owners rfl rfl rfl)).weaken (fun f hf => List.mem_append_right _ hf)
  | remove k0 late =>
    simp only [stepFrame]
    intro hu k w hk
    have hne : k ≠ k0 := by
      intro hkk; subst hkk
      rw [remove_get_self] at hk; cases hk
    have hk' : st.arena.get k = some w := by rw [← remove_get_other st.arena k0 k hne]; exact hk
    rcases h hu k w hk' with ho | ⟨l2, hfr⟩
    · exact Or.inl ho
    · rcases List.mem_cons.mp hfr with heq | hfr
      · cases heq; exact absurd rfl hne
      · exact Or.inr ⟨l2, List.mem_append_right _ hfr⟩

theorem Owned.prim {a b : Core} (hp : CorePrim a b) (h : Owned a []) : Owned b [] := by
  rcases SameShape.prim_light hp with hs | ⟨v, rfl⟩ | ⟨p, paused, hpp, rfl⟩ | ⟨f, hf, rfl⟩
  · exact h.of_same hs
  · exact h.newItem v
  · intro hu k w hk
    rw [newOwnerUnder_arena] at hk
    have hu' : a.unowned = 0 := by
      have : (newOwnerUnder a p paused).1.unowned = a.unowned := by
        unfold newOwnerUnder; simp only; split
        · rw [modOwner_unowned]
        · rfl
      omega
    rcases h hu' k w hk with ⟨o, ho, hmem⟩ | ⟨_, hfr⟩
    · have hlt : o < a.owners.length := by
        unfold Core.aliveB at ho
        cases hr : a.owners[o]? with
        | none => rw [hr] at ho; cases ho
        | some r => exact lt_of_getElem?_some hr
      refine Or.inl ⟨o, ?_, ?_⟩
      · -- the record at `o` keeps its `alive` flag
        unfold Core.aliveB
        rw [newOwnerUnder_get a p paused hpp]
        have h1 : ¬ o = a.owners.length := by omega
        simp only [h1, if_false]
        unfold Core.aliveB at ho
        by_cases h2 : p = some o
        · simp only [h2, if_true]
          cases hr : a.owners[o]? with
          | none => rw [hr] at ho; cases ho
          | some r => rw [hr] at ho; simpa using ho
        · simp only [h2, if_false]; exact ho
      · have := fieldOf_newOwnerUnder (·.nodes) [] a p paused hpp (fun _ _ => rfl) rfl o
        rw [nodesOf_eq, this]; exact hmem
    · cases hfr
  · refine runPass_inv Owned (fun s f fs h => h.step f fs) a [f] ?_
    intro hu k w hk
    rcases h hu k w hk with ho | ⟨_, hfr⟩
    · exact Or.inl ho
    · cases hfr

theorem Owned.init : Owned {} [] := by
  intro _ k v hk
  simp [Arena.get, Arena.empty] at hk

theorem Owned.reach {a b : Core} (h : CoreReach a b) (ha : Owned a []) : Owned b [] :=
  CoreReach.inv (fun _ _ hp => Owned.prim hp) h ha

/-- no slot is occupied iff no key resolves -/
theorem arena_len_zero {a : Arena} (h : ∀ k, a.get k = none) : a.len = 0 := by
  unfold Arena.len
  rw [List.length_eq_zero_iff, List.filter_eq_nil_iff]
  intro s hs
  obtain ⟨i, hi⟩ := List.mem_iff_getElem?.mp hs
  have := h ⟨i, s.gen⟩
  simp only [Arena.get, hi, if_true] at this
  simp [this]

end Leptos.Owner
