import LeptosModel.Proofs.RViewMRun
import LeptosModel.Proofs.RViewErrb
/-!
# Proofs/RViewMErrb — an `<ErrorBoundary>` over static structure with dynamic leaves and `Result` leaves

The boundary's register `s` and its memo `m = s + 1` count as definitions (`K` = the program's definitions + 2);
a registration (`bump`) is a signal write in the middle of a re-run: `setSigM` keeps the reactive invariant, every
effect keeps its stable part.
-/
namespace Leptos.RView
open Leptos.Reactive

/-- static structure, dynamic text / attributes, `Result` leaves -/
def View.leavesR : View → Bool
  | .text _ => true
  | .unit => true
  | .elem _ _ kid => kid.leavesR
  | .seq a b => a.leavesR && b.leavesR
  | .dynText _ => true
  | .res _ _ => true
  | _ => false

/-- `s'` is `s` after steps that only move the node-id counter, the hook, or write signals -/
structure Calm (K : Nat) (s s' : St) : Prop where
  rm : RM K s'
  ext : ExtM K (fun _ => False) s s'
  prog : s'.prog = s.prog
  zombies : s'.zombies = s.zombies
  root : s'.root = s.root
  rootN : s'.rootN = s.rootN
  disposed : s'.disposed = s.disposed
  tasks : s'.tasks = s.tasks

theorem Calm.refl {K : Nat} {s : St} (h : RM K s) : Calm K s s :=
  ⟨h, ExtM.refl K _ (fun _ hf => hf.elim) s, rfl, rfl, rfl, rfl, rfl, rfl⟩

theorem Calm.trans {K : Nat} {a b c : St} (h1 : Calm K a b) (h2 : Calm K b c) : Calm K a c :=
  ⟨h2.rm, h1.ext.trans h2.ext, h2.prog.trans h1.prog, h2.zombies.trans h1.zombies, h2.root.trans h1.root,
    h2.rootN.trans h1.rootN, h2.disposed.trans h1.disposed, h2.tasks.trans h1.tasks⟩

/-- a state that differs in fields the reactive invariant does not look at -/
theorem Calm.of_eq {K : Nat} {s s' : St} (h : RM K s) (hp : s'.prog = s.prog) (hr : s'.rs = s.rs)
    (hz : s'.zombies = s.zombies) (hro : s'.root = s.root) (hrn : s'.rootN = s.rootN)
    (hd : s'.disposed = s.disposed) (ht : s'.tasks = s.tasks) : Calm K s s' :=
  ⟨h.of_rs_prog hp hr, ExtM.of_rs_prog _ (fun _ hf => hf.elim) hp hr (fun e he => by rw [ht]; exact he),
    hp, hz, hro, hrn, hd, ht⟩

theorem Calm.alloc {K : Nat} {s : St} (h : RM K s) : Calm K s s.alloc.2 :=
  Calm.of_eq h rfl rfl rfl rfl rfl rfl rfl

theorem Calm.bump {K : Nat} {s : St} (h : RM K s) (sg : Nat) (d : Int) : Calm K s (bump s sg d) := by
  obtain ⟨hrm, hx⟩ := setSigM h sg (((s.rs.get sg).val.getD 0) + d)
  exact ⟨hrm, hx, rfl, rfl, rfl, rfl, rfl, rfl⟩

theorem Calm.bumpTo {K : Nat} {s : St} (h : RM K s) : ∀ (hk : Option Nat) (d : Int), Calm K s (bumpTo s hk d)
  | none, _ => Calm.refl h
  | some sg, d => Calm.bump h sg d

theorem EM.calm {K : Nat} {s s' : St} {e : Nat} {x : Expr} {cur : Int → Prop} (h : EM K s e x cur)
    (hc : Calm K s s') : EM K s' e x cur := h.ext hc.ext (fun hf => hf)

theorem GoodM.calm {K : Nat} {s s' : St} (hc : Calm K s s') (v : View) (t : RState)
    (h : GoodM (EM K s) (ShowMemo K s) v t) : GoodM (EM K s') (ShowMemo K s') v t :=
  GoodM.extM hc.ext v t h (fun _ _ hf => hf)

/-- a re-run that left the zombies alone is accounted for -/
theorem RerunM.of_calm {K : Nat} {s s' : St} {t t' : RState} {v : View} (hc : Calm K s s')
    (hg : GoodM (EM K s') (ShowMemo K s') v t') (he : effsOf t' = effsOf t) (hnd : (effsOf t).Nodup)
    (hb : ∀ x ∈ effsOf t, x < s.prog.length) : RerunM K (EM K) s t v t' s' := by
  have hz : newZ s s' = [] := by simp [newZ, hc.zombies]
  refine ⟨hc.rm, by rw [hz, hc.zombies]; simp, ?_, hg, ?_, ?_, ?_, ?_, fun x hx => Or.inl (by rw [← hc.tasks]; exact hx),
    hc.root, hc.rootN, hc.disposed⟩
  · rw [hz]; exact hc.ext.mono (fun _ hf => hf.elim) (fun _ h => by simp [zEffs] at h)
  · intro x _; rw [hz, he]; simp [zEffs]
  · intro x hx'
    rw [hz, he]
    refine ⟨List.nodup_iff_count.1 hnd x, by simp [zEffs], fun hm => ?_⟩
    have := hb x hm
    omega
  · intro z hz'; rw [hz] at hz'; simp at hz'
  · intro z hz'; rw [hz] at hz'; simp at hz'

section leaf
variable {K : Nat} {st : St} {e : Nat} {w : Int} {P0 : EP} {Q0 : Nat → Expr → Prop}

/-- what the re-run of `e` needs to know about the state it starts from -/
structure Frame (K : Nat) (P0 : EP) (e : Nat) (w : Int) (sc : St) : Prop where
  rm : RM K sc
  others : ∀ e' x cur, e' ≠ e → P0 e' x cur → EM K sc e' x cur
  self : ∀ x (cur : Int → Prop), P0 e x cur → ∀ cur' : Int → Prop, cur' w → EM K sc e x cur'

theorem Frame.calm {sc sc' : St} (h : Frame K P0 e w sc) (hc : Calm K sc sc') : Frame K P0 e w sc' :=
  ⟨hc.rm, fun e' x cur hne hp => (h.others e' x cur hne hp).calm hc,
    fun x cur hp cur' hw => (h.self x cur hp cur' hw).calm hc⟩

theorem rerunAttrs_goodF {sc : St} (h : Frame K P0 e w sc) {as : List Attr} {os : List AState}
    (hg : GoodAttrsP P0 as os) : GoodAttrsP (EM K sc) as (rerunAttrs e w os).1 :=
  rerunAttrs_goodM (P := EM K) (s := sc) h.others h.self hg

/-- **the re-run of an effect inside static structure with dynamic and `Result` leaves**: no zombies, the state
moves calmly (a `Result` leaf that changes sides takes a new node and writes its boundary's register) -/
theorem rerunIn_leafR : ∀ (v : View) (t : RState) (sc : St), Frame K P0 e w sc → GoodM P0 Q0 v t →
    v.leavesR = true →
    Calm K sc (rerunIn e w t sc).2.1 ∧
      GoodM (EM K (rerunIn e w t sc).2.1) (ShowMemo K (rerunIn e w t sc).2.1) v (rerunIn e w t sc).1 ∧
      effsOf (rerunIn e w t sc).1 = effsOf t := by
  intro v
  induction v with
  | text str =>
    intro t sc hf hg _
    cases t <;> simp only [GoodM] at hg
    exact ⟨Calm.refl hf.rm, by simp only [rerunIn, GoodM]; exact hg, rfl⟩
  | unit =>
    intro t sc hf hg _
    cases t <;> simp only [GoodM] at hg
    exact ⟨Calm.refl hf.rm, by simp only [rerunIn, GoodM], rfl⟩
  | elem tag attrs kid ih =>
    intro t sc hf hg hl
    cases t <;> simp only [GoodM] at hg
    next n tag' as k =>
      simp only [View.leavesR] at hl
      have hk := ih k sc hf hg.2.2 hl
      simp only [rerunIn]
      refine ⟨hk.1, ?_, ?_⟩
      · simp only [GoodM]
        refine ⟨hg.1, ?_, hk.2.1⟩
        exact (rerunAttrs_goodF hf hg.2.1).map (fun _ _ _ _ hp => hp.calm hk.1)
      · simp only [effsOf, rerunAttrs_effs, hk.2.2]
  | seq a b iha ihb =>
    intro t sc hf hg hl
    cases t <;> simp only [GoodM] at hg
    next sa sb =>
      simp only [View.leavesR, Bool.and_eq_true] at hl
      have ha := iha sa sc hf hg.1 hl.1
      have hb := ihb sb (rerunIn e w sa sc).2.1 (hf.calm ha.1) hg.2 hl.2
      simp only [rerunIn]
      refine ⟨ha.1.trans hb.1, ?_, ?_⟩
      · simp only [GoodM]
        exact ⟨GoodM.calm hb.1 a _ ha.2.1, hb.2.1⟩
      · simp only [effsOf, ha.2.2, hb.2.2]
  | dynText x =>
    intro t sc hf hg _
    cases t <;> simp only [GoodM] at hg
    next e' x' n last =>
      simp only [rerunIn]
      by_cases he : e' = e
      · subst he; rw [if_pos rfl]
        exact ⟨Calm.refl hf.rm, by simp only [GoodM]; exact ⟨hg.1, hf.self _ _ hg.2 _ rfl⟩, rfl⟩
      · rw [if_neg he]
        exact ⟨Calm.refl hf.rm, by simp only [GoodM]; exact ⟨hg.1, hf.others _ _ _ he hg.2⟩, rfl⟩
  | res c x =>
    intro t sc hf hg _
    cases t <;> simp only [GoodM] at hg
    next e' c' x' n last hook =>
      simp only [rerunIn]
      by_cases he : e' = e
      · subst he; rw [if_pos rfl]
        have hself := fun (cur' : Int → Prop) (hw : cur' w) => hf.self _ _ hg.2.2 cur' hw
        cases last with
        | none =>
          cases hd : decodeRes w with
          | none =>
            have hc := Calm.bumpTo hf.rm hook 0
            exact ⟨hc, by simp only [GoodM]; exact ⟨hg.1, hg.2.1, (hself _ hd.symm).calm hc⟩, rfl⟩
          | some u =>
            have hc := (Calm.alloc hf.rm).trans (Calm.bumpTo (Calm.alloc hf.rm).rm hook (-1))
            exact ⟨hc, by simp only [GoodM]; exact ⟨hg.1, hg.2.1, (hself _ hd.symm).calm hc⟩, rfl⟩
        | some l =>
          cases hd : decodeRes w with
          | none =>
            have hc := (Calm.alloc hf.rm).trans (Calm.bumpTo (Calm.alloc hf.rm).rm hook 1)
            exact ⟨hc, by simp only [GoodM]; exact ⟨hg.1, hg.2.1, (hself _ hd.symm).calm hc⟩, rfl⟩
          | some u =>
            exact ⟨Calm.refl hf.rm, by simp only [GoodM]; exact ⟨hg.1, hg.2.1, hself _ hd.symm⟩, rfl⟩
      · rw [if_neg he]
        exact ⟨Calm.refl hf.rm, by simp only [GoodM]; exact ⟨hg.1, hg.2.1, hf.others _ _ _ he hg.2.2⟩, rfl⟩
  | either c a b _ _ => intro t sc _ _ hl; simp [View.leavesR] at hl
  | «show» c a b _ _ => intro t sc _ _ hl; simp [View.leavesR] at hl
  | forKeyed sel lists => intro t sc _ _ hl; simp [View.leavesR] at hl
  | scope sid d kid _ => intro t sc _ _ hl; simp [View.leavesR] at hl
  | forRows en sel lists row _ => intro t sc _ _ hl; simp [View.leavesR] at hl
  | eb kid _ => intro t sc _ _ hl; simp [View.leavesR] at hl

end leaf

/-- every effect of a tree the re-run starts from exists -/
theorem Frame.bound {K : Nat} {P0 : EP} {Q0 : Nat → Expr → Prop} {e : Nat} {w : Int} {sc : St}
    (hf : Frame K P0 e w sc) (v : View) (t : RState) (hg : GoodM P0 Q0 v t) :
    ∀ y ∈ effsOf t, y < sc.prog.length := by
  intro y hy
  obtain ⟨x, cur, hp⟩ := GoodM.effP v t hg y hy
  by_cases he : y = e
  · subst he; exact (hf.self x cur hp (fun _ => True) trivial).lt
  · exact (hf.others y x cur he hp).lt

/-- **the re-run of an effect of a mounted boundary over leaves**: the boundary's own effect toggles between the
children and the fallback; any other effect runs under the boundary's hook -/
theorem rerunOK_eb {K : Nat} {kid : View} (hl : kid.leavesR = true) : RerunOK K (.eb kid) := by
  intro s hi e w P0 Q0 hothers hself _ t hg hnd
  have hf : Frame K P0 e w s := ⟨hi, hothers, hself⟩
  have hb := hf.bound (.eb kid) t hg
  cases t <;> simp only [GoodM] at hg
  next e' m sg fb k =>
    simp only [effsOf, List.nodup_cons] at hnd
    by_cases he : e' = e
    · -- the boundary's own effect
      subst he
      have hk : GoodM (EM K s) (ShowMemo K s) kid k := by
        refine GoodM.map kid k hg.2.2 (fun y x cur hy hp => ?_) (fun _ _ hq' => ?_)
        · exact hothers y x cur (fun hh => hnd.1 (hh ▸ hy)) hp
        · exact ‹∀ m c, Q0 m c → ShowMemo K s m c› _ _ hq'
      simp only [rerunIn, if_true]
      have hnd' : (effsOf (RState.errb e' m sg fb k)).Nodup := by
        simp only [effsOf, List.nodup_cons]; exact hnd
      have hw0 : ∀ (b : Bool), (w != 0) = b → (b = false ↔ (w == 0) = true) := by
        intro b hb; cases b <;> simp_all
      cases fb with
      | some n =>
        cases hv : (w != 0) with
        | true =>
          simp only [Bool.true_eq_false, if_true, if_false]
          refine RerunM.of_calm (Calm.refl hi) ?_ rfl hnd' hb
          simp only [GoodM]
          refine ⟨hg.1, hself _ _ hg.2.1 _ ?_, hk⟩
          have := hw0 true hv; simp_all
        | false =>
          simp only [Bool.false_eq_true, if_false]
          refine RerunM.of_calm (Calm.refl hi) ?_ rfl hnd' hb
          simp only [GoodM]
          refine ⟨hg.1, hself _ _ hg.2.1 _ ?_, hk⟩
          have := hw0 false hv; simp_all
      | none =>
        cases hv : (w != 0) with
        | true =>
          simp only [if_true]
          refine RerunM.of_calm (Calm.refl hi) ?_ rfl hnd' hb
          simp only [GoodM]
          refine ⟨hg.1, hself _ _ hg.2.1 _ ?_, hk⟩
          have := hw0 true hv; simp_all
        | false =>
          simp only [Bool.false_eq_true, if_false]
          have hc := Calm.alloc hi
          refine RerunM.of_calm hc ?_ rfl hnd' hb
          simp only [GoodM]
          refine ⟨hg.1, (hself _ _ hg.2.1 _ ?_).calm hc, GoodM.calm hc kid k hk⟩
          have := hw0 false hv; simp_all
    · -- an effect of the children, under the boundary's hook
      have h0 : Calm K s { s with hook := some sg } := Calm.of_eq hi rfl rfl rfl rfl rfl rfl rfl
      have hr := rerunIn_leafR (Q0 := Q0) kid k { s with hook := some sg } (hf.calm h0) hg.2.2 hl
      simp only [rerunIn, if_neg he, underHook]
      generalize hrr : rerunIn e w k { s with hook := some sg } = r at hr
      obtain ⟨k', s1, d⟩ := r
      simp only at hr ⊢
      have hz1 : s1.zombies = s.zombies := hr.1.zombies
      have hwz : wrapFrom s.zombies.length (some sg) s1.zombies = s1.zombies := by
        rw [hz1]; exact wrapFrom_length _ _
      rw [hwz]
      have h2 : Calm K s1 { s1 with hook := s.hook, zombies := s1.zombies } :=
        Calm.of_eq hr.1.rm rfl rfl rfl rfl rfl rfl rfl
      have hc := (h0.trans hr.1).trans h2
      refine RerunM.of_calm hc ?_ (by simp only [effsOf, hr.2.2]) (by simp only [effsOf, List.nodup_cons]; exact hnd) hb
      simp only [GoodM]
      exact ⟨hg.1, ((hothers _ _ _ he hg.2.1).calm hc), GoodM.calm h2 kid k' hr.2.1⟩

/-! ## building -/

/-- expressions read definitions `< k` only, tracked, without writes (`View.wf` with `Result` leaves) -/
def View.wfR (k : Nat) : View → Bool
  | .text _ => true
  | .unit => true
  | .elem _ attrs kid => attrs.all (Attr.exprOk k) && nodupKeys (attrs.map Attr.key) && kid.wfR k
  | .seq a b => a.wfR k && b.wfR k
  | .dynText x => sigOnly k x
  | .res c x => sigOnly k c && sigOnly k x
  | _ => false

theorem sigOnly_mono {k k' : Nat} (h : k ≤ k') {x : Expr} (hs : sigOnly k x = true) : sigOnly k' x = true := by
  simp only [sigOnly, Bool.and_eq_true] at hs ⊢
  exact ⟨⟨readsBelow_mono h x hs.1.1, hs.1.2⟩, hs.2⟩

theorem sigOnly_resBody {k : Nat} {c x : Expr} (hc : sigOnly k c = true) (hx : sigOnly k x = true) :
    sigOnly k (resBody c x) = true := by
  simp only [sigOnly, Bool.and_eq_true] at hc hx ⊢
  simp [resBody, Expr.readsBelow, Expr.noWrite, Expr.noUntracked, hc.1.1, hc.1.2, hc.2, hx.1.1, hx.1.2, hx.2]

/-- the state after the leaf's effect ran and registered itself if it is `Err` -/
def resAfter (st : St) (c x : Expr) : St :=
  if (decodeRes (newEff st (st.res (resBody c x))).2.1).isNone then
    bumpTo (newEff st (st.res (resBody c x))).2.2.alloc.2 (newEff st (st.res (resBody c x))).2.2.alloc.2.hook 1
  else (newEff st (st.res (resBody c x))).2.2.alloc.2

theorem build_res (c x : Expr) (st : St) :
    build (.res c x) st =
      (.res (newEff st (st.res (resBody c x))).1 c x (newEff st (st.res (resBody c x))).2.2.alloc.1
          (decodeRes (newEff st (st.res (resBody c x))).2.1) (resAfter st c x).hook,
       (resAfter st c x).spawn (newEff st (st.res (resBody c x))).1) := rfl

theorem Calm.same {K : Nat} {s s' : St} (h : Calm K s s') : Same s s' :=
  ⟨h.zombies, h.root, h.rootN, h.disposed⟩

/-- **`build` of static structure with dynamic and `Result` leaves** -/
theorem build_specR {K : Nat} : ∀ (v : View) (st : St), RM K st → v.wfR K = true → v.leavesR = true →
    BuiltM K st v (build v st).1 (build v st).2 := by
  intro v
  induction v with
  | text str => intro st hi _ _; exact build_specM (.text str) st hi rfl rfl
  | unit => intro st hi _ _; exact build_specM .unit st hi rfl rfl
  | elem tag attrs kid ih =>
    intro st hi hw hl
    simp only [View.wfR, Bool.and_eq_true] at hw
    simp only [View.leavesR] at hl
    have h1 := buildAttrs_specM attrs st.alloc.2 (allocM hi) hw.1.1
    have h2 := ih (buildAttrs attrs st.alloc.2).2.1 h1.rm hw.2 hl
    rw [build_elem]
    dsimp only
    refine ⟨h2.rm, ((alloc_extM st).trans h1.ext).trans h2.ext,
      ⟨rfl, h1.good.extM h2.ext (fun _ _ hf => hf), h2.good⟩, ?_, ?_,
      ((alloc_same st).trans h1.same).trans h2.same⟩
    · intro e he
      simp only [effsOf, List.mem_append] at he
      rcases he with he | he
      · have := h1.fresh e he; have := h2.ext.len_le
        have : st.alloc.2.prog.length = st.prog.length := rfl
        omega
      · have := h2.fresh e he; have := h1.ext.len_le
        have : st.alloc.2.prog.length = st.prog.length := rfl
        omega
    · simp only [effsOf]
      refine List.nodup_append.2 ⟨h1.nodup, h2.nodup, ?_⟩
      intro x hx y hy hxy
      have := h1.fresh x hx; have := h2.fresh y hy; omega
  | seq a b iha ihb =>
    intro st hi hw hl
    simp only [View.wfR, Bool.and_eq_true] at hw
    simp only [View.leavesR, Bool.and_eq_true] at hl
    have h1 := iha st hi hw.1 hl.1
    have h2 := ihb (build a st).2 h1.rm hw.2 hl.2
    rw [build_seq]
    dsimp only
    refine ⟨h2.rm, h1.ext.trans h2.ext, ⟨GoodM.extM h2.ext _ _ h1.good (fun _ _ hf => hf), h2.good⟩,
      ?_, ?_, h1.same.trans h2.same⟩
    · intro e he
      simp only [effsOf, List.mem_append] at he
      rcases he with he | he
      · have := h1.fresh e he; have := h2.ext.len_le; omega
      · have := h2.fresh e he; have := h1.ext.len_le; omega
    · simp only [effsOf]
      refine List.nodup_append.2 ⟨h1.nodup, h2.nodup, ?_⟩
      intro x hx y hy hxy
      have := h1.fresh x hx; have := h2.fresh y hy; omega
  | dynText x =>
    intro st hi hw _
    have hs : sigOnly K x = true := hw
    refine build_specM (.dynText x) st hi ?_ rfl
    simpa [View.wf, sigOnly, Bool.and_assoc] using hs
  | res c x =>
    intro st hi hw _
    simp only [View.wfR, Bool.and_eq_true] at hw
    have hs := sigOnly_resBody hw.1 hw.2
    have hn := newEffM_spec hi hs
    rw [build_res]
    unfold resAfter
    rw [st.res_eq (sigOnly_nu hs)]
    generalize hnn : newEff st (resBody c x) = r at hn
    obtain ⟨e, v, s1⟩ := r
    simp only at hn ⊢
    have ha : Calm K s1 s1.alloc.2 := Calm.alloc hn.rm
    have hb : Calm K s1.alloc.2 (if (decodeRes v).isNone then bumpTo s1.alloc.2 s1.alloc.2.hook 1 else s1.alloc.2) := by
      split
      · exact Calm.bumpTo ha.rm _ _
      · exact Calm.refl ha.rm
    generalize (if (decodeRes v).isNone then bumpTo s1.alloc.2 s1.alloc.2.hook 1 else s1.alloc.2) = s2 at hb
    have hc := ha.trans hb
    have hx2 : ExtM K (fun _ => False) s1 (s2.spawn e) := hc.ext.trans (spawn_extM _ _)
    refine ⟨spawnM hc.rm _, hn.ext.trans hx2,
      ⟨rfl, rfl, hn.em hi.kle (sigOnly_nw hs) hx2 (by simp [St.spawn]) rfl⟩, ?_, by simp [effsOf],
      (Same.mk hn.zombies hn.root hn.rootN hn.disposed).trans (hc.same.trans (spawn_same _ _))⟩
    intro y hy
    simp only [effsOf, List.mem_singleton] at hy
    rw [hy, hn.he]
    show _ ∧ _ < s2.prog.length
    rw [hc.prog, hn.prog]; simp
  | either c a b _ _ => intro st _ _ hl; simp [View.leavesR] at hl
  | «show» c a b _ _ => intro st _ _ hl; simp [View.leavesR] at hl
  | forKeyed sel lists => intro st _ _ hl; simp [View.leavesR] at hl
  | scope sid d kid _ => intro st _ _ hl; simp [View.leavesR] at hl
  | forRows en sel lists row _ => intro st _ _ hl; simp [View.leavesR] at hl
  | eb kid _ => intro st _ _ hl; simp [View.leavesR] at hl

theorem build_tasksR : ∀ (v : View) (st : St), v.leavesR = true → ∀ e, e ∈ (build v st).2.tasks →
    e ∈ st.tasks ∨ e ∈ effsOf (build v st).1 := by
  intro v
  induction v with
  | text str => intro st _ e h; exact build_tasksM (.text str) st rfl e h
  | unit => intro st _ e h; exact build_tasksM .unit st rfl e h
  | elem tag attrs kid ih =>
    intro st hl e h
    simp only [View.leavesR] at hl
    rw [build_elem] at h ⊢
    dsimp only at h ⊢
    rcases ih _ hl e h with h1 | h1
    · rcases buildAttrs_tasks attrs _ e h1 with h2 | h2
      · exact Or.inl h2
      · exact Or.inr (by simp [effsOf, h2])
    · exact Or.inr (by simp [effsOf, h1])
  | seq a b iha ihb =>
    intro st hl e h
    simp only [View.leavesR, Bool.and_eq_true] at hl
    rw [build_seq] at h ⊢
    dsimp only at h ⊢
    rcases ihb _ hl.2 e h with h1 | h1
    · rcases iha st hl.1 e h1 with h2 | h2
      · exact Or.inl h2
      · exact Or.inr (by simp [effsOf, h2])
    · exact Or.inr (by simp [effsOf, h1])
  | dynText x => intro st _ e h; exact build_tasksM (.dynText x) st rfl e h
  | res c x =>
    intro st _ e h
    rw [build_res] at h ⊢
    simp only [St.spawn, List.mem_append, List.mem_singleton] at h
    rcases h with h | h
    · left
      have : ∀ (s : St) (hk : Option Nat) (d : Int), (bumpTo s hk d).tasks = s.tasks := by
        intro s hk d; cases hk <;> rfl
      unfold resAfter at h
      split at h
      · rw [this] at h; exact h
      · exact h
    · exact Or.inr (by simp [effsOf, h])
  | either c a b _ _ => intro st hl; simp [View.leavesR] at hl
  | «show» c a b _ _ => intro st hl; simp [View.leavesR] at hl
  | forKeyed sel lists => intro st hl; simp [View.leavesR] at hl
  | scope sid d kid _ => intro st hl; simp [View.leavesR] at hl
  | forRows en sel lists row _ => intro st hl; simp [View.leavesR] at hl
  | eb kid _ => intro st hl; simp [View.leavesR] at hl

/-! ## the start state of a program whose view is a boundary -/

/-- the program's definitions with the boundary's register and memo behind them -/
def ebDefs (defs : Prog) : Prog :=
  defs ++ [.sig 0] ++ [.memo (.ite (.rd true defs.length) (.lit 0) (.lit 1))]

theorem defsOk_eb {defs : Prog} (h : defsOk defs = true) : defsOk (ebDefs defs) = true := by
  simp only [defsOk, Bool.and_eq_true] at h
  have h1 : WF (defs ++ [.sig 0]) = true := WF_push h.1 _ rfl
  have h2 : WF (ebDefs defs) = true := by
    refine WF_push h1 _ ?_
    simp only [wfNode, Expr.readsBelow, Expr.noWrite, Expr.readsData, List.length_append, List.length_singleton,
      Bool.and_eq_true, decide_eq_true_eq, Bool.and_true]
    refine ⟨Nat.lt_succ_self _, ?_⟩
    rw [List.append_assoc, List.getElem?_append_right (Nat.le_refl _)]
    simp
  simp only [defsOk, Bool.and_eq_true]
  exact ⟨h2, by simp [ebDefs, List.all_append, h.2, Expr.noUntracked]⟩

theorem initDefs_append (defs : Prog) (d : NodeDef) : initDefs (defs ++ [d]) = ((initDefs defs).addDef d).2 := by
  simp only [initDefs, List.foldl_append, List.foldl_cons, List.foldl_nil]

theorem initDefs_prog (defs : Prog) : (initDefs defs).prog = defs := by
  have := (initDefs_fold defs {}).1; unfold initDefs; rw [this]; simp

/-- the state in which the boundary's children are built -/
theorem ebOpen_initDefs (defs : Prog) :
    ebOpen (initDefs defs).alloc.2 = { (initDefs (ebDefs defs)).alloc.2 with hook := some defs.length } := by
  unfold ebDefs
  rw [initDefs_append, initDefs_append]
  simp only [ebOpen, St.alloc, St.addDef, initDefs_prog]

theorem exprOk_mono {k k' : Nat} (h : k ≤ k') : ∀ (a : Attr), a.exprOk k = true → a.exprOk k' = true
  | .stat _ _, _ => rfl
  | .dyn _ x, ha => by
    simp only [Attr.exprOk, Bool.and_eq_true] at ha ⊢; exact ⟨⟨readsBelow_mono h x ha.1.1, ha.1.2⟩, ha.2⟩
  | .cls _ x, ha => by
    simp only [Attr.exprOk, Bool.and_eq_true] at ha ⊢; exact ⟨⟨readsBelow_mono h x ha.1.1, ha.1.2⟩, ha.2⟩
  | .sty _ x, ha => by
    simp only [Attr.exprOk, Bool.and_eq_true] at ha ⊢; exact ⟨⟨readsBelow_mono h x ha.1.1, ha.1.2⟩, ha.2⟩

theorem wfR_mono {k k' : Nat} (h : k ≤ k') : ∀ (v : View), v.wfR k = true → v.wfR k' = true
  | .text _, _ => rfl
  | .unit, _ => rfl
  | .elem _ attrs kid, hw => by
    simp only [View.wfR, Bool.and_eq_true, List.all_eq_true] at hw ⊢
    exact ⟨⟨fun a ha => exprOk_mono h a (hw.1.1 a ha), hw.1.2⟩, wfR_mono h kid hw.2⟩
  | .seq a b, hw => by
    simp only [View.wfR, Bool.and_eq_true] at hw ⊢
    exact ⟨wfR_mono h a hw.1, wfR_mono h b hw.2⟩
  | .dynText x, hw => sigOnly_mono h hw
  | .res c x, hw => by
    simp only [View.wfR, Bool.and_eq_true] at hw ⊢
    exact ⟨sigOnly_mono h hw.1, sigOnly_mono h hw.2⟩
  | .either _ _ _, hw => by simp [View.wfR] at hw
  | .show _ _ _, hw => by simp [View.wfR] at hw
  | .forKeyed _ _, hw => by simp [View.wfR] at hw
  | .scope _ _ _, hw => by simp [View.wfR] at hw
  | .forRows _ _ _ _, hw => by simp [View.wfR] at hw
  | .eb _, hw => by simp [View.wfR] at hw

/-- **the mounted boundary satisfies the invariant** (over the program's definitions + the register + its memo) -/
theorem InvDM.startE {defs : Prog} {kid : View} (hd : defsOk defs = true) (hw : kid.wfR defs.length = true)
    (hl : kid.leavesR = true) :
    InvDM (defs.length + 2) (.eb kid) (RView.start { defs := defs, view := .eb kid }) := by
  have hK : (ebDefs defs).length = defs.length + 2 := by simp [ebDefs]
  have hi0 : RM (defs.length + 2) (initDefs (ebDefs defs)) := by
    have := initDefsM (defsOk_eb hd); rw [hK] at this; exact this
  have hf := initDefs_fold (ebDefs defs) {}
  have htasks : (initDefs (ebDefs defs)).tasks = [] := by unfold initDefs; rw [hf.2.2.1]
  have hzomb : (initDefs (ebDefs defs)).zombies = [] := by unfold initDefs; rw [hf.2.2.2.1]
  have hf0 := initDefs_fold defs {}
  have hdisp : (initDefs defs).disposed = false := by unfold initDefs; rw [hf0.2.2.2.2.2]
  have hhook : (initDefs defs).hook = none := by
    have : ∀ (l : Prog) (st : St), (l.foldl (fun st d => (st.addDef d).2) st).hook = st.hook := by
      intro l; induction l with
      | nil => intro st; rfl
      | cons d l ih => intro st; simp only [List.foldl_cons]; rw [ih]; rfl
    unfold initDefs; rw [this]
  -- the state the children are built in
  generalize hS1 : ({ (initDefs (ebDefs defs)).alloc.2 with hook := some defs.length } : St) = S1
  have hi1 : RM (defs.length + 2) S1 := by rw [← hS1]; exact hi0.of_rs_prog rfl rfl
  have hS1t : S1.tasks = [] := by rw [← hS1]; exact htasks
  have hS1z : S1.zombies = [] := by rw [← hS1]; exact hzomb
  have hb := build_specR kid S1 hi1 (wfR_mono (by omega) kid hw) hl
  have hbt := build_tasksR kid S1 hl
  generalize hbk : build kid S1 = bk at hb hbt
  obtain ⟨tk, S2⟩ := bk
  simp only at hb hbt
  -- the boundary's own effect
  have hs : sigOnly (defs.length + 2) (.rd true (defs.length + 1)) = true := by
    simp [sigOnly, Expr.readsBelow, Expr.noWrite, Expr.noUntracked]
  have hn := newEffM_spec hb.rm hs
  generalize hne : newEff S2 (.rd true (defs.length + 1)) = ne at hn
  obtain ⟨e, v, S3⟩ := ne
  simp only at hn
  -- unfold the start state
  have hstart : RView.start { defs := defs, view := .eb kid } =
      { (ebClose (initDefs defs).alloc.2.hook (initDefs defs).alloc.2.prog.length
            (build kid (ebOpen (initDefs defs).alloc.2)).1 (build kid (ebOpen (initDefs defs).alloc.2)).2).2 with
          root := some (ebClose (initDefs defs).alloc.2.hook (initDefs defs).alloc.2.prog.length
            (build kid (ebOpen (initDefs defs).alloc.2)).1 (build kid (ebOpen (initDefs defs).alloc.2)).2).1,
          rootN := ⟨(initDefs defs).next, (ebClose (initDefs defs).alloc.2.hook (initDefs defs).alloc.2.prog.length
            (build kid (ebOpen (initDefs defs).alloc.2)).1 (build kid (ebOpen (initDefs defs).alloc.2)).2).1.tops⟩,
          mounted := true } := rfl
  rw [hstart, ebOpen_initDefs, hS1, hbk]
  have hp0 : (initDefs defs).alloc.2.prog.length = defs.length := by
    show (initDefs defs).prog.length = _; rw [initDefs_prog]
  have hh0 : (initDefs defs).alloc.2.hook = none := hhook
  rw [hp0, hh0]
  simp only [ebClose, hne]
  generalize hS4 : (if v != 0 then S3 else S3.alloc.2) = S4
  have hc34 : Calm (defs.length + 2) S3 S4 := by
    rw [← hS4]; split
    · exact Calm.refl hn.rm
    · exact Calm.alloc hn.rm
  have hx3 : ExtM (defs.length + 2) (fun _ => False) S3 (S4.spawn e) := hc34.ext.trans (spawn_extM _ _)
  generalize hfb : (if v != 0 then none else some S3.alloc.1 : Option N) = fb
  have hfbv : fb.isSome = (v == 0) := by
    rw [← hfb]; by_cases hv : v = 0 <;> simp [hv]
  have hem : EM (defs.length + 2) (S4.spawn e) e (.rd true (defs.length + 1)) (fun u => fb.isSome = (u == 0)) :=
    hn.em hb.rm.kle rfl hx3 (by simp [St.spawn]) hfbv
  have hgk : GoodM (EM (defs.length + 2) (S4.spawn e)) (ShowMemo (defs.length + 2) (S4.spawn e)) kid tk :=
    GoodM.extM (hn.ext.trans hx3) kid tk hb.good (fun _ _ hf => hf)
  have hefresh : ∀ y ∈ effsOf tk, y ≠ e := by
    intro y hy hye
    have := (hb.fresh y hy).2
    rw [hye, hn.he] at this; omega
  have hz4 : (S4.spawn e).zombies = [] := by
    show S4.zombies = []
    rw [hc34.zombies, hn.zombies, hb.same.zombies]; exact hS1z
  refine Or.inr ⟨?_, ?_⟩
  · show S4.disposed = false
    rw [hc34.disposed, hn.disposed, hb.same.disposed, ← hS1]
    show (initDefs (ebDefs defs)).disposed = false
    unfold initDefs; rw [hf.2.2.2.2.2]
  · refine ⟨(spawnM hc34.rm e).of_rs_prog rfl rfl, ⟨_, rfl, ?_, ?_, ?_⟩, ?_, ?_, ?_⟩
    · refine GoodM.congr _ _ (?_ : GoodM (EM (defs.length + 2) (S4.spawn e)) (ShowMemo (defs.length + 2) (S4.spawn e))
        (.eb kid) (.errb e (defs.length + 1) defs.length fb tk)) rfl rfl rfl
      simp only [GoodM]
      exact ⟨trivial, hem, hgk⟩
    · intro y
      show (effsOf (RState.errb e (defs.length + 1) defs.length fb tk)).count y + (zEffs (S4.spawn e).zombies).count y ≤ 1
      rw [hz4]
      have hnd : (effsOf (RState.errb e (defs.length + 1) defs.length fb tk)).Nodup := by
        simp only [effsOf, List.nodup_cons]
        exact ⟨fun hm => hefresh e hm rfl, hb.nodup⟩
      have := List.nodup_iff_count.1 hnd y
      simp [zEffs]; exact this
    · intro y hy
      have hy' : y ∈ S4.tasks ++ [e] := hy
      rw [hc34.tasks, hn.tasks] at hy'
      rcases List.mem_append.1 hy' with h1 | h1
      · rcases hbt y h1 with h2 | h2
        · rw [hS1t] at h2; simp at h2
        · exact Or.inr (Or.inl (by simp [effsOf, h2]))
      · simp only [List.mem_singleton] at h1
        exact Or.inr (Or.inl (by simp [effsOf, h1]))
    · intro z hz'
      have : z ∈ (S4.spawn e).zombies := hz'
      rw [hz4] at this; simp at this
    · intro z hz'
      have : z ∈ (S4.spawn e).zombies := hz'
      rw [hz4] at this; simp at this
    · intro z hz'
      have : z ∈ (S4.spawn e).zombies := hz'
      rw [hz4] at this; simp at this

end Leptos.RView
