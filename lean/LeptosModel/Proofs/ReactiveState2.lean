import LeptosModel.Proofs.ReactiveConv
/-!
# Proofs/ReactiveState2 — state-level lemmas for clients that create and dispose effects
dynamically (C04).

`TopC p s D` (`Proofs/ReactiveConv.lean`): `s` is quiescent (`Quiet`: data invariant `InvR`, nobody
running, hence `obs = none`), the effect invariant `InvC p s none D` holds (every effect outside `D`
satisfies `EffB` and `EffC`; every member of `D` is a dead effect: `alive = false`), and the recorded
sources are statically read (`SrcStatic`).  `D` is the set of disposed effects.
Everything here is for programs whose bodies use tracked reads only (`EffOK`, `MemoTracked` where
values are concerned).
-/
namespace Leptos.Reactive

variable {D : Nat → Prop}

/-- an effect outside `D` is alive; an effect that is not alive is in `D` (classically) -/
theorem TopC.alive_of_not_dead {p : Prog} {s : State} (h : TopC p s D) {e : Nat}
    (hk : (s.get e).kind = .eff) (hD : ¬ D e) : (s.get e).alive = true :=
  (h.conv.base e hk (h.quiet.idle e) hD).live.1

theorem TopC.not_dead_of_alive {p : Prog} {s : State} (h : TopC p s D) {e : Nat}
    (ha : (s.get e).alive = true) : ¬ D e := fun hd => by
  rw [(h.conv.dead e hd).2] at ha; cases ha

/-! ## writes and reads -/

theorem TopC.set {p : Prog} {s : State} (h : TopC p s D) {x : Nat} {v0 : Int}
    (hx : p[x]? = some (.sig v0)) (v : Int) : TopC p (setSignal (fuelFor p) s x v) D := by
  have hq := h.quiet
  have hf : s.nodes.length ≤ fuelFor p := by rw [hq.inv.len]; simp [fuelFor]
  obtain ⟨hi, sp⟩ := setSignal_inv hq.inv hx v hf
  exact ⟨⟨hi, fun i => (sp.running i).trans (hq.idle i)⟩, h.conv.of_set hq.inv hx v hf sp,
    h.ss.mono (fun w y hy => by rw [setSignal_sources] at hy; exact hy)⟩

theorem TopC.read {p : Prog} (hp : MemoOK p) {s : State} (h : TopC p s D) (m : Nat) :
    TopC p (readNode (upd p (fuelFor p)) s m).1 D := by
  have hq := h.quiet
  have htrack : track s m = s := by unfold track; rw [hq.obs]
  unfold readNode
  rw [htrack]
  simp only
  cases hk : (s.get m).kind with
  | eff => exact h
  | sig => exact h
  | memo =>
    simp only
    have hm : m < p.length := hq.inv.memo_lt hk
    have post := upd_ok hp (fuelFor p) s m hq.inv (by simp only [fuelFor]; omega) (hq.idle m)
      (fun r hr => by rw [hq.idle r] at hr; cases hr)
    exact ⟨⟨post.inv, fun i => (post.running i).trans (hq.idle i)⟩,
      h.conv.of_upd post (fun o ho' => by rw [hq.obs] at ho'; cases ho'), post.ss h.ss⟩

/-- the value returned by a read of a signal or memo is the from-scratch value -/
theorem TopC.read_val {p : Prog} (hwf : WF p = true) (hp : MemoOK p) (htr : MemoTracked p) {s : State}
    (h : TopC p s D) (m : Nat) (hm : m < p.length) (hk : (s.get m).kind ≠ .eff) :
    (readNode (upd p (fuelFor p)) s m).2 = specVal p s m :=
  (read_specE hwf hp h.quiet m).2 htr hm hk

/-! ## one iteration of the effect task, piece by piece -/

/-- `runEffBody` is the run part of the task loop once `first` has been cleared -/
theorem runEffBody_eq_effRun (p : Prog) (f : Nat) (s : State) (e : Nat)
    (hf : (s.get e).first = false) : runEffBody p f s e = effRun p f s e s.obs := by
  have e1 : (s.upd e fun n => { n with first := false }) = s := by
    apply State.upd_eq_self
    have : s.get e = { s.get e with first := (s.get e).first } := rfl
    rw [hf] at this; exact this.symm
  unfold runEffBody effRun
  simp only [e1]

/-- the state right after the channel flag of the polled effect `e` has been consumed
(exactly the hypotheses of `effUpdate_specC`) -/
structure BusyState (p : Prog) (D : Nat → Prop) (s1 : State) (e : Nat) : Prop where
  quiet : Quiet p s1
  conv : InvC p s1 (some e) D
  kind : (s1.get e).kind = .eff
  vals : NoFB p e → (s1.get e).dirty = false → ∀ z ∈ (s1.get e).seen,
    (s1.get z.1).running = true ∨ (s1.get z.1).val = some z.2.1
  chan : (s1.get e).chan = false
  ss : SrcStatic p s1
  notDead : ¬ D e
  valOK : ValOK p s1 e

/-- consuming the notification: `chan := false` -/
theorem TopC.consume {p : Prog} {s : State} (h : TopC p s D) {e : Nat} (hk : (s.get e).kind = .eff)
    (hD : ¬ D e) : BusyState p D (s.upd e fun n => { n with chan := false }) e := by
  have hq := h.quiet
  have he : e < s.nodes.length := s.lt_of_kind_ne (by rw [hk]; simp)
  have e0 := h.conv.eff e hk (hq.idle e) hD (by simp)
  obtain ⟨q1, hk1⟩ := hq.flagEff hk (fun n => { n with chan := false })
    (fun _ => ⟨rfl, rfl, rfl, rfl, rfl, rfl⟩)
  obtain ⟨c1, _⟩ := (h.conv.weaken (some e)).flagBusy hq.inv hk (hq.idle e)
    (fun n => { n with chan := false }) (fun _ => rfl) hD
  have g1e : (s.upd e fun n => { n with chan := false }).get e = { s.get e with chan := false } :=
    State.get_upd_same _ _ he
  have g1f : ∀ y, ((s.upd e fun n => { n with chan := false }).get y).running = (s.get y).running ∧
      ((s.upd e fun n => { n with chan := false }).get y).val = (s.get y).val := by
    intro y; rw [State.get_upd]; split <;> exact ⟨rfl, rfl⟩
  refine ⟨q1, c1, hk1, ?_, by rw [g1e], h.ss.updFlag e _ (fun _ => rfl), hD,
    e0.valOK.of_core (by rw [g1e]; rfl)⟩
  intro hro hd z hz
  rw [g1e] at hd hz
  rw [(g1f z.1).1, (g1f z.1).2]
  exact e0.vals hro hd z hz

/-- `effUpdate` (`EffectInner::update_if_necessary`) from a busy state; the observer is restored to `none` -/
theorem BusyState.effUpdate {p : Prog} (hp : MemoOK p) {s1 : State} {e : Nat} (h : BusyState p D s1 e) :
    EffUpdPostC p D ({ (effUpdate p (fuelFor p) { s1 with obs := some e } e).1 with obs := none }) e
      (effUpdate p (fuelFor p) { s1 with obs := some e } e).2 :=
  effUpdate_specC (upd_ok hp (fuelFor p)) (by simp [fuelFor]) h.quiet h.conv h.kind h.vals h.chan h.ss
    h.notDead h.valOK

/-- no run needed (`need = false`, not the first run): the iteration is over, the invariant holds again -/
theorem EffUpdPostC.noRun {p : Prog} {s3 : State} {e : Nat} {need : Bool} (h : EffUpdPostC p D s3 e need)
    (hneed : need = false) (hfirst : (s3.get e).first = false) : TopC p s3 D := by
  have rdy := h.ready hneed
  have e3 : EffC p s3 e :=
    ⟨fun hro _ => rdy.1 hro, fun _ => ⟨h.clean, hfirst⟩, h.cw, fun _ => rdy.2, h.valOK⟩
  exact ⟨h.quiet, h.conv.close (fun _ => e3), h.ss⟩

/-- the run of the body inside the task loop (`first := false; clear_sources; run; store`) -/
theorem EffUpdPostC.effRun {p : Prog} (hp : MemoOK p) (hpe : EffOK p) {s3 : State} {e : Nat} {need : Bool}
    (h : EffUpdPostC p D s3 e need) (hD : ¬ D e) :
    TopC p (effRun p (fuelFor p) s3 e none) D ∧ ((effRun p (fuelFor p) s3 e none).get e).kind = .eff :=
  effRun_specC (upd_ok hp (fuelFor p)) (by simp [fuelFor]) hpe h.quiet h.conv h.kind h.clean h.cw h.ss hD

/-- the same for `runEffBody` (when `first` is already cleared) -/
theorem EffUpdPostC.runEffBody {p : Prog} (hp : MemoOK p) (hpe : EffOK p) {s3 : State} {e : Nat}
    {need : Bool} (h : EffUpdPostC p D s3 e need) (hD : ¬ D e) (hfirst : (s3.get e).first = false) :
    TopC p (runEffBody p (fuelFor p) s3 e) D := by
  rw [runEffBody_eq_effRun p _ s3 e hfirst, h.quiet.obs]
  exact (h.effRun hp hpe hD).1

/-- the whole task loop and one poll of an alive effect -/
theorem TopC.effLoop {p : Prog} (hp : MemoOK p) (hpe : EffOK p) {s : State} (h : TopC p s D) {e : Nat}
    (hk : (s.get e).kind = .eff) (hD : ¬ D e) (k : Nat) : TopC p (effLoop p (fuelFor p) k s e) D := by
  have e0 := h.conv.eff e hk (h.quiet.idle e) hD (by simp)
  exact effLoop_specC (upd_ok hp (fuelFor p)) (by simp [fuelFor]) hpe e k s h.quiet (h.conv.weaken _) hk
    e0.toBusy (fun _ => e0.chanWoken) h.ss hD

/-! ## dead effects -/

/-- `InvC` depends on the nodes only -/
theorem InvC.of_get_eq {p : Prog} {s s' : State} {X : Option Nat} (hg : ∀ i, s'.get i = s.get i)
    (h : InvC p s X D) : InvC p s' X D := by
  refine ⟨?_, ?_, fun i hd => by rw [hg]; exact h.dead i hd⟩
  · intro i hk hr hD
    rw [hg] at hk hr
    have b := h.base i hk hr hD
    exact ⟨by rw [hg]; exact b.live, by rw [hg]; exact b.srcSeen, by rw [hg]; exact b.ran⟩
  · intro i hk hr hD hX
    rw [hg] at hk hr
    have c := h.eff i hk hr hD hX
    refine ⟨?_, by rw [hg]; exact c.quietFlags, by rw [hg]; exact c.chanWoken, ?_, c.valOK.of_eq (hg i)⟩
    · intro hro hd z hz
      rw [hg] at hd hz
      rw [hg z.1]; exact c.vals hro hd z hz
    · intro hcf y hy hky
      rw [hg] at hcf hy
      rw [hg y] at hky ⊢
      exact c.srcClean hcf y hy hky

/-- changing the node of an effect that is (or becomes) dead -/
theorem InvC.changeDead {p : Prog} {s s' : State} {D' : Nat → Prop} (hI : InvR p s)
    (h : InvC p s none D) (e : Nat) (hsame : ∀ i, i ≠ e → s'.get i = s.get i)
    (hke : (s'.get e).kind = .eff) (hke0 : (s.get e).kind = .eff) (hae : (s'.get e).alive = false)
    (hD' : ∀ i, D' i ↔ (D i ∨ i = e)) : InvC p s' none D' := by
  have hkind : ∀ y, (s'.get y).kind = (s.get y).kind := by
    intro y; by_cases hy : y = e
    · subst hy; rw [hke, hke0]
    · rw [hsame y hy]
  refine ⟨?_, ?_, ?_⟩
  · intro i hk hr hnd
    have hie : i ≠ e := fun hc => hnd ((hD' i).2 (.inr hc))
    have hDi : ¬ D i := fun hd => hnd ((hD' i).2 (.inl hd))
    have hg := hsame i hie
    rw [hg] at hk hr
    have b := h.base i hk hr hDi
    exact ⟨by rw [hg]; exact b.live, by rw [hg]; exact b.srcSeen, by rw [hg]; exact b.ran⟩
  · intro i hk hr hnd hX
    have hie : i ≠ e := fun hc => hnd ((hD' i).2 (.inr hc))
    have hDi : ¬ D i := fun hd => hnd ((hD' i).2 (.inl hd))
    have hg := hsame i hie
    rw [hg] at hk hr
    have b := h.base i hk hr hDi
    have c := h.eff i hk hr hDi hX
    have data : ∀ y, y ∈ (s.get i).sources → y ≠ e := by
      intro y hy hye
      exact hI.srcData i y hy (by rw [hye]; exact hke0)
    refine ⟨?_, by rw [hg]; exact c.quietFlags, by rw [hg]; exact c.chanWoken, ?_, c.valOK.of_eq hg⟩
    · intro hro hd z hz
      rw [hg] at hd hz
      have hz1 : z.1 ∈ (s.get i).sources := by rw [b.srcSeen]; exact List.mem_map_of_mem hz
      rw [hsame z.1 (data z.1 hz1)]
      exact c.vals hro hd z hz
    · intro hcf y hy hky
      rw [hg] at hcf hy
      rw [hkind] at hky
      rw [hsame y (data y hy)]
      exact c.srcClean hcf y hy hky
  · intro i hd
    rcases (hD' i).1 hd with h' | h'
    · by_cases hie : i = e
      · subst hie; exact ⟨hke, hae⟩
      · rw [hsame i hie]; exact h.dead i h'
    · subst h'; exact ⟨hke, hae⟩

/-- `Owner` disposal (`Op.dispose e`) of an effect: it joins the dead set -/
theorem TopC.dispose {p : Prog} {s : State} (h : TopC p s D) (e : Nat) (hk : (s.get e).kind = .eff) :
    TopC p (step p s (.dispose e)).1 (fun i => D i ∨ i = e) := by
  have he : e < s.nodes.length := s.lt_of_kind_ne (by rw [hk]; simp)
  have hstep : (step p s (.dispose e)).1 =
      if (s.get e).alive = true then
        (if !(s.get e).woken then (s.upd e fun n => { n with alive := false, woken := true }).emit (.woke e)
         else (s.upd e fun n => { n with alive := false, woken := true }))
      else s := by
    simp only [step, hk, beq_self_eq_true, Bool.true_and]
  rw [hstep]
  by_cases ha : (s.get e).alive = true
  · rw [if_pos ha]
    obtain ⟨q1, hk1⟩ := h.quiet.flagEff hk (fun n => { n with alive := false, woken := true })
      (fun _ => ⟨rfl, rfl, rfl, rfl, rfl, rfl⟩)
    have c1 : InvC p (s.upd e fun n => { n with alive := false, woken := true }) none
        (fun i => D i ∨ i = e) :=
      InvC.changeDead h.quiet.inv h.conv e (fun i hi => State.get_upd_ne _ _ (Ne.symm hi)) hk1 hk
        (by rw [State.get_upd_same _ _ he]) (fun _ => Iff.rfl)
    have ss1 := h.ss.updFlag e (fun n => { n with alive := false, woken := true }) (fun _ => rfl)
    split
    · exact ⟨q1.emit _, InvC.of_get_eq (s := s.upd e fun n => { n with alive := false, woken := true })
        (fun _ => rfl) c1, fun w x hx => ss1 w x hx⟩
    · exact ⟨q1, c1, ss1⟩
  · have ha' : (s.get e).alive = false := by simpa using ha
    rw [if_neg ha]
    exact ⟨h.quiet, InvC.changeDead h.quiet.inv h.conv e (fun _ _ => rfl) hk hk ha' (fun _ => Iff.rfl), h.ss⟩

/-- disposing something that is not an effect does nothing -/
theorem step_dispose_nonEff (p : Prog) (s : State) (e : Nat) (hk : (s.get e).kind ≠ .eff) :
    (step p s (.dispose e)).1 = s := by
  have hk' : ((s.get e).kind == .eff) = false := by
    cases hkk : (s.get e).kind <;> simp_all
  simp only [step, hk', Bool.false_and, Bool.false_eq_true, if_false]

/-- one poll of effect `e` by the executor, alive or dead -/
theorem TopC.pollEff {p : Prog} (hp : MemoOK p) (hpe : EffOK p) {s : State} (h : TopC p s D) {e : Nat}
    (hk : (s.get e).kind = .eff) : TopC p (pollEff p s e) D := by
  have he : e < s.nodes.length := s.lt_of_kind_ne (by rw [hk]; simp)
  by_cases ha : (s.get e).alive = true
  · -- alive: the task loop
    have hD := h.not_dead_of_alive ha
    have e0 := h.conv.eff e hk (h.quiet.idle e) hD (by simp)
    unfold Leptos.Reactive.pollEff
    obtain ⟨q1, hk1⟩ := h.quiet.flagEff hk (fun n => { n with woken := false })
      (fun _ => ⟨rfl, rfl, rfl, rfl, rfl, rfl⟩)
    obtain ⟨c1, b1⟩ := (h.conv.weaken (some e)).flagBusy h.quiet.inv hk (h.quiet.idle e)
      (fun n => { n with woken := false }) (fun _ => rfl) hD
    have g1e : (s.upd e fun n => { n with woken := false }).get e = { s.get e with woken := false } :=
      State.get_upd_same _ _ he
    have g1f : ∀ y, ((s.upd e fun n => { n with woken := false }).get y).running = (s.get y).running ∧
        ((s.upd e fun n => { n with woken := false }).get y).val = (s.get y).val ∧
        ((s.upd e fun n => { n with woken := false }).get y).st = (s.get y).st ∧
        ((s.upd e fun n => { n with woken := false }).get y).kind = (s.get y).kind := by
      intro y; rw [State.get_upd]; split <;> exact ⟨rfl, rfl, rfl, rfl⟩
    have hb1 : BusyC p (s.upd e fun n => { n with woken := false }) e := by
      refine ⟨?_, ?_, ?_, e0.valOK.of_core (by rw [g1e]; rfl)⟩
      · intro hro hd z hz
        rw [g1e] at hd hz
        rw [(g1f z.1).1, (g1f z.1).2.1]
        exact e0.vals hro hd z hz
      · intro hc; rw [g1e] at hc ⊢; exact e0.quietFlags hc
      · intro hc y hy hky
        rw [g1e] at hc hy
        rw [(g1f y).2.2.2] at hky
        rw [(g1f y).2.2.1]
        exact e0.srcClean hc y hy hky
    have hss1 : SrcStatic p (s.upd e fun n => { n with woken := false }) := h.ss.updFlag e _ (fun _ => rfl)
    simp only
    generalize (s.upd e fun n => { n with woken := false }) = s1 at q1 hk1 c1 b1 hb1 hss1
    split
    · next hal => rw [b1.live.1] at hal; simp at hal
    · exact effLoop_specC (upd_ok hp (fuelFor p)) (by simp [fuelFor]) hpe e 64 s1 q1 c1 hk1 hb1
        (fun h0 => by cases h0) hss1 hD
  · -- dead: the task ends
    have ha' : (s.get e).alive = false := by simpa using ha
    have hDe : D e := by
      apply Classical.byContradiction
      intro hnd
      rw [h.alive_of_not_dead hk hnd] at ha'; cases ha'
    unfold Leptos.Reactive.pollEff
    have g1e : (s.upd e fun n => { n with woken := false }).get e = { s.get e with woken := false } :=
      State.get_upd_same _ _ he
    simp only [g1e, ha', Bool.not_false, if_true]
    obtain ⟨q1, hk1⟩ := h.quiet.flagEff hk (fun n => { n with woken := false })
      (fun _ => ⟨rfl, rfl, rfl, rfl, rfl, rfl⟩)
    obtain ⟨q2, hk2⟩ := q1.flagEff hk1 (fun n => { n with done := true })
      (fun _ => ⟨rfl, rfl, rfl, rfl, rfl, rfl⟩)
    have he1 : e < (s.upd e fun n => { n with woken := false }).nodes.length := by simpa using he
    refine ⟨q2, InvC.changeDead h.quiet.inv h.conv e ?_ hk2 hk ?_ (fun i => ⟨.inl, fun h' => ?_⟩),
      (h.ss.updFlag e (fun n => { n with woken := false }) (fun _ => rfl)).updFlag e
        (fun n => { n with done := true }) (fun _ => rfl)⟩
    · intro i hi
      rw [State.get_upd_ne _ _ (Ne.symm hi), State.get_upd_ne _ _ (Ne.symm hi)]
    · rw [State.get_upd_same _ _ he1, g1e]; exact ha'
    · rcases h' with h' | h'
      · exact h'
      · subst h'; exact hDe

/-! ## what a settled effect has seen and stored -/

/-- an effect (without own feedback, e.g. read-only: `NoFB.of_noWrite`) that is not notified has seen
the current from-scratch values -/
theorem TopC.effect_seen_current {p : Prog} (hwf : WF p = true) (htr : MemoTracked p) {s : State}
    (h : TopC p s D) {e : Nat} (hk : (s.get e).kind = .eff) (hD : ¬ D e) (hnf : NoFB p e)
    (hch : (s.get e).chan = false) :
    (s.get e).runs ≠ 0 ∧ ∀ z ∈ (s.get e).seen, specVal p s z.1 = z.2.1 := by
  have hb := h.conv.base e hk (h.quiet.idle e) hD
  have hc := h.conv.eff e hk (h.quiet.idle e) hD (by simp)
  have q := hc.quietFlags hch
  refine ⟨hb.ran q.2, ?_⟩
  intro z hz
  have hsrc : z.1 ∈ (s.get e).sources := by rw [hb.srcSeen]; exact List.mem_map_of_mem hz
  have hzi : z.1 < e := h.quiet.inv.srcLt e z.1 hsrc
  have hi : e < s.nodes.length := s.lt_of_kind_ne (by rw [hk]; simp)
  have hzp : z.1 < p.length := by rw [← h.quiet.inv.len]; omega
  have hdat := h.quiet.inv.srcData e z.1 hsrc
  have hcl : (s.get z.1).st = .clean := by
    cases hkz : (s.get z.1).kind with
    | eff => exact absurd hkz hdat
    | sig => exact (h.quiet.inv.sigOk z.1 hzp hkz).1
    | memo => exact hc.srcClean hch z.1 hsrc hkz
  have hv := h.quiet.inv.clean_correct hwf htr z.1 hzp hdat hcl
  rcases hc.vals hnf q.1 z hz with h1 | h1
  · rw [h.quiet.idle z.1] at h1; cases h1
  · rw [hv] at h1; exact Option.some.inj h1

/-- … and its stored value is its body evaluated at the current from-scratch values -/
theorem TopC.effect_val {p : Prog} (hwf : WF p = true) (htr : MemoTracked p) {s : State}
    (h : TopC p s D) {e : Nat} (hk : (s.get e).kind = .eff) (hD : ¬ D e) (hnf : NoFB p e)
    (hch : (s.get e).chan = false) :
    (s.get e).val = some (evalPure (specVal p s) (bodyOf p e)) := by
  obtain ⟨hruns, hseen⟩ := h.effect_seen_current hwf htr hk hD hnf hch
  exact (h.conv.eff e hk (h.quiet.idle e) hD (by simp)).valOK hruns (specVal p s) hseen

/-! ## `RenderEffect::new` -/

theorem effRun_first_irrelevant (p : Prog) (f : Nat) (s : State) (e : Nat) (saved : Option Nat) :
    effRun p f (s.upd e fun n => { n with first := false }) e saved = effRun p f s e saved := by
  by_cases he : e < s.nodes.length
  · have e1 : ((s.upd e fun n => { n with first := false }).upd e fun n => { n with first := false }) =
        (s.upd e fun n => { n with first := false }) := by
      apply State.upd_eq_self
      rw [State.get_upd_same _ _ he]
    unfold effRun
    simp only [e1]
  · have e0 : (s.upd e fun n => { n with first := false }) = s := by
      cases s with
      | mk nodes obs log =>
        simp only [State.upd, State.mk.injEq, and_true]
        exact List.modify_eq_self (by simpa using he)
    rw [e0]

/-- creating a render effect: flags reset, the body runs synchronously -/
theorem TopC.initRenderEffect {p : Prog} (hp : MemoOK p) (hpe : EffOK p) {s : State} (h : TopC p s D)
    {e : Nat} (hk : (s.get e).kind = .eff) (hD : ¬ D e) :
    TopC p (initRenderEffect p s e) D := by
  have hq := h.quiet
  have he : e < s.nodes.length := s.lt_of_kind_ne (by rw [hk]; simp)
  -- the same state with `first` untouched
  obtain ⟨q1, hk1⟩ := hq.flagEff hk (fun n => { n with dirty := false, chan := false, woken := true })
    (fun _ => ⟨rfl, rfl, rfl, rfl, rfl, rfl⟩)
  obtain ⟨c1, _⟩ := (h.conv.weaken (some e)).flagBusy hq.inv hk (hq.idle e)
    (fun n => { n with dirty := false, chan := false, woken := true }) (fun _ => rfl) hD
  have g1e : (s.upd e fun n => { n with dirty := false, chan := false, woken := true }).get e =
      { s.get e with dirty := false, chan := false, woken := true } := State.get_upd_same _ _ he
  have ss1 := h.ss.updFlag e (fun n => { n with dirty := false, chan := false, woken := true }) (fun _ => rfl)
  have run := effRun_specC (upd_ok hp (fuelFor p)) (by simp [fuelFor]) hpe q1 c1 hk1 (by rw [g1e])
    (fun hc => by rw [g1e] at hc; cases hc) ss1 hD
  -- relate to `initRenderEffect`
  have hstate : (s.upd e fun n => { n with dirty := false, chan := false, woken := true, first := false }) =
      ((s.upd e fun n => { n with dirty := false, chan := false, woken := true }).upd e
        fun n => { n with first := false }) := by
    apply State.ext_get
    · simp
    · intro i
      rw [State.get_upd, State.get_upd, State.get_upd]
      by_cases hie : e = i
      · subst hie; simp [he]
      · simp [hie]
    · rfl
    · rfl
  have hfirst : ((s.upd e fun n => { n with dirty := false, chan := false, woken := true, first := false }).get e).first = false := by
    rw [State.get_upd_same _ _ he]
  unfold Leptos.Reactive.initRenderEffect
  simp only
  rw [runEffBody_eq_effRun p _ _ e hfirst]
  have hobs : (s.upd e fun n => { n with dirty := false, chan := false, woken := true, first := false }).obs = none := hq.obs
  rw [hobs, hstate, effRun_first_irrelevant]
  exact run.1

end Leptos.Reactive
