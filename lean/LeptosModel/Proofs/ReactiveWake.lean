import LeptosModel.Proofs.ReactiveReach
/-!
# Proofs/ReactiveWake — wake order: a signal write wakes its direct effect subscribers in
subscription order (C02)
-/
namespace Leptos.Reactive

/-- every event of `seg` is the wake-up of an effect reachable from `y` -/
def WokeSeg (s : State) (y : Nat) (seg : List Ev) : Prop :=
  ∀ ev ∈ seg, ∃ w, ev = .woke w ∧ Reach s y w ∧ (s.get w).kind = .eff

theorem WokeSeg.nil (s : State) (y : Nat) : WokeSeg s y [] := fun _ h => by cases h

theorem WokeSeg.append {s : State} {y : Nat} {a b : List Ev} (ha : WokeSeg s y a) (hb : WokeSeg s y b) :
    WokeSeg s y (a ++ b) := by
  intro ev hev
  rcases List.mem_append.1 hev with h | h
  · exact ha ev h
  · exact hb ev h

/-- transfer along a subscriber edge and between states with the same graph -/
theorem WokeSeg.lift {s0 s : State} {y x : Nat} {seg : List Ev}
    (hs : ∀ i, (s.get i).subs = (s0.get i).subs ∧ (s.get i).kind = (s0.get i).kind)
    (hx : x ∈ (s0.get y).subs) (h : WokeSeg s x seg) : WokeSeg s0 y seg := by
  intro ev hev
  obtain ⟨w, rfl, hr, hk⟩ := h ev hev
  exact ⟨w, rfl, Reach.head hx (Reach.of_subs_eq (fun i => (hs i).1) hr), by rw [← (hs w).2]; exact hk⟩

theorem notify_log (s : State) (id : Nat) :
    (notify s id).log = s.log ∨ (notify s id).log = s.log ++ [.woke id] := by
  unfold notify
  split
  · exact .inl rfl
  · simp only
    split
    · exact .inr rfl
    · exact .inl rfl

theorem foldl_wlog (g : State → Nat → State) (hrel : ∀ s x, MarkRel s (g s x))
    (hg : ∀ s x, ∃ seg, (g s x).log = s.log ++ seg ∧ WokeSeg s x seg) (s0 : State) (y : Nat) :
    ∀ (l : List Nat) (s : State),
      (∀ i, (s.get i).subs = (s0.get i).subs ∧ (s.get i).kind = (s0.get i).kind) →
      (∀ x ∈ l, x ∈ (s0.get y).subs) →
      ∃ seg, (l.foldl g s).log = s.log ++ seg ∧ WokeSeg s0 y seg
  | [], s, _, _ => ⟨[], by simp, WokeSeg.nil s0 y⟩
  | x :: l, s, hs, hl => by
    obtain ⟨seg1, hl1, hw1⟩ := hg s x
    have r1 := hrel s x
    obtain ⟨seg2, hl2, hw2⟩ := foldl_wlog g hrel hg s0 y l (g s x)
      (fun i => ⟨(r1.subs i).trans (hs i).1, (r1.kind i).trans (hs i).2⟩)
      (fun z hz => hl z (List.mem_cons_of_mem _ hz))
    refine ⟨seg1 ++ seg2, by rw [List.foldl_cons, hl2, hl1, List.append_assoc], ?_⟩
    exact (hw1.lift hs (hl x List.mem_cons_self)).append hw2

theorem markCheck_wlog : ∀ (f : Nat) (s : State) (y : Nat),
    ∃ seg, (markCheck f s y).log = s.log ++ seg ∧ WokeSeg s y seg
  | 0, s, y => ⟨[], by simp [markCheck], WokeSeg.nil s y⟩
  | f + 1, s, y => by
    unfold markCheck
    split
    · exact ⟨[], by simp, WokeSeg.nil s y⟩
    · next hk =>
      rcases notify_log s y with h | h
      · exact ⟨[], by simp [h], WokeSeg.nil s y⟩
      · refine ⟨[.woke y], h, ?_⟩
        intro ev hev
        rw [List.mem_singleton.1 hev]
        exact ⟨y, rfl, .refl, hk⟩
    · generalize hs1 : (if (s.get y).st != .dirty then s.upd y fun n => { n with st := .check } else s) = s1
      have hlog1 : s1.log = s.log := by subst hs1; split <;> rfl
      have hg1 : ∀ i, (s1.get i).subs = (s.get i).subs ∧ (s1.get i).kind = (s.get i).kind := by
        intro i; subst hs1; split
        · rw [State.get_upd]; split <;> exact ⟨rfl, rfl⟩
        · exact ⟨rfl, rfl⟩
      obtain ⟨seg, hl, hw⟩ := foldl_wlog (fun s x => markCheck f s x) (fun s x => markCheck_rel f s x)
        (fun s x => markCheck_wlog f s x) s y (s1.get y).subs s1 hg1
        (fun x hx => by rw [← (hg1 y).1]; exact hx)
      exact ⟨seg, by rw [hl, hlog1], hw⟩

/-- `markDirty a`: wake-ups of effects reachable from `a`; for an effect `a` at most its own -/
theorem markDirty_wlog (f : Nat) (s : State) (a : Nat) :
    ∃ seg, (markDirty f s a).log = s.log ++ seg ∧ WokeSeg s a seg ∧
      ((s.get a).kind = .eff → seg = [] ∨ seg = [.woke a]) := by
  unfold markDirty
  split
  · next hk => exact ⟨[], by simp, WokeSeg.nil s a, fun _ => .inl rfl⟩
  · next hk =>
    split
    · exact ⟨[], by simp, WokeSeg.nil s a, fun _ => .inl rfl⟩
    · rcases notify_log (s.upd a fun n => { n with dirty := true }) a with h | h
      · exact ⟨[], by rw [h]; simp, WokeSeg.nil s a, fun _ => .inl rfl⟩
      · refine ⟨[.woke a], by rw [h]; rfl, ?_, fun _ => .inr rfl⟩
        intro ev hev
        rw [List.mem_singleton.1 hev]
        exact ⟨a, rfl, .refl, hk⟩
  · next hk =>
    generalize hs1 : (s.upd a fun n => { n with st := .dirty }) = s1
    have hlog1 : s1.log = s.log := by subst hs1; rfl
    have hg1 : ∀ i, (s1.get i).subs = (s.get i).subs ∧ (s1.get i).kind = (s.get i).kind := by
      intro i; subst hs1
      rw [State.get_upd]; split <;> exact ⟨rfl, rfl⟩
    obtain ⟨seg, hl, hw⟩ := foldl_wlog (fun s x => markCheck f s x) (fun s x => markCheck_rel f s x)
      (fun s x => markCheck_wlog f s x) s a (s1.get a).subs s1 hg1
      (fun x hx => by rw [← (hg1 a).1]; exact hx)
    exact ⟨seg, by rw [hl, hlog1], hw, fun h => by rw [hk] at h; cases h⟩

/-! ## the wake-ups caused by one signal write -/

/-- the effects woken (for the first time since their last poll), in log order -/
def wokeIds (l : List Ev) : List Nat :=
  l.filterMap fun ev => match ev with | .woke w => some w | _ => none

theorem wokeIds_append (a b : List Ev) : wokeIds (a ++ b) = wokeIds a ++ wokeIds b := by
  simp [wokeIds, List.filterMap_append]

theorem mem_wokeIds {l : List Ev} {w : Nat} : w ∈ wokeIds l ↔ Ev.woke w ∈ l := by
  simp only [wokeIds, List.mem_filterMap]
  constructor
  · rintro ⟨ev, hev, h⟩
    cases ev <;> simp at h
    subst h; exact hev
  · intro h; exact ⟨_, h, rfl⟩

theorem Reach.first_step {s : State} {a w : Nat} (h : Reach s a w) (hne : a ≠ w) :
    ∃ w0 ∈ (s.get a).subs, Reach s w0 w := by
  induction h with
  | refl => exact absurd rfl hne
  | step hr hm ih =>
    rename_i y w'
    by_cases hy : a = y
    · subst hy; exact ⟨w', hm, .refl⟩
    · obtain ⟨w0, hw0, hr0⟩ := ih hy
      exact ⟨w0, hw0, .step hr0 hm⟩

/-- the part of one segment that concerns effects reachable only through their own subscription -/
theorem seg_filter {s : State} {l : List Nat} {a : Nat} {seg : List Ev} (d : Nat → Bool)
    (hd : ∀ w, d w = true → ∀ a' ∈ l, Reach s a' w → a' = w) (ha : a ∈ l) (hw : WokeSeg s a seg)
    (he : (s.get a).kind = .eff → seg = [] ∨ seg = [.woke a]) :
    (wokeIds seg).filter d = [] ∨ (wokeIds seg).filter d = [a] := by
  by_cases hk : (s.get a).kind = .eff
  · rcases he hk with h | h
    · subst h; exact .inl rfl
    · subst h
      simp only [wokeIds, List.filterMap_cons, List.filterMap_nil]
      by_cases hda : d a = true
      · exact .inr (by simp [hda])
      · exact .inl (by simp [hda])
  · left
    rw [List.filter_eq_nil_iff]
    intro w hwm hdw
    obtain ⟨w', hev, hr, hkw⟩ := hw _ (mem_wokeIds.1 hwm)
    cases hev
    have := hd w hdw a ha hr
    subst this
    exact hk hkw

theorem foldl_markDirty_wake (f : Nat) (s0 : State) (d : Nat → Bool) (l : List Nat)
    (hd : ∀ w, d w = true → ∀ a' ∈ l, Reach s0 a' w → a' = w) :
    ∀ (l' : List Nat) (s : State),
      (∀ i, (s.get i).subs = (s0.get i).subs ∧ (s.get i).kind = (s0.get i).kind) →
      (∀ a ∈ l', a ∈ l) →
      ∃ suf, (l'.foldl (fun s x => markDirty f s x) s).log = s.log ++ suf ∧
        List.Sublist ((wokeIds suf).filter d) l'
  | [], s, _, _ => ⟨[], by simp, by simp [wokeIds]⟩
  | a :: l', s, hs, hl => by
    obtain ⟨seg, hlog, hw, he⟩ := markDirty_wlog f s a
    have r1 := markDirty_rel f s a
    obtain ⟨suf, hlog2, hsub⟩ := foldl_markDirty_wake f s0 d l hd l' (markDirty f s a)
      (fun i => ⟨(r1.subs i).trans (hs i).1, (r1.kind i).trans (hs i).2⟩)
      (fun z hz => hl z (List.mem_cons_of_mem _ hz))
    refine ⟨seg ++ suf, by rw [List.foldl_cons, hlog2, hlog, List.append_assoc], ?_⟩
    rw [wokeIds_append, List.filter_append]
    -- the segment of `a`, seen in the original graph
    have hw0 : WokeSeg s0 a seg := by
      intro ev hev
      obtain ⟨w, rfl, hr, hk⟩ := hw ev hev
      exact ⟨w, rfl, Reach.of_subs_eq (fun i => (hs i).1) hr, by rw [← (hs w).2]; exact hk⟩
    have he0 : (s0.get a).kind = .eff → seg = [] ∨ seg = [.woke a] := fun h => he (by rw [(hs a).2]; exact h)
    rcases seg_filter d hd (hl a List.mem_cons_self) hw0 he0 with h | h
    · rw [h]; exact List.Sublist.cons _ hsub
    · rw [h]; exact List.Sublist.cons_cons _ hsub

/-- **wake order of one write** (any state satisfying the data invariant): the effects woken by
`setSignal x`, restricted by any filter `d` that keeps only effects reachable from the subscribers of `x`
through their own subscription, appear in the subscription order of `x` -/
theorem setSignal_wake {p : Prog} {s : State} (_h : InvR p s) (f : Nat) (x : Nat) (v : Int) (d : Nat → Bool)
    (hd : ∀ w, d w = true → ∀ a' ∈ (s.get x).subs, Reach s a' w → a' = w) :
    ∃ suf, (setSignal f s x v).log = s.log ++ suf ∧
      List.Sublist ((wokeIds suf).filter d) (s.get x).subs := by
  unfold setSignal sigNotify
  have pre := setSignal_pre s x v
  simp only at pre
  generalize hs1 : ((s.upd x fun n => { n with val := some v, ver := n.ver + 1 }).emit (.set x)) = s1 at pre
  have hlog1 : s1.log = s.log ++ [.set x] := by subst hs1; rfl
  obtain ⟨suf, hlog, hsub⟩ := foldl_markDirty_wake f s d (s.get x).subs hd (s1.get x).subs s1
    (fun i => ⟨(pre i).2.2.1, (pre i).1⟩) (fun a ha => by rw [← (pre x).2.2.1]; exact ha)
  refine ⟨.set x :: suf, by rw [hlog, hlog1]; simp, ?_⟩
  rw [(pre x).2.2.1] at hsub
  simpa [wokeIds] using hsub

/-- the decidable filter: `w` is not a transitive (tracked) dependent of any OTHER subscriber of `x` -/
def directOnly (s : State) (x w : Nat) : Bool :=
  (s.get x).subs.all fun a => a == w || !(trackedDep s s.nodes.length w a)

theorem directOnly_spec {p : Prog} {s : State} (h : InvR p s) (x w : Nat) (hd : directOnly s x w = true) :
    ∀ a' ∈ (s.get x).subs, Reach s a' w → a' = w := by
  intro a ha hr
  apply Classical.byContradiction
  intro hne
  obtain ⟨w0, hw0, hr0⟩ := hr.first_step hne
  -- `w` has a source, hence is an existing node
  have hwlt : w < s.nodes.length := by
    have : ∃ y, w ∈ (s.get y).subs := by
      cases hr0 with
      | refl => exact ⟨a, hw0⟩
      | step _ hm => exact ⟨_, hm⟩
    obtain ⟨y, hy⟩ := this
    have hsrc := (h.edge y w).1 hy
    rcases Nat.lt_or_ge w s.nodes.length with h' | h'
    · exact h'
    · rw [State.get_default s h'] at hsrc; cases hsrc
  have htd := trackedDep_of_reach h hw0 hr0 s.nodes.length hwlt
  simp only [directOnly, List.all_eq_true, Bool.or_eq_true, beq_iff_eq, Bool.not_eq_true'] at hd
  rcases hd a ha with h' | h'
  · exact hne h'
  · rw [htd] at h'; cases h'

end Leptos.Reactive
