import LeptosModel.Proofs.RViewMBuild
/-!
# Proofs/RViewMIdle — a tree without notified effects shows the fresh render (signals and memos)

`TopC.effect_val` (reactive core): an effect that is not notified has stored the from-scratch value of
its body.  The state tree shows what its effects stored.
-/
namespace Leptos.RView
open Leptos.Reactive

theorem bodyOf_eff {p : Prog} {e : Nat} {x : Expr} (h : p[e]? = some (.eff x)) : bodyOf p e = x := by
  simp only [bodyOf, h]

/-- the from-scratch value of a memo is its body over the from-scratch values -/
theorem specVal_memo {p : Prog} (hwf : WF p = true) (s : State) {m : Nat} {b : Expr}
    (hm : p[m]? = some (.memo b)) : specVal p s m = evalPure (specVal p s) b := by
  have hmlt : m < p.length := by
    rcases Nat.lt_or_ge m p.length with h' | h'
    · exact h'
    · rw [List.getElem?_eq_none h'] at hm; cases hm
  have hw := WF_get hwf hm
  simp only [wfNode, Bool.and_eq_true] at hw
  show scratch p (envOf s) (fuelFor p) m = _
  simp only [fuelFor, scratch, hm]
  apply evalPure_congr (k := m) _ b hw.1.1
  intro j hj
  show scratch p (envOf s) p.length j = scratch p (envOf s) (fuelFor p) j
  exact scratch_fuel (envOf s) hwf _ _ j (by omega) (by simp only [fuelFor]; omega)

/-- what an effect that is not notified last rendered is the current value of its body -/
theorem EM.cur_idle {K : Nat} {st : St} {e : Nat} {x : Expr} {cur : Int → Prop} (h : RM K st)
    (he : EM K st e x cur) (hch : (st.rs.get e).chan = false) : cur (evalPure st.env x) := by
  have hnd : ¬ DeadE st.rs e := fun hd => by
    have := hd.2; rw [he.alive] at this; cases this
  have hnf : NoFB st.prog e := NoFB.of_noWrite (by rw [bodyOf_eff he.prog]; exact he.nw)
  have hv := h.top.effect_val h.wf (memoTracked_of h.tr) he.kind hnd hnf hch
  rw [bodyOf_eff he.prog] at hv
  have hc := he.cur
  rw [hv] at hc
  exact hc

theorem GoodAttrP.outM {K : Nat} {st : St} (hr : RM K st) : ∀ {a : Attr} {s : AState}, GoodAttrP (EM K st) a s →
    (∀ e ∈ s.effs, (st.rs.get e).chan = false) → s.out = renderAttr st.env a
  | .stat _ _, .stat _ _, h, _ => by simp only [GoodAttrP] at h; simp [AState.out, renderAttr, h.1, h.2]
  | .dyn _ _, .dyn e _ _ _, h, hn => by
    have := h.2.2.cur_idle hr (hn e (by simp [AState.effs]))
    simp [AState.out, renderAttr, h.1, h.2.1, this]
  | .cls _ _, .cls e _ _ _, h, hn => by
    have := h.2.2.cur_idle hr (hn e (by simp [AState.effs]))
    simp [AState.out, renderAttr, h.1, ← h.2.1, this]
  | .sty _ _, .sty e _ _ _, h, hn => by
    have := h.2.2.cur_idle hr (hn e (by simp [AState.effs]))
    simp [AState.out, renderAttr, h.1, h.2.1, this]
  | .stat _ _, .dyn _ _ _ _, h, _ => h.elim
  | .stat _ _, .cls _ _ _ _, h, _ => h.elim
  | .stat _ _, .sty _ _ _ _, h, _ => h.elim
  | .dyn _ _, .stat _ _, h, _ => h.elim
  | .dyn _ _, .cls _ _ _ _, h, _ => h.elim
  | .dyn _ _, .sty _ _ _ _, h, _ => h.elim
  | .cls _ _, .stat _ _, h, _ => h.elim
  | .cls _ _, .dyn _ _ _ _, h, _ => h.elim
  | .cls _ _, .sty _ _ _ _, h, _ => h.elim
  | .sty _ _, .stat _ _, h, _ => h.elim
  | .sty _ _, .dyn _ _ _ _, h, _ => h.elim
  | .sty _ _, .cls _ _ _ _, h, _ => h.elim

theorem GoodAttrsP.outM {K : Nat} {st : St} (hr : RM K st) : ∀ {as : List Attr} {ss : List AState},
    GoodAttrsP (EM K st) as ss → (∀ e ∈ ss.flatMap AState.effs, (st.rs.get e).chan = false) →
    ss.map AState.out = as.map (renderAttr st.env)
  | [], [], _, _ => rfl
  | _ :: _, s :: ss, h, hn => by
    simp only [List.map_cons]
    rw [h.1.outM hr (fun e he => hn e (by simp [he])),
      GoodAttrsP.outM hr h.2 (fun e he => hn e (by
        simp only [List.flatMap_cons, List.mem_append]; exact Or.inr he))]
  | [], _ :: _, h, _ => h.elim
  | _ :: _, [], h, _ => h.elim

theorem GoodM.serialize_eq {K : Nat} {st : St} (hr : RM K st) :
    ∀ (v : View) (t : RState), GoodM (EM K st) (ShowMemo K st) v t →
      v.coreS = true → (∀ e ∈ effsOf t, (st.rs.get e).chan = false) → serialize t = render st.env v := by
  intro v
  induction v with
  | text s => intro t h _ _; cases t <;> simp only [GoodM] at h; simp [RView.serialize, render, h]
  | unit => intro t h _ _; cases t <;> simp only [GoodM] at h; simp [RView.serialize, render]
  | elem tag attrs kid ih =>
    intro t h hc hn
    cases t <;> simp only [GoodM] at h
    next n tag' as k =>
      simp only [View.coreS] at hc
      simp only [RView.serialize, render]
      rw [h.2.1.outM hr (fun e he => hn e (by simp [effsOf, he])),
        ih k h.2.2 hc (fun e he => hn e (by simp [effsOf, he])), h.1]
  | seq a b iha ihb =>
    intro t h hc hn
    cases t <;> simp only [GoodM] at h
    next sa sb =>
      simp only [View.coreS, Bool.and_eq_true] at hc
      simp only [RView.serialize, render]
      rw [iha sa h.1 hc.1 (fun e he => hn e (by simp [effsOf, he])),
        ihb sb h.2 hc.2 (fun e he => hn e (by simp [effsOf, he]))]
  | dynText x =>
    intro t h _ hn
    cases t <;> simp only [GoodM] at h
    next e x' n last =>
      have := h.2.cur_idle hr (hn e (by simp [effsOf]))
      simp only [RView.serialize, render, this]
  | either c a b iha ihb =>
    intro t h hcs hn
    cases t <;> simp only [GoodM] at h
    next e c' a' b' left inner =>
      simp only [View.coreS, Bool.and_eq_true] at hcs
      have hc := h.2.2.2.1.cur_idle hr (hn e (by simp [effsOf]))
      simp only [RView.serialize, render]
      cases hl : left with
      | true =>
        rw [hl] at hc
        rw [← hc]; simp only [if_true]
        exact iha inner (h.2.2.2.2.1 hl) hcs.1 (fun e he => hn e (by simp [effsOf, he]))
      | false =>
        rw [hl] at hc
        rw [← hc]; simp only [Bool.false_eq_true, if_false]
        exact ihb inner (h.2.2.2.2.2 hl) hcs.2 (fun e he => hn e (by simp [effsOf, he]))
  | «show» c a b iha ihb =>
    intro t h hcs hn
    cases t <;> simp only [GoodM] at h
    next e m c' a' b' left inner =>
      simp only [View.coreS, Bool.and_eq_true] at hcs
      have hc := h.2.2.2.1.cur_idle hr (hn e (by simp [effsOf]))
      -- the effect reads the memo; the memo's from-scratch value is the truth value of the condition
      have hmv : st.env m = evalPure st.env (showBody c) := specVal_memo hr.wf st.rs h.2.2.2.2.1.2.2
      have hcond : (evalPure st.env (.rd true m) != 0) = (evalPure st.env c != 0) := by
        simp only [evalPure, hmv, showBody]
        by_cases hz : evalPure st.env c = 0
        · simp [hz]
        · simp [hz]
      rw [hcond] at hc
      simp only [RView.serialize, render]
      cases hl : left with
      | true =>
        rw [hl] at hc
        rw [← hc]; simp only [if_true]
        exact iha inner (h.2.2.2.2.2.2.1 hl) hcs.1 (fun e he => hn e (by simp [effsOf, he]))
      | false =>
        rw [hl] at hc
        rw [← hc]; simp only [Bool.false_eq_true, if_false]
        exact ihb inner (h.2.2.2.2.2.2.2 hl) hcs.2 (fun e he => hn e (by simp [effsOf, he]))
  | forKeyed sel lists =>
    intro t h _ hn
    cases t <;> simp only [GoodM] at h
    next e sel' lists' ks texts =>
      have := h.2.2.1.cur_idle hr (hn e (by simp [effsOf]))
      simp only [RView.serialize, render, forRows_eq h.2.2.2, this]
  | scope sid d kid _ => intro t h _ _; cases t <;> simp only [GoodM] at h
  | forRows en sel lists row _ => intro t h _ _; cases t <;> simp only [GoodM] at h
  | eb kid _ => intro t _ hc; simp [View.coreS] at hc
  | res c x => intro t _ hc; simp [View.coreS] at hc

end Leptos.RView
