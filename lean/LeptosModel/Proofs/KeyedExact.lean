import LeptosModel.Proofs.KeyedFinal
/-!
# `settledMonotone` is also NECESSARY for the DOM order to be right (C11)

The items that are neither removed nor re-inserted never change their relative order among the
parent's children, so if their old order differs from their new order the children cannot end in the
new order.
-/
namespace Leptos.Keyed

theorem mem_somes_set {st : List (Option Item)} {p : Nat} {x z : Item}
    (h : z ∈ somes (st.set p (some x))) : z = x ∨ z ∈ somes st := by
  simp only [somes, List.mem_filterMap, id] at h ⊢
  obtain ⟨o, ho, rfl⟩ := h
  obtain ⟨j, hj⟩ := List.mem_iff_getElem?.mp ho
  rw [List.getElem?_set] at hj
  split at hj
  · split at hj
    · simp only [Option.some.injEq] at hj
      exact Or.inl (by simpa using hj.symm)
    · simp at hj
  · exact Or.inr ⟨some z, List.mem_of_getElem? hj, rfl⟩

theorem mem_somes_set_of_mem {st : List (Option Item)} {p : Nat} {x z : Item} (hp : st[p]? = some none)
    (h : z ∈ somes st) : z ∈ somes (st.set p (some x)) := by
  simp only [somes, List.mem_filterMap, id] at h ⊢
  obtain ⟨o, ho, rfl⟩ := h
  obtain ⟨j, hj⟩ := List.mem_iff_getElem?.mp ho
  refine ⟨some z, List.mem_iff_getElem?.mpr ⟨j, ?_⟩, rfl⟩
  have : p ≠ j := by rintro rfl; rw [hp] at hj; simp at hj
  rw [List.getElem?_set_ne this, hj]

theorem mem_somes_set_self {st : List (Option Item)} {p : Nat} {x : Item} (hp : p < st.length) :
    x ∈ somes (st.set p (some x)) := by
  simp only [somes, List.mem_filterMap, id]
  exact ⟨some x, List.mem_iff_getElem?.mpr ⟨p, List.getElem?_set_self hp⟩, rfl⟩

theorem filter_insB_of_false {α : Type} [DecidableEq α] {y x : α} (p : α → Bool) (hx : p x = false) :
    ∀ (l : List α), (insB y x l).filter p = l.filter p
  | [] => by simp [insB, hx]
  | a :: l => by
    by_cases h : a = y
    · subst h
      rw [insB_cons_self, List.filter_cons_of_neg (by simp [hx])]
    · rw [insB_cons_ne l h]
      by_cases hpa : p a = true
      · rw [List.filter_cons_of_pos hpa, List.filter_cons_of_pos hpa, filter_insB_of_false p hx l]
      · rw [List.filter_cons_of_neg hpa, List.filter_cons_of_neg hpa, filter_insB_of_false p hx l]

/-- the invariant of the DOM phases without any assumption on the order: the members of `S` (the
settled items) keep the relative order `L` among the parent's children -/
structure ShapeX (pre post : List NodeId) (marker : NodeId) (S L : List Item) (seq : List Item)
    (ks : List NodeId × List (Option Item)) (pend : List Item) : Prop where
  kids_eq : ks.1 = pre ++ blocks seq ++ marker :: post
  nodup : ks.1.Nodup
  nonempty : ∀ z ∈ seq, z.nodes ≠ []
  stored_sub : ∀ z ∈ somes ks.2, z ∈ seq
  settled_order : seq.filter (fun z => decide (z ∈ S)) = L
  cover : ∀ z ∈ seq, z ∈ somes ks.2 ∨ z ∈ pend

theorem place_stepX (pre post : List NodeId) (marker : NodeId) (S L : List Item) (seq : List Item)
    (ks : List NodeId × List (Option Item)) (p : Nat) (x : Item) (P : List (Nat × Item))
    (sh : ShapeX pre post marker S L seq ks (((p, x) :: P).map (·.2))) (ok : POk seq ks ((p, x) :: P))
    (hxS : x ∉ S) :
    ∃ seq', ShapeX pre post marker S L seq' (placeStep marker ks (p, x)) (P.map (·.2)) ∧
      POk seq' (placeStep marker ks (p, x)) P := by
  have hkn : (pre ++ blocks seq ++ marker :: post).Nodup := sh.kids_eq ▸ sh.nodup
  have hseq : seq.Nodup :=
    nodup_of_blocks_nodup (List.nodup_append.mp (List.nodup_append.mp hkn).1).2.1 sh.nonempty
  have hempty : ks.2[p]? = some none := ok.empty (p, x) (by simp)
  have hplt : p < ks.2.length := (List.getElem?_eq_some_iff.mp hempty).1
  have hxs : x ∉ somes ks.2 := ok.not_stored (p, x) (by simp)
  have hxne : x.nodes ≠ [] := ok.nonempty (p, x) (by simp)
  have hfresh : x ∈ seq ∨ (x.nodes.Nodup ∧ ∀ n ∈ x.nodes, n ∉ pre ++ blocks seq ++ marker :: post) := by
    have := ok.fresh (p, x) (by simp)
    rwa [sh.kids_eq] at this
  have hmem_erase : ∀ z, z ∈ seq.erase x ↔ z ≠ x ∧ z ∈ seq := fun z => List.Nodup.mem_erase_iff hseq
  have hpos := ok.pos_nodup
  have hitems := ok.items_nodup
  have hdis := ok.disjoint
  simp only [List.map_cons, List.nodup_cons, List.pairwise_cons] at hpos hitems hdis
  have hfilt : (seq.erase x).filter (fun z => decide (z ∈ S)) = L := by
    rw [filter_erase_of_false hseq (by simpa using hxS)]
    exact sh.settled_order
  have finish : ∀ (seq' : List Item),
      (placeStep marker ks (p, x)).1 = pre ++ blocks seq' ++ marker :: post →
      (∀ z, z ∈ seq' ↔ z = x ∨ z ∈ seq.erase x) →
      seq'.filter (fun z => decide (z ∈ S)) = L →
      ∃ seq', ShapeX pre post marker S L seq' (placeStep marker ks (p, x)) (P.map (·.2)) ∧
        POk seq' (placeStep marker ks (p, x)) P := by
    intro seq' hk hms hord
    have hkids_nodup : (placeStep marker ks (p, x)).1.Nodup := by
      simp only [placeStep, place1]
      cases nextMounted ks.2 p with
      | none => exact nodup_mountItem _ _ sh.nodup
      | some y =>
        simp only [insertBeforeThisOrMarker]
        cases y.nodes.head? <;> exact nodup_mountItem _ _ sh.nodup
    have hkids_mem : ∀ n, n ∈ (placeStep marker ks (p, x)).1 → n ∈ x.nodes ∨ n ∈ ks.1 := by
      intro n hn
      exact mem_place1 (by simpa [placeStep] using hn)
    refine ⟨seq', ⟨hk, hkids_nodup, ?_, ?_, hord, ?_⟩, ⟨hpos.2, hitems.2, ?_, ?_, ?_, ?_, hdis.2⟩⟩
    · intro z hz
      rcases (hms z).mp hz with rfl | hz
      · exact hxne
      · exact sh.nonempty z ((hmem_erase z).mp hz).2
    · intro z hz
      simp only [placeStep] at hz
      rcases mem_somes_set hz with rfl | hz
      · exact (hms _).mpr (Or.inl rfl)
      · by_cases hzx : z = x
        · exact (hms _).mpr (Or.inl hzx)
        · exact (hms _).mpr (Or.inr ((hmem_erase z).mpr ⟨hzx, sh.stored_sub z hz⟩))
    · intro z hz
      simp only [placeStep]
      rcases (hms z).mp hz with rfl | hz
      · exact Or.inl (mem_somes_set_self hplt)
      · rcases sh.cover z ((hmem_erase z).mp hz).2 with h | h
        · exact Or.inl (mem_somes_set_of_mem hempty h)
        · simp only [List.map_cons, List.mem_cons] at h
          rcases h with rfl | h
          · exact Or.inl (mem_somes_set_self hplt)
          · exact Or.inr h
    · intro q hq
      simp only [placeStep]
      have hne : p ≠ q.1 := by
        rintro rfl
        exact hpos.1 (List.mem_map.mpr ⟨q, hq, rfl⟩)
      rw [List.getElem?_set_ne hne]
      exact ok.empty q (by simp [hq])
    · intro q hq hm
      simp only [placeStep] at hm
      rcases mem_somes_set hm with h | h
      · exact hitems.1 (List.mem_map.mpr ⟨q, hq, h⟩)
      · exact ok.not_stored q (by simp [hq]) h
    · intro q hq
      exact ok.nonempty q (by simp [hq])
    · intro q hq
      have hqx : q.2 ≠ x := fun h => hitems.1 (List.mem_map.mpr ⟨q, hq, h⟩)
      rcases ok.fresh q (by simp [hq]) with h | h
      · exact Or.inl ((hms _).mpr (Or.inr ((hmem_erase _).mpr ⟨hqx, h⟩)))
      · refine Or.inr ⟨h.1, ?_⟩
        intro n hn hn'
        rcases hkids_mem n hn' with h' | h'
        · exact hdis.1 q.2 (List.mem_map.mpr ⟨q, hq, rfl⟩) n h' hn
        · exact h.2 n hn h'
  cases hnm : nextMounted ks.2 p with
  | none =>
    refine finish (seq.erase x ++ [x]) ?_ ?_ ?_
    · simp only [placeStep, place1, hnm]
      rw [sh.kids_eq]
      exact region_place_end pre post marker seq x hkn sh.nonempty hfresh
    · intro z; simp only [List.mem_append, List.mem_singleton]; exact Or.comm
    · rw [List.filter_append, hfilt]
      simp [hxS]
  | some y =>
    have hys : y ∈ somes ks.2 := nextMounted_mem hnm
    have hyseq : y ∈ seq := sh.stored_sub y hys
    have hyx : y ≠ x := by rintro rfl; exact hxs hys
    refine finish (insB y x (seq.erase x)) ?_ ?_ ?_
    · simp only [placeStep, place1, hnm]
      rw [sh.kids_eq]
      exact region_place_before pre post marker seq x y hkn sh.nonempty hfresh hyseq hyx
    · intro z; exact mem_insB
    · rw [filter_insB_of_false _ (by simpa using hxS), hfilt]

theorem place_allX (pre post : List NodeId) (marker : NodeId) (S L : List Item) :
    ∀ (P : List (Nat × Item)) (seq : List Item) (ks : List NodeId × List (Option Item)),
    ShapeX pre post marker S L seq ks (P.map (·.2)) → POk seq ks P → (∀ q ∈ P, q.2 ∉ S) →
    ∃ seqf, ShapeX pre post marker S L seqf (placeAll marker P ks) []
  | [], seq, ks, sh, _, _ => ⟨seq, by simpa [placeAll] using sh⟩
  | (p, x) :: P, seq, ks, sh, ok, hS => by
    obtain ⟨seq', sh', ok'⟩ := place_stepX pre post marker S L seq ks p x P sh ok (hS (p, x) (by simp))
    have := place_allX pre post marker S L P seq' _ sh' ok' (fun q hq => hS q (by simp [hq]))
    simpa [placeAll] using this

/-- sequences of items with non-empty pairwise disjoint blocks are determined by their nodes -/
theorem eq_of_blocks_eq : ∀ (l1 l2 : List Item), (blocks l1).Nodup → (∀ z ∈ l1, z.nodes ≠ []) →
    (∀ z ∈ l2, z ∈ l1) → blocks l1 = blocks l2 → l1 = l2
  | [], l2, _, _, hsub, _ => by
    cases l2 with
    | nil => rfl
    | cons b _ => exact absurd (hsub b (by simp)) (by simp)
  | a :: l1, [], _, hne, _, h => by
    simp only [blocks_cons, blocks_nil, List.append_eq_nil_iff] at h
    exact absurd h.1 (hne a (by simp))
  | a :: l1, b :: l2, hnd, hne, hsub, h => by
    have hb : b ∈ a :: l1 := hsub b (by simp)
    obtain ⟨n, tl, hn⟩ : ∃ n tl, a.nodes = n :: tl := by
      cases h' : a.nodes with
      | nil => exact absurd h' (hne a (by simp))
      | cons n tl => exact ⟨n, tl, rfl⟩
    obtain ⟨n', tl', hn'⟩ : ∃ n tl, b.nodes = n :: tl := by
      cases h' : b.nodes with
      | nil => exact absurd h' (hne b hb)
      | cons n tl => exact ⟨n, tl, rfl⟩
    have hnn : n = n' := by
      simp only [blocks_cons, hn, hn', List.cons_append, List.cons.injEq] at h
      exact h.1
    have hab : a = b := by
      apply Classical.byContradiction
      intro hab
      exact disjoint_of_mem hnd (by simp) hb hab n (by simp [hn]) (by simp [hn', hnn])
    subst hab
    simp only [blocks_cons, List.append_cancel_left_eq] at h
    have hnd' := List.nodup_append.mp (by simpa using hnd : (a.nodes ++ blocks l1).Nodup)
    have : l1 = l2 := eq_of_blocks_eq l1 l2 hnd'.2.1 (fun z hz => hne z (by simp [hz])) (by
      intro z hz
      have := hsub z (by simp [hz])
      simp only [List.mem_cons] at this
      rcases this with rfl | this
      · exfalso
        have hmem : n ∈ blocks l2 := mem_blocks.mpr ⟨z, hz, by simp [hn]⟩
        rw [← h] at hmem
        exact hnd'.2.2 n (by simp [hn]) n hmem rfl
      · exact this) h
    rw [this]

theorem mem_somes_iff_itemAt {S : List (Option Item)} {z : Item} :
    z ∈ somes S ↔ ∃ j, itemAt S j = some z := by
  simp only [somes, List.mem_filterMap, id]
  constructor
  · rintro ⟨o, ho, rfl⟩
    obtain ⟨j, hj⟩ := List.mem_iff_getElem?.mp ho
    exact ⟨j, itemAt_eq_some.mpr hj⟩
  · rintro ⟨j, hj⟩
    exact ⟨some z, List.mem_of_getElem? (itemAt_eq_some.mp hj), rfl⟩

theorem settledMonotone_nil (D : List Key → List Key → Diff) (f : List Key) : settledMonotone D f [] = true := by
  unfold settledMonotone settled
  simp

section
variable {D : List Key → List Key → Diff} {f t : List Key} {old : List Item} {rem : List Nat} {U : List DiffOpMove}
  {ads : List DiffOpAdd}

/-- the items stored before the DOM phases are exactly the settled old items (no assumption on the order) -/
theorem Ctx.mem_somes_storage4 (c : Ctx f t old rem U ads) (hU : U = (unpackMoves (D f t)).1) {z : Item} :
    z ∈ somes (storage4 (old.map some) rem U ads.length) ↔ z ∈ old ∧ settled D f t z.key = true := by
  rw [mem_somes_iff_itemAt]
  constructor
  · rintro ⟨j, hj⟩
    by_cases hjt : j < t.length
    · have := c.storage4_at hU (List.getElem?_eq_getElem hjt)
      rw [hj] at this
      split at this
      · rename_i hs
        obtain ⟨h1, h2⟩ := oldOf_mem this.symm
        exact ⟨h1, h2 ▸ hs⟩
      · simp at this
    · rw [c.storage4_beyond _ (by omega)] at hj
      simp at hj
  · rintro ⟨hz, hs⟩
    obtain ⟨i, hi⟩ := List.mem_iff_getElem?.mp hz
    obtain ⟨_, hkt, _⟩ := (c.settled_iff hU).mp hs
    obtain ⟨j, hj⟩ := List.mem_iff_getElem?.mp hkt
    exact ⟨j, by rw [c.storage4_at hU hj, if_pos hs, c.oldOf_eq hi]⟩

theorem Ctx.final_somes (c : Ctx f t old rem U ads) (bs next : Nat) :
    (somes (storage7 old rem U ads bs t next)).length = t.length ∧
    ∀ (j : Nat) (k : Key), t[j]? = some k → ∃ it, (somes (storage7 old rem U ads bs t next))[j]? = some it ∧
      it.key = k ∧ ∀ i : Nat, f[i]? = some k → old[i]? = some it := by
  have h := c.final_storage bs next
  simp only [somes_filter_isSome] at h
  exact ⟨h.2.1, fun j k hk => let ⟨it, h1, h2, h3, _⟩ := h.2.2 j k hk; ⟨it, h1, h2, h3⟩⟩

/-- **necessity**: if the pipeline leaves the children in the new order, `settledMonotone` holds -/
theorem Ctx.dom_order_exact (c : Ctx f t old rem U ads) (hn : ∀ a ∈ ads, a.mode = .normal)
    (hU : U = (unpackMoves (D f t)).1)
    (bs : Nat) (marker : NodeId) (w : World) (pre post : List NodeId)
    (hw : w.storage = old.map some) (hk : w.kids = pre ++ blocks old ++ marker :: post)
    (hnd : w.kids.Nodup) (hne : ∀ z ∈ old, z.nodes ≠ []) (hfr : ∀ n ∈ w.kids, n < w.next) (hbs : 0 < bs)
    (hord : (pipeline bs marker t rem U ads ads.length w).kids
      = pre ++ blocksOf (pipeline bs marker t rem U ads ads.length w).storage ++ marker :: post) :
    settledMonotone D f t = true := by
  have hkn : (pre ++ blocks old ++ marker :: post).Nodup := hk ▸ hnd
  have hbo : (blocks old).Nodup := (List.nodup_append.mp (List.nodup_append.mp hkn).1).2.1
  have hold : old.Nodup := nodup_of_blocks_nodup hbo hne
  have hfrom := c.sp.from_nodup c.ht
  have hto := c.sp.to_nodup c.hf c.ht
  -- nodes of old items are children of the parent, hence below the id counter
  have hold_lt : ∀ x ∈ old, ∀ n ∈ x.nodes, n < w.next := by
    intro x hx n hnx
    apply hfr
    rw [hk]
    simp only [List.mem_append]
    exact Or.inl (Or.inr (mem_blocks.mpr ⟨x, hx, hnx⟩))
  rw [c.pipeline_closed hn bs marker w hw] at hord
  simp only [blocksOf_eq, somes_filter_isSome] at hord
  have hst7 : storage7 old rem U ads bs t w.next
      = (placeAll marker (placements bs t w rem U ads) (kids1 w rem, storage4 w.storage rem U ads.length)).2 := by
    rw [placeAll_storage, storage7, placements, hw]
  rw [hst7] at hord
  -- the sequence after the removals
  have hkids1 : kids1 w rem = pre ++ blocks (old.filter fun z => t.contains z.key) ++ marker :: post := by
    rw [kids1, hw, hk, unmount_fold_region pre post marker _ old hkn hne (c.removed_nodup hold)
      (fun x hx => (c.mem_removed.mp hx).1)]
    congr 2
    congr 1
    apply List.filter_congr
    intro z hz
    have := c.mem_removed (x := z)
    by_cases hzt : z.key ∈ t
    · simp [hzt, this, hz]
    · simp [hzt, this, hz]
  have hkids1_nodup : (kids1 w rem).Nodup := (unmount_fold_nodup _ hnd).1
  have hkids1_sub : ∀ n ∈ kids1 w rem, n ∈ w.kids := (unmount_fold_nodup _ hnd).2
  have hmem4 : ∀ z, z ∈ somes (storage4 (old.map some) rem U ads.length) ↔ z ∈ old ∧ settled D f t z.key = true :=
    fun z => c.mem_somes_storage4 hU
  rw [hw] at hord
  -- members of the placement list
  have hmemP : ∀ q ∈ placements bs t w rem U ads,
      (∃ m ∈ U, m.moveInDom = true ∧ m.to_ = q.1 ∧ old[m.from_]? = some q.2) ∨
      q ∈ addPlacements bs t w.next ads := by
    intro q hq
    rw [placements, hw, List.mem_append] at hq
    rcases hq with hq | hq
    · exact Or.inl (c.mem_dPlacements.mp hq)
    · exact Or.inr hq
  -- a DOM-moved item is an old item whose key is in `t` and is not settled
  have hdom : ∀ (m : DiffOpMove) (x : Item), m ∈ U → m.moveInDom = true → old[m.from_]? = some x →
      x ∈ old ∧ x.key ∈ t ∧ settled D f t x.key = false ∧ t[m.to_]? = some x.key := by
    intro m x hm hd hx
    obtain ⟨_, k, hk1, hk2⟩ := (c.sp.mem_pairs c.ht).mp ⟨m, hm, rfl, rfl⟩
    have hkx : k = x.key := by
      have := c.old_key m.from_
      rw [hx, hk1] at this
      simpa using this.symm
    subst hkx
    refine ⟨List.mem_of_getElem? hx, List.mem_of_getElem? hk2, ?_, hk2⟩
    rw [Bool.eq_false_iff, Ne, c.settled_iff hU]
    exact fun h => h.2.2 ⟨m, hm, hd, hk1⟩
  have hnew : ∀ q ∈ addPlacements bs t w.next ads,
      (∀ n ∈ q.2.nodes, w.next ≤ n) ∧ q.2.nodes.Nodup ∧ q.2.nodes ≠ [] ∧ q.2 ∉ old ∧
      ∃ k, t[q.1]? = some k ∧ k ∉ f := by
    intro q hq
    obtain ⟨h1, h2, h3⟩ := addPlacements_nodes (p := q.1) (it := q.2) hq
    refine ⟨fun n hn' => (h1 n hn').1, h2, h3 hbs, ?_, ?_⟩
    · intro ho
      obtain ⟨n, hn'⟩ := List.exists_mem_of_ne_nil _ (h3 hbs)
      exact absurd (hold_lt q.2 ho n hn') (Nat.not_lt.mpr (h1 n hn').1)
    · have := (mem_addPlacements hq).2
      exact isAdd_iff.mp (c.sp.mem_ads.mp this)
  have hlen4 : (storage4 (old.map some) rem U ads.length).length = f.length + ads.length := by
    simp [storage4, storage2, c.old_length]
  -- the settled items, in the old order
  have hSmem : ∀ z, z ∈ old.filter (fun it => settled D f t it.key) ↔ z ∈ old ∧ settled D f t z.key = true :=
    fun z => List.mem_filter
  have hlen4 : (storage4 (old.map some) rem U ads.length).length = f.length + ads.length := by
    simp [storage4, storage2, c.old_length]
  have shX : ShapeX pre post marker (old.filter fun it => settled D f t it.key)
      (old.filter fun it => settled D f t it.key) (old.filter fun z => t.contains z.key)
      (kids1 w rem, storage4 (old.map some) rem U ads.length)
      ((placements bs t w rem U ads).map (·.2)) := by
    refine ⟨hkids1, hkids1_nodup, ?_, ?_, ?_, ?_⟩
    · intro z hz; exact hne z (List.mem_filter.mp hz).1
    · intro z hz
      obtain ⟨h1, h2⟩ := (hmem4 z).mp hz
      exact List.mem_filter.mpr ⟨h1, by simpa using ((c.settled_iff hU).mp h2).2.1⟩
    · rw [List.filter_filter]
      apply List.filter_congr
      intro z hz
      by_cases hs : settled D f t z.key = true
      · have : z.key ∈ t := ((c.settled_iff hU).mp hs).2.1
        simp [hSmem, hz, hs, this]
      · simp [hSmem, hs]
    · intro z hz
      obtain ⟨hzo, hzt⟩ := List.mem_filter.mp hz
      by_cases hs : settled D f t z.key = true
      · exact Or.inl ((hmem4 z).mpr ⟨hzo, hs⟩)
      · right
        obtain ⟨i, hi⟩ := List.mem_iff_getElem?.mp hzo
        have hfi : f[i]? = some z.key := by rw [← c.old_key, hi]; rfl
        have : ∃ m ∈ U, m.moveInDom = true ∧ f[m.from_]? = some z.key :=
          Classical.byContradiction fun hcon =>
            hs ((c.settled_iff hU).mpr ⟨List.mem_of_getElem? hfi, by simpa using hzt, hcon⟩)
        obtain ⟨m, hm, hd, hmk⟩ := this
        have hmi : m.from_ = i :=
          (List.getElem?_inj (List.getElem?_eq_some_iff.mp hmk).1 c.hf).mp (hmk.trans hfi.symm)
        rw [List.mem_map]
        refine ⟨(m.to_, z), ?_, rfl⟩
        rw [placements, hw]
        exact List.mem_append_left _ (c.mem_dPlacements.mpr ⟨m, hm, hd, rfl, by rw [hmi]; exact hi⟩)
  have okX : POk (old.filter fun z => t.contains z.key)
      (kids1 w rem, storage4 (old.map some) rem U ads.length) (placements bs t w rem U ads) := by
    refine ⟨?_, ?_, ?_, ?_, ?_, ?_, ?_⟩
    · rw [placements, hw]; exact c.placements_pos_nodup bs w.next
    · rw [placements, hw]
      apply nodup_of_pairwise_disjoint (c.placements_disjoint bs w.next hbo hold hold_lt)
      intro x hx
      obtain ⟨q, hq, rfl⟩ := List.mem_map.mp hx
      have hq' : q ∈ placements bs t w rem U ads := by rw [placements, hw]; exact hq
      rcases hmemP q hq' with ⟨m, hm, hd, _, hx'⟩ | hq''
      · exact hne _ (hdom m q.2 hm hd hx').1
      · exact (hnew q hq'').2.2.1
    · intro q hq
      have hq1 : ∃ k, t[q.1]? = some k ∧ settled D f t k = false := by
        rcases hmemP q hq with ⟨m, hm, hd, hto', hx⟩ | hq'
        · obtain ⟨_, _, h3, h4⟩ := hdom m q.2 hm hd hx
          exact ⟨_, hto' ▸ h4, h3⟩
        · obtain ⟨_, _, _, _, k, hk, hkf⟩ := hnew q hq'
          refine ⟨k, hk, ?_⟩
          rw [Bool.eq_false_iff, Ne, c.settled_iff hU]
          exact fun h => hkf h.1
      obtain ⟨k, hk, hs⟩ := hq1
      apply getElem?_of_itemAt_none
      · have := (List.getElem?_eq_some_iff.mp hk).1
        have := c.length_le
        simp only at hlen4 ⊢
        omega
      · have := c.storage4_at hU hk
        simp only [hs] at this
        simpa using this
    · intro q hq hst
      obtain ⟨h1, h2⟩ := (hmem4 _).mp hst
      rcases hmemP q hq with ⟨m, hm, hd, _, hx⟩ | hq'
      · have := (hdom m q.2 hm hd hx).2.2.1
        simp [this] at h2
      · exact (hnew q hq').2.2.2.1 h1
    · intro q hq
      rcases hmemP q hq with ⟨m, hm, hd, _, hx⟩ | hq'
      · exact hne _ (hdom m q.2 hm hd hx).1
      · exact (hnew q hq').2.2.1
    · intro q hq
      rcases hmemP q hq with ⟨m, hm, hd, _, hx⟩ | hq'
      · left
        obtain ⟨h1, h2, _⟩ := hdom m q.2 hm hd hx
        exact List.mem_filter.mpr ⟨h1, by simpa using h2⟩
      · right
        obtain ⟨h1, h2, _⟩ := hnew q hq'
        refine ⟨h2, ?_⟩
        intro n hn' hk1
        exact absurd (hfr n (hkids1_sub n hk1)) (Nat.not_lt.mpr (h1 n hn'))
    · rw [placements, hw]
      exact c.placements_disjoint bs w.next hbo hold hold_lt
  have hSX : ∀ q ∈ placements bs t w rem U ads, q.2 ∉ old.filter fun it => settled D f t it.key := by
    intro q hq hS
    obtain ⟨h1, h2⟩ := (hSmem _).mp hS
    rcases hmemP q hq with ⟨m, hm, hd, _, hx⟩ | hq'
    · have := (hdom m q.2 hm hd hx).2.2.1
      simp [this] at h2
    · exact (hnew q hq').2.2.2.1 h1
  obtain ⟨seqf, shf⟩ := place_allX pre post marker _ _ _ _ _ shX okX hSX
  · -- the final children are `pre ++ blocks seqf ++ marker :: post` and also (by `hord`) the blocks of
    -- the stored items: the two sequences coincide
    have hkf := shf.kids_eq
    rw [hord] at hkf
    have hbl : blocks (somes (placeAll marker (placements bs t w rem U ads)
        (kids1 w rem, storage4 (old.map some) rem U ads.length)).2) = blocks seqf := by
      have := List.append_cancel_right (List.append_cancel_left
        (by simpa [List.append_assoc] using hkf :
          pre ++ (blocks (somes (placeAll marker (placements bs t w rem U ads)
            (kids1 w rem, storage4 (old.map some) rem U ads.length)).2) ++ marker :: post)
          = pre ++ (blocks seqf ++ marker :: post)))
      exact this
    have hknf : (pre ++ blocks seqf ++ marker :: post).Nodup := shf.kids_eq ▸ shf.nodup
    have hbnf : (blocks seqf).Nodup := (List.nodup_append.mp (List.nodup_append.mp hknf).1).2.1
    have hseqf : seqf = somes (placeAll marker (placements bs t w rem U ads)
        (kids1 w rem, storage4 (old.map some) rem U ads.length)).2 :=
      eq_of_blocks_eq seqf _ hbnf shf.nonempty shf.stored_sub hbl.symm
    -- the stored items are the items keyed `t`, in order
    have hfin := c.final_somes bs w.next
    rw [hst7, hw] at hfin
    obtain ⟨hlenF, hatF⟩ := hfin
    have hso := shf.settled_order
    rw [hseqf] at hso
    -- keys of both sides
    have hkeysF : (somes (placeAll marker (placements bs t w rem U ads)
        (kids1 w rem, storage4 (old.map some) rem U ads.length)).2).map (·.key) = t := by
      apply List.ext_getElem?
      intro j
      rw [List.getElem?_map]
      by_cases hj : j < t.length
      · obtain ⟨it, hit, hkey, _⟩ := hatF j t[j] (List.getElem?_eq_getElem hj)
        rw [hit, List.getElem?_eq_getElem hj]; simp [hkey]
      · rw [List.getElem?_eq_none (by rw [hlenF]; omega), List.getElem?_eq_none (by omega)]; rfl
    have hfiltF : (somes (placeAll marker (placements bs t w rem U ads)
        (kids1 w rem, storage4 (old.map some) rem U ads.length)).2).filter
          (fun z => decide (z ∈ old.filter fun it => settled D f t it.key))
        = (somes (placeAll marker (placements bs t w rem U ads)
        (kids1 w rem, storage4 (old.map some) rem U ads.length)).2).filter (fun z => settled D f t z.key) := by
      apply List.filter_congr
      intro z hz
      by_cases hs : settled D f t z.key = true
      · -- a stored item with a settled key is the old item of that key
        obtain ⟨j, hj⟩ := List.mem_iff_getElem?.mp hz
        have hjlt : j < t.length := by
          have := (List.getElem?_eq_some_iff.mp hj).1; omega
        obtain ⟨it, hit, hkey, hold'⟩ := hatF j t[j] (List.getElem?_eq_getElem hjlt)
        rw [hj] at hit
        simp only [Option.some.injEq] at hit
        subst hit
        have hkf : z.key ∈ f := ((c.settled_iff hU).mp hs).1
        obtain ⟨i, hi⟩ := List.mem_iff_getElem?.mp hkf
        have := hold' i (hkey ▸ hi)
        simp [hSmem, List.mem_of_getElem? this, hs]
      · simp [hSmem, hs]
    rw [hfiltF] at hso
    have h1 := congrArg (List.map (·.key)) hso
    have e1 : ∀ l : List Item, (l.filter (fun z => settled D f t z.key)).map (·.key)
        = (l.map (·.key)).filter (settled D f t) := fun l => by rw [List.filter_map]; rfl
    rw [e1, e1, hkeysF, c.hold] at h1
    unfold settledMonotone
    simp [h1]

end

/-- the DOM order after `rebuild` is right **iff** `settledMonotone` holds -/
theorem rebuild_ordered_iff (D : List Key → List Key → Diff) (hD : DiffLike D) (s : KState) (to : List Key) (pre post : List NodeId) (hs : Wf s)
    (hm : Mounted pre post s) (hto : to.Nodup) :
    (rebuildWith D s to).w.kids = pre ++ blocksOf (rebuildWith D s to).w.storage ++ (rebuildWith D s to).marker :: post
      ↔ settledMonotone D s.hashed to = true := by
  constructor
  · intro hord
    by_cases hte : to = []
    · subst hte; exact settledMonotone_nil _ _
    · have hw : ({ s.w with log := {} } : World).storage = (somes s.w.storage).map some := hs.all_some
      obtain ⟨rem, U, ads, c, hn, hU, heq⟩ := applyDiff_spec D hD s.hashed to (somes s.w.storage) hs.nodup hto
        hs.keys hte s.bs s.marker { s.w with log := {} } hw
      have hwr : (rebuildWith D s to).w = pipeline s.bs s.marker to rem U ads ads.length { s.w with log := {} } :=
        (rebuildWith_w_of_parent D s to hm.has_parent).trans heq
      rw [hwr] at hord
      exact c.dom_order_exact hn hU s.bs s.marker { s.w with log := {} } pre post hw hm.ordered
        hm.nodup hm.nonempty hm.fresh hm.bs_pos hord
  · intro hsm
    exact (rebuild_mounted D hD s to pre post hs hm hto hsm).ordered

end Leptos.Keyed
