import LeptosModel.Model.View
import LeptosModel.Proofs.DomLemmas
/-!
# Proofs/ViewMount — `mount` / `unmount` / `insert_before_this` as folds over the root nodes
-/
namespace Leptos.View
open Leptos.Dom

/-! ## the nodes a state retains -/

mutual
/-- every node id a state holds on to (its roots, the subtrees of its elements, `Vec` markers) -/
def owned : State → List Id
  | .text id _ => [id]
  | .unit id => [id]
  | .elem id _ cs => id :: ownedOpt cs
  | .tuple sts => ownedList sts
  | .either _ st => owned st
  | .vec sts mk => ownedList sts ++ [mk]
  | .any _ st => owned st
def ownedOpt : Option State → List Id
  | none => []
  | some s => owned s
def ownedList : List State → List Id
  | [] => []
  | s :: ss => owned s ++ ownedList ss
end

mutual
theorem roots_sub_owned : ∀ (st : State) (x : Id), x ∈ st.roots → x ∈ owned st
  | .text _ _, x, h => by simpa [State.roots, owned] using h
  | .unit _, x, h => by simpa [State.roots, owned] using h
  | .elem _ _ _, x, h => by simp [State.roots] at h; simp [owned, h]
  | .tuple sts, x, h => by simpa [owned] using rootsList_sub_ownedList sts x (by simpa [State.roots] using h)
  | .either _ st, x, h => by simpa [owned] using roots_sub_owned st x (by simpa [State.roots] using h)
  | .vec sts mk, x, h => by
    simp [State.roots] at h
    rcases h with h | h
    · simp [owned, rootsList_sub_ownedList sts x h]
    · simp [owned, h]
  | .any _ st, x, h => by simpa [owned] using roots_sub_owned st x (by simpa [State.roots] using h)
theorem rootsList_sub_ownedList : ∀ (sts : List State) (x : Id), x ∈ State.rootsList sts → x ∈ ownedList sts
  | [], x, h => by simp [State.rootsList] at h
  | s :: ss, x, h => by
    simp [State.rootsList] at h
    rcases h with h | h
    · simp [ownedList, roots_sub_owned s x h]
    · simp [ownedList, rootsList_sub_ownedList ss x h]
end

/-! ## mount / unmount are folds over the roots -/

def insertAll (d : Dom) (p : Id) (m : Option Id) (rs : List Id) : Dom :=
  rs.foldl (fun d r => d.insertNode p r m) d

def removeAll (d : Dom) (rs : List Id) : Dom := rs.foldl (fun d r => d.remove r) d

theorem insertAll_append (d : Dom) (p : Id) (m : Option Id) (a b : List Id) :
    insertAll d p m (a ++ b) = insertAll (insertAll d p m a) p m b := by
  simp [insertAll, List.foldl_append]

theorem removeAll_append (d : Dom) (a b : List Id) :
    removeAll d (a ++ b) = removeAll (removeAll d a) b := by
  simp [removeAll, List.foldl_append]

mutual
theorem mount_eq : ∀ (st : State) (d : Dom) (p : Id) (m : Option Id),
    mount st d p m = insertAll d p m st.roots
  | .text _ _, d, p, m => by simp [mount, State.roots, insertAll]
  | .unit _, d, p, m => by simp [mount, State.roots, insertAll]
  | .elem _ _ _, d, p, m => by simp [mount, State.roots, insertAll]
  | .tuple sts, d, p, m => by simp [mount, State.roots, mountList_eq sts]
  | .either _ st, d, p, m => by simp [mount, State.roots, mount_eq st]
  | .vec sts mk, d, p, m => by
    simp [mount, State.roots, mountList_eq sts, insertAll_append]; simp [insertAll]
  | .any _ st, d, p, m => by simp [mount, State.roots, mount_eq st]
theorem mountList_eq : ∀ (sts : List State) (d : Dom) (p : Id) (m : Option Id),
    mountList sts d p m = insertAll d p m (State.rootsList sts)
  | [], d, p, m => by simp [mountList, State.rootsList, insertAll]
  | s :: ss, d, p, m => by
    simp [mountList, State.rootsList, insertAll_append, mount_eq s, mountList_eq ss]
end

mutual
theorem unmount_eq : ∀ (st : State) (d : Dom), unmount st d = removeAll d st.roots
  | .text _ _, d => by simp [unmount, State.roots, removeAll]
  | .unit _, d => by simp [unmount, State.roots, removeAll]
  | .elem _ _ _, d => by simp [unmount, State.roots, removeAll]
  | .tuple sts, d => by simp [unmount, State.roots, unmountList_eq sts]
  | .either _ st, d => by simp [unmount, State.roots, unmount_eq st]
  | .vec sts mk, d => by
    simp [unmount, State.roots, unmountList_eq sts, removeAll_append]; simp [removeAll]
  | .any _ st, d => by simp [unmount, State.roots, unmount_eq st]
theorem unmountList_eq : ∀ (sts : List State) (d : Dom),
    unmountList sts d = removeAll d (State.rootsList sts)
  | [], d => by simp [unmountList, State.rootsList, removeAll]
  | s :: ss, d => by
    simp [unmountList, State.rootsList, removeAll_append, unmount_eq s, unmountList_eq ss]
end

/-- same node except for its child list (and the mutation counter) -/
def EqModKids (r r' : NodeRec) : Prop :=
  r'.kind = r.kind ∧ r'.parent = r.parent ∧ r'.attrs = r.attrs ∧ r'.data = r.data

theorem EqModKids.refl (r : NodeRec) : EqModKids r r := ⟨rfl, rfl, rfl, rfl⟩
theorem EqModKids.trans {a b c : NodeRec} (h1 : EqModKids a b) (h2 : EqModKids b c) : EqModKids a c :=
  ⟨h2.1.trans h1.1, h2.2.1.trans h1.2.1, h2.2.2.1.trans h1.2.2.1, h2.2.2.2.trans h1.2.2.2⟩

/-- the anchor of an insertion: nothing (append) or the head of `l2`, a child of `p` not in `l1` -/
def Anchor (d : Dom) (p : Id) (m : Option Id) (l1 l2 : List Id) : Prop :=
  match m with
  | none => l2 = []
  | some a => ∃ l2', l2 = a :: l2' ∧ a ∉ l1 ∧ d.getParent a = some p

theorem insertAll_spec (rs : List Id) : ∀ (d : Dom) (p : Id) (m : Option Id) (rp : NodeRec)
    (l1 l2 : List Id),
    d.get? p = some rp → rp.kind.isElem = true → rp.kids = l1 ++ l2 → Anchor d p m l1 l2 →
    rs.Nodup → (∀ r ∈ rs, ∃ rr, d.get? r = some rr ∧ rr.parent = none) →
    p ∉ rs → (∀ r ∈ rs, r ∉ l1 ∧ r ∉ l2) →
    (∃ rp', (insertAll d p m rs).get? p = some rp' ∧ EqModKids rp rp' ∧ rp'.kids = l1 ++ rs ++ l2) ∧
    (∀ r ∈ rs, ∀ rr, d.get? r = some rr →
      (insertAll d p m rs).get? r = some { rr with parent := some p }) ∧
    (∀ x, x ≠ p → x ∉ rs → (insertAll d p m rs).get? x = d.get? x) ∧
    (insertAll d p m rs).next = d.next := by
  induction rs with
  | nil =>
    intro d p m rp l1 l2 hp _ hk _ _ _ _ _
    refine ⟨⟨rp, by simpa [insertAll] using hp, EqModKids.refl _, by simpa using hk⟩, ?_, ?_, ?_⟩
    · intro r hr; simp at hr
    · intro x _ _; simp [insertAll]
    · simp [insertAll]
  | cons r rs ih =>
    intro d p m rp l1 l2 hp hpe hk hm hnd hfree hpn hdisj
    obtain ⟨rr, hr, hrp⟩ := hfree r (by simp)
    have hrne : r ≠ p := fun e => hpn (by simp [e])
    have hr1 := (hdisj r (by simp)).1
    have hr2 := (hdisj r (by simp)).2
    have hsplit : SplitAt d p r m l1 l2 := by
      cases m with
      | none => exact hm
      | some a =>
        obtain ⟨l2', hl2, ha, hpa⟩ := hm
        refine ⟨l2', hl2, ha, hpa, ?_⟩
        intro e; subst e; exact hr2 (by simp [hl2])
    have hget := Dom.get?_insertNode d p r m rp rr l1 l2 hp hpe hr hrp hrne hk hsplit
    let d1 := d.insertNode p r m
    have hd1 : insertAll d p m (r :: rs) = insertAll d1 p m rs := by simp [insertAll, d1]
    have hp1 : d1.get? p = some { rp with kids := l1 ++ r :: l2, muts := rp.muts + 1 } := by
      have := hget p; simp [hrne.symm] at this; exact this
    have hm1 : Anchor d1 p m (l1 ++ [r]) l2 := by
      cases m with
      | none => exact hm
      | some a =>
        obtain ⟨l2', hl2, ha, hpa⟩ := hm
        have har : a ≠ r := by intro e; subst e; exact hr2 (by simp [hl2])
        refine ⟨l2', hl2, by simp [ha, har], ?_⟩
        have hga := hget a
        by_cases hap : a = p
        · subst hap
          simp [Dom.getParent, hp] at hpa
          simp [Dom.getParent, d1, hp1, hpa]
        · simp [har, hap] at hga
          simp only [Dom.getParent, d1, hga]; exact hpa
    have hnd' : rs.Nodup := (List.nodup_cons.mp hnd).2
    have hrn : r ∉ rs := (List.nodup_cons.mp hnd).1
    have hfree' : ∀ x ∈ rs, ∃ rx, d1.get? x = some rx ∧ rx.parent = none := by
      intro x hx
      obtain ⟨rx, h1, h2⟩ := hfree x (by simp [hx])
      have hxr : x ≠ r := fun e => hrn (e ▸ hx)
      have hxp : x ≠ p := fun e => hpn (by simp [← e, hx])
      refine ⟨rx, ?_, h2⟩
      have := hget x; simp [hxr, hxp] at this; simpa [d1, this] using h1
    have hpn' : p ∉ rs := fun h => hpn (by simp [h])
    have hdisj' : ∀ x ∈ rs, x ∉ l1 ++ [r] ∧ x ∉ l2 := by
      intro x hx
      have hxr : x ≠ r := fun e => hrn (e ▸ hx)
      have := hdisj x (by simp [hx])
      simp [this.1, this.2, hxr]
    have hk1 : ({ rp with kids := l1 ++ r :: l2, muts := rp.muts + 1 } : NodeRec).kids
        = (l1 ++ [r]) ++ l2 := by simp
    obtain ⟨⟨rp', h1, h2, h3⟩, h4, h5, h6⟩ :=
      ih d1 p m _ (l1 ++ [r]) l2 hp1 (by simpa using hpe) hk1 hm1 hnd' hfree' hpn' hdisj'
    rw [hd1]
    refine ⟨⟨rp', h1, ?_, by simpa using h3⟩, ?_, ?_, ?_⟩
    · exact ⟨h2.1, h2.2.1, h2.2.2.1, h2.2.2.2⟩
    · intro x hx rx hgx
      simp at hx
      rcases hx with hx | hx
      · subst hx
        have := h5 x hrne hrn
        rw [this]
        have hg := hget x; simp at hg
        rw [hgx] at hr; cases hr
        simpa [d1] using hg
      · have hxr : x ≠ r := fun e => hrn (e ▸ hx)
        have hxp : x ≠ p := fun e => hpn (by simp [← e, hx])
        have hg := hget x; simp [hxr, hxp] at hg
        exact h4 x hx rx (by simpa [d1, hg] using hgx)
    · intro x hxp hxn
      simp at hxn
      have := h5 x hxp hxn.2
      rw [this]
      have hg := hget x; simp [hxn.1, hxp] at hg
      simpa [d1] using hg
    · simpa [d1] using h6

theorem removeAll_spec (rs : List Id) : ∀ (d : Dom) (p : Id) (rp : NodeRec) (l1 l2 : List Id),
    d.get? p = some rp → rp.kids = l1 ++ rs ++ l2 →
    rs.Nodup → (∀ r ∈ rs, ∃ rr, d.get? r = some rr ∧ rr.parent = some p) →
    p ∉ rs → (∀ r ∈ rs, r ∉ l1 ∧ r ∉ l2) →
    (∃ rp', (removeAll d rs).get? p = some rp' ∧ EqModKids rp rp' ∧ rp'.kids = l1 ++ l2) ∧
    (∀ x, x ≠ p → x ∉ rs → (removeAll d rs).get? x = d.get? x) ∧
    (removeAll d rs).next = d.next := by
  induction rs with
  | nil =>
    intro d p rp l1 l2 hp hk _ _ _ _
    refine ⟨⟨rp, by simpa [removeAll] using hp, EqModKids.refl _, by simpa using hk⟩, ?_, ?_⟩
    · intro x _ _; simp [removeAll]
    · simp [removeAll]
  | cons r rs ih =>
    intro d p rp l1 l2 hp hk hnd hpar hpn hdisj
    obtain ⟨rr, hr, hrp⟩ := hpar r (by simp)
    have hrne : r ≠ p := fun e => hpn (by simp [e])
    have hnd' : rs.Nodup := (List.nodup_cons.mp hnd).2
    have hrn : r ∉ rs := (List.nodup_cons.mp hnd).1
    have hget := Dom.get?_remove d p r rp rr hp hr hrp hrne
    let d1 := d.remove r
    have hd1 : removeAll d (r :: rs) = removeAll d1 rs := by simp [removeAll, d1]
    have hfilt : rp.kids.filter (· != r) = l1 ++ rs ++ l2 := by
      rw [hk]
      have : l1 ++ (r :: rs) ++ l2 = l1 ++ r :: (rs ++ l2) := by simp
      rw [this, filter_ne_middle l1 (rs ++ l2) r (hdisj r (by simp)).1
        (by simp [hrn, (hdisj r (by simp)).2])]
      simp
    have hp1 : d1.get? p = some { rp with kids := l1 ++ rs ++ l2, muts := rp.muts + 1 } := by
      have := hget p; simp [hrne.symm, hfilt] at this; simpa [d1] using this
    have hpar' : ∀ x ∈ rs, ∃ rx, d1.get? x = some rx ∧ rx.parent = some p := by
      intro x hx
      obtain ⟨rx, h1, h2⟩ := hpar x (by simp [hx])
      have hxr : x ≠ r := fun e => hrn (e ▸ hx)
      have hxp : x ≠ p := fun e => hpn (by simp [← e, hx])
      refine ⟨rx, ?_, h2⟩
      have := hget x; simp [hxr, hxp] at this; simpa [d1, this] using h1
    have hpn' : p ∉ rs := fun h => hpn (by simp [h])
    have hdisj' : ∀ x ∈ rs, x ∉ l1 ∧ x ∉ l2 := fun x hx => hdisj x (by simp [hx])
    obtain ⟨⟨rp', h1, h2, h3⟩, h5, h6⟩ :=
      ih d1 p _ l1 l2 hp1 (by simp) hnd' hpar' hpn' hdisj'
    rw [hd1]
    refine ⟨⟨rp', h1, ⟨h2.1, h2.2.1, h2.2.2.1, h2.2.2.2⟩, h3⟩, ?_, ?_⟩
    · intro x hxp hxn
      simp at hxn
      rw [h5 x hxp hxn.2]
      have hg := hget x; simp [hxn.1, hxp] at hg
      simpa [d1] using hg
    · simpa [d1] using h6

end Leptos.View
