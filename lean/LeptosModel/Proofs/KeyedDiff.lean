import LeptosModel.Model.Keyed
/-!
# Lemmas about `diff`, `group_adjacent_moves`, `unpack_moves` (C11)
-/
namespace Leptos.Keyed

/-- the single moves a grouped move stands for -/
def singles (m : DiffOpMove) : List DiffOpMove :=
  (List.range m.len).map fun j =>
    { from_ := m.from_ + j, len := 1, to_ := m.to_ + j, moveInDom := m.moveInDom }

theorem singles_succ (m : DiffOpMove) (n : Nat) (h : m.len = n + 1) :
    singles m = { m with len := 1 } ::
      singles { m with len := n, from_ := m.from_ + 1, to_ := m.to_ + 1 } := by
  simp only [singles, h, List.range_succ_eq_map, List.map_cons, List.map_map, Nat.add_zero]
  congr 1
  apply List.map_congr_left
  intro j _
  simp only [Function.comp, Nat.succ_eq_add_one]
  congr 1 <;> omega

theorem singles_one (m : DiffOpMove) (h : m.len = 1) : singles m = [{ m with len := 1 }] := by
  simp [singles, h, List.range_succ_eq_map]

theorem sumLens_cons (m : DiffOpMove) (ms : List DiffOpMove) :
    sumLens (m :: ms) = m.len + sumLens ms := by
  simp [sumLens]

theorem sumLens_nil : sumLens [] = 0 := rfl

/-- `unpack_moves`' loop returns every single move of every group, in order, and every add,
whenever it is given at least as many iterations as there are moves, adds and removals. -/
theorem unpackLoop_complete (fuel : Nat) : ∀ (i : Nat) (rem : List Nat) (ads : List DiffOpAdd)
    (mvs : List DiffOpMove), (∀ m ∈ mvs, 1 ≤ m.len) →
    sumLens mvs + ads.length + rem.length ≤ fuel →
    unpackLoop fuel i rem ads mvs = (mvs.flatMap singles, ads) := by
  induction fuel with
  | zero =>
    intro i rem ads mvs hl hf
    cases mvs with
    | nil =>
      cases ads with
      | nil => simp [unpackLoop]
      | cons a as => simp at hf
    | cons m ms =>
      have := hl m (by simp)
      simp [sumLens_cons] at hf
      omega
  | succ fuel ih =>
    intro i rem ads mvs hl hf
    -- the part of the loop body after the `removes_next` test
    have body : ∀ (rem' : List Nat) (ads : List DiffOpAdd) (mvs : List DiffOpMove),
        (∀ m ∈ mvs, 1 ≤ m.len) → sumLens mvs + ads.length + rem'.length ≤ fuel + 1 →
        (match ads, mvs with
          | a :: as, m :: ms =>
            if (a.at_ == i) = true then
              ((unpackLoop fuel (i + 1) rem' as (m :: ms)).fst,
                a :: (unpackLoop fuel (i + 1) rem' as (m :: ms)).snd)
            else
              ((takeSingle m ms).fst :: (unpackLoop fuel (i + 1) rem' (a :: as) (takeSingle m ms).snd).fst,
                (unpackLoop fuel (i + 1) rem' (a :: as) (takeSingle m ms).snd).snd)
          | a :: as, [] =>
            ((unpackLoop fuel (i + 1) rem' as []).fst, a :: (unpackLoop fuel (i + 1) rem' as []).snd)
          | [], m :: ms =>
            ((takeSingle m ms).fst :: (unpackLoop fuel (i + 1) rem' [] (takeSingle m ms).snd).fst,
              (unpackLoop fuel (i + 1) rem' [] (takeSingle m ms).snd).snd)
          | [], [] => ([], [])) = (mvs.flatMap singles, ads) := by
      intro rem' ads mvs hl hf
      have single : ∀ (m : DiffOpMove) (ms : List DiffOpMove) (ads' : List DiffOpAdd),
          (∀ m' ∈ m :: ms, 1 ≤ m'.len) →
          sumLens (m :: ms) + ads'.length + rem'.length ≤ fuel + 1 →
          (takeSingle m ms).1 :: (unpackLoop fuel (i + 1) rem' ads' (takeSingle m ms).2).1
            = (m :: ms).flatMap singles ∧
          (unpackLoop fuel (i + 1) rem' ads' (takeSingle m ms).2).2 = ads' := by
        intro m ms ads' hl' hf'
        have hm := hl' m (by simp)
        simp only [sumLens_cons] at hf'
        by_cases h1 : m.len = 1
        · have : (takeSingle m ms).2 = ms := by simp [takeSingle, h1]
          rw [this, ih (i + 1) rem' ads' ms (fun m' hm' => hl' m' (by simp [hm'])) (by omega)]
          simp [takeSingle, singles_one m h1]
        · obtain ⟨n, hn⟩ : ∃ n, m.len = n + 1 := ⟨m.len - 1, by omega⟩
          have hn0 : n ≠ 0 := by omega
          have : (takeSingle m ms).2 =
              { m with len := n, from_ := m.from_ + 1, to_ := m.to_ + 1 } :: ms := by
            simp [takeSingle, hn, hn0]
          rw [this, ih (i + 1) rem' ads' _ (by
              intro m' hm'
              simp only [List.mem_cons] at hm'
              rcases hm' with rfl | hm'
              · simp; omega
              · exact hl' m' (by simp [hm'])) (by simp only [sumLens_cons]; omega)]
          simp [takeSingle, singles_succ m n hn]
      cases ads with
      | nil =>
        cases mvs with
        | nil => simp
        | cons m ms =>
          have := single m ms [] hl (by simpa using hf)
          simp only [this.1, this.2]
      | cons a as =>
        cases mvs with
        | nil =>
          simp only
          rw [ih (i + 1) rem' as [] (by simp) (by simp [sumLens_nil] at hf ⊢; omega)]
        | cons m ms =>
          simp only
          split
          · rw [ih (i + 1) rem' as (m :: ms) hl (by simp at hf ⊢; omega)]
          · have := single m ms (a :: as) hl (by simpa using hf)
            simp only [this.1, this.2]
    cases rem with
    | nil =>
      simp only [unpackLoop]
      exact body [] ads mvs hl (by simpa using hf)
    | cons r rs =>
      simp only [unpackLoop]
      split
      · exact ih (i + 1) rs ads mvs hl (by simp at hf; omega)
      · exact body (r :: rs) ads mvs hl (by simpa using hf)

/-! ### group_adjacent_moves -/

/-- `(from, to)` of every single move a list of (grouped) moves stands for -/
def movePairs (ms : List DiffOpMove) : List (Nat × Nat) :=
  (ms.flatMap singles).map fun m => (m.from_, m.to_)

theorem movePairs_append (a b : List DiffOpMove) : movePairs (a ++ b) = movePairs a ++ movePairs b := by
  simp [movePairs]

theorem movePairs_single_grow (p : DiffOpMove) :
    movePairs [{ p with len := p.len + 1 }] = movePairs [p] ++ [(p.from_ + p.len, p.to_ + p.len)] := by
  simp [movePairs, singles, List.range_succ]

theorem movePairs_len_one (m : DiffOpMove) (h : m.len = 1) : movePairs [m] = [(m.from_, m.to_)] := by
  simp [movePairs, singles, h, List.range_succ]

/-! #### before the repair -/

theorem groupLoopOld_pairs (ms : List DiffOpMove) : ∀ (prev : Option DiffOpMove) (out : List DiffOpMove),
    (∀ m ∈ ms, m.len = 1) →
    movePairs (groupLoopOld ms prev out)
      = movePairs out ++ movePairs prev.toList ++ ms.map fun m => (m.from_, m.to_) := by
  induction ms with
  | nil =>
    intro prev out _
    cases prev <;> simp [groupLoopOld, movePairs]
  | cons m ms ih =>
    intro prev out h1
    have hm := h1 m (by simp)
    have hms : ∀ m' ∈ ms, m'.len = 1 := fun m' h => h1 m' (by simp [h])
    cases prev with
    | none =>
      simp only [groupLoopOld]
      rw [ih _ _ hms]
      simp [movePairs, singles, hm, List.range_succ]
    | some p =>
      simp only [groupLoopOld]
      split
      · rename_i hc
        simp only [Bool.and_eq_true, beq_iff_eq] at hc
        rw [ih _ _ hms]
        simp only [Option.toList_some, movePairs_single_grow, List.map_cons, hc.1, hc.2]
        simp
      · rw [ih _ _ hms]
        simp [movePairs_append, movePairs_len_one m hm]

theorem groupLoopOld_len_pos (ms : List DiffOpMove) : ∀ (prev : Option DiffOpMove) (out : List DiffOpMove),
    (∀ m ∈ ms, 1 ≤ m.len) → (∀ m ∈ prev.toList, 1 ≤ m.len) → (∀ m ∈ out, 1 ≤ m.len) →
    ∀ m ∈ groupLoopOld ms prev out, 1 ≤ m.len := by
  induction ms with
  | nil =>
    intro prev out _ hp ho
    cases prev with
    | none => simpa [groupLoopOld] using ho
    | some p =>
      simp only [groupLoopOld, List.mem_append, List.mem_singleton]
      rintro m (h | rfl)
      · exact ho m h
      · exact hp _ (by simp)
  | cons m ms ih =>
    intro prev out h1 hp ho
    have hms : ∀ m' ∈ ms, 1 ≤ m'.len := fun m' h => h1 m' (by simp [h])
    cases prev with
    | none =>
      simp only [groupLoopOld]
      exact ih _ _ hms (by simpa using h1 m (by simp)) ho
    | some p =>
      simp only [groupLoopOld]
      split
      · exact ih _ _ hms (by simp) ho
      · refine ih _ _ hms (by simpa using h1 m (by simp)) ?_
        simp only [List.mem_append, List.mem_singleton]
        rintro m' (h | rfl)
        · exact ho m' h
        · exact hp _ (by simp)

theorem groupOld_pairs (ms : List DiffOpMove) (h : ∀ m ∈ ms, m.len = 1) :
    movePairs (groupAdjacentMovesOld ms) = ms.map fun m => (m.from_, m.to_) := by
  rw [groupAdjacentMovesOld, groupLoopOld_pairs ms none [] h]
  simp [movePairs]

theorem groupOld_len_pos (ms : List DiffOpMove) (h : ∀ m ∈ ms, m.len = 1) :
    ∀ m ∈ groupAdjacentMovesOld ms, 1 ≤ m.len :=
  groupLoopOld_len_pos ms none [] (fun m hm => by simp [h m hm]) (by simp) (by simp)

/-! #### after the repair -/

theorem singles_grow (p m : DiffOpMove) (hm : m.len = 1) (h1 : m.from_ = p.from_ + p.len)
    (h2 : m.to_ = p.to_ + p.len) (h3 : m.moveInDom = p.moveInDom) :
    singles { p with len := p.len + 1 } = singles p ++ [m] := by
  simp only [singles, List.range_succ, List.map_append, List.map_cons, List.map_nil]
  congr 1
  cases m
  simp_all

/-- grouping (after the repair) followed by splitting gives back the single moves, flags included -/
theorem groupLoop_singles (ms : List DiffOpMove) : ∀ (prev : Option DiffOpMove) (out : List DiffOpMove),
    (∀ m ∈ ms, m.len = 1) →
    (groupLoop ms prev out).flatMap singles
      = out.flatMap singles ++ prev.toList.flatMap singles ++ ms := by
  induction ms with
  | nil =>
    intro prev out _
    cases prev <;> simp [groupLoop]
  | cons m ms ih =>
    intro prev out h1
    have hm := h1 m (by simp)
    have hms : ∀ m' ∈ ms, m'.len = 1 := fun m' h => h1 m' (by simp [h])
    cases prev with
    | none =>
      simp only [groupLoop]
      rw [ih _ _ hms]
      simp [singles_one m hm]
      cases m; simp_all
    | some p =>
      simp only [groupLoop]
      split
      · rename_i hc
        simp only [Bool.and_eq_true, beq_iff_eq] at hc
        rw [ih _ _ hms]
        simp only [Option.toList_some, List.flatMap_cons, List.flatMap_nil, List.append_nil,
          singles_grow p m hm hc.1.1 hc.1.2 hc.2]
        simp
      · rw [ih _ _ hms]
        simp [singles_one m hm]
        cases m; simp_all

theorem groupLoop_len_pos (ms : List DiffOpMove) : ∀ (prev : Option DiffOpMove) (out : List DiffOpMove),
    (∀ m ∈ ms, 1 ≤ m.len) → (∀ m ∈ prev.toList, 1 ≤ m.len) → (∀ m ∈ out, 1 ≤ m.len) →
    ∀ m ∈ groupLoop ms prev out, 1 ≤ m.len := by
  induction ms with
  | nil =>
    intro prev out _ hp ho
    cases prev with
    | none => simpa [groupLoop] using ho
    | some p =>
      simp only [groupLoop, List.mem_append, List.mem_singleton]
      rintro m (h | rfl)
      · exact ho m h
      · exact hp _ (by simp)
  | cons m ms ih =>
    intro prev out h1 hp ho
    have hms : ∀ m' ∈ ms, 1 ≤ m'.len := fun m' h => h1 m' (by simp [h])
    cases prev with
    | none =>
      simp only [groupLoop]
      exact ih _ _ hms (by simpa using h1 m (by simp)) ho
    | some p =>
      simp only [groupLoop]
      split
      · exact ih _ _ hms (by simp) ho
      · refine ih _ _ hms (by simpa using h1 m (by simp)) ?_
        simp only [List.mem_append, List.mem_singleton]
        rintro m' (h | rfl)
        · exact ho m' h
        · exact hp _ (by simp)

theorem group_singles (ms : List DiffOpMove) (h : ∀ m ∈ ms, m.len = 1) :
    (groupAdjacentMoves ms).flatMap singles = ms := by
  rw [groupAdjacentMoves, groupLoop_singles ms none [] h]
  simp

theorem group_pairs (ms : List DiffOpMove) (h : ∀ m ∈ ms, m.len = 1) :
    movePairs (groupAdjacentMoves ms) = ms.map fun m => (m.from_, m.to_) := by
  rw [movePairs, group_singles ms h]

theorem group_len_pos (ms : List DiffOpMove) (h : ∀ m ∈ ms, m.len = 1) :
    ∀ m ∈ groupAdjacentMoves ms, 1 ≤ m.len :=
  groupLoop_len_pos ms none [] (fun m hm => by simp [h m hm]) (by simp) (by simp)

/-! ### the loop of `diff` -/

/-- index `i` of `from` holds a key that is not in `to` -/
def isRem (f t : List Key) (i : Nat) : Bool :=
  match f[i]? with
  | some k => !t.contains k
  | none => false

/-- index `i` of `to` holds a key that is not in `from` -/
def isAdd (f t : List Key) (i : Nat) : Bool :=
  match t[i]? with
  | some k => !f.contains k
  | none => false

/-- index `i` of `from` holds a key that is at another index `j` of `to` -/
def mvPair (f t : List Key) (i : Nat) : Option (Nat × Nat) :=
  match f[i]? with
  | some k => if f[i]? != t[i]? then (t.idxOf? k).map fun j => (i, j) else none
  | none => none

theorem contains_of_getElem? {l : List Key} {i : Nat} {k : Key} (h : l[i]? = some k) :
    l.contains k = true := by
  simp only [List.contains_iff_mem]
  exact List.mem_of_getElem? h

/-! #### before the repair -/

theorem diffStepOld_removed (f t : List Key) (acc : DiffAccOld) (i : Nat) :
    (diffStepOld f t acc i).removed = acc.removed ++ (if isRem f t i then [i] else []) := by
  unfold diffStepOld isRem
  cases hf : f[i]? with
  | none =>
    cases ht : t[i]? <;> simp
  | some k =>
    cases ht : t[i]? with
    | none => simp; split <;> simp_all
    | some k' =>
      by_cases hk : k = k'
      · subst hk
        simp [List.mem_of_getElem? ht]
      · simp [hk]; split <;> simp_all

theorem diffStepOld_added (f t : List Key) (acc : DiffAccOld) (i : Nat) :
    (diffStepOld f t acc i).added
      = acc.added ++ (if isAdd f t i then [{ at_ := i, mode := .normal }] else []) := by
  unfold diffStepOld isAdd
  cases hf : f[i]? with
  | none =>
    cases ht : t[i]? with
    | none => simp
    | some k' => simp; split <;> simp_all
  | some k =>
    cases ht : t[i]? with
    | none => simp
    | some k' =>
      by_cases hk : k = k'
      · subst hk
        simp [List.mem_of_getElem? hf]
      · simp [hk]; split <;> simp_all

theorem diffStepOld_moved (f t : List Key) (acc : DiffAccOld) (i : Nat) :
    ∃ b, (diffStepOld f t acc i).moved = acc.moved ++
      ((mvPair f t i).map fun p => ({ from_ := p.1, len := 1, to_ := p.2, moveInDom := b } : DiffOpMove)).toList := by
  unfold diffStepOld mvPair
  cases hf : f[i]? with
  | none =>
    cases ht : t[i]? <;> simp
  | some k =>
    by_cases hne : (some k != t[i]?) = true
    · simp only [hne, if_true]
      cases hi : List.idxOf? k t with
      | none => simp
      | some j => exact ⟨_, rfl⟩
    · simp [hne]

/-- what the three vectors hold after the loop has run over `0..n` -/
theorem diffFoldOld (f t : List Key) (n : Nat) :
    let acc := (List.range n).foldl (diffStepOld f t) {}
    acc.removed = (List.range n).filter (isRem f t) ∧
    acc.added = ((List.range n).filter (isAdd f t)).map (fun i => { at_ := i, mode := .normal }) ∧
    (acc.moved.map fun m => (m.from_, m.to_)) = (List.range n).filterMap (mvPair f t) ∧
    ∀ m ∈ acc.moved, m.len = 1 := by
  induction n with
  | zero => simp
  | succ n ih =>
    simp only [List.range_succ, List.foldl_append, List.foldl_cons, List.foldl_nil]
    obtain ⟨h1, h2, h3, h4⟩ := ih
    refine ⟨?_, ?_, ?_, ?_⟩
    · rw [diffStepOld_removed, h1]; simp [List.filter_append]; split <;> simp_all
    · rw [diffStepOld_added, h2]; simp [List.filter_append]; split <;> simp_all
    · obtain ⟨b, hb⟩ := diffStepOld_moved f t ((List.range n).foldl (diffStepOld f t) {}) n
      rw [hb, List.map_append, h3, List.filterMap_append]
      cases h : mvPair f t n <;> simp [h]
    · obtain ⟨b, hb⟩ := diffStepOld_moved f t ((List.range n).foldl (diffStepOld f t) {}) n
      rw [hb]
      intro m hm
      simp only [List.mem_append] at hm
      rcases hm with hm | hm
      · exact h4 m hm
      · cases hp : mvPair f t n <;> simp [hp] at hm
        subst hm; rfl

/-! #### after the repair -/

theorem diffStep_removed (f t : List Key) (acc : DiffAcc) (i : Nat) :
    (diffStep f t acc i).removed = acc.removed ++ (if isRem f t i then [i] else []) := by
  unfold diffStep isRem
  cases hf : f[i]? with
  | none =>
    cases ht : t[i]? <;> simp
  | some k =>
    cases ht : t[i]? with
    | none =>
      simp only [show (some k == (none : Option Key)) = false from rfl]
      cases List.idxOf? k t <;> simp <;> split <;> simp_all
    | some k' =>
      by_cases hk : k = k'
      · subst hk
        simp [List.mem_of_getElem? ht]
      · have : (some k == some k') = false := by simp [hk]
        simp only [this]
        cases List.idxOf? k t <;> simp <;> split <;> simp_all

theorem diffStep_added (f t : List Key) (acc : DiffAcc) (i : Nat) :
    (diffStep f t acc i).added
      = acc.added ++ (if isAdd f t i then [{ at_ := i, mode := .normal }] else []) := by
  unfold diffStep isAdd
  cases hf : f[i]? with
  | none =>
    cases ht : t[i]? with
    | none => simp
    | some k' =>
      simp only [show ((none : Option Key) == some k') = false from rfl]
      simp; split <;> simp_all
  | some k =>
    cases ht : t[i]? with
    | none =>
      simp only [show (some k == (none : Option Key)) = false from rfl]
      cases List.idxOf? k t <;> simp
    | some k' =>
      by_cases hk : k = k'
      · subst hk
        simp [List.mem_of_getElem? hf]
      · have : (some k == some k') = false := by simp [hk]
        simp only [this]
        cases List.idxOf? k t <;> simp <;> split <;> simp_all

theorem diffStep_moved (f t : List Key) (acc : DiffAcc) (i : Nat) :
    ∃ b, (diffStep f t acc i).moved = acc.moved ++
      ((mvPair f t i).map fun p => ({ from_ := p.1, len := 1, to_ := p.2, moveInDom := b } : DiffOpMove)).toList := by
  unfold diffStep mvPair
  cases hf : f[i]? with
  | none =>
    cases ht : t[i]? <;> simp
  | some k =>
    by_cases hne : (some k == t[i]?) = true
    · have : (some k != t[i]?) = false := by simp [bne, hne]
      simp [hne, this]
    · have hne' : (some k == t[i]?) = false := by simpa using hne
      have : (some k != t[i]?) = true := by simp [bne, hne']
      simp only [hne', this, if_true]
      cases hi : List.idxOf? k t with
      | none => simp
      | some j => exact ⟨_, rfl⟩

/-- what the three vectors hold after the loop has run over `0..n` -/
theorem diffFold (f t : List Key) (n : Nat) :
    let acc := (List.range n).foldl (diffStep f t) {}
    acc.removed = (List.range n).filter (isRem f t) ∧
    acc.added = ((List.range n).filter (isAdd f t)).map (fun i => { at_ := i, mode := .normal }) ∧
    (acc.moved.map fun m => (m.from_, m.to_)) = (List.range n).filterMap (mvPair f t) ∧
    ∀ m ∈ acc.moved, m.len = 1 := by
  induction n with
  | zero => simp
  | succ n ih =>
    simp only [List.range_succ, List.foldl_append, List.foldl_cons, List.foldl_nil]
    obtain ⟨h1, h2, h3, h4⟩ := ih
    refine ⟨?_, ?_, ?_, ?_⟩
    · rw [diffStep_removed, h1]; simp [List.filter_append]; split <;> simp_all
    · rw [diffStep_added, h2]; simp [List.filter_append]; split <;> simp_all
    · obtain ⟨b, hb⟩ := diffStep_moved f t ((List.range n).foldl (diffStep f t) {}) n
      rw [hb, List.map_append, h3, List.filterMap_append]
      cases h : mvPair f t n <;> simp [h]
    · obtain ⟨b, hb⟩ := diffStep_moved f t ((List.range n).foldl (diffStep f t) {}) n
      rw [hb]
      intro m hm
      simp only [List.mem_append] at hm
      rcases hm with hm | hm
      · exact h4 m hm
      · cases hp : mvPair f t n <;> simp [hp] at hm
        subst hm; rfl
end Leptos.Keyed
