import LeptosModel.Model.Hydrate
import LeptosModel.Proofs.Html
/-! Helper lemmas for C05, part 1: the HTML parser reads the SSR string of a `View` as `dom v pos`
(the C06 tokenizer lemmas `run_startTag`, `run_endTag`, `run_marker`, `run_textBody` carry the
strings and attributes; this file adds the marker-emitting constructors). -/
namespace Leptos.Hydrate
open Leptos.View
open Leptos.Html (Frame PState Tok run headIsText modeOfTag curMode)

mutual
/-- the views `C05_parse_print` covers; `anc` = tags of the open elements, innermost first.
Strings free of NUL/CR (F-C06-3/4), ordinary containers and void elements of the parser table in a
nesting the tree builder accepts, attributes with tokenizable pairwise distinct names. -/
def wfV (anc : List Str) : View → Bool
  | .text s => Html.clean s.toList
  | .unit => true
  | .elem tag as c =>
    Html.attrsOK (attrsOf as) && Html.nestOK tag.toList anc &&
      ((Html.genericOK tag.toList && wfV (tag.toList :: anc) c) ||
       (Html.voidOK tag.toList && !viewExists c))
  | .tuple vs => wfL anc vs
  | .onone => true
  | .osome v => wfV anc v
  | .either _ _ v => wfV anc v
  | .vec vs => wfL anc vs
  | .any _ v => wfV anc v
def wfL (anc : List Str) : List View → Bool
  | [] => true
  | v :: vs => wfV anc v && wfL anc vs
end

theorem headIsText_comment (k : List HTree) : headIsText (Html.Tree.comment [] :: k) = false := rfl

mutual
theorem run_view : (v : View) → ∀ (f : Frame) (fs : List Frame) (pos : Position),
    wfV ((f :: fs).map (·.tag)) v = true → modeOfTag f.tag = .data →
    (pos = .nextChildAfterText ↔ headIsText f.kidsRev = true) →
    run ⟨.text, f :: fs⟩ (html true v pos) =
        some ⟨.text, { f with kidsRev := (dom v pos).reverse ++ f.kidsRev } :: fs⟩ ∧
      (after true v pos = .nextChildAfterText ↔ headIsText ((dom v pos).reverse ++ f.kidsRev) = true)
  | .text s, f, fs, pos, hw, hm, hp => by
    have hs : Html.clean s.toList = true := by simpa [wfV] using hw
    have hm' : curMode (f :: fs) = .data := hm
    refine ⟨?_, by simp [after, dom, textNode, headIsText]⟩
    simp only [html, textBody, dom, textNode, if_true, marker]
    by_cases ha : pos = .nextChildAfterText
    · simp only [ha, if_true]
      rw [Html.run_append, Html.run_marker hm', Option.bind_some]
      have := Html.run_textBody (f := { f with kidsRev := .comment [] :: f.kidsRev }) (fs := fs)
        (Or.inl hm) s.toList hs rfl
      simp only [this]
      simp
    · have hk : headIsText f.kidsRev = false := by
        cases h : headIsText f.kidsRev with
        | false => rfl
        | true => exact absurd (hp.mpr h) ha
      simp only [ha, if_false, List.nil_append]
      rw [Html.run_textBody (Or.inl hm') s.toList hs hk]
      simp
  | .unit, f, fs, pos, _, hm, _ => by
    have hm' : curMode (f :: fs) = .data := hm
    refine ⟨?_, by simp [after, dom, headIsText]⟩
    simp only [html, if_true, marker, dom]
    rw [Html.run_marker hm']
    simp
  | .onone, f, fs, pos, _, hm, _ => by
    have hm' : curMode (f :: fs) = .data := hm
    refine ⟨?_, by simp [after, dom, headIsText]⟩
    simp only [html, if_true, marker, dom]
    rw [Html.run_marker hm']
    simp
  | .osome v, f, fs, pos, hw, hm, hp => by
    have := run_view v f fs pos (by simpa [wfV] using hw) hm hp
    simpa [html, dom, after] using this
  | .either _ _ v, f, fs, pos, hw, hm, hp => by
    have := run_view v f fs pos (by simpa [wfV] using hw) hm hp
    simpa [html, dom, after] using this
  | .any _ v, f, fs, pos, hw, hm, hp => by
    have := run_view v f fs pos (by simpa [wfV] using hw) hm hp
    simpa [html, dom, after] using this
  | .tuple vs, f, fs, pos, hw, hm, hp => by
    have := run_list vs f fs pos (by simpa [wfV] using hw) hm hp
    simpa [html, dom, after] using this
  | .vec vs, f, fs, pos, hw, hm, hp => by
    have hm' : curMode (f :: fs) = .data := hm
    obtain ⟨h1, _⟩ := run_list vs f fs pos (by simpa [wfV] using hw) hm hp
    refine ⟨?_, by simp [after, dom, headIsText]⟩
    simp only [html, dom, if_true, marker]
    rw [Html.run_append, h1, Option.bind_some]
    have hm2 : curMode ({ f with kidsRev := (domL vs pos).reverse ++ f.kidsRev } :: fs) = .data := hm
    rw [Html.run_marker hm2]
    simp
  | .elem tag as c, f, fs, pos, hw, hm, _ => by
    have hm' : curMode (f :: fs) = .data := hm
    refine ⟨?_, by simp [after, dom, headIsText]⟩
    simp only [wfV, Bool.and_eq_true, Bool.or_eq_true] at hw
    obtain ⟨⟨hattrs, hnest⟩, hcase⟩ := hw
    have hnest' : Html.nestOK tag.toList (f.tag :: List.map (fun x => x.tag) fs) = true := by simpa using hnest
    have hopen := Html.run_startTag (st := f :: fs) hm' (tag := tag.toList) (attrs := attrsOf as)
    rcases hcase with ⟨hg, hkids⟩ | ⟨hv, hne⟩
    · -- ordinary container
      simp only [Html.genericOK, Bool.and_eq_true, decide_eq_true_eq, Bool.not_eq_true', bne_iff_ne, ne_eq] at hg
      obtain ⟨⟨⟨⟨hkind, hnv⟩, hesc⟩, hchars⟩, hnta⟩ := hg
      have hstart : Html.emitStart ⟨tag.toList, Html.expectedAttrs (attrsOf as)⟩ false (f :: fs) =
          some ⟨.text, ⟨tag.toList, Html.expectedAttrs (attrsOf as), []⟩ :: f :: fs⟩ := by
        simp only [Html.emitStart]
        simp [hnest', hkind, hnta]
      have hmk : modeOfTag tag.toList = .data := Html.modeOfTag_generic hkind
      have hkidsRun : run ⟨.text, ⟨tag.toList, Html.expectedAttrs (attrsOf as), []⟩ :: f :: fs⟩
            (if viewExists c then html true c .firstChild else []) =
          some ⟨.text, ⟨tag.toList, Html.expectedAttrs (attrsOf as),
            (if viewExists c then dom c .firstChild else []).reverse⟩ :: f :: fs⟩ := by
        by_cases hex : viewExists c = true
        · have ih := (run_view c ⟨tag.toList, Html.expectedAttrs (attrsOf as), []⟩ (f :: fs) .firstChild
            (by simpa using hkids) hmk (by simp [headIsText])).1
          simpa [hex] using ih
        · simp [hex, run]
      have hclose : run ⟨.text, ⟨tag.toList, Html.expectedAttrs (attrsOf as),
            (if viewExists c then dom c .firstChild else []).reverse⟩ :: f :: fs⟩
          ('<' :: '/' :: tag.toList ++ ['>']) =
          some ⟨.text, { f with kidsRev := (Html.Tree.elem tag.toList (Html.expectedAttrs (attrsOf as))
            (if viewExists c then dom c .firstChild else []) :: f.kidsRev) } :: fs⟩ := by
        rw [Html.run_endTag (by exact hmk) hchars]
        simp [Html.emitEnd]
      have e : html true (.elem tag as c) pos =
          ('<' :: tag.toList ++ Html.attrsHtml (attrsOf as) ++ ['>']) ++
            ((if viewExists c then html true c .firstChild else []) ++ ('<' :: '/' :: tag.toList ++ ['>'])) := by
        simp [html, isVoidT, hnv, escKids, hesc, kidsBody, hnta]
      rw [e, Html.run_append, hopen hchars hattrs, hstart, Option.bind_some, Html.run_append, hkidsRun,
        Option.bind_some, hclose]
      simp [dom, isVoidT, hnv]
    · -- void element
      simp only [Html.voidOK, Bool.and_eq_true, decide_eq_true_eq] at hv
      obtain ⟨⟨hkind, hisv⟩, hchars⟩ := hv
      have hstart : Html.emitStart ⟨tag.toList, Html.expectedAttrs (attrsOf as)⟩ false (f :: fs) =
          some ⟨.text, { f with kidsRev := (Html.Tree.elem tag.toList (Html.expectedAttrs (attrsOf as)) [] :: f.kidsRev) } :: fs⟩ := by
        simp only [Html.emitStart]
        simp [hnest', hkind, Html.pushTree]
      have e : html true (.elem tag as c) pos = ('<' :: tag.toList ++ Html.attrsHtml (attrsOf as) ++ ['>']) := by
        simp [html, isVoidT, hisv]
      rw [e, hopen hchars hattrs, hstart]
      simp [dom, isVoidT, hisv]
theorem run_list : (vs : List View) → ∀ (f : Frame) (fs : List Frame) (pos : Position),
    wfL ((f :: fs).map (·.tag)) vs = true → modeOfTag f.tag = .data →
    (pos = .nextChildAfterText ↔ headIsText f.kidsRev = true) →
    run ⟨.text, f :: fs⟩ (htmlL true vs pos) =
        some ⟨.text, { f with kidsRev := (domL vs pos).reverse ++ f.kidsRev } :: fs⟩ ∧
      (afterL true vs pos = .nextChildAfterText ↔ headIsText ((domL vs pos).reverse ++ f.kidsRev) = true)
  | [], f, fs, pos, _, _, hp => by simpa [htmlL, domL, afterL, run] using hp
  | v :: vs, f, fs, pos, hw, hm, hp => by
    simp only [wfL, Bool.and_eq_true] at hw
    obtain ⟨h1, hp'⟩ := run_view v f fs pos hw.1 hm hp
    obtain ⟨h2, hp''⟩ := run_list vs { f with kidsRev := (dom v pos).reverse ++ f.kidsRev } fs (after true v pos)
      hw.2 hm hp'
    refine ⟨?_, ?_⟩
    · simp only [htmlL, Html.run_append, h1, Option.bind_some, h2, domL]
      simp
    · simpa [afterL, domL] using hp''
end

end Leptos.Hydrate
