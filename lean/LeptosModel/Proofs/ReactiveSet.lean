import LeptosModel.Proofs.ReactiveMark
/-!
# Proofs/ReactiveSet — `setSignal` preserves the invariant
-/
namespace Leptos.Reactive

theorem InvR.closed' {p : Prog} {s : State} (h : InvR p s) : Closed s := h.closed

theorem InvR.subsInc {p : Prog} {s : State} (h : InvR p s) : SubsInc s :=
  fun x w hw => h.srcLt w x ((h.edge x w).1 hw)

/-- facts about the state after a signal write -/
structure SetPost (s s' : State) (x : Nat) (v : Int) : Prop where
  len : s'.nodes.length = s.nodes.length
  obs : s'.obs = s.obs
  kind : ∀ i, (s'.get i).kind = (s.get i).kind
  running : ∀ i, (s'.get i).running = (s.get i).running
  valx : (s'.get x).val = some v
  val : ∀ i, i ≠ x → (s'.get i).val = (s.get i).val
  seen : ∀ i, (s'.get i).seen = (s.get i).seen
  runs : ∀ i, (s'.get i).runs = (s.get i).runs
  verx : (s'.get x).ver = (s.get x).ver + 1
  ver : ∀ i, i ≠ x → (s'.get i).ver = (s.get i).ver
  log : LogOK s → LogOK s'
  logx : LogExt QuietEv s s'
  logs : ∃ w, s'.log = s.log ++ .set x :: w ∧ ∀ ev ∈ w, WokeEv ev

theorem setSignal_inv {p : Prog} {s : State} (h : InvR p s) {x : Nat} {v0 : Int}
    (hx : p[x]? = some (.sig v0)) (v : Int) {f : Nat} (hf : s.nodes.length ≤ f) :
    InvR p (setSignal f s x v) ∧ SetPost s (setSignal f s x v) x v := by
  have hxk : (s.get x).kind = .sig := h.kind x _ hx
  have hxlt : x < s.nodes.length := by
    rw [h.len]
    rcases Nat.lt_or_ge x p.length with h' | h'
    · exact h'
    · rw [List.getElem?_eq_none h'] at hx; cases hx
  unfold setSignal sigNotify
  generalize hs1 : ((s.upd x fun n => { n with val := some v, ver := n.ver + 1 }).emit (.set x)) = s1
  have g1 : ∀ i, i ≠ x → s1.get i = s.get i := by
    intro i hi; subst hs1; rw [State.emit_get, State.get_upd_ne _ _ (Ne.symm hi)]
  have g1x : s1.get x = { s.get x with val := some v, ver := (s.get x).ver + 1 } := by
    subst hs1; rw [State.emit_get, State.get_upd_same _ _ hxlt]
  have len1 : s1.nodes.length = s.nodes.length := by subst hs1; simp
  have obs1 : s1.obs = s.obs := by subst hs1; rfl
  have log1 : LogOK s → LogOK s1 := by
    intro hl; subst hs1; exact LogOK.emit (s := s.upd x _) hl (by intro i; simp)
  -- field facts for s1
  have k1 : ∀ i, (s1.get i).kind = (s.get i).kind := by
    intro i; by_cases hi : i = x
    · subst hi; rw [g1x]
    · rw [g1 i hi]
  have st1 : ∀ i, (s1.get i).st = (s.get i).st := by
    intro i; by_cases hi : i = x
    · subst hi; rw [g1x]
    · rw [g1 i hi]
  have subs1 : ∀ i, (s1.get i).subs = (s.get i).subs := by
    intro i; by_cases hi : i = x
    · subst hi; rw [g1x]
    · rw [g1 i hi]
  have src1 : ∀ i, (s1.get i).sources = (s.get i).sources := by
    intro i; by_cases hi : i = x
    · subst hi; rw [g1x]
    · rw [g1 i hi]
  have run1 : ∀ i, (s1.get i).running = (s.get i).running := by
    intro i; by_cases hi : i = x
    · subst hi; rw [g1x]
    · rw [g1 i hi]
  have seen1 : ∀ i, (s1.get i).seen = (s.get i).seen := by
    intro i; by_cases hi : i = x
    · subst hi; rw [g1x]
    · rw [g1 i hi]
  have runs1 : ∀ i, (s1.get i).runs = (s.get i).runs := by
    intro i; by_cases hi : i = x
    · subst hi; rw [g1x]
    · rw [g1 i hi]
  have hinc1 : SubsInc s1 := fun a w hw => h.subsInc a w (by rw [← subs1]; exact hw)
  have hcl1 : Closed s1 := by
    intro a w hk ha hw hkw
    rw [k1] at hk hkw; rw [st1] at ha ⊢; rw [subs1] at hw
    exact h.closed a w hk ha hw hkw
  have hfold := foldl_markD f (s1.get x).subs s1 hinc1 (by rw [len1]; exact hf)
  generalize (s1.get x).subs.foldl (fun s x => markDirty f s x) s1 = s' at hfold
  obtain ⟨hD, hall⟩ := hfold
  have hr := hD.rel
  have hcl' : Closed s' := hcl1.of_markD hD
  -- field facts for s'
  have kE : ∀ i, (s'.get i).kind = (s.get i).kind := fun i => (hr.kind i).trans (k1 i)
  have subsE : ∀ i, (s'.get i).subs = (s.get i).subs := fun i => (hr.subs i).trans (subs1 i)
  have srcE : ∀ i, (s'.get i).sources = (s.get i).sources := fun i => (hr.sources i).trans (src1 i)
  have runE : ∀ i, (s'.get i).running = (s.get i).running := fun i => (hr.running i).trans (run1 i)
  have seenE : ∀ i, (s'.get i).seen = (s.get i).seen := fun i => (hr.seen i).trans (seen1 i)
  have runsE : ∀ i, (s'.get i).runs = (s.get i).runs := fun i => (hr.runs i).trans (runs1 i)
  have valE : ∀ i, i ≠ x → (s'.get i).val = (s.get i).val := fun i hi => by rw [hr.val, g1 i hi]
  have valx : (s'.get x).val = some v := by rw [hr.val, g1x]
  have verE : ∀ i, i ≠ x → (s'.get i).ver = (s.get i).ver := fun i hi => by rw [hr.ver, g1 i hi]
  have verx : (s'.get x).ver = (s.get x).ver + 1 := by rw [hr.ver, g1x]
  have verMono : ∀ i, (s.get i).ver ≤ (s'.get i).ver := by
    intro i; by_cases hi : i = x
    · subst hi; rw [verx]; omega
    · rw [verE i hi]; exact Nat.le_refl _
  have ncE : ∀ i, (s.get i).st ≠ .clean → (s'.get i).st ≠ .clean := fun i hi =>
    hr.nonclean (by rw [st1]; exact hi)
  have dE : ∀ i, (s.get i).st = .dirty → (s'.get i).st = .dirty := fun i hi =>
    hr.dirty (by rw [st1]; exact hi)
  have ndE : ∀ i, (s'.get i).st ≠ .dirty → (s.get i).st ≠ .dirty := fun i hi hd => hi (dE i hd)
  have subDirty : ∀ m, (s.get m).kind = .memo → x ∈ (s.get m).sources → (s'.get m).st = .dirty := by
    intro m hk hm
    have : m ∈ (s1.get x).subs := by rw [subs1]; exact (h.edge x m).2 hm
    exact hall m this (by rw [k1]; exact hk)
  have memo_ne_x : ∀ m, (s.get m).kind = .memo → m ≠ x := by
    intro m hk hmx; subst hmx; rw [hxk] at hk; cases hk
  have logx1 : LogExt QuietEv s s1 := by
    rw [← hs1]
    exact ⟨[.set x], rfl, fun ev hev => by
      rw [List.mem_singleton.1 hev]; exact ⟨by intro i; simp, by intro i; simp⟩⟩
  have hlx : LogExt QuietEv s s' := logx1.trans (hr.logx.mono (fun _ h => h.quiet))
  have hls : ∃ w, s'.log = s.log ++ .set x :: w ∧ ∀ ev ∈ w, WokeEv ev := by
    obtain ⟨w, hw, gw⟩ := hr.logx
    refine ⟨w, ?_, gw⟩
    rw [hw, ← hs1]
    simp
  refine ⟨?_, ⟨hr.len.trans len1, hr.obs.trans obs1, kE, runE, valx, valE, seenE, runsE, verx, verE,
    fun hl => hr.log (log1 hl), hlx, hls⟩⟩
  constructor
  · exact (hr.len.trans len1).trans h.len
  · intro i d hd; rw [kE]; exact h.kind i d hd
  · intro i hi hk
    rw [kE] at hk
    have := h.sigOk i hi hk
    refine ⟨?_, by rw [runE]; exact this.2.1, ?_⟩
    · rw [hr.notMemo i (by rw [k1, hk]; simp), st1]; exact this.1
    · by_cases hix : i = x
      · subst hix; exact ⟨v, valx⟩
      · rw [valE i hix]; exact this.2.2
  · intro o ho; rw [hr.obs, obs1] at ho; rw [runE]; exact h.obsRun o ho
  · intro a w; rw [subsE, srcE]; exact h.edge a w
  · intro a; rw [subsE]; exact h.nodup a
  · intro w a ha; rw [srcE] at ha; exact h.srcLt w a ha
  · intro r hk hrun; rw [kE] at hk; rw [runE] at hrun; exact ncE r (h.runNC r hk hrun)
  · exact hcl'
  · intro m hk hrun; rw [kE] at hk; rw [runE] at hrun; rw [srcE, seenE]; exact h.srcSeen m hk hrun
  · intro m hk hrun hv
    rw [kE] at hk; rw [runE] at hrun; rw [valE m (memo_ne_x m hk)] at hv
    exact dE m (h.valNone m hk hrun hv)
  · intro m hk hrun hst
    rw [kE] at hk; rw [runE] at hrun
    exact (h.replay m hk hrun (ndE m hst)).congr (seenE m) (valE m (memo_ne_x m hk))
  · intro m hk hrun hst e he
    rw [kE] at hk; rw [runE] at hrun; rw [seenE] at he
    have hnd := ndE m hst
    by_cases hex : e.1 = x
    · exfalso
      apply hst
      apply subDirty m hk
      rw [h.srcSeen m hk hrun, ← hex]
      exact List.mem_map_of_mem he
    · rw [runE, valE e.1 hex]; exact h.srcVal m hk hrun hnd e he
  · intro m hk hrun hst hruns
    rw [kE] at hk; rw [runE] at hrun; rw [runsE] at hruns; rw [seenE]
    rcases hD.newDirty m hst with h1 | h1
    · rw [st1] at h1
      obtain ⟨e, he, hne⟩ := h.verDirty m hk hrun h1 hruns
      refine ⟨e, he, ?_⟩
      have := h.verLe m e he
      have := verMono e.1
      omega
    · have hsrc : x ∈ (s.get m).sources := (h.edge x m).1 (by rw [← subs1]; exact h1)
      rw [h.srcSeen m hk hrun] at hsrc
      obtain ⟨e, he, hex⟩ := List.mem_map.1 hsrc
      refine ⟨e, he, ?_⟩
      have := h.verLe m e he
      rw [hex] at this ⊢
      rw [verx]; omega
  · intro w e he
    rw [seenE] at he
    exact Nat.le_trans (h.verLe w e he) (verMono e.1)
  · intro w a ha; rw [srcE] at ha; rw [kE]; exact h.srcData w a ha

/-- a signal write logs `set x` followed by wake-ups: glitch-free, the environment changes at `x` only -/
theorem SetPost.gf (p : Prog) {s s' : State} {x : Nat} {v : Int} (h : SetPost s s' x v) : StateGF p s s' := by
  obtain ⟨w, hw, gw⟩ := h.logs
  refine ⟨_, hw, .set (env1 := envOf s') ?_ (GlitchFree.plain (SigEq.refl _ _) w (fun ev hev => (gw ev hev).plain))⟩
  intro i _ _ hne
  simp only [envOf, h.val i hne]

/-- the state after the store and before the notifications has the same graph and states -/
theorem setSignal_pre (s : State) (x : Nat) (v : Int) (i : Nat) :
    let s1 := (s.upd x fun n => { n with val := some v, ver := n.ver + 1 }).emit (.set x)
    (s1.get i).kind = (s.get i).kind ∧ (s1.get i).st = (s.get i).st ∧ (s1.get i).subs = (s.get i).subs ∧
    (s1.get i).alive = (s.get i).alive := by
  simp only [State.emit_get]
  rw [State.get_upd]; split <;> exact ⟨rfl, rfl, rfl, rfl⟩


end Leptos.Reactive
