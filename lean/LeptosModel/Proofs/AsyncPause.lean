import LeptosModel.Model.AsyncPause
import LeptosModel.Proofs.AsyncRun
/-!
# Proofs/AsyncPause — after a swallowed notification, a write with the owner running restores the invariant (C10)

A poll of the derived's task under a paused owner (`pollDPaused`) leaves the invariant of `Proofs/Async`: the state may
be `Dirty` (or the source memo dirty) with the channel flag cleared and the task asleep.  A source write that notifies
the derived (`setSrc` of a source it reads, or of any source when it reads through the memo) re-arms everything:
the result satisfies `Inv` and `RInv` again (`Good.write_after_paused_poll`), so everything proved about invariant
states applies from there on (`settles_of`).
-/
namespace Leptos.Async

set_option maxHeartbeats 1000000

/-- at a settled point the derived's task sleeps at `rx.next()` with nothing pending -/
theorem settled_waiting' {s : State} (h : Inv s) (hs : settled s = true) :
    s.pc = .waiting ∧ s.loading = false ∧ s.dstate = .clean ∧ readyList s = [] ∧ inputsNow s = s.src := by
  simp only [settled, Bool.and_eq_true, decide_eq_true_eq, List.isEmpty_iff] at hs
  obtain ⟨⟨hst, hrl⟩, hg⟩ := hs
  obtain ⟨hd, he, ha⟩ := readyList_nil hrl
  obtain ⟨⟨r1, r2, r7, m1, aw, s1, s2, t1⟩, ⟨r3, r4, r5, r6, fresh, r8⟩, _, _⟩ := h
  have hpc : s.pc = .waiting := by
    cases hp : s.pc
    · have := (r3 hp).1; simp [hd] at this
    · rfl
    · obtain ⟨h1, _, h3, _⟩ := r6 hp
      rcases h1 with h1 | h1
      · exact absurd h1 hst
      · -- the result is there: either the tick has fired (then the task is woken) or the tick task is live
        cases htf : s.tickFired
        · exact absurd (t1 htf) (not_tickLive_of_idle hrl)
        · rcases h3 htf h1 with hw | hw
          · simp [hd] at hw
          · have := (r8 hw).2.2.2 hg; simp [hd] at this
  obtain ⟨hl, hw⟩ := r5 hpc
  obtain ⟨_, hch⟩ := hw hd
  refine ⟨hpc, hl, ?_, hrl, ?_⟩
  · cases hds : s.dstate
    · rfl
    · have := r2 hds; simp [hch] at this
    · exact absurd hds r1
  · -- the source memo, if used, is clean (else the channel flag would be set), so it caches the sources
    unfold inputsNow
    split
    · rename_i hv
      cases hsd : s.smDirty
      · exact (s1 hv hsd).1
      · have := s2 hsd; simp [hch] at this
    · rfl

/-- the conclusion of `C10_settles_on_latest` for any state that satisfies the invariants -/
theorem settles_of {s : State} (h : Inv s) (hr : RInv s) (hs : settled s = true) :
    s.loading = false ∧ s.value = expected s := by
  obtain ⟨hpc, hl, hcl, _, hin⟩ := settled_waiting' h hs
  refine ⟨hl, ?_⟩
  unfold expected
  cases hm : s.manualLive
  · cases hvm : s.viaMemo
    · have hq := (hr.q2 hvm hcl).1 ⟨hpc, (h.dr.r4 (by simp [hpc])).1⟩
      simp only [evalNow, hvm, Bool.false_eq_true, if_false]
      rw [← hq.1]
      simpa using hq.2 hm
    · have := (h.dr.fresh hvm h.ec.e6 hcl).1 hpc hm
      rw [hin] at this
      simpa [evalNow, hvm] using this
  · simpa using h.dc.m1 hm

/-- `RInv.setSrc` needs of `Inv` only that the state is not `Notifying` -/
theorem RInv.setSrc' {s : State} (h : RInv s) (r1 : s.dstate ≠ .notifying) (i : Nat) (v : Val) :
    RInv (Async.setSrc s i v) := by
  unfold Async.setSrc
  split
  · by_cases hv : s.viaMemo = true
    · -- memo modes: `RInv` says nothing
      dsimp only
      rw [if_pos hv]
      have h1 : RInv (smMarkDirty { s with src := setAt s.src i v }) := by
        refine ⟨?_, ?_, ?_⟩ <;> intro hv' <;> rw [(smMarkDirty_run _).1] at hv' <;> simp [hv] at hv'
      exact RInv.mMark h1
    · dsimp only
      rw [if_neg hv]
      have hv' : s.viaMemo = false := by simpa using hv
      by_cases hsub : i ∈ s.dSub
      · rw [if_pos hsub]
        have h0 : RInv { s with src := setAt s.src i v, dstate := .dirty } := by
          obtain ⟨q1, q2, q3⟩ := h
          exact ⟨q1, fun _ hc => by simp at hc, q3⟩
        have h1 : RInv (Async.dMarkDirty { s with src := setAt s.src i v }) := by
          have : Async.dMarkDirty { s with src := setAt s.src i v } =
              dNotify { s with src := setAt s.src i v, dstate := .dirty } := by
            simp [Async.dMarkDirty, r1]
          rw [this]
          refine h0.of_same ?_
          simp only [dNotify, SameRun]; split <;> simp
        exact RInv.mMark h1
      · -- a write to a source the derived has never read: the run reads the same things as before
        rw [if_neg hsub]
        have h1 : RInv { s with src := setAt s.src i v } := by
          obtain ⟨q1, q2, q3⟩ := h
          have hnot : i ∉ s.run.log.map (·.1) := by
            intro hm
            rcases List.mem_map.mp hm with ⟨p, hp, rfl⟩
            exact hsub (q1 hv' p hp)
          refine ⟨q1, ?_, q3⟩
          intro _ hc
          obtain ⟨qa, qb⟩ := q2 hv' hc
          refine ⟨fun hw => ?_, fun hw => ?_⟩
          · obtain ⟨hr, hval⟩ := qa hw
            refine ⟨?_, hval⟩
            show s.run = Run.execAll (setAt s.src i v) (s.fx.sync ++ s.fx.post) {}
            rw [Run.execAll_setAt _ _ _ _ _ (by rw [← hr]; exact hnot)]
            exact hr
          · have hr := qb hw
            show s.run = Run.execAll (setAt s.src i v) s.fx.sync {}
            rw [Run.execAll_setAt _ _ _ _ _ (by rw [← hr]; exact hnot)]
            exact hr
        exact RInv.mMark h1
  · exact h


/-- the state of the task back at `rx.next()` in the middle of a poll (`Mid`), with the notification swallowed; then a
write that marks the derived: the invariant holds again -/
theorem Mid.dirtyRestores {m : State} (h : Mid m) (hf : m.firstRun = false) (x : List Val)
    (hv : m.viaMemo = false ∨ x = m.src) :
    Inv (dMarkDirty { m with reg := true, chan := false, src := x }) := by
  obtain ⟨⟨r1, r2, r7, m1, aw, s1, s2, t1⟩, ⟨pcw, f1, f2, lk⟩, ⟨e1, e2, e3, e5, e6, e7, e8⟩, ⟨w1, w2, w3⟩⟩ := h
  unfold dMarkDirty dNotify
  inv_cases <;> (simp only [lastSeen, inputsNow, tickLive] at *; split <;> try split) <;>
    (rcases hv with hv | hv) <;> simp_all

theorem Mid.memoRestores {m : State} (h : Mid m) (hf : m.firstRun = false) (x : List Val) (hv : m.viaMemo = true) :
    Inv (smMarkDirty { m with reg := true, chan := false, src := x }) := by
  obtain ⟨⟨r1, r2, r7, m1, aw, s1, s2, t1⟩, ⟨pcw, f1, f2, lk⟩, ⟨e1, e2, e3, e5, e6, e7, e8⟩, ⟨w1, w2, w3⟩⟩ := h
  unfold smMarkDirty dMarkCheck dNotify
  inv_cases <;> (simp only [lastSeen, inputsNow, tickLive] at *; split <;> try split) <;> simp_all

theorem Mid.writeRestores {m : State} (h : Mid m) (hf : m.firstRun = false) (i : Nat) (v : Val)
    (hi : i < m.src.length) (hsub : m.viaMemo = true ∨ i ∈ m.dSub) :
    Inv (setSrc { m with reg := true, chan := false } i v) := by
  unfold setSrc
  rw [if_pos hi]
  by_cases hv : m.viaMemo = true
  · have h1 := h.memoRestores hf (setAt m.src i v) hv
    dsimp only
    rw [if_pos hv]
    split
    · exact h1.mMarkDirty
    · exact h1
  · have hv' : m.viaMemo = false := by simpa using hv
    have hs : i ∈ m.dSub := by
      rcases hsub with h' | h'
      · exact absurd h' hv
      · exact h'
    have h1 := h.dirtyRestores hf (setAt m.src i v) (.inl hv')
    dsimp only
    rw [if_neg hv, if_pos hs]
    split
    · exact h1.mMarkDirty
    · exact h1

/-- both invariants of `Model/Async` -/
structure Good (s : State) : Prop where
  i : Inv s
  r : RInv s

theorem Good.init (c : Cfg) : Good (init c) := ⟨Inv.init c, RInv.init c⟩

theorem Good.step {s : State} (h : Good s) (e : Event) : Good (step s e) := ⟨h.i.step e, h.r.step h.i e⟩

theorem Good.foldl {s : State} (h : Good s) (es : List Event) : Good (es.foldl Async.step s) := by
  induction es generalizing s with
  | nil => exact h
  | cons e es ih => exact ih (h.step e)

/-- a poll of the derived's task under a paused owner, then a write (owner paused or not) to a source the derived
reads: both invariants hold again -/
theorem Good.write_after_paused_poll {t : State} (h : Good t) (i : Nat) (v : Val)
    (hi : i < (pollDPaused t).src.length)
    (hsub : (pollDPaused t).viaMemo = true ∨ i ∈ (pollDPaused t).dSub) :
    Good (setSrc (pollDPaused t) i v) := by
  have key : ∀ m : State, Mid m → RInv m → m.firstRun = false →
      pollDPaused t = { m with reg := true, chan := false } → Good (setSrc (pollDPaused t) i v) := by
    intro m hm hr hf heq
    rw [heq] at hi hsub ⊢
    refine ⟨hm.writeRestores hf i v hi hsub, ?_⟩
    exact (hr.of_same (t := { m with reg := true, chan := false })
      ⟨rfl, rfl, rfl, rfl, rfl, rfl, rfl, rfl, rfl, rfl, rfl⟩).setSrc' hm.dc.r1 i v
  cases hpc : t.pc
  · -- never polled: the first run happens even under pause
    have : pollDPaused t = pollD t := by simp [pollDPaused, pollD, hpc]
    rw [this]
    exact (⟨h.i.pollD, h.r.pollD h.i⟩ : Good (pollD t)).step (.set i v)
  · have hf : t.firstRun = false := (h.i.dr.r4 (by simp [hpc])).1
    refine key { t with dWoken := false } (h.i.midWaiting hpc)
      (h.r.of_same ⟨rfl, rfl, rfl, rfl, rfl, rfl, rfl, rfl, rfl, rfl, rfl⟩) hf ?_
    simp [pollDPaused, hpc]
  · have hf : t.firstRun = false := (h.i.dr.r4 (by simp [hpc])).1
    by_cases hc : t.tickFired = true ∧ t.curStatus = .ready
    · have h0 : RInv { t with dWoken := false } := h.r.of_same ⟨rfl, rfl, rfl, rfl, rfl, rfl, rfl, rfl, rfl, rfl, rfl⟩
      have hv : t.version = t.fetchVersion := ((h.i.dr.r6 hpc).2.1).symm
      refine key (applyResult { t with dWoken := false }) (h.i.midFetched hpc)
        (h0.applyResult hpc hf hv) (by simp [hf]) ?_
      simp [pollDPaused, hpc, hc]
    · have : pollDPaused t = pollD t := by simp [pollDPaused, pollD, hpc, hc]
      rw [this]
      exact (⟨h.i.pollD, h.r.pollD h.i⟩ : Good (pollD t)).step (.set i v)

end Leptos.Async
