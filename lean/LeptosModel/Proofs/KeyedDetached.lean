import LeptosModel.Proofs.KeyedSummary
/-!
# `apply_diff` without a parent (`parent = None`): same storage, logs and id counter as with one (C11)

The `if let Some(parent) = parent { … }` blocks of `apply_diff` only touch the DOM, so the run without
a parent (`applyDiffDetached`) and the run with one (`applyDiff`) agree on everything but the parent's
children.
-/
namespace Leptos.Keyed

/-- two worlds that differ at most in the parent's children -/
def Sim (w w' : World) : Prop := w.storage = w'.storage ∧ w.next = w'.next ∧ w.log = w'.log

theorem Sim.refl (w : World) : Sim w w := ⟨rfl, rfl, rfl⟩

theorem sim_foldl {α : Type} (f g : World → α → World) (hfg : ∀ w w' c, Sim w w' → Sim (f w c) (g w' c)) :
    ∀ (cs : List α) (w w' : World), Sim w w' → Sim (cs.foldl f w) (cs.foldl g w')
  | [], _, _, h => h
  | c :: cs, w, w', h => sim_foldl f g hfg cs _ _ (hfg w w' c h)

theorem sim_unmount (w w' : World) (it : Item) (h : Sim w w') : Sim (w.unmount it) (w'.unmount it) := by
  obtain ⟨h1, h2, h3⟩ := h
  exact ⟨h1, h2, by simp [World.unmount, h3]⟩

theorem sim_clearPhase (w w' : World) (h : Sim w w') : Sim (clearPhase w) (clearPhase w') := by
  unfold clearPhase
  rw [h.1]
  have := sim_foldl World.unmount World.unmount (fun a b c hs => sim_unmount a b c hs)
    (w'.storage.filterMap id) w w' h
  exact ⟨rfl, this.2.1, this.2.2⟩

theorem sim_removeStep (w w' : World) (a : Nat) (h : Sim w w') : Sim (removeStep w a) (removeStep w' a) := by
  obtain ⟨h1, h2, h3⟩ := h
  unfold removeStep
  rw [h1]
  cases hv : w'.storage[a]? with
  | none => exact ⟨h1, h2, by simp [World.panicked, h3]⟩
  | some v =>
    cases v with
    | none => exact ⟨h1, h2, by simp [World.panicked, h3]⟩
    | some it => exact ⟨by simp [World.unmount], h2, by simp [World.unmount, h3]⟩

theorem sim_moveOutStep (w w' : World) (acc : List (Option Item)) (m : DiffOpMove) (h : Sim w w') :
    Sim (moveOutStep (w, acc) m).1 (moveOutStep (w', acc) m).1 ∧
    (moveOutStep (w, acc) m).2 = (moveOutStep (w', acc) m).2 := by
  obtain ⟨h1, h2, h3⟩ := h
  unfold moveOutStep
  simp only [h1]
  cases hv : w'.storage[m.from_]? with
  | none => exact ⟨⟨h1, h2, by simp [World.panicked, h3]⟩, rfl⟩
  | some v => exact ⟨⟨by simp, h2, h3⟩, rfl⟩

theorem sim_moveOut (U : List DiffOpMove) : ∀ (w w' : World) (acc : List (Option Item)), Sim w w' →
    Sim (U.foldl moveOutStep (w, acc)).1 (U.foldl moveOutStep (w', acc)).1 ∧
    (U.foldl moveOutStep (w, acc)).2 = (U.foldl moveOutStep (w', acc)).2 := by
  induction U with
  | nil => intro w w' acc h; exact ⟨h, rfl⟩
  | cons m U ih =>
    intro w w' acc h
    simp only [List.foldl_cons]
    obtain ⟨hs, he⟩ := sim_moveOutStep w w' acc m h
    have e1 : moveOutStep (w, acc) m = ((moveOutStep (w, acc) m).1, (moveOutStep (w, acc) m).2) := rfl
    have e2 : moveOutStep (w', acc) m = ((moveOutStep (w', acc) m).1, (moveOutStep (w, acc) m).2) := by
      rw [he]
    rw [e1, e2]
    exact ih _ _ _ hs

theorem sim_store (w w' : World) (a : Nat) (v : Option Item) (h : Sim w w') : Sim (w.store a v) (w'.store a v) := by
  obtain ⟨h1, h2, h3⟩ := h
  unfold World.store
  rw [h1]
  split
  · exact ⟨by simp [h1], h2, h3⟩
  · exact ⟨h1, h2, by simp [World.panicked, h3]⟩

theorem sim_setIndex (w w' : World) (it : Item) (i : Nat) (h : Sim w w') :
    Sim (w.setIndex it i) (w'.setIndex it i) := by
  obtain ⟨h1, h2, h3⟩ := h
  exact ⟨h1, h2, by simp [World.setIndex, h3]⟩

theorem sim_moveInStorage (w w' : World) (mc : DiffOpMove × Option Item) (h : Sim w w') :
    Sim (moveInStorageStep w mc) (moveInStorageStep w' mc) := by
  unfold moveInStorageStep
  split
  · exact h
  · cases mc.2 with
    | none => exact sim_store _ _ _ _ h
    | some it => exact sim_setIndex _ _ _ _ (sim_store _ _ _ _ h)

/-- `placeItem` changes the children only — or panics where the following `children[at] = …` panics too -/
theorem placeItem_sim (w : World) (marker : NodeId) (a : Nat) (it : Item) :
    (a ≤ w.storage.length ∧ Sim (placeItem w marker a it) w) ∨
    (w.storage.length < a ∧ placeItem w marker a it = w.panicked) := by
  unfold placeItem
  by_cases h : w.storage.length < a
  · exact Or.inr ⟨h, by simp [h]⟩
  · left
    refine ⟨by omega, ?_⟩
    simp only [h, if_false]
    cases nextMounted w.storage a <;> exact ⟨rfl, rfl, rfl⟩

theorem sim_panicked_store (w w' : World) (a : Nat) (v : Option Item) (h : Sim w w')
    (ha : w'.storage.length ≤ a) : Sim (w.panicked.store a v) (w'.store a v) := by
  obtain ⟨h1, h2, h3⟩ := h
  unfold World.store
  have e1 : ¬ a < w.panicked.storage.length := by simp [World.panicked, h1]; omega
  have e2 : ¬ a < w'.storage.length := by omega
  rw [if_neg e1, if_neg e2]
  exact ⟨h1, h2, by simp [World.panicked, h3]⟩

theorem sim_moveInDom (marker : NodeId) (w w' : World) (mc : DiffOpMove × Option Item) (h : Sim w w') :
    Sim (moveInDomStep marker w mc) (moveInDomStepD w' mc) := by
  unfold moveInDomStep moveInDomStepD
  split
  · exact h
  · cases mc.2 with
    | none => exact ⟨h.1, h.2.1, by simp [World.panicked, h.2.2]⟩
    | some it =>
      simp only
      rcases placeItem_sim w marker mc.1.to_ it with ⟨_, hs⟩ | ⟨hlt, hp⟩
      · exact sim_store _ _ _ _ (sim_setIndex _ _ _ _ ⟨hs.1.trans h.1, hs.2.1.trans h.2.1, hs.2.2.trans h.2.2⟩)
      · rw [hp]
        have hlen : w'.storage.length ≤ mc.1.to_ := by rw [← h.1]; omega
        -- both runs panic at `children[to] = …`
        have hs : Sim (w.panicked.setIndex it mc.1.to_) ((w'.setIndex it mc.1.to_).panicked) :=
          ⟨h.1, h.2.1, by simp [World.panicked, World.setIndex, h.2.2]⟩
        unfold World.store
        have e1 : ¬ mc.1.to_ < (w.panicked.setIndex it mc.1.to_).storage.length := by
          simp [World.panicked, World.setIndex, h.1]; omega
        have e2 : ¬ mc.1.to_ < (w'.setIndex it mc.1.to_).storage.length := by
          simp [World.setIndex]; omega
        rw [if_neg e1, if_neg e2]
        exact ⟨hs.1, hs.2.1, by simp [World.panicked, World.setIndex, h.2.2]⟩

theorem sim_add (bs : Nat) (marker : NodeId) (to : List Key) (w w' : World) (a : DiffOpAdd) (h : Sim w w') :
    Sim (addStep bs marker to w a) (addStepD bs to w' a) := by
  unfold addStep addStepD
  cases to[a.at_]? with
  | none => exact ⟨h.1, h.2.1, by simp [World.panicked, h.2.2]⟩
  | some k =>
    simp only [buildItem]
    have hb : Sim ({ w with next := w.next + bs, log := { w.log with builds := w.log.builds ++ [(k, a.at_)] } } : World)
        ({ w' with next := w'.next + bs, log := { w'.log with builds := w'.log.builds ++ [(k, a.at_)] } } : World) :=
      ⟨h.1, by simp [h.2.1], by simp [h.2.2]⟩
    rw [h.2.1]
    cases a.mode with
    | append =>
      simp only
      exact sim_store _ _ _ _ ⟨h.1, rfl, by simp [h.2.2]⟩
    | normal =>
      simp only
      rcases placeItem_sim ({ w with next := w'.next + bs, log := { w.log with builds := w.log.builds ++ [(k, a.at_)] } })
        marker a.at_ { key := k, nodes := List.range' w'.next bs } with ⟨_, hs⟩ | ⟨hlt, hp⟩
      · exact sim_store _ _ _ _ ⟨hs.1.trans h.1, hs.2.1, hs.2.2.trans (by simp [h.2.2])⟩
      · rw [hp]
        refine sim_panicked_store _ _ _ _ ⟨h.1, rfl, by simp [h.2.2]⟩ ?_
        have hl : w'.storage.length = w.storage.length := by rw [h.1]
        rw [hl]
        exact Nat.le_of_lt hlt

/-- the phases after the `clear` test, without a parent -/
def pipelineD (bs : Nat) (to : List Key) (rem : List Nat) (U : List DiffOpMove)
    (ads : List DiffOpAdd) (nadd : Nat) (w : World) : World :=
  let w := rem.foldl removeStep w
  let r := U.foldl moveOutStep (w, [])
  let w := { r.1 with storage := r.1.storage ++ List.replicate nadd none }
  let mcs := U.zip r.2
  let w := mcs.foldl moveInStorageStep w
  let w := mcs.foldl moveInDomStepD w
  let w := ads.foldl (addStepD bs to) w
  { w with storage := w.storage.filter Option.isSome }

theorem applyDiff_eq (bs : Nat) (marker : NodeId) (d : Diff) (to : List Key) (w : World) :
    applyDiff bs marker d to w =
      if d.clear && d.added.isEmpty then (if d.clear then clearPhase w else w)
      else pipeline bs marker to d.removed (unpackMoves d).1 (unpackMoves d).2 d.added.length
        (if d.clear then clearPhase w else w) := by
  simp only [applyDiff, pipeline]

theorem applyDiffDetached_eq (bs : Nat) (d : Diff) (to : List Key) (w : World) :
    applyDiffDetached bs d to w =
      if d.clear && d.added.isEmpty then (if d.clear then clearPhase w else w)
      else pipelineD bs to d.removed (unpackMoves d).1 (unpackMoves d).2 d.added.length
        (if d.clear then clearPhase w else w) := by
  simp only [applyDiffDetached, pipelineD]

theorem pipeline_sim (bs : Nat) (marker : NodeId) (to : List Key) (rem : List Nat) (U : List DiffOpMove)
    (ads : List DiffOpAdd) (nadd : Nat) (w w' : World) (h : Sim w w') :
    Sim (pipeline bs marker to rem U ads nadd w) (pipelineD bs to rem U ads nadd w') := by
  unfold pipeline pipelineD
  simp only
  have h1 := sim_foldl removeStep removeStep sim_removeStep rem _ _ h
  obtain ⟨h2, h2'⟩ := sim_moveOut U _ _ [] h1
  rw [h2']
  have h3 : Sim
      ({ (List.foldl moveOutStep (List.foldl removeStep w rem, []) U).1 with
          storage := (List.foldl moveOutStep (List.foldl removeStep w rem, []) U).1.storage ++
            List.replicate nadd none } : World)
      ({ (List.foldl moveOutStep (List.foldl removeStep w' rem, []) U).1 with
          storage := (List.foldl moveOutStep (List.foldl removeStep w' rem, []) U).1.storage ++
            List.replicate nadd none } : World) :=
    ⟨by simp [h2.1], h2.2.1, h2.2.2⟩
  have h4 := sim_foldl moveInStorageStep moveInStorageStep sim_moveInStorage
    (U.zip (List.foldl moveOutStep (List.foldl removeStep w' rem, []) U).2) _ _ h3
  have h5 := sim_foldl (moveInDomStep marker) moveInDomStepD (sim_moveInDom marker)
    (U.zip (List.foldl moveOutStep (List.foldl removeStep w' rem, []) U).2) _ _ h4
  have h6 := sim_foldl (addStep bs marker to) (addStepD bs to) (sim_add bs marker to) ads _ _ h5
  exact ⟨by simp [h6.1], h6.2.1, h6.2.2⟩

/-- **the run without a parent agrees with the run with one on storage, id counter and logs** -/
theorem applyDiffDetached_sim (bs : Nat) (marker : NodeId) (d : Diff) (to : List Key) (w : World) :
    Sim (applyDiff bs marker d to w) (applyDiffDetached bs d to w) := by
  rw [applyDiff_eq, applyDiffDetached_eq]
  split
  · exact Sim.refl _
  · exact pipeline_sim _ _ _ _ _ _ _ _ _ (Sim.refl _)

theorem Summary.of_sim {f t : List Key} {old : List Item} {w w' : World} (h : Summary f t old w)
    (hs : Sim w w') : Summary f t old w' := by
  obtain ⟨h1, _, h3⟩ := hs
  exact ⟨h1 ▸ h.all_some, h1 ▸ h.len, h1 ▸ h.at_, h3 ▸ h.builds_nodup, h3 ▸ h.builds_mem, h3 ▸ h.unmounts_nodup,
    h3 ▸ h.unmounts_mem, h3 ▸ h.setIndex_nodup, h3 ▸ h.setIndex_mem, h3 ▸ h.no_panic⟩

/-- the world after `rebuild`, with or without a parent, is `Sim`ilar to the run with a parent -/
theorem rebuildWith_sim (D : List Key → List Key → Diff) (s : KState) (to : List Key) :
    Sim (applyDiff s.bs s.marker (D s.hashed to) to { s.w with log := {} }) (rebuildWith D s to).w := by
  unfold rebuildWith
  cases s.parent with
  | true => exact Sim.refl _
  | false => exact applyDiffDetached_sim _ _ _ _ _

theorem rebuildWith_w_of_parent (D : List Key → List Key → Diff) (s : KState) (to : List Key)
    (h : s.parent = true) :
    (rebuildWith D s to).w = applyDiff s.bs s.marker (D s.hashed to) to { s.w with log := {} } := by
  simp [rebuildWith, h]

end Leptos.Keyed
