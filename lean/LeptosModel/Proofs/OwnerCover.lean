import LeptosModel.Proofs.OwnerTree
/-!
# Proofs/OwnerCover — a pass reaches everything below its root (C08)

`Below st x d` : `d` is `x` or is reachable from `x` through `children` lists along owners that are
still alive (what `cleanup` recursion will `upgrade` successfully).  A pending `visit`/`drop` frame
*claims* every such `d`.  `Pending.step` shows that a claimed owner stays claimed until the step that
takes its lists; the cover invariants (`CoverC`, `CoverK`) then show that every cleanup and every
node of a claimed owner ends up executed / removed when the stack is empty.
-/
namespace Leptos.Owner

/-! ## field accessors -/

def fieldOf {α} (F : OwnerRec → α) (d : α) (st : Core) (x : Nat) : α :=
  match st.owners[x]? with
  | some r => F r
  | none => d

theorem childrenOf_eq (st : Core) (x : Nat) : childrenOf st x = fieldOf (·.children) [] st x := rfl
theorem cleanupsOf_eq (st : Core) (x : Nat) : cleanupsOf st x = fieldOf (·.cleanups) [] st x := rfl
theorem nodesOf_eq (st : Core) (x : Nat) : nodesOf st x = fieldOf (·.nodes) [] st x := rfl
theorem aliveB_eq (st : Core) (x : Nat) : st.aliveB x = fieldOf (·.alive) false st x := rfl

theorem fieldOf_setOwner {α} (F : OwnerRec → α) (d : α) {st : Core} {o : Nat} {r : OwnerRec}
    (hr : st.owners[o]? = some r) (r' : OwnerRec) (x : Nat) :
    fieldOf F d (st.setOwner o r') x = if x = o then F r' else fieldOf F d st x := by
  unfold fieldOf
  simp only [setOwner_owners]
  by_cases hx : x = o
  · subst hx; rw [List.getElem?_set_self (lt_of_getElem?_some hr)]; simp
  · rw [List.getElem?_set_ne (Ne.symm hx)]; simp [hx]

theorem fieldOf_modOwner_same {α} (F : OwnerRec → α) (d : α) (st : Core) (o : Nat) (f : OwnerRec → OwnerRec)
    (hf : ∀ r, F (f r) = F r) (x : Nat) : fieldOf F d (st.modOwner o f) x = fieldOf F d st x := by
  unfold fieldOf
  rw [modOwner_get]
  by_cases hx : x = o
  · simp only [hx, if_true]
    cases st.owners[o]? <;> simp [hf]
  · simp [hx]

theorem fieldOf_modOwner {α} (F : OwnerRec → α) (d : α) (st : Core) (o : Nat) (f : OwnerRec → OwnerRec) (x : Nat) :
    fieldOf F d (st.modOwner o f) x =
      if x = o then (match st.owners[x]? with | some r => F (f r) | none => d) else fieldOf F d st x := by
  unfold fieldOf
  rw [modOwner_get]
  by_cases hx : x = o
  · simp only [hx, if_true]
    cases st.owners[o]? <;> simp
  · simp [hx]

theorem fieldOf_congr {α} (F : OwnerRec → α) (d : α) {st st' : Core} (h : st'.owners = st.owners) (x : Nat) :
    fieldOf F d st' x = fieldOf F d st x := by unfold fieldOf; rw [h]

/-- `regCleanup` only appends to one `cleanups` list -/
theorem fieldOf_regCleanup {α} (F : OwnerRec → α) (d : α) (st : Core) (tag : Nat) (nested : Bool)
    (hF : ∀ r c, F { r with cleanups := r.cleanups ++ [c] } = F r) (x : Nat) :
    fieldOf F d (regCleanup st tag nested drops) x = fieldOf F d st x := by
  unfold regCleanup
  simp only
  split
  · rw [fieldOf_modOwner_same F d _ _ _ (fun r => hF r _)]; rfl
  · rfl

/-- `newItem` only appends to one `nodes` list -/
theorem fieldOf_newItem {α} (F : OwnerRec → α) (d : α) (st : Core) (v : Val)
    (hF : ∀ r k, F { r with nodes := r.nodes ++ [k] } = F r) (x : Nat) :
    fieldOf F d (newItem st v).1 x = fieldOf F d st x := by
  unfold newItem
  simp only
  split
  · rw [fieldOf_modOwner_same F d _ _ _ (fun r => hF r _)]; rfl
  · rfl

theorem fieldOf_newStored {α} (F : OwnerRec → α) (d : α) (st : Core) (v : Int)
    (hF : ∀ r k, F { r with nodes := r.nodes ++ [k] } = F r) (x : Nat) :
    fieldOf F d (newStored st v) x = fieldOf F d st x := by
  unfold newStored
  exact fieldOf_newItem F d st _ hF x

theorem cleanupsOf_regCleanup_mono (st : Core) (tag : Nat) (nested : Bool) (drops : Option Nat) (x : Nat) (c : Cleanup)
    (h : c ∈ cleanupsOf st x) : c ∈ cleanupsOf (regCleanup st tag nested drops) x := by
  unfold regCleanup
  simp only
  split
  · next o _ =>
    rw [cleanupsOf_eq, fieldOf_modOwner]
    by_cases hx : x = o
    · simp only [hx, if_true]
      rw [cleanupsOf_eq] at h
      unfold fieldOf at h
      subst hx
      split
      · next r hr =>
        have hr' : st.owners[x]? = some r := hr
        rw [hr'] at h
        simp only [List.mem_append]; exact Or.inl h
      · next hr =>
        have hr' : st.owners[x]? = none := hr
        rw [hr'] at h; exact h
    · simp only [hx, if_false]; exact h
  · exact h

theorem nodesOf_newItem_mono (st : Core) (v : Val) (x : Nat) (k : Key)
    (h : k ∈ nodesOf st x) : k ∈ nodesOf (newItem st v).1 x := by
  unfold newItem
  simp only
  split
  · next o _ =>
    rw [nodesOf_eq, fieldOf_modOwner]
    by_cases hx : x = o
    · simp only [hx, if_true]
      rw [nodesOf_eq] at h
      unfold fieldOf at h
      subst hx
      split
      · next r hr =>
        have hr' : st.owners[x]? = some r := hr
        rw [hr'] at h
        simp only [List.mem_append]; exact Or.inl h
      · next hr =>
        have hr' : st.owners[x]? = none := hr
        rw [hr'] at h; exact h
    · simp only [hx, if_false]; exact h
  · exact h

/-! ## reachability below an owner -/

inductive Below (st : Core) : Nat → Nat → Prop
  | refl (x : Nat) : Below st x x
  | step {x c d : Nat} : c ∈ childrenOf st x → st.aliveB c = true → Below st c d → Below st x d

theorem Below.le {st : Core} (hwf : TreeWF st) {x d : Nat} (h : Below st x d) : x ≤ d := by
  induction h with
  | refl => exact Nat.le_refl _
  | step hc _ _ ih => have := (hwf.child_gt _ _ hc).1; omega

theorem Below.congr {st st' : Core} (hc : ∀ x, childrenOf st' x = childrenOf st x)
    (ha : ∀ x, st'.aliveB x = st.aliveB x) {x d : Nat} (h : Below st x d) : Below st' x d := by
  induction h with
  | refl => exact Below.refl _
  | step hch hal _ ih => exact Below.step (by rw [hc]; exact hch) (by rw [ha]; exact hal) ih

/-- `st'` differs from `st` (as far as `children` and `alive` go) only at owner `x` -/
structure ClearedAt (st st' : Core) (x : Nat) : Prop where
  children : ∀ y, y ≠ x → childrenOf st' y = childrenOf st y
  alive : ∀ y, y ≠ x → st'.aliveB y = st.aliveB y

theorem Below.split {st st' : Core} {x : Nat} (hc : ClearedAt st st' x) {y d : Nat} (h : Below st y d) :
    Below st x d ∨ (y ≠ x ∧ Below st' y d) := by
  induction h with
  | refl y =>
    by_cases hy : y = x
    · subst hy; exact Or.inl (Below.refl _)
    · exact Or.inr ⟨hy, Below.refl _⟩
  | @step y c d hch hal hsub ih =>
    by_cases hy : y = x
    · subst hy; exact Or.inl (Below.step hch hal hsub)
    · rcases ih with ih | ⟨hcx, ih⟩
      · exact Or.inl ih
      · refine Or.inr ⟨hy, Below.step ?_ ?_ ih⟩
        · rw [hc.children y hy]; exact hch
        · rw [hc.alive c hcx]; exact hal

theorem Below.under {st st' : Core} (hwf : TreeWF st) {x : Nat} (hc : ClearedAt st st' x) {c d : Nat}
    (hlt : x < c) (h : Below st c d) : Below st' c d := by
  induction h with
  | refl => exact Below.refl _
  | @step y c d hch hal _ ih =>
    have hgt := (hwf.child_gt _ _ hch).1
    refine Below.step ?_ ?_ (ih (by omega))
    · rw [hc.children y (by omega)]; exact hch
    · rw [hc.alive c (by omega)]; exact hal

/-! ## claims -/

def Claims (st : Core) (f : Frame) (d : Nat) : Prop :=
  match f with
  | .visit x _ => st.aliveB x = true ∧ Below st x d
  | .drop x _ => Below st x d
  | _ => False

def Pending (st : Core) (fs : List Frame) (d : Nat) : Prop := ∃ f ∈ fs, Claims st f d

/-- this step takes the lists of owner `d` -/
def Expanded (st : Core) (f : Frame) (d : Nat) : Prop :=
  match f with
  | .visit x _ => x = d ∧ st.aliveB d = true
  | .drop x _ => x = d
  | _ => False

theorem Pending.mono {st : Core} {fs fs' : List Frame} {d : Nat} (h : Pending st fs d)
    (hsub : ∀ f ∈ fs, f ∈ fs') : Pending st fs' d := by
  obtain ⟨f, hf, hc⟩ := h
  exact ⟨f, hsub f hf, hc⟩

theorem Claims.congr {st st' : Core} (hc : ∀ x, childrenOf st' x = childrenOf st x)
    (ha : ∀ x, st'.aliveB x = st.aliveB x) {f : Frame} {d : Nat} (h : Claims st f d) : Claims st' f d := by
  cases f with
  | visit x late => exact ⟨by rw [ha]; exact h.1, h.2.congr hc ha⟩
  | drop x late => exact Below.congr hc ha h
  | run c ow late => exact h
  | remove k late => exact h

/-- the effect of a `visit`/`drop` step that finds a record -/
theorem clearedAt_setOwner {st : Core} {x : Nat} {r : OwnerRec} (hr : st.owners[x]? = some r) (r' : OwnerRec) :
    ClearedAt st (st.setOwner x r') x := by
  refine ⟨fun y hy => ?_, fun y hy => ?_⟩
  · rw [childrenOf_eq, fieldOf_setOwner _ _ hr]; simp [hy]; rfl
  · rw [aliveB_eq, fieldOf_setOwner _ _ hr]; simp [hy]; rfl

theorem mem_expand_visit {r : OwnerRec} {o : Nat} {late : Bool} {c : Nat} (h : c ∈ r.children) :
    Frame.visit c late ∈ expand r o late := by
  unfold expand
  exact List.mem_append_left _ (List.mem_map.mpr ⟨c, h, rfl⟩)

theorem mem_expand_run {r : OwnerRec} {o : Nat} {late : Bool} {c : Cleanup} (h : c ∈ r.cleanups) :
    Frame.run c o late ∈ expand r o late := by
  unfold expand
  exact List.mem_append_right _ (List.mem_append_left _ (List.mem_map.mpr ⟨c, h, rfl⟩))

theorem mem_expand_remove {r : OwnerRec} {o : Nat} {late : Bool} {k : Key} (h : k ∈ r.nodes) :
    Frame.remove k late ∈ expand r o late := by
  unfold expand
  exact List.mem_append_right _ (List.mem_append_right _ (List.mem_map.mpr ⟨k, h, rfl⟩))

/-- owners other than the one a step takes keep (at least) their cleanups and nodes;
`children` and `alive` of every owner but the target are untouched -/
theorem step_run_tree (st : Core) (c : Cleanup) (ow : Nat) (late : Bool) :
    (∀ x, childrenOf (stepFrame st (.run c ow late)).1 x = childrenOf st x) ∧
    (∀ x, (stepFrame st (.run c ow late)).1.aliveB x = st.aliveB x) := by
  by_cases hn : c.nested = true
  · simp only [stepFrame, hn, if_true]
    constructor
    · intro x
      rw [childrenOf_eq, fieldOf_newStored _ _ _ _ (fun _ _ => rfl), fieldOf_regCleanup _ _ _ _ _ (fun _ _ => rfl)]
      rfl
    · intro x
      rw [aliveB_eq, fieldOf_newStored _ _ _ _ (fun _ _ => rfl), fieldOf_regCleanup _ _ _ _ _ (fun _ _ => rfl)]
      rfl
  · simp only [stepFrame, hn, if_false, Bool.false_eq_true]
    exact ⟨fun _ => rfl, fun _ => rfl⟩

theorem step_remove_owners (st : Core) (k : Key) (late : Bool) :
    (stepFrame st (.remove k late)).1.owners = st.owners := rfl

/-- **a claimed owner stays claimed until its own lists are taken** -/
theorem Pending.step {st : Core} (hwf : TreeWF st) (f : Frame) (fs : List Frame) (d : Nat)
    (h : Pending st (f :: fs) d) :
    Expanded st f d ∨ Pending (stepFrame st f).1 ((stepFrame st f).2 ++ fs) d := by
  -- what happens to a claim `Below st x d` when the step takes the lists of `x`
  have key : ∀ (x : Nat) (r r' : OwnerRec) (late : Bool), st.owners[x]? = some r →
      Below st x d → x = d ∨ Pending (st.setOwner x r') (expand r x late ++ fs) d := by
    intro x r r' late hr hsub
    cases hsub with
    | refl => exact Or.inl rfl
    | @step _ c _ hch hal hsub =>
      right
      have hcl := clearedAt_setOwner hr r'
      have hgt := (hwf.child_gt _ _ hch).1
      have hch' : c ∈ r.children := by
        rw [childrenOf_eq] at hch; unfold fieldOf at hch; rw [hr] at hch; exact hch
      refine ⟨Frame.visit c late, List.mem_append_left _ (mem_expand_visit hch'), ?_, Below.under hwf hcl hgt hsub⟩
      rw [hcl.alive c (by omega)]; exact hal
  obtain ⟨g, hg, hcl⟩ := h
  cases f with
  | visit x late =>
    cases hr : st.owners[x]? with
    | none =>
      simp only [stepFrame, hr, List.nil_append]
      rcases List.mem_cons.mp hg with rfl | hg
      · exfalso
        have : st.aliveB x = false := by simp [Core.aliveB, hr]
        have h1 : st.aliveB x = true := hcl.1
        rw [this] at h1; exact Bool.noConfusion h1
      · exact Or.inr ⟨g, hg, hcl⟩
    | some r =>
      by_cases ha : r.alive = true
      · have hax : st.aliveB x = true := by simp [Core.aliveB, hr, ha]
        simp only [stepFrame, hr, ha, if_true]
        have hclr := clearedAt_setOwner hr (clearedRec r)
        have halive : ∀ y, (st.setOwner x (clearedRec r)).aliveB y = st.aliveB y := by
          intro y
          rw [aliveB_eq, fieldOf_setOwner _ _ hr]
          by_cases hy : y = x
          · subst hy; simp [clearedRec, hax, ha]
          · simp [hy]; rfl
        have fromx : Below st x d → Expanded st (Frame.visit x late) d ∨
            Pending (st.setOwner x (clearedRec r)) (expand r x late ++ fs) d := by
          intro hs
          rcases key x r (clearedRec r) late hr hs with h | h
          · left; subst h; exact ⟨rfl, hax⟩
          · exact Or.inr h
        rcases List.mem_cons.mp hg with rfl | hg
        · exact fromx hcl.2
        · -- the claim comes from a frame further down
          cases g with
          | visit y l2 =>
            rcases hcl.2.split hclr with h | ⟨hy, h⟩
            · exact fromx h
            · exact Or.inr ⟨_, List.mem_append_right _ hg, by rw [halive]; exact hcl.1, h⟩
          | drop y l2 =>
            rcases (show Below st y d from hcl).split hclr with h | ⟨hy, h⟩
            · exact fromx h
            · exact Or.inr ⟨_, List.mem_append_right _ hg, h⟩
          | run c ow l2 => exact False.elim hcl
          | remove k l2 => exact False.elim hcl
      · simp only [stepFrame, hr, ha, if_false, Bool.false_eq_true, List.nil_append]
        rcases List.mem_cons.mp hg with rfl | hg
        · exfalso
          have : st.aliveB x = false := by simp [Core.aliveB, hr, ha]
          have h1 : st.aliveB x = true := hcl.1
          rw [this] at h1; exact Bool.noConfusion h1
        · exact Or.inr ⟨g, hg, hcl⟩
  | drop x late =>
    cases hr : st.owners[x]? with
    | none =>
      simp only [stepFrame, hr, List.nil_append]
      rcases List.mem_cons.mp hg with rfl | hg
      · -- `Below st x d` from an owner without a record: only `d = x`
        have hs : Below st x d := hcl
        cases hs with
        | refl => exact Or.inl rfl
        | step hch _ _ =>
          rw [childrenOf_eq] at hch; unfold fieldOf at hch; rw [hr] at hch; cases hch
      · exact Or.inr ⟨g, hg, hcl⟩
    | some r =>
      simp only [stepFrame, hr]
      have hclr := clearedAt_setOwner hr (deadRec r)
      have fromx : Below st x d → Expanded st (Frame.drop x late) d ∨
          Pending (st.setOwner x (deadRec r)) (expand r x late ++ fs) d := by
        intro hs
        rcases key x r (deadRec r) late hr hs with h | h
        · left; exact h
        · exact Or.inr h
      rcases List.mem_cons.mp hg with rfl | hg
      · exact fromx hcl
      · cases g with
        | visit y l2 =>
          rcases hcl.2.split hclr with h | ⟨hy, h⟩
          · exact fromx h
          · exact Or.inr ⟨_, List.mem_append_right _ hg, by rw [hclr.alive y hy]; exact hcl.1, h⟩
        | drop y l2 =>
          rcases (show Below st y d from hcl).split hclr with h | ⟨hy, h⟩
          · exact fromx h
          · exact Or.inr ⟨_, List.mem_append_right _ hg, h⟩
        | run c ow l2 => exact False.elim hcl
        | remove k l2 => exact False.elim hcl
  | run c ow late =>
    right
    obtain ⟨h1, h2⟩ := step_run_tree st c ow late
    rcases List.mem_cons.mp hg with rfl | hg
    · exact False.elim hcl
    · exact ⟨g, List.mem_append_right _ hg, hcl.congr h1 h2⟩
  | remove k late =>
    right
    rcases List.mem_cons.mp hg with rfl | hg
    · exact False.elim hcl
    · refine ⟨g, List.mem_append_right _ hg, hcl.congr (fun x => ?_) (fun x => ?_)⟩
      · rw [childrenOf_eq, childrenOf_eq]; exact fieldOf_congr _ _ rfl x
      · rw [aliveB_eq, aliveB_eq]; exact fieldOf_congr _ _ rfl x

end Leptos.Owner
